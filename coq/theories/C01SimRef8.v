(* C01, simulation, reference half for fragment F8 (declarations in scopes).
   A statement in a declaring position may declare locals: [en] grows (in its innermost scope) and the
   list of the cells of the visible locals grows in front; the body of a Repeat runs in a scope of its
   own, and at the end of a round RefSem returns to the environment of the loop while the direct
   evaluator keeps the last [length R] entries of the store (keep_last).  The invariant [inv] / [stI]
   is that of C01SimRef7. *)
From Coq Require Import List NArith ZArith Bool Lia.
From Cao Require Import CheckUtil Bits CardAst Table TableProofs StdlibGen RefSem
     C01SimDefs C01SimRef C01SimDefs2 C01SimRef2 C01SimDefs3 C01SimRef3 C01SimDefs4 C01SimDefs5 C01SimRef5 C01SimDefs6 C01SimRef6 C01SimDefs7 C01SimRef7 C01SimDefs8.
Import ListNotations.

(* ------------------------------------------------------------------ lists *)
Lemma Forall2_len {A B} (Q : A -> B -> Prop) l1 l2 : Forall2 Q l1 l2 -> length l1 = length l2.
Proof. induction 1; cbn [length]; congruence. Qed.

Lemma Forall2_suffix {A B} (Q : A -> B -> Prop) : forall (a1 : list A) (b1 : list B) a2 b2,
  Forall2 Q (a1 ++ a2) (b1 ++ b2) -> length a2 = length b2 -> Forall2 Q a2 b2.
Proof.
  induction a1 as [|x a1 IH]; intros [|y b1] a2 b2 H L; cbn [app] in H.
  - exact H.
  - apply Forall2_len in H. cbn [length] in H. rewrite app_length in H. lia.
  - apply Forall2_len in H. cbn [length] in H. rewrite app_length in H. lia.
  - inversion H; subst. eapply IH; eauto.
Qed.

Lemma split_names (R1 : lstore) : forall nn L, map fst R1 = nn ++ L ->
  exists A B, R1 = A ++ B /\ map fst A = nn /\ map fst B = L.
Proof.
  intros nn. revert R1. induction nn as [|x nn IH]; intros R1 L H.
  - exists [], R1. auto.
  - destruct R1 as [|p R1]; [discriminate H|]. cbn [map app] in H. injection H as Hx H.
    destruct (IH _ _ H) as (A & B & -> & HA & HB). exists (p :: A), B. cbn [map app]. rewrite Hx, HA. auto.
Qed.

Lemma vis_app A B : vis (A ++ B) = vis A ++ vis B.
Proof. apply filter_app. Qed.

(* the end of a scope: the entries declared inside are dropped, the old environment is good again *)
Lemma stI_keep en ks cells0 R en' pre s' R1 g' nn :
  inv en cells0 R ks -> stI en' (pre ++ ks) s' R1 g' -> map fst R1 = nn ++ map fst R ->
  stI en ks s' (keep_last (length R) R1) g' /\ map fst (keep_last (length R) R1) = map fst R.
Proof.
  intros Hinv (Hh & Hg & (HF & _) & Hsim) Hn.
  destruct (split_names _ _ _ Hn) as (A & B & -> & HA & HB).
  assert (HL : length B = length R) by (rewrite <- (map_length fst B), HB; apply map_length).
  rewrite <- HL, keep_last_app. split; [|exact HB].
  apply stI_intro; auto.
  - eapply inv_restore; [exact Hinv | exact HB |].
    rewrite vis_app in HF. eapply Forall2_suffix; [exact HF|].
    destruct (vis_names _ _ HB) as [_ HB']. rewrite HB'. destruct Hinv as (HF0 & _). eapply Forall2_len; exact HF0.
  - rewrite <- app_assoc in Hsim. apply simples_app in Hsim. apply Hsim.
Qed.

(* ------------------------------------------------------------------ results *)
Definition res8 (ks : list nat) (Lnext : list str) (r : res) (run : nat -> option (bool * lstore * gl)) : Prop :=
  r = RFuel \/
  (exists n s' en' nks R' g', r = ok [] en' s' /\ run n = Some (true, R', g') /\ stI en' (nks ++ ks) s' R' g' /\
                              has_scope en' /\ map fst R' = Lnext) \/
  (exists n s' e' R' g', r = err EVarNotFound e' s' /\ run n = Some (false, R', g') /\
                         st_heap s' = [] /\ st_globals s' = g' /\ simples (R' ++ g')).

Lemma res8_ok ks L r run n s' en' nks R' g' :
  r = ok [] en' s' -> run n = Some (true, R', g') -> stI en' (nks ++ ks) s' R' g' -> has_scope en' -> map fst R' = L ->
  res8 ks L r run.
Proof. intros. right; left. exists n, s', en', nks, R', g'. auto 6. Qed.

Lemma res8_err ks L r run n s' e' en ks' R' g' :
  r = err EVarNotFound e' s' -> run n = Some (false, R', g') -> stI en ks' s' R' g' -> res8 ks L r run.
Proof. intros H1 H2 (A & B & _ & D). right; right. exists n, s', e', R', g'. auto 6. Qed.

Lemma res8_map ks L r (run run' : nat -> option (bool * lstore * gl)) :
  res8 ks L r run -> (forall n x, run n = Some x -> exists m, run' m = Some x) -> res8 ks L r run'.
Proof.
  intros [E|[(n & s' & en' & nks & R' & g' & E & Hr & H)|(n & s' & e' & R' & g' & E & Hr & H)]] Hm.
  - left; exact E.
  - destruct (Hm _ _ Hr) as [m Hr']. right; left. exists m, s', en', nks, R', g'. auto.
  - destruct (Hm _ _ Hr) as [m Hr']. right; right. exists m, s', e', R', g'. auto.
Qed.

Section Eval.
Variable P : list fentry.
Variable host : list str.
Variable limit : N.
Variable fi : nat.

Notation evalf := (eval P host limit).

Definition all8 (fuel : nat) : Prop :=
  (forall c s en ks R g, ok8 true (map fst R) c = true -> stI en ks s R g -> has_scope en ->
     res8 ks (names8 (map fst R) c) (evalf fuel (TkCard fi en c) s) (fun n => run8 n R g c)) /\
  (forall cs s en ks R g, oks8 true (map fst R) cs = true -> stI en ks s R g -> has_scope en ->
     res8 ks (names_seq8 (map fst R) cs) (evalf fuel (TkSeq fi en cs) s) (fun n => runs8 n R g cs)) /\
  (forall e b s en ks R g, expr_f1 e = true -> ok8 false (map fst R) b = true -> stI en ks s R g -> has_scope en ->
     res8 ks (map fst R) (evalf fuel (TkWhile fi en e b) s) (fun n => run8 n R g (CBin BWhile e b))) /\
  (forall i nv kk b s en ks R g, simple nv -> lv_ok i = true -> ok8 true (lvn i ++ [] :: [] :: map fst R) b = true ->
     stI en ks s R g -> has_scope en ->
     res8 ks (map fst R) (evalf fuel (TkRepeat fi en i nv kk b) s) (fun n => rep8 n i nv kk R g b)).

Lemma eval8 fuel : all8 fuel.
Proof.
  induction fuel as [|f (IH1 & IH2 & IH3 & IH4)].
  { split; [|split; [|split]]; intros; left; reflexivity. }
  split; [|split; [|split]].
  - (* a statement *)
    intros c st en ks R g Hc Hs Hsc.
    destruct c as [op a b|op a|op a b c| | | |z|bits|sl|sl|name|name|name|name args|name args|fc args|name e|name e|i e b|i1 k1 v1 it b|ty cards|cards|args cards];
      try (cbn [ok8] in Hc; discriminate Hc).
    + (* CBin *)
      destruct op; try (cbn [ok8] in Hc; discriminate Hc); cbn [ok8] in Hc; apply andb_true_iff in Hc; destruct Hc as [He Hb];
        pose proof (ok8_false_names _ _ Hb) as Hnm; pose proof (ok8_decl _ _ Hb) as Hb1;
        cbn [names8]; cbn [eval]; unfold F; (destruct (limit <? st_steps st)%N; [left; reflexivity|]);
        pose proof (stI_bump _ _ _ _ _ Hs) as Hbs; cbn [eval_card].
      * (* IfTrue *)
        pose proof (eval_cond7 P host limit fi _ He f (bump st) en ks R g Hbs) as [E|[(v & s1 & E & Hv & Hsv & Hs1)|(s1 & E & Hv & Hs1)]];
          cbn zeta in E; rewrite E; cbn [bnd ok err one].
        -- left; reflexivity.
        -- destruct (stI_elim _ _ _ _ _ Hs1) as (Hh1 & _). rewrite Hh1. destruct (v_bool [] v) eqn:Eb.
           ++ pose proof (IH1 b s1 en ks R g Hb1 Hs1 Hsc) as HH. rewrite Hnm in HH.
              eapply res8_map; [exact HH|]. intros n x Hr. exists (S n). cbn [run8]. rewrite Hv, Eb. exact Hr.
           ++ eapply (res8_ok _ _ _ _ 1%nat s1 en [] R g); [reflexivity | cbn [run8]; rewrite Hv, Eb; reflexivity | exact Hs1 | exact Hsc | reflexivity].
        -- eapply (res8_err _ _ _ _ 1%nat s1 en en ks R g); [reflexivity | cbn [run8]; rewrite Hv; reflexivity | exact Hs1].
      * (* IfFalse *)
        pose proof (eval_cond7 P host limit fi _ He f (bump st) en ks R g Hbs) as [E|[(v & s1 & E & Hv & Hsv & Hs1)|(s1 & E & Hv & Hs1)]];
          cbn zeta in E; rewrite E; cbn [bnd ok err one].
        -- left; reflexivity.
        -- destruct (stI_elim _ _ _ _ _ Hs1) as (Hh1 & _). rewrite Hh1. destruct (v_bool [] v) eqn:Eb.
           ++ eapply (res8_ok _ _ _ _ 1%nat s1 en [] R g); [reflexivity | cbn [run8]; rewrite Hv, Eb; reflexivity | exact Hs1 | exact Hsc | reflexivity].
           ++ pose proof (IH1 b s1 en ks R g Hb1 Hs1 Hsc) as HH. rewrite Hnm in HH.
              eapply res8_map; [exact HH|]. intros n x Hr. exists (S n). cbn [run8]. rewrite Hv, Eb. exact Hr.
        -- eapply (res8_err _ _ _ _ 1%nat s1 en en ks R g); [reflexivity | cbn [run8]; rewrite Hv; reflexivity | exact Hs1].
      * (* While *)
        exact (IH3 a b (bump st) en ks R g He Hb Hbs Hsc).
    + (* IfElse *)
      destruct op; try (cbn [ok8] in Hc; discriminate Hc). cbn [ok8] in Hc. apply andb_true_iff in Hc. destruct Hc as [Hc Hb].
      apply andb_true_iff in Hc. destruct Hc as [He Ha].
      pose proof (ok8_false_names _ _ Ha) as Hnma. pose proof (ok8_decl _ _ Ha) as Ha1.
      pose proof (ok8_false_names _ _ Hb) as Hnmb. pose proof (ok8_decl _ _ Hb) as Hb1.
      cbn [names8]. cbn [eval]; unfold F; (destruct (limit <? st_steps st)%N; [left; reflexivity|]).
      pose proof (stI_bump _ _ _ _ _ Hs) as Hbs; cbn [eval_card].
      pose proof (eval_cond7 P host limit fi _ He f (bump st) en ks R g Hbs) as [E|[(v & s1 & E & Hv & Hsv & Hs1)|(s1 & E & Hv & Hs1)]];
        cbn zeta in E; rewrite E; cbn [bnd ok err one].
      * left; reflexivity.
      * destruct (stI_elim _ _ _ _ _ Hs1) as (Hh1 & _). rewrite Hh1. destruct (v_bool [] v) eqn:Eb.
        -- pose proof (IH1 b s1 en ks R g Ha1 Hs1 Hsc) as HH. rewrite Hnma in HH.
           eapply res8_map; [exact HH|]. intros n x Hr. exists (S n). cbn [run8]. rewrite Hv, Eb. exact Hr.
        -- pose proof (IH1 c s1 en ks R g Hb1 Hs1 Hsc) as HH. rewrite Hnmb in HH.
           eapply res8_map; [exact HH|]. intros n x Hr. exists (S n). cbn [run8]. rewrite Hv, Eb. exact Hr.
      * eapply (res8_err _ _ _ _ 1%nat s1 en en ks R g); [reflexivity | cbn [run8]; rewrite Hv; reflexivity | exact Hs1].
    + (* Comment *)
      cbn [names8]. cbn [eval]; unfold F; (destruct (limit <? st_steps st)%N; [left; reflexivity|]). cbn [eval_card].
      eapply (res8_ok _ _ _ _ 1%nat (bump st) en [] R g); [reflexivity | reflexivity | apply stI_bump, Hs | exact Hsc | reflexivity].
    + (* SetGlobalVar *)
      cbn [ok8] in Hc. apply andb_true_iff in Hc. destruct Hc as [Hne He]. apply negb_true_iff in Hne.
      assert (Hne' : is_empty name = false) by (destruct name; [discriminate Hne | reflexivity]).
      cbn [names8]. cbn [eval]; unfold F; (destruct (limit <? st_steps st)%N; [left; reflexivity|]).
      pose proof (stI_bump _ _ _ _ _ Hs) as Hbs; cbn [eval_card].
      pose proof (eval_cond7 P host limit fi _ He f (bump st) en ks R g Hbs) as [E|[(v & s1 & E & Hv & Hsv & Hs1)|(s1 & E & Hv & Hs1)]];
        cbn zeta in E; rewrite E; cbn [bnd ok err one].
      * left; reflexivity.
      * rewrite Hne'. eapply (res8_ok _ _ _ _ 1%nat _ en [] R _); [reflexivity | cbn [run8]; rewrite Hv; reflexivity | | exact Hsc | reflexivity].
        destruct (stI_elim _ _ _ _ _ Hs1) as (Hh & Hg & Hcl & Hsim). apply simples_app in Hsim. destruct Hsim as [HsR Hsg].
        apply stI_intro; cbn [set_globals st_heap st_globals st_cells app]; auto; [rewrite Hg; reflexivity|].
        apply simples_app. split; [exact HsR | apply set_assoc_simple; assumption].
      * eapply (res8_err _ _ _ _ 1%nat s1 en en ks R g); [reflexivity | cbn [run8]; rewrite Hv; reflexivity | exact Hs1].
    + (* SetVar: an assignment or a declaration *)
      cbn [ok8 orb] in Hc. apply andb_true_iff in Hc. destruct Hc as [Hc He]. rewrite andb_true_r in Hc. rename Hc into Hx.
      unfold var_ok in Hx. apply andb_true_iff in Hx. destruct Hx as [Hne Hdot]. apply negb_true_iff in Hne, Hdot.
      assert (Hne' : is_empty name = false) by (destruct name; [discriminate Hne | reflexivity]).
      cbn [names8]. cbn [eval]; unfold F; (destruct (limit <? st_steps st)%N; [left; reflexivity|]).
      pose proof (stI_bump _ _ _ _ _ Hs) as Hbs; cbn [eval_card].
      pose proof (eval_cond7 P host limit fi _ He f (bump st) en ks R g Hbs) as [E|[(v & s1 & E & Hv & Hsv & Hs1)|(s1 & E & Hv & Hs1)]];
        cbn zeta in E; rewrite E; cbn [bnd ok err one].
      * left; reflexivity.
      * rewrite (rsplit_no_dot _ Hdot), Hne'. destruct (lmem name (map fst R)) eqn:Hm.
        -- destruct (stI_assign en ks s1 R g name v Hne' Hm Hsv Hs1) as (c0 & A & Hs2 & Hf). rewrite A.
           eapply (res8_ok _ _ _ _ 1%nat _ en [] (set_assoc name v R) g);
             [reflexivity | cbn [run8]; rewrite Hv; unfold sets_local; rewrite Hm; reflexivity | exact Hs2 | exact Hsc | exact Hf].
        -- destruct Hs1 as (Hh & Hg & Hinv & Hsim).
           pose proof (inv_lk _ _ _ _ Hinv name Hne') as Hl. pose proof Hm as Hm'. rewrite lmem_assoc in Hm'.
           destruct (assoc name R) eqn:Ea; [discriminate|].
           rewrite Hl. destruct Hsc as (sc & r & Hsc). unfold declare, alloc_cell. rewrite Hsc.
           eapply (res8_ok _ _ _ _ 1%nat _ _ [length (st_cells s1)] ((name, v) :: R) g);
             [reflexivity | cbn [run8]; rewrite Hv; unfold sets_local; rewrite Hm; reflexivity | | eexists _, _; reflexivity | reflexivity].
           apply stI_intro; cbn [set_cells st_heap st_globals st_cells app]; auto.
           ++ apply inv_declare; assumption.
           ++ constructor; [exact Hsv | exact Hsim].
      * eapply (res8_err _ _ _ _ 1%nat s1 en en ks R g); [reflexivity | cbn [run8]; rewrite Hv; reflexivity | exact Hs1].
    + (* Repeat *)
      cbn [ok8] in Hc. apply andb_true_iff in Hc. destruct Hc as [Hc Hb]. apply andb_true_iff in Hc. destruct Hc as [He Hi].
      cbn [names8]. cbn [eval]; unfold F; (destruct (limit <? st_steps st)%N; [left; reflexivity|]).
      pose proof (stI_bump _ _ _ _ _ Hs) as Hbs; cbn [eval_card].
      pose proof (eval_cond7 P host limit fi _ He f (bump st) en ks R g Hbs) as [E|[(v & s1 & E & Hv & Hsv & Hs1)|(s1 & E & Hv & Hs1)]];
        cbn zeta in E; rewrite E; cbn [bnd ok err one].
      * left; reflexivity.
      * eapply res8_map; [exact (IH4 i v 0%Z b s1 en ks R g Hsv Hi Hb Hs1 Hsc)|].
        intros n x Hr. exists (S n). cbn [run8]. rewrite Hv. exact Hr.
      * eapply (res8_err _ _ _ _ 1%nat s1 en en ks R g); [reflexivity | cbn [run8]; rewrite Hv; reflexivity | exact Hs1].
    + (* Composite *)
      rewrite ok8_composite in Hc. rewrite names8_composite.
      cbn [eval]; unfold F; (destruct (limit <? st_steps st)%N; [left; reflexivity|]).
      pose proof (stI_bump _ _ _ _ _ Hs) as Hbs; cbn [eval_card].
      eapply res8_map; [exact (IH2 cards (bump st) en ks R g Hc Hbs Hsc)|].
      intros n x Hr. exists (S n). rewrite run8_composite. exact Hr.
  - (* a sequence *)
    intros cs st en ks R g Hc Hs Hsc. cbn [eval]; unfold F.
    destruct (limit <? st_steps st)%N; [left; reflexivity|]. pose proof (stI_bump _ _ _ _ _ Hs) as Hbs.
    destruct cs as [|c r].
    + eapply (res8_ok _ _ _ _ 0%nat (bump st) en [] R g); [reflexivity | reflexivity | exact Hbs | exact Hsc | reflexivity].
    + cbn [oks8 names_seq8] in *. apply andb_true_iff in Hc. destruct Hc as [Hc Hr].
      destruct (IH1 c (bump st) en ks R g Hc Hbs Hsc) as [E|[(n1 & s1 & en1 & nks1 & R1 & g1 & E & Hr1 & Hs1 & Hsc1 & Hl1)|(n1 & s1 & e1 & R1 & g1 & E & Hr1 & Hs1)]];
        rewrite E; cbn [bnd ok err].
      * left; reflexivity.
      * rewrite <- Hl1 in Hr |- *.
        destruct (IH2 r s1 en1 (nks1 ++ ks) R1 g1 Hr Hs1 Hsc1) as [E2|[(n2 & s2 & en2 & nks2 & R2 & g2 & E2 & Hr2 & Hs2 & Hsc2 & Hl2)|(n2 & s2 & e2 & R2 & g2 & E2 & Hr2 & Hs2)]];
          rewrite E2; cbn [bnd ok err app].
        -- left; reflexivity.
        -- rewrite app_assoc in Hs2.
           eapply (res8_ok _ _ _ _ (Nat.max n1 n2) s2 en2 (nks2 ++ nks1) R2 g2); [reflexivity | | exact Hs2 | exact Hsc2 | exact Hl2].
           cbn [runs8]. rewrite (run8_mono _ (Nat.max n1 n2) _ _ _ _ Hr1) by lia.
           eapply runs8_mono; [exact Hr2 | lia].
        -- right; right. exists (Nat.max n1 n2), s2, e2, R2, g2. split; [reflexivity|]. split; [|exact Hs2].
           cbn [runs8]. rewrite (run8_mono _ (Nat.max n1 n2) _ _ _ _ Hr1) by lia.
           eapply runs8_mono; [exact Hr2 | lia].
      * right; right. exists n1, s1, e1, R1, g1. split; [reflexivity|]. split; [|exact Hs1]. cbn [runs8]. rewrite Hr1. reflexivity.
  - (* a While loop *)
    intros e b st en ks R g He Hb Hs Hsc. cbn [eval]; unfold F.
    destruct (limit <? st_steps st)%N; [left; reflexivity|]. pose proof (stI_bump _ _ _ _ _ Hs) as Hbs.
    pose proof (ok8_false_names _ _ Hb) as Hnm. pose proof (ok8_decl _ _ Hb) as Hb1.
    pose proof (eval_cond7 P host limit fi _ He f (bump st) en ks R g Hbs) as [E|[(v & s1 & E & Hv & Hsv & Hs1)|(s1 & E & Hv & Hs1)]];
      cbn zeta in E; rewrite E; cbn [bnd ok err one].
    + left; reflexivity.
    + destruct (stI_elim _ _ _ _ _ Hs1) as (Hh1 & _). rewrite Hh1. destruct (v_bool [] v) eqn:Eb.
      * destruct (IH1 b s1 en ks R g Hb1 Hs1 Hsc) as [E2|[(n1 & s2 & en2 & nks2 & R2 & g2 & E2 & Hr1 & Hs2 & Hsc2 & Hl2)|(n1 & s2 & e2 & R2 & g2 & E2 & Hr1 & Hs2)]];
          rewrite E2; cbn [bnd ok err].
        -- left; reflexivity.
        -- rewrite Hnm in Hl2. rewrite <- Hl2 in Hb |- *.
           destruct (IH3 e b s2 en2 (nks2 ++ ks) R2 g2 He Hb Hs2 Hsc2) as [E3|[(n2 & s3 & en3 & nks3 & R3 & g3 & E3 & Hr2 & Hs3 & Hsc3 & Hl3)|(n2 & s3 & e3 & R3 & g3 & E3 & Hr2 & Hs3)]]; rewrite E3.
           ++ left; reflexivity.
           ++ rewrite app_assoc in Hs3.
              eapply (res8_ok _ _ _ _ (S (Nat.max n1 n2)) s3 en3 (nks3 ++ nks2) R3 g3); [reflexivity | | exact Hs3 | exact Hsc3 | exact Hl3].
              cbn [run8]. rewrite Hv, Eb. rewrite (run8_mono _ (Nat.max n1 n2) _ _ _ _ Hr1) by lia.
              eapply run8_mono; [exact Hr2 | lia].
           ++ right; right. exists (S (Nat.max n1 n2)), s3, e3, R3, g3. split; [reflexivity|]. split; [|exact Hs3].
              cbn [run8]. rewrite Hv, Eb. rewrite (run8_mono _ (Nat.max n1 n2) _ _ _ _ Hr1) by lia.
              eapply run8_mono; [exact Hr2 | lia].
        -- right; right. exists (S n1), s2, e2, R2, g2. split; [reflexivity|]. split; [|exact Hs2].
           cbn [run8]. rewrite Hv, Eb, Hr1. reflexivity.
      * eapply (res8_ok _ _ _ _ 1%nat s1 en [] R g); [reflexivity | cbn [run8]; rewrite Hv, Eb; reflexivity | exact Hs1 | exact Hsc | reflexivity].
    + eapply (res8_err _ _ _ _ 1%nat s1 en en ks R g); [reflexivity | cbn [run8]; rewrite Hv; reflexivity | exact Hs1].
  - (* the rounds of a Repeat *)
    intros i nv kk b st en ks R g Hnv Hi Hb Hs Hsc. cbn [eval]; unfold F.
    destruct (limit <? st_steps st)%N; [left; reflexivity|]. pose proof (stI_bump _ _ _ _ _ Hs) as Hbs.
    destruct (stI_elim _ _ _ _ _ Hbs) as (Hh & Hg & Hinv & Hsim). rewrite Hh.
    assert (Hcmp : exists c, v_cmp [] (VInt kk) nv = Some c) by (apply v_cmp_simple; [exact I | exact Hnv]).
    destruct Hcmp as [c Hc]. rewrite Hc.
    destruct c as [[| |]|];
      [ eapply (res8_ok _ _ _ _ 1%nat (bump st) en [] R g); [reflexivity | cbn [rep8]; rewrite Hc; reflexivity | exact Hbs | exact Hsc | reflexivity]
      |
      | eapply (res8_ok _ _ _ _ 1%nat (bump st) en [] R g); [reflexivity | cbn [rep8]; rewrite Hc; reflexivity | exact Hbs | exact Hsc | reflexivity]
      | eapply (res8_ok _ _ _ _ 1%nat (bump st) en [] R g); [reflexivity | cbn [rep8]; rewrite Hc; reflexivity | exact Hbs | exact Hsc | reflexivity] ].
    (* one more round *)
    set (R2 := ([], VInt kk) :: ([], nv) :: R).
    assert (Hsim2 : simples (R2 ++ g)) by (cbn [app R2]; constructor; [exact I|]; constructor; [exact Hnv | exact Hsim]).
    assert (Hinv2 : inv (push_scope en) (st_cells (bump st)) R2 ks) by (apply inv_push, inv_hidden; auto).
    assert (Hround : exists en1 pre s1,
              declare_opt i (VInt kk) (push_scope en) (bump st) = (en1, s1) /\ stI en1 (pre ++ ks) s1 (lvb i kk ++ R2) g /\
              has_scope en1).
    { destruct i as [x|].
      - cbn [lv_ok] in Hi. unfold var_ok in Hi. apply andb_true_iff in Hi. destruct Hi as [Hx _]. apply negb_true_iff in Hx.
        assert (Hx' : is_empty x = false) by (destruct x; [discriminate Hx | reflexivity]).
        cbn [declare_opt lvb app]. unfold declare, alloc_cell. cbn [push_scope e_scopes e_up].
        eexists _, [length (st_cells (bump st))], _. split; [reflexivity|]. split; [|eexists _, _; reflexivity].
        apply stI_intro; cbn [set_cells st_heap st_globals st_cells app]; auto.
        + apply (inv_declare (push_scope en) _ R2 ks x (VInt kk) [] (e_scopes en) Hinv2 Hx' eq_refl).
        + constructor; [exact I | exact Hsim2].
      - cbn [declare_opt lvb app]. exists (push_scope en), [], (bump st). split; [reflexivity|]. split; [|eexists _, _; reflexivity].
        apply stI_intro; auto. }
    destruct Hround as (en1 & pre & s1 & Ed & Hs1 & Hsc1). rewrite Ed.
    assert (Hnames : map fst (lvb i kk ++ R2) = lvn i ++ [] :: [] :: map fst R) by (destruct i; reflexivity).
    assert (Hb' : ok8 true (map fst (lvb i kk ++ R2)) b = true) by (rewrite Hnames; exact Hb).
    destruct (IH1 b s1 en1 (pre ++ ks) (lvb i kk ++ R2) g Hb' Hs1 Hsc1) as [E2|[(n1 & s2 & en2 & nks2 & R1 & g2 & E2 & Hr1 & Hs2 & Hsc2 & Hl2)|(n1 & s2 & e2 & R1 & g2 & E2 & Hr1 & Hs2)]];
      rewrite E2; cbn [bnd ok err].
    + left; reflexivity.
    + destruct (names8_ext b (map fst (lvb i kk ++ R2))) as (nn & Enn & _). rewrite Enn, Hnames in Hl2.
      rewrite app_assoc in Hs2.
      assert (Hl2' : map fst R1 = (nn ++ lvn i ++ [[]; []]) ++ map fst R).
      { rewrite Hl2. rewrite <- !app_assoc. reflexivity. }
      destruct (stI_keep en ks _ R en2 (nks2 ++ pre) s2 R1 g2 _ Hinv Hs2 Hl2') as [Hs2' Hk].
      assert (Hb2 : ok8 true (lvn i ++ [] :: [] :: map fst (keep_last (length R) R1)) b = true)
        by exact (eq_ind_r (fun L => ok8 true (lvn i ++ [] :: [] :: L) b = true) Hb Hk).
      destruct (IH4 i nv (wrap64 (kk + 1)) b s2 en ks (keep_last (length R) R1) g2 Hnv Hi Hb2 Hs2' Hsc)
        as [E3|[(n2 & s3 & en3 & nks3 & R3 & g3 & E3 & Hr2 & Hs3 & Hsc3 & Hl3)|(n2 & s3 & e3 & R3 & g3 & E3 & Hr2 & Hs3)]]; rewrite E3.
      * left; reflexivity.
      * eapply (res8_ok _ _ _ _ (S (Nat.max n1 n2)) s3 en3 nks3 R3 g3); [reflexivity | | exact Hs3 | exact Hsc3 | exact (eq_trans Hl3 Hk)].
        cbn [rep8]. rewrite Hc. fold R2. rewrite (run8_mono _ (Nat.max n1 n2) _ _ _ _ Hr1) by lia.
        eapply rep8_mono; [exact Hr2 | lia].
      * right; right. exists (S (Nat.max n1 n2)), s3, e3, R3, g3. split; [reflexivity|]. split; [|exact Hs3].
        cbn [rep8]. rewrite Hc. fold R2. rewrite (run8_mono _ (Nat.max n1 n2) _ _ _ _ Hr1) by lia.
        eapply rep8_mono; [exact Hr2 | lia].
    + right; right. exists (S n1), s2, e2, R1, g2. split; [reflexivity|]. split; [|exact Hs2].
      cbn [rep8]. rewrite Hc. fold R2. rewrite Hr1. reflexivity.
Qed.
End Eval.

Theorem eval_program_f8 fuel M host o :
  in_f8 M = true -> eval_program fuel M host = PObs o ->
  exists n R g, runs8 n [] [] (main_cards M) = Some (match ob_kind o with KOk => true | _ => false end, R, g) /\
                (ob_kind o = KOk \/ ob_kind o = KErr EVarNotFound) /\
                simples R /\ simples g /\
                ob_globals o = map (fun nv => (fst nv, vm_tree (to_vm (snd nv)))) g.
Proof.
  intros HM. destruct M as [subs funs imps]. cbn [in_f8] in HM.
  destruct subs; [|discriminate]. destruct funs as [|[name f] [|]]; try discriminate.
  destruct imps; [|discriminate].
  apply andb_true_iff in HM. destruct HM as [HM Hcards]. apply andb_true_iff in HM. destruct HM as [Hname _].
  apply str_eqb_main in Hname. subst name.
  destruct flatten_std_some as [stdl Hstd].
  unfold eval_program, program_of, add_std. cbn [app].
  change 64%nat with (S 63). rewrite (flatten_f1 63 f stdl Hstd).
  cbn [find_index fe_name]. change (str_eqb s_main s_main) with true. cbv iota.
  cbn [nth_error fe_fn main_cards].
  set (P := _ :: stdl).
  intros H.
  set (en0 := {| e_scopes := [[]]; e_up := [] |}) in *.
  assert (Hgs : stI en0 [] init_state [] []).
  { apply stI_intro; try reflexivity; [|constructor]. split; [constructor|]. split; [constructor|]. intros n _. reflexivity. }
  assert (Hsc0 : has_scope en0) by (eexists _, _; reflexivity).
  destruct (eval8 P host (step_limit fuel) 0 fuel) as (_ & Hseq & _).
  pose proof (Hseq _ _ en0 [] [] [] Hcards Hgs Hsc0)
    as [E|[(n & s1 & en1 & ks1 & R1 & g1 & E & Hrun & Hs1 & _)|(n & s1 & e1 & R1 & g1 & E & Hrun & Hh & Hg & Hsim)]];
    rewrite E in H; cbn [ok err] in H; try discriminate H.
  - injection H as <-. exists n, R1, g1. cbn [ob_kind ob_globals observe].
    destruct Hs1 as (Hh & Hg & _ & Hsim). apply simples_app in Hsim. destruct Hsim as [HsR Hsg].
    repeat split; auto. rewrite Hh, Hg. apply map_ext_in. intros [x v] Hin.
    unfold simples in Hsg. rewrite Forall_forall in Hsg. pose proof (Hsg _ Hin) as Hv. cbn [snd] in Hv.
    destruct v; try contradiction; reflexivity.
  - injection H as <-. exists n, R1, g1. cbn [ob_kind ob_globals observe].
    apply simples_app in Hsim. destruct Hsim as [HsR Hsg].
    repeat split; auto. rewrite Hh, Hg. apply map_ext_in. intros [x v] Hin.
    unfold simples in Hsg. rewrite Forall_forall in Hsg. pose proof (Hsg _ Hin) as Hv. cbn [snd] in Hv.
    destruct v; try contradiction; reflexivity.
Qed.
