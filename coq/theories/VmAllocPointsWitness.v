(* C02, allocation points: concrete states (non-vacuity of VmAllocPointsProofs.v) and the gap of RegisterUpvalue on
   hand-written bytecode. *)
From stdpp Require Import gmap list.
From Cao Require Import Gc GcProofs.
From Cao Require Import Stacks Vm VmUpvalueSem VmGcRoots VmGcClosed VmGcReach VmGcLink VmGcWitness
  VmAllocPoints VmAllocPointsProofs.

Definition code_only (c : list N) : program := mkProgram c [] [] [] [] [].

(* which of the addresses [l] a collection at allocation point [p] keeps *)
Definition ap_survivors (p : apoint) (l : list N) : option (list bool) :=
  (fun h' => map (fun a => bool_decide (is_Some (h' !! a))) l)
    <$> gc (vm_abs_g F0 (ap_state p) (ap_guards p)) (vm_roots (ap_state p)).
Definition ap_view (p : apoint) := (ap_kind p, ap_guards p, ap_uses p, ap_assumed p).

(* ---- 1. SetProperty with a fresh key: wit_heap, stack = value (string 8), table 1, key (string 9) ---- *)
Definition st_setprop : state :=
  mkState {| vcount := 3; vdata := [VObj 8%N; VObj 1%N; VObj 9%N; VNil; VNil] |}
          [mkFrame 0%N 0%N 0%N (Some 5%N)] [None; Some (VObj 9%N)] wit_heap (Some 4%N) [] 0%N 0%N.

Lemma small_closed (s : state) :
  (forall i, i < vcount (st_stack s) -> vok (hl s) (nth i (sd s) VNil)) ->
  Forall (frame_ok (hl s) (sd s)) (st_calls s) -> Forall (gvok (hl s)) (st_globals s) -> ook (hl s) (st_open s) ->
  Forall (obj_ok (hl s) (sd s)) (st_heap s) -> state_closed s.
Proof. intros. constructor; assumption. Qed.

Ltac slots := let i := fresh "i" in let Hi := fresh "Hi" in
  intros i Hi; do 4 (try (destruct i as [|i]; [cbn; unfold aok; cbn; first [exact I | lia]|])); try lia.
Ltac close_state :=
  apply small_closed; unfold hl, sd; cbn [st_heap st_open st_stack st_calls st_globals vdata vcount length wit_heap];
  [ slots
  | repeat constructor; cbn; try (unfold aok; cbn; lia); try slots
  | repeat constructor; cbn; try (unfold aok; cbn; lia)
  | cbn; try exact I; unfold aok; cbn; lia
  | repeat constructor; cbn; try (unfold aok; cbn; lia); try slots ].

Example st_setprop_closed : state_closed st_setprop.
Proof. unfold st_setprop. close_state. Qed.

Example ex_setprop :
  map ap_view (alloc_points F0 (code_only [33%N]) 0 st_setprop) = [(AGrow, [], [1; 9; 8]%N, [])] /\
  map (fun p => ap_survivors p (ap_uses p)) (alloc_points F0 (code_only [33%N]) 0 st_setprop)
  = [Some [true; true; true]].
Proof. vm_compute. split; reflexivity. Qed.

(* ---- 2. Closure; CopyLast; RegisterUpvalue 0 local with an open upvalue of slot 1 already in the list:
        heap = closure 0, open upvalue 1 (slot 1), string 2 in slot 0; stack = [str; nil; closure; closure] ---- *)
Definition prog_reg : program := code_only [9; 45; 0; 1; 16; 10]%N.
Definition st_reg0 : state :=   (* before CopyLast *)
  mkState {| vcount := 3; vdata := [VObj 2%N; VNil; VObj 0%N; VNil; VNil; VNil] |}
          [mkFrame 0%N 0%N 0%N None] [] [OClo 0%N 0%N []; OUp (mkUp (Some 1) VNil None); OStr [120%N]] (Some 1%N) [] 0%N 0%N.
Definition st_reg : state :=    (* after CopyLast *)
  match spush st_reg0 (slast st_reg0) with Some s => s | None => st_reg0 end.

Example st_reg0_closed : state_closed st_reg0.
Proof. unfold st_reg0. close_state. Qed.

Example ex_register :
  step F0 Debug prog_reg (run_at F0 Debug prog_reg false 100 0) 0 st_reg0 = SNext 1 st_reg /\
  map ap_view (alloc_points F0 prog_reg 1 st_reg) = [(AObject, [], [0; 1]%N, [0%N])] /\
  map (fun p => ap_survivors p (ap_uses p)) (alloc_points F0 prog_reg 1 st_reg) = [Some [true; true]].
Proof. vm_compute. repeat split. Qed.

(* ---- 3. NthRow 0 of table 1 of wit_heap (row: key 1 -> string 0): six allocations, the guards accumulate ---- *)
Definition st_nthrow : state :=
  mkState {| vcount := 3; vdata := [VObj 8%N; VObj 1%N; VInt 0; VNil; VNil] |}
          [mkFrame 0%N 0%N 0%N (Some 5%N)] [None; Some (VObj 9%N)] wit_heap (Some 4%N) [] 0%N 0%N.
Example st_nthrow_closed : state_closed st_nthrow.
Proof. unfold st_nthrow. close_state. Qed.

Example ex_nthrow :
  map ap_view (alloc_points F0 (code_only [39%N]) 0 st_nthrow)
  = [(AObject, [], [0%N], []); (ASecond, [], [0%N], []);
     (AObject, [11%N], [11; 0]%N, [0%N]); (ASecond, [11%N], [11; 0]%N, [0%N]);
     (AObject, [11; 12]%N, [11; 12; 0]%N, [0%N]); (ASecond, [11; 12]%N, [11; 12; 0]%N, [0%N])] /\
  map (fun p => ap_survivors p (ap_uses p)) (alloc_points F0 (code_only [39%N]) 0 st_nthrow)
  = [Some [true]; Some [true]; Some [true; true]; Some [true; true]; Some [true; true; true]; Some [true; true; true]].
Proof. vm_compute. split; reflexivity. Qed.

(* ---- 4. the native __to_array on table 1 (argument peeked, stays on the stack): init_table of the result, then the
        insert of the one entry into the guarded result ---- *)
Example ex_to_array :
  map ap_view (ap_native F0 NStdToArray wit_state)
  = [(AObject, [], [1%N], []); (ASecond, [], [1%N], []); (AGrow, [11%N], [1; 11; 0]%N, [0%N])] /\
  map (fun p => ap_survivors p (0%N :: ap_uses p)) (ap_native F0 NStdToArray wit_state)
  = [Some [true; true]; Some [true; true]; Some [true; true; true; true]].
Proof. vm_compute. split; reflexivity. Qed.

(* ---- the gap: RegisterUpvalue on hand-written bytecode WITHOUT the CopyLast the compiler emits.
   VmUpvalueSem.dead_slot_program = ScalarNil; Closure 0 0; RegisterUpvalue 0 local; Pop; Exit.  After two
   instructions the closure (object 0) is only on top of the stack; RegisterUpvalue pops it and calls init_upvalue:
   at that allocation point the closure is in ap_uses (c.upvalues.push(..) follows) but neither rooted nor guarded,
   and a collection there frees it. ---- *)
Definition st_gap : state :=
  mkState {| vcount := 2; vdata := VNil :: VObj 0%N :: repeat VNil 254 |}
          [mkFrame 0%N 0%N 0%N None] [] [OClo 0%N 0%N []] None [] 0%N 0%N.

Example alloc_gap_register_upvalue :
  boundary F0 Debug dead_slot_program 100%N wit_s0 st_gap /\
  map ap_view (alloc_points F0 dead_slot_program 10 st_gap) = [(AObject, [], [0%N], [0%N])] /\
  map (fun p => ap_survivors p (ap_uses p)) (alloc_points F0 dead_slot_program 10 st_gap) = [Some [false]].
Proof.
  split.
  - eapply (bd_step _ _ _ _ _ 0 0%N); [vm_compute; reflexivity|].
    eapply (bd_step _ _ _ _ _ 0 1%N); [vm_compute; reflexivity|]. apply bd_here.
  - vm_compute. split; reflexivity.
Qed.
