(* C01, simulation, reference half for fragment F3w (While at the top level of main). *)
From Coq Require Import List NArith ZArith Bool Lia.
From Cao Require Import CheckUtil Bits CardAst Table TableProofs StdlibGen RefSem
     C01SimDefs C01SimRef C01SimDefs2 C01SimRef2 C01SimDefs3.
Import ListNotations.

Section Eval.
Variable P : list fentry.
Variable host : list str.
Variable limit : N.
Variable fi : nat.

Notation evalf := (eval P host limit).

(* a loop or a statement: out of fuel, or done with some fuel of the direct evaluator *)
Definition top_res (r : res) (s : state) (run : nat -> option (bool * list (str * value))) : Prop :=
  r = RFuel \/
  (exists n s', r = ok [] env0 s' /\ run n = Some (true, st_globals s') /\ gs s') \/
  (exists n s', r = err EVarNotFound env0 s' /\ run n = Some (false, st_globals s') /\ gs s').

Lemma eval_while e b : expr_f1 e = true -> stmt_f2 b = true -> forall fuel s, gs s ->
  top_res (evalf fuel (TkWhile fi env0 e b) s) s (fun n => run_while n (st_globals s) e b).
Proof.
  intros He Hb. induction fuel as [|f IH]; intros s Hs; [left; reflexivity|].
  cbn [eval]. unfold F. destruct (limit <? st_steps s)%N; [left; reflexivity|].
  pose proof (gs_bump _ Hs) as Hbs.
  pose proof (eval_cond P host limit fi _ He f (bump s) Hbs) as [E|[(v & s1 & E & Hv & Hsv & Hg1 & Hs1)|(s1 & E & Hv & Hg1 & Hs1)]];
    cbn zeta in E; rewrite E; cbn [bnd ok err one bump st_globals] in *.
  - left; reflexivity.
  - rewrite (v_bool_simple _ _ Hsv). destruct (v_bool [] v) eqn:Eb.
    + pose proof (stmt_f2_good P host limit fi b Hb f s1 Hs1) as [E2|[(s2 & E2 & Hrun & Hs2)|(s2 & E2 & Hrun & Hs2)]];
        rewrite E2; cbn [bnd ok err].
      * left; reflexivity.
      * destruct (IH s2 Hs2) as [E3|[(n & s3 & E3 & Hr3 & Hs3)|(n & s3 & E3 & Hr3 & Hs3)]]; rewrite E3.
        -- left; reflexivity.
        -- right; left. exists (S n), s3. split; [reflexivity|]. split; [|exact Hs3].
           cbn [run_while]. rewrite Hv, Eb. rewrite <- Hg1, Hrun. exact Hr3.
        -- right; right. exists (S n), s3. split; [reflexivity|]. split; [|exact Hs3].
           cbn [run_while]. rewrite Hv, Eb. rewrite <- Hg1, Hrun. exact Hr3.
      * right; right. exists 1%nat, s2. split; [reflexivity|]. split; [|exact Hs2].
        cbn [run_while]. rewrite Hv, Eb. rewrite <- Hg1, Hrun. reflexivity.
    + right; left. exists 1%nat, s1. split; [reflexivity|]. split; [|exact Hs1].
      cbn [run_while]. rewrite Hv, Eb, Hg1. reflexivity.
  - right; right. exists 1%nat, s1. split; [reflexivity|]. split; [|exact Hs1].
    cbn [run_while]. rewrite Hv, Hg1. reflexivity.
Qed.

Lemma eval_top c : top_f3 c = true -> forall fuel s, gs s ->
  top_res (evalf fuel (TkCard fi env0 c) s) s (fun n => run_top3 n (st_globals s) c).
Proof.
  intros Hc fuel st Hs.
  assert (Hstmt : stmt_f2 c = true ->
            top_res (evalf fuel (TkCard fi env0 c) st) st (fun _ => Some (run_stmt2 (st_globals st) c))).
  { intros H2. pose proof (stmt_f2_good P host limit fi c H2 fuel st Hs) as [E|[(s1 & E & Hrun & Hs1)|(s1 & E & Hrun & Hs1)]].
    - left; exact E.
    - right; left. exists 0%nat, s1. rewrite Hrun. auto.
    - right; right. exists 0%nat, s1. rewrite Hrun. auto. }
  destruct c; try (apply Hstmt; exact Hc).
  destruct op; try (apply Hstmt; exact Hc).
  (* While *)
  cbn [top_f3] in Hc. apply andb_true_iff in Hc. destruct Hc as [He Hb].
  destruct fuel as [|f]; [left; reflexivity|]. cbn [eval]. unfold F.
  destruct (limit <? st_steps st)%N; [left; reflexivity|]. cbn [eval_card run_top3].
  pose proof (eval_while c1 c2 He Hb f (bump st) (gs_bump _ Hs)) as H. cbn [bump st_globals] in H. exact H.
Qed.

Definition seq_res3 (r : res) (s : state) (cards : list card) : Prop :=
  r = RFuel \/
  (exists s', r = ok [] env0 s' /\ runs3 (st_globals s) cards true (st_globals s') /\ gs s') \/
  (exists s', r = err EVarNotFound env0 s' /\ runs3 (st_globals s) cards false (st_globals s') /\ gs s').

Lemma eval_seq3 cards : forallb top_f3 cards = true -> forall fuel s, gs s ->
  seq_res3 (evalf fuel (TkSeq fi env0 cards) s) s cards.
Proof.
  induction cards as [|c r IH]; intros Hc fuel s Hs;
    (destruct fuel as [|f]; [left; reflexivity|]); cbn [eval]; unfold F;
    (destruct (limit <? st_steps s)%N; [left; reflexivity|]);
    pose proof (gs_bump _ Hs) as Hb; cbn [F].
  - right; left. exists (bump s). split; [reflexivity|]. split; [constructor | exact Hb].
  - cbn [forallb] in Hc. apply andb_true_iff in Hc. destruct Hc as [Hc Hr].
    unfold seq_res3.
    pose proof (eval_top c Hc f (bump s) Hb) as [E|[(n & s1 & E & Hrun & Hs1)|(n & s1 & E & Hrun & Hs1)]];
      rewrite E; cbn [bnd ok err bump st_globals] in *.
    + left; reflexivity.
    + pose proof (IH Hr f s1 Hs1) as [E2|[(s2 & E2 & Hrun2 & Hs2)|(s2 & E2 & Hrun2 & Hs2)]];
        rewrite E2; cbn [bnd ok err app].
      * left; reflexivity.
      * right; left. exists s2. split; [reflexivity|]. split; [|exact Hs2]. econstructor; eauto.
      * right; right. exists s2. split; [reflexivity|]. split; [|exact Hs2]. econstructor; eauto.
    + right; right. exists s1. split; [reflexivity|]. split; [|exact Hs1]. eapply runs3_err; eauto.
Qed.
End Eval.

Theorem eval_program_f3 fuel M host o :
  in_f3 M = true -> eval_program fuel M host = PObs o ->
  exists g, runs3 [] (main_cards M) (match ob_kind o with KOk => true | _ => false end) g /\
            (ob_kind o = KOk \/ ob_kind o = KErr EVarNotFound) /\
            Forall (fun nv => simple (snd nv)) g /\
            ob_globals o = map (fun nv => (fst nv, vm_tree (to_vm (snd nv)))) g.
Proof.
  intros HM. destruct M as [subs funs imps]. cbn [in_f3] in HM.
  destruct subs; [|discriminate]. destruct funs as [|[name f] [|]]; try discriminate.
  destruct imps; [|discriminate].
  apply andb_true_iff in HM. destruct HM as [HM Hcards]. apply andb_true_iff in HM. destruct HM as [Hname _].
  apply str_eqb_main in Hname. subst name.
  destruct flatten_std_some as [stdl Hstd].
  unfold eval_program, program_of, add_std. cbn [app].
  change 64%nat with (S 63). rewrite (flatten_f1 63 f stdl Hstd).
  cbn [find_index fe_name]. change (str_eqb s_main s_main) with true. cbv iota.
  cbn [nth_error fe_fn main_cards].
  set (P := _ :: stdl).
  intros H.
  assert (Hgs : gs init_state) by (split; [reflexivity | constructor]).
  pose proof (eval_seq3 P host (step_limit fuel) 0 _ Hcards fuel _ Hgs) as [E|[(s1 & E & Hrun & Hs1)|(s1 & E & Hrun & Hs1)]];
    fold env0 in H; rewrite E in H; cbn [ok err] in H; try discriminate H.
  - injection H as <-. exists (st_globals s1). cbn [ob_kind ob_globals observe]. destruct Hs1 as [Hh Hg].
    repeat split; auto. rewrite Hh. apply map_ext_in. intros [n v] Hin.
    rewrite Forall_forall in Hg. pose proof (Hg _ Hin) as Hv. cbn [snd] in Hv.
    destruct v; try contradiction; reflexivity.
  - injection H as <-. exists (st_globals s1). cbn [ob_kind ob_globals observe]. destruct Hs1 as [Hh Hg].
    repeat split; auto. rewrite Hh. apply map_ext_in. intros [n v] Hin.
    rewrite Forall_forall in Hg. pose proof (Hg _ Hin) as Hv. cbn [snd] in Hv.
    destruct v; try contradiction; reflexivity.
Qed.
