(* C07 at the level of the VM model, Part 7: nested runs are entered only in states whose tables satisfy the
   invariant.  [step] is parametric in the nested run [reenter]; here: when the state of an instruction satisfies
   the table invariant and the nested run keeps it (the contract proved in VmTableRun by induction over the
   nesting depth), the result of the instruction does not depend on what [reenter] does on states WITHOUT the
   invariant - every call of the nested run that an instruction or a native makes (call1 / try1 / call0 / rb1,
   min / max / sort once per entry) is made in a state with the invariant.  Together with
   VmTableRun.run_at_tables_wf (every run entered in such a state passes only through such states) this covers
   the states of the nested runs of a run. *)
From Coq Require Import NArith ZArith List Lia Bool.
From Cao Require Import ListUtil Bits Stacks StacksProofs Vm VmProofs VmNativeProofs C04VmProofs
  VmTableProofs VmTableKeys VmTableInstr VmTableNatives.
Import ListNotations.

Section Only.
Variable F : fops.
Variable bld : build.
Variable P : program.
Notation wf := (tables_wf F).

Variable re re' : N -> state -> rres.
Hypothesis Hag : forall ip s, wf (st_heap s) -> re ip s = re' ip s.
Hypothesis Hok : forall ip s, wf (st_heap s) -> GW F (st_heap s) (st_heap (rres_state (re' ip s))).

Section RF.
Variable cn cn' : N -> state -> nres.
Hypothesis Hcn : forall h s, wf (st_heap s) -> cn h s = cn' h s.

Lemma run_function_only fv s : wf (st_heap s) ->
  run_function P re cn fv s = run_function P re' cn' fv s.
Proof.
  intros W. unfold run_function. destruct fv as [| | |a]; try reflexivity.
  destruct (hget (st_heap s) a) as [o|]; [|reflexivity].
  destruct o as [t|b|h ar|h|h ar ups|u]; try reflexivity; cbv zeta.
  - destruct (code_len P =? 0)%N; [reflexivity|].
    destruct (assoc h (p_labels P)) as [src|]; [|reflexivity].
    destruct (_ <? ar)%N; [reflexivity|]. destruct (push_frame s _) as [s1|] eqn:E1; [|reflexivity].
    destruct (push_frame s1 _) as [s2|] eqn:E2; [|reflexivity].
    apply push_frame_heap in E1. apply push_frame_heap in E2.
    rewrite (Hag src s2) by (rewrite E2, E1; exact W). reflexivity.
  - rewrite (Hcn h s W). reflexivity.
  - destruct (code_len P =? 0)%N; [reflexivity|].
    destruct (assoc h (p_labels P)) as [src|]; [|reflexivity].
    destruct (_ <? ar)%N; [reflexivity|]. destruct (push_frame s _) as [s1|] eqn:E1; [|reflexivity].
    destruct (push_frame s1 _) as [s2|] eqn:E2; [|reflexivity].
    apply push_frame_heap in E1. apply push_frame_heap in E2.
    rewrite (Hag src s2) by (rewrite E2, E1; exact W). reflexivity.
Qed.
End RF.

Section Self.
Variable self self' : N -> state -> nres.
Hypothesis Hself : forall h s, wf (st_heap s) -> self h s = self' h s.
Hypothesis Hself_ok : forall h x, wf (st_heap x) -> NG F x (self' h x).

Local Notation rf := (run_function P re self).
Local Notation rf' := (run_function P re' self').
Lemma rf_only fv s : wf (st_heap s) -> rf fv s = rf' fv s.
Proof. apply run_function_only. exact Hself. Qed.

(* the state a nested call returns satisfies the invariant again *)
Lemma rf_wf fv s : wf (st_heap s) -> wf (st_heap (nres_state (rf' fv s))).
Proof. intros W. exact (proj2 (run_function_ok F P re' Hok self' fv s Hself_ok W)). Qed.

Lemma minmax_go_only less key_fn : forall l j i best s, wf (st_heap s) ->
  minmax_go F P re self less key_fn l j i best s = minmax_go F P re' self' less key_fn l j i best s.
Proof.
  induction l as [|[k v] rest IH]; intros j i best s W; cbn [minmax_go]; [reflexivity|].
  destruct (spush s v) as [s1|] eqn:E1; [|reflexivity]. apply spush_heap in E1.
  destruct (spush s1 k) as [s2|] eqn:E2; [|reflexivity]. apply spush_heap in E2.
  assert (W2 : wf (st_heap s2)) by (rewrite E2, E1; exact W).
  rewrite (rf_only key_fn s2 W2). pose proof (rf_wf key_fn s2 W2) as W3.
  destruct (rf' key_fn s2) as [key s3|e s3|a s3]; try reflexivity. cbn [nres_state] in W3.
  destruct (vcmp F (st_heap s3) key best) as [c| |]; [| |reflexivity].
  - destruct (match c with Lt => less | Gt => negb less | Eq => false end); apply IH; exact W3.
  - apply IH; exact W3.
Qed.

Lemma native_minmax_only less it kf s : wf (st_heap s) ->
  native_minmax F P re self less it kf s = native_minmax F P re' self' less it kf s.
Proof.
  intros W. unfold native_minmax. destruct it as [| | |a]; try reflexivity.
  destruct (hget (st_heap s) a) as [[t| | | | |]|] eqn:Ha; try reflexivity.
  destruct (snapshot F s t) as [[s0 entries]|] eqn:Es; [|reflexivity].
  destruct (snapshot_ok F _ _ _ _ _ W Ha Es) as ((_ & W0) & _).
  destruct (titer _ entries) as [[|[k0 v0] rest]|]; try reflexivity.
  destruct (spush s0 v0) as [s1|] eqn:E1; [|reflexivity]. apply spush_heap in E1.
  destruct (spush s1 k0) as [s2|] eqn:E2; [|reflexivity]. apply spush_heap in E2.
  assert (W2 : wf (st_heap s2)) by (rewrite E2, E1; exact W0).
  rewrite (rf_only kf s2 W2). pose proof (rf_wf kf s2 W2) as W3.
  destruct (rf' kf s2) as [key0 s3|e s3|a' s3]; try reflexivity. cbn [nres_state] in W3.
  rewrite (minmax_go_only less kf rest 1 0 key0 s3 W3). reflexivity.
Qed.

Lemma sort_keys_only key_fn : forall l s, wf (st_heap s) ->
  sort_keys P re self key_fn l s = sort_keys P re' self' key_fn l s.
Proof.
  induction l as [|[k v] rest IH]; intros s W; cbn [sort_keys]; [reflexivity|].
  destruct (spush s v) as [s1|] eqn:E1; [|reflexivity]. apply spush_heap in E1.
  destruct (spush s1 k) as [s2|] eqn:E2; [|reflexivity]. apply spush_heap in E2.
  assert (W2 : wf (st_heap s2)) by (rewrite E2, E1; exact W).
  rewrite (rf_only key_fn s2 W2). pose proof (rf_wf key_fn s2 W2) as W3.
  destruct (rf' key_fn s2) as [key s3|e s3|a s3]; try reflexivity. cbn [nres_state] in W3.
  rewrite (IH s3 W3). reflexivity.
Qed.

Lemma native_sorted_only it kf s : wf (st_heap s) ->
  native_sorted F P re self it kf s = native_sorted F P re' self' it kf s.
Proof.
  intros W. unfold native_sorted. destruct it as [| | |a]; try reflexivity.
  destruct (hget (st_heap s) a) as [[t| | | | |]|] eqn:Ha; try reflexivity.
  destruct (snapshot F s t) as [[s0 entries]|] eqn:Es; [|reflexivity].
  destruct (snapshot_ok F _ _ _ _ _ W Ha Es) as ((_ & W0) & _).
  destruct (titer _ entries) as [l|]; [|reflexivity].
  rewrite (sort_keys_only kf l s0 W0). reflexivity.
Qed.

Lemma native_body_only n s : wf (st_heap s) ->
  native_body F P re self n s = native_body F P re' self' n s.
Proof.
  intros W. destruct n; cbn [native_body]; cbv zeta; try reflexivity.
  - (* call1 *) destruct (spush s (speek s 0)) as [s1|] eqn:E; [|reflexivity]. apply spush_heap in E.
    apply rf_only. rewrite E. exact W.
  - (* try1 *) destruct (spush s (speek s 0)) as [s1|] eqn:E; [|reflexivity]. apply spush_heap in E.
    rewrite rf_only by (rewrite E; exact W). reflexivity.
  - (* call0 *) apply rf_only. exact W.
  - (* rb1 *) destruct (spush s (speek s 0)) as [s1|] eqn:E; [|reflexivity]. apply spush_heap in E.
    rewrite rf_only by (rewrite E; exact W). reflexivity.
  - apply native_minmax_only. exact W.
  - apply native_minmax_only. exact W.
  - apply native_sorted_only. exact W.
Qed.
End Self.

Lemma call_native_fuel_only : forall fuel h s, wf (st_heap s) ->
  call_native_fuel F P re fuel h s = call_native_fuel F P re' fuel h s.
Proof.
  induction fuel as [|f IH]; intros h s W; cbn [call_native_fuel]; [reflexivity|].
  destruct (find_native h all_natives) as [n|]; [|reflexivity].
  rewrite (native_body_only _ _ IH (call_native_fuel_ok F P re' Hok f) n s W). reflexivity.
Qed.

Lemma native_step_only h ip s : wf (st_heap s) ->
  native_step F P re h ip s = native_step F P re' h ip s.
Proof. intros W. unfold native_step, call_native. rewrite (call_native_fuel_only 8 h s W). reflexivity. Qed.

Ltac srefl := match goal with |- ?x = ?x => reflexivity end.

Theorem step_reenter_only_wf ip0 s : wf (st_heap s) ->
  step F bld P re ip0 s = step F bld P re' ip0 s.
Proof.
  intros W. unfold step. cbv zeta. destruct (nth (N.to_nat ip0) (p_code P) 255%N) as [|p]; [reflexivity|].
  do 6 (try destruct p as [p|p|]); try srefl.
  - (* CallFunction *)
    unfold i_11. rewrite spop_shape. destruct (snd (vs_pop VNil (st_stack s))) as [| | |a]; try srefl.
    cbn [st_heap set_stack].
    destruct (hget (st_heap s) a) as [[| | |h| |]|]; try srefl. apply native_step_only. exact W.
  - (* CallNative *)
    unfold i_4. destruct (op_u32 P (ip0 + 1)); [|srefl]. apply native_step_only. exact W.
Qed.

End Only.
