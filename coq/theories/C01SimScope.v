(* C01, simulation: the fragments are nested, and every program of the largest one is well-scoped
   (RefScope.well_scoped: the class property C01 quantifies over). *)
From Coq Require Import List NArith ZArith Bool Arith Lia.
From Cao Require Import CheckUtil CardAst Table RefSem RefScope StdlibGen C01SimDefs C01SimRef C01SimDefs2 C01SimDefs3 C01SimDefs4 C01SimDefs5 C01SimRef5 C01SimDefs6 C01SimDefs7.
Import ListNotations.

(* ------------------------------------------------------------------ nesting *)
Lemma stmt_f1_f2 c : stmt_f1 c = true -> stmt_f2 c = true.
Proof. destruct c; cbn; auto; discriminate. Qed.
Lemma stmt_f2_f3 c : stmt_f2 c = true -> top_f3 c = true.
Proof. destruct c; cbn [top_f3]; auto. destruct op; auto. cbn. discriminate. Qed.

Lemma forallb_impl {A} (p q : A -> bool) l : (forall x, p x = true -> q x = true) -> forallb p l = true -> forallb q l = true.
Proof.
  intros H. induction l as [|x r IH]; cbn [forallb]; [auto|]. intros E. apply andb_true_iff in E. destruct E as [E1 E2].
  rewrite (H _ E1), (IH E2). reflexivity.
Qed.

Lemma in_f1_f2 M : in_f1 M = true -> in_f2 M = true.
Proof.
  destruct M as [subs funs imps]. cbn [in_f1 in_f2]. destruct subs; [|discriminate].
  destruct funs as [|[name f] [|]]; try discriminate. destruct imps; [|discriminate].
  intros H. apply andb_true_iff in H. destruct H as [H1 H2]. rewrite H1. cbn [andb].
  apply (forallb_impl _ _ _ stmt_f1_f2 H2).
Qed.
Lemma in_f2_f3 M : in_f2 M = true -> in_f3 M = true.
Proof.
  destruct M as [subs funs imps]. cbn [in_f2 in_f3]. destruct subs; [|discriminate].
  destruct funs as [|[name f] [|]]; try discriminate. destruct imps; [|discriminate].
  intros H. apply andb_true_iff in H. destruct H as [H1 H2]. rewrite H1. cbn [andb].
  apply (forallb_impl _ _ _ stmt_f2_f3 H2).
Qed.

Lemma stmt_f2_4 c : stmt_f2 c = true -> stmt4 c = true.
Proof.
  induction c using CompilerWf.card_ind'; cbn [stmt_f2 stmt4]; auto; try discriminate.
  - destruct op; try discriminate; intros H; apply andb_true_iff in H; destruct H as [H1 H2]; rewrite H1, (IHc2 H2); reflexivity.
  - destruct op; try discriminate. intros H. apply andb_true_iff in H. destruct H as [H H3].
    apply andb_true_iff in H. destruct H as [H1 H2]. rewrite H1, (IHc2 H2), (IHc3 H3). reflexivity.
  - match goal with HF : Forall _ cards |- _ => induction HF as [|x r Hx _ IHr] end; cbn [forallb]; [auto|].
    intros H. apply andb_true_iff in H. destruct H as [H1 H2]. rewrite (Hx H1), (IHr H2). reflexivity.
Qed.
Lemma top_f3_4 c : top_f3 c = true -> stmt4 c = true.
Proof.
  intros H. destruct c; try (apply stmt_f2_4; exact H). destruct op; try (apply stmt_f2_4; exact H).
  cbn [top_f3] in H. cbn [stmt4]. apply andb_true_iff in H. destruct H as [H1 H2]. rewrite H1, (stmt_f2_4 _ H2). reflexivity.
Qed.
Lemma in_f3_f4 M : in_f3 M = true -> in_f4 M = true.
Proof.
  destruct M as [subs funs imps]. cbn [in_f3 in_f4]. destruct subs; [|discriminate].
  destruct funs as [|[name f] [|]]; try discriminate. destruct imps; [|discriminate].
  intros H. apply andb_true_iff in H. destruct H as [H1 H2]. rewrite H1. cbn [andb].
  apply (forallb_impl _ _ _ top_f3_4 H2).
Qed.

Lemma stmt4_5 Ln c : stmt4 c = true -> stmt5 Ln c = true.
Proof.
  induction c using CompilerWf.card_ind'; cbn [stmt4 stmt5]; auto; try discriminate.
  - destruct op; try discriminate; intros H; apply andb_true_iff in H; destruct H as [H1 H2]; rewrite H1, (IHc2 H2); reflexivity.
  - destruct op; try discriminate. intros H. apply andb_true_iff in H. destruct H as [H H3].
    apply andb_true_iff in H. destruct H as [H1 H2]. rewrite H1, (IHc2 H2), (IHc3 H3). reflexivity.
  - match goal with HF : Forall _ cards |- _ => induction HF as [|x r Hx _ IHr] end; cbn [forallb]; [auto|].
    intros H. apply andb_true_iff in H. destruct H as [H1 H2]. rewrite (Hx H1), (IHr H2). reflexivity.
Qed.
Lemma cards4_5 cards : forallb stmt4 cards = true -> forall Ln, cards5 Ln cards = true.
Proof.
  induction cards as [|c r IH]; intros H Ln; [reflexivity|]. cbn [forallb cards5] in *.
  apply andb_true_iff in H. destruct H as [H1 H2].
  assert (Ht : top5 Ln c = true) by (destruct c; try discriminate H1; cbn [top5]; apply stmt4_5; exact H1).
  rewrite Ht. apply IH, H2.
Qed.
Lemma in_f4_f5 M : in_f4 M = true -> in_f5 M = true.
Proof.
  destruct M as [subs funs imps]. cbn [in_f4 in_f5]. destruct subs; [|discriminate].
  destruct funs as [|[name f] [|]]; try discriminate. destruct imps; [|discriminate].
  intros H. apply andb_true_iff in H. destruct H as [H1 H2]. rewrite H1. cbn [andb].
  apply cards4_5, H2.
Qed.

Lemma stmt5_6 c : forall Ln, stmt5 Ln c = true -> stmt6 Ln c = true.
Proof.
  induction c using CompilerWf.card_ind'; intros Ln; cbn [stmt5 stmt6]; auto; try discriminate.
  - destruct op; try discriminate; intros H; apply andb_true_iff in H; destruct H as [H1 H2]; rewrite H1, (IHc2 Ln H2); reflexivity.
  - destruct op; try discriminate. intros H. apply andb_true_iff in H. destruct H as [H H3].
    apply andb_true_iff in H. destruct H as [H1 H2]. rewrite H1, (IHc2 Ln H2), (IHc3 Ln H3). reflexivity.
  - match goal with HF : Forall _ cards |- _ => induction HF as [|x r Hx _ IHr] end; cbn [forallb]; [auto|].
    intros H. apply andb_true_iff in H. destruct H as [H1 H2]. rewrite (Hx Ln H1), (IHr H2). reflexivity.
Qed.
Lemma cards5_6 cards : forall Ln, cards5 Ln cards = true -> cards6 Ln cards = true.
Proof.
  induction cards as [|c r IH]; intros Ln H; [reflexivity|]. cbn [cards5 cards6] in *.
  apply andb_true_iff in H. destruct H as [H1 H2].
  assert (Ht : top6 Ln c = true) by (destruct c; cbn [top5 top6] in *; try exact H1; apply stmt5_6; exact H1).
  rewrite Ht. apply IH, H2.
Qed.
Lemma in_f5_f6 M : in_f5 M = true -> in_f6 M = true.
Proof.
  destruct M as [subs funs imps]. cbn [in_f5 in_f6]. destruct subs; [|discriminate].
  destruct funs as [|[name f] [|]]; try discriminate. destruct imps; [|discriminate].
  intros H. apply andb_true_iff in H. destruct H as [H1 H2]. rewrite H1. cbn [andb].
  apply cards5_6, H2.
Qed.

Lemma stmt6_7 c : forall Ln, stmt6 Ln c = true -> stmt7 Ln c = true.
Proof.
  induction c using CompilerWf.card_ind'; intros Ln; cbn [stmt6 stmt7]; auto; try discriminate.
  - destruct op; try discriminate; intros H; apply andb_true_iff in H; destruct H as [H1 H2]; rewrite H1, (IHc2 Ln H2); reflexivity.
  - destruct op; try discriminate. intros H. apply andb_true_iff in H. destruct H as [H H3].
    apply andb_true_iff in H. destruct H as [H1 H2]. rewrite H1, (IHc2 Ln H2), (IHc3 Ln H3). reflexivity.
  - destruct i; [discriminate|]. intros H. apply andb_true_iff in H. destruct H as [H1 H2].
    cbn [lv_ok lvn app]. rewrite H1, (IHc2 _ H2). reflexivity.
  - match goal with HF : Forall _ cards |- _ => induction HF as [|x r Hx _ IHr] end; cbn [forallb]; [auto|].
    intros H. apply andb_true_iff in H. destruct H as [H1 H2]. rewrite (Hx Ln H1), (IHr H2). reflexivity.
Qed.
Lemma cards6_7 cards : forall Ln, cards6 Ln cards = true -> cards7 Ln cards = true.
Proof.
  induction cards as [|c r IH]; intros Ln H; [reflexivity|]. cbn [cards6 cards7] in *.
  apply andb_true_iff in H. destruct H as [H1 H2].
  assert (Ht : top7 Ln c = true) by (destruct c; cbn [top6 top7] in *; try exact H1; apply stmt6_7; exact H1).
  rewrite Ht. apply IH, H2.
Qed.
Lemma in_f6_f7 M : in_f6 M = true -> in_f7 M = true.
Proof.
  destruct M as [subs funs imps]. cbn [in_f6 in_f7]. destruct subs; [|discriminate].
  destruct funs as [|[name f] [|]]; try discriminate. destruct imps; [|discriminate].
  intros H. apply andb_true_iff in H. destruct H as [H1 H2]. rewrite H1. cbn [andb].
  apply cards6_7, H2.
Qed.

(* ------------------------------------------------------------------ the scoping rules *)
Section Ws.
Variable P : list fentry.
Variable fi : nat.

Lemma is_empty_conv (n : str) : Compiler.is_empty n = is_empty n.
Proof. reflexivity. Qed.

Lemma var_base_no_dot n : existsb (N.eqb c_dot) n = false -> var_base n = n.
Proof. intros H. unfold var_base. rewrite (split_no_dot _ H). reflexivity. Qed.

Lemma expr_ws e : expr_f1 e = true ->
  forall ret decl loc up, ws P fi ret decl loc up e = Some loc /\ yields e = Some 1.
Proof.
  induction e; intros He; cbn [expr_f1] in He; try discriminate He; intros ret decl loc up.
  - (* CBin *)
    apply andb_true_iff in He. destruct He as [He He2]. apply andb_true_iff in He. destruct He as [Hop He1].
    destruct (IHe1 He1 ret false loc up) as [A1 B1]. destruct (IHe2 He2 ret false loc up) as [A2 B2].
    destruct op; try discriminate Hop; cbn [ws yields]; rewrite A1, B1, A2, B2; split; reflexivity.
  - (* CUn *)
    destruct op; try discriminate He. destruct (IHe He ret false loc up) as [A1 B1].
    cbn [ws yields]. rewrite A1, B1. split; reflexivity.
  - split; reflexivity.
  - split; reflexivity.
  - (* ReadVar *)
    unfold var_ok in He. apply andb_true_iff in He. destruct He as [Hne Hdot].
    apply negb_true_iff in Hdot. rewrite is_empty_conv in Hne. cbn [ws yields]. rewrite (var_base_no_dot _ Hdot), Hne. split; reflexivity.
Qed.

Lemma mem_lmem x Ln : mem x Ln = lmem x Ln.
Proof.
  unfold mem, lmem. induction Ln as [|y r IH]; cbn [existsb find_first]; [reflexivity|].
  destruct (str_eqb x y); [reflexivity|]. cbn [orb]. rewrite IH. destruct (find_first x r); reflexivity.
Qed.

Lemma stmt_ws Ln c : stmt5 Ln c = true -> forall ret decl up, ws P fi ret decl Ln up c = Some Ln.
Proof.
  induction c using CompilerWf.card_ind'; intros Hc; cbn [stmt5] in Hc; try discriminate Hc; intros ret decl up.
  - (* IfTrue / IfFalse / While *)
    destruct op; try discriminate Hc; apply andb_true_iff in Hc; destruct Hc as [He Hb];
      destruct (expr_ws c1 He ret false Ln up) as [A1 B1]; cbn [ws];
      rewrite A1, B1, (IHc2 Hb ret false up); reflexivity.
  - (* IfElse *)
    destruct op; try discriminate Hc. apply andb_true_iff in Hc. destruct Hc as [Hc Hb].
    apply andb_true_iff in Hc. destruct Hc as [He Ha].
    destruct (expr_ws c1 He ret false Ln up) as [A1 B1]. cbn [ws].
    rewrite A1, B1, (IHc2 Ha ret false up), (IHc3 Hb ret false up). reflexivity.
  - reflexivity.
  - (* SetGlobalVar *)
    apply andb_true_iff in Hc. destruct Hc as [Hne He].
    destruct (expr_ws c He ret false Ln up) as [A1 B1]. rewrite is_empty_conv in Hne. cbn [ws]. rewrite Hne.
    destruct c; try discriminate He; rewrite A1, B1; reflexivity.
  - (* SetVar of a local *)
    apply andb_true_iff in Hc. destruct Hc as [Hc He]. apply andb_true_iff in Hc. destruct Hc as [Hx Hm].
    unfold var_ok in Hx. apply andb_true_iff in Hx. destruct Hx as [Hne Hdot].
    apply negb_true_iff in Hne, Hdot. rewrite is_empty_conv in Hne.
    destruct (expr_ws c He ret false Ln up) as [A1 B1]. cbn [ws].
    rewrite (rsplit_no_dot _ Hdot), Hne, mem_lmem, Hm. cbn [orb].
    destruct c; try discriminate He; rewrite A1, B1; reflexivity.
  - (* Composite *)
    cbn [ws]. match goal with HF : Forall _ cards |- _ => rename HF into HFall end.
    revert Hc. induction HFall as [|x r Hx _ IHr]; intros Hc; [reflexivity|].
    cbn [forallb] in Hc. apply andb_true_iff in Hc. destruct Hc as [H1 H2].
    rewrite (Hx H1 ret decl up). apply IHr, H2.
Qed.

Lemma top_ws Ln c : top5 Ln c = true -> forall ret, ws P fi ret true Ln [] c = Some (names_next Ln c).
Proof.
  intros Hc ret.
  assert (Hstmt : stmt5 Ln c = true -> names_next Ln c = Ln -> ws P fi ret true Ln [] c = Some (names_next Ln c)).
  { intros H5 Hn. rewrite Hn. apply stmt_ws, H5. }
  destruct c; try (apply Hstmt; [exact Hc | reflexivity]).
  cbn [top5] in Hc. apply andb_true_iff in Hc. destruct Hc as [Hx He].
  unfold var_ok in Hx. apply andb_true_iff in Hx. destruct Hx as [Hne Hdot].
  apply negb_true_iff in Hne, Hdot. rewrite is_empty_conv in Hne.
  destruct (expr_ws c He ret false Ln []) as [A1 B1]. cbn [ws names_next].
  rewrite (rsplit_no_dot _ Hdot), Hne, mem_lmem. cbn [mem existsb orb]. rewrite orb_false_r.
  destruct c; try discriminate He; rewrite A1, B1; cbn [negb]; destruct (lmem name Ln); reflexivity.
Qed.

Lemma cards_ws cards : forall ret Ln, cards5 Ln cards = true -> ws_seq P fi ret Ln cards = true.
Proof.
  induction cards as [|c r IH]; intros ret Ln; cbn [cards5 ws_seq]; [reflexivity|]. intros H.
  apply andb_true_iff in H. destruct H as [H1 H2]. rewrite (top_ws Ln c H1 ret). apply IH, H2.
Qed.
(* F6r: the hidden locals of a Repeat (named "") are not locals of the scoping rules *)
Definition visn (Ln : list str) : list str := filter (fun x => negb (is_empty x)) Ln.

Lemma lmem_visn x Ln : is_empty x = false -> lmem x (visn Ln) = lmem x Ln.
Proof.
  intros Hx. unfold lmem. induction Ln as [|y r IH]; [reflexivity|]. cbn [visn filter find_first].
  destruct y as [|y0 yr].
  - cbn [is_empty negb]. fold (visn r). destruct x; [discriminate Hx|]. cbn [str_eqb]. 
    destruct (find_first (n :: x) r), (find_first (n :: x) (visn r)); try reflexivity; discriminate IH.
  - cbn [is_empty negb find_first]. fold (visn r). destruct (str_eqb x (y0 :: yr)); [reflexivity|].
    destruct (find_first x r), (find_first x (visn r)); try reflexivity; discriminate IH.
Qed.

Lemma stmt_ws6 c : forall Ln, stmt6 Ln c = true -> forall ret decl up, ws P fi ret decl (visn Ln) up c = Some (visn Ln).
Proof.
  induction c using CompilerWf.card_ind'; intros Ln Hc; cbn [stmt6] in Hc; try discriminate Hc; intros ret decl up.
  - (* IfTrue / IfFalse / While *)
    destruct op; try discriminate Hc; apply andb_true_iff in Hc; destruct Hc as [He Hb];
      destruct (expr_ws c1 He ret false (visn Ln) up) as [A1 B1]; cbn [ws];
      rewrite A1, B1, (IHc2 Ln Hb ret false up); reflexivity.
  - (* IfElse *)
    destruct op; try discriminate Hc. apply andb_true_iff in Hc. destruct Hc as [Hc Hb].
    apply andb_true_iff in Hc. destruct Hc as [He Ha].
    destruct (expr_ws c1 He ret false (visn Ln) up) as [A1 B1]. cbn [ws].
    rewrite A1, B1, (IHc2 Ln Ha ret false up), (IHc3 Ln Hb ret false up). reflexivity.
  - reflexivity.
  - (* SetGlobalVar *)
    apply andb_true_iff in Hc. destruct Hc as [Hne He].
    destruct (expr_ws c He ret false (visn Ln) up) as [A1 B1]. rewrite is_empty_conv in Hne. cbn [ws]. rewrite Hne.
    destruct c; try discriminate He; rewrite A1, B1; reflexivity.
  - (* SetVar of a local *)
    apply andb_true_iff in Hc. destruct Hc as [Hc He]. apply andb_true_iff in Hc. destruct Hc as [Hx Hm].
    unfold var_ok in Hx. apply andb_true_iff in Hx. destruct Hx as [Hne Hdot].
    apply negb_true_iff in Hne, Hdot. rewrite is_empty_conv in Hne.
    destruct (expr_ws c He ret false (visn Ln) up) as [A1 B1]. cbn [ws].
    rewrite (rsplit_no_dot _ Hdot), Hne, mem_lmem, (lmem_visn _ _ Hne), Hm. cbn [orb].
    destruct c; try discriminate He; rewrite A1, B1; reflexivity.
  - (* Repeat *)
    destruct i; [discriminate Hc|]. apply andb_true_iff in Hc. destruct Hc as [He Hb].
    destruct (expr_ws c1 He ret false (visn Ln) up) as [A1 B1]. cbn [ws opt_names flat_map nodup app].
    rewrite A1, B1. cbn [andb].
    pose proof (IHc2 ([] :: [] :: Ln) Hb ret true up) as H. cbn [visn filter is_empty negb] in H. fold (visn Ln) in H.
    rewrite H. reflexivity.
  - (* Composite *)
    cbn [ws]. match goal with HF : Forall _ cards |- _ => rename HF into HFall end.
    revert Hc. induction HFall as [|x r Hx _ IHr]; intros Hc; [reflexivity|].
    cbn [forallb] in Hc. apply andb_true_iff in Hc. destruct Hc as [H1 H2].
    rewrite (Hx Ln H1 ret decl up). apply IHr, H2.
Qed.

Definition named_all (Ln : list str) : Prop := Forall (fun x => is_empty x = false) Ln.
Lemma visn_named Ln : named_all Ln -> visn Ln = Ln.
Proof. induction 1 as [|x r Hx _ IH]; [reflexivity|]. cbn [visn filter]. rewrite Hx. cbn [negb]. fold (visn r). rewrite IH. reflexivity. Qed.

Lemma top_ws6 Ln c : named_all Ln -> top6 Ln c = true ->
  forall ret, ws P fi ret true Ln [] c = Some (names_next Ln c) /\ named_all (names_next Ln c).
Proof.
  intros Hn Hc ret.
  assert (Hstmt : stmt6 Ln c = true -> names_next Ln c = Ln ->
                  ws P fi ret true Ln [] c = Some (names_next Ln c) /\ named_all (names_next Ln c)).
  { intros H6 Hnx. rewrite Hnx. split; [|exact Hn]. pose proof (stmt_ws6 c Ln H6 ret true []) as H.
    rewrite (visn_named _ Hn) in H. exact H. }
  destruct c; try (apply Hstmt; [exact Hc | reflexivity]).
  cbn [top6] in Hc. apply andb_true_iff in Hc. destruct Hc as [Hx He].
  unfold var_ok in Hx. apply andb_true_iff in Hx. destruct Hx as [Hne Hdot].
  apply negb_true_iff in Hne, Hdot. rewrite is_empty_conv in Hne.
  destruct (expr_ws c He ret false Ln []) as [A1 B1]. cbn [ws names_next].
  rewrite (rsplit_no_dot _ Hdot), Hne, mem_lmem. cbn [mem existsb orb]. rewrite orb_false_r.
  split.
  - destruct c; try discriminate He; rewrite A1, B1; cbn [negb]; destruct (lmem name Ln); reflexivity.
  - destruct (lmem name Ln); [exact Hn | constructor; [exact Hne | exact Hn]].
Qed.

Lemma cards_ws6 cards : forall ret Ln, named_all Ln -> cards6 Ln cards = true -> ws_seq P fi ret Ln cards = true.
Proof.
  induction cards as [|c r IH]; intros ret Ln Hn; cbn [cards6 ws_seq]; [reflexivity|]. intros H.
  apply andb_true_iff in H. destruct H as [H1 H2]. destruct (top_ws6 Ln c Hn H1 ret) as [A B]. rewrite A. apply IH; assumption.
Qed.

Lemma stmt_ws7 c : forall Ln, stmt7 Ln c = true -> forall ret decl up, ws P fi ret decl (visn Ln) up c = Some (visn Ln).
Proof.
  induction c using CompilerWf.card_ind'; intros Ln Hc; cbn [stmt7] in Hc; try discriminate Hc; intros ret decl up.
  - (* IfTrue / IfFalse / While *)
    destruct op; try discriminate Hc; apply andb_true_iff in Hc; destruct Hc as [He Hb];
      destruct (expr_ws c1 He ret false (visn Ln) up) as [A1 B1]; cbn [ws];
      rewrite A1, B1, (IHc2 Ln Hb ret false up); reflexivity.
  - (* IfElse *)
    destruct op; try discriminate Hc. apply andb_true_iff in Hc. destruct Hc as [Hc Hb].
    apply andb_true_iff in Hc. destruct Hc as [He Ha].
    destruct (expr_ws c1 He ret false (visn Ln) up) as [A1 B1]. cbn [ws].
    rewrite A1, B1, (IHc2 Ln Ha ret false up), (IHc3 Ln Hb ret false up). reflexivity.
  - reflexivity.
  - (* SetGlobalVar *)
    apply andb_true_iff in Hc. destruct Hc as [Hne He].
    destruct (expr_ws c He ret false (visn Ln) up) as [A1 B1]. rewrite is_empty_conv in Hne. cbn [ws]. rewrite Hne.
    destruct c; try discriminate He; rewrite A1, B1; reflexivity.
  - (* SetVar of a local *)
    apply andb_true_iff in Hc. destruct Hc as [Hc He]. apply andb_true_iff in Hc. destruct Hc as [Hx Hm].
    unfold var_ok in Hx. apply andb_true_iff in Hx. destruct Hx as [Hne Hdot].
    apply negb_true_iff in Hne, Hdot. rewrite is_empty_conv in Hne.
    destruct (expr_ws c He ret false (visn Ln) up) as [A1 B1]. cbn [ws].
    rewrite (rsplit_no_dot _ Hdot), Hne, mem_lmem, (lmem_visn _ _ Hne), Hm. cbn [orb].
    destruct c; try discriminate He; rewrite A1, B1; reflexivity.
  - (* Repeat *)
    apply andb_true_iff in Hc. destruct Hc as [Hc Hb]. apply andb_true_iff in Hc. destruct Hc as [He Hi].
    destruct (expr_ws c1 He ret false (visn Ln) up) as [A1 B1].
    destruct i as [x|].
    + cbn [lv_ok] in Hi. unfold var_ok in Hi. apply andb_true_iff in Hi. destruct Hi as [Hx _]. apply negb_true_iff in Hx.
      rewrite is_empty_conv in Hx.
      cbn [ws opt_names flat_map nodup app mem existsb negb andb]. rewrite A1, B1. cbn [andb].
      pose proof (IHc2 (x :: [] :: [] :: Ln) Hb ret true up) as H. cbn [visn filter] in H. rewrite Hx in H.
      cbn [is_empty negb] in H. fold (visn Ln) in H. rewrite H. reflexivity.
    + cbn [ws opt_names flat_map nodup app]. rewrite A1, B1. cbn [andb].
      pose proof (IHc2 ([] :: [] :: Ln) Hb ret true up) as H. cbn [visn filter is_empty negb] in H. fold (visn Ln) in H.
      rewrite H. reflexivity.
  - (* Composite *)
    cbn [ws]. match goal with HF : Forall _ cards |- _ => rename HF into HFall end.
    revert Hc. induction HFall as [|x r Hx _ IHr]; intros Hc; [reflexivity|].
    cbn [forallb] in Hc. apply andb_true_iff in Hc. destruct Hc as [H1 H2].
    rewrite (Hx Ln H1 ret decl up). apply IHr, H2.
Qed.

Lemma top_ws7 Ln c : named_all Ln -> top7 Ln c = true ->
  forall ret, ws P fi ret true Ln [] c = Some (names_next Ln c) /\ named_all (names_next Ln c).
Proof.
  intros Hn Hc ret.
  assert (Hstmt : stmt7 Ln c = true -> names_next Ln c = Ln ->
                  ws P fi ret true Ln [] c = Some (names_next Ln c) /\ named_all (names_next Ln c)).
  { intros H6 Hnx. rewrite Hnx. split; [|exact Hn]. pose proof (stmt_ws7 c Ln H6 ret true []) as H.
    rewrite (visn_named _ Hn) in H. exact H. }
  destruct c; try (apply Hstmt; [exact Hc | reflexivity]).
  cbn [top7] in Hc. apply andb_true_iff in Hc. destruct Hc as [Hx He].
  unfold var_ok in Hx. apply andb_true_iff in Hx. destruct Hx as [Hne Hdot].
  apply negb_true_iff in Hne, Hdot. rewrite is_empty_conv in Hne.
  destruct (expr_ws c He ret false Ln []) as [A1 B1]. cbn [ws names_next].
  rewrite (rsplit_no_dot _ Hdot), Hne, mem_lmem. cbn [mem existsb orb]. rewrite orb_false_r.
  split.
  - destruct c; try discriminate He; rewrite A1, B1; cbn [negb]; destruct (lmem name Ln); reflexivity.
  - destruct (lmem name Ln); [exact Hn | constructor; [exact Hne | exact Hn]].
Qed.

Lemma cards_ws7 cards : forall ret Ln, named_all Ln -> cards7 Ln cards = true -> ws_seq P fi ret Ln cards = true.
Proof.
  induction cards as [|c r IH]; intros ret Ln Hn; cbn [cards7 ws_seq]; [reflexivity|]. intros H.
  apply andb_true_iff in H. destruct H as [H1 H2]. destruct (top_ws7 Ln c Hn H1 ret) as [A B]. rewrite A. apply IH; assumption.
Qed.
End Ws.

(* ------------------------------------------------------------------ the program level *)
Definition stdl : list fentry := match flatten 63 std_module [s_std] with Some l => l | None => [] end.
Lemma stdl_eq : flatten 63 std_module [s_std] = Some stdl.
Proof. vm_compute. reflexivity. Qed.
Lemma stdl_facts : nodup (s_main :: map fe_name stdl) = true /\ forallb is_std stdl = true.
Proof. vm_compute. split; reflexivity. Qed.

Lemma forallb_std_combine (g : nat * fentry -> bool) l : forallb is_std l = true -> forall k,
  forallb (fun ife => is_std (snd ife) || g ife) (combine (seq k (length l)) l) = true.
Proof.
  induction l as [|x r IH]; intros H k; [reflexivity|]. cbn [forallb] in H. apply andb_true_iff in H.
  destruct H as [H1 H2]. cbn [length seq combine forallb snd]. rewrite H1, (IH H2 (S k)). reflexivity.
Qed.

Theorem in_f7_well_scoped M : in_f7 M = true -> well_scoped M = true.
Proof.
  intros HM. destruct M as [subs funs imps]. cbn [in_f7] in HM.
  destruct subs; [|discriminate]. destruct funs as [|[name f] [|]]; try discriminate.
  destruct imps; [|discriminate].
  apply andb_true_iff in HM. destruct HM as [HM Hcards]. apply andb_true_iff in HM. destruct HM as [Hname Hargs].
  apply str_eqb_main in Hname. subst name.
  assert (Ha : f_args f = []) by (destruct (f_args f); [reflexivity | discriminate]).
  unfold well_scoped, program_of, add_std. cbn [app].
  change 64%nat with (S 63). rewrite (flatten_f1 63 f stdl stdl_eq).
  cbn [find_index fe_name]. change (str_eqb s_main s_main) with true. cbv iota.
  destruct stdl_facts as [Hnd Hstd].
  cbn [map fe_name]. rewrite Hnd. cbn [andb length seq combine forallb fst snd].
  rewrite (forallb_std_combine _ stdl Hstd 1). rewrite andb_true_r.
  unfold is_std, ws_function. cbn [fe_ns fe_fn orb]. rewrite Ha. cbn [nodup forallb andb Nat.eqb negb].
  apply cards_ws7; [constructor | exact Hcards].
Qed.

Corollary in_f6_well_scoped M : in_f6 M = true -> well_scoped M = true.
Proof. intros H. apply in_f7_well_scoped, in_f6_f7, H. Qed.
Corollary in_f5_well_scoped M : in_f5 M = true -> well_scoped M = true.
Proof. intros H. apply in_f6_well_scoped, in_f5_f6, H. Qed.
Corollary in_f4_well_scoped M : in_f4 M = true -> well_scoped M = true.
Proof. intros H. apply in_f5_well_scoped, in_f4_f5, H. Qed.
Corollary in_f3_well_scoped M : in_f3 M = true -> well_scoped M = true.
Proof. intros H. apply in_f4_well_scoped, in_f3_f4, H. Qed.
Corollary in_f1_well_scoped M : in_f1 M = true -> well_scoped M = true.
Proof. intros H. apply in_f3_well_scoped, in_f2_f3, in_f1_f2, H. Qed.
Corollary in_f2_well_scoped M : in_f2 M = true -> well_scoped M = true.
Proof. intros H. apply in_f3_well_scoped, in_f2_f3, H. Qed.

Theorem fragments_well_scoped M :
  (in_f1 M = true -> in_f2 M = true) /\
  (in_f2 M = true -> in_f3 M = true) /\
  (in_f3 M = true -> in_f4 M = true) /\
  (in_f4 M = true -> in_f5 M = true) /\
  (in_f5 M = true -> in_f6 M = true) /\
  (in_f6 M = true -> in_f7 M = true) /\
  (in_f7 M = true -> well_scoped M = true).
Proof.
  split; [apply in_f1_f2|]. split; [apply in_f2_f3|]. split; [apply in_f3_f4|]. split; [apply in_f4_f5|].
  split; [apply in_f5_f6|]. split; [apply in_f6_f7 | apply in_f7_well_scoped].
Qed.
