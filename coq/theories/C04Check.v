(* Executable checker of the C04 totality stream.  Every case was run by the harness in a child process
   (harness/src/c04.rs): a text went through a loader (serde_json / serde_yaml) or a module was built in
   the worker, was compiled and - when a configuration is given - run on a VM built by
   RuntimeData::new(memory_limit, stack_size, call_stack_size) with max_instr = budget.  The observation is
   what the worker printed before it ended plus how it ended (exit status, signal, watchdog).

   Codes:  2  the child did not end normally (panic, abort, signal, hang), or an exhaustion was not
              reported as the error the property names;
           1  the compiler model ([Compiler.compile]) predicts another compile outcome for the module the
              loader returned (same error payload and location, or success), where the model applies;
           3  the harness protocol is broken;
           10.. the case falls in a known finding class (decidable predicates below). *)
From Cao Require Export CheckUtil CardAst Bytecode Compiler.
From Cao Require Import Bits CompilerGen CompilerProofs C10Check.
Local Open Scope N_scope.

Inductive xstat := XOk | XPanic | XHang | XSignal (n : N) | XCode (n : N).
(* what compile returned: Ok (bytecode length), a modelled error with its location, another error *)
Inductive kres := KOk (len : N) | KErr (e : cerr) (l : option loc) | KOther (name : str).
(* what run returned: not reached, Ok, Err(payload variant number), RuntimeData::new failed *)
Inductive vres := VNone | VOk | VErr (e : N) | VNewErr (e : N).

Record wobs_t := mkobs {
  w_exit : xstat;
  w_stage : N;            (* last stage entered: 1 parse, 2 compile, 3 vm construction, 4 run, 5 second run, 6 drop *)
  w_parse : option bool;
  w_compile : option kres;
  w_run : vres;
  w_run2 : vres;
  w_done : bool
}.
Definition wobs := mkobs.

Record rcfg_t := mkcfg { c_mem : N; c_stack : N; c_calls : N; c_budget : N; c_twice : bool }.
Definition rcfg := mkcfg.

Inductive c04case :=
| CMod (m : module) (limit : N) (debug : bool) (cfg : option rcfg_t) (o : wobs_t)
| CText (fmt : N) (size : N) (debug : bool) (cfg : option rcfg_t) (o : wobs_t).   (* fmt 0 json, 1 yaml, 2 built in the worker *)
Definition cmod := CMod.
Definition ctext := CText.

(* ExecutionErrorPayload variant numbers as printed by the harness (c04.rs EXEC_ERRORS) *)
Definition e_call_stack_overflow : N := 0.
Definition e_timeout : N := 10.
Definition e_stackoverflow : N := 12.

(* ------------------------------------------------------------------ syntactic predicates *)
Section CardAny.
  Variable p : card -> bool.
  Fixpoint card_any (c : card) : bool :=
    p c ||
    match c with
    | CBin _ a b => card_any a || card_any b
    | CUn _ a => card_any a
    | CTri _ a b c => card_any a || card_any b || card_any c
    | CCallNative _ args | CCall _ args | CComposite _ args | CArray args | CClosure _ args =>
        (fix go (l : list card) : bool := match l with [] => false | x :: r => card_any x || go r end) args
    | CDynamicCall f args =>
        card_any f || (fix go (l : list card) : bool := match l with [] => false | x :: r => card_any x || go r end) args
    | CSetGlobalVar _ v | CSetVar _ v => card_any v
    | CRepeat _ n b => card_any n || card_any b
    | CForEach _ _ _ it b => card_any it || card_any b
    | _ => false
    end.
  Fixpoint module_any (m : module) : bool :=
    match m with
    | Module subs funs _ =>
        existsb (fun nf => existsb card_any (f_cards (snd nf))) funs ||
        (fix go (l : list (str * module)) : bool :=
           match l with [] => false | (_, s) :: r => module_any s || go r end) subs
    end.
End CardAny.

(* a value is stored into a table: the program can build a heap cycle (finding A-37) *)
Definition stores_in_table (c : card) : bool :=
  match c with
  | CTri TSetProperty _ _ _ | CBin BAppendTable _ _ => true
  | CSetVar name _ => existsb (N.eqb c_dot) name
  | _ => false
  end.

(* ------------------------------------------------------------------ model *)
Definition model_applies (m : module) (o : options) : bool :=
  C10Check.module_in_domain m && program_in_range m o.

Definition kres_matches (pred : cresult) (k : kres) : bool :=
  match pred, k with
  | COk _, KOk _ => true
  | CErr e l, KErr e' l' => cerr_eqb e e' && opt_eqb loc_eqb l l'
  | _, _ => false
  end.

Definition is_crash (x : xstat) : bool := match x with XOk => false | _ => true end.
Definition is_signal (x : xstat) : bool := match x with XSignal _ => true | _ => false end.
Definition is_panic (x : xstat) : bool := match x with XPanic => true | _ => false end.
Definition is_hang (x : xstat) : bool := match x with XHang => true | _ => false end.

(* known classes:
   10  A-37: ==, hashing of a table that contains itself recurses until the native stack overflows
   14  card / module nesting deeper than any loader admits (built in the worker): native stack overflow in
       compile or drop - outside the property's domain (DESIGN section 9)
   The former classes 11 (N-C04-1, a name with FNV-1a hash 0), 12 (N-C04-2, a card index path with hash 0),
   13 (N-C04-3, a closure label 0) and 15 (N-C04-4, RuntimeData::new(_, 0, _) panicked) were repaired in the
   crate (3f22e7c "handles are never 0", 74a8f02): such cases are ordinary violations now. *)
Definition known_of_module (m : module) (limit : N) (debug : bool) (cfg : option rcfg_t) (o : wobs_t) (mismatch : bool)
  : list N :=
  if is_signal (w_exit o) && ((w_stage o =? 4) || (w_stage o =? 5)) && module_any stores_in_table m then [10]
  else [].

Definition known_of_cfg (cfg : option rcfg_t) (o : wobs_t) : list N := [].

(* exhaustion is an error value (implementation side of exhaustion_is_error): budget 0 -> Timeout at once,
   no call frame available -> CallStackOverflow *)
Definition spec_cfg (cfg : option rcfg_t) (o : wobs_t) : list N :=
  match cfg, w_exit o with
  | Some c, XOk =>
      match w_run o with
      | VNone => []
      | VNewErr _ => []
      | r =>
          (* 74a8f02: a value stack of size 0 is reported by RuntimeData::new as an error value *)
          (if (c_stack c =? 0) then [2] else []) ++
          (if (c_calls c =? 0) then
             match r with VErr e => if e =? e_call_stack_overflow then [] else [2] | _ => [2] end
           else if (c_budget c =? 0) then
             match r with VErr e => if e =? e_timeout then [] else [2] | _ => [2] end
           else [])
      end
  | _, _ => []
  end.

Definition protocol_ok (cfg : option rcfg_t) (o : wobs_t) : bool :=
  match w_exit o with
  | XOk =>
      w_done o &&
      match w_parse o with
      | None => false
      | Some false => match w_compile o with None => true | Some _ => false end
      | Some true =>
          match w_compile o, cfg with
          | None, _ => false
          | Some (KOk _), Some _ => match w_run o with VNone => false | _ => true end
          | Some _, _ => true
          end
      end
  | _ => true
  end.

Definition check1 (c : c04case) : list N :=
  match c with
  | CMod m limit debug cfg o =>
      if negb (protocol_ok cfg o) then [3]
      else
        let opts := {| o_recursion_limit := limit; o_debug := debug |} in
        let applies := model_applies m opts in
        let mismatch :=
          match w_compile o with
          | Some k => applies && negb (kres_matches (compile m opts) k)
          | None => false
          end in
        match known_of_module m limit debug cfg o mismatch ++ known_of_cfg cfg o with
        | k :: _ => [k]
        | [] =>
            (if mismatch then [1] else []) ++
            (if is_crash (w_exit o) then [2] else spec_cfg cfg o)
        end
  | CText fmt size debug cfg o =>
      if negb (protocol_ok cfg o) then [3]
      else if (fmt =? 2) && (is_signal (w_exit o) || is_hang (w_exit o)) then [14]
      else
        match known_of_cfg cfg o with
        | k :: _ => [k]
        | [] => if is_crash (w_exit o) then [2] else spec_cfg cfg o
        end
  end.

Definition check_all := CheckUtil.check_all check1.
