(* C01, simulation, compiler half for fragment F7 (Repeat with or without the loop variable); on top of C01SimComp6.
   Original header of C01SimComp6:
   The compile context now records the scope depth of every local ([ctx6 Ld d]: the locals are the
   (name, depth) pairs Ld, most recent first; d is the current scope depth): a Repeat opens a scope for
   its two hidden locals and another one for its body, and scope_end pops the locals of the scope it
   closes.  The combinators are those of C01SimComp5 for this context. *)
From Cao Require TableProofs.
From Coq Require Import List NArith ZArith Bool Lia.
From Cao Require Import ListUtil CheckUtil Bits CardAst Bytecode Compiler CompilerGen CompilerProofs CompilerWf
     CompilerResolve StdlibGen C01SimKeep C01SimDefs C01SimComp C01SimDefs2 C01SimComp2 C01SimDefs4 C01SimDefs5 C01SimComp5 C01SimDefs6 C01SimComp6 C01SimDefs7.
Import ListNotations.
Local Open Scope N_scope.


(* ------------------------------------------------------------------ Repeat with the loop variable *)
Lemma emits6_bind_add_local L d L' d' x (K : N -> M unit) names code :
  is_empty x = false ->
  emits6 ((x, d) :: L) d L' d' (K (N.of_nat (length L))) names code ->
  emits6 L d L' d' (do i <- add_local x ;; K i) names code.
Proof.
  intros Hx HK s s' Hc E.
  assert (E' : (do i <- add_local_unchecked x ;; K i) s = ROk tt s').
  { unfold add_local, bind, validate_var_name in E. rewrite Hx in E. cbn [ret] in E. exact E. }
  exact (emits6_bind_alu L d L' d' x K names code HK s s' Hc E').
Qed.

Definition repeat_code_some (cn : list instr) (cbf : N -> list instr) (k : N) (base : N) : list instr :=
  let b0 := base + bytes cn + 19 in
  let cbb := cbf (b0 + 16 + 10) in
  cn ++ [ISetLocalVar k; IScalarInt 0; ISetLocalVar (k + 1)] ++
  [IReadLocalVar (k + 1); IReadLocalVar k; ILess; IGotoIfFalse (u32_to_i32 (b0 + 16 + 10 + bytes cbb + 1 + 25))] ++
  [IReadLocalVar (k + 1); ISetLocalVar (k + 2)] ++ cbb ++ [IPop] ++
  [IScalarInt 1; IReadLocalVar (k + 1); IAdd; ISetLocalVar (k + 1); IGoto (u32_to_i32 b0)] ++ [IPop; IPop].

Lemma emits7_repeat_some Ld d x n b nb cb :
  (1 <= d)%Z -> wfd Ld d -> expr_f1 n = true -> is_empty x = false ->
  emits6 ((x, d + 2) :: ([], d + 1) :: ([], d + 1) :: Ld)%Z (d + 2) ((x, d + 2) :: ([], d + 1) :: ([], d + 1) :: Ld)%Z (d + 2) (process_card b) nb cb ->
  emits6 Ld d Ld d (process_card (CRepeat (Some x) n b)) (expr_gnames (map fst Ld) n ++ nb)
         (fun T base => repeat_code_some (code_expr5 T (map fst Ld) n) (cb T) (N.of_nat (length Ld)) base).
Proof.
  intros Hd1 Hwf Hn Hx Hb.
  set (Ld2 := (([], d + 1) :: ([], d + 1) :: Ld)%Z) in *.
  set (Ld3 := ((x, d + 2) :: Ld2)%Z) in *.
  set (k := N.of_nat (length Ld)).
  assert (Hd2 : (1 <= d + 1)%Z) by lia. assert (Hd3 : (1 <= d + 2)%Z) by lia.
  (* the body of the loop: its scope holds no local of its own *)
  assert (Hend_in : emits6 Ld3 (d + 2) Ld2 (d + 1) scope_end [] (fun _ _ => [IPop])).
  { pose proof (emits6_scope_end [(x, d + 2)%Z] Ld2 (d + 2) Hd3) as H. cbn [app length repeat] in H.
    replace (d + 2 - 1)%Z with (d + 1)%Z in H by lia. apply H; [repeat constructor; cbn; lia | cbn; lia]. }
  assert (Hend_out : emits6 Ld2 (d + 1) Ld d scope_end [] (fun _ _ => [IPop; IPop])).
  { pose proof (emits6_scope_end [([], d + 1); ([], d + 1)]%Z Ld (d + 1) Hd2) as H. cbn [app length repeat] in H.
    replace (d + 1 - 1)%Z with d in H by lia. apply H.
    - repeat constructor; cbn; lia.
    - destruct Ld as [|nd r]; [exact I|]. inversion Hwf; assumption. }
  cbn [process_card]. eapply emits6_ext.
  - apply emits6_seq_gen with (L1 := Ld) (d1 := d); [apply emits6_nop, keepL_card_label|].
    apply emits6_seq_gen with (L1 := Ld) (d1 := d); [apply emits6_with_sub, emits6_expr, Hn|].
    apply emits6_seq_gen with (L1 := Ld) (d1 := (d + 1)%Z); [apply emits6_scope_begin, Hd1|].
    apply emits6_bind_alu. apply emits6_bind_alu. fold Ld2. cbn [length]. fold k.
    replace (N.of_nat (S (length Ld))) with (k + 1) by (unfold k; lia).
    apply emits6_seq_gen with (L1 := Ld2) (d1 := (d + 1)%Z); [apply emits6_push|].
    apply emits6_seq_gen with (L1 := Ld2) (d1 := (d + 1)%Z).
    { apply emits6_seq; [apply emits6_nop, keepL_card_label | apply emits6_push]. }
    apply emits6_seq_gen with (L1 := Ld2) (d1 := (d + 1)%Z); [apply emits6_push|].
    apply emits6_bind_pc. intros z.
    apply emits6_seq_gen with (L1 := Ld2) (d1 := (d + 1)%Z); [apply emits6_push|].
    apply emits6_seq_gen with (L1 := Ld2) (d1 := (d + 1)%Z); [apply emits6_push|].
    apply emits6_seq_gen with (L1 := Ld2) (d1 := (d + 1)%Z); [apply emits6_push|].
    apply emits6_seq_gen with (L1 := Ld2) (d1 := (d + 1)%Z); [|exact Hend_out].
    apply (emits6_if_then Ld2 (d + 1) IGotoIfFalse); [left; reflexivity|].
    apply emits6_seq_gen with (L1 := Ld2) (d1 := (d + 1 + 1)%Z); [apply emits6_scope_begin, Hd2|].
    replace (d + 1 + 1)%Z with (d + 2)%Z by lia.
    apply emits6_seq_gen with (L1 := Ld3) (d1 := (d + 2)%Z).
    { cbn [bind_loop_var]. apply emits6_bind_add_local; [exact Hx|]. fold Ld3.
      apply emits6_seq_gen with (L1 := Ld3) (d1 := (d + 2)%Z); apply emits6_push. }
    apply emits6_seq_gen with (L1 := Ld3) (d1 := (d + 2)%Z); [apply emits6_with_sub, Hb|].
    apply emits6_seq_gen with (L1 := Ld2) (d1 := (d + 1)%Z); [exact Hend_in|].
    apply emits6_seq_gen with (L1 := Ld2) (d1 := (d + 1)%Z).
    { apply emits6_seq; [apply emits6_nop, keepL_card_label | apply emits6_push]. }
    apply emits6_seq_gen with (L1 := Ld2) (d1 := (d + 1)%Z); [apply emits6_push|].
    apply emits6_seq_gen with (L1 := Ld2) (d1 := (d + 1)%Z); [apply emits6_push|].
    apply emits6_seq_gen with (L1 := Ld2) (d1 := (d + 1)%Z); [apply emits6_push|].
    apply emits6_push.
  - intros y Hy. cbn [app] in *. rewrite ?app_nil_r. exact Hy.
  - intros T base. unfold repeat_code_some. cbv zeta. cbn [app bytes length]. rewrite ?N.add_0_r, ?app_nil_r.
    match goal with |- context [N.of_nat (@length ?A Ld2)] =>
      replace (N.of_nat (@length A Ld2)) with (k + 2)
        by (unfold Ld2, k; cbn [length]; rewrite !Nat2N.inj_succ, <- !N.add_1_r, <- N.add_assoc; reflexivity) end.
    change (spanN (ISetLocalVar k)) with 5. change (spanN (ISetLocalVar (k + 1))) with 5. change (spanN (ISetLocalVar (k + 2))) with 5.
    change (spanN (IReadLocalVar k)) with 5. change (spanN (IReadLocalVar (k + 1))) with 5.
    change (spanN (IScalarInt 0)) with 9. change (spanN ILess) with 1.
    set (bn := bytes (code_expr5 T (map fst Ld) n)).
    replace (base + bn + 5 + 9 + 5 + 5 + 5 + 1 + 5 + (5 + 5)) with (base + bn + 19 + 16 + 10) by lia.
    replace (base + bn + 5 + 9 + 5 + 5 + 5 + 1 + 5) with (base + bn + 19 + 16) by lia.
    replace (base + bn + 5 + 9 + 5) with (base + bn + 19) by lia.
    set (cbb := cb T (base + bn + 19 + 16 + 10)).
    rewrite !bytes_app. cbn [bytes].
    change (spanN (IScalarInt 1)) with 9. change (spanN (IReadLocalVar (k + 1))) with 5. change (spanN IAdd) with 1.
    change (spanN (ISetLocalVar (k + 1))) with 5. change (spanN (IGoto _)) with 5. change (spanN IPop) with 1.
    change (spanN (ISetLocalVar (k + 2))) with 5.
    replace (base + bn + 19 + 16 + (5 + (5 + (bytes cbb + (1 + (9 + (5 + (1 + (5 + (5 + 0)))))))))) with (base + bn + 19 + 16 + 10 + bytes cbb + 1 + 25) by lia.
    rewrite <- ?app_assoc. cbn [app]. reflexivity.
Qed.

Definition stmt_ok7 (c : card) : Prop :=
  forall Ld d, (1 <= d)%Z -> wfd Ld d -> stmt7 (map fst Ld) c = true ->
    emits6 Ld d Ld d (process_card c) (stmt_gnames7 (map fst Ld) c) (fun T b => code7 T (map fst Ld) b c).

Lemma emits7_subexpr Ld d l :
  (1 <= d)%Z -> wfd Ld d -> Forall stmt_ok7 l ->
  forallb (stmt7 (map fst Ld)) l = true -> forall i,
  emits6 Ld d Ld d ((fix subexpr (l : list card) (i : N) {struct l} : M unit :=
             match l with
             | [] => ret tt
             | x :: r => with_sub i (process_card x) ;; subexpr r (i + 1)
             end) l i) (flat_map (stmt_gnames7 (map fst Ld)) l) (fun T b => code_seq7 T (map fst Ld) b l).
Proof.
  intros Hd1 Hwf. induction 1 as [|x r Hx _ IH]; intros Hc i.
  - apply emits6_nop. intros s s' E. injection E as <-. repeat split.
  - cbn [forallb] in Hc. apply andb_true_iff in Hc. destruct Hc as [H1 H2].
    eapply emits6_ext.
    + apply emits6_seq; [apply emits6_with_sub, (Hx Ld d Hd1 Hwf H1) | apply (IH H2 (i + 1))].
    + intros y Hy. exact Hy.
    + intros T b. reflexivity.
Qed.

Lemma emits7_stmt7 c : stmt_ok7 c.
Proof.
  induction c using card_ind'; intros Ld d Hd1 Hwf Hc; cbn [stmt7] in Hc; try discriminate Hc.
  - (* IfTrue / IfFalse / While *)
    destruct op; try discriminate Hc; apply andb_true_iff in Hc; destruct Hc as [He Hb].
    + cbn [process_card]. eapply emits6_ext.
      * apply emits6_seq; [apply emits6_nop, keepL_card_label|].
        apply emits6_seq; [apply emits6_with_sub, emits6_expr, He|].
        apply emits6_seq; [apply emits6_nop, keepL_push_sub|].
        apply emits6_seq; [apply (emits6_if_then Ld d IGotoIfFalse); [left; reflexivity | apply (IHc2 Ld d Hd1 Hwf Hb)]|].
        apply emits6_nop, keepL_pop_sub.
      * intros x Hx. cbn [stmt_gnames7 app] in *. rewrite app_nil_r. exact Hx.
      * intros T b. cbn [code7 app bytes]. rewrite ?N.add_0_r, ?app_nil_r. reflexivity.
    + cbn [process_card]. eapply emits6_ext.
      * apply emits6_seq; [apply emits6_nop, keepL_card_label|].
        apply emits6_seq; [apply emits6_with_sub, emits6_expr, He|].
        apply emits6_seq; [apply emits6_nop, keepL_push_sub|].
        apply emits6_seq; [apply (emits6_if_then Ld d IGotoIfTrue); [right; reflexivity | apply (IHc2 Ld d Hd1 Hwf Hb)]|].
        apply emits6_nop, keepL_pop_sub.
      * intros x Hx. cbn [stmt_gnames7 app] in *. rewrite app_nil_r. exact Hx.
      * intros T b. cbn [code7 app bytes]. rewrite ?N.add_0_r, ?app_nil_r. reflexivity.
    + (* While *)
      intros s s' Hcx E. cbn [process_card] in E.
      apply bind_ok in E. destruct E as ([] & s0 & E0 & E).
      apply bind_ok in E. destruct E as (z & s0' & Ez & E). injection Ez as <- <-.
      destruct (keepL_card_label _ _ E0) as ((k1 & k2 & k3 & k4 & k5 & k6) & k7).
      assert (Hcx0 : ctx6 Ld d s0).
      { eapply ctx6_keep; [|exact Hcx]. repeat split; auto. }
      destruct (emits6_while_gen Ld d c1 _ _ _ (u32_to_i32 (cs_pc s0)) He (IHc2 Ld d Hd1 Hwf Hb) _ _ Hcx0 E) as (A & B & C & D).
      split; [exact A|]. split; [destruct B as [B1 B2]; split; [rewrite <- k2; exact B1 | rewrite <- k6; exact B2]|].
      split; [exact C|].
      intros T HT. rewrite (D T HT), k1, k5. reflexivity.
  - (* IfElse *)
    destruct op; try discriminate Hc. apply andb_true_iff in Hc. destruct Hc as [Hc Hb].
    apply andb_true_iff in Hc. destruct Hc as [He Ha]. cbn [process_card].
    change (with_sub 0 (process_card c1) ;; push_sub 1 ;; _)
      with (with_sub 0 (process_card c1) ;; push_sub 1 ;; if_else_tail (process_card c2) (process_card c3)).
    eapply emits6_ext.
    + apply emits6_seq; [apply emits6_nop, keepL_card_label|].
      apply emits6_seq; [apply emits6_with_sub, emits6_expr, He|].
      apply emits6_seq; [apply emits6_nop, keepL_push_sub|].
      apply emits6_if_else; [apply (IHc2 Ld d Hd1 Hwf Ha) | apply (IHc3 Ld d Hd1 Hwf Hb)].
    + intros x Hx. cbn [stmt_gnames7 app] in *. exact Hx.
    + intros T b. cbn [code7 app bytes]. unfold code_if_else. rewrite ?N.add_0_r. reflexivity.
  - (* Comment *)
    cbn [process_card]. eapply emits6_ext.
    + apply emits6_seq; [apply emits6_nop, keepL_card_label|]. apply emits6_nop.
      intros s0 s0' E. injection E as <-. repeat split.
    + intros x [].
    + reflexivity.
  - (* SetGlobalVar *)
    apply andb_true_iff in Hc. destruct Hc as [Hne He]. apply negb_true_iff in Hne.
    cbn [process_card]. rewrite Hne. eapply emits6_ext.
    + apply emits6_seq; [apply emits6_nop, keepL_card_label|].
      apply emits6_seq; [apply emits6_with_sub, emits6_expr, He | apply (emits6_global Ld d n ISetGlobalVar)].
    + intros x Hx. exact Hx.
    + reflexivity.
  - (* SetVar of an existing local *)
    apply andb_true_iff in Hc. destruct Hc as [Hc He]. apply andb_true_iff in Hc. destruct Hc as [Hx Hm].
    unfold lmem in Hm. destruct (find_first n (map fst Ld)) as [p|] eqn:Ef; [|discriminate].
    eapply emits6_ext.
    + apply (emits6_set_local Ld d n c (length (map fst Ld) - 1 - p) Hx He). unfold slot. rewrite Ef. reflexivity.
    + intros x Hx'. exact Hx'.
    + intros T b. cbn [code7 stmt_gnames7]. unfold set_slot, slot. rewrite Ef. reflexivity.
  - (* Repeat *)
    apply andb_true_iff in Hc. destruct Hc as [Hc Hb]. apply andb_true_iff in Hc. destruct Hc as [Hn Hi].
    assert (Hd2 : (1 <= d + 2)%Z) by lia.
    destruct i as [x|].
    + cbn [lv_ok] in Hi. unfold var_ok in Hi. apply andb_true_iff in Hi. destruct Hi as [Hx _]. apply negb_true_iff in Hx.
      assert (Hx' : is_empty x = false) by (destruct x; [discriminate Hx | reflexivity]).
      assert (Hwf3 : wfd ((x, d + 2) :: ([], d + 1) :: ([], d + 1) :: Ld)%Z (d + 2)).
      { repeat constructor; cbn [snd]; try lia. eapply Forall_impl; [|exact Hwf]. cbn. intros; lia. }
      eapply emits6_ext.
      * apply (emits7_repeat_some Ld d x c1 c2 _ _ Hd1 Hwf Hn Hx'
                 (IHc2 ((x, d + 2) :: (([] : str), d + 1) :: ([], d + 1) :: Ld)%Z (d + 2)%Z Hd2 Hwf3 Hb)).
      * intros y Hy. exact Hy.
      * intros T base. cbn [code7 map fst lvn app]. unfold repeat_code_some. cbv zeta. rewrite map_length.
        change (bytes [IReadLocalVar (N.of_nat (length Ld) + 1); ISetLocalVar (N.of_nat (length Ld) + 2)]) with 10.
        change (bytes [IPop]) with 1. reflexivity.
    + assert (Hwf2 : wfd (([], d + 1) :: ([], d + 1) :: Ld)%Z (d + 2)).
      { repeat constructor; cbn [snd]; try lia. eapply Forall_impl; [|exact Hwf]. cbn. intros; lia. }
      eapply emits6_ext.
      * apply (emits6_repeat Ld d c1 c2 _ _ Hd1 Hwf Hn (IHc2 ((([] : str), d + 1) :: ([], d + 1) :: Ld)%Z (d + 2)%Z Hd2 Hwf2 Hb)).
      * intros y Hy. exact Hy.
      * intros T base. cbn [code7 map fst lvn app]. unfold repeat_code. cbv zeta. rewrite map_length.
        change (bytes []) with 0. rewrite ?N.add_0_r. reflexivity.
  - (* Composite *)
    cbn [process_card]. eapply emits6_ext.
    + apply emits6_seq; [apply emits6_nop, keepL_card_label|].
      apply emits7_subexpr; [exact Hd1 | exact Hwf | eassumption | exact Hc].
    + intros x Hx. exact Hx.
    + intros T b. rewrite code7_composite. cbn [app bytes]. rewrite N.add_0_r. reflexivity.
Qed.


(* ------------------------------------------------------------------ the cards of main *)
Lemma emits7_top Ln c : top7 Ln c = true ->
  emits6 (ld1 Ln) 1 (ld1 (names_next Ln c)) 1 (process_card c) (stmt_gnames7 Ln c) (fun T b => code7 T Ln b c).
Proof.
  intros Hc.
  assert (Hs : stmt7 Ln c = true -> emits6 (ld1 Ln) 1 (ld1 Ln) 1 (process_card c) (stmt_gnames7 Ln c) (fun T b => code7 T Ln b c)).
  { intros H. pose proof (emits7_stmt7 c (ld1 Ln) 1%Z ltac:(lia) (ld1_wfd Ln)) as H1. rewrite ld1_fst in H1. apply H1, H. }
  destruct c; try (apply Hs; exact Hc).
  cbn [top7] in Hc. apply andb_true_iff in Hc. destruct Hc as [Hx He].
  cbn [names_next stmt_gnames7 code7]. unfold set_slot, slot, lmem. destruct (find_first name Ln) as [p|] eqn:Ef.
  - pose proof (emits6_set_local (ld1 Ln) 1%Z name c (length Ln - 1 - p) Hx He) as H. rewrite ld1_fst in H.
    apply H. unfold slot. rewrite Ef. reflexivity.
  - pose proof (emits6_declare (ld1 Ln) 1%Z name c Hx He) as H. rewrite ld1_fst, ld1_length in H.
    apply H. unfold lmem. rewrite Ef. reflexivity.
Qed.

Lemma emits7_cards cards : forall Ln ic, cards7 Ln cards = true ->
  emits6 (ld1 Ln) 1 (ld1 (names_end Ln cards)) 1 (process_cards cards ic) (main_gnames7 Ln cards) (fun T b => code_main7 T Ln b cards).
Proof.
  induction cards as [|c r IH]; intros Ln ic Hc; cbn [process_cards names_end main_gnames7].
  - apply emits6_nop. intros s s' E. injection E as <-. repeat split.
  - cbn [cards7] in Hc. apply andb_true_iff in Hc. destruct Hc as [Hc Hr].
    intros s s' Hcx E.
    pose proof (emits6_seq_gen _ _ _ _ _ _ _ _ _ _ _ _ (emits6_nop (ld1 Ln) 1 _ keepL_pop_sub)
                 (emits6_seq_gen _ _ _ _ _ _ _ _ _ _ _ _ (emits6_nop (ld1 Ln) 1 _ (keepL_push_sub ic))
                    (emits6_seq_gen _ _ _ _ _ _ _ _ _ _ _ _ (emits7_top Ln c Hc) (IH (names_next Ln c) (ic + 1) Hr)))) as H.
    destruct (H s s' Hcx E) as (A & B & C & D). split; [exact A|]. split; [exact B|]. split.
    + intros n Hn. apply C. exact Hn.
    + intros T HT. rewrite (D T HT). cbn [code_main7 app bytes]. rewrite ?N.add_0_r. reflexivity.
Qed.

Lemma main7_shape name f s s' :
  f_args f = [] -> cards7 [] (f_cards f) = true ->
  ctx s -> cs_depth s = [0%Z] -> cs_pc s = 0 ->
  compile_main (main_ir name f) s = ROk tt s' ->
  sub2 s s' /\
  (forall n, In n (main_gnames7 [] (f_cards f)) -> named s' n) /\
  (forall T, sub (cs_ids s') T -> cs_code s' = rev (code_all7 T (f_cards f)) ++ cs_code s) /\
  cs_pc s' = bytes (cs_code s').
Proof.
  intros Ha Hcards (Hl & Hu & Hp) Hd Hpc0 E.
  unfold compile_main, process_function, process_leaf in E.
  cbn [main_ir fi_index fi_handle fi_args fi_cards fi_ns fi_imports] in E. rewrite Ha in E. cbn [rev add_locals] in E.
  apply bind_ok in E. destruct E as ([] & sa & Ea & E). injection Ea as <-.
  apply bind_ok in E. destruct E as ([] & sb & Eb & E). injection Eb as <-.
  apply bind_ok in E. destruct E as ([] & sc & Ec & E). injection Ec as <-.
  apply bind_ok in E. destruct E as ([] & sd & Ed & E).
  apply bind_ok in Ed. destruct Ed as ([] & sd0 & Ed0 & Ed). injection Ed0 as <-.
  apply bind_ok in Ed. destruct Ed as ([] & sd1 & Ed1 & Ed). injection Ed1 as <-.
  match type of Ed with process_cards _ _ ?st = _ => set (s0 := st) in * end.
  assert (Hc0 : ctx6 (ld1 []) 1 s0).
  { subst s0. split; [split|split]; cbn; [rewrite Hl; reflexivity | rewrite Hd; reflexivity | exact Hu | exact Hp]. }
  destruct (emits7_cards (f_cards f) [] 0 Hcards s0 sd Hc0 Ed) as (Hcd & Bd & Cd & Dd).
  set (Lf := names_end [] (f_cards f)) in *.
  apply bind_ok in E. destruct E as ([] & se & Ee & E). injection Ee as <-.
  apply bind_ok in E. destruct E as ([] & sf & Ef & E).
  (* scope_end *)
  match type of Ef with scope_end ?st = _ => set (se := st) in * end.
  assert (Hce : ctx6 (ld1 Lf ++ []) 1 se).
  { rewrite app_nil_r. destruct Hcd as ((A1 & A2) & A3 & A4). subst se. split; [split|split]; cbn; auto. }
  assert (Hpop : Forall (fun nd : str * Z => (1 - 1 < snd nd)%Z) (ld1 Lf)).
  { unfold ld1. apply Forall_forall. intros nd H. apply in_map_iff in H. destruct H as (x & <- & _). cbn. lia. }
  destruct (emits6_scope_end (ld1 Lf) [] 1 ltac:(lia) Hpop I se sf Hce Ef) as ((_ & _ & Hpf) & Ssf & _ & Fc).
  rewrite ld1_length in Fc.
  (* Exit *)
  apply bind_ok in E. destruct E as ([] & sg & Eg & E).
  destruct (keep4_card_label _ _ Eg) as (g1 & g2 & g3 & g4 & g5 & g6).
  rewrite push_instr_eq in E. injection E as <-.
  assert (Hpc0' : cs_pc s0 = 0) by exact Hpc0.
  assert (Hcode0 : cs_code s0 = cs_code s) by reflexivity.
  assert (Hcodee : cs_code se = cs_code sd) by reflexivity.
  assert (S0 : sub2 s s0) by (split; intros ? ? H; exact H).
  assert (Sde : sub2 sd se) by (split; intros ? ? H; exact H).
  assert (Sfg : sub2 sf (pushed sg IExit)).
  { split; cbn [pushed cs_ids cs_names set_code set_trace]; [rewrite g2 | rewrite g6]; intros ? ? H; exact H. }
  assert (Sdg : sub2 sd (pushed sg IExit)) by (eapply sub2_trans; [exact Sde|]; eapply sub2_trans; [exact Ssf | exact Sfg]).
  split; [eapply sub2_trans; [exact S0|]; eapply sub2_trans; [exact Bd | exact Sdg]|]. split.
  { intros n Hn. eapply named_sub2; [apply (Cd n Hn) | exact Sdg]. }
  split.
  { intros T HT.
    assert (HTf : sub (cs_ids sf) T) by (eapply sub_trans; [apply Sfg | exact HT]).
    assert (HTd : sub (cs_ids sd) T).
    { eapply sub_trans; [apply Sde|]. eapply sub_trans; [apply Ssf | exact HTf]. }
    cbn [pushed cs_code set_code set_trace]. rewrite g1, (Fc T HTf), Hcodee, (Dd T HTd), Hpc0', Hcode0.
    unfold code_all7. fold Lf.
    rewrite !rev_app_distr. cbn [rev app]. rewrite rev_repeat. rewrite <- !app_assoc. cbn [app]. reflexivity. }
  cbn [pushed cs_pc cs_code set_code set_trace bytes]. rewrite g5, g1, Hpf. unfold spanN. lia.
Qed.

Lemma in_f7_cards M : in_f7 M = true -> cards7 [] (main_cards M) = true.
Proof.
  destruct M as [subs funs imps]. cbn [in_f7].
  destruct subs; [|discriminate]. destruct funs as [|[name f] [|]]; try discriminate.
  destruct imps; [|discriminate]. intros H. apply andb_true_iff in H. apply H.
Qed.

Theorem compile_f7_shape M B :
  in_f7 M = true -> compile M default_options = COk B ->
  N.of_nat (length (p_ids B)) < two32 ->
  exists rest,
    p_bytecode B = encode (code_all7 (p_ids B) (main_cards M) ++ rest) /\
    (forall n, In n (main_gnames7 [] (main_cards M)) -> nm_find (handle_of_bytes n) (p_ids B) <> None) /\
    (forall h1 h2 id, nm_find h1 (p_ids B) = Some id -> nm_find h2 (p_ids B) = Some id -> h1 = h2) /\
    (forall h id, nm_find h (p_ids B) = Some id -> id < two32) /\
    handles_inj (main_gnames7 [] (main_cards M)) = true.
Proof.
  intros HM HB Hlen. destruct M as [subs funs imps]. cbn [in_f7] in HM.
  destruct subs; [|discriminate]. destruct funs as [|[name f] [|]]; try discriminate.
  destruct imps; [|discriminate].
  apply andb_true_iff in HM. destruct HM as [HM Hcards]. apply andb_true_iff in HM. destruct HM as [Hname Hargs].
  apply str_eqb_main in Hname. subst name.
  assert (Ha : f_args f = []) by (destruct (f_args f); [reflexivity | discriminate]).
  cbn [main_cards].
  destruct (compile_ok_inv _ _ _ HB) as (fs & s & Hfs & E & ->).
  change (o_recursion_limit default_options) with 64 in Hfs. rewrite ir_stream_f1 in Hfs. injection Hfs as <-.
  set (fm := main_ir s_main f) in *. revert E. generalize std_firs as std. intros std E.
  cbn [finish p_ids p_bytecode] in *.
  set (s0 := init_state (o_debug default_options)) in *.
  unfold compile_ir in E.
  apply bind_ok in E. destruct E as ([] & s1 & E1 & E).
  apply bind_ok in E. destruct E as ([] & s3 & E23 & E4).
  cbn [stage_2] in E23. apply bind_ok in E23. destruct E23 as ([] & s2 & E2 & E3).
  assert (Eafter : after_main std s2 = ROk tt s).
  { unfold after_main, bind. rewrite E3. exact E4. }
  pose proof (frame3_stage_1 (fm :: std) s0) as F1. rewrite E1 in F1.
  destruct F1 as (c1 & p1 & i1 & n1).
  assert (Hctx1 : ctx s1).
  { destruct (stage_1_ctx _ _ _ E1) as [A B]. split; [rewrite A; reflexivity|]. split; [rewrite B; reflexivity|].
    rewrite p1, c1. reflexivity. }
  assert (Hd1 : cs_depth s1 = [0%Z]).
  { clear - E1. assert (Hg : forall fs sa sb, stage_1 fs sa = ROk tt sb -> cs_depth sb = cs_depth sa).
    { induction fs as [|x r IH]; intros sa sb H; cbn [stage_1] in H; [injection H as <-; reflexivity|].
      apply bind_ok in H. destruct H as ([] & sx & Hx & Hr). rewrite (IH _ _ Hr).
      unfold add_function, bind, get in Hx. destruct (sm_find _ _); [discriminate|]. injection Hx as <-. reflexivity. }
    rewrite (Hg _ _ _ E1). reflexivity. }
  destruct (main7_shape s_main f s1 s2 Ha Hcards Hctx1 Hd1 ltac:(rewrite p1; reflexivity) E2) as (Hsub12 & Hnames2 & Hcode2 & Hpc2).
  assert (G2 : G [] [] s2).
  { assert (S : sp3 [] [] (stage_1 (fm :: std) ;; compile_main fm) (fun _ => True)).
    { eapply sp3_bind; [apply sp3_frame, frame3_stage_1 | intros _ _; apply sp3_compile_main]. }
    specialize (S s0 (G_init _)). unfold bind in S. rewrite E1, E2 in S. apply S. }
  assert (Gs : G (cs_code s2) (cs_ids s2) s).
  { assert (G2' : G (cs_code s2) (cs_ids s2) s2).
    { apply G_here; [apply (g_pc _ _ _ G2)|]. intros Hl. destruct (g_ids _ _ _ G2 Hl) as [I1 I2 I3 _]. auto. }
    pose proof (sp3_after_main (cs_code s2) (cs_ids s2) std s2 G2') as S. rewrite Eafter in S. apply S. }
  destruct (g_ids _ _ _ Gs Hlen) as [Inv Ilt Iinj Iext].
  destruct (g_code _ _ _ Gs) as [l El].
  assert (Hsub : sub (cs_ids s2) (cs_ids s)) by exact Iext.
  exists (rev l). split; [|split; [|split; [|split]]].
  - f_equal. rewrite El, (Hcode2 _ Hsub), c1. cbn [s0 init_state cs_code]. rewrite app_nil_r, rev_app_distr, rev_involutive.
    reflexivity.
  - intros n Hin. pose proof (named_found _ _ (Hnames2 n Hin)) as Hnf.
    destruct (nm_find (handle_of_bytes n) (cs_ids s2)) as [id|] eqn:En; [|congruence].
    rewrite (Hsub _ _ En). discriminate.
  - exact Iinj.
  - intros h id Hf. specialize (Ilt _ _ Hf). rewrite Inv in Ilt. lia.
  - apply (named_inj s2 _ eq_refl Hnames2).
Qed.
