(* Conservation of values over histories of the HandleTable model (HandleTable.v): every value
   handed to the table is, at any later point, still stored, or was dropped exactly once, or was
   handed back by remove - as multisets.  Handles are Copy, so only values are accounted. *)
From Coq Require Import Arith Lia List Bool NArith Permutation.
Import ListNotations.
From Cao Require Import Cyc ProbeDefs ProbeProofs HashMap HashMapProofs HashMapConserve HandleTable HandleTableProofs.

Section HTConserve.
  Variable V : Type.
  Variable home : nat -> N -> nat.
  Variable needs_grow : nat -> nat -> bool.
  Variable grow_cap : nat -> nat.
  Variable min_cap : nat.
  Variable reserve_cap : nat -> nat.
  Variable clone_v : V -> V.

  Hypothesis home_lt : forall n h, 0 < n -> home n h < n.
  Hypothesis ng_lt : forall c cap, needs_grow (S c) cap = false -> S c < cap.
  Hypothesis grow_cap_gt : forall c, c < grow_cap c.
  Hypothesis min_cap_pos : 2 <= min_cap.
  Hypothesis min_cap_pow2 : is_pow2 min_cap.
  Hypothesis reserve_cap_ge : forall n, n <= reserve_cap n.

  Notation htable := (hmap unit V).
  Notation TInvN := (TInv home).
  Notation hlook := (lookup ueqb home).
  Notation step := (ht_step home needs_grow grow_cap min_cap reserve_cap clone_v).
  Notation run := (ht_run home needs_grow grow_cap min_cap reserve_cap clone_v).
  Notation top := (top V).
  Notation tout := (tout V).

  Ltac psolve :=
    rewrite ?app_nil_r; cbn [app map e_key e_val hk];
    repeat (rewrite <- Permutation_cons_append; cbn [app]);
    repeat (first [reflexivity | apply perm_skip | (rewrite perm_swap; apply perm_skip)]).

  Definition is_panic (o : tout) : bool := match o with TOPanic _ => true | _ => false end.

  (* values whose ownership passes to the table.  A panicking call (entry when the grown table
     cannot be allocated) leaves the program; nothing is accounted for it. *)
  Definition tgiven (m : htable) (o : top) (out : tout) : list V :=
    match o with
    | TInsert h v _ => [v]
    | TEntryIns h v _ =>
        match hlook m (h, tt) with
        | Some _ => []
        | None => if is_panic out then [] else [v]
        end
    | TGetMutSet h v => match hlook m (h, tt) with Some _ => [v] | None => [] end
    | TClone _ =>
        match ht_clone home needs_grow grow_cap min_cap clone_v m with
        | Ok c => vals c
        | _ => []
        end
    | _ => []
    end.

  Definition treturned (o : top) (out : tout) : list V :=
    match o, out with
    | TRemove _ _, TOOptV (Some v) => [v]
    | _, _ => []
    end.

  Definition tbalanced (m : htable) (g : list V) (m' : htable) (d r : list V) : Prop :=
    Permutation (vals m ++ g) (vals m' ++ d ++ r).

  Lemma tbalanced_same (m : htable) : tbalanced m [] m [] [].
  Proof. unfold tbalanced. rewrite !app_nil_r. reflexivity. Qed.

  Lemma tinv_inv (m : htable) : TInvN m -> Inv home m.
  Proof. intros (H & _). exact H. Qed.

  Lemma put_present (m m' : htable) h v e0 : TInvN m -> TInvN m' -> hlook m (h, tt) = Some e0 ->
    (forall e, Ent m' e <-> (e = hk h v \/ (Ent m e /\ ek e <> (h, tt)))) ->
    tbalanced m [v] m' [e_val e0] [].
  Proof.
    intros HT HT' EL HE. apply tinv_inv in HT. apply tinv_inv in HT'.
    pose proof (ents_after_put unit V ueqb home ueqb_spec home_lt m m' (h, tt) (hk h v) HT HT' eq_refl HE) as P'.
    pose proof (ents_present_split unit V ueqb home ueqb_spec home_lt m (h, tt) e0 HT EL) as P.
    unfold tbalanced. rewrite (vals_perm _ _ _ _ P'), (vals_perm _ _ _ _ P). psolve.
  Qed.

  Lemma put_absent (m m' : htable) h v : TInvN m -> TInvN m' -> hlook m (h, tt) = None ->
    (forall e, Ent m' e <-> (e = hk h v \/ Ent m e)) ->
    tbalanced m [v] m' [] [].
  Proof.
    intros HT HT' EL HE. apply tinv_inv in HT. apply tinv_inv in HT'.
    assert (HE' : forall x, Ent m' x <-> (x = hk h v \/ (Ent m x /\ ek x <> (h, tt)))).
    { intros x. rewrite HE. split; [|tauto]. intros [->|Hx]; [left; reflexivity|right].
      split; [exact Hx|].
      apply (lookup_none_in unit V ueqb home ueqb_spec home_lt m (h, tt) HT EL). apply ent_contents. exact Hx. }
    pose proof (ents_after_put unit V ueqb home ueqb_spec home_lt m m' (h, tt) (hk h v) HT HT' eq_refl HE') as P'.
    rewrite (ents_absent_others unit V ueqb home ueqb_spec home_lt m (h, tt) HT EL) in P'.
    unfold tbalanced. rewrite (vals_perm _ _ _ _ P'). unfold vals. psolve.
  Qed.

  Lemma same_ents (m m' : htable) : TInvN m -> TInvN m' -> (forall e, Ent m' e <-> Ent m e) -> tbalanced m [] m' [] [].
  Proof.
    intros HT HT' HE. apply tinv_inv in HT. apply tinv_inv in HT'.
    pose proof (ents_same unit V ueqb home ueqb_spec home_lt m m' HT HT' HE) as P'.
    unfold tbalanced. rewrite (vals_perm _ _ _ _ P'). psolve.
  Qed.

  Lemma present_nonzero (m : htable) h e0 : TInvN m -> hlook m (h, tt) = Some e0 -> h <> 0%N.
  Proof.
    intros (HI & Hnz & _) EL.
    apply (lookup_ent ueqb ueqb_spec home_lt (h, tt) e0 HI) in EL. destruct EL as [He Hk].
    specialize (Hnz _ He). unfold ek in Hk. injection Hk as Hh _. congruence.
  Qed.

  (* ---------- one operation ---------- *)
  Theorem ht_step_conserves (m : htable) (o : top) : TInvN m -> valid_top o ->
    let '(m', out, d) := step m o in
    tbalanced m (tgiven m o out) m' d (treturned o out).
  Proof.
    intros HT Hv. destruct o as [h v ok|h v ok|h ok|h|h|h|h v|h|add ok| | | | |]; cbn [ht_step].
    - (* insert *)
      cbn [tgiven]. destruct (N.eqb_spec h 0) as [->|Hh].
      + unfold ht_insert. cbn [N.eqb treturned]. unfold tbalanced. psolve.
      + pose proof (ht_insert_spec needs_grow grow_cap home_lt ng_lt grow_cap_gt min_cap_pos min_cap_pow2 v ok HT Hh) as P.
        destruct P as [[_ E]|P]; [rewrite E; cbn [treturned]; unfold tbalanced; psolve|].
        destruct (hlook m (h, tt)) as [e0|] eqn:EL; destruct P as (m' & E & HT' & _ & HE); rewrite E; cbn [treturned].
        * eapply put_present; eauto.
        * eapply put_absent; eauto.
    - (* entry + insert *)
      cbn [valid_top] in Hv. cbn [tgiven].
      pose proof (ht_entry_spec needs_grow grow_cap home_lt ng_lt grow_cap_gt min_cap_pos min_cap_pow2 (Some v) ok HT Hv) as P.
      destruct (hlook m (h, tt)) as [e0|] eqn:EL.
      + rewrite P. cbn [tlift fst snd treturned]. apply tbalanced_same.
      + destruct P as [[_ E]|(m' & E & HT' & _ & HE)]; rewrite E; cbn [tlift fst snd treturned is_panic].
        * apply tbalanced_same.
        * eapply put_absent; eauto.
    - (* entry dropped *)
      cbn [valid_top] in Hv. cbn [tgiven].
      pose proof (ht_entry_spec needs_grow grow_cap home_lt ng_lt grow_cap_gt min_cap_pos min_cap_pow2 None ok HT Hv) as P.
      destruct (hlook m (h, tt)) as [e0|] eqn:EL.
      + rewrite P. cbn [tlift fst snd treturned]. apply tbalanced_same.
      + destruct P as [[_ E]|(m' & E & HT' & _ & HE)]; rewrite E; cbn [tlift fst snd treturned].
        * apply tbalanced_same.
        * apply same_ents; auto.
    - (* remove *)
      cbn [tgiven]. pose proof (ht_remove_spec home_lt h HT) as P.
      destruct (hlook m (h, tt)) as [e0|] eqn:EL.
      + destruct P as (m' & E & HT' & _ & HE). rewrite E. cbn [tlift fst snd treturned].
        pose proof (tinv_inv _ HT) as HI. pose proof (tinv_inv _ HT') as HI'.
        pose proof (ents_after_del unit V ueqb home ueqb_spec home_lt m m' (h, tt) HI HI' HE) as P'.
        pose proof (ents_present_split unit V ueqb home ueqb_spec home_lt m (h, tt) e0 HI EL) as P0.
        unfold tbalanced. rewrite (vals_perm _ _ _ _ P'), (vals_perm _ _ _ _ P0). psolve.
      + rewrite P. cbn [tlift fst snd treturned]. apply tbalanced_same.
    - rewrite (ht_get_spec home_lt h HT). cbn [tlift tgiven treturned]. apply tbalanced_same.
    - rewrite (ht_get_spec home_lt h HT). cbn [tlift tgiven treturned]. apply tbalanced_same.
    - (* get_mut + write *)
      cbn [tgiven]. rewrite (ht_get_spec home_lt h HT).
      destruct (hlook m (h, tt)) as [e0|] eqn:EL; cbn [option_map].
      + pose proof (present_nonzero _ _ _ HT EL) as Hh.
        assert (Hroom : hlook m (h, tt) = None -> S (hm_count m) < hcap m) by (rewrite EL; discriminate).
        pose proof (ht_insert_raw_spec home_lt v HT Hh Hroom) as P. rewrite EL in P.
        destruct P as (m' & E & HT' & _ & _ & HE). rewrite E. cbn [tlift treturned].
        eapply put_present; eauto.
      + cbn [treturned]. apply tbalanced_same.
    - (* index *)
      rewrite (ht_get_spec home_lt h HT). cbn [tgiven].
      destruct (hlook m (h, tt)); cbn [option_map tlift treturned]; apply tbalanced_same.
    - (* reserve *)
      cbn [tgiven]. destruct ok.
      + destruct (ht_reserve_spec reserve_cap home_lt min_cap_pos min_cap_pow2 reserve_cap_ge add HT) as (m' & E & HT' & _ & HE).
        rewrite E. cbn [tlift treturned]. apply same_ents; auto.
      + unfold ht_reserve. destruct (hcap m <? add + hm_count m).
        * unfold ht_adjust. rewrite (adjust_fail ueqb home). cbn [tlift treturned]. apply tbalanced_same.
        * cbn [tlift treturned]. apply tbalanced_same.
    - (* clear *)
      unfold ht_clear. cbn [tgiven treturned]. unfold tbalanced, vals, ents. cbn [hm_slots].
      rewrite contents_repeat_none. psolve.
    - (* clone *)
      cbn [tgiven]. destruct (ht_clone home needs_grow grow_cap min_cap clone_v m) as [c| | |];
        cbn [treturned]; try apply tbalanced_same.
      unfold ht_clear. cbn [snd]. unfold tbalanced. psolve.
    - apply tbalanced_same.
    - apply tbalanced_same.
    - apply tbalanced_same.
  Qed.

  (* ---------- histories ---------- *)
  Fixpoint tledger (m : htable) (ops : list top) : list V * list V * list V :=
    match ops with
    | [] => ([], [], [])
    | o :: r =>
        let '(m1, out, d) := step m o in
        let '(gs, ds, rs) := tledger m1 r in
        (tgiven m o out ++ gs, d ++ ds, treturned o out ++ rs)
    end.

  Theorem ht_history_conserves : forall ops m, TInvN m -> Forall (@valid_top V) ops ->
    let '(m', _) := run m ops in
    let '(gs, ds, rs) := tledger m ops in
    tbalanced m gs m' ds rs.
  Proof.
    induction ops as [|o r IH]; intros m HT Hv; cbn [ht_run tledger].
    - apply tbalanced_same.
    - inversion Hv as [|? ? Hvo Hvr]; subst.
      pose proof (ht_step_conserves m o HT Hvo) as B.
      pose proof (ht_step_inv needs_grow grow_cap reserve_cap clone_v home_lt ng_lt grow_cap_gt
                    min_cap_pos min_cap_pow2 reserve_cap_ge o HT Hvo) as G.
      destruct (step m o) as [[m1 out] d]. destruct G as [HT1 _].
      specialize (IH m1 HT1 Hvr).
      destruct (run m1 r) as [m2 xs]. destruct (tledger m1 r) as [[gs ds] rs].
      unfold tbalanced in *.
      rewrite app_assoc, B. rewrite <- !app_assoc.
      rewrite (app_assoc d), (Permutation_app_comm (d ++ treturned o out)), app_assoc, IH.
      rewrite <- !app_assoc. apply Permutation_app_head.
      rewrite (app_assoc ds), (Permutation_app_comm (ds ++ rs)). rewrite <- !app_assoc.
      apply Permutation_app_head. rewrite !app_assoc. apply Permutation_app_tail. apply Permutation_app_comm.
  Qed.

  Corollary ht_history_conserves_new : forall ops c, Forall (@valid_top V) ops ->
    let '(m', _) := run (ht_new V min_cap c) ops in
    let '(gs, ds, rs) := tledger (ht_new V min_cap c) ops in
    Permutation gs (vals m' ++ ds ++ rs).
  Proof.
    intros ops c Hv.
    pose proof (ht_history_conserves ops (ht_new V min_cap c) (ht_new_inv V home min_cap_pos min_cap_pow2 c) Hv) as H.
    destruct (run (ht_new V min_cap c) ops) as [m' xs].
    destruct (tledger (ht_new V min_cap c) ops) as [[gs ds] rs].
    unfold tbalanced, vals, ents, ht_new in H. cbn [hm_slots] in H.
    rewrite contents_repeat_none in H. exact H.
  Qed.
End HTConserve.

Arguments tgiven {V} home needs_grow grow_cap min_cap clone_v m o out.
Arguments treturned {V} o out.
Arguments tbalanced {V} m g m' d r.
Arguments tledger {V} home needs_grow grow_cap min_cap reserve_cap clone_v m ops.
