(* C10: the side conditions of compile_wellformed stated on the module tree (module_in_range) imply the
   ones stated on the flattened program: into_ir_stream only rearranges the functions of M and of the
   standard library, and gives them 32-bit handles. *)
From Coq Require Import List NArith ZArith Bool Lia.
From Cao Require Import ListUtil CheckUtil Bits CardAst Bytecode Compiler CompilerGen StdlibGen Wellformed
     WellformedSide CompilerProofs CompilerWf CompilerOk CompilerData CompilerFull.
Import ListNotations.
Local Open Scope N_scope.

Section ModuleInd.
  Variable P : module -> Prop.
  Hypothesis Hm : forall subs funs imps, Forall (fun nm => P (snd nm)) subs -> P (Module subs funs imps).
  Fixpoint module_ind' (m : module) : P m :=
    match m with
    | Module subs funs imps =>
        Hm subs funs imps
           ((fix all (l : list (str * module)) : Forall (fun nm => P (snd nm)) l :=
               match l with
               | [] => Forall_nil _
               | (nm, sub) :: r => Forall_cons (nm, sub) (module_ind' sub) (all r)
               end) subs)
    end.
End ModuleInd.

Section Flatten.
  Variable P : card -> bool.
  Definition fir_all (f : function_ir) : Prop := forallb P (fi_cards f) = true /\ fi_handle f < two32.

  Definition subs_all (l : list (str * module)) : bool :=
    (fix go (l : list (str * module)) : bool :=
       match l with
       | [] => true
       | (_, sub) :: r => module_all P sub && go r
       end) l.
  Lemma module_all_eq subs funs imps :
    module_all P (Module subs funs imps) =
    forallb (fun nf => forallb P (f_cards (snd nf))) funs && subs_all subs.
  Proof. reflexivity. Qed.
  Lemma subs_all_cons nm sub r : subs_all ((nm, sub) :: r) = module_all P sub && subs_all r.
  Proof. reflexivity. Qed.
  Lemma subs_all_app a b : subs_all (a ++ b) = subs_all a && subs_all b.
  Proof.
    induction a as [|[nm sub] r IH]; [reflexivity|]. cbn [app]. rewrite !subs_all_cons, IH, andb_assoc. reflexivity.
  Qed.

  Lemma flatten_functions_all fs : forall fid ns imports out n out' n',
    forallb (fun nf => forallb P (f_cards (snd nf))) fs = true -> Forall fir_all out ->
    flatten_functions fs fid ns imports out n = inr (out', n') -> Forall fir_all out'.
  Proof.
    induction fs as [|[name f] r IH]; intros fid ns imports out n out' n' Hp Ho H; cbn [flatten_functions] in H.
    - injection H as <- _. exact Ho.
    - destruct (negb (is_name_valid name)); [discriminate|].
      cbn [forallb snd] in Hp. apply andb_true_iff in Hp. destruct Hp as [Hf Hr].
      eapply IH; [exact Hr | | exact H]. constructor; [|exact Ho].
      split; [exact Hf | apply handle_from_u64_lt].
  Qed.

  Lemma flatten_module_all m : forall limit ns out n out' n',
    module_all P m = true -> Forall fir_all out ->
    flatten_module m limit ns out n = inr (out', n') -> Forall fir_all out'.
  Proof.
    induction m as [subs funs imps IH] using module_ind'.
    intros limit ns out n out' n' Hp Ho H. rewrite module_all_eq in Hp.
    apply andb_true_iff in Hp. destruct Hp as [Hfuns Hsubs].
    cbn [flatten_module] in H.
    destruct (limit <=? N.of_nat (length ns)); [discriminate|].
    destruct (execute_imports imps []) as [e|imports]; [discriminate|].
    destruct (flatten_functions funs 0 ns imports out n) as [e|[out1 n1]] eqn:Ef; [discriminate|].
    pose proof (flatten_functions_all _ _ _ _ _ _ _ _ Hfuns Ho Ef) as Ho1.
    clear Ef Ho Hfuns. revert out1 n1 Ho1 H.
    induction IH as [|[nm sub] r Hsub _ IHr]; intros out1 n1 Ho1 H.
    - injection H as <- _. exact Ho1.
    - rewrite subs_all_cons in Hsubs. apply andb_true_iff in Hsubs. destruct Hsubs as [Hs Hr].
      cbn [snd] in Hsub.
      destruct (flatten_module sub limit (ns ++ [nm]) out1 n1) as [e|[out2 n2]] eqn:Es; [discriminate|].
      apply (IHr Hr out2 n2); [|exact H]. eapply Hsub; eauto.
  Qed.

  Lemma Forall_upd {A} (Q : A -> Prop) l i v : Forall Q l -> Q v -> Forall Q (upd l i v).
  Proof.
    intros Hl Hv. revert i; induction Hl as [|x r Hx Hr IH]; intros i.
    - destruct i; constructor.
    - destruct i as [|i]; cbn [upd]; constructor; auto.
  Qed.
  Lemma Forall_swap0 {A} (Q : A -> Prop) l i : Forall Q l -> Forall Q (swap0 l i).
  Proof.
    intros Hl. unfold swap0. destruct l as [|x0 r]; [constructor|].
    destruct (nth_error (x0 :: r) i) as [xi|] eqn:E; [|exact Hl].
    assert (Hxi : Q xi). { rewrite Forall_forall in Hl. apply Hl. eapply nth_error_In; eauto. }
    assert (Hx0 : Q x0) by (inversion Hl; auto).
    apply Forall_upd; [apply Forall_upd|]; auto.
  Qed.

  Lemma into_ir_stream_all M limit fs :
    module_all P M = true -> module_all P std_module = true ->
    into_ir_stream M limit = inr fs -> Forall fir_all fs.
  Proof.
    intros Hm Hstd H. destruct M as [subs funs imps]. unfold into_ir_stream in H.
    destruct (ensure_invariants _); [discriminate|].
    destruct (find_index _ funs 0) as [mi|]; [|discriminate].
    destruct (flatten_module _ limit [] [] 0) as [e|[out n']] eqn:Ef; [discriminate|].
    injection H as <-. apply Forall_swap0, Forall_rev_iff.
    eapply flatten_module_all; [| |exact Ef]; [|constructor].
    rewrite module_all_eq in Hm |- *. apply andb_true_iff in Hm. destruct Hm as [Hf Hs].
    rewrite Hf, subs_all_app, Hs. cbn [andb]. rewrite subs_all_cons, Hstd. reflexivity.
  Qed.
End Flatten.

Lemma std_module_in_range : module_in_range std_module = true.
Proof. vm_compute. reflexivity. Qed.

Theorem module_in_range_program M o :
  module_in_range M = true -> program_in_range M o = true /\ program_utf8 M o = true.
Proof.
  intros H. unfold module_in_range in H. apply andb_true_iff in H. destruct H as [Hr Hu].
  pose proof std_module_in_range as Hs. unfold module_in_range in Hs. apply andb_true_iff in Hs.
  destruct Hs as [Hsr Hsu].
  unfold program_in_range, program_utf8.
  destruct (into_ir_stream M (o_recursion_limit o)) as [e|fs] eqn:E; [auto|].
  pose proof (into_ir_stream_all card_rng M _ fs Hr Hsr E) as Fr.
  pose proof (into_ir_stream_all card_utf8 M _ fs Hu Hsu E) as Fu.
  split; apply forallb_forall; intros f Hf.
  - rewrite Forall_forall in Fr. destruct (Fr f Hf) as [Hc Hh]. unfold fir_rng.
    apply andb_true_iff. split; [apply N.ltb_lt, Hh | exact Hc].
  - rewrite Forall_forall in Fu. destruct (Fu f Hf) as [Hc _]. exact Hc.
Qed.

(* the full theorem with its side conditions on the module *)
Theorem compile_wellformed_module M o B :
  compile M o = COk B ->
  module_in_range M = true ->
  N.of_nat (length (p_bytecode B)) < 2147483648 ->
  N.of_nat (length (p_data B)) < 4294967296 ->
  wellformed_gen false B /\ trace_complete B.
Proof.
  intros H Hm Hl Hd. destruct (module_in_range_program M o Hm) as [Hr Hu]. split.
  - apply (compile_wellformed M o B); auto.
  - apply (compile_trace_complete M o B); auto.
Qed.
