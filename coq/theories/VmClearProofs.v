(* C17: a cleared Vm behaves like a new one. `clear` resets the height of the value stack but leaves the old
   contents in the dead slots; a new Vm has nil there. The two runs are related by: same height, same contents
   BELOW A HIGH-WATER MARK hw (>= the height; every slot below hw has been written during the current run by both
   Vms with the same value), everything else equal. No operation reads a slot at or above hw before writing it. *)
From Coq Require Import NArith ZArith List Lia Bool.
From Cao Require Import ListUtil Bits Stacks StacksProofs Vm VmWitness VmProofs.
Import ListNotations.

Set Implicit Arguments.

(* ------------------------------------------------------------------ *)
(* ValueStack: every operation on two stacks that agree below hw        *)
(* ------------------------------------------------------------------ *)

Section Agree.
  Variable V : Type.
  Variable vnil : V.

  Definition agree (hw : nat) (a b : vstack V) : Prop :=
    vcount a = vcount b /\ length (vdata a) = length (vdata b) /\ vcount a <= hw /\
    forall i, i < hw -> nth i (vdata a) vnil = nth i (vdata b) vnil.

  Ltac agree_split := unfold agree; cbn [vcount vdata]; rewrite ?upd_length; split; [|split; [|split]].

  (* clear_until(h) may raise the height again: only up to the high-water mark *)
  Definition op_ok (hw : nat) (o : vop V) : Prop :=
    match o with VClearUntil _ h => h <= hw | _ => True end.

  Lemma agree_mono hw hw' a b : agree hw a b -> hw' <= hw -> vcount a <= hw' -> agree hw' a b.
  Proof. intros (Hc & Hl & Hh & Hd) Hle Hc'. repeat split; auto. intros i Hi. apply Hd. lia. Qed.

  Lemma agree_firstn hw a b n : agree hw a b -> n <= hw ->
    firstn n (vdata a) = firstn n (vdata b).
  Proof.
    intros (Hc & Hl & Hh & Hd) Hn.
    assert (G : forall (l1 l2 : list V) n, length l1 = length l2 ->
                  (forall i, i < n -> nth i l1 vnil = nth i l2 vnil) -> firstn n l1 = firstn n l2).
    { induction l1 as [|x l1 IH]; intros [|y l2] m Hlen Hnth; cbn in Hlen; try lia; [reflexivity|].
      destruct m as [|m]; [reflexivity|]. cbn [firstn]. f_equal.
      - apply (Hnth 0). lia.
      - apply IH; [lia|]. intros i Hi. apply (Hnth (S i)). lia. }
    apply G; [exact Hl|]. intros i Hi. apply Hd. lia.
  Qed.

  Lemma agree_push hw a b v :
    agree hw a b ->
    snd (vs_push a v) = snd (vs_push b v) /\
    agree (Nat.max hw (vcount (fst (vs_push a v)))) (fst (vs_push a v)) (fst (vs_push b v)).
  Proof.
    intros (Hc & Hl & Hh & Hd). unfold vs_push. rewrite <- Hc, <- Hl.
    destruct (S (vcount a) <? length (vdata a)) eqn:E; cbn [fst snd vcount vdata].
    - split; [reflexivity|]. apply Nat.ltb_lt in E.
      agree_split; auto; try lia.
      intros i Hi.
      destruct (Nat.eq_dec i (vcount a)) as [->|Hne].
      + rewrite !nth_upd_same by lia. reflexivity.
      + rewrite !nth_upd_other by lia. apply Hd. lia.
    - split; [reflexivity|]. agree_split; auto; try lia. intros i Hi. apply Hd. lia.
  Qed.

  Lemma agree_pop hw a b :
    agree hw a b ->
    snd (vs_pop vnil a) = snd (vs_pop vnil b) /\ agree hw (fst (vs_pop vnil a)) (fst (vs_pop vnil b)).
  Proof.
    intros (Hc & Hl & Hh & Hd). unfold vs_pop. rewrite <- Hc.
    destruct (vcount a =? 0) eqn:E; cbn [fst snd vcount vdata].
    - split; [reflexivity|]. repeat split; auto.
    - apply Nat.eqb_neq in E. split; [apply Hd; lia|].
      agree_split; auto; try lia.
      intros i Hi. destruct (Nat.eq_dec i (vcount a - 1)) as [->|Hne].
      + destruct (Nat.lt_ge_cases (vcount a - 1) (length (vdata a))) as [Hlt|Hge].
        * rewrite !nth_upd_same by lia. reflexivity.
        * rewrite !nth_overflow by (rewrite upd_length; lia). reflexivity.
      + rewrite !nth_upd_other by lia. apply Hd. lia.
  Qed.

  Lemma agree_last hw a b : agree hw a b -> vs_last vnil a = vs_last vnil b.
  Proof.
    intros (Hc & Hl & Hh & Hd). unfold vs_last. rewrite <- Hc.
    destruct (0 <? vcount a) eqn:E; [|reflexivity]. apply Nat.ltb_lt in E. apply Hd. lia.
  Qed.

  Theorem vs_step_agree hw a b o :
    agree hw a b -> op_ok hw o ->
    snd (vs_step vnil a o) = snd (vs_step vnil b o) /\
    agree (Nat.max hw (vcount (fst (vs_step vnil a o)))) (fst (vs_step vnil a o)) (fst (vs_step vnil b o)).
  Proof.
    intros H Hop. pose proof H as (Hc & Hl & Hh & Hd).
    assert (Hsame : agree (Nat.max hw (vcount a)) a b).
    { replace (Nat.max hw (vcount a)) with hw by lia. exact H. }
    destruct o; cbn [vs_step].
    - (* push *) apply agree_push. exact H.
    - (* pop *)
      destruct (agree_pop H) as (Ho & Ha).
      destruct (vs_pop vnil a) as [a' va], (vs_pop vnil b) as [b' vb]. cbn [fst snd] in *.
      split; [rewrite Ho; reflexivity|]. destruct Ha as (? & ? & ? & ?). replace (Nat.max hw (vcount a')) with hw by lia.
      repeat split; auto.
    - (* pop_n *)
      unfold vs_pop_n. cbn [fst snd vcount vdata]. rewrite <- Hc. split.
      + f_equal. f_equal. apply map_ext_in. intros i Hi. apply in_seq in Hi. apply Hd. lia.
      + agree_split; auto; try lia. intros i Hi. apply Hd. lia.
    - (* pop_w_offset *)
      rewrite <- Hc. destruct (vcount a <=? off); cbn [fst snd]; [split; [reflexivity|exact Hsame]|].
      destruct (agree_pop H) as (Ho & Ha).
      destruct (vs_pop vnil a) as [a' va], (vs_pop vnil b) as [b' vb]. cbn [fst snd] in *.
      split; [rewrite Ho; reflexivity|]. destruct Ha as (? & ? & ? & ?). replace (Nat.max hw (vcount a')) with hw by lia.
      repeat split; auto.
    - (* set *)
      rewrite <- Hc. destruct (vcount a <? i) eqn:E1; cbn [fst snd]; [split; [reflexivity|exact Hsame]|].
      destruct (i =? vcount a) eqn:E2.
      + destruct (agree_push v H) as (Ho & Ha).
        destruct (vs_push a v) as [a' oa], (vs_push b v) as [b' ob]. cbn [fst snd] in *. subst ob.
        destruct oa; cbn [fst snd]; split; auto.
      + cbn [fst snd vcount vdata]. apply Nat.ltb_ge in E1. apply Nat.eqb_neq in E2.
        split; [f_equal; apply Hd; lia|].
        agree_split; auto; try lia.
        intros j Hj. destruct (Nat.eq_dec j i) as [->|Hne].
        * destruct (Nat.lt_ge_cases i (length (vdata a))) as [Hlt|Hge].
          -- rewrite !nth_upd_same by lia. reflexivity.
          -- rewrite !nth_overflow by (rewrite upd_length; lia). reflexivity.
        * rewrite !nth_upd_other by lia. apply Hd. lia.
    - (* get *)
      cbn [fst snd]. split; [|exact Hsame]. rewrite <- Hc.
      destruct (vcount a <=? i) eqn:E; [reflexivity|]. apply Nat.leb_gt in E. f_equal. apply Hd. lia.
    - (* last *) cbn [fst snd]. split; [f_equal; apply (agree_last H)|exact Hsame].
    - (* peek *)
      cbn [fst snd]. split; [|exact Hsame]. rewrite <- Hc.
      destruct (n <? vcount a) eqn:E; [|reflexivity]. apply Nat.ltb_lt in E. f_equal. apply Hd. lia.
    - (* clear *)
      cbn [fst snd vcount vdata]. split; [reflexivity|].
      agree_split; auto; try lia.
      intros i Hi. destruct (Nat.eq_dec i 0) as [->|Hne].
      + destruct (Nat.lt_ge_cases 0 (length (vdata a))) as [Hlt|Hge].
        * rewrite !nth_upd_same by lia. reflexivity.
        * rewrite !nth_overflow by (rewrite upd_length; lia). reflexivity.
      + rewrite !nth_upd_other by lia. apply Hd. lia.
    - (* clear_until *)
      cbn [fst snd vcount vdata op_ok] in *. split; [f_equal; apply (agree_last H)|].
      agree_split; auto; try lia. intros i Hi. apply Hd. lia.
    - (* len *) cbn [fst snd]. split; [rewrite Hc; reflexivity|exact Hsame].
    - (* iter *)
      cbn [fst snd]. split; [|exact Hsame]. rewrite <- Hc. f_equal. apply (agree_firstn H). exact Hh.
    - (* top *) cbn [fst snd]. split; [rewrite Hc; reflexivity|exact Hsame].
  Qed.
End Agree.

(* ------------------------------------------------------------------ *)
(* States that differ only in dead slots above a high-water mark       *)
(* ------------------------------------------------------------------ *)

Definition frames_ok (hw : nat) (c : list frame) : Prop := forall f, In f c -> N.to_nat (fr_off f) <= hw.
Definition uploc_ok (hw : nat) (h : heap) : Prop :=
  forall x u l, hget h x = Some (OUp u) -> u_loc u = Some l -> l < hw.

(* [y] is [x] with another value stack that agrees with x's below a high-water mark hw that also bounds every
   frame offset and every open-upvalue location *)
Definition Sim (x y : state) : Prop :=
  exists hw kb, y = set_stack x kb /\ agree VNil hw (st_stack x) kb /\
                frames_ok hw (st_calls x) /\ uploc_ok hw (st_heap x).

Definition sres_sim (r1 r2 : sres) : Prop :=
  match r1, r2 with
  | SNext ip x, SNext ip' y => ip = ip' /\ Sim x y
  | SExit x, SExit y => Sim x y
  | SErr e ip x, SErr e' ip' y => e = e' /\ ip = ip' /\ Sim x y
  | SStop a x, SStop a' y => a = a' /\ Sim x y
  | _, _ => False
  end.
Definition rres_sim (r1 r2 : rres) : Prop :=
  match r1, r2 with
  | ROk x, ROk y => Sim x y
  | RErr e ip x, RErr e' ip' y => e = e' /\ ip = ip' /\ Sim x y
  | RStop a x, RStop a' y => a = a' /\ Sim x y
  | _, _ => False
  end.
Definition nres_sim (r1 r2 : nres) : Prop :=
  match r1, r2 with
  | NOk v x, NOk v' y => v = v' /\ Sim x y
  | NErr e x, NErr e' y => e = e' /\ Sim x y
  | NStop a x, NStop a' y => a = a' /\ Sim x y
  | _, _ => False
  end.
Definition closeres_sim (r1 r2 : closeres) : Prop :=
  match r1, r2 with
  | ClOk x, ClOk y => Sim x y
  | ClErr e x, ClErr e' y => e = e' /\ Sim x y
  | ClStop a x, ClStop a' y => a = a' /\ Sim x y
  | _, _ => False
  end.

Lemma frames_ok_mono hw hw' c : frames_ok hw c -> hw <= hw' -> frames_ok hw' c.
Proof. intros H L f Hf. specialize (H f Hf). lia. Qed.
Lemma frames_ok_cons hw f c : N.to_nat (fr_off f) <= hw -> frames_ok hw c -> frames_ok hw (f :: c).
Proof. intros H1 H2 g [<-|Hg]; auto. Qed.
Lemma frames_ok_tail hw f c : frames_ok hw (f :: c) -> frames_ok hw c.
Proof. intros H g Hg. apply H. right. exact Hg. Qed.
Lemma frames_ok_head hw f c : frames_ok hw (f :: c) -> N.to_nat (fr_off f) <= hw.
Proof. intros H. apply H. left. reflexivity. Qed.
Lemma frames_ok_nil hw : frames_ok hw [].
Proof. intros f []. Qed.
Lemma In_skipn {A} (x : A) n : forall l, In x (skipn n l) -> In x l.
Proof. induction n as [|n IH]; intros [|y l] H; cbn in *; auto. Qed.
Lemma frames_ok_skipn hw n c : frames_ok hw c -> frames_ok hw (skipn n c).
Proof. intros H f Hf. apply H. eapply In_skipn. exact Hf. Qed.

Lemma uploc_ok_mono hw hw' h : uploc_ok hw h -> hw <= hw' -> uploc_ok hw' h.
Proof. intros H L x u l Hx Hl. specialize (H x u l Hx Hl). lia. Qed.

Definition obj_ok (hw : nat) (o : obj) : Prop :=
  forall u l, o = OUp u -> u_loc u = Some l -> l < hw.

Lemma hget_app_new (h : heap) o x ob :
  hget (h ++ [o]) x = Some ob -> hget h x = Some ob \/ ob = o.
Proof.
  unfold hget. intros H. destruct (Nat.lt_ge_cases (N.to_nat x) (length h)) as [L|G].
  - left. rewrite nth_error_app1 in H by exact L. exact H.
  - right. rewrite nth_error_app2 in H by exact G.
    destruct (N.to_nat x - length h) as [|k]; cbn in H; [congruence|]. destruct k; discriminate.
Qed.

Lemma nth_error_upd {A} (l : list A) i j v : 
  nth_error (upd l i v) j = if Nat.eqb i j then (if j <? length l then Some v else None) else nth_error l j.
Proof.
  revert i j. induction l as [|h t IH]; intros [|i] [|j]; cbn; auto.
  - destruct (i =? j); reflexivity.
  - rewrite IH. destruct (i =? j); [|reflexivity]. reflexivity.
Qed.

Lemma hget_hset (h : heap) a o x ob :
  hget (hset h a o) x = Some ob -> hget h x = Some ob \/ ob = o.
Proof.
  unfold hget, hset. rewrite nth_error_upd.
  destruct (N.to_nat a =? N.to_nat x); [|auto].
  destruct (N.to_nat x <? length h); [|discriminate]. intros E. right. congruence.
Qed.

Lemma uploc_ok_alloc hw h o : uploc_ok hw h -> obj_ok hw o -> uploc_ok hw (h ++ [o]).
Proof.
  intros H Ho x u l Hx Hl. destruct (hget_app_new _ _ _ Hx) as [Hx'|E].
  - eapply H; eauto.
  - eapply Ho; eauto.
Qed.
Lemma uploc_ok_hset hw h a o : uploc_ok hw h -> obj_ok hw o -> uploc_ok hw (hset h a o).
Proof.
  intros H Ho x u l Hx Hl. destruct (hget_hset _ _ _ _ Hx) as [Hx'|E].
  - eapply H; eauto.
  - eapply Ho; eauto.
Qed.

(* more stack-level facts *)
Lemma agree_count hw (a b : vstack value) : agree VNil hw a b -> vcount b = vcount a.
Proof. intros (H & _). symmetry. exact H. Qed.
Lemma agree_nth hw (a b : vstack value) i : agree VNil hw a b -> i < hw ->
  nth i (vdata b) VNil = nth i (vdata a) VNil.
Proof. intros (_ & _ & _ & H) Hi. symmetry. apply H. exact Hi. Qed.
Lemma agree_le hw (a b : vstack value) : agree VNil hw a b -> vcount a <= hw.
Proof. intros (_ & _ & H & _). exact H. Qed.
Lemma agree_pop_n hw (a b : vstack value) n : agree VNil hw a b ->
  agree VNil hw (fst (vs_pop_n VNil a n)) (fst (vs_pop_n VNil b n)).
Proof.
  intros (Hc & Hl & Hh & Hd). unfold vs_pop_n. cbn [fst]. rewrite <- Hc.
  unfold agree. cbn [vcount vdata]. repeat split; auto. lia.
Qed.
Lemma agree_raw_set hw (a b : vstack value) i v : agree VNil hw a b ->
  agree VNil hw {| vcount := vcount a; vdata := upd (vdata a) i v |}
                {| vcount := vcount b; vdata := upd (vdata b) i v |}.
Proof.
  intros (Hc & Hl & Hh & Hd). unfold agree. cbn [vcount vdata]. rewrite !upd_length.
  repeat split; auto. intros j Hj. destruct (Nat.eq_dec j i) as [->|Hne].
  - destruct (Nat.lt_ge_cases i (length (vdata a))) as [Hlt|Hge].
    + rewrite !nth_upd_same by lia. reflexivity.
    + rewrite !nth_overflow by (rewrite upd_length; lia). reflexivity.
  - rewrite !nth_upd_other by lia. apply Hd. exact Hj.
Qed.
Lemma agree_weaken hw hw' (a b : vstack value) : agree VNil hw a b -> hw' = hw -> agree VNil hw' a b.
Proof. intros H ->. exact H. Qed.

Ltac sm_cbn :=
  cbn [st_stack st_calls st_globals st_heap st_open st_log st_count st_rem set_rem set_stack set_calls
       set_globals set_heap set_open set_log tick sres_sim rres_sim nres_sim closeres_sim fst snd] in *.
Ltac sm_unfold :=
  unfold push_next, of_vres, binary_op, spush, spop, slast, scount, sget, sset, sclear_until, spop_w_offset,
         speek, salloc, halloc, push_frame, top_offset, write_local, sraw_get, sraw_set, spop_n, set_table,
         log_push in *.

(* side conditions: bounds that follow from the agreement / frame facts in the context *)
Ltac bounds :=
  repeat match goal with
         | H : agree VNil _ _ _ |- _ => apply agree_le in H
         | H : frames_ok _ (_ :: _) |- _ =>
             let H1 := fresh in pose proof (frames_ok_head H) as H1; apply frames_ok_tail in H
         end;
  cbn [op_ok vcount vdata fr_off] in *; try exact I; lia.

(* l < hw for the location of an open upvalue found in the heap *)
Ltac uploc_bounds :=
  match goal with
  | Hup : uploc_ok _ ?heap, Hx : hget ?heap ?x = Some (OUp ?u), Hl : u_loc ?u = Some ?l |- ?l < _ =>
      let B := fresh in pose proof (Hup x u l Hx Hl) as B; bounds
  end.

(* one stack operation executed on both stacks *)
Ltac lock :=
  match goal with
  (* reads first: the values read on the second stack are those read on the first *)
  | H : agree VNil ?hw ?ka ?kb |- context [nth ?l (vdata ?kb) VNil] =>
      rewrite (@agree_nth hw ka kb l H) by uploc_bounds
  | H : agree VNil ?hw ?ka ?kb |- context [vs_last VNil ?kb] =>
      rewrite <- (@agree_last value VNil hw ka kb H)
  | H : agree VNil ?hw ?ka ?kb |- context [{| vcount := vcount ?kb; vdata := upd (vdata ?kb) ?l ?v |}] =>
      let Ha := fresh "Ha" in let ka' := fresh "ka" in let kb' := fresh "kb" in
      pose proof (@agree_raw_set hw ka kb l v H) as Ha;
      set (ka' := {| vcount := vcount ka; vdata := upd (vdata ka) l v |}) in *;
      set (kb' := {| vcount := vcount kb; vdata := upd (vdata kb) l v |}) in *;
      clearbody ka' kb'
  | H : agree VNil ?hw ?ka ?kb |- context [vcount ?kb] =>
      rewrite (@agree_count hw ka kb H)
  (* then the operations *)
  | H : agree VNil ?hw ?ka ?kb |- context [vs_step VNil ?kb ?op] =>
      let Ho := fresh "Ho" in let Ha := fresh "Ha" in
      assert (Hop : op_ok hw op) by bounds;
      destruct (@vs_step_agree value VNil hw ka kb op H Hop) as [Ho Ha]; clear Hop;
      destruct (vs_step VNil ka op) as [? ?]; destruct (vs_step VNil kb op) as [? ?];
      cbn [fst snd] in Ho, Ha; symmetry in Ho; subst
  | H : agree VNil ?hw ?ka ?kb |- context [vs_push ?kb ?v] =>
      let Ho := fresh "Ho" in let Ha := fresh "Ha" in
      destruct (@agree_push value VNil hw ka kb v H) as [Ho Ha];
      destruct (vs_push ka v) as [? ?]; destruct (vs_push kb v) as [? ?];
      cbn [fst snd] in Ho, Ha; symmetry in Ho; subst
  | H : agree VNil ?hw ?ka ?kb |- context [vs_pop VNil ?kb] =>
      let Ho := fresh "Ho" in let Ha := fresh "Ha" in
      destruct (@agree_pop value VNil hw ka kb H) as [Ho Ha];
      destruct (vs_pop VNil ka) as [? ?]; destruct (vs_pop VNil kb) as [? ?];
      cbn [fst snd] in Ho, Ha; symmetry in Ho; subst
  | H : agree VNil ?hw ?ka ?kb |- context [vs_pop_n VNil ?kb ?n] =>
      let Ha := fresh "Ha" in
      pose proof (@agree_pop_n hw ka kb n H) as Ha;
      destruct (vs_pop_n VNil ka n) as [? ?]; destruct (vs_pop_n VNil kb n) as [? ?]; cbn [fst] in Ha
  end.

Ltac destruct_inner :=
  match goal with
  | |- context [match ?x with _ => _ end] =>
      lazymatch x with
      | context [match _ with _ => _ end] => fail
      | _ => destruct x eqn:?
      end
  end.

(* a leaf: the two result states are related *)
Ltac goal_cbn :=
  cbn [st_stack st_calls st_globals st_heap st_open st_log st_count st_rem set_rem set_stack set_calls
       set_globals set_heap set_open set_log tick].
Ltac frames_tac :=
  goal_cbn;
  try match goal with H : st_calls ?a = _ |- context [st_calls ?a] => rewrite H end;
  first [ assumption
        | apply frames_ok_nil
        | (eapply frames_ok_mono; [eassumption | bounds])
        | (apply frames_ok_cons; [bounds | frames_tac]) ].
Ltac obj_tac := intros ? ? E; first [discriminate E | (inversion E; subst; cbn; intros; first [discriminate | bounds])].
Ltac uploc_tac :=
  goal_cbn;
  first [ assumption
        | (eapply uploc_ok_mono; [eassumption | bounds])
        | (apply uploc_ok_alloc; [uploc_tac | obj_tac])
        | (apply uploc_ok_hset; [uploc_tac | obj_tac]) ].
Ltac sim_leaf :=
  match goal with
  | H : agree VNil ?hw _ ?kb |- Sim _ _ =>
      exists hw, kb; split; [reflexivity | split; [exact H | split; [frames_tac | uploc_tac]]]
  end.

Ltac sim_auto :=
  repeat first
    [ progress sm_unfold
    | progress sm_cbn
    | lock
    | destruct_inner ];
  repeat match goal with |- _ /\ _ => split end;
  try reflexivity; try sim_leaf.

Ltac sim_start :=
  let hw := fresh "hw" in let kb := fresh "kb" in
  intros (hw & kb & -> & Hag & Hfr & Hup).


Section SimStep.
  Variable F : fops.
  Variable bld : build.
  Variable P : program.

  Lemma close_upvalues_go_sim fuel top : forall a b,
    Sim a b -> closeres_sim (close_upvalues_go fuel top a) (close_upvalues_go fuel top b).
  Proof.
    induction fuel as [|f IH]; intros a b HS; cbn [close_upvalues_go].
    - cbn [closeres_sim]. split; [reflexivity|exact HS].
    - revert HS. sim_start. sm_cbn.
      destruct (st_open a) as [x|] eqn:Eo; [|cbn [closeres_sim]; sim_leaf].
      destruct (hget (st_heap a) x) as [[t|bs|h ar|h|h ar ups|u]|] eqn:Ex;
        try (cbn [closeres_sim]; repeat split; sim_leaf).
      destruct (u_loc u) as [l|] eqn:El; [|cbn [closeres_sim]; repeat split; sim_leaf].
      destruct (l <? top); [cbn [closeres_sim]; sim_leaf|].
      apply IH. sm_unfold. sm_cbn.
      rewrite (@agree_nth hw (st_stack a) kb l Hag) by uploc_bounds.
      sim_leaf.
  Qed.

  Lemma close_upvalues_from_sim top a b :
    Sim a b -> closeres_sim (close_upvalues_from top a) (close_upvalues_from top b).
  Proof.
    intros HS. unfold close_upvalues_from.
    assert (E : st_heap b = st_heap a) by (destruct HS as (? & ? & -> & _); reflexivity).
    rewrite E. apply close_upvalues_go_sim. exact HS.
  Qed.

  Lemma binary_op_sim ip a b op : Sim a b -> sres_sim (binary_op ip a op) (binary_op ip b op).
  Proof. sim_start. sim_auto. Qed.
  Lemma push_next_sim ip a b v : Sim a b -> sres_sim (push_next ip a v) (push_next ip b v).
  Proof. sim_start. sim_auto. Qed.
  Lemma i_5_sim opc ip0 ip a b : Sim a b -> sres_sim (i_5 P opc ip0 ip a) (i_5 P opc ip0 ip b).
  Proof. sim_start. unfold i_5. sim_auto. Qed.
  Lemma i_6_sim opc ip0 ip a b : Sim a b -> sres_sim (i_6 P opc ip0 ip a) (i_6 P opc ip0 ip b).
  Proof. sim_start. unfold i_6. sim_auto. Qed.
  Lemma i_8_sim opc ip0 ip a b : Sim a b -> sres_sim (i_8 P opc ip0 ip a) (i_8 P opc ip0 ip b).
  Proof. sim_start. unfold i_8. sim_auto. Qed.
  Lemma i_17_sim opc ip0 ip a b : Sim a b -> sres_sim (i_17 P opc ip0 ip a) (i_17 P opc ip0 ip b).
  Proof. sim_start. unfold i_17. sim_auto. Qed.
  Lemma i_18_sim opc ip0 ip a b : Sim a b -> sres_sim (i_18 P opc ip0 ip a) (i_18 P opc ip0 ip b).
  Proof. sim_start. unfold i_18. sim_auto. Qed.
  Lemma i_19_sim opc ip0 ip a b : Sim a b -> sres_sim (i_19 P opc ip0 ip a) (i_19 P opc ip0 ip b).
  Proof. sim_start. unfold i_19. sim_auto. Qed.
  Lemma i_20_sim opc ip0 ip a b : Sim a b -> sres_sim (i_20 P opc ip0 ip a) (i_20 P opc ip0 ip b).
  Proof. sim_start. unfold i_20. sim_auto. Qed.
  Lemma i_21_sim opc ip0 ip a b : Sim a b -> sres_sim (i_21 opc ip0 ip a) (i_21 opc ip0 ip b).
  Proof. sim_start. unfold i_21. sim_auto. Qed.
  Lemma i_23_sim opc ip0 ip a b : Sim a b -> sres_sim (i_23 opc ip0 ip a) (i_23 opc ip0 ip b).
  Proof. sim_start. unfold i_23. sim_auto. Qed.
  Lemma i_27_sim opc ip0 ip a b : Sim a b -> sres_sim (i_27 F opc ip0 ip a) (i_27 F opc ip0 ip b).
  Proof. sim_start. unfold i_27. sim_auto. Qed.
  Lemma i_28_sim opc ip0 ip a b : Sim a b -> sres_sim (i_28 bld P opc ip0 ip a) (i_28 bld P opc ip0 ip b).
  Proof. sim_start. unfold i_28. sim_auto. Qed.
  Lemma i_29_30_sim opc ip0 ip a b :
    Sim a b -> sres_sim (i_29_30 F bld P opc ip0 ip a) (i_29_30 F bld P opc ip0 ip b).
  Proof. sim_start. unfold i_29_30. sim_auto. Qed.
  Lemma i_31_sim opc ip0 ip a b : Sim a b -> sres_sim (i_31 opc ip0 ip a) (i_31 opc ip0 ip b).
  Proof. sim_start. unfold i_31. sim_auto. Qed.
  Lemma i_32_sim opc ip0 ip a b : Sim a b -> sres_sim (i_32 F opc ip0 ip a) (i_32 F opc ip0 ip b).
  Proof. sim_start. unfold i_32. sim_auto. Qed.
  Lemma i_33_sim opc ip0 ip a b : Sim a b -> sres_sim (i_33 F opc ip0 ip a) (i_33 F opc ip0 ip b).
  Proof. sim_start. unfold i_33. sim_auto. Qed.
  Lemma i_34_sim opc ip0 ip a b : Sim a b -> sres_sim (i_34 opc ip0 ip a) (i_34 opc ip0 ip b).
  Proof. sim_start. unfold i_34. sim_auto. Qed.
  Lemma i_35_sim opc ip0 ip a b : Sim a b -> sres_sim (i_35 P opc ip0 ip a) (i_35 P opc ip0 ip b).
  Proof. sim_start. unfold i_35. sim_auto. Qed.
  Lemma i_36_sim opc ip0 ip a b : Sim a b -> sres_sim (i_36 F bld P opc ip0 ip a) (i_36 F bld P opc ip0 ip b).
  Proof. sim_start. unfold i_36. sim_auto. Qed.
  Lemma i_37_42_sim opc ip0 ip a b : Sim a b -> sres_sim (i_37_42 P opc ip0 ip a) (i_37_42 P opc ip0 ip b).
  Proof. sim_start. unfold i_37_42. sim_auto. Qed.
  Lemma i_38_sim opc ip0 ip a b : Sim a b -> sres_sim (i_38 P opc ip0 ip a) (i_38 P opc ip0 ip b).
  Proof. sim_start. unfold i_38. sim_auto. Qed.
  Lemma i_39_sim opc ip0 ip a b : Sim a b -> sres_sim (i_39 F opc ip0 ip a) (i_39 F opc ip0 ip b).
  Proof. sim_start. unfold i_39. sim_auto. Qed.
  Lemma i_40_sim opc ip0 ip a b : Sim a b -> sres_sim (i_40 F opc ip0 ip a) (i_40 F opc ip0 ip b).
  Proof. sim_start. unfold i_40. sim_auto. Qed.
  Lemma i_41_sim opc ip0 ip a b : Sim a b -> sres_sim (i_41 F opc ip0 ip a) (i_41 F opc ip0 ip b).
  Proof. sim_start. unfold i_41. sim_auto. Qed.
End SimStep.
