(* C01, simulation: fragment F5 = F4 plus local variables of main.
     expressions: as in F1; a ReadVar names the most recent local of that name, else the global;
     statements:  those of F4, and  SetVar x e  ASSIGNING a local that exists;
     cards of main: a statement, or  SetVar x e  (x non-empty, without '.') which DECLARES the local x
     when no local x exists (a global x is then shadowed) and assigns it otherwise.
   New locals are declared by SetVar cards directly in main's card list only: the compiler opens no
   scope for If branches, While bodies or Composite cards, and a declaration that runs conditionally
   would shift the slots of the later locals (RefScope.well_scoped forbids it as well; a declaration
   inside a top-level Composite would be allowed there - it is left out here to keep one local
   context per top-level card).
   Locals live in the value stack: slot i = the i-th declared local (main's frame has offset 0);
   the end of main pops them (one Pop per local) before Exit.

   The local store is a list of (name, value), most recent declaration first; an expression is
   evaluated in the association list  locals ++ globals  with the evaluator [ev] of F1. *)
From Coq Require Import List NArith ZArith Bool.
From Cao Require Import ListUtil Bits CardAst Bytecode Compiler CompilerWf C01SimDefs C01SimDefs2 C01SimDefs4.
From Cao Require RefSem Vm.
Import ListNotations.
Local Open Scope N_scope.

Definition lstore : Type := list (str * RefSem.value).

(* position (from the most recent) of the first entry named n *)
Fixpoint find_first (n : str) (Ln : list str) : option nat :=
  match Ln with
  | [] => None
  | x :: r => if RefSem.str_eqb n x then Some 0%nat
              else match find_first n r with Some p => Some (S p) | None => None end
  end.
(* the stack slot of local n; [Ln]: the names of the locals, most recent first *)
Definition slot (Ln : list str) (n : str) : option nat :=
  match find_first n Ln with Some p => Some (length Ln - 1 - p)%nat | None => None end.
Definition lmem (n : str) (Ln : list str) : bool := match find_first n Ln with Some _ => true | None => false end.

(* ------------------------------------------------------------------ syntax *)
Fixpoint stmt5 (Ln : list str) (c : card) : bool :=
  match c with
  | CSetGlobalVar g e => negb (is_empty g) && expr_f1 e
  | CSetVar x e => var_ok x && lmem x Ln && expr_f1 e
  | CComment _ => true
  | CBin BIfTrue e b | CBin BIfFalse e b | CBin BWhile e b => expr_f1 e && stmt5 Ln b
  | CTri TIfElse e a b => expr_f1 e && stmt5 Ln a && stmt5 Ln b
  | CComposite _ cs => forallb (stmt5 Ln) cs
  | _ => false
  end.

(* the names after a card of main *)
Definition names_next (Ln : list str) (c : card) : list str :=
  match c with
  | CSetVar x _ => if lmem x Ln then Ln else x :: Ln
  | _ => Ln
  end.
Definition top5 (Ln : list str) (c : card) : bool :=
  match c with
  | CSetVar x e => var_ok x && expr_f1 e
  | _ => stmt5 Ln c
  end.
Fixpoint cards5 (Ln : list str) (cards : list card) : bool :=
  match cards with
  | [] => true
  | c :: r => top5 Ln c && cards5 (names_next Ln c) r
  end.
Fixpoint names_end (Ln : list str) (cards : list card) : list str :=
  match cards with
  | [] => Ln
  | c :: r => names_end (names_next Ln c) r
  end.

Definition in_f5 (M : module) : bool :=
  match M with
  | Module [] [(name, f)] [] =>
      str_eqb name s_main && (match f_args f with [] => true | _ => false end) &&
      cards5 [] (f_cards f)
  | _ => false
  end.

(* ------------------------------------------------------------------ code *)
Fixpoint code_expr5 (T : list (N * N)) (Ln : list str) (e : card) : list instr :=
  match e with
  | CScalarNil => [IScalarNil]
  | CScalarInt z => [IScalarInt z]
  | CReadVar n => match slot Ln n with
                  | Some i => [IReadLocalVar (N.of_nat i)]
                  | None => [IReadGlobalVar (idT T n)]
                  end
  | CUn UNot a => code_expr5 T Ln a ++ [INot]
  | CBin op a b => code_expr5 T Ln a ++ code_expr5 T Ln b ++ [simple_binop op]
  | _ => []
  end.

(* the slot a SetVar writes: that of the local, or the next free one *)
Definition set_slot (Ln : list str) (x : str) : nat :=
  match slot Ln x with Some i => i | None => length Ln end.

Fixpoint code5 (T : list (N * N)) (Ln : list str) (base : N) (c : card) : list instr :=
  match c with
  | CSetGlobalVar g e => code_expr5 T Ln e ++ [ISetGlobalVar (idT T g)]
  | CSetVar x e => code_expr5 T Ln e ++ [ISetLocalVar (N.of_nat (set_slot Ln x))]
  | CBin BIfTrue e b =>
      let ce := code_expr5 T Ln e in
      let cb := code5 T Ln (base + bytes ce + 5) b in
      ce ++ IGotoIfFalse (u32_to_i32 (base + bytes ce + 5 + bytes cb)) :: cb
  | CBin BIfFalse e b =>
      let ce := code_expr5 T Ln e in
      let cb := code5 T Ln (base + bytes ce + 5) b in
      ce ++ IGotoIfTrue (u32_to_i32 (base + bytes ce + 5 + bytes cb)) :: cb
  | CBin BWhile e b =>
      let ce := code_expr5 T Ln e in
      let cb := code5 T Ln (base + bytes ce + 5) b in
      ce ++ IGotoIfFalse (u32_to_i32 (base + bytes ce + 5 + (bytes cb + 5))) :: cb ++ [IGoto (u32_to_i32 base)]
  | CTri TIfElse e a b =>
      let ce := code_expr5 T Ln e in
      let ca := code5 T Ln (base + bytes ce + 5) a in
      let else_at := base + bytes ce + 5 + bytes ca + 5 in
      let cb := code5 T Ln else_at b in
      ce ++ IGotoIfFalse (u32_to_i32 else_at) :: ca ++ IGoto (u32_to_i32 (else_at + bytes cb)) :: cb
  | CComposite _ cs =>
      (fix go (base : N) (l : list card) {struct l} : list instr :=
         match l with
         | [] => []
         | c :: r => let cc := code5 T Ln base c in cc ++ go (base + bytes cc) r
         end) base cs
  | _ => []
  end.

(* a list of statements in one local context *)
Fixpoint code_seq5 (T : list (N * N)) (Ln : list str) (base : N) (cs : list card) : list instr :=
  match cs with
  | [] => []
  | c :: r => let cc := code5 T Ln base c in cc ++ code_seq5 T Ln (base + bytes cc) r
  end.
Lemma code5_composite T Ln base ty cs : code5 T Ln base (CComposite ty cs) = code_seq5 T Ln base cs.
Proof.
  revert base. induction cs as [|c r IH]; intros base; [reflexivity|].
  cbn [code_seq5]. rewrite <- IH. reflexivity.
Qed.

(* the cards of main: the local context grows *)
Fixpoint code_main5 (T : list (N * N)) (Ln : list str) (base : N) (cards : list card) : list instr :=
  match cards with
  | [] => []
  | c :: r => let cc := code5 T Ln base c in cc ++ code_main5 T (names_next Ln c) (base + bytes cc) r
  end.
(* the whole of main: its cards, one Pop per local, Exit *)
Definition code_all5 (T : list (N * N)) (cards : list card) : list instr :=
  code_main5 T [] 0 cards ++ repeat IPop (length (names_end [] cards)) ++ [IExit].

(* the GLOBAL names a card mentions in the local context Ln *)
Fixpoint expr_gnames (Ln : list str) (e : card) : list str :=
  match e with
  | CReadVar n => if lmem n Ln then [] else [n]
  | CUn _ a => expr_gnames Ln a
  | CBin _ a b => expr_gnames Ln a ++ expr_gnames Ln b
  | _ => []
  end.
Fixpoint stmt_gnames (Ln : list str) (c : card) : list str :=
  match c with
  | CSetGlobalVar g e => expr_gnames Ln e ++ [g]
  | CSetVar _ e => expr_gnames Ln e
  | CBin _ e b => expr_gnames Ln e ++ stmt_gnames Ln b
  | CTri _ e a b => expr_gnames Ln e ++ stmt_gnames Ln a ++ stmt_gnames Ln b
  | CComposite _ cs => flat_map (stmt_gnames Ln) cs
  | _ => []
  end.
Fixpoint main_gnames (Ln : list str) (cards : list card) : list str :=
  match cards with
  | [] => []
  | c :: r => stmt_gnames Ln c ++ main_gnames (names_next Ln c) r
  end.

Fixpoint stmt_depth5 (c : card) : nat :=
  match c with
  | CSetGlobalVar _ e | CSetVar _ e => depth e
  | CBin _ e b => Nat.max (depth e) (stmt_depth5 b)
  | CTri _ e a b => Nat.max (depth e) (Nat.max (stmt_depth5 a) (stmt_depth5 b))
  | CComposite _ cs => fold_right (fun c m => Nat.max (stmt_depth5 c) m) 0%nat cs
  | _ => 0
  end.
Lemma stmt_depth5_composite ty cs c : In c cs -> (stmt_depth5 c <= stmt_depth5 (CComposite ty cs))%nat.
Proof.
  cbn [stmt_depth5]. induction cs as [|x r IH]; [intros []|]. intros [<-|Hin]; cbn [fold_right].
  - apply Nat.le_max_l.
  - etransitivity; [apply IH, Hin | apply Nat.le_max_r].
Qed.
(* every card fits the value stack above all the locals of main (and the one it may declare) *)
Definition depth_ok5 (cards : list card) : bool :=
  forallb (fun c => Nat.ltb (S (S (length (names_end [] cards) + stmt_depth5 c))) Vm.stack_size) cards.

(* ------------------------------------------------------------------ meaning *)
Definition sets_local (x : str) (v : RefSem.value) (R : lstore) : lstore :=
  if lmem x (map fst R) then RefSem.set_assoc x v R else (x, v) :: R.

Fixpoint run5 (fuel : nat) (R : lstore) (g : gl) (c : card) : option (bool * lstore * gl) :=
  match fuel with
  | O => None
  | S f =>
      match c with
      | CSetGlobalVar n e =>
          match ev (R ++ g) e with
          | Some v => Some (true, R, RefSem.set_assoc n v g)
          | None => Some (false, R, g)
          end
      | CSetVar x e =>
          match ev (R ++ g) e with
          | Some v => Some (true, sets_local x v R, g)
          | None => Some (false, R, g)
          end
      | CBin BIfTrue e b =>
          match ev (R ++ g) e with
          | None => Some (false, R, g)
          | Some v => if RefSem.v_bool [] v then run5 f R g b else Some (true, R, g)
          end
      | CBin BIfFalse e b =>
          match ev (R ++ g) e with
          | None => Some (false, R, g)
          | Some v => if RefSem.v_bool [] v then Some (true, R, g) else run5 f R g b
          end
      | CBin BWhile e b =>
          match ev (R ++ g) e with
          | None => Some (false, R, g)
          | Some v =>
              if RefSem.v_bool [] v then
                match run5 f R g b with
                | Some (true, R1, g1) => run5 f R1 g1 c
                | other => other
                end
              else Some (true, R, g)
          end
      | CTri TIfElse e a b =>
          match ev (R ++ g) e with
          | None => Some (false, R, g)
          | Some v => if RefSem.v_bool [] v then run5 f R g a else run5 f R g b
          end
      | CComposite _ cs =>
          (fix go (R : lstore) (g : gl) (l : list card) {struct l} : option (bool * lstore * gl) :=
             match l with
             | [] => Some (true, R, g)
             | x :: r => match run5 f R g x with
                         | Some (true, R1, g1) => go R1 g1 r
                         | other => other
                         end
             end) R g cs
      | _ => Some (true, R, g)
      end
  end.

Fixpoint runs5 (f : nat) (R : lstore) (g : gl) (l : list card) : option (bool * lstore * gl) :=
  match l with
  | [] => Some (true, R, g)
  | x :: r => match run5 f R g x with
              | Some (true, R1, g1) => runs5 f R1 g1 r
              | other => other
              end
  end.

Lemma run5_composite f R g ty cs : run5 (S f) R g (CComposite ty cs) = runs5 f R g cs.
Proof.
  revert R g. induction cs as [|x r IH]; intros R g; [reflexivity|].
  cbn [runs5].
  change (run5 (S f) R g (CComposite ty (x :: r))) with
    (match run5 f R g x with Some (true, R1, g1) => run5 (S f) R1 g1 (CComposite ty r) | other => other end).
  destruct (run5 f R g x) as [[[[|] R1] g1]|]; [apply IH | reflexivity | reflexivity].
Qed.
