(* C06, the side of the reference semantics: what RefSem.v says about closures, for all programs.

   RefSem represents a variable by a CELL (an index into [st_cells]); an environment maps names to
   cells; a closure record keeps the SCOPES (name -> cell) visible where it was created, never a
   value.  Cells are allocated at the end of [st_cells] and nothing ever removes one; closure
   records are appended to [st_clos] and never modified.  The theorems below make this precise:

     ext / eval_ext              every evaluation only EXTENDS the cell store and the closure store
     capture_by_reference        a closure designates, for each visible name, the very cell the
                                 creating environment designates; a write through any environment
                                 that designates a cell is read through every other one
     iteration_cells_distinct    the cells of two different iterations of a Repeat / ForEach are
                                 different locations
     cell_outlives_scope         leaving a scope / returning from a call is not an operation on the
                                 store, and whatever runs afterwards keeps every closure record and
                                 every allocated cell
     closure_body_identity       calling a closure value evaluates the card list stored when it was
                                 created, in the scopes stored when it was created *)
From Coq Require Import List NArith ZArith Bool Arith Lia.
From Cao Require Import CheckUtil CardAst Table TableProofs RefSem RefSemProofs.
Import ListNotations.

(* ------------------------------------------------------------------------------------------ *)
(* stores only grow                                                                           *)
(* ------------------------------------------------------------------------------------------ *)
Definition ext (s s' : state) : Prop :=
  length (st_cells s) <= length (st_cells s') /\ exists l, st_clos s' = st_clos s ++ l.

Lemma ext_refl s : ext s s.
Proof. split; [lia | exists []; rewrite app_nil_r; reflexivity]. Qed.

Lemma ext_trans a b c : ext a b -> ext b c -> ext a c.
Proof.
  intros [H1 [l1 E1]] [H2 [l2 E2]]. split; [lia|].
  exists (l1 ++ l2). rewrite E2, E1, app_assoc. reflexivity.
Qed.

Lemma upd_length {A} (l : list A) i x : length (upd l i x) = length l.
Proof. revert i; induction l as [|y l IH]; intros [|i]; cbn; try reflexivity. rewrite IH. reflexivity. Qed.

Lemma ext_bump s0 s : ext s0 s -> ext s0 (bump s).
Proof. intros H; exact H. Qed.
Lemma ext_set_heap s0 s h : ext s0 s -> ext s0 (set_heap h s).
Proof. intros H; exact H. Qed.
Lemma ext_set_globals s0 s g : ext s0 s -> ext s0 (set_globals g s).
Proof. intros H; exact H. Qed.
Lemma ext_set_log s0 s l : ext s0 s -> ext s0 (set_log l s).
Proof. intros H; exact H. Qed.
Lemma ext_log_call s0 s n a : ext s0 s -> ext s0 (log_call n a s).
Proof. intros H; exact H. Qed.
Lemma ext_add_note s0 s n : ext s0 s -> ext s0 (add_note n s).
Proof. intros H; exact H. Qed.
Lemma ext_set_cells_upd s0 s c x : ext s0 s -> ext s0 (set_cells (upd (st_cells s) c x) s).
Proof. intros [H1 H2]. split; [cbn; rewrite upd_length; exact H1 | exact H2]. Qed.
Lemma ext_set_clos_app s0 s cl : ext s0 s -> ext s0 (set_clos (st_clos s ++ [cl]) s).
Proof.
  intros [H1 [l E]]. split; [exact H1|]. exists (l ++ [cl]). cbn. rewrite E, app_assoc. reflexivity.
Qed.
Lemma ext_alloc_cell s0 s v c s' : alloc_cell v s = (c, s') -> ext s0 s -> ext s0 s'.
Proof.
  unfold alloc_cell. intros E [H1 H2]. inversion E; subst. split; [cbn; rewrite app_length; lia | exact H2].
Qed.
Lemma ext_alloc_table s0 s t p s' : alloc_table t s = (p, s') -> ext s0 s -> ext s0 s'.
Proof. unfold alloc_table. intros E H. inversion E; subst. exact H. Qed.
Lemma ext_declare s0 s n v e e' s' : declare n v e s = (e', s') -> ext s0 s -> ext s0 s'.
Proof.
  unfold declare. destruct (alloc_cell v s) as [c s1] eqn:E. intros E' H. inversion E'; subst.
  eapply ext_alloc_cell; eauto.
Qed.
Lemma ext_declare_opt s0 s n v e e' s' : declare_opt n v e s = (e', s') -> ext s0 s -> ext s0 s'.
Proof.
  destruct n as [n|]; cbn [declare_opt]; [apply ext_declare|]. intros E H. inversion E; subst. exact H.
Qed.

Definition bind_step (acc : scope * state) (pa : str * value) : scope * state :=
  let '(sc, st) := acc in
  let '(c, st') := alloc_cell (snd pa) st in (sc ++ [(fst pa, c)], st').
Lemma bind_fold_ext l : forall acc s sc s1, fold_left bind_step l (acc, s) = (sc, s1) -> ext s s1.
Proof.
  induction l as [|[p a] l IH]; intros acc s sc s1 E; cbn in E.
  - inversion E; subst. apply ext_refl.
  - eapply ext_trans; [|eapply IH; exact E]. eapply ext_alloc_cell; [reflexivity | apply ext_refl].
Qed.
Lemma bind_params_ext params args s sc s1 : bind_params params args s = (sc, s1) -> ext s s1.
Proof. unfold bind_params. apply bind_fold_ext. Qed.
Lemma ext_bind_params s0 params args s sc s1 : bind_params params args s = (sc, s1) -> ext s0 s -> ext s0 s1.
Proof. intros E H. eapply ext_trans; [exact H | eapply bind_params_ext; exact E]. Qed.

Create HintDb extdb.
#[export] Hint Resolve ext_refl ext_bump ext_set_heap ext_set_globals ext_set_log ext_log_call ext_add_note
  ext_set_cells_upd ext_set_clos_app ext_alloc_cell ext_alloc_table ext_declare ext_declare_opt
  ext_bind_params : extdb.

(* [good s0 r]: a result reached from s0 carries an extension of s0 *)
Definition good (s0 : state) (r : res) : Prop :=
  match r with ROk _ _ s' => ext s0 s' | _ => True end.

Lemma good_ok s0 vs e s : ext s0 s -> good s0 (ok vs e s).
Proof. intros H; exact H. Qed.
Lemma good_err s0 k e s : ext s0 s -> good s0 (err k e s).
Proof. intros H; exact H. Qed.
Lemma good_bnd s0 r k :
  good s0 r -> (forall vs e s1, ext s0 s1 -> good s0 (k vs e s1)) -> good s0 (bnd r k).
Proof.
  intros Hr Hk. destruct r as [| |o e s]; cbn; try exact I. destruct o; cbn; try exact Hr. apply Hk. exact Hr.
Qed.
Lemma good_one s0 vs k : (forall v, good s0 (k v)) -> good s0 (one vs k).
Proof. intros H. destruct vs as [|v [|]]; cbn; try exact I. apply H. Qed.
Lemma good_two s0 vs k : (forall a b, good s0 (k a b)) -> good s0 (two vs k).
Proof. intros H. destruct vs as [|a [|b [|]]]; cbn; try exact I. apply H. Qed.
Lemma good_finish_call s0 r : good s0 r -> good s0 (finish_call r).
Proof. destruct r as [| |o e s]; cbn; try exact (fun x => x). destruct o; cbn; exact (fun x => x). Qed.
Lemma good_with_table s0 s e t k :
  ext s0 s -> (forall p tb, good s0 (k p tb)) -> good s0 (with_table s e t k).
Proof.
  intros Hs H. unfold with_table. destruct t; try (apply good_err; exact Hs).
  destruct (nth_error _ _); [apply H | exact I].
Qed.
Lemma good_get_prop s0 s e t key k :
  ext s0 s -> (forall v, good s0 (k v)) -> good s0 (get_prop s e t key k).
Proof.
  intros Hs H. unfold get_prop. apply good_with_table; [exact Hs|]. intros p tb.
  destruct (to_key key); [apply H | exact I].
Qed.
Lemma good_set_prop s0 s e v t key : ext s0 s -> good s0 (set_prop s e v t key).
Proof.
  intros Hs. unfold set_prop. apply good_with_table; [exact Hs|]. intros p tb.
  destruct (to_key key); [apply good_ok; auto with extdb | exact I].
Qed.
Lemma good_get_props s0 s e props : forall v k,
  ext s0 s -> (forall x, good s0 (k x)) -> good s0 (get_props s e v props k).
Proof.
  induction props as [|p r IH]; intros v k Hs H; cbn [get_props]; [apply H|].
  destruct (is_empty p); [apply IH; assumption|].
  apply good_get_prop; [exact Hs|]. intros x. apply IH; assumption.
Qed.
Lemma good_read_var s0 s e name k :
  ext s0 s -> (forall x, good s0 (k x)) -> good s0 (read_var e s name k).
Proof.
  intros Hs H. unfold read_var.
  destruct (match split_once_c c_dot name with Some (v, p) => (v, split_c c_dot p) | None => (name, []) end) as [v props].
  destruct (is_empty v); [exact I|].
  destruct (lookup_var e v).
  - destruct (nth_error _ _); [apply good_get_props; assumption | exact I].
  - destruct (assoc v (st_globals s)); [apply good_get_props; assumption|].
    apply good_err; auto with extdb.
Qed.

Section Ext.
  Variable P : list fentry.
  Variable host : list str.
  Variable limit : N.
  Variable rec : task -> state -> res.
  Hypothesis Hrec : forall t s, good s (rec t s).

  Lemma good_rec s0 t s : ext s0 s -> good s0 (rec t s).
  Proof.
    intros H. specialize (Hrec t s). destruct (rec t s); cbn in *; try exact I.
    eapply ext_trans; eassumption.
  Qed.

  Ltac ext_tac := eauto 12 with extdb.
  Ltac gstep :=
    match goal with
    | |- good _ RFuel => exact I
    | |- good _ (RUnspec _) => exact I
    | |- good _ (ok _ _ _) => apply good_ok; ext_tac
    | |- good _ (err _ _ _) => apply good_err; ext_tac
    | |- good _ (ROk _ _ _) => cbn [good]; ext_tac
    | |- good _ (bnd _ _) => apply good_bnd; [ | intros ]
    | |- good _ (one _ _) => apply good_one; intros
    | |- good _ (two _ _) => apply good_two; intros
    | |- good _ (finish_call _) => apply good_finish_call
    | |- good _ (with_table _ _ _ _) => apply good_with_table; [ext_tac | intros]
    | |- good _ (get_prop _ _ _ _ _) => apply good_get_prop; [ext_tac | intros]
    | |- good _ (set_prop _ _ _ _ _) => apply good_set_prop; ext_tac
    | |- good _ (read_var _ _ _ _) => apply good_read_var; [ext_tac | intros]
    | |- good _ (rec _ _) => apply good_rec; ext_tac
    | |- good ?s0 (match rec ?t ?s with _ => _ end) =>
        let H := fresh "Hr" in
        assert (H : good s0 (rec t s)) by (apply good_rec; ext_tac);
        destruct (rec t s) as [| |[] ? ?]; cbn [good] in H
    | |- good _ (match ?x with _ => _ end) => destruct x eqn:?
    | |- good _ (if ?x then _ else _) => destruct x
    | |- good _ (let '(_, _) := ?x in _) => destruct x eqn:?
    end.

  Lemma good_binop op s0 s e a b : ext s0 s -> good s0 (binop_value op s e a b).
  Proof.
    intros Hs. unfold binop_value; cbv zeta. destruct op; repeat gstep.
    all: try (match goal with H : alloc_table _ _ = _ |- _ => eapply ext_alloc_table; [exact H|] end;
              repeat match goal with |- ext _ (match ?y with _ => _ end) => destruct y end; ext_tac).
  Qed.

  Lemma good_call_body s0 fi params body up args s :
    ext s0 s -> good s0 (call_body rec fi params body up args s).
  Proof. intros Hs. unfold call_body. repeat gstep. Qed.

  Lemma good_eval_card s0 fi e c s : ext s0 s -> good s0 (eval_card P rec fi e c s).
  Proof.
    intros Hs. destruct c; cbn [eval_card]; try (destruct op); repeat gstep; try (apply good_binop; ext_tac).
  Qed.

  Lemma good_eval_native s0 name args s : ext s0 s -> good s0 (eval_native host rec name args s).
  Proof. intros Hs. unfold eval_native; cbv zeta. repeat gstep. Qed.

  Lemma good_F t s : good s (F P host limit rec t s).
  Proof.
    unfold F. destruct (limit <? st_steps s)%N; [exact I|]. cbv zeta.
    assert (Hs : ext s (bump s)) by ext_tac.
    destruct t.
    - apply good_eval_card; exact Hs.
    - destruct cs; repeat gstep.
    - destruct cs; repeat gstep.
    - repeat gstep.
    - repeat gstep.
    - repeat gstep.
    - destruct (nth_error P idx); [apply good_call_body; exact Hs | exact I].
    - destruct f; repeat gstep; try (apply good_call_body; exact Hs).
    - apply good_eval_native; exact Hs.
    - destruct entries as [|[k v] r]; repeat gstep.
  Qed.
End Ext.

Theorem eval_good P host limit : forall f t s, good s (eval P host limit f t s).
Proof.
  induction f as [|f IH]; intros t s; [exact I|]. cbn [eval]. apply good_F. exact IH.
Qed.

(* every evaluation extends the stores: no cell is removed, no closure record removed or changed *)
Theorem eval_ext P host limit f t s o e s' :
  eval P host limit f t s = ROk o e s' -> ext s s'.
Proof. intros E. pose proof (eval_good P host limit f t s) as H. rewrite E in H. exact H. Qed.

(* ------------------------------------------------------------------------------------------ *)
(* (a) capture by reference                                                                   *)
(* ------------------------------------------------------------------------------------------ *)
Lemma lookup_scopes_app x a b :
  lookup_scopes x (a ++ b) = orelse (lookup_scopes x a) (lookup_scopes x b).
Proof.
  induction a as [|sc a IH]; cbn; [reflexivity|]. destruct (assoc x sc); cbn; [reflexivity | exact IH].
Qed.

(* the scopes a closure stores designate, for every name, the cell the creating environment does *)
Lemma captured_scopes_designate e x : lookup_scopes x (e_scopes e ++ e_up e) = lookup_var e x.
Proof. apply lookup_scopes_app. Qed.

Lemma str_eqb_eq a b : str_eqb a b = true -> a = b.
Proof. unfold str_eqb. destruct (bytes_eqb_spec a b); [auto | discriminate]. Qed.

Lemma assoc_none {V} x (m : list (str * V)) : ~ In x (map fst m) -> assoc x m = None.
Proof.
  induction m as [|[k v] m IH]; cbn; [reflexivity|]. intros H.
  destruct (str_eqb x k) eqn:E; [apply str_eqb_eq in E; subst; tauto|]. apply IH. tauto.
Qed.

Lemma bind_fold_keys l : forall acc s sc s1,
  fold_left bind_step l (acc, s) = (sc, s1) ->
  forall k, In k (map fst sc) -> In k (map fst acc) \/ In k (map fst l).
Proof.
  induction l as [|[p a] l IH]; intros acc s sc s1 E k Hk; cbn in E.
  - inversion E; subst. left; exact Hk.
  - destruct (IH _ _ _ _ E k Hk) as [H | H].
    + rewrite map_app, in_app_iff in H. cbn in H. cbn. tauto.
    + cbn. tauto.
Qed.

Lemma bind_params_keys params args s sc s1 :
  bind_params params args s = (sc, s1) -> forall k, In k (map fst sc) -> In k params.
Proof.
  unfold bind_params. intros E k Hk. destruct (bind_fold_keys _ _ _ _ _ E k Hk) as [[] | H].
  apply in_map_iff in H. destruct H as [[p a] [<- H]]. apply in_combine_l in H. exact H.
Qed.

(* the environment a closure body runs in: a name that is not a parameter designates what the
   stored scopes designate *)
Theorem closure_body_env_designates params args s sc s1 up x :
  bind_params params args s = (sc, s1) -> ~ In x params ->
  lookup_var {| e_scopes := [sc]; e_up := up |} x = lookup_scopes x up.
Proof.
  intros E Hx. unfold lookup_var; cbn.
  rewrite (assoc_none x sc); [reflexivity|]. intros H. apply Hx. eapply bind_params_keys; eauto.
Qed.

Lemma nth_error_snoc {A} (l : list A) x : nth_error (l ++ [x]) (length l) = Some x.
Proof. rewrite nth_error_app2, Nat.sub_diag; [reflexivity | lia]. Qed.

(* creating a closure: no value is copied (the cell store is untouched); the record keeps the
   card list, the parameters, the function and, for every visible name, the CELL it designates;
   inside the body (any call, any arguments) the name still designates that cell *)
Theorem capture_by_reference P rec fi e params body s :
  exists cl s',
    eval_card P rec fi e (CClosure params body) s = ROk (ONorm [VClosure (length (st_clos s))]) e s' /\
    nth_error (st_clos s') (length (st_clos s)) = Some cl /\
    st_cells s' = st_cells s /\
    cl_body cl = body /\ cl_params cl = params /\ cl_fi cl = fi /\
    forall x c, lookup_var e x = Some c ->
      lookup_scopes x (cl_up cl) = Some c /\
      forall args s1 sc s2, ~ In x params -> bind_params params args s1 = (sc, s2) ->
        lookup_var {| e_scopes := [sc]; e_up := cl_up cl |} x = Some c.
Proof.
  eexists; eexists. cbn [eval_card]. unfold ok.
  split; [reflexivity|]. split; [cbn; apply nth_error_snoc|].
  repeat (split; [reflexivity|]).
  intros x c Hx. cbn [cl_up]. rewrite captured_scopes_designate. split; [exact Hx|].
  intros args s1 sc s2 Hp Hb. rewrite (closure_body_env_designates _ _ _ _ _ _ _ Hb Hp).
  rewrite captured_scopes_designate. exact Hx.
Qed.

Definition plain (x : str) : Prop := x <> [] /\ ~ In c_dot x.

Lemma split_once_c_none c x : ~ In c x -> split_once_c c x = None.
Proof.
  induction x as [|a r IH]; cbn; [reflexivity|]. intros H.
  destruct (N.eqb a c) eqn:E; [apply N.eqb_eq in E; subst; tauto|]. rewrite IH; [reflexivity | tauto].
Qed.
Lemma rsplit_once_c_none c x : ~ In c x -> rsplit_once_c c x = None.
Proof.
  intros H. unfold rsplit_once_c. rewrite split_once_c_none; [reflexivity|]. rewrite <- in_rev. exact H.
Qed.
Lemma nth_error_upd_same {A} (l : list A) i x : i < length l -> nth_error (upd l i x) i = Some x.
Proof.
  revert i; induction l as [|y l IH]; intros [|i] H; cbn in *; try lia; [reflexivity|]. apply IH. lia.
Qed.
Lemma is_empty_false x : x <> [] -> is_empty x = false.
Proof. destruct x; [congruence | reflexivity]. Qed.

(* sharing: a SetVar through ANY environment that designates the cell c for x (the enclosing
   scope, a closure body, a sibling's body) stores into c, and a ReadVar through ANY environment
   that designates c for x reads what was stored *)
Theorem write_seen_through_shared_cell P rec fi e1 e1' x c v val s s1 :
  plain x ->
  rec (TkArgs false fi e1 [v]) s = ROk (ONorm [val]) e1' s1 ->
  lookup_var e1' x = Some c -> c < length (st_cells s1) ->
  let s2 := set_cells (upd (st_cells s1) c val) s1 in
  eval_card P rec fi e1 (CSetVar x v) s = ok [] e1' s2 /\
  forall e2 fi2 rec2, lookup_var e2 x = Some c ->
    eval_card P rec2 fi2 e2 (CReadVar x) s2 = ok [val] e2 s2.
Proof.
  intros [Hne Hdot] Hv Hx Hc s2. split.
  - cbn [eval_card]. rewrite Hv. cbn [bnd one].
    rewrite (rsplit_once_c_none _ _ Hdot), (is_empty_false _ Hne), Hx. reflexivity.
  - intros e2 fi2 rec2 Hx2. cbn [eval_card]. unfold read_var.
    rewrite (split_once_c_none _ _ Hdot), (is_empty_false _ Hne), Hx2.
    subst s2. cbn [st_cells set_cells]. rewrite (nth_error_upd_same _ _ _ Hc). reflexivity.
Qed.

(* ------------------------------------------------------------------------------------------ *)
(* (d) identity of the body                                                                   *)
(* ------------------------------------------------------------------------------------------ *)
Lemma ext_clos_persist s s' id cl :
  ext s s' -> nth_error (st_clos s) id = Some cl -> nth_error (st_clos s') id = Some cl.
Proof.
  intros [_ [l E]] H. rewrite E. rewrite nth_error_app1; [exact H|].
  apply nth_error_Some. congruence.
Qed.

(* calling a closure value evaluates the card list (and uses the parameters, the function, the
   scopes) of the record stored under its identity *)
Lemma call_closure_unfold P host limit rec id args s cl :
  (limit <? st_steps s)%N = false ->
  nth_error (st_clos s) id = Some cl ->
  F P host limit rec (TkCallVal (VClosure id) args) s =
  call_body rec (cl_fi cl) (cl_params cl) (cl_body cl) (cl_up cl) args (bump s).
Proof. intros Hl Hc. unfold F. rewrite Hl. cbv zeta. cbn [st_clos bump]. rewrite Hc. reflexivity. Qed.

(* a closure created by the card [CClosure params body] in function fi, environment e: whatever
   is evaluated afterwards (any task t, any fuel), a call of that value evaluates exactly [body],
   as a sequence of cards of function fi, with the parameters bound to fresh cells and the scopes
   of e as captured scopes *)
Theorem closure_body_identity P host limit rec fi e params body s0 f t o e' s args :
  let id := length (st_clos s0) in
  let s1 := set_clos (st_clos s0 ++ [{| cl_params := params; cl_body := body;
                                        cl_up := e_scopes e ++ e_up e; cl_fi := fi |}]) s0 in
  eval_card P rec fi e (CClosure params body) s0 = ROk (ONorm [VClosure id]) e s1 /\
  (eval P host limit f t s1 = ROk o e' s ->
   (limit <? st_steps s)%N = false -> length params <= length args ->
   F P host limit rec (TkCallVal (VClosure id) args) s =
   let '(sc, s2) := bind_params params args (bump s) in
   finish_call (rec (TkSeq fi {| e_scopes := [sc]; e_up := e_scopes e ++ e_up e |} body) s2)).
Proof.
  intros id s1. split; [reflexivity|]. intros Ev Hl Hargs.
  assert (Hc : nth_error (st_clos s) id = Some {| cl_params := params; cl_body := body;
                                                   cl_up := e_scopes e ++ e_up e; cl_fi := fi |}).
  { eapply ext_clos_persist; [eapply eval_ext; exact Ev|]. subst s1 id. cbn. apply nth_error_snoc. }
  rewrite (call_closure_unfold _ _ _ _ _ _ _ _ Hl Hc). unfold call_body. cbn [cl_fi cl_params cl_body cl_up].
  destruct (Nat.ltb_spec (length args) (length params)); [lia | reflexivity].
Qed.

(* ------------------------------------------------------------------------------------------ *)
(* (c) lifetime                                                                               *)
(* ------------------------------------------------------------------------------------------ *)
(* returning from a call: the callee's environment is dropped, the store is passed on as it is *)
Lemma finish_call_store r o e s :
  finish_call r = ROk o e s -> e = empty_env /\ exists o' e', r = ROk o' e' s.
Proof.
  destruct r as [| |o' e' s']; cbn; try discriminate. destruct o'; cbn; intros E; inversion E; subst; eauto.
Qed.

(* the end of an iteration of a Repeat: the next iteration (or the end of the loop) continues in
   the OUTER environment e and in the store s2 the body ended with, untouched *)
Lemma repeat_scope_exit P host limit rec fi e i n k body s0 e1 s1 vs e' s2 :
  (limit <? st_steps s0)%N = false ->
  v_cmp (st_heap (bump s0)) (VInt k) n = Some (Some Lt) ->
  declare_opt i (VInt k) (push_scope e) (bump s0) = (e1, s1) ->
  rec (TkCard fi e1 body) s1 = ROk (ONorm vs) e' s2 ->
  F P host limit rec (TkRepeat fi e i n k body) s0 = rec (TkRepeat fi e i n (wrap64 (k + 1)) body) s2.
Proof. intros Hl Hc Hd Hb. unfold F. rewrite Hl. cbv zeta. rewrite Hc, Hd, Hb. reflexivity. Qed.

Lemma foreach_scope_exit P host limit rec fi e iv kv vv p k body s0 tb key val e1 s1 e2 s2 e3 s3 vs e' s4 :
  (limit <? st_steps s0)%N = false ->
  nth_error (st_heap (bump s0)) p = Some tb -> nth_error tb k = Some (key, val) ->
  declare_opt vv val (push_scope e) (bump s0) = (e1, s1) ->
  declare_opt kv (of_key key) e1 s1 = (e2, s2) ->
  declare_opt iv (VInt (Z.of_nat k)) e2 s2 = (e3, s3) ->
  rec (TkCard fi e3 body) s3 = ROk (ONorm vs) e' s4 ->
  F P host limit rec (TkForEach fi e iv kv vv p k body) s0 = rec (TkForEach fi e iv kv vv p (S k) body) s4.
Proof.
  intros Hl Ht Hk H1 H2 H3 Hb. unfold F. rewrite Hl. cbv zeta. rewrite Ht, Hk, H1, H2, H3, Hb. reflexivity.
Qed.

(* whatever runs after the scope is gone: the closure record is still there, unchanged (it still
   designates the cell c for x), and the cell c is still allocated *)
Theorem cell_outlives_scope P host limit f t s o e' s' id cl x c :
  nth_error (st_clos s) id = Some cl -> lookup_scopes x (cl_up cl) = Some c -> c < length (st_cells s) ->
  eval P host limit f t s = ROk o e' s' ->
  nth_error (st_clos s') id = Some cl /\ lookup_scopes x (cl_up cl) = Some c /\ c < length (st_cells s').
Proof.
  intros Hc Hx Hl Ev. pose proof (eval_ext _ _ _ _ _ _ _ _ _ Ev) as He.
  split; [eapply ext_clos_persist; eauto|]. split; [exact Hx|]. destruct He as [H _]. lia.
Qed.

(* ------------------------------------------------------------------------------------------ *)
(* (b) the cells of different iterations are different                                        *)
(* ------------------------------------------------------------------------------------------ *)
Lemma eval_deterministic_fuel P host limit f f' t s o e s1 o' e' s1' :
  eval P host limit f t s = ROk o e s1 -> eval P host limit f' t s = ROk o' e' s1' ->
  o = o' /\ e = e' /\ s1 = s1'.
Proof.
  intros E E'.
  assert (H : eval P host limit (Nat.max f f') t s = ROk o e s1).
  { eapply eval_fuel_monotone; [exact E | discriminate | lia | lia]. }
  assert (H' : eval P host limit (Nat.max f f') t s = ROk o' e' s1').
  { eapply eval_fuel_monotone; [exact E' | discriminate | lia | lia]. }
  rewrite H in H'. inversion H'; auto.
Qed.

Lemma declare_opt_cells n v e s e' s' :
  declare_opt n v e s = (e', s') ->
  length (st_cells s) <= length (st_cells s') /\ (n <> None -> length (st_cells s) < length (st_cells s')).
Proof.
  destruct n as [n|]; cbn [declare_opt].
  - unfold declare, alloc_cell. intros E; inversion E; subst. cbn. rewrite app_length. cbn. split; intros; lia.
  - intros E; inversion E; subst. split; [lia | congruence].
Qed.

Section Iter.
  Variables (P : list fentry) (host : list str) (limit : N).

  (* [repeat_iter fi e i n body k s j lo hi]: the task TkRepeat fi e i n k body is started in state
     s (F bumps the step counter first); the j-th iteration counted from here starts, and the
     cells it allocates - the loop variable first, then every local its body declares, the
     parameters of the calls it makes ... - are exactly the indices lo <= c < hi.  The clauses
     follow the definition of F (lemma [repeat_scope_exit]). *)
  Inductive repeat_iter fi e i n body : Z -> state -> nat -> nat -> nat -> Prop :=
  | RI_here k s e1 s1 f o e' s2 :
      v_cmp (st_heap (bump s)) (VInt k) n = Some (Some Lt) ->
      declare_opt i (VInt k) (push_scope e) (bump s) = (e1, s1) ->
      eval P host limit f (TkCard fi e1 body) s1 = ROk o e' s2 ->
      repeat_iter fi e i n body k s 0 (length (st_cells s)) (length (st_cells s2))
  | RI_later k s e1 s1 f vs e' s2 j lo hi :
      v_cmp (st_heap (bump s)) (VInt k) n = Some (Some Lt) ->
      declare_opt i (VInt k) (push_scope e) (bump s) = (e1, s1) ->
      eval P host limit f (TkCard fi e1 body) s1 = ROk (ONorm vs) e' s2 ->
      repeat_iter fi e i n body (wrap64 (k + 1)) s2 j lo hi ->
      repeat_iter fi e i n body k s (S j) lo hi.

  Lemma repeat_iter_lb fi e i n body k s j lo hi :
    repeat_iter fi e i n body k s j lo hi -> length (st_cells s) <= lo.
  Proof.
    induction 1 as [| k s e1 s1 f vs e' s2 j lo hi Hc Hd Hb _ IH]; [lia|].
    apply declare_opt_cells in Hd. destruct Hd as [Hd _]. cbn in Hd.
    apply eval_ext in Hb. destruct Hb as [Hb _]. lia.
  Qed.

  Theorem iteration_cells_distinct_repeat fi e i n body k s j1 lo1 hi1 j2 lo2 hi2 :
    repeat_iter fi e i n body k s j1 lo1 hi1 -> repeat_iter fi e i n body k s j2 lo2 hi2 ->
    j1 < j2 ->
    lo1 <= hi1 /\ hi1 <= lo2 /\ (i <> None -> lo1 < hi1).
  Proof.
    intros H1. revert j2 lo2 hi2.
    induction H1 as [k s e1 s1 f o e' s2 Hc Hd Hb | k s e1 s1 f vs e' s2 j lo hi Hc Hd Hb Hr IH];
      intros j2 lo2 hi2 H2 Hlt.
    - inversion H2; subst; [lia|].
      match goal with Hd' : declare_opt _ _ _ _ = (?a, ?b) |- _ =>
        rewrite Hd in Hd'; inversion Hd'; subst a b end.
      match goal with Hb' : eval _ _ _ _ _ _ = ROk (ONorm _) _ _ |- _ =>
        destruct (eval_deterministic_fuel _ _ _ _ _ _ _ _ _ _ _ _ _ Hb Hb') as [_ [_ <-]] end.
      match goal with Hr' : repeat_iter _ _ _ _ _ _ _ _ _ _ |- _ => apply repeat_iter_lb in Hr' end.
      pose proof (declare_opt_cells _ _ _ _ _ _ Hd) as [Hd1 Hd2]. cbn in Hd1, Hd2.
      pose proof (eval_ext _ _ _ _ _ _ _ _ _ Hb) as [Hb1 _].
      split; [lia|]. split; [lia|]. intros Hi. specialize (Hd2 Hi). lia.
    - inversion H2; subst; [lia|].
      match goal with Hd' : declare_opt _ _ _ _ = (?a, ?b) |- _ =>
        rewrite Hd in Hd'; inversion Hd'; subst a b end.
      match goal with Hb' : eval _ _ _ _ _ _ = ROk (ONorm _) _ _, Hr' : repeat_iter _ _ _ _ _ _ ?st _ _ _ |- _ =>
        destruct (eval_deterministic_fuel _ _ _ _ _ _ _ _ _ _ _ _ _ Hb Hb') as [_ [_ <-]];
        eapply IH; [exact Hr' | lia] end.
  Qed.

  (* the same for ForEach: [foreach_iter ... k s j lo hi]: the task TkForEach fi e iv kv vv p k body
     is started in state s at entry k of the table; its j-th iteration from here allocates the
     cells lo <= c < hi (value, key and index variables first) *)
  Inductive foreach_iter fi e iv kv vv p body : nat -> state -> nat -> nat -> nat -> Prop :=
  | FI_here k s tb key val e1 s1 e2 s2 e3 s3 f o e' s4 :
      nth_error (st_heap (bump s)) p = Some tb -> nth_error tb k = Some (key, val) ->
      declare_opt vv val (push_scope e) (bump s) = (e1, s1) ->
      declare_opt kv (of_key key) e1 s1 = (e2, s2) ->
      declare_opt iv (VInt (Z.of_nat k)) e2 s2 = (e3, s3) ->
      eval P host limit f (TkCard fi e3 body) s3 = ROk o e' s4 ->
      foreach_iter fi e iv kv vv p body k s 0 (length (st_cells s)) (length (st_cells s4))
  | FI_later k s tb key val e1 s1 e2 s2 e3 s3 f vs e' s4 j lo hi :
      nth_error (st_heap (bump s)) p = Some tb -> nth_error tb k = Some (key, val) ->
      declare_opt vv val (push_scope e) (bump s) = (e1, s1) ->
      declare_opt kv (of_key key) e1 s1 = (e2, s2) ->
      declare_opt iv (VInt (Z.of_nat k)) e2 s2 = (e3, s3) ->
      eval P host limit f (TkCard fi e3 body) s3 = ROk (ONorm vs) e' s4 ->
      foreach_iter fi e iv kv vv p body (S k) s4 j lo hi ->
      foreach_iter fi e iv kv vv p body k s (S j) lo hi.

  Lemma foreach_iter_lb fi e iv kv vv p body k s j lo hi :
    foreach_iter fi e iv kv vv p body k s j lo hi -> length (st_cells s) <= lo.
  Proof.
    induction 1 as [| k s tb key val e1 s1 e2 s2 e3 s3 f vs e' s4 j lo hi Ht Hk H1 H2 H3 Hb _ IH]; [lia|].
    apply declare_opt_cells in H1, H2, H3. destruct H1 as [H1 _], H2 as [H2 _], H3 as [H3 _]. cbn in H1.
    apply eval_ext in Hb. destruct Hb as [Hb _]. lia.
  Qed.

  Theorem iteration_cells_distinct_foreach fi e iv kv vv p body k s j1 lo1 hi1 j2 lo2 hi2 :
    foreach_iter fi e iv kv vv p body k s j1 lo1 hi1 -> foreach_iter fi e iv kv vv p body k s j2 lo2 hi2 ->
    j1 < j2 ->
    lo1 <= hi1 /\ hi1 <= lo2 /\ ((vv <> None \/ kv <> None \/ iv <> None) -> lo1 < hi1).
  Proof.
    intros H1. revert j2 lo2 hi2.
    induction H1 as [k s tb key val e1 s1 e2 s2 e3 s3 f o e' s4 Ht Hk D1 D2 D3 Hb
                    | k s tb key val e1 s1 e2 s2 e3 s3 f vs e' s4 j lo hi Ht Hk D1 D2 D3 Hb Hr IH];
      intros j2 lo2 hi2 H2 Hlt.
    - inversion H2; subst; [lia|].
      repeat match goal with
             | A : nth_error ?l ?i = Some ?x, B : nth_error ?l ?i = Some ?y |- _ =>
                 rewrite A in B; inversion B; subst; clear B
             | A : declare_opt ?n ?v ?en ?st = (?a, ?b), B : declare_opt ?n ?v ?en ?st = (?c, ?d) |- _ =>
                 rewrite A in B; inversion B; subst; clear B
             end.
      match goal with Hb' : eval _ _ _ _ _ _ = ROk (ONorm _) _ _ |- _ =>
        destruct (eval_deterministic_fuel _ _ _ _ _ _ _ _ _ _ _ _ _ Hb Hb') as [_ [_ <-]] end.
      match goal with Hr' : foreach_iter _ _ _ _ _ _ _ _ _ _ _ _ |- _ => apply foreach_iter_lb in Hr' end.
      pose proof (declare_opt_cells _ _ _ _ _ _ D1) as [A1 A2]. cbn in A1, A2.
      pose proof (declare_opt_cells _ _ _ _ _ _ D2) as [B1 B2].
      pose proof (declare_opt_cells _ _ _ _ _ _ D3) as [C1 C2].
      pose proof (eval_ext _ _ _ _ _ _ _ _ _ Hb) as [Hb1 _].
      split; [lia|]. split; [lia|]. intros [Hi | [Hi | Hi]];
        [specialize (A2 Hi) | specialize (B2 Hi) | specialize (C2 Hi)]; lia.
    - inversion H2; subst; [lia|].
      repeat match goal with
             | A : nth_error ?l ?i = Some ?x, B : nth_error ?l ?i = Some ?y |- _ =>
                 rewrite A in B; inversion B; subst; clear B
             | A : declare_opt ?n ?v ?en ?st = (?a, ?b), B : declare_opt ?n ?v ?en ?st = (?c, ?d) |- _ =>
                 rewrite A in B; inversion B; subst; clear B
             end.
      match goal with Hb' : eval _ _ _ _ _ _ = ROk (ONorm _) _ _, Hr' : foreach_iter _ _ _ _ _ _ _ _ _ _ _ _ |- _ =>
        destruct (eval_deterministic_fuel _ _ _ _ _ _ _ _ _ _ _ _ _ Hb Hb') as [_ [_ <-]];
        eapply IH; [exact Hr' | lia] end.
  Qed.
End Iter.
