(* C02: concrete states for the theorems of VmGcLink.v (non-vacuity, and what a collection does to them). *)
From stdpp Require Import gmap list.
From Cao Require Import Gc GcProofs.
From Cao Require Import Stacks Vm VmUpvalueSem VmGcRoots VmGcClosed VmGcReach VmGcLink.

(* no real number occurs below *)
Definition F0 : fops :=
  mkFops (fun a _ => a) (fun a _ => a) (fun a _ => a) (fun a _ => a) (fun _ _ => Some Eq) (fun _ => 0%N) (fun _ => 0%Z).

(* cell 0 string held by table 1 | 1 table on the stack | 2 closed upvalue holding string 3 | 4 open upvalue of slot 0
   | 5 closure of the running frame with upvalues [2; 4] | 6 string only in a DEAD stack slot and in garbage table 7
   | 8 string in the captured slot 0 | 9 string in a global | 10 native function value nobody holds *)
Definition wit_heap : Vm.heap :=
  [ OStr [97; 98]%N;
    OTable (mkTable [(VInt 1, VObj 0%N)] [VInt 1]);
    OUp (mkUp None (VObj 3%N) None);
    OStr [99]%N;
    OUp (mkUp (Some 0) VNil None);
    OClo 7%N 0%N [2; 4]%N;
    OStr [100]%N;
    OTable (mkTable [(VInt 0, VObj 6%N)] [VInt 0]);
    OStr [101]%N;
    OStr [102]%N;
    ONative 5%N ].

Definition wit_state : state :=
  mkState {| vcount := 2; vdata := [VObj 8%N; VObj 1%N; VObj 6%N; VNil; VNil] |}
          [mkFrame 0%N 0%N 0%N (Some 5%N)] [None; Some (VObj 9%N)] wit_heap (Some 4%N) [] 0%N 0%N.

Example wit_state_closed : state_closed wit_state.
Proof.
  constructor; unfold hl, sd, wit_state, wit_heap;
    cbn [st_heap st_open st_stack st_calls st_globals vdata vcount length].
  - intros i Hi. do 2 (destruct i as [|i]; [cbn; unfold aok; cbn; lia|]). lia.
  - repeat constructor; cbn; try (unfold aok; cbn; lia). intros i Hi. lia.
  - repeat constructor; cbn; unfold aok; cbn; lia.
  - cbn. unfold aok. cbn. lia.
  - repeat constructor; cbn; try (unfold aok; cbn; lia).
    intros i Hi. destruct i as [|i]; [cbn; unfold aok; cbn; lia|lia].
Qed.

Example wit_roots : vm_roots wit_state = [8; 1; 5; 4; 9]%N.
Proof. vm_compute. reflexivity. Qed.

(* which of the 11 cells survive: the garbage (6, 7, 10) is dropped - the dead stack slot that still holds 6 is not
   a root -, everything else is kept *)
Example wit_collection :
  (fun h' => map (fun a => bool_decide (is_Some (h' !! a))) [0; 1; 2; 3; 4; 5; 6; 7; 8; 9; 10]%N)
    <$> gc (vm_abs F0 wit_state) (vm_roots wit_state)
  = Some [true; true; true; true; true; true; false; false; true; true; false].
Proof. vm_compute. reflexivity. Qed.

(* the kept cells keep their references: the table still refers to its string, the closure to both upvalues, the
   closed upvalue to its value, the open one to the object in its stack slot *)
Example wit_kids :
  (fun h' => map (fun a => kids <$> (h' !! a)) [1; 5; 2; 4]%N) <$> gc (vm_abs F0 wit_state) (vm_roots wit_state)
  = Some [Some [0%N]; Some [2; 4]%N; Some [3%N]; Some [8%N]].
Proof. vm_compute. reflexivity. Qed.

(* a state produced by the VM itself: the run of VmUpvalueSem.dead_slot_program ends with an empty value stack, an
   open upvalue (cell 1) that is only in the open-upvalue list, and a closure (cell 0) nobody holds any more *)
Example wit_run :
  let r := run F0 Debug 100 dead_slot_program fresh_state in
  fst r = OOk /\ vm_roots (snd r) = [1%N] /\
  (fun h' => map (fun a => bool_decide (is_Some (h' !! a))) [0; 1]%N)
    <$> gc (vm_abs F0 (snd r)) (vm_roots (snd r)) = Some [false; true].
Proof. vm_compute. repeat split. Qed.

(* an instruction boundary in the sense of VmGcReach.boundary: three instructions of dead_slot_program (ScalarNil,
   Closure, RegisterUpvalue) from the fresh VM with the frame that `run` pushes *)
Definition wit_s0 : state := set_calls fresh_state [mkFrame 0%N 0%N 0%N None].
Example wit_s0_closed : state_closed wit_s0.
Proof.
  apply closed_set_calls; [apply fresh_state_closed|]. constructor; [|constructor].
  split; cbn; [intros i Hi; lia|exact I].
Qed.

Example wit_boundary :
  exists s, boundary F0 Debug dead_slot_program 100%N wit_s0 s /\ length (st_heap s) = 2 /\ vm_roots s = [1%N].
Proof.
  eexists. split.
  - eapply (bd_step _ _ _ _ _ 0 0%N); [vm_compute; reflexivity|].
    eapply (bd_step _ _ _ _ _ 0 1%N); [vm_compute; reflexivity|].
    eapply (bd_step _ _ _ _ _ 0 10%N); [vm_compute; reflexivity|].
    apply bd_here.
  - vm_compute. split; reflexivity.
Qed.
