(* Soundness, precision and termination of the collector model (Gc.v). *)
From stdpp Require Import gmap list.
From Cao Require Import Gc.

Definition nonwhite (h : heap) (a : N) : Prop := exists o, h !! a = Some o /\ is_white o = false.
Definition same_shape (h h' : heap) : Prop :=
  forall a, match h !! a, h' !! a with
            | Some o, Some o' => kids o = kids o' /\ (is_white o = false -> is_white o' = false)
            | None, None => True
            | _, _ => False
            end.

Inductive reach (h : heap) (roots : list N) : N -> Prop :=
| reach_root a : a ∈ roots -> reach h roots a
| reach_kid a o c : reach h roots a -> h !! a = Some o -> c ∈ kids o -> reach h roots c.

Definition closed (h : heap) : Prop := forall a o c, h !! a = Some o -> c ∈ kids o -> is_Some (h !! c).

(* tri-colour invariant: a non-white object is pending, or all its children are non-white *)
Definition TInv (h : heap) (wl : list N) : Prop :=
  forall a o, h !! a = Some o -> is_white o = false ->
    a ∈ wl \/ forall c, c ∈ kids o -> nonwhite h c.

Lemma same_shape_refl h : same_shape h h.
Proof. intros a. destruct (h !! a); auto. Qed.

Lemma same_shape_trans h1 h2 h3 : same_shape h1 h2 -> same_shape h2 h3 -> same_shape h1 h3.
Proof.
  intros H12 H23 a. specialize (H12 a). specialize (H23 a).
  destruct (h1 !! a), (h2 !! a), (h3 !! a); try tauto.
  destruct H12, H23. split; [congruence|auto].
Qed.

Lemma same_shape_paint h c oc : h !! c = Some oc -> same_shape h (<[c := paint oc]> h).
Proof.
  intros Hc a. destruct (decide (a = c)) as [->|Hne].
  - rewrite Hc, lookup_insert. simpl. split; auto.
  - rewrite lookup_insert_ne by auto. destruct (h !! a); auto.
Qed.

Lemma nonwhite_mono h h' a : same_shape h h' -> nonwhite h a -> nonwhite h' a.
Proof.
  intros Hs [o [Ho Hw]]. specialize (Hs a). rewrite Ho in Hs.
  destruct (h' !! a) as [o'|] eqn:Ho'; [|tauto]. exists o'. split; auto. apply Hs. auto.
Qed.

(* scan: shape preserved, every listed child ends up non-white, newly grey ones are queued,
   and everything that is non-white afterwards was non-white before or is in the queue *)
Lemma scan_spec : forall cs h acc h' new, scan h cs acc = (h', new) ->
  same_shape h h' /\
  (forall c, c ∈ cs -> is_Some (h !! c) -> nonwhite h' c) /\
  (forall a, a ∈ acc -> a ∈ new) /\
  (forall a, nonwhite h' a -> nonwhite h a \/ a ∈ new).
Proof.
  induction cs as [|c cs IH]; intros h acc h' new Hs; simpl in Hs.
  - inversion Hs; subst. split; [apply same_shape_refl|]. split; [intros c Hc; inversion Hc|].
    split; auto.
  - destruct (h !! c) as [oc|] eqn:Hc.
    + destruct (is_white oc) eqn:Hw.
      * apply IH in Hs. destruct Hs as [S1 [S2 [S3 S4]]].
        pose proof (same_shape_paint h c oc Hc) as Sp.
        split; [eapply same_shape_trans; eauto|]. split; [|split].
        -- intros c' Hin Hsome. apply elem_of_cons in Hin. destruct Hin as [->|Hin].
           ++ eapply nonwhite_mono; [exact S1|]. exists (paint oc). rewrite lookup_insert. auto.
           ++ apply S2; auto. specialize (Sp c'). destruct Hsome as [x Hx]. rewrite Hx in Sp.
              destruct (<[c:=paint oc]> h !! c'); [eauto|tauto].
        -- intros a Ha. apply S3. apply elem_of_cons. auto.
        -- intros a Ha. destruct (S4 a Ha) as [Hn|Hn]; [|auto].
           destruct (decide (a = c)) as [->|Hne].
           ++ right. apply S3. apply elem_of_cons. auto.
           ++ left. destruct Hn as [o [Ho Hwo]]. rewrite lookup_insert_ne in Ho by auto. exists o. auto.
      * apply IH in Hs. destruct Hs as [S1 [S2 [S3 S4]]]. split; auto. split; [|split; auto].
        intros c' Hin Hsome. apply elem_of_cons in Hin. destruct Hin as [->|Hin]; [|auto].
        eapply nonwhite_mono; [exact S1|]. exists oc. auto.
    + apply IH in Hs. destruct Hs as [S1 [S2 [S3 S4]]]. split; auto. split; [|split; auto].
      intros c' Hin Hsome. apply elem_of_cons in Hin. destruct Hin as [->|Hin]; [|auto].
      rewrite Hc in Hsome. destruct Hsome; discriminate.
Qed.

Lemma closed_shape h h' : closed h -> same_shape h h' -> closed h'.
Proof.
  intros Hc Hs a o' c Ha Hin. pose proof (Hs a) as Sa. rewrite Ha in Sa.
  destruct (h !! a) as [o|] eqn:Ho; [|tauto]. destruct Sa as [Hk _].
  rewrite <- Hk in Hin. destruct (Hc a o c Ho Hin) as [x Hx].
  specialize (Hs c). rewrite Hx in Hs. destruct (h' !! c); [eauto|tauto].
Qed.

Theorem mark_sound : forall fuel h wl h', closed h -> TInv h wl -> mark fuel h wl = Some h' ->
  same_shape h h' /\ TInv h' [].
Proof.
  induction fuel as [|f IH]; intros h wl h' Hcl HI Hm; simpl in Hm; [discriminate|].
  destruct wl as [|a wl'].
  - inversion Hm; subst. split; [apply same_shape_refl|exact HI].
  - destruct (h !! a) as [o|] eqn:Ha.
    + destruct (scan h (kids o) []) as [h1 new] eqn:Hs.
      apply scan_spec in Hs. destruct Hs as [S1 [S2 [S3 S4]]].
      assert (HI1 : TInv h1 (new ++ wl')).
      { intros b ob Hb Hwb.
        destruct (S4 b ltac:(exists ob; auto)) as [Hold|Hnew]; [|left; apply elem_of_app; auto].
        destruct Hold as [ob0 [Hb0 Hw0]].
        assert (Hk : kids ob0 = kids ob).
        { pose proof (S1 b) as Sb. rewrite Hb0, Hb in Sb. tauto. }
        destruct (HI b ob0 Hb0 Hw0) as [Hin|Hkids].
        - apply elem_of_cons in Hin. destruct Hin as [->|Hin].
          + right. intros c Hc. rewrite Hb0 in Ha. inversion Ha; subst ob0.
            rewrite <- Hk in Hc. apply S2; auto. eapply Hcl; eauto.
          + left. apply elem_of_app. auto.
        - right. intros c Hc. rewrite <- Hk in Hc. eapply nonwhite_mono; eauto. }
      destruct (IH h1 (new ++ wl') h' (closed_shape _ _ Hcl S1) HI1 Hm) as [S5 HI2].
      split; [eapply same_shape_trans; eauto|exact HI2].
    + apply (IH h wl' h' Hcl); auto.
      intros b ob Hb Hwb. destruct (HI b ob Hb Hwb) as [Hin|Hk]; [|auto].
      apply elem_of_cons in Hin. destruct Hin as [->|Hin]; [congruence|auto].
Qed.

(* consequence: everything reachable from non-white roots is non-white after marking *)
Corollary mark_reach fuel h roots h' : closed h ->
  (forall r, r ∈ roots -> nonwhite h r) -> TInv h roots ->
  mark fuel h roots = Some h' ->
  forall a, reach h roots a -> nonwhite h' a.
Proof.
  intros Hcl Hroots HI Hm. destruct (mark_sound _ _ _ _ Hcl HI Hm) as [Hs HI'].
  intros a Hr. induction Hr as [a Ha|a o c Hr IHr Ho Hc].
  - eapply nonwhite_mono; eauto.
  - destruct IHr as [o' [Ho' Hw']].
    destruct (HI' a o' Ho' Hw') as [Hin|Hk]; [inversion Hin|].
    apply Hk. pose proof (Hs a) as Sa. rewrite Ho, Ho' in Sa. destruct Sa as [Hk' _]. congruence.
Qed.


(* ---------- counting the White objects: the termination measure ---------- *)

Lemma whites_paint h c oc : h !! c = Some oc -> is_white oc = true ->
  S (whites (<[c := paint oc]> h)) = whites h.
Proof.
  intros Hc Hw. unfold whites.
  rewrite map_filter_insert_False by (unfold is_white, paint; simpl; discriminate).
  rewrite map_filter_delete.
  rewrite map_size_delete_Some.
  - assert (Hpos : size (filter (λ p : N * obj, is_white p.2 = true) h) ≠ 0).
    { intros H0. apply map_size_empty_inv in H0.
      assert (filter (λ p : N * obj, is_white p.2 = true) h !! c = Some oc) as Hl
        by (apply map_filter_lookup_Some; auto).
      rewrite H0, lookup_empty in Hl. discriminate. }
    lia.
  - exists oc. apply map_filter_lookup_Some. auto.
Qed.

Lemma scan_whites : forall cs h acc h' new, scan h cs acc = (h', new) ->
  whites h' + length new = whites h + length acc.
Proof.
  induction cs as [|c cs IH]; intros h acc h' new Hs; simpl in Hs.
  - inversion Hs; subst. reflexivity.
  - destruct (h !! c) as [oc|] eqn:Hc; [|eauto].
    destruct (is_white oc) eqn:Hw; [|eauto].
    apply IH in Hs. pose proof (whites_paint h c oc Hc Hw). simpl in Hs. lia.
Qed.

Lemma scan_new : forall cs h acc h' new, scan h cs acc = (h', new) ->
  forall a, a ∈ new -> a ∈ acc \/ a ∈ cs.
Proof.
  induction cs as [|c cs IH]; intros h acc h' new Hs a Ha; simpl in Hs.
  - inversion Hs; subst. auto.
  - destruct (h !! c) as [oc|] eqn:Hc.
    + destruct (is_white oc).
      * destruct (IH _ _ _ _ Hs a Ha) as [H|H]; [|right; set_solver].
        apply elem_of_cons in H. destruct H as [->|H]; [right; set_solver|auto].
      * destruct (IH _ _ _ _ Hs a Ha); [auto|right; set_solver].
    + destruct (IH _ _ _ _ Hs a Ha); [auto|right; set_solver].
Qed.

(* the marking loop stops within |worklist| + |White objects| iterations *)
Theorem mark_terminates : forall fuel h wl, length wl + whites h < fuel -> is_Some (mark fuel h wl).
Proof.
  induction fuel as [|f IH]; intros h wl Hf; [lia|]. simpl.
  destruct wl as [|a wl']; [eauto|].
  destruct (h !! a) as [o|] eqn:Ha.
  - destruct (scan h (kids o) []) as [h1 new] eqn:Hs.
    pose proof (scan_whites _ _ _ _ _ Hs) as Hw. simpl in Hw, Hf.
    apply IH. rewrite app_length. lia.
  - apply IH. simpl in Hf. lia.
Qed.

(* ---------- precision: nothing is marked that is not reachable from the initial non-white set ---------- *)

Definition reach_from (h : heap) (R : N -> Prop) : N -> Prop :=
  fun a => exists r, R r /\ reach h [r] a.

Lemma reach_kid' h r a o c : reach h [r] a -> h !! a = Some o -> c ∈ kids o -> reach h [r] c.
Proof. intros. eapply reach_kid; eauto. Qed.

Lemma reach_shape h h' roots a : same_shape h h' -> reach h roots a -> reach h' roots a.
Proof.
  intros Hs Hr. induction Hr as [a Ha|a o c Hr IHr Ho Hc]; [constructor; auto|].
  pose proof (Hs a) as Sa. rewrite Ho in Sa. destruct (h' !! a) as [o'|] eqn:Ho'; [|tauto].
  destruct Sa as [Hk _]. eapply reach_kid; eauto. rewrite <- Hk. exact Hc.
Qed.

Lemma same_shape_sym_kids h h' a o o' : same_shape h h' -> h !! a = Some o -> h' !! a = Some o' -> kids o = kids o'.
Proof. intros Hs Ho Ho'. specialize (Hs a). rewrite Ho, Ho' in Hs. tauto. Qed.

Lemma reach_shape_back h h' roots a : same_shape h h' -> reach h' roots a -> reach h roots a.
Proof.
  intros Hs Hr. induction Hr as [a Ha|a o' c Hr IHr Ho' Hc]; [constructor; auto|].
  pose proof (Hs a) as Sa. rewrite Ho' in Sa. destruct (h !! a) as [o|] eqn:Ho; [|tauto].
  destruct Sa as [Hk _]. eapply reach_kid; eauto. rewrite Hk. exact Hc.
Qed.

Theorem mark_precise (R : N -> Prop) : forall fuel h wl h',
  (forall a, nonwhite h a -> reach_from h R a) ->
  (forall a, a ∈ wl -> reach_from h R a) ->
  mark fuel h wl = Some h' ->
  forall a, nonwhite h' a -> reach_from h R a.
Proof.
  induction fuel as [|f IH]; intros h wl h' Hnw Hwl Hm; simpl in Hm; [discriminate|].
  destruct wl as [|a wl'].
  - inversion Hm; subst. exact Hnw.
  - destruct (h !! a) as [o|] eqn:Ha.
    + destruct (scan h (kids o) []) as [h1 new] eqn:Hs.
      pose proof (scan_new _ _ _ _ _ Hs) as Hnew.
      apply scan_spec in Hs. destruct Hs as [S1 [S2 [S3 S4]]].
      assert (Hra : reach_from h R a) by (apply Hwl; set_solver).
      assert (Hkid : forall c, c ∈ kids o -> reach_from h R c).
      { intros c Hc. destruct Hra as [r [Hr Hreach]]. exists r. split; auto. eapply reach_kid; eauto. }
      assert (Hshape : forall b, reach_from h1 R b -> reach_from h R b).
      { intros b [r [Hr Hb]]. exists r. split; auto. eapply reach_shape_back; eauto. }
      intros b Hb. apply Hshape.
      eapply (IH h1 (new ++ wl') h'); eauto.
      * intros c Hc. destruct (S4 c Hc) as [Hold|Hn].
        -- destruct (Hnw c Hold) as [r [Hr Hreach]]. exists r. split; auto. eapply reach_shape; eauto.
        -- destruct (Hnew c Hn) as [Hc0|Hc0]; [set_solver|].
           destruct (Hkid c Hc0) as [r [Hr Hreach]]. exists r. split; auto. eapply reach_shape; eauto.
      * intros c Hc. apply elem_of_app in Hc. destruct Hc as [Hc|Hc].
        -- destruct (Hnew c Hc) as [Hc0|Hc0]; [set_solver|].
           destruct (Hkid c Hc0) as [r [Hr Hreach]]. exists r. split; auto. eapply reach_shape; eauto.
        -- destruct (Hwl c ltac:(set_solver)) as [r [Hr Hreach]]. exists r. split; auto.
           eapply reach_shape; eauto.
    + eapply (IH h wl' h'); eauto. intros c Hc. apply Hwl. set_solver.
Qed.

(* ---------- markers: painting never touches a Protected object and creates none ---------- *)

Definition prot (h : heap) (a : N) : Prop := exists o, h !! a = Some o /\ col o = Protected.

Lemma prot_paint h c oc a : h !! c = Some oc -> is_white oc = true ->
  prot (<[c := paint oc]> h) a <-> prot h a.
Proof.
  intros Hc Hw. unfold prot. destruct (decide (a = c)) as [->|Hne].
  - rewrite lookup_insert. split.
    + intros [o [Ho Hp]]. inversion Ho; subst. discriminate.
    + intros [o [Ho Hp]]. rewrite Hc in Ho. inversion Ho; subst. unfold is_white in Hw. rewrite Hp in Hw. discriminate.
  - rewrite lookup_insert_ne by auto. reflexivity.
Qed.

Lemma scan_prot : forall cs h acc h' new, scan h cs acc = (h', new) -> forall a, prot h' a <-> prot h a.
Proof.
  induction cs as [|c cs IH]; intros h acc h' new Hs a; simpl in Hs.
  - inversion Hs; subst. reflexivity.
  - destruct (h !! c) as [oc|] eqn:Hc; [|eauto].
    destruct (is_white oc) eqn:Hw; [|eauto].
    rewrite (IH _ _ _ _ Hs a). apply prot_paint; auto.
Qed.

Lemma mark_prot : forall fuel h wl h', mark fuel h wl = Some h' -> forall a, prot h' a <-> prot h a.
Proof.
  induction fuel as [|f IH]; intros h wl h' Hm a; simpl in Hm; [discriminate|].
  destruct wl as [|b wl']; [inversion Hm; subst; reflexivity|].
  destruct (h !! b) as [o|]; [|eauto].
  destruct (scan h (kids o) []) as [h1 new] eqn:Hs.
  rewrite (IH _ _ _ Hm a). eapply scan_prot; eauto.
Qed.

(* ---------- one collection ---------- *)

Definition no_gray (h : heap) : Prop := forall a o, h !! a = Some o -> col o <> Gray.

Lemma elem_of_protected_of h a : a ∈ protected_of h <-> prot h a.
Proof.
  unfold protected_of, prot. rewrite elem_of_list_omap. split.
  - intros [[b o] [Hin Hs]]. apply elem_of_map_to_list in Hin. simpl in Hs.
    destruct (is_protected o) eqn:Hp; inversion Hs; subst.
    exists o. split; auto. unfold is_protected in Hp. destruct (col o); congruence.
  - intros [o [Ho Hp]]. exists (a, o). split; [apply elem_of_map_to_list; auto|].
    simpl. unfold is_protected. rewrite Hp. reflexivity.
Qed.

Lemma nonwhite_prot h a : no_gray h -> (nonwhite h a <-> prot h a).
Proof.
  intros Hng. unfold nonwhite, prot. split; intros [o [Ho H]]; exists o; split; auto.
  - specialize (Hng a o Ho). unfold is_white in H. destruct (col o); congruence.
  - unfold is_white. rewrite H. reflexivity.
Qed.

Lemma sweep_lookup h a :
  sweep h !! a = match h !! a with
                 | Some o => if is_white o then None else Some (unmark o)
                 | None => None
                 end.
Proof.
  unfold sweep. rewrite lookup_fmap.
  destruct (h !! a) as [o|] eqn:Ho.
  - destruct (is_white o) eqn:Hw.
    + rewrite map_filter_lookup_None_2; [reflexivity|]. right. intros o' Ho'. simpl.
      rewrite Ho in Ho'. inversion Ho'; subst. congruence.
    + erewrite map_filter_lookup_Some_2; eauto.
  - rewrite map_filter_lookup_None_2; [reflexivity|]. left. exact Ho.
Qed.

Lemma reach_mono h (r1 r2 : list N) a : (forall x, x ∈ r1 -> x ∈ r2) -> reach h r1 a -> reach h r2 a.
Proof.
  intros Hsub Hr. induction Hr as [a Ha|a o c Hr IHr Ho Hc]; [constructor; auto|].
  eapply reach_kid; eauto.
Qed.

Lemma reach_in_heap h roots a : closed h -> (forall r, r ∈ roots -> is_Some (h !! r)) ->
  reach h roots a -> is_Some (h !! a).
Proof.
  intros Hcl Hroots Hr. induction Hr as [a Ha|a o c Hr IHr Ho Hc]; [auto|]. eapply Hcl; eauto.
Qed.

(* The collection keeps exactly the objects reachable from the roots and from the guarded
   objects, with their references unchanged; guarded objects stay guarded, the others are
   un-marked; the marking loop terminates. *)
Theorem gc_spec h roots : closed h -> no_gray h ->
  exists h', gc h roots = Some h' /\
    (forall a, is_Some (h' !! a) <->
               (is_Some (h !! a) /\ reach h (protected_of h ++ roots) a)) /\
    (forall a o', h' !! a = Some o' ->
       exists o, h !! a = Some o /\ kids o' = kids o /\
                 col o' = (if is_protected o then Protected else White)) /\
    no_gray h'.
Proof.
  intros Hcl Hng. unfold gc.
  destruct (scan h roots []) as [h1 queued] eqn:Hs.
  pose proof (scan_new _ _ _ _ _ Hs) as Hnew.
  pose proof (scan_prot _ _ _ _ _ Hs) as Hprot1.
  pose proof (scan_spec _ _ _ _ _ Hs) as [S1 [S2 [_ S4]]].
  set (wl := protected_of h ++ queued).
  destruct (mark_terminates (S (length (protected_of h) + length queued + whites h1)) h1 wl) as [h2 Hm].
  { unfold wl. rewrite app_length. lia. }
  rewrite Hm. exists (sweep h2). split; [reflexivity|].
  assert (Hcl1 : closed h1) by (eapply closed_shape; eauto).
  assert (HI : TInv h1 wl).
  { intros a o Ho Hw. left. unfold wl. apply elem_of_app.
    destruct (S4 a ltac:(exists o; auto)) as [Hold|Hq]; [left|right; exact Hq].
    apply elem_of_protected_of. apply nonwhite_prot; auto. }
  destruct (mark_sound _ _ _ _ Hcl1 HI Hm) as [S5 HI2].
  pose proof (mark_prot _ _ _ _ Hm) as Hprot2.
  assert (S15 : same_shape h h2) by (eapply same_shape_trans; eauto).
  (* non-white in h2  <->  in the heap and reachable from the initial set *)
  assert (Hwl_nw : forall r, r ∈ wl -> nonwhite h1 r).
  { intros r Hr. unfold wl in Hr. apply elem_of_app in Hr. destruct Hr as [Hr|Hr].
    - apply elem_of_protected_of in Hr. eapply nonwhite_mono; [exact S1|]. apply nonwhite_prot; auto.
    - destruct (Hnew r Hr) as [Hc|Hc]; [set_solver|].
      (* a queued root was White in h, hence in the heap *)
      assert (Hq : forall cs h0 acc h0' new0, scan h0 cs acc = (h0', new0) ->
                   forall x, x ∈ new0 -> x ∈ acc \/ nonwhite h0' x).
      { clear. induction cs as [|c cs IH]; intros h0 acc h0' new0 Hs0 x Hx; simpl in Hs0.
        - inversion Hs0; subst. auto.
        - destruct (h0 !! c) as [oc|] eqn:Hc0; [|eauto].
          destruct (is_white oc) eqn:Hw0; [|eauto].
          destruct (IH _ _ _ _ Hs0 x Hx) as [H|H]; [|auto].
          apply elem_of_cons in H. destruct H as [->|H]; [|auto].
          right. apply scan_spec in Hs0. destruct Hs0 as [Sa _].
          eapply nonwhite_mono; [exact Sa|]. exists (paint oc). rewrite lookup_insert. auto. }
      destruct (Hq _ _ _ _ _ Hs r Hr) as [H|H]; [set_solver|exact H]. }
  assert (Hfwd : forall a, is_Some (h !! a) -> reach h (protected_of h ++ roots) a -> nonwhite h2 a).
  { intros a Ha Hr.
    assert (Hgen : forall a, reach h (protected_of h ++ roots) a -> is_Some (h !! a) -> nonwhite h2 a).
    { clear a Ha Hr. intros a Hr. induction Hr as [a Ha|a o c Hr IHr Ho Hc]; intros Hsome.
      - apply elem_of_app in Ha. destruct Ha as [Ha|Ha].
        + eapply nonwhite_mono; [exact S15|]. apply nonwhite_prot; auto. apply elem_of_protected_of. exact Ha.
        + eapply nonwhite_mono; [exact S5|]. apply S2; auto.
      - assert (Hna : nonwhite h2 a) by (apply IHr; eauto).
        destruct Hna as [o2 [Ho2 Hw2]].
        destruct (HI2 a o2 Ho2 Hw2) as [Hin|Hk]; [inversion Hin|].
        apply Hk. rewrite <- (same_shape_sym_kids _ _ _ _ _ S15 Ho Ho2). exact Hc. }
    apply Hgen; auto. }
  assert (Hbwd : forall a, nonwhite h2 a -> is_Some (h !! a) /\ reach h (protected_of h ++ roots) a).
  { intros a Ha.
    assert (Hin : is_Some (h !! a)).
    { destruct Ha as [o2 [Ho2 _]]. specialize (S15 a). rewrite Ho2 in S15. destruct (h !! a); [eauto|tauto]. }
    split; [exact Hin|].
    assert (Hnw1 : forall b, nonwhite h1 b -> b ∈ wl).
    { intros b Hb. unfold wl. apply elem_of_app. destruct (S4 b Hb) as [Hold|Hq]; [left|right; exact Hq].
      apply elem_of_protected_of. apply nonwhite_prot; auto. }
    assert (P : reach_from h1 (fun r => r ∈ wl) a).
    { eapply (mark_precise (fun r => r ∈ wl)); [ | |exact Hm|exact Ha].
      - intros b Hb. exists b. split; [apply Hnw1; exact Hb|constructor; set_solver].
      - intros b Hb. exists b. split; [exact Hb|constructor; set_solver]. }
    destruct P as [r [Hr Hreach]].
    apply (reach_shape_back _ _ _ _ S1) in Hreach.
    eapply reach_mono; [|exact Hreach].
    intros x Hx. apply elem_of_list_singleton in Hx. subst x.
    unfold wl in Hr. apply elem_of_app in Hr. apply elem_of_app. destruct Hr as [Hr|Hr]; [left; exact Hr|].
    right. destruct (Hnew r Hr) as [Hc|Hc]; [set_solver|exact Hc]. }
  split; [|split].
  - intros a. rewrite sweep_lookup. split.
    + intros Hs'. destruct (h2 !! a) as [o2|] eqn:Ho2; [|destruct Hs'; discriminate].
      destruct (is_white o2) eqn:Hw; [destruct Hs'; discriminate|].
      apply Hbwd. exists o2. auto.
    + intros [Ha Hr]. destruct (Hfwd a Ha Hr) as [o2 [Ho2 Hw2]]. rewrite Ho2, Hw2. eauto.
  - intros a o' Ho'. rewrite sweep_lookup in Ho'.
    destruct (h2 !! a) as [o2|] eqn:Ho2; [|discriminate].
    destruct (is_white o2) eqn:Hw; [discriminate|]. inversion Ho'; subst o'.
    pose proof (S15 a) as Sa. rewrite Ho2 in Sa. destruct (h !! a) as [o|] eqn:Ho; [|tauto].
    destruct Sa as [Hk _]. exists o. split; [reflexivity|].
    assert (Hp : prot h2 a <-> prot h a) by (rewrite Hprot2, Hprot1; reflexivity).
    unfold unmark, is_protected. destruct (col o2) eqn:Hc2.
    + unfold is_white in Hw. rewrite Hc2 in Hw. discriminate.
    + simpl. split; [congruence|].
      destruct (col o) eqn:Hc; auto.
      * exfalso. assert (prot h2 a) as [x [Hx Hcx]] by (apply Hp; exists o; auto).
        rewrite Ho2 in Hx. inversion Hx; subst. congruence.
    + split; [congruence|]. rewrite Hc2.
      assert (prot h a) as [x [Hx Hcx]] by (apply Hp; exists o2; auto).
      rewrite Ho in Hx. inversion Hx; subst. rewrite Hcx. reflexivity.
  - intros a o' Ho'. rewrite sweep_lookup in Ho'.
    destruct (h2 !! a) as [o2|]; [|discriminate].
    destruct (is_white o2); [discriminate|]. inversion Ho'; subst.
    unfold unmark. destruct (col o2) eqn:Hc; simpl; congruence.
Qed.

(* the heap stays closed, so the statement applies to every later collection as well *)
Corollary gc_closed h roots h' : closed h -> no_gray h -> gc h roots = Some h' -> closed h'.
Proof.
  intros Hcl Hng Hgc. destruct (gc_spec h roots Hcl Hng) as [h'' [Hgc' [Hdom [Hobj _]]]].
  rewrite Hgc in Hgc'. inversion Hgc'; subst h''. clear Hgc'.
  intros a o' c Ha Hc.
  destruct (Hobj a o' Ha) as [o [Ho [Hk _]]].
  assert (Hra : is_Some (h !! a) /\ reach h (protected_of h ++ roots) a) by (apply Hdom; eauto).
  apply Hdom. rewrite Hk in Hc. split.
  - eapply Hcl; eauto.
  - eapply reach_kid; [apply Hra|exact Ho|exact Hc].
Qed.
