(* C06, VM half: every instruction keeps [vm_ok] (VmUpvalueProofs.v). *)
From Coq Require Import NArith ZArith List Lia Bool Sorted.
From Cao Require Import ListUtil Bits Stacks Vm VmUpvalueProofs.
Import ListNotations.



(* ------------------------------------------------------------------ *)
(* 6. instructions that do not touch the upvalue objects               *)
(* ------------------------------------------------------------------ *)

Section Step.
  Variable F : fops.
  Variable bld : build.
  Variable P : program.
  Variable reenter : N -> state -> rres.
  Hypothesis reenter_ok : forall ip s, vm_ok s -> rres_ok (reenter ip s).

  Lemma push_next_ok ip s v : vm_ok s -> sres_ok (push_next ip s v).
  Proof. unfold push_next. intros H. destruct (spush s v) eqn:E; ok_close. Qed.

  Lemma of_vres_ok ip s r : vm_ok s -> sres_ok (of_vres ip s r).
  Proof. intros H. destruct r; cbn [of_vres]; try apply push_next_ok; ok_close. Qed.

  Lemma binary_op_ok ip s op : vm_ok s -> sres_ok (binary_op ip s op).
  Proof.
    intros H. unfold binary_op. destruct (spop s) as [s1 b] eqn:E1. destruct (spop s1) as [s2 a] eqn:E2.
    apply of_vres_ok. ok_close.
  Qed.

  Ltac step_tac :=
    repeat match goal with
           | |- sres_ok (binary_op _ _ _) => apply binary_op_ok
           | |- sres_ok (push_next _ _ _) => apply push_next_ok
           | |- sres_ok (match ?x with _ => _ end) => destruct x eqn:?
           end;
    try ok_close.

  Ltac instr d := intros opc ip0 ip s Hs; unfold d; cbv zeta; step_tac.

  Lemma i_5_ok : forall opc ip0 ip s, vm_ok s -> sres_ok (i_5 P opc ip0 ip s). Proof. instr i_5. Qed.
  Lemma i_6_ok : forall opc ip0 ip s, vm_ok s -> sres_ok (i_6 P opc ip0 ip s). Proof. instr i_6. Qed.
  Lemma i_8_ok : forall opc ip0 ip s, vm_ok s -> sres_ok (i_8 P opc ip0 ip s). Proof. instr i_8. Qed.
  Lemma i_17_ok : forall opc ip0 ip s, vm_ok s -> sres_ok (i_17 P opc ip0 ip s). Proof. instr i_17. Qed.
  Lemma i_18_ok : forall opc ip0 ip s, vm_ok s -> sres_ok (i_18 P opc ip0 ip s). Proof. instr i_18. Qed.
  Lemma i_19_ok : forall opc ip0 ip s, vm_ok s -> sres_ok (i_19 P opc ip0 ip s). Proof. instr i_19. Qed.
  Lemma i_20_ok : forall opc ip0 ip s, vm_ok s -> sres_ok (i_20 P opc ip0 ip s). Proof. instr i_20. Qed.
  Lemma i_23_ok : forall opc ip0 ip s, vm_ok s -> sres_ok (i_23 opc ip0 ip s). Proof. instr i_23. Qed.
  Lemma i_27_ok : forall opc ip0 ip s, vm_ok s -> sres_ok (i_27 F opc ip0 ip s). Proof. instr i_27. Qed.
  Lemma i_28_ok : forall opc ip0 ip s, vm_ok s -> sres_ok (i_28 bld P opc ip0 ip s). Proof. instr i_28. Qed.
  Lemma i_29_30_ok : forall opc ip0 ip s, vm_ok s -> sres_ok (i_29_30 F bld P opc ip0 ip s). Proof. instr i_29_30. Qed.
  Lemma i_31_ok : forall opc ip0 ip s, vm_ok s -> sres_ok (i_31 opc ip0 ip s). Proof. instr i_31. Qed.
  Lemma i_32_ok : forall opc ip0 ip s, vm_ok s -> sres_ok (i_32 F opc ip0 ip s). Proof. instr i_32. Qed.
  Lemma i_34_ok : forall opc ip0 ip s, vm_ok s -> sres_ok (i_34 opc ip0 ip s). Proof. instr i_34. Qed.
  Lemma i_35_ok : forall opc ip0 ip s, vm_ok s -> sres_ok (i_35 P opc ip0 ip s). Proof. instr i_35. Qed.
  Lemma i_36_ok : forall opc ip0 ip s, vm_ok s -> sres_ok (i_36 F bld P opc ip0 ip s). Proof. instr i_36. Qed.
  Lemma i_37_42_ok : forall opc ip0 ip s, vm_ok s -> sres_ok (i_37_42 P opc ip0 ip s).
  Proof.
    intros opc ip0 ip s Hs; unfold i_37_42; cbv zeta.
    destruct (op_u32 P ip); [|ok_close]. destruct (op_u32 P (ip + 4)); [|ok_close].
    destruct (salloc s _) as [s1 a] eqn:E. apply push_next_ok.
    apply salloc_keep in E; [ok_close|destruct (opc =? 37)%N; plain_tac].
  Qed.
  Lemma i_38_ok : forall opc ip0 ip s, vm_ok s -> sres_ok (i_38 P opc ip0 ip s). Proof. instr i_38. Qed.

  (* ---- tables ---- *)
  Lemma set_table_ok s a t t' : hget (st_heap s) a = Some (OTable t) -> vm_ok s -> vm_ok (set_table s a t').
  Proof. intros H. apply keep_vm_ok. eapply set_table_keep. exact H. Qed.

  Lemma i_33_ok : forall opc ip0 ip s, vm_ok s -> sres_ok (i_33 F opc ip0 ip s).
  Proof.
    intros opc ip0 ip s Hs; unfold i_33; cbv zeta.
    destruct (get_table _ _) as [a t| |] eqn:Eg; try ok_close.
    destruct (tinsert _ _ _ _); [|exact I]. cbn [sres_ok].
    eapply set_table_ok; [eapply get_table_hget; exact Eg|]. ok_close.
  Qed.

  Lemma i_40_ok : forall opc ip0 ip s, vm_ok s -> sres_ok (i_40 F opc ip0 ip s).
  Proof.
    intros opc ip0 ip s Hs; unfold i_40; cbv zeta.
    destruct (get_table _ _) as [a t| |] eqn:Eg; try ok_close.
    destruct (tappend _ _ _); try exact I. cbn [sres_ok].
    eapply set_table_ok; [eapply get_table_hget; exact Eg|]. ok_close.
  Qed.

  Lemma i_41_ok : forall opc ip0 ip s, vm_ok s -> sres_ok (i_41 F opc ip0 ip s).
  Proof.
    intros opc ip0 ip s Hs; unfold i_41; cbv zeta.
    destruct (spop s) as [s1 inst] eqn:E1. assert (H1 : vm_ok s1) by ok_close.
    destruct (get_table _ _) as [a t| |] eqn:Eg; try ok_close.
    destruct (tpop _ _) as [[t' v]|]; [|exact I]. apply push_next_ok.
    eapply set_table_ok; [eapply get_table_hget; exact Eg|exact H1].
  Qed.

  Lemma salloc_hget s o s1 a : salloc s o = (s1, a) -> hget (st_heap s1) a = Some o.
  Proof. intros H. destruct (salloc_heap _ _ _ _ H) as [-> ->]. apply hget_app_new. Qed.
  Lemma salloc_hget_old s o s1 a x ob :
    salloc s o = (s1, a) -> hget (st_heap s) x = Some ob -> hget (st_heap s1) x = Some ob.
  Proof.
    intros H Hx. destruct (salloc_heap _ _ _ _ H) as [-> _]. rewrite hget_app_old; [exact Hx|].
    eapply hget_lt. exact Hx.
  Qed.

  Lemma i_39_ok : forall opc ip0 ip s, vm_ok s -> sres_ok (i_39 F opc ip0 ip s).
  Proof.
    intros opc ip0 ip s Hs; unfold i_39; cbv zeta.
    assert (H2 : vm_ok (spop_n s 2)) by ok_close.
    destruct (get_table _ _) as [a t| |] eqn:Eg; try ok_close.
    destruct (speek s 0); try ok_close.
    destruct (_ <? 0)%Z; [ok_close|].
    destruct (if (_ <? _)%Z then _ else _) as [r|]; [|exact I].
    destruct (salloc (spop_n s 2) _) as [s3 row] eqn:E3.
    destruct (salloc s3 _) as [s4 ka] eqn:E4.
    destruct (salloc s4 _) as [s5 va] eqn:E5.
    pose proof (salloc_hget _ _ _ _ E3) as Hrow.
    pose proof (salloc_hget_old _ _ _ _ _ _ E4 Hrow) as Hrow4.
    pose proof (salloc_hget_old _ _ _ _ _ _ E5 Hrow4) as Hrow5.
    destruct (tinsert _ _ _ _); [|exact I]. destruct (tinsert _ _ _ _); [|exact I].
    apply push_next_ok. eapply set_table_ok; [exact Hrow5|]. ok_close.
  Qed.

  (* ---- frames ---- *)
  Lemma top_offset_lt s off : vm_ok s -> top_offset s = Some off -> off < cap s.
  Proof.
    intros (_ & _ & Hf). unfold top_offset. destruct (st_calls s) as [|f r]; [discriminate|].
    intros E. injection E as <-. inversion Hf; assumption.
  Qed.

  Lemma i_21_ok : forall opc ip0 ip s, vm_ok s -> sres_ok (i_21 opc ip0 ip s).
  Proof.
    intros opc ip0 ip s Hs; unfold i_21.
    destruct (top_offset s) as [off|] eqn:Eo; [|exact I].
    destruct (sclear_until s off) as [s1 v] eqn:E. cbn [fst sres_ok].
    apply sclear_until_keep in E; [ok_close|eapply top_offset_lt; eauto].
  Qed.

  (* ---- upvalue access ---- *)
  Lemma i_43_44_ok : forall opc ip0 ip s, vm_ok s -> sres_ok (i_43_44 P opc ip0 ip s).
  Proof.
    intros opc ip0 ip s Hs; unfold i_43_44; cbv zeta.
    destruct (op_u32 P ip); [|exact I].
    destruct (opc =? 43)%N.
    - destruct (spop s) as [s1 wv] eqn:E1. assert (H1 : vm_ok s1) by ok_close.
      destruct (st_calls s1) as [|fr rest]; [exact I|].
      destruct (fr_clo fr) as [ca|]; [|exact H1].
      destruct (hget (st_heap s1) ca) as [[t|b|h ar|h|h ar ups|u]|]; try exact I.
      destruct (nth_error ups _) as [ua|]; [|exact H1].
      destruct (hget (st_heap s1) ua) as [[t|b|h' ar'|h'|h' ar' ups'|u]|] eqn:Eu; try exact H1; try exact I.
      destruct (u_loc u) as [l|] eqn:El; cbn [sres_ok].
      + ok_close.
      + apply (write_closed_vm_ok s1 ua u wv Eu El H1).
    - destruct (st_calls s) as [|fr rest]; [exact I|].
      destruct (fr_clo fr) as [ca|]; [|exact Hs].
      destruct (hget (st_heap s) ca) as [[t|b|h ar|h|h ar ups|u]|]; try exact I.
      destruct (nth_error ups _) as [ua|]; [|exact Hs].
      destruct (hget (st_heap s) ua) as [[t|b|h' ar'|h'|h' ar' ups'|u]|] eqn:Eu; try exact Hs; try exact I.
      apply push_next_ok. exact Hs.
  Qed.

  (* ---- CloseUpvalue, Return ---- *)
  Lemma close_from_vm_ok top s : vm_ok s ->
    exists s', close_upvalues_from top s = ClOk s' /\ vm_ok s' /\ same_but_heap_open s s'.
  Proof.
    intros ((l & Hl) & Hc & Hf).
    destruct (close_from_spec top s l (cap s) Hl) as (s' & E & Hk & Hsame & _).
    exists s'. split; [exact E|]. split; [|exact Hsame].
    destruct Hsame as (A1 & A2 & _). unfold vm_ok, open_ok, cap in *. rewrite A1, A2.
    split; [exists (kept_by top l); exact Hk|]. split; assumption.
  Qed.

  Lemma i_46_ok : forall opc ip0 ip s, vm_ok s -> sres_ok (i_46 P opc ip0 ip s).
  Proof.
    intros opc ip0 ip s Hs; unfold i_46; cbv zeta.
    destruct (op_u32 P ip) as [idx|]; [|exact I].
    destruct (top_offset s) as [off|]; [|exact I].
    destruct (close_from_vm_ok (off + N.to_nat idx) s Hs) as (s' & E & H' & _). rewrite E. exact H'.
  Qed.

  Lemma i_22_ok : forall opc ip0 ip s, vm_ok s -> sres_ok (i_22 opc ip0 ip s).
  Proof.
    intros opc ip0 ip s Hs; unfold i_22; cbv zeta.
    destruct (st_calls s) as [|fr rest] eqn:Ec; [exact Hs|].
    assert (Hfr : N.to_nat (fr_off fr) < cap s /\ frames_lt (cap s) rest).
    { destruct Hs as (_ & _ & Hf). rewrite Ec in Hf. inversion Hf; subst. split; assumption. }
    destruct Hfr as [Hoff Hrest].
    assert (Hs1 : vm_ok (set_calls s rest)) by (apply vm_ok_set_calls; assumption).
    destruct (close_from_vm_ok (N.to_nat (fr_off fr)) _ Hs1) as (s2 & E & H2 & Hsame). rewrite E.
    destruct (sclear_until s2 _) as [s3 v] eqn:E3. apply sclear_until_keep in E3.
    - destruct rest as [|prev rest']; [ok_close|]. apply push_next_ok. ok_close.
    - destruct Hsame as (A1 & _). unfold cap in *. rewrite A1. exact Hoff.
  Qed.

  (* ---- run_function and the natives ---- *)
  Lemma off_lt_cap s ar : vm_ok s -> N.to_nat (N.of_nat (scount s) - ar) < cap s.
  Proof. intros (_ & Hc & _). unfold scount. rewrite N2Nat.inj_sub, Nat2N.id. lia. Qed.

  Lemma run_function_ok (cn : N -> state -> nres) :
    (forall h s, vm_ok s -> nres_ok (cn h s)) ->
    forall fv s, vm_ok s -> nres_ok (run_function P reenter cn fv s).
  Proof.
    intros Hcn fv s Hs. unfold run_function.
    destruct fv as [|z|r|a]; try exact Hs.
    destruct (hget (st_heap s) a) as [o|]; [|exact I].
    assert (Hgo : forall arity label clo,
      nres_ok
        (if (code_len P =? 0)%N then NStop APanic s
         else match assoc label (p_labels P) with
              | None => NErr (EProcedureNotFound label) s
              | Some src =>
                  let len := N.of_nat (scount s) in
                  if (len <? arity)%N then NErr EMissingArgument s
                  else
                    let f := mkFrame src (last_pos P) (len - arity) clo in
                    match push_frame s f with
                    | None => NErr ECallStackOverflow s
                    | Some s1 =>
                        match push_frame s1 f with
                        | None => NErr ECallStackOverflow s
                        | Some s2 =>
                            let depth := length (st_calls s) in
                            let unwind (x : state) :=
                              set_calls x (skipn (length (st_calls x) - depth) (st_calls x)) in
                            match reenter src s2 with
                            | ROk s3 => let '(s5, v) := spop (unwind s3) in NOk v s5
                            | RErr e _ s3 => NErr e (unwind s3)
                            | RStop ab s3 => NStop ab s3
                            end
                        end
                    end
              end)).
    { intros arity label clo.
      destruct (code_len P =? 0)%N; [exact I|].
      destruct (assoc label (p_labels P)) as [src|]; [|exact Hs].
      cbv zeta. destruct (_ <? _)%N; [exact Hs|].
      pose proof (off_lt_cap s arity Hs) as Hoff.
      destruct (push_frame s _) as [s1|] eqn:E1; [|exact Hs].
      assert (H1 : vm_ok s1) by (eapply push_frame_vm_ok; eauto).
      assert (Hc1 : cap s1 = cap s).
      { unfold push_frame in E1. destruct (_ <=? _); [discriminate|]. injection E1 as <-. reflexivity. }
      destruct (push_frame s1 _) as [s2|] eqn:E2; [|exact Hs].
      assert (H2 : vm_ok s2) by (eapply push_frame_vm_ok; eauto; rewrite Hc1; exact Hoff).
      pose proof (reenter_ok src s2 H2) as Hr.
      destruct (reenter src s2) as [s3|e ip3 s3|ab s3]; cbn [rres_ok] in Hr; [| |exact I].
      - destruct (spop _) as [s5 v] eqn:E5. cbn [nres_ok]. apply spop_keep in E5.
        eapply keep_vm_ok; [exact E5|]. apply vm_ok_set_calls; [exact Hr|].
        apply frames_lt_skipn. apply Hr.
      - cbn [nres_ok]. apply vm_ok_set_calls; [exact Hr|]. apply frames_lt_skipn. apply Hr. }
    destruct o; try apply Hgo; try exact Hs.
    pose proof (Hcn h s Hs) as Hc. destruct (cn h s) as [v s1|e s1|ab s1]; cbn [nres_ok] in Hc |- *.
    - destruct (spop s1) as [s2 v2] eqn:E. ok_close.
    - exact Hc.
    - exact I.
  Qed.

  Section StdOk.
    Variable self : N -> state -> nres.
    Hypothesis Hrf : forall fv s, vm_ok s -> nres_ok (run_function P reenter self fv s).

    Lemma minmax_go_ok less key_fn : forall l j i best s, vm_ok s ->
      match minmax_go F P reenter self less key_fn l j i best s with
      | MMOk _ s' => vm_ok s'
      | MMFail r => nres_ok r
      end.
    Proof.
      induction l as [|[k v] rest IH]; intros j i best s Hc; cbn [minmax_go]; [exact Hc|].
      destruct (spush s v) as [s1|] eqn:E1; [|exact Hc].
      assert (H1 : vm_ok s1) by ok_close.
      destruct (spush s1 k) as [s2|] eqn:E2; [|exact H1].
      assert (H2 : vm_ok s2) by ok_close.
      pose proof (Hrf key_fn s2 H2) as H.
      destruct (run_function P reenter self key_fn s2) as [key s3|e s3|ab s3]; cbn [nres_ok] in H; try exact H.
      destruct (vcmp F (st_heap s3) key best) as [[]| |]; cbv beta iota zeta; cbn [nres_ok]; try exact I;
        destruct less; cbn [negb]; cbv beta iota; apply IH; exact H.
    Qed.

    Lemma make_row_ok s k v : vm_ok s -> nres_ok (make_row F s k v).
    Proof.
      intros Hc. unfold make_row.
      destruct (salloc s _) as [s3 row] eqn:E3. destruct (salloc s3 _) as [s4 ka] eqn:E4.
      pose proof (salloc_hget _ _ _ _ E3) as Hrow.
      pose proof (salloc_hget_old _ _ _ _ _ _ E4 Hrow) as Hrow4.
      destruct (tinsert _ _ _ k); [|exact I].
      destruct (salloc s4 _) as [s5 va] eqn:E5.
      pose proof (salloc_hget_old _ _ _ _ _ _ E5 Hrow4) as Hrow5.
      destruct (tinsert _ _ _ v); [|exact I]. cbn [nres_ok].
      eapply set_table_ok; [exact Hrow5|]. ok_close.
    Qed.

    Lemma snapshot_ok s t s' ct : snapshot F s t = Some (s', ct) -> vm_ok s -> vm_ok s'.
    Proof.
      unfold snapshot. destruct (titer _ t) as [l|]; [|discriminate].
      destruct (salloc s _) as [s1 c] eqn:E1. destruct (insert_pairs _ _ l) as [ct'|]; [|discriminate].
      intros H Hs. injection H as <- <-. pose proof (salloc_hget _ _ _ _ E1) as Hc.
      eapply set_table_ok; [exact Hc|]. ok_close.
    Qed.

    Lemma native_minmax_ok less it kf s0 : vm_ok s0 -> nres_ok (native_minmax F P reenter self less it kf s0).
    Proof.
      intros Hs0. unfold native_minmax. destruct it; try exact Hs0.
      destruct (hget (st_heap s0) a) as [[t| | | | |]|]; try exact Hs0; try exact I.
      destruct (snapshot F s0 t) as [[s entries]|] eqn:Esn; [|exact I].
      assert (Hs : vm_ok s) by (eapply snapshot_ok; eauto).
      clear Esn.
      destruct (titer _ entries) as [[|[k0 v0] rest]|]; try exact Hs; try exact I.
      destruct (spush s v0) as [s1|] eqn:E1; [|exact Hs].
      assert (H1 : vm_ok s1) by ok_close.
      destruct (spush s1 k0) as [s2|] eqn:E2; [|exact H1].
      assert (H2 : vm_ok s2) by ok_close.
      pose proof (Hrf kf s2 H2) as H.
      destruct (run_function P reenter self kf s2) as [key0 s3|e s3|ab s3]; cbn [nres_ok] in H; try exact H.
      pose proof (minmax_go_ok less kf rest 1 0 key0 s3 H) as Hm.
      destruct (minmax_go F P reenter self less kf rest 1 0 key0 s3) as [i s4|r]; [|exact Hm].
      destruct (tget _ entries _); [|exact I].
      apply make_row_ok. exact Hm.
    Qed.

    Lemma sort_keys_ok kf : forall l s, vm_ok s ->
      match sort_keys P reenter self kf l s with
      | SKOk _ s' => vm_ok s'
      | SKFail r => nres_ok r
      end.
    Proof.
      induction l as [|[k v] rest IH]; intros s Hc; cbn [sort_keys]; [exact Hc|].
      destruct (spush s v) as [s1|] eqn:E1; [|exact Hc].
      assert (H1 : vm_ok s1) by ok_close.
      destruct (spush s1 k) as [s2|] eqn:E2; [|exact H1].
      assert (H2 : vm_ok s2) by ok_close.
      pose proof (Hrf kf s2 H2) as H.
      destruct (run_function P reenter self kf s2) as [key s3|e s3|ab s3]; cbn [nres_ok] in H; try exact H.
      specialize (IH s3 H).
      destruct (sort_keys P reenter self kf rest s3); exact IH.
    Qed.

    Lemma native_sorted_ok it kf s0 : vm_ok s0 -> nres_ok (native_sorted F P reenter self it kf s0).
    Proof.
      intros Hs0. unfold native_sorted. destruct it; try exact Hs0.
      destruct (hget (st_heap s0) a) as [[t| | | | |]|]; try exact Hs0; try exact I.
      destruct (snapshot F s0 t) as [[s entries]|] eqn:Esn; [|exact I].
      assert (Hs : vm_ok s) by (eapply snapshot_ok; eauto).
      clear Esn.
      destruct (titer _ entries) as [l|]; [|exact I].
      pose proof (sort_keys_ok kf l s Hs) as Hk.
      destruct (sort_keys P reenter self kf l s) as [keyed s1|r]; [|exact Hk].
      destruct (stable_sort _ _ _ _); [|exact I].
      destruct (salloc s1 _) as [s2 out] eqn:E2.
      pose proof (salloc_hget _ _ _ _ E2) as Hout.
      destruct (insert_all _ _ _); [|exact I]. cbn [nres_ok].
      eapply set_table_ok; [exact Hout|]. ok_close.
    Qed.
  End StdOk.

  Lemma native_body_ok (self : N -> state -> nres) :
    (forall h s, vm_ok s -> nres_ok (self h s)) ->
    forall n s, vm_ok s -> nres_ok (native_body F P reenter self n s).
  Proof.
    intros Hself n s Hs.
    pose proof (run_function_ok self Hself) as Hrf.
    destruct n; cbn [native_body]; cbv zeta.
    - (* log1 *) ok_close.
    - (* sub2 *) destruct (to_i64 _ _ _); [|exact I]. destruct (to_i64 _ _ _); ok_close.
    - exact Hs.
    - (* str1 *) destruct (as_str _ _); ok_close.
    - (* mix3 *) destruct (to_i64 _ _ _); [|exact I]. destruct (to_f64 _ _ _); ok_close.
    - (* call1 *)
      destruct (spush s _) as [s1|] eqn:E1; [|exact Hs].
      assert (H1 : vm_ok s1) by ok_close.
      apply Hrf. exact H1.
    - (* try1 *)
      destruct (spush s _) as [s1|] eqn:E1; [|exact Hs].
      assert (H1 : vm_ok s1) by ok_close.
      pose proof (Hrf (speek s 1) s1 H1) as H. destruct (run_function _ _ _ _ s1); ok_close.
    - (* call0 *) apply Hrf. exact Hs.
    - (* t4 *) destruct (as_str _ _); try ok_close.
      destruct (as_bool _ _ _); [|exact I]. destruct (to_f64 _ _ _); [|exact I]. destruct (to_i64 _ _ _); ok_close.
    - (* nil1 *) destruct (speek s 0); try ok_close; destruct (to_i64 _ _ _); ok_close.
    - (* tab1 *) destruct (get_table _ _); ok_close.
    - (* cat2 *) destruct (as_str _ _); try ok_close. destruct (as_str _ _); ok_close.
    - (* rb1 *)
      destruct (spush s _) as [s1|] eqn:E1; [|exact Hs].
      assert (H1 : vm_ok s1) by ok_close.
      pose proof (Hrf (speek s 1) s1 H1) as H. destruct (run_function _ _ _ _ s1); ok_close.
    - apply native_minmax_ok; [exact Hrf|exact Hs].
    - apply native_minmax_ok; [exact Hrf|exact Hs].
    - apply native_sorted_ok; [exact Hrf|exact Hs].
    - (* to_array *)
      destruct (speek s 0); try exact Hs.
      destruct (hget _ _) as [[]|]; try exact Hs; try exact I.
      destruct (salloc s _) as [s2 out] eqn:E2.
      pose proof (salloc_hget _ _ _ _ E2) as Hout.
      destruct (titer _ _); [|exact I].
      destruct (to_array_go _ _ _ _); [|exact I]. cbn [nres_ok].
      apply (set_table_ok s2 out _ t0 Hout). ok_close.
  Qed.

  Lemma call_native_fuel_ok fuel : forall h s, vm_ok s -> nres_ok (call_native_fuel F P reenter fuel h s).
  Proof.
    induction fuel as [|f IH]; intros h s Hs; cbn [call_native_fuel]; [exact I|].
    destruct (find_native h all_natives) as [n|]; [|exact Hs].
    pose proof (native_body_ok _ IH n s Hs) as H.
    destruct (native_body _ _ _ _ n s) as [v s1|e s1|ab s1]; cbn [nres_ok] in H.
    - cbv zeta. assert (H' : vm_ok (spop_n s1 (native_arity n))) by ok_close.
      destruct (spush _ v) eqn:E; ok_close.
    - ok_close.
    - exact I.
  Qed.

  Lemma native_step_ok h ip s : vm_ok s -> sres_ok (native_step F P reenter h ip s).
  Proof.
    intros Hs. unfold native_step, call_native. pose proof (call_native_fuel_ok 8 h s Hs) as H.
    destruct (call_native_fuel _ _ _ _ h s); exact H.
  Qed.

  Lemma i_4_ok : forall opc ip0 ip s, vm_ok s -> sres_ok (i_4 F P reenter opc ip0 ip s).
  Proof.
    intros opc ip0 ip s Hs. unfold i_4. destruct (op_u32 P ip); [|exact I]. apply native_step_ok. exact Hs.
  Qed.

  Lemma i_11_ok : forall opc ip0 ip s, vm_ok s -> sres_ok (i_11 F P reenter opc ip0 ip s).
  Proof.
    intros opc ip0 ip s Hs; unfold i_11; cbv zeta.
    destruct (spop s) as [s1 fv] eqn:E1.
    assert (H1 : vm_ok s1) by ok_close.
    destruct fv as [|z|r|a]; try exact H1.
    destruct (hget (st_heap s1) a) as [o|]; [|exact I].
    assert (Hgo : forall arity label clo,
      sres_ok
        match st_calls s1 with
        | [] => SStop APanic s1
        | top :: rest =>
            let s2 := set_calls s1 (mkFrame (fr_src top) ip (fr_off top) (fr_clo top) :: rest) in
            let len := N.of_nat (scount s2) in
            if (len <? arity)%N then SErr EMissingArgument ip s2
            else
              match push_frame s2 (mkFrame ip0 ip (len - arity) clo) with
              | None => SErr ECallStackOverflow ip s2
              | Some s3 =>
                  match assoc label (p_labels P) with
                  | None => SErr (EProcedureNotFound label) ip s3
                  | Some pos => SNext pos s3
                  end
              end
        end).
    { intros arity label clo.
      destruct (st_calls s1) as [|top rest] eqn:Ec; [exact I|].
      cbv zeta.
      assert (H2 : vm_ok (set_calls s1 (mkFrame (fr_src top) ip (fr_off top) (fr_clo top) :: rest))).
      { apply vm_ok_set_calls; [exact H1|]. destruct H1 as (_ & _ & Hf). rewrite Ec in Hf.
        inversion Hf; subst. constructor; assumption. }
      destruct (_ <? _)%N; [exact H2|].
      destruct (push_frame _ _) as [s3|] eqn:E3; [|exact H2].
      assert (H3 : vm_ok s3).
      { eapply push_frame_vm_ok; [exact E3|exact H2|]. cbn [fr_off]. apply (off_lt_cap _ arity H2). }
      destruct (assoc label (p_labels P)); exact H3. }
    destruct o; try apply Hgo; try exact H1.
    apply native_step_ok. exact H1.
  Qed.

  (* ---- RegisterUpvalue ---- *)
  Lemma vm_ok_list s l : vm_ok s -> open_list s l -> hopen_ok (st_heap s) (st_open s) (cap s) l.
  Proof.
    intros ((l0 & H0) & _) Hl. destruct H0 as (S0 & R). rewrite (seg_det _ _ _ _ Hl S0). split; assumption.
  Qed.

  Lemma head_of_le loc a l2 :
    desc (slots l2) -> Forall (fun x => snd x <= loc) l2 -> In (a, loc) l2 -> exists r, l2 = (a, loc) :: r.
  Proof.
    intros D Fl Hin. destruct l2 as [|[a2 k2] r]; [destruct Hin|].
    destruct Hin as [E|Hin]; [injection E as -> ->; eauto|].
    exfalso. cbn in D. apply desc_cons_inv in D. destruct D as [_ Hlt]. rewrite Forall_forall in Hlt.
    assert (loc < k2) by (apply Hlt; apply (in_map snd) in Hin; exact Hin).
    inversion Fl; subst. cbn in *. lia.
  Qed.

  Definition same_slot (h : heap) (cur : option N) (loc : nat) : bool :=
    match cur with
    | Some a =>
        match hget h a with
        | Some (OUp u) => match u_loc u with Some l => l =? loc | None => false end
        | _ => false
        end
    | None => false
    end.

  Lemma i_45_local_spec opc ip0 ip s index is_local s1 ca ch car cups off l loc :
    read_le (p_code P) ip 1 = Some index -> read_le (p_code P) (ip + 1) 1 = Some is_local ->
    is_local <> 0%N ->
    spop s = (s1, VObj ca) -> hget (st_heap s1) ca = Some (OClo ch car cups) ->
    top_offset s1 = Some off -> loc = off + N.to_nat index -> loc < scount s1 ->
    vm_ok s1 -> open_list s1 l ->
    (forall a, In (a, loc) l ->
       i_45 P opc ip0 ip s = SNext (ip + 2) (set_heap s1 (hset (st_heap s1) ca (OClo ch car (cups ++ [a]))))) /\
    (~ In loc (slots l) ->
       let ua := N.of_nat (length (st_heap s1)) in
       exists s', i_45 P opc ip0 ip s = SNext (ip + 2) s' /\ vm_ok s' /\
         open_list s' (ins_desc ua loc l) /\
         hget (st_heap s') ca = Some (OClo ch car (cups ++ [ua])) /\
         (exists nx, hget (st_heap s') ua = Some (OUp (mkUp (Some loc) VNil nx))) /\
         st_stack s' = st_stack s1 /\ st_calls s' = st_calls s1 /\ st_globals s' = st_globals s1 /\
         (forall x, oview (hget (st_heap s1) x) = None -> x <> ua -> x <> ca ->
                    hget (st_heap s') x = hget (st_heap s1) x) /\
         heap_mono (st_heap s1) (st_heap s')).
  Proof.
    intros Ei Eil Hnz Ep Hca Eo -> Hlt H1 Hl.
    pose proof (vm_ok_list _ _ H1 Hl) as Hh. pose proof Hh as (Hseg & D & Hb & Hc).
    assert (Hfuel : length l < S (length (st_heap s1))).
    { pose proof (seg_length _ _ _ _ Hseg D). lia. }
    destruct (walk_open_spec (st_heap s1) (off + N.to_nat index) l _ None (st_open s1) Hseg D Hfuel)
      as (l1 & l2 & cur' & Ew & El12 & S1 & S2 & F1 & F2).
    assert (D2 : desc (slots l2)).
    { subst l. unfold slots in D. rewrite map_app in D. apply desc_app_inv in D. apply D. }
    assert (Hpre : i_45 P opc ip0 ip s =
      if same_slot (st_heap s1) cur' (off + N.to_nat index) then
        match cur' with
        | Some a => SNext (ip + 2) (set_heap s1 (hset (st_heap s1) ca (OClo ch car (cups ++ [a]))))
        | None => SStop AUB s1
        end
      else
        let '(s2, ua) := salloc s1 (OUp (mkUp (Some (off + N.to_nat index)) VNil cur')) in
        let s3 := link_new s2 (prev_of l1 None) ua in
        SNext (ip + 2) (set_heap s3 (hset (st_heap s3) ca (OClo ch car (cups ++ [ua]))))).
    { unfold i_45. rewrite Ei, Eil. cbv zeta. rewrite Ep, Hca.
      destruct (N.eqb_spec is_local 0); [contradiction|]. cbn [negb]. rewrite Eo.
      destruct (Nat.leb_spec (scount s1) (off + N.to_nat index)); [lia|].
      rewrite Ew. reflexivity. }
    split.
    - intros a Hin. rewrite Hpre.
      assert (Hin2 : In (a, off + N.to_nat index) l2).
      { subst l. apply in_app_or in Hin. destruct Hin as [Hin|Hin]; [|exact Hin].
        rewrite Forall_forall in F1. specialize (F1 _ Hin). cbn in F1. lia. }
      destruct (head_of_le _ _ _ D2 F2 Hin2) as (r & ->).
      inversion S2 as [|a' loc' nx l0 e' Hv Hs0]; subst.
      destruct (oview_some _ _ _ Hv) as (v & Hg).
      unfold same_slot. rewrite Hg. cbn [u_loc]. rewrite Nat.eqb_refl. reflexivity.
    - intros Hnin ua.
      assert (F2' : Forall (fun x => snd x < off + N.to_nat index) l2).
      { rewrite Forall_forall in *. intros x Hx. specialize (F2 _ Hx).
        assert (snd x <> off + N.to_nat index); [|lia].
        intros E. apply Hnin. rewrite <- E. subst l. unfold slots. rewrite map_app. apply in_or_app. right.
        apply in_map. exact Hx. }
      assert (Hsame : same_slot (st_heap s1) cur' (off + N.to_nat index) = false).
      { unfold same_slot. destruct l2 as [|[a2 k2] r].
        - apply seg_head_nil in S2. subst cur'. reflexivity.
        - inversion S2 as [|a' loc' nx l0 e' Hv Hs0]; subst.
          destruct (oview_some _ _ _ Hv) as (v & Hg). rewrite Hg. cbn [u_loc].
          inversion F2'; subst. cbn in *. apply Nat.eqb_neq. lia. }
      rewrite Hpre, Hsame.
      destruct (salloc s1 _) as [s2 ua'] eqn:Ea. cbv zeta.
      assert (Hcap : off + N.to_nat index < cap s1).
      { destruct H1 as (_ & Hcnt & _). unfold scount in Hlt. lia. }
      subst l.
      destruct (link_new_spec s1 (cap s1) l1 l2 cur' (off + N.to_nat index) s2 ua' Hh S1 S2 F1 F2' Hcap Ea)
        as (Eua & Hh3 & A1 & A2 & A3 & A4 & A5 & A6 & A7 & A8 & A9).
      set (s3 := link_new s2 (prev_of l1 None) ua') in *.
      assert (Hne : ca <> ua').
      { intros E. apply hget_lt in Hca. rewrite E, Eua, Nat2N.id in Hca. lia. }
      assert (Hca3 : hget (st_heap s3) ca = Some (OClo ch car cups)).
      { rewrite A9; [exact Hca|rewrite Hca; reflexivity|exact Hne]. }
      assert (H3 : vm_ok s3).
      { unfold vm_ok, open_ok, cap in *. rewrite A1, A2. split; [eexists; exact Hh3|]. split; apply H1. }
      assert (K : keep s3 (set_heap s3 (hset (st_heap s3) ca (OClo ch car (cups ++ [ua']))))).
      { apply clo_append_keep; [exact Hca3|intros _; eexists; exact A8]. }
      eexists. split; [reflexivity|]. split; [eapply keep_vm_ok; eauto|].
      split.
      { eapply keep_open_list; [exact K|]. unfold ua. rewrite <- Eua.
        rewrite (ins_desc_split _ _ _ _ F1 F2). apply Hh3. }
      cbn [st_heap st_stack st_calls st_globals set_heap].
      split; [unfold ua; rewrite <- Eua; apply hget_hset_eq; eapply hget_lt; exact Hca3|].
      split.
      { exists cur'. unfold ua. rewrite <- Eua. rewrite hget_hset_ne; [exact A8|]. intros E. apply Hne. symmetry. exact E. }
      repeat (split; [assumption|]).
      split.
      { intros x Hx Hxa Hxc. rewrite hget_hset_ne by exact Hxc. apply A9; [exact Hx|]. rewrite Eua. exact Hxa. }
      eapply heap_mono_trans; [exact (link_new_mono _ _ _ _ (prev_of l1 None) Ea)|]. apply K.
  Qed.

  Lemma i_45_ok : forall opc ip0 ip s, vm_ok s -> sres_ok (i_45 P opc ip0 ip s).
  Proof.
    intros opc ip0 ip s Hs.
    destruct (read_le (p_code P) ip 1) as [index|] eqn:Ei; [|unfold i_45; rewrite Ei; exact I].
    destruct (read_le (p_code P) (ip + 1) 1) as [is_local|] eqn:Eil; [|unfold i_45; rewrite Ei, Eil; exact I].
    destruct (spop s) as [s1 cv] eqn:E1.
    assert (H1 : vm_ok s1) by (eapply keep_vm_ok; [eapply spop_keep; exact E1|exact Hs]).
    destruct cv as [|z|r|ca]; try (unfold i_45; rewrite Ei, Eil; cbv zeta; rewrite E1; exact H1).
    destruct (hget (st_heap s1) ca) as [[t|b|h ar|h|ch car cups|u]|] eqn:Eca;
      try (unfold i_45; rewrite Ei, Eil; cbv zeta; rewrite E1, Eca; first [exact H1|exact I]).
    destruct (N.eqb_spec is_local 0) as [Ez|Hnz].
    - (* the upvalue of the enclosing closure is passed on *)
      unfold i_45. rewrite Ei, Eil. cbv zeta. rewrite E1, Eca. subst is_local. cbn [N.eqb negb].
      destruct (st_calls s1) as [|fr rest]; [exact I|].
      destruct (fr_clo fr) as [fa|]; [|exact I].
      destruct (hget (st_heap s1) fa) as [[t|b|h ar|h|h ar fups|u]|] eqn:Efa; try exact I.
      destruct (nth_error fups _) as [ua|] eqn:Enth; [|exact I]. cbn [sres_ok].
      apply (keep_vm_ok s1); [|exact H1]. apply clo_append_keep; [exact Eca|].
      intros Hok. eapply Hok; [exact Efa|eapply nth_error_In; exact Enth].
    - destruct (top_offset s1) as [off|] eqn:Eo.
      2:{ unfold i_45. rewrite Ei, Eil. cbv zeta. rewrite E1, Eca.
          destruct (N.eqb_spec is_local 0); [contradiction|]. cbn [negb]. rewrite Eo. exact I. }
      destruct (Nat.leb_spec (scount s1) (off + N.to_nat index)) as [Lc|Lc].
      { unfold i_45. rewrite Ei, Eil. cbv zeta. rewrite E1, Eca.
        destruct (N.eqb_spec is_local 0); [contradiction|]. cbn [negb]. rewrite Eo.
        destruct (Nat.leb_spec (scount s1) (off + N.to_nat index)); [exact H1|lia]. }
      pose proof H1 as ((l & Hl) & _). destruct Hl as (Hseg & _).
      destruct (i_45_local_spec opc ip0 ip s index is_local s1 ca ch car cups off l _
                  Ei Eil Hnz E1 Eca Eo eq_refl Lc H1 Hseg) as [Hex Hnew].
      destruct (in_dec Nat.eq_dec (off + N.to_nat index) (slots l)) as [Hin|Hnin].
      + unfold slots in Hin. apply in_map_iff in Hin. destruct Hin as ([a k] & Ek & Hin). cbn in Ek. subst k.
        rewrite (Hex a Hin). cbn [sres_ok].
        apply (keep_vm_ok s1); [|exact H1]. apply clo_append_keep; [exact Eca|].
        intros _. destruct (seg_view _ _ _ _ _ _ Hseg Hin) as (nx & Ev). destruct (oview_some _ _ _ Ev) as (v & Hg).
        eexists. exact Hg.
      + destruct (Hnew Hnin) as (s' & E & H' & _). rewrite E. exact H'.
  Qed.

  (* ---- every instruction ---- *)
  Theorem step_vm_ok : forall ip s, vm_ok s -> sres_ok (step F bld P reenter ip s).
  Proof.
    intros ip0 s Hs. unfold step. cbv zeta.
    destruct (nth (N.to_nat ip0) (p_code P) 255%N) as [|p] eqn:Eop; [apply binary_op_ok; exact Hs|].
    do 6 (try destruct p as [p|p|]).
    all: first
      [ (apply i_11_ok; exact Hs)
      | (apply binary_op_ok; exact Hs)
      | (apply push_next_ok; exact Hs)
      | (apply i_4_ok; exact Hs) | (apply i_5_ok; exact Hs) | (apply i_6_ok; exact Hs) | (apply i_8_ok; exact Hs)
      | (apply i_17_ok; exact Hs) | (apply i_18_ok; exact Hs)
      | (apply i_19_ok; exact Hs) | (apply i_20_ok; exact Hs) | (apply i_21_ok; exact Hs) | (apply i_22_ok; exact Hs)
      | (apply i_23_ok; exact Hs) | (apply i_27_ok; exact Hs) | (apply i_28_ok; exact Hs)
      | (apply i_29_30_ok; exact Hs) | (apply i_31_ok; exact Hs) | (apply i_32_ok; exact Hs) | (apply i_33_ok; exact Hs)
      | (apply i_34_ok; exact Hs) | (apply i_35_ok; exact Hs) | (apply i_36_ok; exact Hs)
      | (apply i_37_42_ok; exact Hs) | (apply i_38_ok; exact Hs) | (apply i_39_ok; exact Hs) | (apply i_40_ok; exact Hs)
      | (apply i_41_ok; exact Hs) | (apply i_43_44_ok; exact Hs)
      | (apply i_45_ok; exact Hs) | (apply i_46_ok; exact Hs)
      | (destruct (spop s) as [s1 v1] eqn:E; cbn [fst]; ok_close)
      | exact Hs
      | exact I ].
  Qed.

  (* the dispatch loop keeps the invariant *)
  Lemma loop_vm_ok : forall fuel ip s, vm_ok s -> rres_ok (loop F bld P reenter fuel ip s).
  Proof.
    induction fuel as [|f IH]; intros ip s Hs; cbn [loop].
    - destruct (code_len P <=? ip)%N; [exact Hs|].
      cbn [st_rem set_rem]. destruct (N.pred (st_rem s) =? 0)%N; [|exact I].
      cbn [rres_ok]. ok_close.
    - destruct (code_len P <=? ip)%N; [exact Hs|].
      cbn [st_rem set_rem]. destruct (N.pred (st_rem s) =? 0)%N; [cbn [rres_ok]; ok_close|].
      assert (Ht : vm_ok (tick (set_rem s (N.pred (st_rem s))))) by ok_close.
      pose proof (step_vm_ok ip _ Ht) as H.
      destruct (step F bld P reenter ip _) as [ip' s'|s'|e ip' s'|a s']; cbn [sres_ok rres_ok] in *; try exact H.
      apply IH. exact H.
  Qed.
End Step.

(* ------------------------------------------------------------------ *)
(* `run`                                                               *)
(* ------------------------------------------------------------------ *)

Lemma run_at_vm_ok F bld P max_instr : forall depth ip s,
  vm_ok s -> rres_ok (run_at F bld P false max_instr depth ip s).
Proof.
  induction depth as [|d IH]; intros ip s Hs; cbn [run_at]; [exact I|].
  unfold run_loop. apply loop_vm_ok; [exact IH|exact Hs].
Qed.

Lemma fresh_state_vm_ok : vm_ok fresh_state.
Proof.
  unfold vm_ok, open_ok, hopen_ok, cap, fresh_state, vs_new.
  cbn [st_heap st_open st_stack st_calls vdata vcount]. rewrite repeat_length. unfold stack_size.
  split; [|split; [lia|constructor]].
  exists []. split; [constructor|]. split; [constructor|]. split; [constructor|].
  intros a Ha. exfalso. apply Ha. unfold hget. destruct (N.to_nat a); reflexivity.
Qed.

(* every state in which a run of the VM ends (normally or with an error) is good *)
Theorem run_vm_ok : forall F bld budget P s o s',
  vm_ok s -> run F bld budget P s = (o, s') -> (forall a, o <> OAbort a) -> vm_ok s'.
Proof.
  intros F bld budget P s o s' Hs Hr Hna. unfold run, run_gen in Hr.
  destruct (push_frame s _) as [s1|] eqn:E1.
  2:{ injection Hr as <- <-. exact Hs. }
  assert (H1 : vm_ok s1).
  { eapply push_frame_vm_ok; [exact E1|exact Hs|]. cbn. destruct Hs as (_ & Hc & _). lia. }
  assert (H2 : vm_ok (set_rem s1 (N.of_nat budget))) by ok_close.
  pose proof (run_at_vm_ok F bld P (N.of_nat budget) max_depth 0 _ H2) as H.
  unfold finish, outcome_of in Hr.
  destruct (run_at F bld P false (N.of_nat budget) max_depth 0 _) as [x|e ip x|a x]; cbn [rres_ok] in H.
  - injection Hr as <- <-. apply vm_ok_set_calls; [exact H|constructor].
  - injection Hr as <- <-. apply vm_ok_set_calls; [exact H|constructor].
  - injection Hr as <- <-. exfalso. eapply Hna. reflexivity.
Qed.
