(* C06, VM half: every instruction keeps [vm_ok] (VmUpvalueProofs.v). *)
From Coq Require Import NArith ZArith List Lia Bool Sorted.
From Cao Require Import ListUtil Bits Stacks Vm VmUpvalueProofs.
Import ListNotations.



(* ------------------------------------------------------------------ *)
(* 6. instructions that do not touch the upvalue objects               *)
(* ------------------------------------------------------------------ *)

Section Step.
  Variable F : fops.
  Variable bld : build.
  Variable P : program.
  Variable reenter : N -> state -> rres.
  Hypothesis reenter_ok : forall ip s, vm_ok s -> rres_ok (reenter ip s).

  Lemma push_next_ok ip s v : vm_ok s -> sres_ok (push_next ip s v).
  Proof. unfold push_next. intros H. destruct (spush s v) eqn:E; ok_close. Qed.

  Lemma of_vres_ok ip s r : vm_ok s -> sres_ok (of_vres ip s r).
  Proof. intros H. destruct r; cbn [of_vres]; try apply push_next_ok; ok_close. Qed.

  Lemma binary_op_ok ip s op : vm_ok s -> sres_ok (binary_op ip s op).
  Proof.
    intros H. unfold binary_op. destruct (spop s) as [s1 b] eqn:E1. destruct (spop s1) as [s2 a] eqn:E2.
    apply of_vres_ok. ok_close.
  Qed.

  Ltac step_tac :=
    repeat match goal with
           | |- sres_ok (binary_op _ _ _) => apply binary_op_ok
           | |- sres_ok (push_next _ _ _) => apply push_next_ok
           | |- sres_ok (match ?x with _ => _ end) => destruct x eqn:?
           end;
    try ok_close.

  Ltac instr d := intros opc ip0 ip s Hs; unfold d; cbv zeta; step_tac.

  Lemma i_5_ok : forall opc ip0 ip s, vm_ok s -> sres_ok (i_5 P opc ip0 ip s). Proof. instr i_5. Qed.
  Lemma i_6_ok : forall opc ip0 ip s, vm_ok s -> sres_ok (i_6 P opc ip0 ip s). Proof. instr i_6. Qed.
  Lemma i_8_ok : forall opc ip0 ip s, vm_ok s -> sres_ok (i_8 P opc ip0 ip s). Proof. instr i_8. Qed.
  Lemma i_17_ok : forall opc ip0 ip s, vm_ok s -> sres_ok (i_17 P opc ip0 ip s). Proof. instr i_17. Qed.
  Lemma i_18_ok : forall opc ip0 ip s, vm_ok s -> sres_ok (i_18 P opc ip0 ip s). Proof. instr i_18. Qed.
  Lemma i_19_ok : forall opc ip0 ip s, vm_ok s -> sres_ok (i_19 P opc ip0 ip s). Proof. instr i_19. Qed.
  Lemma i_20_ok : forall opc ip0 ip s, vm_ok s -> sres_ok (i_20 P opc ip0 ip s). Proof. instr i_20. Qed.
  Lemma i_23_ok : forall opc ip0 ip s, vm_ok s -> sres_ok (i_23 opc ip0 ip s). Proof. instr i_23. Qed.
  Lemma i_27_ok : forall opc ip0 ip s, vm_ok s -> sres_ok (i_27 F opc ip0 ip s). Proof. instr i_27. Qed.
  Lemma i_28_ok : forall opc ip0 ip s, vm_ok s -> sres_ok (i_28 bld P opc ip0 ip s). Proof. instr i_28. Qed.
  Lemma i_29_30_ok : forall opc ip0 ip s, vm_ok s -> sres_ok (i_29_30 F bld P opc ip0 ip s). Proof. instr i_29_30. Qed.
  Lemma i_31_ok : forall opc ip0 ip s, vm_ok s -> sres_ok (i_31 opc ip0 ip s). Proof. instr i_31. Qed.
  Lemma i_32_ok : forall opc ip0 ip s, vm_ok s -> sres_ok (i_32 F opc ip0 ip s). Proof. instr i_32. Qed.
  Lemma i_34_ok : forall opc ip0 ip s, vm_ok s -> sres_ok (i_34 opc ip0 ip s). Proof. instr i_34. Qed.
  Lemma i_35_ok : forall opc ip0 ip s, vm_ok s -> sres_ok (i_35 P opc ip0 ip s). Proof. instr i_35. Qed.
  Lemma i_36_ok : forall opc ip0 ip s, vm_ok s -> sres_ok (i_36 F bld P opc ip0 ip s). Proof. instr i_36. Qed.
  Lemma i_37_42_ok : forall opc ip0 ip s, vm_ok s -> sres_ok (i_37_42 P opc ip0 ip s).
  Proof.
    intros opc ip0 ip s Hs; unfold i_37_42; cbv zeta.
    destruct (op_u32 P ip); [|ok_close]. destruct (op_u32 P (ip + 4)); [|ok_close].
    destruct (salloc s _) as [s1 a] eqn:E. apply push_next_ok.
    apply salloc_keep in E; [ok_close|destruct (opc =? 37)%N; reflexivity].
  Qed.
  Lemma i_38_ok : forall opc ip0 ip s, vm_ok s -> sres_ok (i_38 P opc ip0 ip s). Proof. instr i_38. Qed.
End Step.
