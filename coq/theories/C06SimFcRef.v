(* C06, refinement through the compiler, fragment FC: the reference half, part 1 - expressions.
   An expression of FC evaluated by RefSem in ANY environment [en] (main's, or the one of a running closure body) gives
   the value the direct evaluator [ev] computes on the store (R ++ g), provided the environment and the cell store
   represent R name by name ([vars_ok]); it changes nothing but the step counter. *)
From Coq Require Import List NArith ZArith Bool Lia.
From Cao Require Import CheckUtil Bits CardAst Table TableProofs StdlibGen RefSem
     C01SimDefs C01SimRef C01SimDefs2 C01SimRef2 C01SimDefs4 C01SimDefs5 C01SimRef5 C06SimFcDefs.
Import ListNotations.

Section Eval.
Variable P : list fentry.
Variable host : list str.
Variable limit : N.
Variable fi : nat.
Notation evalf := (eval P host limit).

Definition same_mem (s s' : state) : Prop :=
  st_cells s' = st_cells s /\ st_heap s' = st_heap s /\ st_clos s' = st_clos s /\ st_globals s' = st_globals s.
Lemma same_mem_refl s : same_mem s s.
Proof. repeat split. Qed.
Lemma same_mem_bump s : same_mem s (bump s).
Proof. repeat split. Qed.
Lemma same_mem_trans a b c : same_mem a b -> same_mem b c -> same_mem a c.
Proof. unfold same_mem. intros (A1 & A2 & A3 & A4) (B1 & B2 & B3 & B4). repeat split; congruence. Qed.

(* [en] and the cells of [s] represent the store R for every name outside Lc; the globals are g; no tables *)
Definition vars_ok (en : env) (s : state) (R : lstore) (g : gl) (Lc : list str) : Prop :=
  st_heap s = [] /\ st_globals s = g /\ simples (R ++ g) /\
  forall n, smem n Lc = false ->
    match assoc n R with
    | Some v => exists c, lookup_var en n = Some c /\ nth_error (st_cells s) c = Some v
    | None => lookup_var en n = None
    end.
Lemma vars_ok_same en s s' R g Lc : same_mem s s' -> vars_ok en s R g Lc -> vars_ok en s' R g Lc.
Proof.
  intros (A1 & A2 & A3 & A4) (H1 & H2 & H3 & H4). unfold vars_ok. rewrite A1, A2, A4. auto.
Qed.

Definition expr_resC (r : res) (en : env) (s : state) (R : lstore) (g : gl) (e : card) : Prop :=
  r = RFuel \/
  (exists v s', r = ok [v] en s' /\ ev (R ++ g) e = Some v /\ same_mem s s') \/
  (exists s', r = err EVarNotFound en s' /\ ev (R ++ g) e = None /\ same_mem s s').
Definition args_resC (r : res) (en : env) (s : state) (R : lstore) (g : gl) (es : list card) : Prop :=
  r = RFuel \/
  (exists vs s', r = ok vs en s' /\ evs (R ++ g) es = Some vs /\ same_mem s s') \/
  (exists s', r = err EVarNotFound en s' /\ evs (R ++ g) es = None /\ same_mem s s').
Definition expr_goodC (Lc : list str) (e : card) : Prop :=
  forall fuel en s R g, vars_ok en s R g Lc -> expr_resC (evalf fuel (TkCard fi en e) s) en s R g e.

Lemma eval_argsC Lc es : Forall (expr_goodC Lc) es -> forall fuel en s R g, vars_ok en s R g Lc ->
  args_resC (evalf fuel (TkArgs false fi en es) s) en s R g es.
Proof.
  induction 1 as [|e r He _ IH]; intros fuel en s R g Hs.
  - destruct fuel as [|f]; [left; reflexivity|]. cbn [eval]. unfold F.
    destruct (limit <? st_steps s)%N; [left; reflexivity|]. right; left.
    exists [], (bump s). split; [reflexivity|]. split; [reflexivity | apply same_mem_bump].
  - destruct fuel as [|f]; [left; reflexivity|]. cbn [eval]. unfold F.
    destruct (limit <? st_steps s)%N; [left; reflexivity|].
    pose proof (vars_ok_same _ _ _ _ _ _ (same_mem_bump s) Hs) as Hb.
    pose proof (He f en (bump s) R g Hb) as [E|[(v & s1 & E & Hv & Hs1)|(s1 & E & Hv & Hs1)]];
      rewrite E; cbn [bnd ok err].
    + left; reflexivity.
    + pose proof (IH f en s1 R g (vars_ok_same _ _ _ _ _ _ Hs1 Hb)) as [E2|[(vs & s2 & E2 & Hvs & Hs2)|(s2 & E2 & Hvs & Hs2)]];
        rewrite E2; cbn [bnd ok err].
      * left; reflexivity.
      * right; left. exists (v :: vs), s2. cbn [evs]. rewrite Hv, Hvs. split; [reflexivity|]. split; [reflexivity|].
        eapply same_mem_trans; [apply same_mem_bump|]. eapply same_mem_trans; eassumption.
      * right; right. exists s2. cbn [evs]. rewrite Hv, Hvs. split; [reflexivity|]. split; [reflexivity|].
        eapply same_mem_trans; [apply same_mem_bump|]. eapply same_mem_trans; eassumption.
    + right; right. exists s1. cbn [evs]. rewrite Hv. split; [reflexivity|]. split; [reflexivity|].
      eapply same_mem_trans; [apply same_mem_bump | eassumption].
Qed.

Definition names_ok (Lc : list str) (e : card) : bool := forallb (fun n => negb (smem n Lc)) (expr_names_fc e).

Lemma expr_fc_goodC Lc e : expr_f1 e = true -> names_ok Lc e = true -> expr_goodC Lc e.
Proof.
  unfold names_ok.
  induction e; intros He Hn; cbn [expr_f1] in He; try discriminate He; intros fuel en s R g Hs;
    (destruct fuel as [|f]; [left; reflexivity|]); cbn [eval]; unfold F;
    (destruct (limit <? st_steps s)%N; [left; reflexivity|]);
    pose proof (vars_ok_same _ _ _ _ _ _ (same_mem_bump s) Hs) as Hb; cbn [F].
  - (* CBin *)
    apply andb_true_iff in He. destruct He as [He He2]. apply andb_true_iff in He. destruct He as [Hop He1].
    cbn [expr_names_fc] in Hn. rewrite forallb_app in Hn. apply andb_true_iff in Hn. destruct Hn as [Hn1 Hn2].
    rewrite eval_card_binop5 by exact Hop.
    assert (Hgood : Forall (expr_goodC Lc) [e1; e2]) by (apply Forall_cons; [auto | apply Forall_cons; [auto | apply Forall_nil]]).
    pose proof (eval_argsC _ _ Hgood f en (bump s) R g Hb) as [E|[(vs & s1 & E & Hv & Hs1)|(s1 & E & Hv & Hs1)]];
      rewrite E; cbn [bnd ok err evs] in *.
    + left; reflexivity.
    + destruct (ev (R ++ g) e1) as [x|] eqn:E1; [|discriminate].
      destruct (ev (R ++ g) e2) as [y|] eqn:E2; [|discriminate]. injection Hv as <-.
      cbn [two]. destruct Hb as (Hh & Hg & Hsim & Hc). destruct Hs1 as (S1 & S2 & S3 & S4).
      rewrite binop_value_simple; auto; [| congruence |eapply ev_simple; eauto|eapply ev_simple; eauto].
      right; left. exists (binval op x y), s1. cbn [ev]. rewrite E1, E2. repeat split; auto.
    + right; right. exists s1. cbn [ev]. split; [reflexivity|]. split.
      * destruct (ev (R ++ g) e1) as [x|]; [|auto]. destruct (ev (R ++ g) e2) as [y|]; [discriminate|auto].
      * eapply same_mem_trans; [apply same_mem_bump | eassumption].
  - (* CUn *)
    destruct op; try discriminate He. cbn [eval_card]. cbn [expr_names_fc] in Hn.
    assert (Hgood : Forall (expr_goodC Lc) [e]) by (apply Forall_cons; [auto | apply Forall_nil]).
    pose proof (eval_argsC _ _ Hgood f en (bump s) R g Hb) as [E|[(vs & s1 & E & Hv & Hs1)|(s1 & E & Hv & Hs1)]];
      rewrite E; cbn [bnd ok err evs] in *.
    + left; reflexivity.
    + destruct (ev (R ++ g) e) as [x|] eqn:E1; [|discriminate]. injection Hv as <-. cbn [one].
      destruct Hb as (Hh & Hg & Hsim & Hc). pose proof Hs1 as (S1 & S2 & S3 & S4).
      replace (st_heap s1) with (@nil (otable value)) by congruence.
      right; left. eexists _, s1. cbn [ev]. rewrite E1. repeat split; auto.
    + right; right. exists s1. cbn [ev]. split; [reflexivity|]. split.
      * destruct (ev (R ++ g) e); [discriminate|auto].
      * eapply same_mem_trans; [apply same_mem_bump | eassumption].
  - right; left. exists VNil, (bump s). cbn. repeat split; auto.
  - right; left. exists (VInt i), (bump s). cbn. repeat split; auto.
  - (* CReadVar *)
    unfold var_ok in He. apply andb_true_iff in He. destruct He as [Hne Hdot].
    apply negb_true_iff in Hne, Hdot.
    cbn [expr_names_fc forallb] in Hn. rewrite andb_true_r in Hn. apply negb_true_iff in Hn.
    cbn [eval_card]. unfold read_var. rewrite (split_no_dot _ Hdot).
    assert (Hne' : is_empty name = false) by (destruct name; [discriminate Hne | reflexivity]).
    rewrite Hne'.
    unfold expr_resC. cbn [ev]. rewrite assoc_app. destruct Hb as (Hbh & Hbg & Hbs & Hbc).
    specialize (Hbc name Hn).
    destruct (assoc name R) as [v|] eqn:Ea.
    + destruct Hbc as (c & A & B). rewrite A, B. cbn [get_props]. right; left. exists v, (bump s). repeat split; auto.
    + rewrite Hbc. rewrite Hbg.
      destruct (assoc name g) as [x|] eqn:Eg; cbn [get_props].
      * right; left. exists x, (bump s). repeat split; auto.
      * right; right. exists (bump s). repeat split; auto.
Qed.

(* one operand, with the value known to be an integer or nil *)
Lemma eval_condC Lc e : expr_fc Lc e = true -> forall fuel en s R g, vars_ok en s R g Lc ->
  let r := evalf fuel (TkArgs false fi en [e]) s in
  r = RFuel \/
  (exists v s', r = ok [v] en s' /\ ev (R ++ g) e = Some v /\ simple v /\ same_mem s s') \/
  (exists s', r = err EVarNotFound en s' /\ ev (R ++ g) e = None /\ same_mem s s').
Proof.
  intros He fuel en s R g Hs r. unfold expr_fc in He. apply andb_true_iff in He. destruct He as [He Hn].
  assert (Hgood : Forall (expr_goodC Lc) [e]) by (apply Forall_cons; [apply expr_fc_goodC; assumption | apply Forall_nil]).
  pose proof (eval_argsC _ _ Hgood fuel en s R g Hs) as [E|[(vs & s1 & E & Hv & Hs1)|(s1 & E & Hv & Hs1)]].
  - left. exact E.
  - right; left. cbn [evs] in Hv. destruct (ev (R ++ g) e) as [x|] eqn:E1; [|discriminate]. injection Hv as <-.
    exists x, s1. split; [exact E|]. split; [reflexivity|]. split; [|exact Hs1].
    destruct Hs as (_ & _ & Hsim & _). eapply ev_simple; eauto.
  - right; right. cbn [evs] in Hv. exists s1. destruct (ev (R ++ g) e); [discriminate|]. auto.
Qed.
End Eval.
