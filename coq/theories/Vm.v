(* Executable model of the cao-lang virtual machine:
     cao-lang/src/vm.rs (Vm::run, _run, run_function, payload_to_error, clear),
     cao-lang/src/vm/instr_execution.rs, vm/runtime.rs (object constructors, clear; no GC),
     vm/runtime/cao_lang_{object,table,string,function}.rs, value.rs, traits.rs, procedures.rs,
     stdlib.rs (native_minmax, native_sorted, native_to_array).
   Hand transcription of /repo HEAD; tied to the code by the correspondence checks VM / C03 / C17 / C18
   (VmCheck.v, C03Check.v, C17Check.v, C18Check.v; harness/src/vmrun.rs, vmgen.rs, c17.rs). Comments of the form
   "(the pinned tree ..., A-n)" mark behaviour that was different at the pinned commit and was repaired since.

   Conventions (DESIGN.md section 3):
   * The program that is run is the crate's own compile output (bytecode, data, labels, variables, trace keys);
     every instruction decodes its opcode and operands inline at the instruction pointer, as the Rust code does.
   * The heap never frees during a run: an address is an index into [st_heap]. This is the behaviour of the real
     VM exactly when no collection frees a still-reachable object (property C02); the harness gives the VM a
     1 GiB memory limit so that no collection runs. `clear` empties the heap.
   * Floating point is abstract here ([fops]); VmFloat.v instantiates it with Flocq binary64. The theorems of
     VmProofs.v hold for every instance, so they do not depend on Flocq's axioms.
   * A CaoLangTable is the pair (map, keys) as in the code (`insert` of a key that is in the map but not in `keys`
     would let them diverge). The map is an association list; a key matches when the stored key is `==` and
     hashes alike (bit-equal reals); 32-bit FNV collisions of unequal keys are not modelled, nor are table keys
     mutated after insertion.
   * Rust panics are [APanic]; a bad opcode byte (transmute of an invalid discriminant), a dangling address or a
     comparison of a stack pointer with a heap pointer are [AUB]; unbounded native recursion of ==/hash on cyclic
     tables is [ACrash]; exhausted inner fuel is [ADiverge]; [AUnmodelled] is the cut-off of re-entry in the flat
     semantics (run_flat).
   * The natives are a fixed menu that the harness registers under the same names, plus the four stdlib natives. *)
From Coq Require Import NArith ZArith List Lia Bool.
From Cao Require Import ListUtil Bits Stacks.
Import ListNotations.

Set Implicit Arguments.

(* ------------------------------------------------------------------ *)
(* Values, objects, heap                                               *)
(* ------------------------------------------------------------------ *)

Inductive value := VNil | VInt (z : Z) | VReal (bits : N) | VObj (a : N).

Record table := mkTable { tmap : list (value * value); tkeys : list value }.

(* CaoLangUpvalue { location, value, next }: [u_loc = Some i] = open, pointing at value-stack slot i;
   [None] = closed, location points at its own [u_val]. *)
Record upval := mkUp { u_loc : option nat; u_val : value; u_next : option N }.

Inductive obj :=
| OTable (t : table)
| OStr (s : list N)
| OFun (h arity : N)
| ONative (h : N)
| OClo (h arity : N) (ups : list N)
| OUp (u : upval).

Definition heap := list obj.
Definition hget (h : heap) (a : N) : option obj := nth_error h (N.to_nat a).
Definition hset (h : heap) (a : N) (o : obj) : heap := upd h (N.to_nat a) o.
Definition halloc (h : heap) (o : obj) : heap * N := (h ++ [o], N.of_nat (length h)).

(* abstract binary64 on bit patterns *)
Record fops := mkFops {
  f_add : N -> N -> N; f_sub : N -> N -> N; f_mul : N -> N -> N; f_div : N -> N -> N;
  f_cmp : N -> N -> option comparison;     (* None = unordered *)
  f_of_Z : Z -> N;                          (* `as f64`, round to nearest even *)
  f_to_i64 : N -> Z                         (* `as i64`: truncate, saturate, NaN -> 0 *)
}.

Inductive build := Debug | Release.

(* ------------------------------------------------------------------ *)
(* Errors and outcomes                                                 *)
(* ------------------------------------------------------------------ *)

Inductive err :=
| ECallStackOverflow | EUnexpectedEndOfInput | EExitCode | EInvalidInstruction
| EInvalidArgument
| EConversion (param : N)                     (* InvalidArgument "Failed to convert function input #param ..." *)
| EVarNotFound (name : option (list N))      (* None = "Failed to set local variable: ..." *)
| EProcedureNotFound (h : N)
| EUnimplemented | EOutOfMemory | EMissingArgument | ETimeout
| ETaskFailure (name : list N) (inner : err)
| EStackoverflow | EBadReturn | EUnhashable | EAssertionError | EInvalidUpvalue | ENotClosure.

Inductive abort := APanic | AUB | ACrash | ADiverge | AUnmodelled.

(* canonical deep copy of a value *)
Inductive tval :=
| TNil | TInt (z : Z) | TReal (bits : N) | TStr (s : list N)
| TTable (l : list (tval * tval)) | TFun | TDeep.

(* ------------------------------------------------------------------ *)
(* Program                                                             *)
(* ------------------------------------------------------------------ *)

Record program := mkProgram {
  p_code : list N;                      (* bytecode *)
  p_data : list N;                      (* string data *)
  p_labels : list (N * N);              (* handle -> position *)
  p_var_ids : list (N * N);             (* Handle::from_str(name) -> VariableId *)
  p_var_names : list (N * list N);      (* Handle::from_u32(id) -> name *)
  p_trace : list (N * N)                (* bytecode position -> id of the Trace value stored there *)
}.

Fixpoint assoc {B} (k : N) (l : list (N * B)) : option B :=
  match l with
  | [] => None
  | (k', v) :: r => if N.eqb k k' then Some v else assoc k r
  end.

(* ------------------------------------------------------------------ *)
(* Machine state                                                       *)
(* ------------------------------------------------------------------ *)

Record frame := mkFrame { fr_src : N; fr_dst : N; fr_off : N; fr_clo : option N }.

Record state := mkState {
  st_stack : vstack value;          (* ValueStack incl. dead slots (Stacks.v) *)
  st_calls : list frame;            (* BoundedStack<CallFrame>, head = top *)
  st_globals : list (option value); (* Vec<Option<Value>>: None = never assigned (a526e90) *)
  st_heap : heap;
  st_open : option N;               (* head of the open-upvalue list *)
  st_log : list (list tval);        (* host log written by the menu natives (auxiliary data) *)
  st_count : N;                     (* ghost: instructions dispatched so far, all nesting levels *)
  st_rem : N                        (* Vm::remaining_iters: the budget left, shared by nested runs *)
}.

Definition stack_size : nat := 256.
Definition call_stack_size : nat := 256.

Definition fresh_state : state :=
  mkState (vs_new VNil stack_size) [] [] [] None [] 0 0.

Definition set_stack (s : state) (k : vstack value) : state :=
  mkState k (st_calls s) (st_globals s) (st_heap s) (st_open s) (st_log s) (st_count s) (st_rem s).
Definition set_calls (s : state) (c : list frame) : state :=
  mkState (st_stack s) c (st_globals s) (st_heap s) (st_open s) (st_log s) (st_count s) (st_rem s).
Definition set_globals (s : state) (g : list (option value)) : state :=
  mkState (st_stack s) (st_calls s) g (st_heap s) (st_open s) (st_log s) (st_count s) (st_rem s).
Definition set_heap (s : state) (h : heap) : state :=
  mkState (st_stack s) (st_calls s) (st_globals s) h (st_open s) (st_log s) (st_count s) (st_rem s).
Definition set_open (s : state) (o : option N) : state :=
  mkState (st_stack s) (st_calls s) (st_globals s) (st_heap s) o (st_log s) (st_count s) (st_rem s).
Definition set_log (s : state) (l : list (list tval)) : state :=
  mkState (st_stack s) (st_calls s) (st_globals s) (st_heap s) (st_open s) l (st_count s) (st_rem s).
Definition tick (s : state) : state :=
  mkState (st_stack s) (st_calls s) (st_globals s) (st_heap s) (st_open s) (st_log s) (st_count s + 1) (st_rem s).

Definition set_rem (s : state) (r : N) : state :=
  mkState (st_stack s) (st_calls s) (st_globals s) (st_heap s) (st_open s) (st_log s) (st_count s) r.

(* RuntimeData::clear: every object is freed, the value stack is reset (count = 0, slot 0 := nil, the other dead
   slots keep their now dangling contents, which no instruction reads), globals, frames and the open-upvalue
   list are emptied. The host log and the ghost counter are not VM state. *)
Definition clear_state (s : state) : state :=
  mkState (fst (vs_step VNil (st_stack s) (VClear value))) [] [] [] None (st_log s) (st_count s) (st_rem s).

(* value stack through the Stacks.v model *)
Definition spush (s : state) (v : value) : option state :=
  match vs_push (st_stack s) v with
  | (k, OUnit _) => Some (set_stack s k)
  | _ => None
  end.
Definition spop (s : state) : state * value :=
  let '(k, v) := vs_pop VNil (st_stack s) in (set_stack s k, v).
Definition slast (s : state) : value := vs_last VNil (st_stack s).
Definition scount (s : state) : nat := vcount (st_stack s).
Definition sget (s : state) (i : nat) : value :=
  match vs_step VNil (st_stack s) (VGet value i) with (_, OVal v) => v | _ => VNil end.
(* ValueStack::set : Some = Ok *)
Definition sset (s : state) (i : nat) (v : value) : option state :=
  match vs_step VNil (st_stack s) (VSet i v) with
  | (k, OVal _) => Some (set_stack s k)
  | _ => None
  end.
Definition sclear_until (s : state) (h : nat) : state * value :=
  match vs_step VNil (st_stack s) (VClearUntil value h) with
  | (k, OVal v) => (set_stack s k, v)
  | (k, _) => (set_stack s k, VNil)
  end.
Definition spop_w_offset (s : state) (off : nat) : state * value :=
  match vs_step VNil (st_stack s) (VPopOff value off) with
  | (k, OVal v) => (set_stack s k, v)
  | (k, _) => (set_stack s k, VNil)
  end.
(* ValueStack::peek_last(n) *)
Definition speek (s : state) (n : nat) : value :=
  match vs_step VNil (st_stack s) (VPeek value n) with (_, OVal v) => v | _ => VNil end.
(* ValueStack::pop_n::<n>(): the slots keep their contents *)
Definition spop_n (s : state) (n : nat) : state :=
  set_stack s (fst (vs_pop_n VNil (st_stack s) n)).
(* raw slot access through a pointer into the stack array (open upvalues) *)
Definition sraw_get (s : state) (i : nat) : value := nth i (vdata (st_stack s)) VNil.
Definition sraw_set (s : state) (i : nat) (v : value) : state :=
  set_stack s {| vcount := vcount (st_stack s); vdata := upd (vdata (st_stack s)) i v |}.

Definition salloc (s : state) (o : obj) : state * N :=
  let '(h, a) := halloc (st_heap s) o in (set_heap s h, a).

(* ------------------------------------------------------------------ *)
(* Results of one instruction / of a run                               *)
(* ------------------------------------------------------------------ *)

Inductive sres :=
| SNext (ip : N) (s : state)
| SExit (s : state)
| SErr (e : err) (ip : N) (s : state)      (* ip = value of *instr_ptr when the error was raised *)
| SStop (a : abort) (s : state).

(* result of `_run` *)
Inductive rres :=
| ROk (s : state)
| RErr (e : err) (ip : N) (s : state)
| RStop (a : abort) (s : state).

(* result of a native function / of run_function *)
Inductive nres :=
| NOk (v : value) (s : state)
| NErr (e : err) (s : state)
| NStop (a : abort) (s : state).

Section WithFloat.
Variable F : fops.
Variable bld : build.

(* ------------------------------------------------------------------ *)
(* value.rs                                                            *)
(* ------------------------------------------------------------------ *)

Definition i64_min : Z := (-9223372036854775808)%Z.
Definition i64_max : Z := 9223372036854775807%Z.
Definition in_i64 (z : Z) : bool := (i64_min <=? z)%Z && (z <=? i64_max)%Z.
Definition wrap_i64 (z : Z) : Z := u64_to_i64 (i64_to_u64 z).
(* a op b on i64: wrapping_add / wrapping_sub / wrapping_mul in every build profile (the pinned tree
   panicked on overflow in debug builds, finding A-33, repaired by a fix: commit) *)
Definition i64_result (z : Z) : option Z :=
  if in_i64 z then Some z else Some (wrap_i64 z).

Definition obj_len (o : obj) : nat :=
  match o with
  | OTable t => length (tkeys t)
  | OStr s => length s
  | _ => 0
  end.

(* len of the object a value points to; None = dangling *)
Definition vobj_len (h : heap) (a : N) : option Z :=
  match hget h a with Some o => Some (Z.of_nat (obj_len o)) | None => None end.

Definition fzero : N := 0.

(* Value::as_bool *)
Definition as_bool (h : heap) (v : value) : option bool :=
  match v with
  | VNil => Some false
  | VInt i => Some (negb (i =? 0)%Z)
  | VReal r => Some (match f_cmp F r fzero with Some Eq => false | _ => true end)
  | VObj a =>
      match hget h a with
      | Some (OTable t) => Some (negb (length (tkeys t) =? 0))
      | Some (OStr s) => Some (negb (length s =? 0))
      | Some _ => Some true
      | None => None
      end
  end.

(* TryFrom<Value> for f64 / i64 (both total on a well-formed heap) *)
Definition to_f64 (h : heap) (v : value) : option N :=
  match v with
  | VReal r => Some r
  | VInt i => Some (f_of_Z F i)
  | VObj a => match vobj_len h a with Some l => Some (f_of_Z F l) | None => None end
  | VNil => Some fzero
  end.
Definition to_i64 (h : heap) (v : value) : option Z :=
  match v with
  | VInt i => Some i
  | VReal r => Some (f_to_i64 F r)
  | VObj a => vobj_len h a
  | VNil => Some 0%Z
  end.

Definition is_real (v : value) := match v with VReal _ => true | _ => false end.
Definition is_int (v : value) := match v with VInt _ => true | _ => false end.

(* Value::try_cast_match *)
Definition cast_match (h : heap) (a b : value) : option (value * value) :=
  if is_real a || is_real b then
    match to_f64 h a, to_f64 h b with
    | Some x, Some y => Some (VReal x, VReal y)
    | _, _ => None
    end
  else if is_int a || is_int b then
    match to_i64 h a, to_i64 h b with
    | Some x, Some y => Some (VInt x, VInt y)
    | _, _ => None
    end
  else Some (a, b).

Inductive arith := OpAdd | OpSub | OpMul.

(* result of a value-level operator: value, panic (overflow in debug), or UB (dangling) *)
Inductive vres := VOk (v : value) | VPanic | VUb | VCrash.

Definition arith_op (o : arith) (h : heap) (a b : value) : vres :=
  match cast_match h a b with
  | None => VUb
  | Some (VInt x, VInt y) =>
      let r := match o with OpAdd => (x + y)%Z | OpSub => (x - y)%Z | OpMul => (x * y)%Z end in
      match i64_result r with Some z => VOk (VInt z) | None => VPanic end
  | Some (VReal x, VReal y) =>
      VOk (VReal (match o with OpAdd => f_add F x y | OpSub => f_sub F x y | OpMul => f_mul F x y end))
  | Some _ => VOk VNil
  end.

Definition div_op (h : heap) (a b : value) : vres :=
  match cast_match h a b with
  | None => VUb
  | Some (VInt x, VInt y) => VOk (VReal (f_div F (f_of_Z F x) (f_of_Z F y)))
  | Some (VReal x, VReal y) => VOk (VReal (f_div F x y))
  | Some _ => VOk VNil
  end.

(* ------------------------------------------------------------------ *)
(* Equality (PartialEq for Value / CaoLangObject) and the table ops    *)
(* ------------------------------------------------------------------ *)

(* Every function below takes the equality of the level below; [None] = recursion fuel exhausted
   (cyclic table) or dangling address. *)
Definition eqfun := value -> value -> option bool.

(* a stored key matches a probe key: equal hash (bit-equal reals) and == *)
Definition keq (eq : eqfun) (a b : value) : option bool :=
  match a, b with
  | VReal x, VReal y => if N.eqb x y then eq a b else Some false
  | _, _ => eq a b
  end.

(* position of the first matching entry of the map part *)
Fixpoint map_find (eq : eqfun) (k : value) (m : list (value * value)) : option (option (nat * value)) :=
  match m with
  | [] => Some None
  | (k', v) :: r =>
      match keq eq k' k with
      | None => None
      | Some true => Some (Some (0, v))
      | Some false =>
          match map_find eq k r with
          | None => None
          | Some None => Some None
          | Some (Some (i, v')) => Some (Some (S i, v'))
          end
      end
  end.

Definition tget (eq : eqfun) (t : table) (k : value) : option (option value) :=
  match map_find eq k (tmap t) with
  | None => None
  | Some None => Some None
  | Some (Some (_, v)) => Some (Some v)
  end.

Fixpoint remove_nth {A} (i : nat) (l : list A) : list A :=
  match l, i with
  | [], _ => []
  | _ :: r, O => r
  | x :: r, S i' => x :: remove_nth i' r
  end.

(* CaoHashMap::remove on the map part *)
Definition map_remove (eq : eqfun) (m : list (value * value)) (k : value) : option (list (value * value)) :=
  match map_find eq k m with
  | None => None
  | Some None => Some m
  | Some (Some (i, _)) => Some (remove_nth i m)
  end.

(* CaoLangTable::insert *)
Definition tinsert (eq : eqfun) (t : table) (k v : value) : option table :=
  match map_find eq k (tmap t) with
  | None => None
  | Some (Some (i, _)) =>
      (* get_mut found it: the stored key is kept, the value replaced, `keys` untouched *)
      Some (mkTable (upd (tmap t) i (fst (nth i (tmap t) (VNil, VNil)), v)) (tkeys t))
  | Some None => Some (mkTable (tmap t ++ [(k, v)]) (tkeys t ++ [k]))
  end.

(* CaoLangTable::remove: keys.retain(|k| k != key, removing k from the map when dropped) *)
Fixpoint tremove_go (eq : eqfun) (key : value) (ks : list value) (m : list (value * value))
  : option (list value * list (value * value)) :=
  match ks with
  | [] => Some ([], m)
  | k :: r =>
      match eq k key with
      | None => None
      | Some true =>
          match map_remove eq m k with
          | None => None
          | Some m' => tremove_go eq key r m'
          end
      | Some false =>
          match tremove_go eq key r m with
          | None => None
          | Some (ks', m') => Some (k :: ks', m')
          end
      end
  end.
Definition tremove (eq : eqfun) (t : table) (key : value) : option table :=
  match tremove_go eq key (tkeys t) (tmap t) with
  | None => None
  | Some (ks, m) => Some (mkTable m ks)
  end.

(* CaoLangTable::append: first integer key >= len that the MAP does not contain *)
Fixpoint tappend_idx (eq : eqfun) (fuel : nat) (m : list (value * value)) (i : Z) : option (option Z) :=
  match fuel with
  | O => Some None
  | S f =>
      match map_find eq (VInt i) m with
      | None => None
      | Some None => Some (Some i)
      | Some (Some _) => tappend_idx eq f m (i + 1)%Z
      end
  end.
Inductive tres := TOk (t : table) | TFuel | TCrash.
Definition tappend (eq : eqfun) (t : table) (v : value) : tres :=
  match tappend_idx eq (S (length (tmap t))) (tmap t) (Z.of_nat (length (tkeys t))) with
  | None => TCrash
  | Some None => TFuel
  | Some (Some i) => match tinsert eq t (VInt i) v with Some t' => TOk t' | None => TCrash end
  end.

(* CaoLangTable::pop: the last key leaves `keys` and its entry is removed from the map *)
Definition tpop (eq : eqfun) (t : table) : option (table * value) :=
  match rev (tkeys t) with
  | [] => Some (t, VNil)
  | key :: _ =>
      match map_find eq key (tmap t) with
      | None => None
      | Some None => Some (mkTable (tmap t) (removelast (tkeys t)), VNil)
      | Some (Some (i, v)) => Some (mkTable (remove_nth i (tmap t)) (removelast (tkeys t)), v)
      end
  end.

Definition tnth_key (t : table) (i : nat) : value :=
  if length (tkeys t) <=? i then VNil else nth i (tkeys t) VNil.

(* CaoLangTable::iter: keys filtered by presence in the map *)
Fixpoint titer_go (eq : eqfun) (m : list (value * value)) (ks : list value) : option (list (value * value)) :=
  match ks with
  | [] => Some []
  | k :: r =>
      match map_find eq k m, titer_go eq m r with
      | Some (Some (_, v)), Some l => Some ((k, v) :: l)
      | Some None, Some l => Some l
      | _, _ => None
      end
  end.
Definition titer (eq : eqfun) (t : table) : option (list (value * value)) := titer_go eq (tmap t) (tkeys t).

Fixpoint bytes_eqb (a b : list N) : bool :=
  match a, b with
  | [], [] => true
  | x :: a', y :: b' => N.eqb x y && bytes_eqb a' b'
  | _, _ => false
  end.

(* zip-wise comparison of two iterations (stops at the shorter one, as Iterator::zip) *)
Fixpoint pairs_eq (eq : eqfun) (l1 l2 : list (value * value)) : option bool :=
  match l1, l2 with
  | (k1, v1) :: r1, (k2, v2) :: r2 =>
      match eq k1 k2 with
      | None => None
      | Some false => Some false
      | Some true =>
          match eq v1 v2 with
          | None => None
          | Some false => Some false
          | Some true => pairs_eq eq r1 r2
          end
      end
  | _, _ => Some true
  end.

Fixpoint veq (fuel : nat) (h : heap) (a b : value) : option bool :=
  match fuel with
  | O => None
  | S f =>
      match a, b with
      | VNil, VNil => Some true
      | VInt x, VInt y => Some (x =? y)%Z
      | VReal x, VReal y => Some (match f_cmp F x y with Some Eq => true | _ => false end)
      | VObj x, VObj y =>
          match hget h x, hget h y with
          | Some (OTable t1), Some (OTable t2) =>
              if length (tkeys t1) =? length (tkeys t2) then
                match titer (veq f h) t1, titer (veq f h) t2 with
                | Some l1, Some l2 => pairs_eq (veq f h) l1 l2
                | _, _ => None
                end
              else Some false
          | Some (OStr s1), Some (OStr s2) => Some (bytes_eqb s1 s2)
          | Some (OFun h1 a1), Some (OFun h2 a2) => Some (N.eqb h1 h2 && N.eqb a1 a2)
          | Some (ONative h1), Some (ONative h2) => Some (N.eqb h1 h2)
          | Some (OClo _ _ _), Some (OClo _ _ _) | Some (OUp _), Some (OUp _) => Some (N.eqb x y)
          | Some _, Some _ => Some false
          | _, _ => None
          end
      | _, _ => Some false
      end
  end.

Definition eq_fuel : nat := 24.
Definition veq0 (h : heap) : eqfun := veq eq_fuel h.

(* PartialOrd for Value *)
Inductive cres := CSome (c : comparison) | CNone | CCrash.

(* cmp_int_real: an integer against a real by their exact values (d3f91fb; the pinned tree rounded the integer
   to f64 first, A-30) *)
Definition two63 : Z := 9223372036854775808%Z.
Definition cmp_int_real (i : Z) (r : N) : cres :=
  match f_cmp F r r with
  | None => CNone
  | Some _ =>
      match f_cmp F r (f_of_Z F two63) with
      | Some Gt | Some Eq => CSome Lt
      | _ =>
          match f_cmp F r (f_of_Z F (- two63)) with
          | Some Lt => CSome Gt
          | _ =>
              let w := f_to_i64 F r in        (* r.trunc() as i64, exact in this range *)
              match (i ?= w)%Z with
              | Eq =>
                  match f_cmp F r (f_of_Z F w) with   (* sign of r - whole *)
                  | Some Gt => CSome Lt
                  | Some Lt => CSome Gt
                  | _ => CSome Eq
                  end
              | c => CSome c
              end
          end
      end
  end.
Definition cres_rev (c : cres) : cres :=
  match c with CSome Lt => CSome Gt | CSome Gt => CSome Lt | c => c end.

Definition vcmp_cast (h : heap) (a b : value) : cres :=
  match cast_match h a b with
  | None => CCrash
  | Some (VObj x, VObj y) =>
      match veq0 h (VObj x) (VObj y) with
      | None => CCrash
      | Some true => CSome Eq
      | Some false =>
          match vobj_len h x, vobj_len h y with
          | Some lx, Some ly =>
              match (lx ?= ly)%Z with Eq => CNone | c => CSome c end
          | _, _ => CCrash
          end
      end
  | Some (VInt x, VInt y) => CSome (x ?= y)%Z
  | Some (VReal x, VReal y) => match f_cmp F x y with Some c => CSome c | None => CNone end
  | Some _ => CNone
  end.

Definition vcmp (h : heap) (a b : value) : cres :=
  match a, b with
  | VReal _, VReal _ => vcmp_cast h a b
  | VReal r, o => match to_i64 h o with Some i => cres_rev (cmp_int_real i r) | None => CCrash end
  | o, VReal r => match to_i64 h o with Some i => cmp_int_real i r | None => CCrash end
  | _, _ => vcmp_cast h a b
  end.

Definition vbool (b : bool) : value := VInt (if b then 1 else 0)%Z.

(* ------------------------------------------------------------------ *)
(* Deep copy to a canonical tree (OwnedValue-like walker of the harness) *)
(* ------------------------------------------------------------------ *)

Definition nan_bits : N := 9221120237041090560.   (* 0x7FF8000000000000 *)
Definition canon_real (r : N) : N := match f_cmp F r r with None => nan_bits | Some _ => r end.

Definition tree_depth : nat := 12.

Fixpoint to_tree (fuel : nat) (h : heap) (v : value) : tval :=
  match fuel with
  | O => TDeep
  | S f =>
      match v with
      | VNil => TNil
      | VInt i => TInt i
      | VReal r => TReal (canon_real r)
      | VObj a =>
          match hget h a with
          | Some (OTable t) =>
              match titer (veq0 h) t with
              | Some l => TTable (map (fun kv => (to_tree f h (fst kv), to_tree f h (snd kv))) l)
              | None => TDeep
              end
          | Some (OStr s) => TStr s
          | Some _ => TFun
          | None => TDeep
          end
      end
  end.
Definition tree_of (h : heap) (v : value) : tval := to_tree tree_depth h v.

(* ------------------------------------------------------------------ *)
(* Decoding                                                            *)
(* ------------------------------------------------------------------ *)

Variable P : program.

Definition code_len : N := N.of_nat (length (p_code P)).

(* decode_value::<T>: little-endian read of n bytes at ip; None = slice out of range / "Failed to read data" *)
Definition read_le (bytes : list N) (ip : N) (n : nat) : option N :=
  if (ip + N.of_nat n <=? N.of_nat (length bytes))%N
  then Some (le_to_N (firstn n (skipn (N.to_nat ip) bytes)))
  else None.

Inductive strres := StrOk (s : list N) | StrNone | StrPanic.
(* read_str + decode_str on the data section: `decode_str(program.get(p..)?)`, the string carries its own length
   (the pinned tree looked at a window of MAX_STR_LEN = 256 bytes and rejected longer literals, A-23).
   UTF-8 validity of the payload is not modelled (assumed valid). *)
Definition read_str (p : N) (data : list N) : strres :=
  let dl := N.of_nat (length data) in
  if (dl <? p)%N then StrNone
  else
    let avail := (dl - p)%N in
    if (avail <? 4)%N then StrNone
    else
      match read_le data p 4 with
      | None => StrNone
      | Some len =>
          if (avail - 4 <? len)%N then StrNone
          else StrOk (firstn (N.to_nat len) (skipn (N.to_nat p + 4) data))
      end.

(* ------------------------------------------------------------------ *)
(* Frames                                                              *)
(* ------------------------------------------------------------------ *)

Definition push_frame (s : state) (f : frame) : option state :=
  if call_stack_size <=? length (st_calls s) then None else Some (set_calls s (f :: st_calls s)).

Definition top_offset (s : state) : option nat :=
  match st_calls s with f :: _ => Some (N.to_nat (fr_off f)) | [] => None end.

(* ------------------------------------------------------------------ *)
(* Upvalues                                                            *)
(* ------------------------------------------------------------------ *)

Inductive closeres := ClOk (s : state) | ClErr (e : err) (s : state) | ClStop (a : abort) (s : state).

(* _close_upvalues(top): close every open upvalue of the list whose slot is >= top *)
Fixpoint close_upvalues_go (fuel : nat) (top : nat) (s : state) : closeres :=
  match fuel with
  | O => ClStop ADiverge s
  | S f =>
      match st_open s with
      | None => ClOk s
      | Some a =>
          match hget (st_heap s) a with
          | Some (OUp u) =>
              match u_loc u with
              | Some l =>
                  if l <? top then ClOk s
                  else
                    let v := sraw_get s l in
                    let s1 := set_heap s (hset (st_heap s) a (OUp (mkUp None v (u_next u)))) in
                    close_upvalues_go f top (set_open s1 (u_next u))
              | None => ClStop AUB s       (* a closed upvalue in the open list: heap vs. stack pointer order *)
              end
          | Some _ => ClErr EInvalidUpvalue (set_open s None)
          | None => ClStop AUB s
          end
      end
  end.
Definition close_upvalues_from (top : nat) (s : state) : closeres :=
  close_upvalues_go (S (length (st_heap s))) top s.

(* walk of register_upvalue: returns (prev, cur) *)
Inductive walkres := WOk (prev cur : option N) | WStop (a : abort).
Fixpoint walk_open (fuel : nat) (h : heap) (loc : nat) (prev cur : option N) : walkres :=
  match fuel with
  | O => WStop ADiverge
  | S f =>
      match cur with
      | None => WOk prev cur
      | Some a =>
          match hget h a with
          | Some (OUp u) =>
              match u_loc u with
              | Some l => if l <=? loc then WOk prev cur else walk_open f h loc cur (u_next u)
              | None => WStop AUB
              end
          | Some _ => WOk prev cur        (* as_upvalue() = None ends the loop *)
          | None => WStop AUB
          end
      end
  end.

(* ------------------------------------------------------------------ *)
(* Natives                                                             *)
(* ------------------------------------------------------------------ *)

(* The menu registered by the harness (harness/src/vmrun.rs) plus the stdlib natives. *)
Inductive native :=
| NLog1        (* log1(v: Value) -> nil ; logs [v] *)
| NSub2        (* sub2(a: i64, b: i64) -> a - b (wrapping) ; logs [a; b] *)
| NFail0       (* fail0() -> Err(Unimplemented) *)
| NStr1        (* str1(s: &str) -> len(s) ; logs [s] *)
| NMix3        (* mix3(a: f64, b: i64, c: Value) -> nil ; logs [a; b; c] *)
| NCall1       (* call1(f: Value, x: Value) -> push x; run_function(f)?  *)
| NTry1        (* try1(f: Value, x: Value) -> push x; run_function(f), error swallowed -> nil, logs a marker *)
| NCall0       (* call0(f: Value) -> run_function(f)? *)
| NT4          (* t4(a: i64, b: f64, c: bool, d: &str) -> nil ; logs [a; b; c; d] *)
| NNil1        (* nil1(a: Nilable<i64>) -> a or -1 ; logs [a] *)
| NTab1        (* tab1(t: &CaoLangTable) -> len ; logs [len] *)
| NCat2        (* cat2(a: &str, b: &str) -> len a + len b ; logs [a; b] *)
| NRb1         (* rb1(f: Value, x: Value): like call1, logs the stack heights before and after run_function *)
| NStdMin | NStdMax | NStdSort | NStdToArray.

Definition str_bytes (l : list N) := l.
Definition name_log1 : list N := [108; 111; 103; 49]%N.
Definition name_sub2 : list N := [115; 117; 98; 50]%N.
Definition name_fail0 : list N := [102; 97; 105; 108; 48]%N.
Definition name_str1 : list N := [115; 116; 114; 49]%N.
Definition name_mix3 : list N := [109; 105; 120; 51]%N.
Definition name_call1 : list N := [99; 97; 108; 108; 49]%N.
Definition name_try1 : list N := [116; 114; 121; 49]%N.
Definition name_call0 : list N := [99; 97; 108; 108; 48]%N.
Definition name_t4 : list N := [116; 52]%N.
Definition name_nil1 : list N := [110; 105; 108; 49]%N.
Definition name_tab1 : list N := [116; 97; 98; 49]%N.
Definition name_cat2 : list N := [99; 97; 116; 50]%N.
Definition name_rb1 : list N := [114; 98; 49]%N.
Definition name_min : list N := [95; 95; 109; 105; 110]%N.
Definition name_max : list N := [95; 95; 109; 97; 120]%N.
Definition name_sort : list N := [95; 95; 115; 111; 114; 116]%N.
Definition name_to_array : list N := [95; 95; 116; 111; 95; 97; 114; 114; 97; 121]%N.

Definition native_name (n : native) : list N :=
  match n with
  | NLog1 => name_log1 | NSub2 => name_sub2 | NFail0 => name_fail0 | NStr1 => name_str1
  | NMix3 => name_mix3 | NCall1 => name_call1 | NTry1 => name_try1 | NCall0 => name_call0
  | NT4 => name_t4 | NNil1 => name_nil1 | NTab1 => name_tab1 | NCat2 => name_cat2 | NRb1 => name_rb1
  | NStdMin => name_min | NStdMax => name_max | NStdSort => name_sort | NStdToArray => name_to_array
  end.

Definition all_natives : list native :=
  [NStdMin; NStdMax; NStdSort; NStdToArray; NLog1; NSub2; NFail0; NStr1; NMix3; NCall1; NTry1; NCall0;
   NT4; NNil1; NTab1; NCat2; NRb1].

(* callables: HandleTable keyed by Handle::from_str(name) *)
Fixpoint find_native (h : N) (l : list native) : option native :=
  match l with
  | [] => None
  | n :: r => if N.eqb (handle_of_bytes (native_name n)) h then Some n else find_native h r
  end.

Definition log_push (s : state) (e : list tval) : state := set_log s (st_log s ++ [e]).

(* nested `_run` supplied by the run loop: instruction pointer -> state -> result *)
Variable reenter : N -> state -> rres.

Definition last_pos : N := (code_len - 1)%N.

Fixpoint push_frames (n : nat) (f : frame) (s : state) : option state :=
  match n with
  | O => Some s
  | S n' => match push_frame s f with Some s' => push_frames n' f s' | None => None end
  end.

(* how a native is entered; defined below, used by run_function for native function values *)
Section RunFunction.
  Variable call_native_v : N -> state -> nres.

  (* Vm::run_function *)
  Definition run_function (fv : value) (s : state) : nres :=
    match fv with
    | VObj a =>
        match hget (st_heap s) a with
        | None => NStop AUB s
        | Some o =>
            let go (arity label : N) (clo : option N) :=
              if (code_len =? 0)%N then NStop APanic s     (* debug_assert / len - 1 underflow *)
              else
              match assoc label (p_labels P) with
              | None => NErr (EProcedureNotFound label) s
              | Some src =>
                  let len := N.of_nat (scount s) in
                  (* the frame expression (checked_sub) is evaluated before each push *)
                  if (len <? arity)%N then NErr EMissingArgument s
                  else
                    let f := mkFrame src last_pos (len - arity) clo in
                    match push_frame s f with
                    | None => NErr ECallStackOverflow s
                    | Some s1 =>
                        match push_frame s1 f with
                        | None => NErr ECallStackOverflow s       (* the first frame is removed again (bc2bd64) *)
                        | Some s2 =>
                            (* depth = call_stack.len() - 2; afterwards the call stack is popped back to it,
                               also when the callee failed *)
                            let depth := length (st_calls s) in
                            let unwind (x : state) := set_calls x (skipn (length (st_calls x) - depth) (st_calls x)) in
                            match reenter src s2 with
                            | ROk s3 => let '(s5, v) := spop (unwind s3) in NOk v s5
                            | RErr e _ s3 => NErr e (unwind s3)
                            | RStop ab s3 => NStop ab s3
                            end
                        end
                    end
              end in
            match o with
            | OClo h ar _ => go ar h (Some a)
            | OFun h ar => go ar h None
            | ONative h =>
                match call_native_v h s with
                | NOk _ s1 => let '(s2, v) := spop s1 in NOk v s2
                | r => r
                end
            | _ => NErr EInvalidArgument s
            end
        end
    | _ => NErr EInvalidArgument s
    end.
End RunFunction.

(* native_to_array *)
Fixpoint to_array_go (eq : eqfun) (t : table) (i : Z) (l : list (value * value)) : option table :=
  match l with
  | [] => Some t
  | (_, v) :: r =>
      match tinsert eq t (VInt i) v with
      | Some t' => to_array_go eq t' (i + 1)%Z r
      | None => None
      end
  end.

Definition set_table (s : state) (a : N) (t : table) : state :=
  set_heap s (hset (st_heap s) a (OTable t)).
Definition str_key : list N := [107; 101; 121]%N.
Definition str_value : list N := [118; 97; 108; 117; 101]%N.

(* ---- stdlib natives (stdlib.rs). 662697a: min / max / sorted work on a private copy of the table
   ([snapshot]: a new table object allocated through vm.init_table and filled from t.iter()) taken before the
   first call of the key function; the key function cannot reach the copy, so the copy read when the native
   starts is the one used to the end.  (The pinned tree iterated the live table, R-1.) ---- *)
Fixpoint insert_pairs (eq : eqfun) (t : table) (l : list (value * value)) : option table :=
  match l with
  | [] => Some t
  | (k, v) :: r => match tinsert eq t k v with Some t' => insert_pairs eq t' r | None => None end
  end.
(* stdlib.rs snapshot(vm, t); None = native recursion of hash / == on a cyclic key *)
Definition snapshot (s : state) (t : table) : option (state * table) :=
  match titer (veq0 (st_heap s)) t with
  | None => None
  | Some l =>
      let '(s1, c) := salloc s (OTable (mkTable [] [])) in
      match insert_pairs (veq0 (st_heap s1)) (mkTable [] []) l with
      | None => None
      | Some ct => Some (set_table s1 c ct, ct)
      end
  end.

Section StdNatives.
  Variable self : N -> state -> nres.

  Inductive mmres := MMOk (i : nat) (s : state) | MMFail (r : nres).

  (* the loop of native_minmax over the rows after the first *)
  Fixpoint minmax_go (less : bool) (key_fn : value) (l : list (value * value)) (j i : nat) (best : value)
           (s : state) : mmres :=
    match l with
    | [] => MMOk i s
    | (k, v) :: rest =>
        match spush s v with
        | None => MMFail (NErr EStackoverflow s)
        | Some s1 =>
            match spush s1 k with
            | None => MMFail (NErr EStackoverflow s1)
            | Some s2 =>
                match run_function self key_fn s2 with
                | NOk key s3 =>
                    match vcmp (st_heap s3) key best with
                    | CCrash => MMFail (NStop ACrash s3)
                    | c =>
                        let better := match c with CSome Lt => less | CSome Gt => negb less | _ => false end in
                        if better then minmax_go less key_fn rest (S j) j key s3
                        else minmax_go less key_fn rest (S j) i best s3
                    end
                | r => MMFail r
                end
            end
        end
    end.

  (* {"key": k, "value": v} *)
  Definition make_row (s : state) (k v : value) : nres :=
    let '(s3, row) := salloc s (OTable (mkTable [] [])) in
    let '(s4, ka) := salloc s3 (OStr str_key) in
    let eq4 := veq0 (st_heap s4) in
    match tinsert eq4 (mkTable [] []) (VObj ka) k with
    | None => NStop ACrash s4
    | Some t1 =>
        let '(s5, va) := salloc s4 (OStr str_value) in
        match tinsert (veq0 (st_heap s5)) t1 (VObj va) v with
        | None => NStop ACrash s5
        | Some t2 => NOk (VObj row) (set_table s5 row t2)
        end
    end.

  Definition native_minmax (less : bool) (iterable key_fn : value) (s : state) : nres :=
    match iterable with
    | VObj a =>
        match hget (st_heap s) a with
        | Some (OTable t) =>
          match snapshot s t with
          | None => NStop ACrash s
          | Some (s, entries) =>
            match titer (veq0 (st_heap s)) entries with
            | None => NStop ACrash s
            | Some [] => NOk VNil s
            | Some ((k0, v0) :: rest) =>
                match spush s v0 with
                | None => NErr EStackoverflow s
                | Some s1 =>
                    match spush s1 k0 with
                    | None => NErr EStackoverflow s1
                    | Some s2 =>
                        match run_function self key_fn s2 with
                        | NOk key0 s3 =>
                            match minmax_go less key_fn rest 1 0 key0 s3 with
                            | MMFail r => r
                            | MMOk i s4 =>
                                let k := tnth_key entries i in
                                match tget (veq0 (st_heap s4)) entries k with
                                | None => NStop ACrash s4
                                | Some r => make_row s4 k (match r with Some v => v | None => VNil end)
                                end
                            end
                        | r => r
                        end
                    end
                end
            end
          end
        | Some _ => NOk iterable s
        | None => NStop AUB s
        end
    | _ => NOk iterable s
    end.

  (* keys of native_sorted *)
  Inductive skres := SKOk (l : list (value * (value * value))) (s : state) | SKFail (r : nres).
  Fixpoint sort_keys (key_fn : value) (l : list (value * value)) (s : state) : skres :=
    match l with
    | [] => SKOk [] s
    | (k, v) :: rest =>
        match spush s v with
        | None => SKFail (NErr EStackoverflow s)
        | Some s1 =>
            match spush s1 k with
            | None => SKFail (NErr EStackoverflow s1)
            | Some s2 =>
                match run_function self key_fn s2 with
                | NOk key s3 =>
                    match sort_keys key_fn rest s3 with
                    | SKOk l' s4 => SKOk ((key, (k, v)) :: l') s4
                    | f => f
                    end
                | r => SKFail r
                end
            end
        end
    end.
End StdNatives.

(* sort_key_cmp: keys count as numbers (nil as 0, objects as their length), NaN keys last; [true] = a <= b *)
Definition sort_number (h : heap) (v : value) : option value :=
  match v with
  | VReal _ | VInt _ => Some v
  | o => match to_i64 h o with Some i => Some (VInt i) | None => None end
  end.
Definition is_nan_value (v : value) : bool :=
  match v with VReal r => match f_cmp F r r with None => true | Some _ => false end | _ => false end.
Definition sort_key_le (h : heap) (a b : value) : option bool :=
  match is_nan_value a, is_nan_value b with
  | false, false =>
      match sort_number h a, sort_number h b with
      | Some x, Some y =>
          match vcmp h x y with
          | CSome Gt => Some false
          | CCrash => None
          | _ => Some true
          end
      | _, _ => None
      end
  | an, bn => Some (implb an bn)      (* a_nan.cmp(&b_nan) <> Greater *)
  end.
(* stable insertion sort: a new element goes behind the elements that are <= it *)
Fixpoint sort_insert (h : heap) (x : value * (value * value)) (l : list (value * (value * value)))
  : option (list (value * (value * value))) :=
  match l with
  | [] => Some [x]
  | y :: r =>
      match sort_key_le h (fst y) (fst x) with
      | None => None
      | Some true => match sort_insert h x r with Some r' => Some (y :: r') | None => None end
      | Some false => Some (x :: l)
      end
  end.
Fixpoint stable_sort (h : heap) (l acc : list (value * (value * value))) : option (list (value * (value * value))) :=
  match l with
  | [] => Some acc
  | x :: r => match sort_insert h x acc with Some acc' => stable_sort h r acc' | None => None end
  end.
Fixpoint insert_all (eq : eqfun) (t : table) (l : list (value * (value * value))) : option table :=
  match l with
  | [] => Some t
  | (_, (k, v)) :: r => match tinsert eq t k v with Some t' => insert_all eq t' r | None => None end
  end.

Definition native_sorted (self : N -> state -> nres) (iterable key_fn : value) (s : state) : nres :=
  match iterable with
  | VObj a =>
      match hget (st_heap s) a with
      | Some (OTable t) =>
        match snapshot s t with
        | None => NStop ACrash s
        | Some (s, entries) =>
          match titer (veq0 (st_heap s)) entries with
          | None => NStop ACrash s
          | Some l =>
              match sort_keys self key_fn l s with
              | SKFail r => r
              | SKOk keyed s1 =>
                  match stable_sort (st_heap s1) keyed [] with
                  | None => NStop ACrash s1
                  | Some sorted =>
                      let '(s2, out) := salloc s1 (OTable (mkTable [] [])) in
                      match insert_all (veq0 (st_heap s2)) (mkTable [] []) sorted with
                      | None => NStop ACrash s2
                      | Some t' => NOk (VObj out) (set_table s2 out t')
                      end
                  end
              end
          end
        end
      | Some _ => NOk iterable s
      | None => NStop AUB s
      end
  | _ => NOk iterable s
  end.

(* get_table / get_table_mut *)
Inductive tblres := TblOk (a : N) (t : table) | TblNot | TblUb.
Definition get_table (h : heap) (v : value) : tblres :=
  match v with
  | VObj a =>
      match hget h a with
      | Some (OTable t) => TblOk a t
      | Some _ => TblNot
      | None => TblUb
      end
  | _ => TblNot
  end.


(* TryFrom<Value> for &str *)
Inductive strconv := SIs (b : list N) | SNot | SUb.
Definition as_str (h : heap) (v : value) : strconv :=
  match v with
  | VObj a =>
      match hget h a with
      | Some (OStr b) => SIs b
      | Some _ => SNot
      | None => SUb
      end
  | _ => SNot
  end.

(* number of typed parameters (traits.rs: VmFunction1..4; fail0 is a plain closure Fn(&mut Vm)) *)
Definition native_arity (n : native) : nat :=
  match n with
  | NLog1 | NStr1 | NCall0 | NStdToArray | NNil1 | NTab1 => 1
  | NSub2 | NCall1 | NTry1 | NStdMin | NStdMax | NStdSort | NCat2 | NRb1 => 2
  | NMix3 => 3
  | NT4 => 4
  | NFail0 => 0
  end.

(* One body per native. [self] = call_native for native function values reached through run_function.
   traits.rs: the k arguments are PEEKED (they stay on the value stack while the function runs), converted
   last-to-first, and popped with pop_n::<k> by the caller below when the function has returned. *)
Definition native_body (self : N -> state -> nres) (n : native) (s : state) : nres :=
  let h := st_heap s in
  match n with
  | NLog1 =>
      let v := speek s 0 in
      NOk VNil (log_push s [TInt (Z.of_nat (scount s)); TInt (Z.of_nat (length (st_calls s))); tree_of h v])
  | NSub2 =>
      match to_i64 h (speek s 0), to_i64 h (speek s 1) with
      | Some b, Some a => NOk (VInt (wrap_i64 (a - b))) (log_push s [TInt a; TInt b])
      | _, _ => NStop AUB s
      end
  | NFail0 => NErr EUnimplemented s
  | NStr1 =>
      match as_str h (speek s 0) with
      | SUb => NStop AUB s
      | SNot => NErr (EConversion 1) s
      | SIs b => NOk (VInt (Z.of_nat (length b))) (log_push s [TStr b])
      end
  | NMix3 =>
      match to_i64 h (speek s 1), to_f64 h (speek s 2) with
      | Some b, Some a => NOk VNil (log_push s [TReal (canon_real a); TInt b; tree_of h (speek s 0)])
      | _, _ => NStop AUB s
      end
  | NCall1 =>
      match spush s (speek s 0) with
      | None => NErr EStackoverflow s
      | Some s1 => run_function self (speek s 1) s1
      end
  | NTry1 =>
      match spush s (speek s 0) with
      | None => NErr EStackoverflow s
      | Some s1 =>
          match run_function self (speek s 1) s1 with
          | NErr _ s2 => NOk VNil (log_push s2 [TStr name_try1])
          | r => r
          end
      end
  | NCall0 => run_function self (speek s 0) s
  | NT4 =>
      (* converted last-to-first: d, c, b, a *)
      match as_str h (speek s 0) with
      | SUb => NStop AUB s
      | SNot => NErr (EConversion 4) s
      | SIs d =>
          match as_bool h (speek s 1), to_f64 h (speek s 2), to_i64 h (speek s 3) with
          | Some c, Some b, Some a =>
              NOk VNil (log_push s [TInt a; TReal (canon_real b); TInt (if c then 1 else 0); TStr d])
          | _, _, _ => NStop AUB s
          end
      end
  | NNil1 =>
      match speek s 0 with
      | VNil => NOk (VInt (-1)) (log_push s [TNil])
      | v => match to_i64 h v with
             | Some i => NOk (VInt i) (log_push s [TInt i])
             | None => NStop AUB s
             end
      end
  | NTab1 =>
      match get_table h (speek s 0) with
      | TblOk _ t => let l := Z.of_nat (length (tkeys t)) in NOk (VInt l) (log_push s [TInt l])
      | TblNot => NErr (EConversion 1) s
      | TblUb => NStop AUB s
      end
  | NCat2 =>
      match as_str h (speek s 0) with
      | SUb => NStop AUB s
      | SNot => NErr (EConversion 2) s
      | SIs b =>
          match as_str h (speek s 1) with
          | SUb => NStop AUB s
          | SNot => NErr (EConversion 1) s
          | SIs a => NOk (VInt (Z.of_nat (length a + length b))) (log_push s [TStr a; TStr b])
          end
      end
  | NRb1 =>
      let h0 := Z.of_nat (scount s) in
      let d0 := Z.of_nat (length (st_calls s)) in
      match spush s (speek s 0) with
      | None => NErr EStackoverflow s
      | Some s1 =>
          let arity :=
            match speek s 1 with
            | VObj a =>
                match hget h a with
                | Some (OFun _ ar) | Some (OClo _ ar _) => Z.of_N ar
                | Some (ONative nh) =>
                    match find_native nh all_natives with Some n' => Z.of_nat (native_arity n') | None => (-1)%Z end
                | _ => (-1)%Z
                end
            | _ => (-1)%Z
            end in
          let entry (x : state) (ok : Z) :=
            [TStr name_rb1; TInt h0; TInt d0; TInt (Z.of_nat (scount x)); TInt (Z.of_nat (length (st_calls x)));
             TInt ok; TInt arity] in
          match run_function self (speek s 1) s1 with
          | NOk v s2 => NOk v (log_push s2 (entry s2 1%Z))
          | NErr e s2 => NErr e (log_push s2 (entry s2 0%Z))
          | r => r
          end
      end
  | NStdToArray =>
      let v := speek s 0 in
      match v with
      | VObj a =>
          match hget h a with
          | Some (OTable t) =>
              let '(s2, out) := salloc s (OTable (mkTable [] [])) in
              match titer (veq0 (st_heap s2)) t with
              | None => NStop ACrash s2
              | Some l =>
                  match to_array_go (veq0 (st_heap s2)) (mkTable [] []) 0%Z l with
                  | None => NStop ACrash s2
                  | Some t' => NOk (VObj out) (set_heap s2 (hset (st_heap s2) out (OTable t')))
                  end
              end
          | Some _ => NOk v s
          | None => NStop AUB s
          end
      | _ => NOk v s
      end
  | NStdMin => native_minmax self true (speek s 1) (speek s 0) s
  | NStdMax => native_minmax self false (speek s 1) (speek s 0) s
  | NStdSort => native_sorted self (speek s 1) (speek s 0) s
  end.

(* call_native: the arguments are popped (whatever is on top by then), an error is wrapped as
   TaskFailure{name}, a result is pushed *)
Fixpoint call_native_fuel (fuel : nat) (h : N) (s : state) : nres :=
  match fuel with
  | O => NStop ADiverge s
  | S f =>
      match find_native h all_natives with
      | None => NErr (EProcedureNotFound h) s
      | Some n =>
          match native_body (call_native_fuel f) n s with
          | NOk v s1 =>
              let s1 := spop_n s1 (native_arity n) in
              match spush s1 v with
              | Some s2 => NOk v s2
              | None => NErr EStackoverflow s1
              end
          | NErr e s1 => NErr (ETaskFailure (native_name n) e) (spop_n s1 (native_arity n))
          | NStop a s1 => NStop a s1
          end
      end
  end.
(* a native function value whose target is again run_function(native value) ... is bounded by the
   value stack in the implementation; 8 levels suffice for the menu (natives do not pass natives on) *)
Definition call_native (h : N) (s : state) : nres := call_native_fuel 8 h s.

Definition native_step (h : N) (ip : N) (s : state) : sres :=
  match call_native h s with
  | NOk _ s1 => SNext ip s1
  | NErr e s1 => SErr e ip s1
  | NStop a s1 => SStop a s1
  end.

(* ------------------------------------------------------------------ *)
(* One instruction                                                     *)
(* ------------------------------------------------------------------ *)

Definition push_next (ip : N) (s : state) (v : value) : sres :=
  match spush s v with
  | Some s' => SNext ip s'
  | None => SErr EStackoverflow ip s
  end.

Definition of_vres (ip : N) (s : state) (r : vres) : sres :=
  match r with
  | VOk v => push_next ip s v
  | VPanic => SStop APanic s
  | VUb => SStop AUB s
  | VCrash => SStop ACrash s
  end.

(* Vm::binary_op *)
Definition binary_op (ip : N) (s : state) (op : heap -> value -> value -> vres) : sres :=
  let '(s1, b) := spop s in
  let '(s2, a) := spop s1 in
  of_vres ip s2 (op (st_heap s2) a b).

Definition bool_op (f : bool -> bool -> bool) (h : heap) (a b : value) : vres :=
  match as_bool h a, as_bool h b with
  | Some x, Some y => VOk (vbool (f x y))
  | _, _ => VUb
  end.

Definition eq_op (neg : bool) (h : heap) (a b : value) : vres :=
  match veq0 h a b with
  | Some r => VOk (vbool (if neg then negb r else r))
  | None => VCrash
  end.

Definition less_op (or_eq : bool) (h : heap) (a b : value) : vres :=
  match vcmp h a b with
  | CSome Lt => VOk (vbool true)
  | CSome Eq => VOk (vbool or_eq)
  | CSome Gt => VOk (vbool false)
  | CNone => VOk (vbool false)
  | CCrash => VCrash
  end.

(* write_local_var *)
Definition write_local (s : state) (off : nat) (handle : N) (v : value) : option state :=
  sset s (off + N.to_nat handle) v.

(* a jump target read as i32 *)
Inductive jres := JTo (ip : N) | JPanic.
Definition jump_target (raw : N) : jres :=
  let z := u32_to_i32 raw in
  if (z <? 0)%Z then
    match bld with
    | Debug => JPanic                                 (* debug_assert!(pos >= 0) *)
    | Release => JTo (Z.to_N (z + 18446744073709551616)%Z)   (* pos as usize *)
    end
  else JTo (Z.to_N z).

Definition op_u32 (ip : N) := read_le (p_code P) ip 4.

Definition unknown_var_name : list N :=
  [60; 60; 60; 85; 110; 107; 110; 111; 119; 110; 32; 118; 97; 114; 105; 97; 98; 108; 101; 62; 62; 62]%N.

Definition i_4 (opc ip0 ip : N) (s : state) : sres := (* CallNative *)
  match op_u32 ip with
  | None => SStop APanic s
  | Some h => native_step h (ip + 4) s
  end.

Definition i_5 (opc ip0 ip : N) (s : state) : sres := (* ScalarInt *)
  match read_le (p_code P) ip 8 with
  | None => SStop APanic s
  | Some x => push_next (ip + 8) s (VInt (u64_to_i64 x))
  end.

Definition i_6 (opc ip0 ip : N) (s : state) : sres := (* ScalarFloat *)
  match read_le (p_code P) ip 8 with
  | None => SStop APanic s
  | Some x => push_next (ip + 8) s (VReal x)
  end.

Definition i_8 (opc ip0 ip : N) (s : state) : sres := (* StringLiteral *)
  match op_u32 ip with
  | None => SStop APanic s
  | Some h =>
      let ip := (ip + 4)%N in
      match read_str h (p_data P) with
      | StrPanic => SStop APanic s
      | StrNone => SErr EInvalidArgument ip s
      | StrOk b =>
          let '(s1, a) := salloc s (OStr b) in
          push_next ip s1 (VObj a)
      end
  end.

Definition i_11 (opc ip0 ip : N) (s : state) : sres := (* CallFunction *)
  let '(s1, fv) := spop s in
  match fv with
  | VObj a =>
      match hget (st_heap s1) a with
      | None => SStop AUB s1
      | Some o =>
          let go (arity label : N) (clo : option N) :=
            match st_calls s1 with
            | [] => SStop APanic s1                 (* "Call stack was empty" *)
            | top :: rest =>
                let s2 := set_calls s1 (mkFrame (fr_src top) ip (fr_off top) (fr_clo top) :: rest) in
                let len := N.of_nat (scount s2) in
                if (len <? arity)%N then SErr EMissingArgument ip s2
                else
                  match push_frame s2 (mkFrame ip0 ip (len - arity) clo) with
                  | None => SErr ECallStackOverflow ip s2
                  | Some s3 =>
                      match assoc label (p_labels P) with
                      | None => SErr (EProcedureNotFound label) ip s3
                      | Some pos => SNext pos s3
                      end
                  end
            end in
          match o with
          | OFun h ar => go ar h None
          | OClo h ar _ => go ar h (Some a)
          | ONative h => native_step h ip s1
          | _ => SErr EInvalidArgument ip s1
          end
      end
  | _ => SErr EInvalidArgument ip s1
  end.

Definition i_17 (opc ip0 ip : N) (s : state) : sres := (* SetGlobalVar *)
  match op_u32 ip with
  | None => SStop APanic s
  | Some id =>
      let '(s1, v) := spop s in
      let i := N.to_nat id in
      let g := st_globals s1 in
      let g' := if length g <=? i then g ++ repeat None (S i - length g) else g in
      SNext (ip + 4) (set_globals s1 (upd g' i (Some v)))
  end.

Definition i_18 (opc ip0 ip : N) (s : state) : sres := (* ReadGlobalVar *)
  match op_u32 ip with
  | None => SStop APanic s
  | Some id =>
      let ip := (ip + 4)%N in
      (* a526e90: `.get(varid).copied().flatten()` - a slot that was only padded is VarNotFound too
         (the pinned tree padded with nil: a never-assigned global below an assigned one read nil, R-5) *)
      match nth_error (st_globals s) (N.to_nat id) with
      | Some (Some v) => push_next ip s v
      | _ => SErr (EVarNotFound (Some (match assoc (handle_from_u32 id) (p_var_names P) with
                                           | Some nm => nm
                                           | None => unknown_var_name
                                           end))) ip s
      end
  end.

Definition i_19 (opc ip0 ip : N) (s : state) : sres := (* SetLocalVar *)
  match op_u32 ip with
  | None => SStop APanic s
  | Some hd =>
      let ip := (ip + 4)%N in
      match top_offset s with
      | None => SStop APanic s
      | Some off =>
          let '(s1, v) := spop_w_offset s off in
          match write_local s1 off hd v with
          | Some s2 => SNext ip s2
          | None => SErr (EVarNotFound None) ip s1
          end
      end
  end.

Definition i_20 (opc ip0 ip : N) (s : state) : sres := (* ReadLocalVar *)
  match op_u32 ip with
  | None => SStop APanic s
  | Some hd =>
      let ip := (ip + 4)%N in
      match top_offset s with
      | None => SStop APanic s
      | Some off => push_next ip s (sget s (off + N.to_nat hd))
      end
  end.

Definition i_21 (opc ip0 ip : N) (s : state) : sres := (* ClearStack *)
  match top_offset s with
  | None => SStop APanic s
  | Some off => SNext ip (fst (sclear_until s off))
  end.

Definition i_22 (opc ip0 ip : N) (s : state) : sres := (* Return *)
  match st_calls s with
  | [] => SErr EBadReturn ip s
  | fr :: rest =>
      let s1 := set_calls s rest in
      let off := N.to_nat (fr_off fr) in
      match close_upvalues_from off s1 with
      | ClErr e s2 => SErr e ip s2
      | ClStop a s2 => SStop a s2
      | ClOk s2 =>
          let '(s3, v) := sclear_until s2 off in
          match rest with
          | [] => SErr EBadReturn ip s3
          | prev :: _ =>
              let ip' := fr_dst prev in
              push_next ip' s3 v
          end
      end
  end.

Definition i_23 (opc ip0 ip : N) (s : state) : sres := (* SwapLast *)
  let '(s1, b) := spop s in
  let '(s2, a) := spop s1 in
  match spush s2 b with
  | None => SStop APanic s2
  | Some s3 => match spush s3 a with None => SStop APanic s3 | Some s4 => SNext ip s4 end
  end.

Definition i_27 (opc ip0 ip : N) (s : state) : sres := (* Not *)
  let '(s1, v) := spop s in
  match as_bool (st_heap s1) v with
  | Some b => push_next ip s1 (vbool (negb b))
  | None => SStop AUB s1
  end.

Definition i_28 (opc ip0 ip : N) (s : state) : sres := (* Goto *)
  match op_u32 ip with
  | None => SStop APanic s
  | Some raw => match jump_target raw with JPanic => SStop APanic s | JTo t => SNext t s end
  end.

Definition i_29_30 (opc ip0 ip : N) (s : state) : sres := (* GotoIfTrue / GotoIfFalse *)
  let '(s1, c) := spop s in
  match op_u32 ip with
  | None => SStop APanic s1
  | Some raw =>
      match jump_target raw with
      | JPanic => SStop APanic s1
      | JTo t =>
          match as_bool (st_heap s1) c with
          | None => SStop AUB s1
          | Some b =>
              let take := if (opc =? 29)%N then b else negb b in
              SNext (if take then t else ip + 4) s1
          end
      end
  end.

Definition i_31 (opc ip0 ip : N) (s : state) : sres := (* InitTable *)
  let '(s1, a) := salloc s (OTable (mkTable [] [])) in
  push_next ip s1 (VObj a).

Definition i_32 (opc ip0 ip : N) (s : state) : sres := (* GetProperty *)
  let '(s1, key) := spop s in
  let '(s2, inst) := spop s1 in
  match get_table (st_heap s2) inst with
  | TblUb => SStop AUB s2
  | TblNot => SErr EInvalidArgument ip s2
  | TblOk _ t =>
      match tget (veq0 (st_heap s2)) t key with
      | None => SStop ACrash s2
      | Some r => push_next ip s2 (match r with Some v => v | None => VNil end)
      end
  end.

Definition i_33 (opc ip0 ip : N) (s : state) : sres := (* SetProperty: key, instance, value are peeked, then pop_n::<3>() *)
  let key := speek s 0 in
  let inst := speek s 1 in
  let v := speek s 2 in
  let s3 := spop_n s 3 in
  match get_table (st_heap s3) inst with
  | TblUb => SStop AUB s3
  | TblNot => SErr EInvalidArgument ip s3
  | TblOk a t =>
      match tinsert (veq0 (st_heap s3)) t key v with
      | None => SStop ACrash s3
      | Some t' => SNext ip (set_table s3 a t')
      end
  end.

Definition i_34 (opc ip0 ip : N) (s : state) : sres := (* Len *)
  let '(s1, v) := spop s in
  match v with
  | VNil => push_next ip s1 (VInt 0)
  | VInt _ | VReal _ => push_next ip s1 (VInt 1)
  | VObj a =>
      match vobj_len (st_heap s1) a with
      | Some l => push_next ip s1 (VInt l)
      | None => SStop AUB s1
      end
  end.

Definition i_35 (opc ip0 ip : N) (s : state) : sres := (* BeginForEach *)
  match op_u32 ip, op_u32 (ip + 4) with
  | Some i_h, Some t_h =>
      let ip := (ip + 8)%N in
      let item := slast s in
      match get_table (st_heap s) item with
      | TblUb => SStop AUB s
      | TblNot => SErr EInvalidArgument ip s
      | TblOk _ _ =>
          match top_offset s with
          | None => SStop APanic s
          | Some off =>
              match write_local s off i_h (VInt 0) with
              | None => SErr (EVarNotFound None) ip s
              | Some s1 =>
                  match write_local s1 off t_h item with
                  | None => SErr (EVarNotFound None) ip s1
                  | Some s2 =>
                      match op_u32 ip, op_u32 (ip + 4), op_u32 (ip + 8) with
                      | Some i2, Some k2, Some v2 =>
                          let ip := (ip + 12)%N in
                          match write_local s2 off v2 VNil with
                          | None => SErr (EVarNotFound None) ip s2
                          | Some s3 =>
                              match write_local s3 off k2 VNil with
                              | None => SErr (EVarNotFound None) ip s3
                              | Some s4 =>
                                  match write_local s4 off i2 VNil with
                                  | None => SErr (EVarNotFound None) ip s4
                                  | Some s5 => SNext ip s5
                                  end
                              end
                          end
                      | _, _, _ => SStop APanic s2
                      end
                  end
              end
          end
      end
  | _, _ => SStop APanic s
  end.

Definition i_36 (opc ip0 ip : N) (s : state) : sres := (* ForEach *)
  match op_u32 ip, op_u32 (ip + 4), op_u32 (ip + 8), op_u32 (ip + 12), op_u32 (ip + 16) with
  | Some lv, Some t_h, Some i_h, Some k_h, Some v_h =>
      let ip := (ip + 20)%N in
      match top_offset s with
      | None => SStop APanic s
      | Some off =>
          let iv := sget s (off + N.to_nat lv) in
          let ov := sget s (off + N.to_nat t_h) in
          match to_i64 (st_heap s) iv with
          | None => SStop AUB s
          | Some i =>
              match get_table (st_heap s) ov with
              | TblUb => SStop AUB s
              | TblNot => SErr EAssertionError ip s
              | TblOk _ t =>
                  if (i <? 0)%Z && (match bld with Debug => true | Release => false end)
                  then SStop APanic s            (* debug_assert!(0 <= i) *)
                  else
                    let n := Z.of_nat (length (tkeys t)) in
                    let cont := (0 <=? i)%Z && (i <? n)%Z in
                    if cont then
                      let key := tnth_key t (Z.to_nat i) in
                      match tget (veq0 (st_heap s)) t key with
                      | None => SStop ACrash s
                      | Some r =>
                          let val := match r with Some v => v | None => VNil end in
                          match write_local s off v_h val with
                          | None => SErr (EVarNotFound None) ip s
                          | Some s1 =>
                              match write_local s1 off k_h key with
                              | None => SErr (EVarNotFound None) ip s1
                              | Some s2 =>
                                  match write_local s2 off i_h (VInt i) with
                                  | None => SErr (EVarNotFound None) ip s2
                                  | Some s3 =>
                                      match i64_result (i + 1)%Z with
                                      | None => SStop APanic s3
                                      | Some i1 =>
                                          match write_local s3 off lv (VInt i1) with
                                          | None => SErr (EVarNotFound None) ip s3
                                          | Some s4 => push_next ip s4 (vbool true)
                                          end
                                      end
                                  end
                              end
                          end
                      end
                    else push_next ip s (vbool false)
              end
          end
      end
  | _, _, _, _, _ => SStop APanic s
  end.

Definition i_37_42 (opc ip0 ip : N) (s : state) : sres := (* FunctionPointer / Closure *)
  match op_u32 ip, op_u32 (ip + 4) with
  | Some h, Some ar =>
      let ip := (ip + 8)%N in
      let '(s1, a) := salloc s (if (opc =? 37)%N then OFun h ar else OClo h ar []) in
      push_next ip s1 (VObj a)
  | _, _ => SStop APanic s
  end.

Definition i_38 (opc ip0 ip : N) (s : state) : sres := (* NativeFunctionPointer *)
  match op_u32 ip with
  | None => SStop APanic s
  | Some hd =>
      let ip := (ip + 4)%N in
      match read_str hd (p_data P) with
      | StrPanic => SStop APanic s
      | StrNone => SErr EInvalidArgument ip s
      | StrOk b =>
          let '(s1, a) := salloc s (ONative (handle_of_bytes b)) in
          push_next ip s1 (VObj a)
      end
  end.

Definition i_39 (opc ip0 ip : N) (s : state) : sres := (* NthRow: i, instance are peeked; pop_n::<2>() after the row is built *)
  let iv := speek s 0 in
  let inst := speek s 1 in
  let s2 := spop_n s 2 in
  match get_table (st_heap s2) inst with
  | TblUb => SStop AUB s2
  | TblNot => SErr EInvalidArgument ip s2
  | TblOk _ t =>
      match iv with
      | VInt i =>
          if (i <? 0)%Z then SErr EInvalidArgument ip s2
          else
            (* 6d4c9a8: a row past the end is (nil, nil) whatever is stored under the key nil
               (the pinned tree looked the value up under nth_key's nil, R-3) *)
            let inside := (i <? Z.of_nat (length (tkeys t)))%Z in
            let key := if inside then tnth_key t (Z.to_nat i) else VNil in
            match (if inside then tget (veq0 (st_heap s2)) t key else Some None) with
            | None => SStop ACrash s2
            | Some r =>
                let val := match r with Some v => v | None => VNil end in
                let '(s3, row) := salloc s2 (OTable (mkTable [] [])) in
                let '(s4, ka) := salloc s3 (OStr str_key) in
                let '(s5, va) := salloc s4 (OStr str_value) in
                let eq := veq0 (st_heap s5) in
                match tinsert eq (mkTable [] []) (VObj ka) key with
                | None => SStop ACrash s5
                | Some t1 =>
                    match tinsert eq t1 (VObj va) val with
                    | None => SStop ACrash s5
                    | Some t2 => push_next ip (set_table s5 row t2) (VObj row)
                    end
                end
            end
      | _ => SErr EInvalidArgument ip s2
      end
  end.

Definition i_40 (opc ip0 ip : N) (s : state) : sres := (* AppendTable: instance, value are peeked, then pop_n::<2>() *)
  let inst := speek s 0 in
  let v := speek s 1 in
  let s2 := spop_n s 2 in
  match get_table (st_heap s2) inst with
  | TblUb => SStop AUB s2
  | TblNot => SErr EInvalidArgument ip s2
  | TblOk a t =>
      match tappend (veq0 (st_heap s2)) t v with
      | TOk t' => SNext ip (set_table s2 a t')
      | TFuel => SStop ADiverge s2
      | TCrash => SStop ACrash s2
      end
  end.

Definition i_41 (opc ip0 ip : N) (s : state) : sres := (* PopTable *)
  let '(s1, inst) := spop s in
  match get_table (st_heap s1) inst with
  | TblUb => SStop AUB s1
  | TblNot => SErr EInvalidArgument ip s1
  | TblOk a t =>
      match tpop (veq0 (st_heap s1)) t with
      | None => SStop ACrash s1
      | Some (t', v) => push_next ip (set_table s1 a t') v
      end
  end.

Definition i_43_44 (opc ip0 ip : N) (s : state) : sres := (* SetUpvalue / ReadUpvalue *)
  match op_u32 ip with
  | None => SStop APanic s
  | Some idx =>
      let ip := (ip + 4)%N in
      let '(s1, wv) := if (opc =? 43)%N then spop s else (s, VNil) in
      match st_calls s1 with
      | [] => SStop APanic s1
      | fr :: _ =>
          match fr_clo fr with
          | None => SErr ENotClosure ip s1
          | Some ca =>
              match hget (st_heap s1) ca with
              | Some (OClo _ _ ups) =>
                  match nth_error ups (N.to_nat idx) with
                  | None => SErr EInvalidUpvalue ip s1
                  | Some ua =>
                      match hget (st_heap s1) ua with
                      | Some (OUp u) =>
                          if (opc =? 43)%N then
                            match u_loc u with
                            | Some l => SNext ip (sraw_set s1 l wv)
                            | None => SNext ip (set_heap s1 (hset (st_heap s1) ua (OUp (mkUp None wv (u_next u)))))
                            end
                          else
                            push_next ip s1 (match u_loc u with Some l => sraw_get s1 l | None => u_val u end)
                      | Some _ => SErr EInvalidArgument ip s1
                      | None => SStop AUB s1
                      end
                  end
              | _ => SStop AUB s1
              end
          end
      end
  end.

Definition i_45 (opc ip0 ip : N) (s : state) : sres := (* RegisterUpvalue *)
  match read_le (p_code P) ip 1, read_le (p_code P) (ip + 1) 1 with
  | Some index, Some is_local =>
      let ip := (ip + 2)%N in
      let '(s1, cv) := spop s in
      let not_closure := SErr EInvalidArgument ip s1 in
      match cv with
      | VObj ca =>
          match hget (st_heap s1) ca with
          | Some (OClo ch car cups) =>
              if negb (is_local =? 0)%N then
                match top_offset s1 with
                | None => SStop APanic s1
                | Some off =>
                    (* the captured local lives in the frame of the function that creates the closure
                       (the pinned tree indexed the stack absolutely, A-34) *)
                    let loc := off + N.to_nat index in
                    (* as_slice().get(offset + index): a local without a slot yet is an error (a56dd03; it
                       was an index-out-of-bounds panic) *)
                    if scount s1 <=? loc then SErr EInvalidArgument ip s1
                    else
                      match walk_open (S (length (st_heap s1))) (st_heap s1) loc None (st_open s1) with
                      | WStop a => SStop a s1
                      | WOk prev cur =>
                          let same :=
                            match cur with
                            | Some a =>
                                match hget (st_heap s1) a with
                                | Some (OUp u) => match u_loc u with Some l => l =? loc | None => false end
                                | _ => false
                                end
                            | None => false
                            end in
                          if same then
                            match cur with
                            | Some a => SNext ip (set_heap s1 (hset (st_heap s1) ca (OClo ch car (cups ++ [a]))))
                            | None => SStop AUB s1
                            end
                          else
                            (* the new node is linked after prev or becomes the head, the rest of the list
                               follows it (the pinned tree left `next` null and lost the rest, A-35) *)
                            let '(s2, ua) := salloc s1 (OUp (mkUp (Some loc) VNil cur)) in
                            let s3 :=
                              match prev with
                              | Some pa =>
                                  match hget (st_heap s2) pa with
                                  | Some (OUp pu) =>
                                      set_heap s2 (hset (st_heap s2) pa (OUp (mkUp (u_loc pu) (u_val pu) (Some ua))))
                                  | _ => set_open s2 (Some ua)
                                  end
                              | None => set_open s2 (Some ua)
                              end in
                            SNext ip (set_heap s3 (hset (st_heap s3) ca (OClo ch car (cups ++ [ua]))))
                      end
                end
              else
                match st_calls s1 with
                | [] => SStop APanic s1
                | fr :: _ =>
                    match fr_clo fr with
                    | None => SStop APanic s1               (* "closure not found for capture" *)
                    | Some fa =>
                        match hget (st_heap s1) fa with
                        | Some (OClo _ _ fups) =>
                            match nth_error fups (N.to_nat index) with
                            | None => SStop APanic s1       (* index out of range *)
                            | Some ua =>
                                SNext ip (set_heap s1 (hset (st_heap s1) ca (OClo ch car (cups ++ [ua]))))
                            end
                        | _ => SStop AUB s1
                        end
                    end
                end
          | Some _ => not_closure
          | None => SStop AUB s1
          end
      | _ => not_closure
      end
  | _, _ => SStop APanic s
  end.

(* CloseUpvalue index:u32 (d723a2c): closes every open upvalue whose slot is at or above local [index]
   of the current frame, `as_ptr().wrapping_add(offset + index)`; the base pointer of the stack is never
   null, so the "empty stack" branch of _close_upvalues is dead; nothing is popped.
   (The pinned tree had no operand and closed from the top slot only, R-2.) *)
Definition i_46 (opc ip0 ip : N) (s : state) : sres := (* CloseUpvalue *)
  match op_u32 ip with
  | None => SStop APanic s
  | Some idx =>
      let ip := (ip + 4)%N in
      match top_offset s with
      | None => SStop APanic s
      | Some off =>
          match close_upvalues_from (off + N.to_nat idx) s with
          | ClOk s1 => SNext ip s1
          | ClErr e s1 => SErr e ip s1
          | ClStop a s1 => SStop a s1
          end
      end
  end.

(* [ip0] = address of the opcode, [ip] = ip0 + 1 *)
Definition step (ip0 : N) (s : state) : sres :=
  let ip := (ip0 + 1)%N in
  let opc := nth (N.to_nat ip0) (p_code P) 255%N in
  let arith o := binary_op ip s (arith_op o) in
  match opc with
  | 0%N => arith OpAdd
  | 1%N => arith OpSub
  | 2%N => arith OpMul
  | 3%N => binary_op ip s div_op
  | 4%N => i_4 opc ip0 ip s
  | 5%N => i_5 opc ip0 ip s
  | 6%N => i_6 opc ip0 ip s
  | 7%N => push_next ip s VNil
  | 8%N => i_8 opc ip0 ip s
  | 9%N => push_next ip s (slast s)                      (* CopyLast *)
  | 10%N => SExit s
  | 11%N => i_11 opc ip0 ip s
  | 12%N => binary_op ip s (eq_op false)
  | 13%N => binary_op ip s (eq_op true)
  | 14%N => binary_op ip s (less_op false)
  | 15%N => binary_op ip s (less_op true)
  | 16%N => SNext ip (fst (spop s))
  | 17%N => i_17 opc ip0 ip s
  | 18%N => i_18 opc ip0 ip s
  | 19%N => i_19 opc ip0 ip s
  | 20%N => i_20 opc ip0 ip s
  | 21%N => i_21 opc ip0 ip s
  | 22%N => i_22 opc ip0 ip s
  | 23%N => i_23 opc ip0 ip s
  | 24%N => binary_op ip s (bool_op andb)
  | 25%N => binary_op ip s (bool_op orb)
  | 26%N => binary_op ip s (bool_op xorb)
  | 27%N => i_27 opc ip0 ip s
  | 28%N => i_28 opc ip0 ip s
  | 29%N | 30%N => i_29_30 opc ip0 ip s
  | 31%N => i_31 opc ip0 ip s
  | 32%N => i_32 opc ip0 ip s
  | 33%N => i_33 opc ip0 ip s
  | 34%N => i_34 opc ip0 ip s
  | 35%N => i_35 opc ip0 ip s
  | 36%N => i_36 opc ip0 ip s
  | 37%N | 42%N => i_37_42 opc ip0 ip s
  | 38%N => i_38 opc ip0 ip s
  | 39%N => i_39 opc ip0 ip s
  | 40%N => i_40 opc ip0 ip s
  | 41%N => i_41 opc ip0 ip s
  | 43%N | 44%N => i_43_44 opc ip0 ip s
  | 45%N => i_45 opc ip0 ip s
  | 46%N => i_46 opc ip0 ip s
  | _ => SStop AUB s       (* transmute of an invalid discriminant *)
  end.

(* ------------------------------------------------------------------ *)
(* The dispatch loop of `_run`                                         *)
(* ------------------------------------------------------------------ *)

(* `_run`: every dispatch first does  remaining_iters = remaining_iters.saturating_sub(1)  and reports Timeout
   when that is 0; the counter lives in the VM and is shared with nested runs. [fuel] only makes the recursion
   structural: every round lowers st_rem by at least one, so fuel >= st_rem at entry is never exhausted.
   Errors are reported at the address of the failing instruction ([ip], 3933a20); the pinned tree used the
   address after the operands (A-31). *)
Fixpoint loop (fuel : nat) (ip : N) (s : state) : rres :=
  if (code_len <=? ip)%N then RErr EUnexpectedEndOfInput ip s
  else
    let s := set_rem s (N.pred (st_rem s)) in
    if (st_rem s =? 0)%N then RErr ETimeout ip s
    else
      match fuel with
      | O => RStop ADiverge s
      | S f =>
          match step ip (tick s) with
          | SNext ip' s' => loop f ip' s'
          | SExit s' => ROk s'
          | SErr e _ s' => RErr e ip s'
          | SStop a s' => RStop a s'
          end
      end.

(* The dispatch loop of the flat semantics (no re-entry): the budget is the structural argument and st_rem is
   neither read nor written - the subject of budget_monotone. Same [step]. *)
Fixpoint loop_flat (rem : nat) (ip : N) (s : state) : rres :=
  if (code_len <=? ip)%N then RErr EUnexpectedEndOfInput ip s
  else
    match rem with
    | O | 1 => RErr ETimeout ip s
    | S r =>
        match step ip (tick s) with
        | SNext ip' s' => loop_flat r ip' s'
        | SExit s' => ROk s'
        | SErr e _ s' => RErr e ip s'
        | SStop a s' => RStop a s'
        end
    end.

End WithFloat.

(* `_run` *)
Definition run_loop (F : fops) (bld : build) (P : program) (reenter : N -> state -> rres)
           (ip : N) (s : state) : rres :=
  loop F bld P reenter (N.to_nat (st_rem s)) ip s.

(* nesting: [depth] bounds the nesting of run_function, which the call stack (2 frames per level, 256 frames)
   bounds by 128 in the implementation.
   [legacy] = the budget rule of the pinned tree (A-11, repaired by 9ecef93): every `_run` counted down a local
   copy of max_instr, so a nested run started with a fresh budget and left the caller's count alone. *)
Fixpoint run_at (F : fops) (bld : build) (P : program) (legacy : bool) (max_instr : N) (depth : nat)
         (ip : N) (s : state) : rres :=
  match depth with
  | O => RStop ADiverge s
  | S d =>
      if legacy then
        let outer := st_rem s in
        match run_loop F bld P (run_at F bld P legacy max_instr d) ip (set_rem s max_instr) with
        | ROk s' => ROk (set_rem s' outer)
        | RErr e ip' s' => RErr e ip' (set_rem s' outer)
        | RStop a s' => RStop a (set_rem s' outer)
        end
      else run_loop F bld P (run_at F bld P legacy max_instr d) ip s
  end.

Definition max_depth : nat := 130.

Inductive outcome :=
| OOk
| OErr (e : err) (trace : list N)
| OAbort (a : abort).

(* payload_to_error: trace[instr_ptr] then the frames' src entries, top first *)
Fixpoint opt_list {A} (l : list (option A)) : list A :=
  match l with
  | [] => []
  | Some x :: r => x :: opt_list r
  | None :: r => opt_list r
  end.
Definition build_trace (P : program) (ip : N) (s : state) : list N :=
  opt_list (assoc ip (p_trace P) :: map (fun f => assoc (fr_src f) (p_trace P)) (st_calls s)).

Definition outcome_of (P : program) (r : rres) : outcome * state :=
  match r with
  | ROk s => (OOk, s)
  | RErr e ip s => (OErr e (build_trace P ip s), s)
  | RStop a s => (OAbort a, s)
  end.

(* Vm::run with max_instr = budget: set the program and the budget, push the entry frame, run, and drop every
   call frame when the run is over (d89012c; the pinned tree kept them, A-18) *)
Definition finish (P : program) (r : rres) : outcome * state :=
  let '(o, s) := outcome_of P r in
  match o with
  | OAbort _ => (o, s)
  | _ => (o, set_calls s [])
  end.

Definition run_gen (F : fops) (bld : build) (legacy : bool) (depth : nat) (budget : nat) (P : program)
           (s : state) : outcome * state :=
  match push_frame s (mkFrame 0 0 0 None) with
  | None => (OErr ECallStackOverflow [], s)
  | Some s1 =>
      let s2 := set_rem s1 (N.of_nat budget) in
      (* the trace is built from the frames that are live when the error is raised *)
      finish P (run_at F bld P legacy (N.of_nat budget) depth 0 s2)
  end.

Definition run (F : fops) (bld : build) (budget : nat) (P : program) (s : state) : outcome * state :=
  run_gen F bld false max_depth budget P s.

(* the budget rule of the pinned tree *)
Definition run_legacy (F : fops) (bld : build) (budget : nat) (P : program) (s : state) : outcome * state :=
  run_gen F bld true max_depth budget P s.

(* A run in which natives cannot re-enter the interpreter (run_function is cut off), driven by [loop_flat]:
   the subject of budget_monotone. *)
Definition no_reenter (ip : N) (s : state) : rres := RStop AUnmodelled s.
Definition run_flat (F : fops) (bld : build) (budget : nat) (P : program) (s : state) : outcome * state :=
  match push_frame s (mkFrame 0 0 0 None) with
  | None => (OErr ECallStackOverflow [], s)
  | Some s1 => finish P (loop_flat F bld P no_reenter budget 0 s1)
  end.

(* Vm::read_var_by_name *)
Definition read_var_by_name (P : program) (s : state) (name : list N) : option value :=
  match assoc (handle_of_bytes name) (p_var_ids P) with
  | None => None
  | Some id => match nth_error (st_globals s) (N.to_nat id) with Some o => o | None => None end
  end.
