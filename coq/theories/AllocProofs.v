(* The accounted bytes equal the sum of the outstanding allocations and never exceed the limit;
   OutOfMemory is reported only when what survives a collection plus the request does not fit. *)
From Coq Require Import NArith List Bool Lia.
Import ListNotations.
From Cao Require Import Alloc.
Local Open Scope N_scope.

Definition LInv (s : lstate) : Prop :=
  a_allocated (l_st s) = sum (l_out s) /\ a_allocated (l_st s) <= a_limit (l_st s).

Lemma sum_app a b : sum (a ++ b) = sum a + sum b.
Proof. induction a as [|x a IH]; cbn [app sum]; [reflexivity|]. lia. Qed.

Lemma sum_keep_le mask : forall l, sum (keep_by mask l) <= sum l.
Proof.
  induction mask as [|b m IH]; intros l; cbn [keep_by]; [destruct l; lia|].
  destruct l as [|x r]; [lia|]. destruct b; cbn [sum]; specialize (IH r); lia.
Qed.

Lemma sum_remove_nth i : forall l c, nth_error l i = Some c -> sum (remove_nth i l) + c = sum l.
Proof.
  unfold remove_nth. induction i as [|i IH]; intros [|x r] c H; cbn [nth_error firstn skipn app sum] in *; try discriminate.
  - inversion H; subst. lia.
  - specialize (IH r c H). lia.
Qed.

Lemma a_new_inv limit : LInv {| l_st := a_new limit; l_out := [] |}.
Proof. unfold LInv; cbn. lia. Qed.

Theorem l_step_inv s e : LInv s -> LInv (fst (l_step s e)) /\ a_limit (l_st (fst (l_step s e))) = a_limit (l_st s).
Proof.
  intros [Hsum Hle]. destruct e as [size align forced mask|i|]; cbn [l_step].
  - pose proof (sum_keep_le mask (l_out s)) as Hk.
    unfold a_alloc.
    destruct (forced || (a_limit (l_st s) <? a_allocated (l_st s) + (size + align))
              || (a_next_gc (l_st s) <? a_allocated (l_st s) + (size + align))) eqn:Hc.
    + destruct (a_limit (l_st s) <? a_allocated (l_st s) + (size + align) - (sum (l_out s) - sum (keep_by mask (l_out s)))) eqn:Hl;
        cbn [fst l_st l_out a_allocated a_limit]; unfold LInv; cbn [l_st l_out a_allocated a_limit].
      * split; [|reflexivity]. split; lia.
      * apply N.ltb_ge in Hl. split; [|reflexivity]. rewrite sum_app. cbn [sum]. split; lia.
    + cbn [fst l_st l_out a_allocated a_limit]. unfold LInv; cbn [l_st l_out a_allocated a_limit].
      apply orb_false_iff in Hc. destruct Hc as [Hc _]. apply orb_false_iff in Hc. destruct Hc as [_ Hc].
      apply N.ltb_ge in Hc. split; [|reflexivity]. rewrite sum_app. cbn [sum]. split; lia.
  - destruct (nth_error (l_out s) i) as [c|] eqn:E; cbn [fst].
    + unfold LInv; cbn [l_st l_out a_allocated a_limit]. pose proof (sum_remove_nth i _ _ E). split; [split; lia|reflexivity].
    + split; [split; assumption|reflexivity].
  - unfold LInv; cbn. split; [split; lia|reflexivity].
Qed.

(* at every allocation and release, over every history *)
Theorem ledger_inv : forall es s, LInv s -> LInv (fst (l_run s es)).
Proof.
  induction es as [|e r IH]; intros s H; cbn [l_run]; [exact H|].
  pose proof (l_step_inv s e H) as [H1 _]. destruct (l_step s e) as [s1 x]. cbn [fst] in H1.
  specialize (IH s1 H1). destruct (l_run s1 r) as [s2 xs]. exact IH.
Qed.

(* OutOfMemory only when the surviving allocations plus the request do not fit in the limit *)
Theorem oom_only_when_full s size align forced mask :
  LInv s -> snd (l_step s (LAlloc size align forced mask)) = Some false ->
  a_limit (l_st s) < sum (keep_by mask (l_out s)) + (size + align).
Proof.
  intros [Hsum Hle] H. cbn [l_step] in H. pose proof (sum_keep_le mask (l_out s)) as Hk.
  unfold a_alloc in H.
  destruct (forced || (a_limit (l_st s) <? a_allocated (l_st s) + (size + align))
            || (a_next_gc (l_st s) <? a_allocated (l_st s) + (size + align))).
  - destruct (a_limit (l_st s) <? a_allocated (l_st s) + (size + align) - (sum (l_out s) - sum (keep_by mask (l_out s)))) eqn:Hl;
      cbn in H; [|discriminate].
    apply N.ltb_lt in Hl. lia.
  - cbn in H. discriminate.
Qed.

(* ... so a request that fits next to the surviving data always succeeds *)
Corollary bounded_live_never_oom s size align forced mask :
  LInv s -> sum (keep_by mask (l_out s)) + (size + align) <= a_limit (l_st s) ->
  snd (l_step s (LAlloc size align forced mask)) = Some true.
Proof.
  intros HI Hfit. destruct (snd (l_step s (LAlloc size align forced mask))) as [[|]|] eqn:E.
  - reflexivity.
  - pose proof (oom_only_when_full s size align forced mask HI E). lia.
  - cbn [l_step] in E. destruct (a_alloc _ _ _ _ _) as [[? ?] ?]. cbn in E. discriminate.
Qed.

(* a refused request is not charged *)
Theorem refused_not_charged s size align forced mask :
  LInv s -> snd (l_step s (LAlloc size align forced mask)) = Some false ->
  a_allocated (l_st (fst (l_step s (LAlloc size align forced mask)))) = sum (keep_by mask (l_out s)).
Proof.
  intros HI H. pose proof (l_step_inv s (LAlloc size align forced mask) HI) as [[Hs _] _].
  rewrite Hs. cbn [l_step] in *. destruct (a_alloc _ _ _ _ _) as [[st ok] collected] eqn:E.
  cbn in H. inversion H; subst ok. cbn [fst l_out].
  unfold a_alloc in E.
  destruct (forced || _ || _); [|inversion E].
  destruct (_ <? _) in E; inversion E; subst. reflexivity.
Qed.

(* clearing the VM returns the counters to those of a fresh allocator *)
Theorem clear_is_fresh s : fst (l_step s LClear) = {| l_st := a_new (a_limit (l_st s)); l_out := [] |}.
Proof. reflexivity. Qed.
