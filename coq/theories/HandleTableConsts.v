(* The concrete parameters of HandleTable, from the generated Consts.v *)
From Coq Require Import Arith NArith.
From Cao Require Import Consts Bits F32Load.

Definition fib_home32 (cap : nat) (h : N) : nat :=
  N.to_nat (((h * c_ht_fib_mult) mod two32) mod (N.of_nat cap)).
Definition ht_needs_grow : nat -> nat -> bool := needs_grow_nat ht_load_num ht_load_shift.
Definition ht_grow_cap (c : nat) : nat :=
  (Nat.max c (N.to_nat ht_grow_min) * N.to_nat ht_grow_mul) / N.to_nat ht_grow_div.
Definition ht_min_cap_nat : nat := N.to_nat ht_min_cap.
Definition ht_reserve_cap (n : nat) : nat :=
  N.to_nat (f32_mul_trunc_N ht_reserve_num ht_reserve_shift (N.of_nat n)).
