(* C06, refinement through the compiler, fragment FC: the reference half, part 3 - the cards of main (declarations of
   data locals and of closures, the call of a closure) and the whole program:
   eval_program computes the direct meaning [obs_fc]. *)
From Coq Require Import List NArith ZArith Bool Lia.
From Cao Require Import CheckUtil Bits CardAst Table TableProofs StdlibGen RefSem
     C01SimDefs C01SimRef C01SimDefs2 C01SimRef2 C01SimDefs4 C01SimDefs5 C01SimRef5 C06Proofs
     C06SimFcDefs C06SimFcRef C06SimFcRef2.
From Cao Require C01SimF1.
Import ListNotations.

Lemma smem_map_fst n (R : lstore) : smem n (map fst R) = match assoc n R with Some _ => true | None => false end.
Proof.
  induction R as [|[k v] r IH]; cbn [map fst smem existsb assoc]; [reflexivity|].
  destruct (str_eqb n k); [reflexivity|]. exact IH.
Qed.
Lemma lmem_cons n x Ln : lmem n (x :: Ln) = if str_eqb n x then true else lmem n Ln.
Proof. unfold lmem. cbn [find_first]. destruct (str_eqb n x); [reflexivity|]. destruct (find_first n Ln); reflexivity. Qed.

(* ---- syntax: the two shapes of a SetVar / SetGlobalVar card of main ---- *)
Lemma top_setvar_shape Ln Lc x v : top_fc Ln Lc (CSetVar x v) = true ->
  (expr_f1 v = true /\ var_ok x = true /\ smem x Lc = false /\ expr_fc Lc v = true /\
   (forall R C g, run_top_fc R C g (CSetVar x v) =
      match ev (R ++ g) v with Some w => (true, sets_local x w R, C, g) | None => (false, R, C, g) end) /\
   clos_next Lc (CSetVar x v) = Lc) \/
  (exists body, v = CClosure [] body /\ var_ok x = true /\ lmem x Ln = false /\ forallb (bstmt_fc Ln Lc) body = true).
Proof.
  intros H. destruct (expr_f1 v) eqn:Ef.
  - left. destruct v; cbn [expr_f1] in Ef; try discriminate Ef; cbn [top_fc] in H;
      apply andb_true_iff in H; destruct H as [H He]; apply andb_true_iff in H; destruct H as [Hx Hc];
      apply negb_true_iff in Hc; repeat split; auto.
  - right. destruct v; cbn [top_fc] in H;
      try (unfold expr_fc in H; rewrite Ef in H; cbn [andb] in H; rewrite andb_false_r in H; discriminate H).
    match type of H with context [CClosure ?aa _] => destruct aa end;
      [|unfold expr_fc in H; rewrite Ef in H; cbn [andb] in H; rewrite andb_false_r in H; discriminate H].
    apply andb_true_iff in H. destruct H as [H Hb]. apply andb_true_iff in H. destruct H as [Hx Hl].
    apply negb_true_iff in Hl. match type of Hb with context [forallb _ ?bb] => exists bb end. auto.
Qed.

Lemma top_setglobal_shape Ln Lc r v : top_fc Ln Lc (CSetGlobalVar r v) = true ->
  (is_empty r = false /\ expr_fc Lc v = true /\
   (forall R C g, run_top_fc R C g (CSetGlobalVar r v) =
      match ev (R ++ g) v with Some w => (true, R, C, set_assoc r w g) | None => (false, R, C, g) end)) \/
  (exists x, v = CDynamicCall (CReadVar x) [] /\ is_empty r = false /\ var_ok x = true /\ smem x Lc = true).
Proof.
  intros H. destruct (expr_f1 v) eqn:Ef.
  - left. destruct v; cbn [expr_f1] in Ef; try discriminate Ef; cbn [top_fc] in H;
      apply andb_true_iff in H; destruct H as [Hr He]; apply negb_true_iff in Hr; repeat split; auto.
  - right. destruct v; cbn [top_fc] in H;
      try (unfold expr_fc in H; rewrite Ef in H; cbn [andb] in H; rewrite andb_false_r in H; discriminate H).
    match type of H with context [CDynamicCall ?ff _] => destruct ff end; cbn [top_fc] in H;
      try (unfold expr_fc in H; cbn [expr_f1 andb] in H; rewrite andb_false_r in H; discriminate H).
    match type of H with context [CDynamicCall _ ?aa] => destruct aa end;
      [|unfold expr_fc in H; cbn [expr_f1 andb] in H; rewrite andb_false_r in H; discriminate H].
    apply andb_true_iff in H. destruct H as [H Hc]. apply andb_true_iff in H. destruct H as [Hr Hx].
    apply negb_true_iff in Hr. match type of Hx with context [var_ok ?nn] => exists nn end. auto.
Qed.

Section Eval.
Variable P : list fentry.
Variable host : list str.
Variable limit : N.
Variable fi : nat.
Notation evalf := (eval P host limit).
Notation inv := (inv fi).
Notation clos_ok := (clos_ok fi).

(* ---- declarations ---- *)
Lemma clos_ok_ext s s' sc x c R R' (C C' : cstore) y :
  clos_ok s sc R C y -> assoc x sc = None ->
  (exists l, st_cells s' = st_cells s ++ l) -> (exists l, st_clos s' = st_clos s ++ l) ->
  (forall n, assoc n R <> None -> assoc n R' <> None) ->
  assoc y C' = assoc y C ->
  clos_ok s' ((x, c) :: sc) R' C' y.
Proof.
  intros (cy & k & body & vis & scx & A & B & Cc & D & E & (Lnk & Lck & S1 & S2 & S3 & S4)) Hx [l1 Hl1] [l2 Hl2] HR HC.
  assert (Hyx : str_eqb y x = false).
  { destruct (str_eqb y x) eqn:E0; [|reflexivity]. apply str_eqb_eq in E0. subst y. congruence. }
  exists cy, k, body, vis, scx. cbn [assoc]. rewrite Hyx, Hl1, Hl2, HC.
  split; [exact A|]. split; [rewrite nth_error_app1; [exact B | apply nth_error_Some; congruence]|].
  split; [exact Cc|]. split; [rewrite nth_error_app1; [exact D | apply nth_error_Some; congruence]|].
  split; [intros n Hn; apply HR, E, Hn|].
  exists Lnk, Lck. split; [exact S1|]. split; [exact S2|]. split; [|exact S4].
  intros n Hn. destruct (S3 n Hn) as [U V]. cbn [assoc].
  assert (Hnx : str_eqb n x = false).
  { destruct (str_eqb n x) eqn:E0; [|reflexivity]. apply str_eqb_eq in E0. subst n. congruence. }
  rewrite Hnx. auto.
Qed.

Lemma inv_declare_data s sc R C g Ln Lc x v :
  inv s sc R C g Ln Lc -> smem x Lc = false -> assoc x sc = None -> simple v ->
  inv (set_cells (st_cells s ++ [v]) s) ((x, length (st_cells s)) :: sc) ((x, v) :: R) C g (x :: Ln) Lc.
Proof.
  intros (H1 & H2 & H3 & H4 & H5 & H6 & H7 & H8 & H9) Hxc Hx Hv.
  unfold C06SimFcRef2.inv. cbn [set_cells st_heap st_globals st_cells st_clos].
  split; [exact H1|]. split; [exact H2|]. split; [cbn [app]; constructor; [exact Hv | exact H3]|].
  split.
  { intros n Hn. cbn [assoc]. destruct (str_eqb n x) eqn:E.
    - exists (length (st_cells s)). split; [reflexivity|]. rewrite nth_error_app2 by lia. rewrite Nat.sub_diag. reflexivity.
    - pose proof (H4 n Hn) as Hm. destruct (assoc n R) as [w|]; [|exact Hm]. destruct Hm as (c' & A & B).
      exists c'. split; [exact A|]. rewrite nth_error_app1; [exact B | eapply H6; exact A]. }
  split.
  { intros n m c. cbn [assoc]. destruct (str_eqb n x) eqn:En; destruct (str_eqb m x) eqn:Em; intros A B.
    - apply str_eqb_eq in En, Em. congruence.
    - injection A as <-. apply H6 in B. lia.
    - injection B as <-. apply H6 in A. lia.
    - eapply H5; eassumption. }
  split.
  { intros n c. cbn [assoc]. rewrite app_length. cbn [length]. destruct (str_eqb n x); intros A.
    - injection A as <-. lia.
    - apply H6 in A. lia. }
  split.
  { intros n. rewrite lmem_cons. cbn [assoc]. destruct (str_eqb n x); [reflexivity | apply H7]. }
  split.
  { intros n Hn. cbn [assoc]. destruct (str_eqb n x) eqn:E; [apply str_eqb_eq in E; subst n; congruence | apply H8, Hn]. }
  intros y Hy. eapply clos_ok_ext; [apply H9, Hy | exact Hx | eexists; reflexivity | exists []; rewrite app_nil_r; reflexivity | | reflexivity].
  intros n Hn. cbn [assoc]. destruct (str_eqb n x); [discriminate | exact Hn].
Qed.

Lemma inv_declare_clos s sc R C g Ln Lc x body :
  inv s sc R C g Ln Lc -> assoc x sc = None -> forallb (bstmt_fc Ln Lc) body = true ->
  inv (set_cells (st_cells s ++ [VClosure (length (st_clos s))])
         (set_clos (st_clos s ++ [{| cl_params := []; cl_body := body; cl_up := [sc]; cl_fi := fi |}]) s))
      ((x, length (st_cells s)) :: sc) R ((x, (body, map fst R)) :: C) g (x :: Ln) (x :: Lc).
Proof.
  intros (H1 & H2 & H3 & H4 & H5 & H6 & H7 & H8 & H9) Hx Hb.
  assert (HxR : assoc x R = None).
  { destruct (smem x Lc) eqn:E; [apply H8, E|]. pose proof (H4 x E) as Hm.
    destruct (assoc x R); [|reflexivity]. destruct Hm as (c & A & _). congruence. }
  unfold C06SimFcRef2.inv. cbn [set_cells set_clos st_heap st_globals st_cells st_clos].
  split; [exact H1|]. split; [exact H2|]. split; [exact H3|].
  split.
  { intros n Hn. cbn [smem existsb] in Hn. apply orb_false_iff in Hn. destruct Hn as [En Hn]. cbn [assoc]. rewrite En.
    pose proof (H4 n Hn) as Hm. destruct (assoc n R) as [w|]; [|exact Hm]. destruct Hm as (c' & A & B).
    exists c'. split; [exact A|]. rewrite nth_error_app1; [exact B | eapply H6; exact A]. }
  split.
  { intros n m c. cbn [assoc]. destruct (str_eqb n x) eqn:En; destruct (str_eqb m x) eqn:Em; intros A B.
    - apply str_eqb_eq in En, Em. congruence.
    - injection A as <-. apply H6 in B. lia.
    - injection B as <-. apply H6 in A. lia.
    - eapply H5; eassumption. }
  split.
  { intros n c. cbn [assoc]. rewrite app_length. cbn [length]. destruct (str_eqb n x); intros A.
    - injection A as <-. lia.
    - apply H6 in A. lia. }
  split.
  { intros n. rewrite lmem_cons. cbn [assoc]. destruct (str_eqb n x); [reflexivity | apply H7]. }
  split.
  { intros n Hn. cbn [smem existsb] in Hn. apply orb_true_iff in Hn. destruct Hn as [En|Hn].
    - apply str_eqb_eq in En. subst n. exact HxR.
    - apply H8, Hn. }
  intros y Hy. cbn [smem existsb] in Hy. destruct (str_eqb y x) eqn:Eyx.
  - apply str_eqb_eq in Eyx. subst y.
    exists (length (st_cells s)), (length (st_clos s)), body, (map fst R), sc.
    cbn [assoc set_cells set_clos st_cells st_clos]. rewrite str_eqb_rfl.
    split; [reflexivity|]. split; [rewrite nth_error_app2 by lia; rewrite Nat.sub_diag; reflexivity|].
    split; [reflexivity|]. split; [rewrite nth_error_app2 by lia; rewrite Nat.sub_diag; reflexivity|].
    split; [intros n Hn; rewrite smem_map_fst in Hn; destruct (assoc n R); [discriminate | discriminate Hn]|].
    exists Ln, Lc. split; [exact Hb|]. split.
    { intros n Hn. rewrite smem_map_fst, H7. pose proof (H4 n Hn) as Hm.
      destruct (assoc n R); [destruct Hm as (c & A & _); rewrite A; reflexivity | rewrite Hm; reflexivity]. }
    split.
    { intros n Hn. rewrite H7 in Hn. cbn [assoc].
      assert (Hnx : str_eqb n x = false).
      { destruct (str_eqb n x) eqn:E0; [|reflexivity]. apply str_eqb_eq in E0. subst n. rewrite Hx in Hn. discriminate Hn. }
      rewrite Hnx. split; [reflexivity|]. destruct (assoc n sc); [discriminate | discriminate Hn]. }
    intros n Hn. rewrite H7 in Hn. destruct (assoc n sc); [discriminate Hn | reflexivity].
  - cbn [orb] in Hy.
    eapply clos_ok_ext; [apply H9, Hy | exact Hx | eexists; reflexivity | eexists; reflexivity | auto |].
    cbn [assoc]. rewrite Eyx. reflexivity.
Qed.

(* ---- the call of a closure ---- *)
Lemma eval_args_nil fuel en s :
  evalf fuel (TkArgs false fi en []) s = RFuel \/
  exists s', evalf fuel (TkArgs false fi en []) s = ok [] en s' /\ same_mem s s'.
Proof.
  destruct fuel as [|f]; [left; reflexivity|]. cbn [eval]. unfold F.
  destruct (limit <? st_steps s)%N; [left; reflexivity|]. right. exists (bump s). split; [reflexivity | apply same_mem_bump].
Qed.

Lemma eval_read_clos fuel s sc x c k :
  var_ok x = true -> assoc x sc = Some c -> nth_error (st_cells s) c = Some (VClosure k) ->
  evalf fuel (TkArgs false fi (menv sc) [CReadVar x]) s = RFuel \/
  exists s', evalf fuel (TkArgs false fi (menv sc) [CReadVar x]) s = ok [VClosure k] (menv sc) s' /\ same_mem s s'.
Proof.
  intros Hx Hc Hcell. unfold var_ok in Hx. apply andb_true_iff in Hx. destruct Hx as [Hne Hdot].
  apply negb_true_iff in Hne, Hdot.
  assert (Hne' : is_empty x = false) by (destruct x; [discriminate Hne | reflexivity]).
  destruct fuel as [|f]; [left; reflexivity|]. cbn [eval]. unfold F.
  destruct (limit <? st_steps s)%N; [left; reflexivity|].
  assert (E1 : evalf f (TkCard fi (menv sc) (CReadVar x)) (bump s) = RFuel \/
               evalf f (TkCard fi (menv sc) (CReadVar x)) (bump s) = ok [VClosure k] (menv sc) (bump (bump s))).
  { destruct f as [|f']; [left; reflexivity|]. cbn [eval]. unfold F.
    destruct (limit <? st_steps (bump s))%N; [left; reflexivity|]. right.
    cbn [eval_card]. unfold read_var. rewrite (split_no_dot _ Hdot), Hne', lookup_menv, Hc.
    cbn [bump st_cells]. rewrite Hcell. reflexivity. }
  destruct E1 as [E1|E1]; rewrite E1; cbn [bnd ok].
  - left; reflexivity.
  - destruct (eval_args_nil f (menv sc) (bump (bump s))) as [E2|(s' & E2 & Hs')]; rewrite E2; cbn [bnd ok].
    + left; reflexivity.
    + right. exists s'. split; [reflexivity|].
      eapply same_mem_trans; [apply same_mem_bump|]. eapply same_mem_trans; [apply same_mem_bump | exact Hs'].
Qed.

Lemma eval_args_closure fuel en s body :
  evalf fuel (TkArgs false fi en [CClosure [] body]) s = RFuel \/
  exists s', evalf fuel (TkArgs false fi en [CClosure [] body]) s = ok [VClosure (length (st_clos s))] en s' /\
             st_cells s' = st_cells s /\ st_heap s' = st_heap s /\ st_globals s' = st_globals s /\
             st_clos s' = st_clos s ++ [{| cl_params := []; cl_body := body; cl_up := e_scopes en ++ e_up en; cl_fi := fi |}].
Proof.
  destruct fuel as [|f]; [left; reflexivity|]. cbn [eval]. unfold F.
  destruct (limit <? st_steps s)%N; [left; reflexivity|].
  assert (E1 : evalf f (TkCard fi en (CClosure [] body)) (bump s) = RFuel \/
               evalf f (TkCard fi en (CClosure [] body)) (bump s) =
               ok [VClosure (length (st_clos s))] en
                  (set_clos (st_clos s ++ [{| cl_params := []; cl_body := body; cl_up := e_scopes en ++ e_up en; cl_fi := fi |}])
                            (bump (bump s)))).
  { destruct f as [|f']; [left; reflexivity|]. cbn [eval]. unfold F.
    destruct (limit <? st_steps (bump s))%N; [left; reflexivity|]. right. reflexivity. }
  destruct E1 as [E1|E1]; rewrite E1; cbn [bnd ok].
  - left; reflexivity.
  - match goal with |- context [evalf f (TkArgs false fi en []) ?st] =>
      destruct (eval_args_nil f en st) as [E2|(s' & E2 & Hs')]; rewrite E2; cbn [bnd ok] end.
    + left; reflexivity.
    + right. exists s'. split; [reflexivity|]. destruct Hs' as (Q1 & Q2 & Q3 & Q4).
      rewrite Q1, Q2, Q3, Q4. cbn. repeat split; reflexivity.
Qed.

Definition call_res (r : res) (en : env) (sc : scope) (vis : list str) (R : lstore) (C : cstore) (g : gl)
           (Ln Lc : list str) (body : list card) : Prop :=
  r = RFuel \/
  (exists s' R' g', r = ok [VNil] en s' /\ run_body vis R g body = (true, R', g') /\ inv s' sc R' C g' Ln Lc) \/
  (exists e' s' R' g', r = err EVarNotFound e' s' /\ run_body vis R g body = (false, R', g') /\
                       st_heap s' = [] /\ st_globals s' = g' /\ simples g').

Lemma eval_callval fuel s sc R C g Ln Lc x c k body vis scx :
  inv s sc R C g Ln Lc ->
  nth_error (st_clos s) k = Some {| cl_params := []; cl_body := body; cl_up := [scx]; cl_fi := fi |} ->
  (forall n, smem n vis = true -> assoc n R <> None) ->
  clos_static sc body vis scx ->
  assoc x sc = Some c ->
  call_res (evalf fuel (TkCallVal (VClosure k) []) s) empty_env sc vis R C g Ln Lc body.
Proof.
  intros Hinv Hk Hvis (Lnk & Lck & S1 & S2 & S3 & S4) _.
  destruct fuel as [|f]; [left; reflexivity|]. cbn [eval]. unfold F.
  destruct (limit <? st_steps s)%N; [left; reflexivity|].
  cbn [bump st_clos]. rewrite Hk. unfold call_body. cbn [cl_params cl_body cl_up cl_fi length Nat.ltb Nat.leb].
  unfold bind_params. cbn [rev combine fold_left].
  pose proof (inv_same _ _ _ _ _ _ _ _ _ (same_mem_bump s) Hinv) as Hinvb.
  change (call_res (finish_call (evalf f (TkSeq fi (cenv scx) body) (bump s))) empty_env sc vis R C g Ln Lc body).
  destruct (eval_body P host limit fi Lnk Lck vis scx sc C Ln Lc S2 S3 S4 body S1 f (bump s) R g Hinvb Hvis)
    as [E|[(vs & s1 & R1 & g1 & E & Hr1 & Hinv1 & _)|(e1 & s1 & R1 & g1 & E & Hr1 & Hrest)]];
    rewrite E; cbn [finish_call ok err].
  - left; reflexivity.
  - right; left. exists s1, R1, g1. auto.
  - right; right. exists empty_env, s1, R1, g1. auto.
Qed.

Lemma eval_dyncall fuel s sc R C g Ln Lc x :
  inv s sc R C g Ln Lc -> var_ok x = true -> smem x Lc = true ->
  exists body vis, assoc x C = Some (body, vis) /\
    call_res (evalf fuel (TkCard fi (menv sc) (CDynamicCall (CReadVar x) [])) s) (menv sc) sc vis R C g Ln Lc body.
Proof.
  intros Hinv Hx Hxc. pose proof Hinv as (_ & _ & _ & _ & _ & _ & _ & _ & H9).
  destruct (H9 x Hxc) as (c & k & body & vis & scx & A & B & Cc & D & E & F0).
  exists body, vis. split; [exact Cc|].
  destruct fuel as [|f]; [left; reflexivity|]. cbn [eval]. unfold F at 1.
  destruct (limit <? st_steps s)%N; [left; reflexivity|]. cbn [eval_card].
  destruct (eval_args_nil f (menv sc) (bump s)) as [E1|(s1 & E1 & Hs1)]; rewrite E1; cbn [bnd ok].
  { left; reflexivity. }
  assert (Hm1 : same_mem s s1) by (eapply same_mem_trans; [apply same_mem_bump | exact Hs1]).
  assert (B1 : nth_error (st_cells s1) c = Some (VClosure k)) by (destruct Hm1 as (X & _); rewrite X; exact B).
  destruct (eval_read_clos f s1 sc x c k Hx A B1) as [E2|(s2 & E2 & Hs2)]; rewrite E2; cbn [bnd ok one].
  { left; reflexivity. }
  assert (Hm2 : same_mem s s2) by (eapply same_mem_trans; eassumption).
  pose proof (inv_same _ _ _ _ _ _ _ _ _ Hm2 Hinv) as Hinv2.
  assert (D2 : nth_error (st_clos s2) k = Some {| cl_params := []; cl_body := body; cl_up := [scx]; cl_fi := fi |})
    by (destruct Hm2 as (_ & _ & X & _); rewrite X; exact D).
  destruct (eval_callval f s2 sc R C g Ln Lc x c k body vis scx Hinv2 D2 E F0 A)
    as [E3|[(s3 & R3 & g3 & E3 & Hr3 & Hinv3)|(e3 & s3 & R3 & g3 & E3 & Hr3 & Hrest)]]; rewrite E3; cbn [bnd ok err].
  - left; reflexivity.
  - right; left. exists s3, R3, g3. auto.
  - right; right. exists e3, s3, R3, g3. auto.
Qed.

(* ---- a card of main ---- *)
Definition top_res (r : res) (R : lstore) (C : cstore) (g : gl) (Ln Lc : list str) (c : card) : Prop :=
  r = RFuel \/
  (exists s' sc' R' C' g', r = ok [] (menv sc') s' /\ run_top_fc R C g c = (true, R', C', g') /\
                           inv s' sc' R' C' g' (names_next Ln c) (clos_next Lc c)) \/
  (exists e' s' R' C' g', r = err EVarNotFound e' s' /\ run_top_fc R C g c = (false, R', C', g') /\
                          st_heap s' = [] /\ st_globals s' = g' /\ simples g').

Lemma eval_top c Ln Lc : top_fc Ln Lc c = true ->
  forall fuel s sc R C g, inv s sc R C g Ln Lc ->
    top_res (evalf fuel (TkCard fi (menv sc) c) s) R C g Ln Lc c.
Proof.
  intros Hc fuel s sc R C g Hinv.
  destruct fuel as [|f]; [left; reflexivity|]. cbn [eval]. unfold F at 1.
  destruct (limit <? st_steps s)%N; [left; reflexivity|].
  pose proof (inv_same _ _ _ _ _ _ _ _ _ (same_mem_bump s) Hinv) as Hinvb.
  pose proof (vars_ok_menv _ _ _ _ _ _ _ _ Hinvb) as Hvo.
  destruct c; try discriminate Hc.
  - (* SetGlobalVar *)
    destruct (top_setglobal_shape _ _ _ _ Hc) as [(Hne & He & Hrun)|(x & -> & Hne & Hx & Hxc)]; cbn [eval_card].
    + pose proof (eval_condC P host limit fi _ _ He f (menv sc) (bump s) R g Hvo)
        as [E|[(v & s1 & E & Hv & Hsv & Hs1)|(s1 & E & Hv & Hs1)]]; cbn zeta in E; rewrite E; cbn [bnd ok err one].
      * left; reflexivity.
      * rewrite Hne. pose proof (inv_same _ _ _ _ _ _ _ _ _ Hs1 Hinvb) as Hinv1.
        pose proof (inv_set_global _ _ _ _ _ _ _ _ name v Hinv1 Hsv) as Hinv2.
        right; left. eexists _, sc, R, C, (set_assoc name v g). rewrite Hrun, Hv.
        split; [reflexivity|]. split; [reflexivity|].
        replace (names_next Ln (CSetGlobalVar name c)) with Ln by reflexivity.
        replace (clos_next Lc (CSetGlobalVar name c)) with Lc by reflexivity. exact Hinv2.
      * right; right. exists (menv sc), s1, R, C, g. rewrite Hrun, Hv. split; [reflexivity|]. split; [reflexivity|].
        pose proof (inv_same _ _ _ _ _ _ _ _ _ Hs1 Hinvb) as Hinv1. eapply inv_globals_simple, Hinv1.
    + (* the call *)
      destruct f as [|f']; [left; reflexivity|]. cbn [eval]. unfold F at 1.
      destruct (limit <? st_steps (bump s))%N; [left; reflexivity|].
      pose proof (inv_same _ _ _ _ _ _ _ _ _ (same_mem_bump (bump s)) Hinvb) as Hinvbb.
      destruct (eval_dyncall f' (bump (bump s)) sc R C g Ln Lc x Hinvbb Hx Hxc) as (body & vis & HC & Hcall).
      cbn [run_top_fc]. unfold top_res. cbn [run_top_fc]. rewrite HC.
      destruct Hcall as [E|[(s3 & R3 & g3 & E & Hr3 & Hinv3)|(e3 & s3 & R3 & g3 & E & Hr3 & Hrest)]]; rewrite E; cbn [bnd ok err].
      * left; reflexivity.
      * destruct (eval_args_nil f' (menv sc) s3) as [E4|(s4 & E4 & Hs4)]; rewrite E4; cbn [bnd ok one].
        { left; reflexivity. }
        rewrite Hne. pose proof (inv_same _ _ _ _ _ _ _ _ _ Hs4 Hinv3) as Hinv4.
        pose proof (inv_set_global _ _ _ _ _ _ _ _ name VNil Hinv4 I) as Hinv5.
        right; left. eexists _, sc, R3, C, (set_assoc name VNil g3). rewrite Hr3.
        split; [reflexivity|]. split; [reflexivity|]. exact Hinv5.
      * right; right. exists e3, s3, R3, C, g3. rewrite Hr3. auto.
  - (* SetVar *)
    destruct (top_setvar_shape _ _ _ _ Hc) as [(Hef & Hx & Hxc & He & Hrun & Hcn)|(body & -> & Hx & Hxl & Hb)]; cbn [eval_card].
    + unfold var_ok in Hx. apply andb_true_iff in Hx. destruct Hx as [Hne Hdot]. apply negb_true_iff in Hne, Hdot.
      assert (Hne' : is_empty name = false) by (destruct name; [discriminate Hne | reflexivity]).
      pose proof (eval_condC P host limit fi _ _ He f (menv sc) (bump s) R g Hvo)
        as [E|[(v & s1 & E & Hv & Hsv & Hs1)|(s1 & E & Hv & Hs1)]]; cbn zeta in E; rewrite E; cbn [bnd ok err one].
      * left; reflexivity.
      * rewrite (rsplit_no_dot _ Hdot), Hne', lookup_menv.
        pose proof (inv_same _ _ _ _ _ _ _ _ _ Hs1 Hinvb) as Hinv1.
        pose proof Hinv1 as (_ & _ & _ & X4 & _ & _ & X7 & _). specialize (X4 name Hxc).
        unfold top_res. rewrite Hrun, Hv, Hcn. unfold sets_local. rewrite lmem_assoc.
        cbn [names_next]. rewrite X7.
        destruct (assoc name R) as [old|] eqn:Eold.
        -- destruct X4 as (c0 & Hc0 & _). rewrite Hc0.
           right; left. eexists _, sc, _, C, g. split; [reflexivity|]. split; [reflexivity|].
           eapply inv_set_local; eassumption.
        -- rewrite X4. unfold declare, alloc_cell. cbn [menv e_scopes e_up].
           right; left. eexists _, _, _, C, g. split; [reflexivity|]. split; [reflexivity|].
           apply inv_declare_data; assumption.
      * right; right. exists (menv sc), s1, R, C, g. rewrite Hrun, Hv. split; [reflexivity|]. split; [reflexivity|].
        pose proof (inv_same _ _ _ _ _ _ _ _ _ Hs1 Hinvb) as Hinv1. eapply inv_globals_simple, Hinv1.
    + (* a closure is created *)
      unfold var_ok in Hx. apply andb_true_iff in Hx. destruct Hx as [Hne Hdot]. apply negb_true_iff in Hne, Hdot.
      assert (Hne' : is_empty name = false) by (destruct name; [discriminate Hne | reflexivity]).
      destruct (eval_args_closure f (menv sc) (bump s) body) as [E1|(s1 & E1 & Q1 & Q2 & Q4 & Q3)]; rewrite E1; cbn [bnd ok one].
      { left; reflexivity. }
      rewrite (rsplit_no_dot _ Hdot), Hne', lookup_menv.
      pose proof Hinvb as (_ & _ & _ & _ & _ & _ & X7 & _). pose proof (X7 name) as Hl. rewrite Hxl in Hl.
      destruct (assoc name sc) eqn:Esc; [discriminate Hl|].
      unfold declare, alloc_cell. cbn [menv e_scopes e_up].
      right; left. eexists _, _, R, _, g. split; [reflexivity|]. cbn [run_top_fc names_next clos_next]. rewrite Hxl.
      split; [reflexivity|].
      pose proof (inv_declare_clos _ _ _ _ _ _ _ name body Hinvb Esc Hb) as Hd.
      rewrite Q1. eapply inv_same; [|exact Hd]. unfold same_mem.
      cbn [set_cells set_clos st_cells st_heap st_clos st_globals menv e_scopes e_up app] in *.
      rewrite Q2, Q3, Q4. repeat split; reflexivity.
Qed.
End Eval.
