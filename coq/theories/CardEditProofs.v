(* Proofs about the model of the module editing API (CardEdit.v) and its rose-tree
   specification (CardEditSpec.v).  Structure:
   1. children_agree; nested induction principle for [card]; the abstraction [to_rose] is injective
   2. the lens returned by get_child_mut; remove_child / insert_child / replace_child kind by kind
      against the generic node edits of the specification
   3. path level and module level: get_card(_mut) / replace / remove / insert refine the
      specification ([*_refines]); replace_back, failed edits are no-ops
   4. walk_cards: every reported pair looks up (walk_lookup)
   5. algebra of subtree lookup / replacement on rose trees; the CardIndex order; swap_cards refines
      spec_swap; swap_involutive; swapping with an ancestor fails
   6. walk_cards refines the pre-order listing; [step_refines] for every operation, [run_refines]
   7. walk completeness and uniqueness; remove_insert at list positions; locality of
      replace / swap / insert / remove
   8. witnesses for the three repaired findings over the *_legacy definitions
   Nothing of the C16 statement is left open in this file. *)
From Coq Require Import FinFun.
From Cao Require Import ListUtil CheckUtil CardAst CardEdit CardEditSpec.

Lemma nth_error_nil {A} i : @nth_error A [] i = None.
Proof. destruct i; reflexivity. Qed.

Theorem children_agree : forall c i,
  get_child c i = nth_error (iter_children c) i /\ length (iter_children c) = num_children c.
Proof.
  intros c i; split.
  - destruct c; try destruct op; cbn [get_child iter_children]; rewrite ?nth_error_nil; try reflexivity;
      destruct i as [|[|[|i]]]; cbn; rewrite ?Nat.sub_0_r, ?nth_error_nil; reflexivity.
  - destruct c; reflexivity.
Qed.

Section CardInd.
  Variable P : card -> Prop.
  Hypothesis Hbin : forall o a b, P a -> P b -> P (CBin o a b).
  Hypothesis Hun : forall o a, P a -> P (CUn o a).
  Hypothesis Htri : forall o a b c, P a -> P b -> P c -> P (CTri o a b c).
  Hypothesis Hnil : P CScalarNil.
  Hypothesis Hct : P CCreateTable.
  Hypothesis Habort : P CAbort.
  Hypothesis Hint : forall i, P (CScalarInt i).
  Hypothesis Hfloat : forall b, P (CScalarFloat b).
  Hypothesis Hstr : forall s, P (CStringLiteral s).
  Hypothesis Hcomment : forall s, P (CComment s).
  Hypothesis Hfn : forall s, P (CFunction s).
  Hypothesis Hnfn : forall s, P (CNativeFunction s).
  Hypothesis Hread : forall s, P (CReadVar s).
  Hypothesis Hcalln : forall s args, Forall P args -> P (CCallNative s args).
  Hypothesis Hcall : forall s args, Forall P args -> P (CCall s args).
  Hypothesis Hdyn : forall f args, P f -> Forall P args -> P (CDynamicCall f args).
  Hypothesis Hsetg : forall s v, P v -> P (CSetGlobalVar s v).
  Hypothesis Hsetv : forall s v, P v -> P (CSetVar s v).
  Hypothesis Hrepeat : forall i n b, P n -> P b -> P (CRepeat i n b).
  Hypothesis Hforeach : forall i k v a b, P a -> P b -> P (CForEach i k v a b).
  Hypothesis Hcomp : forall ty cards, Forall P cards -> P (CComposite ty cards).
  Hypothesis Harray : forall cards, Forall P cards -> P (CArray cards).
  Hypothesis Hclosure : forall args cards, Forall P cards -> P (CClosure args cards).

  Fixpoint card_ind' (c : card) : P c :=
    let fix all (l : list card) : Forall P l :=
        match l with
        | [] => Forall_nil P
        | x :: t => Forall_cons x (card_ind' x) (all t)
        end in
    match c with
    | CBin o a b => Hbin o a b (card_ind' a) (card_ind' b)
    | CUn o a => Hun o a (card_ind' a)
    | CTri o a b c' => Htri o a b c' (card_ind' a) (card_ind' b) (card_ind' c')
    | CScalarNil => Hnil
    | CCreateTable => Hct
    | CAbort => Habort
    | CScalarInt i => Hint i
    | CScalarFloat b => Hfloat b
    | CStringLiteral s => Hstr s
    | CComment s => Hcomment s
    | CFunction s => Hfn s
    | CNativeFunction s => Hnfn s
    | CReadVar s => Hread s
    | CCallNative s args => Hcalln s args (all args)
    | CCall s args => Hcall s args (all args)
    | CDynamicCall f args => Hdyn f args (card_ind' f) (all args)
    | CSetGlobalVar s v => Hsetg s v (card_ind' v)
    | CSetVar s v => Hsetv s v (card_ind' v)
    | CRepeat i n b => Hrepeat i n b (card_ind' n) (card_ind' b)
    | CForEach i k v a b => Hforeach i k v a b (card_ind' a) (card_ind' b)
    | CComposite ty cards => Hcomp ty cards (all cards)
    | CArray cards => Harray cards (all cards)
    | CClosure args cards => Hclosure args cards (all cards)
    end.
End CardInd.

Lemma to_rose_go l :
  (fix go (l : list card) : list rose := match l with [] => [] | x :: t => to_rose x :: go t end) l
  = map to_rose l.
Proof. induction l; cbn; congruence. Qed.

Definition label_of (c : card) : label :=
  match c with
  | CBin o _ _ => LBin o | CUn o _ => LUn o | CTri o _ _ _ => LTri o
  | CScalarNil => LNil | CCreateTable => LCreateTable | CAbort => LAbort
  | CScalarInt i => LInt i | CScalarFloat b => LFloat b | CStringLiteral s => LStr s
  | CComment s => LComment s | CFunction s => LFunction s | CNativeFunction s => LNativeFunction s
  | CReadVar s => LReadVar s | CCallNative s _ => LCallNative s | CCall s _ => LCall s
  | CDynamicCall _ _ => LDynamicCall | CSetGlobalVar s _ => LSetGlobalVar s | CSetVar s _ => LSetVar s
  | CRepeat i _ _ => LRepeat i | CForEach i k v _ _ => LForEach i k v
  | CComposite ty _ => LComposite ty | CArray _ => LArray | CClosure a _ => LClosure a
  end.

Lemma to_rose_eq c : to_rose c = RNode (label_of c) (map to_rose (iter_children c)).
Proof. destruct c; cbn; rewrite ?to_rose_go; reflexivity. Qed.

Lemma to_rose_kids c : rkids (to_rose c) = map to_rose (iter_children c).
Proof. rewrite to_rose_eq; reflexivity. Qed.

Lemma to_rose_label c : rlabel (to_rose c) = label_of c.
Proof. rewrite to_rose_eq; reflexivity. Qed.

Lemma map_inj_Forall {A B} (f : A -> B) l :
  Forall (fun x => forall y, f x = f y -> x = y) l -> forall l', map f l = map f l' -> l = l'.
Proof.
  induction 1 as [|x l Hx _ IH]; intros [|y l'] E; cbn in E; try discriminate; auto.
  injection E as E1 E2. f_equal; auto.
Qed.

Theorem to_rose_inj : forall c c', to_rose c = to_rose c' -> c = c'.
Proof.
  induction c using card_ind'; intros c' E; rewrite (to_rose_eq c'), to_rose_eq in E;
    destruct c'; cbn [label_of iter_children map] in E;
    try discriminate; try reflexivity; injection E; intros; subst;
    repeat match goal with
           | H : forall y, to_rose ?a = to_rose y -> ?a = y, E : to_rose ?a = to_rose _ |- _ =>
               apply H in E; subst
           | H : Forall _ ?l, E : map to_rose ?l = map to_rose _ |- _ =>
               apply (map_inj_Forall to_rose l H) in E; subst
           end; reflexivity.
Qed.

(* ---- list toolkit ---- *)
Lemma map_upd {A B} (f : A -> B) l i x : map f (upd l i x) = upd (map f l) i (f x).
Proof. revert i; induction l; intros [|i]; cbn; congruence. Qed.
Lemma map_remove_nth {A B} (f : A -> B) l i : map f (remove_nth l i) = remove_nth (map f l) i.
Proof. revert i; induction l; intros [|i]; cbn; congruence. Qed.
Lemma map_insert_nth {A B} (f : A -> B) l i x : map f (insert_nth l i x) = insert_nth (map f l) i (f x).
Proof. revert l; induction i; intros [|a l]; cbn; try congruence. Qed.
Lemma nth_error_upd_same {A} (l : list A) i x : i < length l -> nth_error (upd l i x) i = Some x.
Proof. revert i; induction l; intros [|i] H; cbn in *; try lia; auto. apply IHl; lia. Qed.
Lemma nth_error_upd_other {A} (l : list A) i j x : i <> j -> nth_error (upd l i x) j = nth_error l j.
Proof. revert i j; induction l; intros [|i] [|j] H; cbn; auto; try lia. Qed.
Lemma upd_upd {A} (l : list A) i x y : upd (upd l i x) i y = upd l i y.
Proof. revert i; induction l; intros [|i]; cbn; congruence. Qed.
Lemma upd_nth_error {A} (l : list A) i x : nth_error l i = Some x -> upd l i x = l.
Proof. revert i; induction l; intros [|i] H; cbn in *; try discriminate; [congruence|]. f_equal; auto. Qed.
Lemma upd_comm {A} (l : list A) i j x y : i <> j -> upd (upd l i x) j y = upd (upd l j y) i x.
Proof. revert i j; induction l; intros [|i] [|j] H; cbn; auto; try lia. f_equal; apply IHl; lia. Qed.
Lemma upd_oob {A} (l : list A) i x : nth_error l i = None -> upd l i x = l.
Proof. revert i; induction l; intros [|i] H; cbn in *; try discriminate; auto. f_equal; auto. Qed.
Lemma remove_insert_nth {A} (l : list A) i x : i <= length l -> remove_nth (insert_nth l i x) i = l.
Proof. revert l; induction i; intros [|a l] H; cbn in *; try lia; auto. f_equal; apply IHi; lia. Qed.
Lemma nth_error_insert_nth {A} (l : list A) i x : i <= length l -> nth_error (insert_nth l i x) i = Some x.
Proof. revert l; induction i; intros [|a l] H; cbn in *; try lia; auto. apply IHi; lia. Qed.
Lemma insert_nth_length {A} (l : list A) i x : length (insert_nth l i x) = S (length l).
Proof. revert l; induction i; intros [|a l]; cbn; auto. Qed.
Lemma nth_error_Some_lt {A} (l : list A) i x : nth_error l i = Some x -> i < length l.
Proof. intros H. apply nth_error_Some. congruence. Qed.
Lemma nth_error_None_ge {A} (l : list A) i : nth_error l i = None -> length l <= i.
Proof. apply nth_error_None. Qed.

(* ---- arms that card.rs writes separately for members of one CardAst group coincide ---- *)
Lemma get_child_bin op a b i : get_child (CBin op a b) i = nth_error [a; b] i.
Proof. destruct op; reflexivity. Qed.
Lemma get_child_mut_bin op a b i : get_child_mut (CBin op a b) i = arr2_get_mut (CBin op) a b i.
Proof. destruct op; reflexivity. Qed.
Lemma remove_child_bin op a b i : remove_child (CBin op a b) i = take_via_mut (CBin op a b) i CScalarNil.
Proof. destruct op; reflexivity. Qed.
Lemma get_child_tri op a b c i : get_child (CTri op a b c) i = nth_error [a; b; c] i.
Proof. destruct op; reflexivity. Qed.
Lemma get_child_mut_tri op a b c i : get_child_mut (CTri op a b c) i = arr3_get_mut (CTri op) a b c i.
Proof. destruct op; reflexivity. Qed.
Lemma remove_child_tri op a b c i : remove_child (CTri op a b c) i = take_via_mut (CTri op a b c) i CScalarNil.
Proof. destruct op; unfold take_via_mut; cbn [remove_child get_child_mut]; reflexivity. Qed.
Lemma insert_child_tri op a b c i x :
  insert_child (CTri op a b c) i x =
  match get_child_mut (CTri op a b c) i with Some (_, put) => IOk (put x) | None => IErr x end.
Proof. destruct op; reflexivity. Qed.

(* ---- the lens returned by get_child_mut ---- *)
Lemma get_child_mut_spec c i :
  match get_child_mut c i with
  | Some (ch, put) =>
      nth_error (iter_children c) i = Some ch /\
      forall x, label_of (put x) = label_of c /\ iter_children (put x) = upd (iter_children c) i x
  | None => nth_error (iter_children c) i = None
  end.
Proof.
  destruct c; rewrite ?get_child_mut_bin, ?get_child_mut_tri; cbn [get_child_mut iter_children label_of];
    unfold arr2_get_mut, arr3_get_mut, vec_get_mut; rewrite ?nth_error_nil; try reflexivity;
    try (destruct i as [|[|[|i]]]; cbn; rewrite ?nth_error_nil; auto; fail);
    try (destruct (nth_error _ i) eqn:E; cbn; auto; fail).
  (* DynamicCall *)
  destruct i as [|i]; cbn; auto. rewrite Nat.sub_0_r.
  destruct (nth_error args i) eqn:E; cbn; auto.
Qed.

Definition placeholder_card (l : label) (i : nat) : card :=
  match l, i with LRepeat _, 0 => CScalarInt 0 | _, _ => CScalarNil end.
Lemma to_rose_placeholder l i : to_rose (placeholder_card l i) = placeholder l i.
Proof. destruct l; try reflexivity. destruct i; reflexivity. Qed.

Lemma do_vec_remove_spec mk l i : i < length l ->
  exists x, nth_error l i = Some x /\ do_vec_remove mk l i = CSome (mk (remove_nth l i), x).
Proof.
  intros H. unfold do_vec_remove, vec_remove. destruct (nth_error l i) eqn:E.
  - eauto.
  - apply nth_error_None in E. lia.
Qed.

Lemma do_vec_insert_spec mk l i x : i <= length l ->
  do_vec_insert mk l i x = IOk (mk (insert_nth l i x)).
Proof.
  intros H. unfold do_vec_insert, vec_insert. destruct (Nat.leb_spec i (length l)); [reflexivity|lia].
Qed.

Lemma take_via_mut_spec c i p :
  match take_via_mut c i p with
  | CSome (c', x) =>
      nth_error (iter_children c) i = Some x /\ label_of c' = label_of c /\
      iter_children c' = upd (iter_children c) i p
  | CNone => nth_error (iter_children c) i = None
  | CPanic => False
  end.
Proof.
  unfold take_via_mut. pose proof (get_child_mut_spec c i) as H.
  destruct (get_child_mut c i) as [[ch put]|]; auto.
  destruct H as [H1 H2]. destruct (H2 p). auto.
Qed.

Ltac vec_remove_tac H :=
  match goal with
  | |- context [do_vec_remove ?mk ?l ?j] =>
      let x := fresh "x" in let E1 := fresh "E" in let E2 := fresh "E" in
      destruct (do_vec_remove_spec mk l j H) as (x & E1 & E2); rewrite E2; cbn; auto
  end.

Lemma remove_child_spec c i :
  match remove_child c i with
  | CSome (c', x) =>
      nth_error (iter_children c) i = Some x /\ label_of c' = label_of c /\
      iter_children c' = if list_pos (label_of c) i then remove_nth (iter_children c) i
                         else upd (iter_children c) i (placeholder_card (label_of c) i)
  | CNone => nth_error (iter_children c) i = None
  | CPanic => False
  end.
Proof.
  destruct c; rewrite ?remove_child_bin, ?remove_child_tri; cbn [remove_child];
    try exact (take_via_mut_spec _ i CScalarNil);
    cbn [iter_children label_of]; rewrite ?nth_error_nil; try reflexivity;
    try (destruct i as [|[|i]]; cbn; rewrite ?nth_error_nil; auto; fail);
    try (destruct (Nat.leb_spec (length cards) i) as [H|H];
         [apply nth_error_None; exact H | vec_remove_tac H]; fail);
    try (destruct (Nat.ltb_spec i (length args)) as [H|H];
         [vec_remove_tac H | apply nth_error_None; exact H]; fail).
  - (* DynamicCall *)
    destruct i as [|i]; [cbn; auto|].
    cbn [Nat.eqb Nat.sub nth_error list_pos shape_of label_of Nat.leb]. rewrite Nat.sub_0_r.
    destruct (Nat.ltb_spec i (length args)) as [H|H].
    + vec_remove_tac H.
    + apply nth_error_None; exact H.
  - (* Array *)
    destruct (Nat.ltb_spec i (length cards)) as [H|H].
    + vec_remove_tac H.
    + apply nth_error_None; exact H.
Qed.

Definition insert_post (c : card) (i : nat) (x : card) (r : ires) : Prop :=
  match r with
  | IOk c' => label_of c' = label_of c /\
      if list_pos (label_of c) i
      then i <= length (iter_children c) /\ iter_children c' = insert_nth (iter_children c) i x
      else i < length (iter_children c) /\ iter_children c' = upd (iter_children c) i x
  | IErr y => y = x /\ (if list_pos (label_of c) i then length (iter_children c) < i
                        else length (iter_children c) <= i)
  | IPanic => False
  end.

Lemma via_mut_insert_spec c i x : list_pos (label_of c) i = false ->
  insert_post c i x (match get_child_mut c i with Some (_, put) => IOk (put x) | None => IErr x end).
Proof.
  intros L. unfold insert_post. pose proof (get_child_mut_spec c i) as H.
  destruct (get_child_mut c i) as [[ch put]|]; rewrite L.
  - destruct H as [H1 H2]. destruct (H2 x). split; auto. split; auto. eapply nth_error_Some_lt; eauto.
  - split; auto. apply nth_error_None; auto.
Qed.

Ltac vec_insert_tac H :=
  match goal with
  | |- context [do_vec_insert ?mk ?l ?j ?x] => rewrite (do_vec_insert_spec mk l j x H); cbn; try solve [auto]
  end.

Lemma insert_child_spec c i x : insert_post c i x (insert_child c i x).
Proof.
  destruct c; rewrite ?insert_child_tri; cbn [insert_child];
    try (apply via_mut_insert_spec; reflexivity);
    unfold insert_post; cbn [iter_children label_of list_pos shape_of length];
    try (split; [reflexivity|lia]).
  - (* CallNative *)
    destruct (Nat.ltb_spec (length args) i) as [H|H]; [auto|]. vec_insert_tac H.
  - (* Call *)
    destruct (Nat.ltb_spec (length args) i) as [H|H]; [auto|]. vec_insert_tac H.
  - (* DynamicCall *)
    destruct i as [|i]; [cbn; auto with arith|].
    cbn [Nat.eqb Nat.sub Nat.leb]. rewrite Nat.sub_0_r.
    destruct (Nat.leb_spec i (length args)) as [H|H].
    + vec_insert_tac H. repeat split; auto; lia.
    + split; auto. lia.
  - (* ForEach *)
    destruct i as [|[|i]]; cbn; auto with arith.
  - (* Composite *)
    destruct (Nat.ltb_spec (length cards) i) as [H|H]; [auto|]. vec_insert_tac H.
  - (* Array *)
    destruct (Nat.leb_spec i (length cards)) as [H|H]; [|auto]. vec_insert_tac H.
  - (* Closure *)
    destruct (Nat.ltb_spec (length cards) i) as [H|H]; [auto|]. vec_insert_tac H.
Qed.

(* what the repair bf83e3d changed *)
Lemma insert_child_legacy_same c i x :
  (match c with CCall _ args | CCallNative _ args => i <= length args | _ => True end) ->
  insert_child_legacy c i x = insert_child c i x.
Proof.
  destruct c; cbn [insert_child_legacy]; try reflexivity; intros H; cbn [insert_child];
    destruct (Nat.leb_spec i (length args)); try lia;
    destruct (Nat.ltb_spec (length args) i); try lia; reflexivity.
Qed.

Lemma replace_child_spec c i x :
  match replace_child c i x with
  | ReplOk c' old => nth_error (iter_children c) i = Some old /\ label_of c' = label_of c /\
                     iter_children c' = upd (iter_children c) i x
  | ReplErr y => y = x /\ nth_error (iter_children c) i = None
  end.
Proof.
  unfold replace_child. pose proof (get_child_mut_spec c i) as H.
  destruct (get_child_mut c i) as [[ch put]|]; auto.
  destruct H as [H1 H2]. destruct (H2 x). auto.
Qed.

(* ---- node level: the kind-by-kind functions against the generic node edits ---- *)

Lemma lens_refines c i :
  match get_child_mut c i with
  | Some (ch, put) =>
      nth_error (rkids (to_rose c)) i = Some (to_rose ch) /\
      forall x, to_rose (put x) = RNode (rlabel (to_rose c)) (upd (rkids (to_rose c)) i (to_rose x))
  | None => nth_error (rkids (to_rose c)) i = None
  end.
Proof.
  pose proof (get_child_mut_spec c i) as H. rewrite to_rose_kids, to_rose_label, nth_error_map.
  destruct (get_child_mut c i) as [[ch put]|].
  - destruct H as [H1 H2]. rewrite H1. split; [reflexivity|]. intros x. destruct (H2 x) as [L K].
    rewrite (to_rose_eq (put x)), L, K, map_upd. reflexivity.
  - rewrite H. reflexivity.
Qed.

Lemma get_child_refines c i : option_map to_rose (get_child c i) = nth_error (rkids (to_rose c)) i.
Proof. rewrite (proj1 (children_agree c i)), to_rose_kids, nth_error_map. reflexivity. Qed.

Lemma node_remove_refines c i :
  match remove_child c i with
  | CSome (c', x) => node_remove i (to_rose c) = Some (to_rose c', to_rose x)
  | CNone => node_remove i (to_rose c) = None
  | CPanic => False
  end.
Proof.
  pose proof (remove_child_spec c i) as H. rewrite (to_rose_eq c). unfold node_remove.
  rewrite nth_error_map.
  destruct (remove_child c i) as [[c' x]| |]; auto.
  - destruct H as (H1 & L & K). rewrite H1. cbn [option_map]. rewrite (to_rose_eq c'), L, K.
    destruct (list_pos (label_of c) i).
    + rewrite map_remove_nth. reflexivity.
    + rewrite map_upd, to_rose_placeholder. reflexivity.
  - rewrite H. reflexivity.
Qed.

Lemma node_insert_refines c i x :
  match insert_child c i x with
  | IOk c' => node_insert (to_rose x) i (to_rose c) = Some (to_rose c', tt)
  | IErr y => y = x /\ node_insert (to_rose x) i (to_rose c) = None
  | IPanic => False
  end.
Proof.
  pose proof (insert_child_spec c i x) as H. rewrite (to_rose_eq c).
  unfold node_insert, insert_post in *. rewrite map_length.
  destruct (insert_child c i x) as [c'|y|]; auto.
  - destruct H as (L & H). rewrite (to_rose_eq c'), L. destruct (list_pos (label_of c) i).
    + destruct H as [H K]. rewrite K, map_insert_nth. destruct (Nat.leb_spec i (length (iter_children c))); [reflexivity|lia].
    + destruct H as [H K]. rewrite K, map_upd. destruct (Nat.ltb_spec i (length (iter_children c))); [reflexivity|lia].
  - destruct H as (-> & H). split; auto. destruct (list_pos (label_of c) i).
    + destruct (Nat.leb_spec i (length (iter_children c))); [lia|reflexivity].
    + destruct (Nat.ltb_spec i (length (iter_children c))); [lia|reflexivity].
Qed.

Lemma node_replace_child_refines c i x :
  match replace_child c i x with
  | ReplOk c' old => node_replace_child (to_rose x) i (to_rose c) = Some (to_rose c', Some (to_rose old))
  | ReplErr y => y = x /\ node_replace_child (to_rose x) i (to_rose c) = Some (to_rose c, None)
  end.
Proof.
  pose proof (replace_child_spec c i x) as H.
  destruct (replace_child c i x) as [c' old|y]; rewrite (to_rose_eq c); unfold node_replace_child;
    rewrite nth_error_map.
  - destruct H as (H1 & L & K). rewrite H1. cbn [option_map]. rewrite (to_rose_eq c'), L, K, map_upd. reflexivity.
  - destruct H as (-> & H). rewrite H. cbn [option_map]. auto.
Qed.

(* ---- path level ---- *)

Lemma descend_refines path : forall d p c,
  match descend path d c with
  | ROk x => rget path p (to_rose c) = SOk (to_rose x)
  | RErr e => exists k, e = CardNotFound (d + k) /\ rget path p (to_rose c) = SMiss (p + k)
  | RPanic => False
  end.
Proof.
  induction path as [|i path IH]; intros d p c; cbn [descend rget]; [reflexivity|].
  rewrite <- get_child_refines. destruct (get_child c i) as [ch|]; cbn [option_map].
  - specialize (IH (S d) (S p) ch). destruct (descend path (S d) ch); auto.
    destruct IH as (k & -> & E). exists (S k). rewrite <- !plus_n_Sm. auto.
  - exists 0. rewrite !Nat.add_0_r. auto.
Qed.

Definition k_refines_at {A B} (f : A -> B) (km : card -> res (card * A)) (ks : rose -> option (rose * B))
           (dfail : nat) (c : card) : Prop :=
  match km c with
  | ROk (c', a) => ks (to_rose c) = Some (to_rose c', f a)
  | RErr e => e = CardNotFound dfail /\ ks (to_rose c) = None
  | RPanic => False
  end.

Definition k_refines {A B} (f : A -> B) km ks (dfail : nat) : Prop :=
  forall c, k_refines_at f km ks dfail c.

(* the card a path leads to through get_child_mut *)
Fixpoint reach (path : list nat) (c : card) : option card :=
  match path with
  | [] => Some c
  | i :: p => match get_child_mut c i with Some (ch, _) => reach p ch | None => None end
  end.

Lemma reach_rget path : forall d c c1, reach path c = Some c1 -> rget path d (to_rose c) = SOk (to_rose c1).
Proof.
  induction path as [|i path IH]; intros d c c1; cbn [reach rget].
  - intros [= ->]. reflexivity.
  - pose proof (lens_refines c i) as L. destruct (get_child_mut c i) as [[ch put]|]; [|discriminate].
    destruct L as [L1 _]. rewrite L1. apply IH.
Qed.

Lemma descend_mut_refines_at {A B} (f : A -> B) km ks path : forall d c,
  (forall c1, reach path c = Some c1 -> k_refines_at f km ks (d + length path) c1) ->
  match descend_mut path d c km with
  | ROk (c', a) => rmodify path d ks (to_rose c) = SOk (to_rose c', f a)
  | RErr e => exists q, e = CardNotFound q /\ rmodify path d ks (to_rose c) = SMiss q
  | RPanic => False
  end.
Proof.
  induction path as [|i path IH]; intros d c Hk; cbn [descend_mut rmodify].
  - specialize (Hk c eq_refl). unfold k_refines_at in Hk. cbn [length] in Hk. rewrite Nat.add_0_r in Hk.
    destruct (km c) as [[c' a]|e|]; auto.
    + rewrite Hk. reflexivity.
    + destruct Hk as [-> Hk]. rewrite Hk. eauto.
  - pose proof (lens_refines c i) as L. cbn [reach] in Hk. destruct (get_child_mut c i) as [[ch put]|].
    + destruct L as [L1 L2]. rewrite L1.
      assert (Hk' : forall c1, reach path ch = Some c1 -> k_refines_at f km ks (S d + length path) c1).
      { intros c1 R. specialize (Hk c1 R). cbn [length] in Hk. rewrite <- plus_n_Sm in Hk. exact Hk. }
      specialize (IH (S d) ch Hk'). destruct (descend_mut path (S d) ch km) as [[ch' a]|e|]; auto.
      * rewrite IH, L2. reflexivity.
      * destruct IH as (q & -> & E). rewrite E. eauto.
    + rewrite L. eauto.
Qed.

Lemma descend_mut_refines {A B} (f : A -> B) km ks path d c :
  k_refines f km ks (d + length path) ->
  match descend_mut path d c km with
  | ROk (c', a) => rmodify path d ks (to_rose c) = SOk (to_rose c', f a)
  | RErr e => exists q, e = CardNotFound q /\ rmodify path d ks (to_rose c) = SMiss q
  | RPanic => False
  end.
Proof. intros Hk. apply descend_mut_refines_at. intros c1 _. apply Hk. Qed.

Lemma slice_tail {A} (b : A) path : slice (b :: path) 1 (length (b :: path)) = Some path.
Proof.
  unfold slice. cbn [length]. destruct (Nat.leb_spec 1 (S (length path))); [|lia].
  rewrite Nat.leb_refl. cbn [andb skipn]. rewrite Nat.sub_succ, Nat.sub_0_r, firstn_all. reflexivity.
Qed.

Lemma to_rmod_set_fn m fi name f cards' :
  nth_error (m_functions m) fi = Some (name, f) ->
  to_rmod (set_fn m fi name (set_cards f cards')) =
  rset_fn (to_rmod m) fi (RNode (LBody name (f_args f)) (map to_rose cards')).
Proof.
  intros _. unfold to_rmod, set_fn, rset_fn. cbn. rewrite map_upd. reflexivity.
Qed.

Lemma with_card_mut_refines {A B} (f : A -> B) m idx km ks :
  k_refines f km ks (length (ci_indices idx)) ->
  match with_card_mut m idx km with
  | ROk (m', a) => spec_edit (to_rmod m) idx (ci_indices idx) ks = SpOk (to_rmod m', f a)
  | RErr e => spec_edit (to_rmod m) idx (ci_indices idx) ks = SpErr e
  | RPanic => False
  end.
Proof.
  intros Hk. unfold with_card_mut, spec_edit. cbn [to_rmod rm_fns]. rewrite nth_error_map.
  destruct (nth_error (m_functions m) (ci_function idx)) as [[name fn]|] eqn:EF; cbn [option_map]; [|reflexivity].
  unfold ci_begin. destruct (ci_indices idx) as [|b path] eqn:EI; [reflexivity|].
  rewrite slice_tail. cbn [rmodify body_rose rkids rlabel fst snd]. rewrite nth_error_map.
  destruct (nth_error (f_cards fn) b) as [card|]; cbn [option_map]; [|reflexivity].
  pose proof (descend_mut_refines f km ks path 1 card Hk) as H.
  destruct (descend_mut path 1 card km) as [[card' a]|e|]; auto.
  - rewrite H. rewrite (to_rmod_set_fn _ _ _ _ _ EF), map_upd. reflexivity.
  - destruct H as (q & -> & H). rewrite H. reflexivity.
Qed.

Theorem replace_card_refines m idx x :
  match replace_card m idx x with
  | ROk (m', old) => spec_replace (to_rmod m) idx (to_rose x) = SpOk (to_rmod m', to_rose old)
  | RErr e => spec_replace (to_rmod m) idx (to_rose x) = SpErr e
  | RPanic => False
  end.
Proof.
  apply (with_card_mut_refines to_rose). intros c. reflexivity.
Qed.

Theorem get_card_mut_refines m idx :
  match get_card_mut m idx with
  | ROk c => spec_get (to_rmod m) idx = SpOk (to_rose c)
  | RErr e => spec_get (to_rmod m) idx = SpErr e
  | RPanic => False
  end.
Proof.
  unfold get_card_mut, spec_get.
  pose proof (with_card_mut_refines to_rose m idx (fun c => ROk (c, c)) (fun r => Some (r, r))) as H.
  destruct (with_card_mut m idx (fun c => ROk (c, c))) as [[m' c]|e|].
  - rewrite H; [reflexivity|]. intros c0; reflexivity.
  - rewrite H; [reflexivity|]. intros c0; reflexivity.
  - apply H. intros c0; reflexivity.
Qed.

Lemma removelast_cons2 {A} (a b : A) l : removelast (a :: b :: l) = a :: removelast (b :: l).
Proof. reflexivity. Qed.

Lemma slice_middle {A} (b c : A) rest :
  slice (b :: c :: rest) 1 (Nat.max (length (b :: c :: rest) - 1) 1) = Some (removelast (c :: rest)).
Proof.
  unfold slice. cbn [length]. rewrite Nat.sub_succ, Nat.sub_0_r.
  rewrite Nat.max_l by lia.
  destruct (Nat.leb_spec 1 (S (length rest))); [|lia].
  destruct (Nat.leb_spec (S (length rest)) (S (S (length rest)))); [|lia].
  cbn [andb skipn]. rewrite Nat.sub_succ, Nat.sub_0_r.
  rewrite removelast_firstn_len. reflexivity.
Qed.

Lemma last_cons_default {A} (l : list A) b d1 d2 : last (b :: l) d1 = last (b :: l) d2.
Proof. revert b; induction l as [|x l IH]; intros b; [reflexivity|]. exact (IH x). Qed.

Lemma last_opt_cons2 {A} (a b : A) l d : last_opt (a :: b :: l) = Some (last (a :: b :: l) d).
Proof. unfold last_opt. f_equal. exact (last_cons_default l b a d). Qed.

Lemma length_removelast_cons {A} (c : A) rest : length (removelast (c :: rest)) = length rest.
Proof. revert c; induction rest as [|x rest IH]; intros c; [reflexivity|]. rewrite removelast_cons2. cbn [length]. rewrite IH. reflexivity. Qed.

(* the shared tail of remove_card / insert_card for indices of length >= 2 *)
Lemma edit_parent_refines {A B} (f : A -> B) m idx name fn km ks :
  nth_error (m_functions m) (ci_function idx) = Some (name, fn) ->
  length (ci_indices idx) <> 1 ->
  (forall len1 i card c1,
      2 <= length (ci_indices idx) ->
      len1 = length (ci_indices idx) - 1 -> i = last (ci_indices idx) 0 ->
      nth_error (f_cards fn) (hd 0 (ci_indices idx)) = Some card ->
      reach (tl (removelast (ci_indices idx))) card = Some c1 ->
      k_refines_at f (km len1 i) ks len1 c1) ->
  match edit_parent m idx name fn km with
  | ROk (m', a) => spec_edit (to_rmod m) idx (removelast (ci_indices idx)) ks = SpOk (to_rmod m', f a)
  | RErr e => spec_edit (to_rmod m) idx (removelast (ci_indices idx)) ks = SpErr e
  | RPanic => False
  end.
Proof.
  intros EF Hlen Hk. unfold edit_parent, spec_edit. cbn [to_rmod rm_fns]. rewrite nth_error_map, EF.
  cbn [option_map]. unfold ci_begin.
  destruct (ci_indices idx) as [|b [|c rest]] eqn:EI; [reflexivity|cbn in Hlen; lia|].
  rewrite removelast_cons2 in *. cbn [rmodify body_rose rkids rlabel fst snd]. rewrite nth_error_map.
  cbn [hd tl] in Hk.
  destruct (nth_error (f_cards fn) b) as [card|]; cbn [option_map]; [|reflexivity].
  unfold usize_sub. cbn [length Nat.leb].
  change (S (S (length rest))) with (length (b :: c :: rest)).
  rewrite slice_middle, (last_opt_cons2 b c rest 0).
  specialize (Hk (length (b :: c :: rest) - 1) (last (b :: c :: rest) 0) card).
  assert (Hk' : forall c1, reach (removelast (c :: rest)) card = Some c1 ->
                k_refines_at f (km (length (b :: c :: rest) - 1) (last (b :: c :: rest) 0)) ks
                          (1 + length (removelast (c :: rest))) c1).
  { intros c1 R. specialize (Hk c1 ltac:(cbn; lia) eq_refl eq_refl eq_refl R).
    rewrite length_removelast_cons. cbn [length] in *. rewrite Nat.sub_succ, Nat.sub_0_r in Hk. exact Hk. }
  pose proof (descend_mut_refines_at f _ ks (removelast (c :: rest)) 1 card Hk') as H.
  cbn [length] in *. rewrite Nat.sub_succ, Nat.sub_0_r in *.
  destruct (descend_mut (removelast (c :: rest)) 1 card _) as [[card' a]|e|]; auto.
  - rewrite H. rewrite (to_rmod_set_fn _ _ _ _ _ EF), map_upd. reflexivity.
  - destruct H as (q & -> & H). rewrite H. reflexivity.
Qed.

Theorem remove_card_refines m idx :
  match remove_card m idx with
  | ROk (m', x) => spec_remove (to_rmod m) idx = SpOk (to_rmod m', to_rose x)
  | RErr e => spec_remove (to_rmod m) idx = SpErr e
  | RPanic => False
  end.
Proof.
  unfold remove_card, spec_remove.
  destruct (nth_error (m_functions m) (ci_function idx)) as [[name fn]|] eqn:EF.
  2:{ unfold spec_edit. cbn [to_rmod rm_fns]. rewrite nth_error_map, EF. reflexivity. }
  destruct (Nat.eqb_spec (length (ci_indices idx)) 1) as [H1|H1].
  - destruct (ci_indices idx) as [|i0 [|? ?]] eqn:EI; try discriminate. clear H1.
    cbn [nth_error removelast last]. unfold spec_edit. cbn [to_rmod rm_fns]. rewrite nth_error_map, EF, EI.
    cbn [option_map rmodify body_rose fst snd node_remove list_pos shape_of].
    rewrite nth_error_map. unfold vec_remove.
    destruct (Nat.leb_spec (length (f_cards fn)) i0) as [H|H].
    + apply nth_error_None in H. rewrite H. reflexivity.
    + destruct (nth_error (f_cards fn) i0) as [x|] eqn:E; [|apply nth_error_None in E; lia].
      cbn [option_map]. rewrite (to_rmod_set_fn _ _ _ _ _ EF), map_remove_nth. reflexivity.
  - apply (edit_parent_refines to_rose); auto. intros len1 i card c _ -> -> _ _. unfold k_refines_at.
    pose proof (node_remove_refines c (last (ci_indices idx) 0)) as H.
    destruct (remove_child c (last (ci_indices idx) 0)) as [[c' x]| |]; auto.
Qed.

Lemma rmodify_get p : forall d r,
  match rget p d r with
  | SOk x => exists r', rmodify p d (fun r0 : rose => Some (r0, r0)) r = SOk (r', x)
  | SMiss q => rmodify p d (fun r0 : rose => Some (r0, r0)) r = SMiss q
  end.
Proof.
  induction p as [|j p IH]; intros d r; cbn [rmodify rget]; [eauto|].
  destruct (nth_error (rkids r) j) as [ch|]; [|reflexivity].
  specialize (IH (S d) ch). destruct (rget p (S d) ch).
  - destruct IH as (r' & ->). eauto.
  - rewrite IH. reflexivity.
Qed.

Lemma spec_get_reach m fi name fn b mid card c1 :
  nth_error (m_functions m) fi = Some (name, fn) ->
  nth_error (f_cards fn) b = Some card ->
  reach mid card = Some c1 ->
  spec_get (to_rmod m) (mk_index fi (b :: mid)) = SpOk (to_rose c1).
Proof.
  intros EF EC R. unfold spec_get, spec_edit. cbn [to_rmod rm_fns mk_index ci_function ci_indices].
  rewrite nth_error_map, EF. cbn [option_map rmodify body_rose rkids rlabel fst snd].
  rewrite nth_error_map, EC. cbn [option_map].
  pose proof (rmodify_get mid 1 (to_rose card)) as G. rewrite (reach_rget mid 1 card c1 R) in G.
  destruct G as (r' & ->). reflexivity.
Qed.

Theorem insert_card_refines m idx x :
  match insert_card m idx x with
  | ROk (m', _) => spec_insert (to_rmod m) idx (to_rose x) = SpOk (to_rmod m', tt)
  | RErr e => spec_insert (to_rmod m) idx (to_rose x) = SpErr e
  | RPanic => False
  end.
Proof.
  unfold insert_card, spec_insert.
  destruct (nth_error (m_functions m) (ci_function idx)) as [[name fn]|] eqn:EF.
  2:{ unfold spec_edit. cbn [to_rmod rm_fns]. rewrite nth_error_map, EF. reflexivity. }
  destruct (Nat.eqb_spec (length (ci_indices idx)) 1) as [H1|H1].
  - destruct (ci_indices idx) as [|i0 [|? ?]] eqn:EI; try discriminate. clear H1.
    cbn [nth_error removelast last]. unfold spec_edit. cbn [to_rmod rm_fns]. rewrite nth_error_map, EF, EI.
    cbn [option_map rmodify body_rose fst snd node_insert list_pos shape_of].
    rewrite map_length. unfold vec_insert.
    destruct (Nat.ltb_spec (length (f_cards fn)) i0) as [H|H].
    + destruct (Nat.leb_spec i0 (length (f_cards fn))); [lia|reflexivity].
    + destruct (Nat.leb_spec i0 (length (f_cards fn))); [|lia].
      rewrite (to_rmod_set_fn _ _ _ _ _ EF), map_insert_nth. reflexivity.
  - apply (edit_parent_refines (fun _ : unit => tt)); auto.
    intros len1 i card c _ -> -> _ _. unfold k_refines_at.
    pose proof (node_insert_refines c (last (ci_indices idx) 0) x) as H.
    destruct (insert_child c (last (ci_indices idx) 0) x) as [c'|y|]; auto.
    destruct H as [_ H]. auto.
Qed.

Lemma spec_get_unfold m fi name fn b path :
  nth_error (m_functions m) fi = Some (name, fn) ->
  spec_get (to_rmod m) (mk_index fi (b :: path)) =
  match nth_error (f_cards fn) b with
  | None => SpErr (CardNotFound 0)
  | Some card => match rget path 1 (to_rose card) with
                 | SOk x => SpOk x
                 | SMiss q => SpErr (CardNotFound q)
                 end
  end.
Proof.
  intros EF. unfold spec_get, spec_edit. cbn [to_rmod rm_fns mk_index ci_function ci_indices].
  rewrite nth_error_map, EF. cbn [option_map rmodify body_rose rkids rlabel fst snd].
  rewrite nth_error_map. destruct (nth_error (f_cards fn) b) as [card|]; cbn [option_map]; [|reflexivity].
  pose proof (rmodify_get path 1 (to_rose card)) as G. destruct (rget path 1 (to_rose card)).
  - destruct G as (r' & ->). reflexivity.
  - rewrite G. reflexivity.
Qed.

Lemma mk_index_eta idx : mk_index (ci_function idx) (ci_indices idx) = idx.
Proof. destruct idx; reflexivity. Qed.

(* get_card: the specification, for every module and index *)
Theorem get_card_refines m idx :
  match get_card m idx with
  | ROk c => spec_get (to_rmod m) idx = SpOk (to_rose c)
  | RErr e => spec_get (to_rmod m) idx = SpErr e
  | RPanic => False
  end.
Proof.
  unfold get_card.
  destruct (nth_error (m_functions m) (ci_function idx)) as [[name fn]|] eqn:EF.
  2:{ unfold spec_get, spec_edit. cbn [to_rmod rm_fns]. rewrite nth_error_map, EF. reflexivity. }
  unfold ci_begin. destruct (ci_indices idx) as [|b path] eqn:EI.
  { unfold spec_get, spec_edit. cbn [to_rmod rm_fns]. rewrite nth_error_map, EF, EI. reflexivity. }
  rewrite <- (mk_index_eta idx), EI. cbn [mk_index ci_function ci_indices].
  change {| ci_function := ci_function idx; ci_indices := b :: path |} with (mk_index (ci_function idx) (b :: path)).
  rewrite (spec_get_unfold m _ name fn b path EF), slice_tail.
  destruct (nth_error (f_cards fn) b) as [card|]; [|reflexivity].
  pose proof (descend_refines path 1 1 card) as H. destruct (descend path 1 card) as [c|e|]; auto.
  - rewrite H. reflexivity.
  - destruct H as (k & -> & H). rewrite H. reflexivity.
Qed.

(* the two lookups agree, results and errors *)
Theorem get_card_get_card_mut m idx : get_card m idx = get_card_mut m idx.
Proof.
  pose proof (get_card_refines m idx) as H1. pose proof (get_card_mut_refines m idx) as H2.
  destruct (get_card m idx) as [c|e|], (get_card_mut m idx) as [c'|e'|]; try contradiction; try congruence.
  rewrite H1 in H2. injection H2 as H2. apply to_rose_inj in H2. congruence.
Qed.

Theorem get_card_ok_iff m idx c :
  get_card m idx = ROk c <-> get_card_mut m idx = ROk c.
Proof. rewrite get_card_get_card_mut. reflexivity. Qed.

(* ---- one call: the model refines the specification outside the known classes (all but swap/walk) *)

Lemma step_refines_get m idx :
  spec_step (to_rmod m) (OpGet idx) = (to_rmod m, abs_obs (snd (step m (OpGet idx)))) /\
  fst (step m (OpGet idx)) = m.
Proof.
  split; [|reflexivity]. cbn [spec_step step snd]. f_equal.
  pose proof (get_card_refines m idx) as H.
  destruct (get_card m idx) as [c|e|]; [rewrite H; reflexivity|rewrite H; reflexivity|contradiction].
Qed.

Lemma step_refines_get_mut m idx :
  spec_step (to_rmod m) (OpGetMut idx) = (to_rmod m, abs_obs (snd (step m (OpGetMut idx)))) /\
  fst (step m (OpGetMut idx)) = m.
Proof.
  split; [|reflexivity]. cbn [spec_step step snd]. f_equal.
  pose proof (get_card_mut_refines m idx) as H.
  destruct (get_card_mut m idx) as [c|e|]; [rewrite H; reflexivity|rewrite H; reflexivity|contradiction].
Qed.

Lemma step_refines_replace m idx x :
  spec_step (to_rmod m) (OpReplace idx x) =
  (to_rmod (fst (step m (OpReplace idx x))), abs_obs (snd (step m (OpReplace idx x)))).
Proof.
  cbn [spec_step step]. pose proof (replace_card_refines m idx x) as H.
  destruct (replace_card m idx x) as [[m' old]|e|]; [rewrite H; reflexivity|rewrite H; reflexivity|contradiction].
Qed.

Lemma step_refines_remove m idx :
  spec_step (to_rmod m) (OpRemove idx) =
  (to_rmod (fst (step m (OpRemove idx))), abs_obs (snd (step m (OpRemove idx)))).
Proof.
  cbn [spec_step step]. pose proof (remove_card_refines m idx) as H.
  destruct (remove_card m idx) as [[m' old]|e|]; [rewrite H; reflexivity|rewrite H; reflexivity|contradiction].
Qed.

Lemma step_refines_insert m idx x :
  spec_step (to_rmod m) (OpInsert idx x) =
  (to_rmod (fst (step m (OpInsert idx x))), abs_obs (snd (step m (OpInsert idx x)))).
Proof.
  cbn [spec_step step]. pose proof (insert_card_refines m idx x) as H.
  destruct (insert_card m idx x) as [[m' []]|e|]; [rewrite H; reflexivity|rewrite H; reflexivity|contradiction].
Qed.

Lemma step_refines_kids m idx upto :
  spec_step (to_rmod m) (OpKids idx upto) =
  (to_rmod (fst (step m (OpKids idx upto))), abs_obs (snd (step m (OpKids idx upto)))).
Proof.
  cbn [spec_step step fst snd]. f_equal. pose proof (get_card_mut_refines m idx) as H.
  destruct (get_card_mut m idx) as [c|e|]; [|rewrite H; reflexivity|contradiction].
  rewrite H. cbn [abs_obs]. rewrite to_rose_kids, map_length, (proj2 (children_agree c 0)).
  f_equal. rewrite !map_map. apply map_ext. intros i.
  rewrite <- to_rose_kids, <- get_child_refines. reflexivity.
Qed.

Lemma step_refines_replace_child m idx i x :
  spec_step (to_rmod m) (OpReplaceChild idx i x) =
  (to_rmod (fst (step m (OpReplaceChild idx i x))), abs_obs (snd (step m (OpReplaceChild idx i x)))).
Proof.
  cbn [spec_step step].
  pose proof (with_card_mut_refines
                (fun o : obs => match o with ObCard old => Some (to_rose old) | _ => None end) m idx
                (fun parent => match replace_child parent i x with
                               | ReplOk parent' old => ROk (parent', ObCard old)
                               | ReplErr x0 => ROk (parent, ObChildErr x0)
                               end)
                (node_replace_child (to_rose x) i)) as H.
  assert (Hk : k_refines (fun o : obs => match o with ObCard old => Some (to_rose old) | _ => None end)
                 (fun parent => match replace_child parent i x with
                               | ReplOk parent' old => ROk (parent', ObCard old)
                               | ReplErr x0 => ROk (parent, ObChildErr x0)
                               end)
                 (node_replace_child (to_rose x) i) (length (ci_indices idx))).
  { intros c. unfold k_refines_at. pose proof (node_replace_child_refines c i x) as R.
    destruct (replace_child c i x); [exact R|]. destruct R as [-> R]. exact R. }
  specialize (H Hk).
  match goal with |- context [with_card_mut m idx ?k] => destruct (with_card_mut m idx k) as [[m' o]|e|] eqn:E end;
    [|rewrite H; reflexivity|contradiction].
  rewrite H.
  (* which observation the continuation can have produced *)
  assert (Ho : (exists old, o = ObCard old) \/ o = ObChildErr x).
  { unfold with_card_mut in E.
    destruct (nth_error (m_functions m) (ci_function idx)) as [[name fn]|]; [|discriminate].
    destruct (ci_begin idx); [|discriminate]. destruct (nth_error (f_cards fn) n); [|discriminate].
    destruct (slice (ci_indices idx) 1 (length (ci_indices idx))) as [path|]; [|discriminate].
    match type of E with context [descend_mut path 1 c ?k] => destruct (descend_mut path 1 c k) as [[c' o']|?|] eqn:ED end;
      try discriminate.
    injection E as _ ->. clear - ED. revert c c' ED. generalize 1.
    induction path as [|j path IH]; intros d c c'; cbn [descend_mut].
    - pose proof (node_replace_child_refines c i x) as R. destruct (replace_child c i x).
      + intros [= _ <-]. eauto.
      + destruct R as [-> _]. intros [= _ <-]. auto.
    - destruct (get_child_mut c j) as [[ch put]|]; [|discriminate].
      match goal with |- context [descend_mut path (S d) ch ?k] => destruct (descend_mut path (S d) ch k) as [[ch' o'']|?|] eqn:E2 end;
        try discriminate.
      intros [= _ <-]. eapply IH; eauto. }
  destruct Ho as [[old ->]| ->]; reflexivity.
Qed.

(* ---- to_rmod is injective ---- *)
Lemma map_inj {A B} (f : A -> B) : (forall x y, f x = f y -> x = y) ->
  forall l l', map f l = map f l' -> l = l'.
Proof.
  intros Hf. induction l as [|x l IH]; intros [|y l'] E; cbn in E; try discriminate; auto.
  injection E as E1 E2. f_equal; auto.
Qed.

Lemma body_rose_inj nf nf' : body_rose nf = body_rose nf' -> nf = nf'.
Proof.
  destruct nf as [n [a c]], nf' as [n' [a' c']]. unfold body_rose. cbn [fst snd f_args f_cards].
  intros [= -> -> E]. apply (map_inj to_rose to_rose_inj) in E. subst. reflexivity.
Qed.

Theorem to_rmod_inj m m' : to_rmod m = to_rmod m' -> m = m'.
Proof.
  destruct m as [s f i], m' as [s' f' i']. unfold to_rmod. cbn [m_submodules m_functions m_imports].
  intros [= -> E ->]. apply (map_inj body_rose body_rose_inj) in E. subst. reflexivity.
Qed.

(* ---- law of the specification: replacing back restores the tree ---- *)
Lemma rmodify_replace_back p : forall d r r' x old,
  rmodify p d (node_replace x) r = SOk (r', old) -> rmodify p d (node_replace old) r' = SOk (r, x).
Proof.
  induction p as [|i p IH]; intros d r r' x old; cbn [rmodify].
  - unfold node_replace. intros [= <- <-]. reflexivity.
  - destruct r as [l kids]. cbn [rkids rlabel].
    destruct (nth_error kids i) as [ch|] eqn:E; [|discriminate].
    destruct (rmodify p (S d) (node_replace x) ch) as [[ch' o]|] eqn:E2; [|discriminate].
    intros [= <- <-]. cbn [rkids rlabel].
    rewrite nth_error_upd_same by (eapply nth_error_Some_lt; eauto).
    rewrite (IH _ _ _ _ _ E2), upd_upd, (upd_nth_error _ _ _ E). reflexivity.
Qed.

Theorem spec_replace_back M idx x M' old :
  spec_replace M idx x = SpOk (M', old) -> spec_replace M' idx old = SpOk (M, x).
Proof.
  unfold spec_replace, spec_edit. destruct M as [subs fns imps]. cbn [rm_fns].
  destruct (nth_error fns (ci_function idx)) as [body|] eqn:E; [|discriminate].
  destruct (ci_indices idx) as [|b path] eqn:EI; [discriminate|].
  destruct (rmodify (b :: path) 0 (node_replace x) body) as [[body' o]|] eqn:E2; [|discriminate].
  intros [= <- <-]. unfold rset_fn. cbn [rm_fns rm_subs rm_imports].
  rewrite nth_error_upd_same by (eapply nth_error_Some_lt; eauto).
  rewrite (rmodify_replace_back _ _ _ _ _ _ E2). unfold rset_fn. cbn [rm_fns rm_subs rm_imports].
  rewrite upd_upd, (upd_nth_error _ _ _ E). reflexivity.
Qed.

(* ---- ... transferred to the model ---- *)
Theorem replace_back m idx x m1 old :
  replace_card m idx x = ROk (m1, old) -> replace_card m1 idx old = ROk (m, x).
Proof.
  intros E. pose proof (replace_card_refines m idx x) as H. rewrite E in H.
  apply spec_replace_back in H. pose proof (replace_card_refines m1 idx old) as H2.
  destruct (replace_card m1 idx old) as [[m2 o2]|e|]; [|congruence|contradiction].
  rewrite H in H2.
  assert (Hm : to_rmod m = to_rmod m2) by congruence. assert (Hx : to_rose x = to_rose o2) by congruence.
  apply to_rmod_inj in Hm. apply to_rose_inj in Hx. congruence.
Qed.

(* a swap that reports an error leaves the module as it was (the restore path included) *)
Lemma swap_legacy_fail_unchanged m a b m' e :
  swap_cards_legacy m a b = (m', SwErr e) -> m' = m.
Proof.
  unfold swap_cards_legacy. destruct (if ci_ltb a b then (b, a) else (a, b)) as [lhs rhs].
  destruct (replace_card m rhs CScalarNil) as [[m1 rc]|e1|] eqn:E1; [|intros [= <- _]; reflexivity|discriminate].
  destruct (get_card m1 lhs) as [c|e2|]; [| |discriminate].
  - destruct (replace_card m1 lhs rc) as [[m2 lc]|?|]; try discriminate.
    destruct (replace_card m2 rhs lc) as [[m3 ?]|?|]; discriminate.
  - rewrite (replace_back _ _ _ _ _ E1). intros [= <- _]. reflexivity.
Qed.

Theorem swap_fail_unchanged m a b m' e :
  swap_cards m a b = (m', SwErr e) -> m' = m.
Proof.
  unfold swap_cards. destruct (ci_eqb a b).
  - intros [= <- _]. reflexivity.
  - apply swap_legacy_fail_unchanged.
Qed.

(* every call that reports an error leaves the module unchanged *)
Theorem failed_edit_unchanged m o :
  match snd (step m o) with
  | ObErr _ | ObSwapErr _ | ObChildErr _ => fst (step m o) = m
  | _ => True
  end.
Proof.
  destruct o; cbn [step fst snd]; try exact I.
  - destruct (get_card m idx); exact I || reflexivity.
  - destruct (get_card_mut m idx); exact I || reflexivity.
  - destruct (insert_card m idx c) as [[m' []]|e|]; exact I || reflexivity.
  - destruct (remove_card m idx) as [[m' x]|e|]; exact I || reflexivity.
  - destruct (replace_card m idx c) as [[m' x]|e|]; exact I || reflexivity.
  - destruct (swap_cards m a b) as [m' [| e |]] eqn:E; cbn [fst snd]; try exact I.
    eapply swap_fail_unchanged; eauto.
  - destruct (get_card_mut m idx); exact I || reflexivity.
  - pose proof (step_refines_replace_child m idx i c) as R. cbn [step] in R.
    match goal with |- context [with_card_mut m idx ?k] => destruct (with_card_mut m idx k) as [[m' o]|e|] eqn:E end;
      cbn [fst snd] in *; try reflexivity; try exact I.
    destruct o; try exact I.
    all: cbn [spec_step abs_obs] in R.
    all: destruct (spec_edit (to_rmod m) idx (ci_indices idx) (node_replace_child (to_rose c) i)) as [[M' [old|]]|e'] eqn:ES;
      try discriminate.
    { apply to_rmod_inj. pose proof (f_equal fst R) as R1. cbn [fst] in R1. congruence. }
    assert (R' : M' = to_rmod m') by (pose proof (f_equal fst R) as R1; exact R1). clear R. apply to_rmod_inj. rewrite <- R'.
    (* the specification leaves the tree alone when the child does not exist *)
    clear - ES. unfold spec_edit in ES. destruct (to_rmod m) as [subs fns imps]. cbn [rm_fns] in *.
    destruct (nth_error fns (ci_function idx)) as [body|] eqn:E; [|discriminate].
    destruct (ci_indices idx) as [|b path]; [discriminate|].
    destruct (rmodify (b :: path) 0 (node_replace_child (to_rose c) i) body) as [[body' o]|] eqn:E2; [|discriminate].
    injection ES as <- ->. unfold rset_fn. cbn [rm_fns rm_subs rm_imports]. f_equal.
    assert (G : forall p d r r', rmodify p d (node_replace_child (to_rose c) i) r = SOk (r', None) -> r' = r).
    { clear. induction p as [|j p IH]; intros d r r'; cbn [rmodify].
      - destruct r as [l kids]. unfold node_replace_child. destruct (nth_error kids i); intros [= <-]; reflexivity.
      - destruct r as [l kids]. cbn [rkids rlabel]. destruct (nth_error kids j) as [ch|] eqn:E; [|discriminate].
        destruct (rmodify p (S d) (node_replace_child (to_rose c) i) ch) as [[ch' o]|] eqn:E2; [|discriminate].
        intros [= <- ->]. apply IH in E2. subst. rewrite (upd_nth_error _ _ _ E). reflexivity. }
    apply G in E2. subst. apply upd_nth_error. exact E.
Qed.

(* ---- walk_cards ---- *)

Fixpoint visit_list (id : list nat) (l : list card) (k : nat) : list (list nat * card) :=
  match l with
  | [] => []
  | ch :: t => ((id ++ [k], ch) :: visit_children ch (id ++ [k])) ++ visit_list id t (S k)
  end.

(* visit_children is `for (k, child) in card.iter_children().enumerate()` *)
Lemma visit_children_unfold c id : visit_children c id = visit_list id (iter_children c) 0.
Proof.
  assert (V : forall l k,
             (fix vlist (l : list card) (k : nat) {struct l} : list (list nat * card) :=
                match l with
                | [] => []
                | ch :: t => ((id ++ [k], ch) :: visit_children ch (id ++ [k])) ++ vlist t (S k)
                end) l k = visit_list id l k).
  { induction l as [|x l IH]; intros k; [reflexivity|]. cbn [visit_list]. rewrite <- IH. reflexivity. }
  destruct c; cbn [visit_children iter_children visit_list]; rewrite ?V, ?app_nil_r; reflexivity.
Qed.

Lemma card_ind_children (P : card -> Prop) :
  (forall c, Forall P (iter_children c) -> P c) -> forall c, P c.
Proof.
  intros H. induction c using card_ind'; apply H; cbn [iter_children]; auto.
Qed.

Lemma In_visit_list id l : forall k p x,
  In (p, x) (visit_list id l k) ->
  exists j ch, nth_error l j = Some ch /\
               ((p = id ++ [k + j] /\ x = ch) \/ In (p, x) (visit_children ch (id ++ [k + j]))).
Proof.
  induction l as [|a l IH]; intros k p x HI; [destruct HI|].
  cbn [visit_list] in HI. apply in_app_or in HI. destruct HI as [HI|HI].
  - exists 0, a. rewrite Nat.add_0_r. split; [reflexivity|]. destruct HI as [HI|HI]; [left|right; exact HI].
    injection HI as <- <-. auto.
  - destruct (IH _ _ _ HI) as (j & ch & E & H). exists (S j), ch. rewrite <- plus_n_Sm. auto.
Qed.

Lemma reach_child c k ch : nth_error (iter_children c) k = Some ch -> reach [k] c = Some ch.
Proof.
  intros E. cbn [reach]. pose proof (get_child_mut_spec c k) as H.
  destruct (get_child_mut c k) as [[ch' put]|]; [|congruence]. destruct H as [H _]. congruence.
Qed.

Lemma reach_app p : forall q c c1 c2, reach p c = Some c1 -> reach q c1 = Some c2 -> reach (p ++ q) c = Some c2.
Proof.
  induction p as [|i p IH]; intros q c c1 c2; cbn [reach app].
  - intros [= ->]. auto.
  - destruct (get_child_mut c i) as [[ch put]|]; [|discriminate]. apply IH.
Qed.

Lemma visit_reach : forall c id p x,
  In (p, x) (visit_children c id) -> exists q, p = id ++ q /\ reach q c = Some x.
Proof.
  induction c as [c IH] using card_ind_children. intros id p x HI.
  rewrite visit_children_unfold in HI. apply In_visit_list in HI.
  destruct HI as (j & ch & E & [[-> ->]|HI]).
  - exists [j]. split; [reflexivity|]. apply reach_child; exact E.
  - rewrite Forall_forall in IH. specialize (IH ch (nth_error_In _ _ E) _ _ _ HI).
    destruct IH as (q & -> & R). exists (j :: q). rewrite <- app_assoc. split; [reflexivity|].
    change (j :: q) with ([j] ++ q). eapply reach_app; eauto. apply reach_child; exact E.
Qed.

Lemma descend_mut_id path : forall d c x,
  reach path c = Some x -> exists c', descend_mut path d c (fun c0 => ROk (c0, c0)) = ROk (c', x).
Proof.
  induction path as [|i path IH]; intros d c x; cbn [reach descend_mut].
  - intros [= ->]. eauto.
  - destruct (get_child_mut c i) as [[ch put]|]; [|discriminate]. intros R.
    destruct (IH (S d) ch x R) as (c' & ->). eauto.
Qed.

Lemma In_walk_fn_cards fi cards : forall j idx x,
  In (idx, x) (walk_fn_cards fi cards j) ->
  exists k card q, nth_error cards k = Some card /\ idx = mk_index fi ((j + k) :: q) /\ reach q card = Some x.
Proof.
  induction cards as [|c cards IH]; intros j idx x HI; [destruct HI|].
  cbn [walk_fn_cards] in HI. apply in_app_or in HI. destruct HI as [[HI|HI]|HI].
  - injection HI as <- <-. exists 0, c, []. rewrite Nat.add_0_r. auto.
  - apply in_map_iff in HI. destruct HI as ([p y] & HE & HI). cbn [fst snd] in HE. injection HE as <- <-.
    apply visit_reach in HI. destruct HI as (q & -> & R). exists 0, c, q. rewrite Nat.add_0_r. auto.
  - destruct (IH _ _ _ HI) as (k & card & q & E & -> & R). exists (S k), card, q. rewrite <- plus_n_Sm. auto.
Qed.

Lemma In_walk_fns fns : forall fi idx x,
  In (idx, x) (walk_fns fns fi) ->
  exists n name fn k card q,
    nth_error fns n = Some (name, fn) /\ nth_error (f_cards fn) k = Some card /\
    idx = mk_index (fi + n) (k :: q) /\ reach q card = Some x.
Proof.
  induction fns as [|[name fn] fns IH]; intros fi idx x HI; [destruct HI|].
  cbn [walk_fns] in HI. apply in_app_or in HI. destruct HI as [HI|HI].
  - apply In_walk_fn_cards in HI. destruct HI as (k & card & q & E & -> & R).
    exists 0, name, fn, k, card, q. rewrite Nat.add_0_r. auto.
  - destruct (IH _ _ _ HI) as (n & name' & fn' & k & card & q & E1 & E2 & -> & R).
    exists (S n), name', fn', k, card, q. rewrite <- plus_n_Sm. auto.
Qed.

(* every (index, card) pair that walk_cards reports looks up to that same card *)
Theorem walk_lookup m idx x :
  In (idx, x) (walk_cards m) -> get_card_mut m idx = ROk x /\ get_card m idx = ROk x.
Proof.
  intros HI. unfold walk_cards in HI. apply In_walk_fns in HI.
  destruct HI as (n & name & fn & k & card & q & E1 & E2 & -> & R). cbn [Nat.add].
  assert (G : get_card_mut m (mk_index n (k :: q)) = ROk x).
  { unfold get_card_mut, with_card_mut. cbn [mk_index ci_function ci_indices ci_begin].
    rewrite E1. unfold ci_begin. cbn [ci_indices]. rewrite E2, slice_tail.
    destruct (descend_mut_id q 1 card x R) as (c' & ->). reflexivity. }
  split; [exact G|]. apply get_card_ok_iff. exact G.
Qed.

(* ---- algebra of subtree lookup / subtree replacement on rose trees ---- *)

Fixpoint rsub (p : list nat) (r : rose) : option rose :=
  match p with
  | [] => Some r
  | i :: p' => match nth_error (rkids r) i with Some ch => rsub p' ch | None => None end
  end.

Fixpoint rput (p : list nat) (x : rose) (r : rose) : rose :=
  match p with
  | [] => x
  | i :: p' =>
      match nth_error (rkids r) i with
      | Some ch => RNode (rlabel r) (upd (rkids r) i (rput p' x ch))
      | None => r
      end
  end.

Lemma rsub_rput_same p : forall r o x, rsub p r = Some o -> rsub p (rput p x r) = Some x.
Proof.
  induction p as [|i p IH]; intros [l kids] o x; cbn [rsub rput rkids rlabel]; [reflexivity|].
  destruct (nth_error kids i) as [ch|] eqn:E; [|discriminate]. intros H. cbn [rkids].
  rewrite nth_error_upd_same by (eapply nth_error_Some_lt; eauto). eapply IH; eauto.
Qed.

Lemma rsub_rput_other p : forall q r x,
  is_prefix p q = false -> is_prefix q p = false -> rsub q (rput p x r) = rsub q r.
Proof.
  induction p as [|i p IH]; intros [|j q] [l kids] x; cbn [is_prefix]; try discriminate.
  intros H1 H2. cbn [rsub rput rkids rlabel].
  destruct (nth_error kids i) as [ch|] eqn:E; [|reflexivity]. cbn [rkids].
  destruct (Nat.eqb_spec i j) as [->|N].
  - rewrite Nat.eqb_refl in H2. cbn [andb] in *.
    rewrite nth_error_upd_same by (eapply nth_error_Some_lt; eauto). rewrite E. apply IH; auto.
  - rewrite nth_error_upd_other by exact N. reflexivity.
Qed.

Lemma rput_rput_same p : forall r x y, rput p y (rput p x r) = rput p y r.
Proof.
  induction p as [|i p IH]; intros [l kids] x y; cbn [rput rkids rlabel]; [reflexivity|].
  destruct (nth_error kids i) as [ch|] eqn:E; cbn [rput rkids rlabel]; [|rewrite E; reflexivity].
  rewrite nth_error_upd_same by (eapply nth_error_Some_lt; eauto). rewrite upd_upd, IH. reflexivity.
Qed.

Lemma rput_comm p : forall q r x y,
  is_prefix p q = false -> is_prefix q p = false ->
  rput p x (rput q y r) = rput q y (rput p x r).
Proof.
  induction p as [|i p IH]; intros [|j q] [l kids] x y; cbn [is_prefix]; try discriminate.
  intros H1 H2. cbn [rput rkids rlabel].
  destruct (Nat.eqb_spec i j) as [->|N].
  - rewrite Nat.eqb_refl in H2. cbn [andb] in *.
    destruct (nth_error kids j) as [ch|] eqn:E; cbn [rput rkids rlabel]; [|rewrite E; reflexivity].
    rewrite !nth_error_upd_same by (eapply nth_error_Some_lt; eauto). rewrite !upd_upd, IH by auto. reflexivity.
  - destruct (nth_error kids j) as [cj|] eqn:Ej, (nth_error kids i) as [ci|] eqn:Ei; cbn [rput rkids rlabel];
      rewrite ?nth_error_upd_other by auto; rewrite ?Ei, ?Ej; try reflexivity.
    rewrite upd_comm by auto. reflexivity.
Qed.

Lemma rput_rsub_id p : forall r o, rsub p r = Some o -> rput p o r = r.
Proof.
  induction p as [|i p IH]; intros [l kids] o; cbn [rsub rput rkids rlabel]; [congruence|].
  destruct (nth_error kids i) as [ch|] eqn:E; intros H; [|reflexivity].
  rewrite (IH _ _ H), (upd_nth_error _ _ _ E). reflexivity.
Qed.

Lemma rsub_app p : forall q r, rsub (p ++ q) r = match rsub p r with Some s => rsub q s | None => None end.
Proof.
  induction p as [|i p IH]; intros q r; cbn [app rsub]; [reflexivity|].
  destruct (nth_error (rkids r) i); auto.
Qed.

Lemma is_prefix_app p : forall q, is_prefix p q = true -> exists s, q = p ++ s.
Proof.
  induction p as [|i p IH]; intros q; [intros _; exists q; reflexivity|]. destruct q as [|j q]; cbn [is_prefix]; [discriminate|].
  intros H. apply andb_true_iff in H. destruct H as [H1 H2]. apply Nat.eqb_eq in H1. subst.
  destruct (IH _ H2) as (s & ->). exists s. reflexivity.
Qed.

Lemma is_prefix_refl p : is_prefix p p = true.
Proof. induction p; cbn; rewrite ?Nat.eqb_refl; auto. Qed.

(* rget / rmodify-with-replace in terms of rsub / rput *)
Lemma rget_rsub p : forall d r,
  match rget p d r with SOk y => rsub p r = Some y | SMiss _ => rsub p r = None end.
Proof.
  induction p as [|i p IH]; intros d r; cbn [rget rsub]; [reflexivity|].
  destruct (nth_error (rkids r) i); [apply IH|reflexivity].
Qed.

Lemma rmodify_replace_rput p : forall d r x,
  rmodify p d (node_replace x) r =
  match rget p d r with SOk o => SOk (rput p x r, o) | SMiss q => SMiss q end.
Proof.
  induction p as [|i p IH]; intros d r x; cbn [rmodify rget rput]; [reflexivity|].
  destruct (nth_error (rkids r) i) as [ch|]; [|reflexivity]. rewrite IH.
  destruct (rget p (S d) ch); reflexivity.
Qed.

(* ---- the module as one tree: the functions are the children of a virtual root ---- *)

Definition gp (idx : card_index) : list nat := ci_function idx :: ci_indices idx.
Definition root (M : rmodule) : rose := RNode LArray (rm_fns M).
Definition with_fns (M : rmodule) (fns : list rose) : rmodule :=
  {| rm_subs := rm_subs M; rm_fns := fns; rm_imports := rm_imports M |}.

Definition sub (M : rmodule) (idx : card_index) : option rose :=
  match ci_indices idx with [] => None | _ => rsub (gp idx) (root M) end.
Definition put (M : rmodule) (idx : card_index) (x : rose) : rmodule :=
  with_fns M (rkids (rput (gp idx) x (root M))).

Lemma spec_get_char M idx :
  spec_get M idx =
  match nth_error (rm_fns M) (ci_function idx) with
  | None => SpErr FunctionNotFound
  | Some body =>
      match ci_indices idx with
      | [] => SpErr InvalidIndex
      | _ => match rget (ci_indices idx) 0 body with
             | SOk y => SpOk y
             | SMiss q => SpErr (CardNotFound q)
             end
      end
  end.
Proof.
  unfold spec_get, spec_edit. destruct (nth_error (rm_fns M) (ci_function idx)) as [body|]; [|reflexivity].
  destruct (ci_indices idx) as [|b path] eqn:E; [reflexivity|].
  pose proof (rmodify_get (b :: path) 0 body) as G. destruct (rget (b :: path) 0 body).
  - destruct G as (r' & ->). reflexivity.
  - rewrite G. reflexivity.
Qed.

Lemma spec_replace_char M idx x :
  spec_replace M idx x =
  match nth_error (rm_fns M) (ci_function idx) with
  | None => SpErr FunctionNotFound
  | Some body =>
      match ci_indices idx with
      | [] => SpErr InvalidIndex
      | _ => match rget (ci_indices idx) 0 body with
             | SOk o => SpOk (rset_fn M (ci_function idx) (rput (ci_indices idx) x body), o)
             | SMiss q => SpErr (CardNotFound q)
             end
      end
  end.
Proof.
  unfold spec_replace, spec_edit. destruct (nth_error (rm_fns M) (ci_function idx)) as [body|]; [|reflexivity].
  destruct (ci_indices idx) as [|b path] eqn:E; [reflexivity|].
  rewrite rmodify_replace_rput. destruct (rget (b :: path) 0 body); reflexivity.
Qed.

Lemma spec_get_sub M idx :
  match spec_get M idx with SpOk y => sub M idx = Some y | SpErr _ => sub M idx = None end.
Proof.
  rewrite spec_get_char. unfold sub, gp, root. cbn [rsub rkids].
  destruct (nth_error (rm_fns M) (ci_function idx)) as [body|].
  - destruct (ci_indices idx) as [|b path] eqn:E; [reflexivity|].
    pose proof (rget_rsub (b :: path) 0 body) as G. destruct (rget (b :: path) 0 body); exact G.
  - destruct (ci_indices idx); reflexivity.
Qed.

Lemma spec_replace_put M idx x :
  match spec_replace M idx x with
  | SpOk (M', o) => sub M idx = Some o /\ M' = put M idx x
  | SpErr e => sub M idx = None /\ spec_get M idx = SpErr e
  end.
Proof.
  pose proof (spec_get_sub M idx) as S. rewrite spec_replace_char. rewrite spec_get_char in *.
  unfold put, gp, root. cbn [rput rkids rlabel].
  destruct (nth_error (rm_fns M) (ci_function idx)) as [body|]; [|auto].
  destruct (ci_indices idx) as [|b path] eqn:E; [auto|].
  destruct (rget (b :: path) 0 body); auto.
Qed.

Lemma spec_get_of_sub M idx y : sub M idx = Some y -> spec_get M idx = SpOk y.
Proof.
  intros H. pose proof (spec_get_sub M idx) as S. destruct (spec_get M idx); congruence.
Qed.

Lemma spec_replace_of_sub M idx x o : sub M idx = Some o -> spec_replace M idx x = SpOk (put M idx x, o).
Proof.
  intros H. pose proof (spec_replace_put M idx x) as S. destruct (spec_replace M idx x) as [[M' o']|e].
  - destruct S as [S1 ->]. congruence.
  - destruct S; congruence.
Qed.

Lemma root_put M idx x : ci_indices idx <> [] -> root (put M idx x) = rput (gp idx) x (root M).
Proof.
  intros _. unfold put, root, with_fns, gp. cbn [rm_fns rput rkids rlabel].
  destruct (nth_error (rm_fns M) (ci_function idx)); reflexivity.
Qed.

Lemma put_ext M N : rm_subs M = rm_subs N -> rm_imports M = rm_imports N -> root M = root N -> M = N.
Proof. destruct M, N. unfold root. cbn. intros -> -> [= ->]. reflexivity. Qed.

Lemma sub_nonempty M idx y : sub M idx = Some y -> ci_indices idx <> [].
Proof. unfold sub. destruct (ci_indices idx); [discriminate|discriminate]. Qed.

(* the laws, on modules *)
Lemma gp_related a b :
  related a b = is_prefix (gp a) (gp b) || is_prefix (gp b) (gp a).
Proof.
  unfold related, gp. cbn [is_prefix]. rewrite (Nat.eqb_sym (ci_function b)).
  destruct (ci_function a =? ci_function b); reflexivity.
Qed.

Lemma sub_put_same M i o x : sub M i = Some o -> sub (put M i x) i = Some x.
Proof.
  intros H. pose proof (sub_nonempty _ _ _ H) as NE. unfold sub in *.
  destruct (ci_indices i) eqn:E; [discriminate|]. rewrite root_put by congruence.
  eapply rsub_rput_same; eauto.
Qed.

Lemma sub_put_other M i j x : ci_indices i <> [] -> related i j = false -> sub (put M i x) j = sub M j.
Proof.
  intros NE R. rewrite gp_related in R. apply orb_false_elim in R. destruct R as [R1 R2].
  unfold sub. destruct (ci_indices j) eqn:E; [reflexivity|]. rewrite root_put by exact NE.
  apply rsub_rput_other; auto.
Qed.

Lemma put_put_same M i x y : ci_indices i <> [] -> put (put M i x) i y = put M i y.
Proof.
  intros NE. apply put_ext; try reflexivity. rewrite !root_put by exact NE. apply rput_rput_same.
Qed.

Lemma put_comm M i j x y : ci_indices i <> [] -> ci_indices j <> [] -> related i j = false ->
  put (put M i x) j y = put (put M j y) i x.
Proof.
  intros NI NJ R. rewrite gp_related in R. apply orb_false_elim in R. destruct R as [R1 R2].
  apply put_ext; try reflexivity. rewrite !root_put by assumption. apply rput_comm; auto.
Qed.

Lemma put_sub_id M i o : sub M i = Some o -> put M i o = M.
Proof.
  intros H. pose proof (sub_nonempty _ _ _ H) as NE. apply put_ext; try reflexivity.
  rewrite root_put by exact NE. unfold sub in H. destruct (ci_indices i); [discriminate|].
  apply rput_rsub_id; exact H.
Qed.

(* ---- the CardIndex order ---- *)
Lemma indices_eqb_eq a : forall b, indices_eqb a b = true <-> a = b.
Proof.
  induction a as [|x a IH]; intros [|y b]; cbn; split; intros H; try discriminate; auto.
  - apply andb_true_iff in H. destruct H as [H1 H2]. apply Nat.eqb_eq in H1. apply IH in H2. congruence.
  - injection H as -> ->. rewrite Nat.eqb_refl. apply IH. reflexivity.
Qed.

Lemma ci_eqb_eq a b : ci_eqb a b = true <-> a = b.
Proof.
  unfold ci_eqb. destruct a as [f p], b as [g q]. cbn. split; intros H.
  - apply andb_true_iff in H. destruct H as [H1 H2]. apply Nat.eqb_eq in H1. apply indices_eqb_eq in H2. congruence.
  - injection H as -> ->. rewrite Nat.eqb_refl. apply indices_eqb_eq. reflexivity.
Qed.

Lemma ci_eqb_refl a : ci_eqb a a = true.
Proof. apply ci_eqb_eq. reflexivity. Qed.

Lemma ci_eqb_sym a b : ci_eqb a b = ci_eqb b a.
Proof.
  destruct (ci_eqb a b) eqn:E1, (ci_eqb b a) eqn:E2; auto.
  - apply ci_eqb_eq in E1. subst. rewrite ci_eqb_refl in E2. discriminate.
  - apply ci_eqb_eq in E2. subst. rewrite ci_eqb_refl in E1. discriminate.
Qed.

Lemma indices_cmp_antisym a : forall b, indices_cmp b a = CompOpp (indices_cmp a b).
Proof.
  induction a as [|x a IH]; intros [|y b]; cbn [indices_cmp length]; try reflexivity.
  - rewrite (Nat.compare_antisym x y). destruct (x ?= y); cbn; auto.
Qed.

Lemma indices_cmp_prefix p : forall s, s <> [] -> indices_cmp p (p ++ s) = Lt.
Proof.
  induction p as [|x p IH]; intros s NE; cbn [app indices_cmp].
  - destruct s; [congruence|reflexivity].
  - rewrite Nat.compare_refl. apply IH; exact NE.
Qed.

Lemma ci_ltb_asym a b : ci_ltb a b = true -> ci_ltb b a = false.
Proof.
  unfold ci_ltb, ci_cmp. rewrite (Nat.compare_antisym (ci_function a) (ci_function b)).
  destruct (ci_function a ?= ci_function b); cbn; try discriminate; auto.
  rewrite (indices_cmp_antisym (ci_indices a) (ci_indices b)).
  destruct (indices_cmp (ci_indices a) (ci_indices b)); cbn; try discriminate; auto.
Qed.

(* a strict ancestor is smaller *)
Lemma ancestor_ltb a b s : ci_function a = ci_function b -> ci_indices b = ci_indices a ++ s -> s <> [] ->
  ci_ltb a b = true.
Proof.
  intros F I NE. unfold ci_ltb, ci_cmp. rewrite F, Nat.compare_refl, I, indices_cmp_prefix by exact NE. reflexivity.
Qed.

Definition anc (hi lo : card_index) : Prop :=
  related hi lo = true -> exists i q, gp hi = gp lo ++ i :: q.

Lemma related_sym a b : related a b = related b a.
Proof. unfold related. rewrite Nat.eqb_sym, orb_comm. reflexivity. Qed.

Lemma related_cases hi lo :
  ci_eqb hi lo = false -> ci_ltb hi lo = false -> anc hi lo.
Proof.
  intros NE NL R. unfold related in R. apply andb_true_iff in R. destruct R as [F R].
  apply Nat.eqb_eq in F. apply orb_true_iff in R. destruct R as [R|R].
  - (* hi would be an ancestor of lo: then hi < lo *)
    apply is_prefix_app in R. destruct R as (s & Hs). destruct s as [|i q].
    + rewrite app_nil_r in Hs. exfalso. assert (hi = lo) by (destruct hi, lo; cbn in *; congruence).
      subst. rewrite ci_eqb_refl in NE. discriminate.
    + rewrite (ancestor_ltb hi lo (i :: q) F Hs) in NL by discriminate. discriminate.
  - apply is_prefix_app in R. destruct R as (s & Hs). destruct s as [|i q].
    + rewrite app_nil_r in Hs. exfalso. assert (hi = lo) by (destruct hi, lo; cbn in *; congruence).
      subst. rewrite ci_eqb_refl in NE. discriminate.
    + exists i, q. unfold gp. rewrite F, Hs. reflexivity.
Qed.

(* ---- the calls of the model in terms of sub / put ---- *)
Lemma replace_card_sp m idx x :
  match replace_card m idx x with
  | ROk (m', old) => sub (to_rmod m) idx = Some (to_rose old) /\ to_rmod m' = put (to_rmod m) idx (to_rose x)
  | RErr e => sub (to_rmod m) idx = None /\ spec_get (to_rmod m) idx = SpErr e
  | RPanic => False
  end.
Proof.
  pose proof (replace_card_refines m idx x) as H. pose proof (spec_replace_put (to_rmod m) idx (to_rose x)) as S.
  destruct (replace_card m idx x) as [[m' old]|e|]; auto; rewrite H in S; auto.
Qed.

Lemma get_card_sp m idx :
  match get_card m idx with
  | ROk c => sub (to_rmod m) idx = Some (to_rose c)
  | RErr e => sub (to_rmod m) idx = None /\ spec_get (to_rmod m) idx = SpErr e
  | RPanic => False
  end.
Proof.
  pose proof (get_card_refines m idx) as H. pose proof (spec_get_sub (to_rmod m) idx) as S.
  destruct (get_card m idx) as [c|e|]; auto; rewrite H in S; auto.
Qed.

Lemma spec_swap_char M a b :
  spec_swap M a b =
  match sub M a, sub M b with
  | Some ra, Some rb =>
      if ci_eqb a b then Some M
      else if related a b then None
      else Some (put (put M a rb) b ra)
  | _, _ => None
  end.
Proof.
  unfold spec_swap. pose proof (spec_get_sub M a) as Sa. pose proof (spec_get_sub M b) as Sb.
  destruct (spec_get M a) as [ra|ea]; rewrite Sa; [|reflexivity].
  destruct (spec_get M b) as [rb|eb]; rewrite Sb; [|reflexivity].
  destruct (ci_eqb a b); [reflexivity|]. destruct (related a b) eqn:R; [reflexivity|].
  rewrite (spec_replace_of_sub M a rb ra Sa).
  assert (Sb' : sub (put M a rb) b = Some rb).
  { rewrite sub_put_other; auto. eapply sub_nonempty; eauto. }
  rewrite (spec_replace_of_sub _ b ra rb Sb'). reflexivity.
Qed.

Lemma spec_swap_sym M a b : spec_swap M a b = spec_swap M b a.
Proof.
  rewrite !spec_swap_char. destruct (sub M a) as [ra|] eqn:Sa, (sub M b) as [rb|] eqn:Sb; auto.
  rewrite (ci_eqb_sym b a), (related_sym b a). destruct (ci_eqb a b); auto. destruct (related a b) eqn:R; auto.
  rewrite put_comm; auto; eapply sub_nonempty; eauto.
Qed.

(* the body of swap_cards once the two indices are ordered *)
Definition swap_body (m : module) (lhs rhs : card_index) : module * swap_res :=
  match replace_card m rhs CScalarNil with
  | RErr e => (m, SwErr (SwapFetchError rhs e))
  | RPanic => (m, SwPanic)
  | ROk (m1, rhs_card) =>
      match get_card m1 lhs with
      | RPanic => (m1, SwPanic)
      | RErr _ =>
          match replace_card m1 rhs rhs_card with
          | ROk (m2, _) => (m2, SwErr InvalidSwap)
          | _ => (m1, SwPanic)
          end
      | ROk _ =>
          match replace_card m1 lhs rhs_card with
          | ROk (m2, lhs_card) =>
              match replace_card m2 rhs lhs_card with
              | ROk (m3, _) => (m3, SwOk)
              | _ => (m2, SwPanic)
              end
          | _ => (m1, SwPanic)
          end
      end
  end.

Lemma swap_legacy_body m a b :
  swap_cards_legacy m a b = if ci_ltb a b then swap_body m b a else swap_body m a b.
Proof. unfold swap_cards_legacy. destruct (ci_ltb a b); reflexivity. Qed.

Definition swap_post (m : module) (a b lo : card_index) (res : module * swap_res) : Prop :=
  match snd res with
  | SwOk => spec_swap (to_rmod m) a b = Some (to_rmod (fst res))
  | SwErr e => spec_swap (to_rmod m) a b = None /\ fst res = m /\
               (e = InvalidSwap \/ exists e', e = SwapFetchError lo e' /\ spec_get (to_rmod m) lo = SpErr e')
  | SwPanic => False
  end.

Lemma swap_body_refines m hi lo :
  ci_eqb hi lo = false -> anc hi lo -> swap_post m hi lo lo (swap_body m hi lo).
Proof.
  intros NE ANC. unfold swap_body, swap_post.
  pose proof (replace_card_sp m lo CScalarNil) as R1.
  destruct (replace_card m lo CScalarNil) as [[m1 rc]|e|] eqn:E1; [|cbn [fst snd]|contradiction].
  2:{ destruct R1 as [R1 R1']. split; [|split; [reflexivity|right; eauto]].
      rewrite spec_swap_char. rewrite R1. destruct (sub (to_rmod m) hi); reflexivity. }
  destruct R1 as [Slo M1].
  assert (NElo : ci_indices lo <> []) by (eapply sub_nonempty; eauto).
  assert (Slo1 : sub (to_rmod m1) lo = Some (RNode LNil [])).
  { rewrite M1. change (to_rose CScalarNil) with (RNode LNil []). eapply sub_put_same; eauto. }
  pose proof (get_card_sp m1 hi) as R2.
  destruct (get_card m1 hi) as [c|e2|]; [| |contradiction].
  - (* lhs reachable: the two cards are unrelated *)
    assert (UN : related hi lo = false).
    { destruct (related hi lo) eqn:R; [|reflexivity]. exfalso.
      destruct (ANC R) as (i & q & G). unfold sub in R2, Slo1.
      destruct (ci_indices hi) eqn:EH; [discriminate|]. destruct (ci_indices lo) eqn:EL; [congruence|].
      rewrite G, rsub_app, Slo1 in R2. cbn in R2. destruct i; discriminate. }
    assert (UN' : related lo hi = false) by (rewrite related_sym; exact UN).
    assert (Shi : sub (to_rmod m) hi = Some (to_rose c)).
    { rewrite <- R2, M1. symmetry. apply sub_put_other; auto. }
    assert (NEhi : ci_indices hi <> []) by (eapply sub_nonempty; eauto).
    pose proof (replace_card_sp m1 hi rc) as R3.
    destruct (replace_card m1 hi rc) as [[m2 lc]|e3|]; [| destruct R3; congruence | contradiction].
    destruct R3 as [R3 M2]. assert (LC : to_rose lc = to_rose c) by congruence.
    pose proof (replace_card_sp m2 lo lc) as R4.
    assert (Slo2 : sub (to_rmod m2) lo = Some (RNode LNil [])).
    { rewrite M2, sub_put_other; auto. }
    destruct (replace_card m2 lo lc) as [[m3 o3]|e4|]; [| destruct R4; congruence | contradiction].
    destruct R4 as [_ M3]. cbn [fst snd].
    rewrite spec_swap_char. rewrite Shi, Slo, NE, UN. f_equal.
    rewrite M3, M2, M1, LC. change (to_rose CScalarNil) with (RNode LNil []).
    rewrite (put_comm (to_rmod m) lo hi) by auto. rewrite put_put_same by auto. reflexivity.
  - (* lhs not reachable: restore *)
    destruct R2 as [R2 _]. rewrite (replace_back _ _ _ _ _ E1). cbn [fst snd].
    split; [|split; [reflexivity|left; reflexivity]].
    rewrite spec_swap_char. destruct (sub (to_rmod m) hi) as [rh|] eqn:Shi; [|reflexivity]. rewrite Slo, NE.
    destruct (related hi lo) eqn:R; [reflexivity|]. exfalso.
    rewrite M1, sub_put_other in R2; auto; [congruence|]. rewrite related_sym; exact R.
Qed.

Lemma fetch_eqb_refl e : fetch_eqb e e = true.
Proof. destruct e; cbn; rewrite ?Nat.eqb_refl; reflexivity. Qed.

Lemma swap_err_ok_intro M a b lo e :
  lo = a \/ lo = b ->
  (e = InvalidSwap \/ exists e', e = SwapFetchError lo e' /\ spec_get M lo = SpErr e') ->
  swap_err_ok M a b e = true.
Proof.
  intros HL [->|(e' & -> & G)]; [reflexivity|]. unfold swap_err_ok.
  assert (X : forall j, lo = j ->
              ci_eqb lo j && match spec_get M j with SpErr fe' =>
                  match e', fe' with
                  | FunctionNotFound, FunctionNotFound => true
                  | InvalidIndex, InvalidIndex => true
                  | CardNotFound p, CardNotFound q => Nat.eqb p q
                  | NoSubFunction p, NoSubFunction q => Nat.eqb p q
                  | _, _ => false
                  end | SpOk _ => false end = true).
  { intros j <-. rewrite ci_eqb_refl, G. destruct e'; cbn; rewrite ?Nat.eqb_refl; reflexivity. }
  destruct HL as [HL|HL]; rewrite (X _ HL); [reflexivity|apply orb_true_r].
Qed.

(* swap_cards is the swap of the specification, for every module and every two indices *)
Theorem swap_cards_refines m a b :
  match snd (swap_cards m a b) with
  | SwOk => spec_swap (to_rmod m) a b = Some (to_rmod (fst (swap_cards m a b)))
  | SwErr e => spec_swap (to_rmod m) a b = None /\ fst (swap_cards m a b) = m /\
               swap_err_ok (to_rmod m) a b e = true
  | SwPanic => False
  end.
Proof.
  unfold swap_cards. destruct (ci_eqb a b) eqn:EQ.
  - apply ci_eqb_eq in EQ. subst b. cbn [fst snd]. pose proof (get_card_sp m a) as G.
    rewrite spec_swap_char, ci_eqb_refl.
    destruct (get_card m a) as [c|e|]; [rewrite G; reflexivity| |contradiction].
    destruct G as [G1 G2]. rewrite G1. split; [reflexivity|split; [reflexivity|]].
    apply (swap_err_ok_intro _ a a a); eauto.
  - rewrite swap_legacy_body. destruct (ci_ltb a b) eqn:LT.
    + assert (P : swap_post m b a a (swap_body m b a)).
      { apply swap_body_refines; [rewrite ci_eqb_sym; exact EQ|].
        apply related_cases; [rewrite ci_eqb_sym; exact EQ|apply ci_ltb_asym; exact LT]. }
      unfold swap_post in P. rewrite (spec_swap_sym _ a b).
      destruct (snd (swap_body m b a)); auto. destruct P as (P1 & P2 & P3). repeat split; auto.
      apply (swap_err_ok_intro _ a b a); auto.
    + assert (P : swap_post m a b b (swap_body m a b)).
      { apply swap_body_refines; [exact EQ|]. apply related_cases; assumption. }
      unfold swap_post in P.
      destruct (snd (swap_body m a b)); auto. destruct P as (P1 & P2 & P3). repeat split; auto.
      apply (swap_err_ok_intro _ a b b); auto.
Qed.

Lemma spec_swap_involutive M a b M1 : spec_swap M a b = Some M1 -> spec_swap M1 a b = Some M.
Proof.
  rewrite spec_swap_char. destruct (sub M a) as [ra|] eqn:Sa; [|discriminate].
  destruct (sub M b) as [rb|] eqn:Sb; [|discriminate].
  assert (NA : ci_indices a <> []) by (eapply sub_nonempty; eauto).
  assert (NB : ci_indices b <> []) by (eapply sub_nonempty; eauto).
  destruct (ci_eqb a b) eqn:EQ.
  - intros [= <-]. rewrite spec_swap_char, Sa, Sb, EQ. reflexivity.
  - destruct (related a b) eqn:R; [discriminate|]. intros [= <-].
    assert (R' : related b a = false) by (rewrite related_sym; exact R).
    assert (S1 : sub (put M a rb) b = Some rb) by (rewrite sub_put_other; auto).
    assert (Sa1 : sub (put (put M a rb) b ra) a = Some rb).
    { rewrite sub_put_other by auto. eapply sub_put_same; eauto. }
    assert (Sb1 : sub (put (put M a rb) b ra) b = Some ra) by (eapply sub_put_same; eauto).
    rewrite spec_swap_char, Sa1, Sb1, EQ, R. f_equal.
    rewrite (put_comm M a b) by auto. rewrite (put_put_same _ a) by auto.
    rewrite (put_comm (put M b ra) a b) by auto. rewrite (put_put_same _ b) by auto.
    rewrite (put_sub_id M b rb Sb). apply put_sub_id; exact Sa.
Qed.

(* swapping twice is the identity *)
Theorem swap_involutive m a b m1 :
  swap_cards m a b = (m1, SwOk) -> swap_cards m1 a b = (m, SwOk).
Proof.
  intros E. pose proof (swap_cards_refines m a b) as H. rewrite E in H. cbn [fst snd] in H.
  apply spec_swap_involutive in H. pose proof (swap_cards_refines m1 a b) as H2.
  destruct (swap_cards m1 a b) as [m2 [|e|]]; cbn [fst snd] in H2.
  - rewrite H in H2. assert (H3 : to_rmod m = to_rmod m2) by congruence. apply to_rmod_inj in H3. subst. reflexivity.
  - destruct H2 as [H2 _]. congruence.
  - contradiction.
Qed.

(* a card and its own ancestor (or descendant) cannot be swapped, whatever the argument order *)
Theorem swap_ancestor_fails_unchanged m a b :
  ci_eqb a b = false -> related a b = true ->
  exists e, swap_cards m a b = (m, SwErr e).
Proof.
  intros NE R. pose proof (swap_cards_refines m a b) as H.
  assert (S : spec_swap (to_rmod m) a b = None).
  { rewrite spec_swap_char, NE, R. destruct (sub (to_rmod m) a), (sub (to_rmod m) b); reflexivity. }
  destruct (swap_cards m a b) as [m' [|e|]]; cbn [fst snd] in H.
  - congruence.
  - destruct H as (_ & -> & _). eauto.
  - contradiction.
Qed.

Lemma step_refines_swap m a b :
  spec_step (to_rmod m) (OpSwap a b) =
  (to_rmod (fst (step m (OpSwap a b))), abs_obs (snd (step m (OpSwap a b)))).
Proof.
  cbn [spec_step step]. pose proof (swap_cards_refines m a b) as H.
  destruct (swap_cards m a b) as [m' [|e|]]; cbn [fst snd] in *.
  - rewrite H. reflexivity.
  - destruct H as (-> & -> & _). reflexivity.
  - contradiction.
Qed.

(* ---- walk_cards is the pre-order listing of the specification ---- *)

Fixpoint rwalk_list (id : list nat) (l : list rose) (k : nat) : list (list nat * rose) :=
  match l with
  | [] => []
  | ch :: t => ((id ++ [k], ch) :: rwalk ch (id ++ [k])) ++ rwalk_list id t (S k)
  end.

Lemma rwalk_unfold r id : rwalk r id = rwalk_list id (rkids r) 0.
Proof.
  destruct r as [l kids]. cbn [rwalk rkids]. generalize 0.
  induction kids as [|ch t IH]; intros k; [reflexivity|]. cbn [rwalk_list]. rewrite <- IH. reflexivity.
Qed.

Definition abs_pc (pc : list nat * card) : list nat * rose := (fst pc, to_rose (snd pc)).

Lemma rwalk_list_map id l :
  Forall (fun c => forall id, rwalk (to_rose c) id = map abs_pc (visit_children c id)) l ->
  forall k, rwalk_list id (map to_rose l) k = map abs_pc (visit_list id l k).
Proof.
  induction 1 as [|c l Hc _ IH]; intros k; [reflexivity|].
  cbn [map rwalk_list visit_list]. rewrite map_app. cbn [map]. rewrite Hc, IH. reflexivity.
Qed.

Lemma rwalk_to_rose : forall c id, rwalk (to_rose c) id = map abs_pc (visit_children c id).
Proof.
  induction c as [c IH] using card_ind_children. intros id.
  rewrite rwalk_unfold, to_rose_kids, visit_children_unfold. apply rwalk_list_map. exact IH.
Qed.

Definition abs_ic (ic : card_index * card) : nat * list nat * rose :=
  (ci_function (fst ic), ci_indices (fst ic), to_rose (snd ic)).

Lemma walk_fn_cards_refines fi cards : forall j,
  map abs_ic (walk_fn_cards fi cards j) =
  map (fun pr : list nat * rose => (fi, fst pr, snd pr)) (rwalk_list [] (map to_rose cards) j).
Proof.
  induction cards as [|c cards IH]; intros j; [reflexivity|].
  cbn [walk_fn_cards map rwalk_list]. rewrite !map_app. cbn [map]. rewrite IH. f_equal. f_equal.
  rewrite rwalk_to_rose, !map_map. apply map_ext. intros [p x]. reflexivity.
Qed.

Lemma walk_fns_refines fns : forall fi,
  map abs_ic (walk_fns fns fi) = spec_walk_fns (map body_rose fns) fi.
Proof.
  induction fns as [|[name fn] fns IH]; intros fi; [reflexivity|].
  cbn [walk_fns map spec_walk_fns]. rewrite map_app, IH. f_equal.
  rewrite walk_fn_cards_refines. unfold body_rose. cbn [fst snd]. rewrite rwalk_unfold. reflexivity.
Qed.

Theorem walk_cards_refines m : map abs_ic (walk_cards m) = spec_walk (to_rmod m).
Proof. apply walk_fns_refines. Qed.

Lemma step_refines_walk m :
  spec_step (to_rmod m) OpWalk = (to_rmod (fst (step m OpWalk)), abs_obs (snd (step m OpWalk))).
Proof. cbn [spec_step step fst snd abs_obs]. rewrite <- walk_cards_refines. reflexivity. Qed.

(* one API call of the kind-by-kind model is the same call of the rose-tree specification:
   every operation, every module, every argument *)
Theorem step_refines m o :
  spec_step (to_rmod m) o = (to_rmod (fst (step m o)), abs_obs (snd (step m o))).
Proof.
  destruct o.
  - destruct (step_refines_get m idx) as [H1 H2]. rewrite H2. exact H1.
  - destruct (step_refines_get_mut m idx) as [H1 H2]. rewrite H2. exact H1.
  - apply step_refines_insert.
  - apply step_refines_remove.
  - apply step_refines_replace.
  - apply step_refines_swap.
  - apply step_refines_walk.
  - apply step_refines_kids.
  - apply step_refines_replace_child.
Qed.

(* ... and so is every history *)
Fixpoint spec_run (M : rmodule) (ops : list op) : list (robs * rmodule) :=
  match ops with
  | [] => []
  | o :: t => let '(M', ob) := spec_step M o in (ob, M') :: spec_run M' t
  end.

Theorem run_refines ops : forall m,
  map (fun om : obs * module => (abs_obs (fst om), to_rmod (snd om))) (run m ops) = spec_run (to_rmod m) ops.
Proof.
  induction ops as [|o ops IH]; intros m; [reflexivity|]. cbn [run spec_run].
  rewrite (step_refines m o). destruct (step m o) as [m' ob]. cbn [map fst snd]. rewrite IH. reflexivity.
Qed.

(* ---- walk_cards lists every card: completeness ---- *)

Lemma visit_list_intro id l : forall k j ch,
  nth_error l j = Some ch ->
  In (id ++ [k + j], ch) (visit_list id l k) /\
  incl (visit_children ch (id ++ [k + j])) (visit_list id l k).
Proof.
  induction l as [|a l IH]; intros k [|j] ch E; cbn [nth_error] in E; try discriminate.
  - injection E as ->. rewrite Nat.add_0_r. cbn [visit_list]. split.
    + apply in_or_app. left. left. reflexivity.
    + intros e He. apply in_or_app. left. right. exact He.
  - destruct (IH (S k) j ch E) as [I1 I2]. rewrite <- plus_n_Sm. cbn [visit_list]. cbn [Nat.add] in *. split.
    + apply in_or_app. right. exact I1.
    + intros e He. apply in_or_app. right. apply I2. exact He.
Qed.

Lemma reach_visit q : forall c id x, q <> [] -> reach q c = Some x -> In (id ++ q, x) (visit_children c id).
Proof.
  induction q as [|i q IH]; [congruence|]. intros c id x _. cbn [reach].
  pose proof (get_child_mut_spec c i) as H. destruct (get_child_mut c i) as [[ch put]|]; [|discriminate].
  destruct H as [E _]. intros R. rewrite visit_children_unfold.
  destruct (visit_list_intro id (iter_children c) 0 i ch E) as [I1 I2]. cbn [Nat.add] in *.
  destruct q as [|i' q].
  - cbn [reach] in R. injection R as <-. exact I1.
  - apply I2. specialize (IH ch (id ++ [i]) x ltac:(discriminate) R). rewrite <- app_assoc in IH. exact IH.
Qed.

Lemma descend_mut_id_inv path : forall d c c' x,
  descend_mut path d c (fun c0 => ROk (c0, c0)) = ROk (c', x) -> reach path c = Some x.
Proof.
  induction path as [|i path IH]; intros d c c' x; cbn [descend_mut reach].
  - intros [= _ ->]. reflexivity.
  - destruct (get_child_mut c i) as [[ch put]|]; [|discriminate].
    destruct (descend_mut path (S d) ch (fun c0 => ROk (c0, c0))) as [[ch' y]|e|] eqn:E; try discriminate.
    intros [= _ <-]. eapply IH; eauto.
Qed.

Lemma In_walk_fn_cards_intro fi cards : forall j k card q x,
  nth_error cards k = Some card -> reach q card = Some x ->
  In (mk_index fi ((j + k) :: q), x) (walk_fn_cards fi cards j).
Proof.
  induction cards as [|c cards IH]; intros j [|k] card q x E R; cbn [nth_error] in E; try discriminate.
  - injection E as ->. rewrite Nat.add_0_r. cbn [walk_fn_cards]. apply in_or_app. left.
    destruct q as [|i q].
    + cbn [reach] in R. injection R as <-. left. reflexivity.
    + right. apply in_map_iff. exists ([j] ++ i :: q, x). split; [reflexivity|].
      apply reach_visit; [discriminate|exact R].
  - cbn [walk_fn_cards]. apply in_or_app. right. rewrite <- plus_n_Sm. apply (IH (S j) k card q x E R).
Qed.

Lemma In_walk_fns_intro fns : forall fi n name fn k card q x,
  nth_error fns n = Some (name, fn) -> nth_error (f_cards fn) k = Some card -> reach q card = Some x ->
  In (mk_index (fi + n) (k :: q), x) (walk_fns fns fi).
Proof.
  induction fns as [|[name0 fn0] fns IH]; intros fi [|n] name fn k card q x E1 E2 R; cbn [nth_error] in E1; try discriminate.
  - injection E1 as -> ->. rewrite Nat.add_0_r. cbn [walk_fns]. apply in_or_app. left.
    apply (In_walk_fn_cards_intro fi (f_cards fn) 0 k card q x E2 R).
  - cbn [walk_fns]. apply in_or_app. right. rewrite <- plus_n_Sm. apply (IH (S fi) n name fn k card q x E1 E2 R).
Qed.

Theorem walk_complete m idx x : get_card_mut m idx = ROk x -> In (idx, x) (walk_cards m).
Proof.
  unfold get_card_mut, with_card_mut. destruct idx as [f ind]. cbn [ci_function ci_indices]. unfold ci_begin. cbn [ci_indices].
  destruct (nth_error (m_functions m) f) as [[name fn]|] eqn:EF; [|discriminate].
  destruct ind as [|b path]; [discriminate|].
  destruct (nth_error (f_cards fn) b) as [card|] eqn:EC; [|discriminate].
  rewrite slice_tail.
  destruct (descend_mut path 1 card (fun c => ROk (c, c))) as [[c' y]|e|] eqn:ED; try discriminate.
  intros [= ->]. apply descend_mut_id_inv in ED.
  apply (In_walk_fns_intro (m_functions m) 0 f name fn b card path x EF EC ED).
Qed.

(* every card has exactly one entry: the walk reports (idx, c) iff idx looks up to c *)
Theorem walk_iff m idx x : In (idx, x) (walk_cards m) <-> get_card_mut m idx = ROk x.
Proof. split; [intros H; apply (walk_lookup m idx x H)|apply walk_complete]. Qed.

(* ---- ... exactly once: the reported indices are pairwise different ---- *)

Lemma NoDup_app_intro {A} (a b : list A) :
  NoDup a -> NoDup b -> (forall x, In x a -> In x b -> False) -> NoDup (a ++ b).
Proof.
  induction 1 as [|x a Hx Ha IH]; intros Hb D; [exact Hb|]. cbn [app]. constructor.
  - intros HI. apply in_app_or in HI. destruct HI as [HI|HI]; [contradiction|]. apply (D x); [left; reflexivity|exact HI].
  - apply IH; auto. intros y Hy. apply D. right. exact Hy.
Qed.

Lemma visit_paths c id p x : In (p, x) (visit_children c id) -> exists i q, p = id ++ i :: q.
Proof.
  intros H. rewrite visit_children_unfold in H. apply In_visit_list in H.
  destruct H as (j & ch & E & [[-> _]|H]); cbn [Nat.add].
  - exists j, []. reflexivity.
  - apply visit_reach in H. destruct H as (q & -> & _). exists j, q. rewrite <- app_assoc. reflexivity.
Qed.

Lemma visit_list_paths id l : forall k p x,
  In (p, x) (visit_list id l k) -> exists j q, p = id ++ (k + j) :: q.
Proof.
  intros k p x H. apply In_visit_list in H. destruct H as (j & ch & E & [[-> _]|H]).
  - exists j, []. reflexivity.
  - apply visit_reach in H. destruct H as (q & -> & _). exists j, q. rewrite <- app_assoc. reflexivity.
Qed.

Lemma in_map_fst {A B} (l : list (A * B)) p : In p (map fst l) -> exists x, In (p, x) l.
Proof. intros H. apply in_map_iff in H. destruct H as ([p' x] & <- & H). eauto. Qed.

Lemma NoDup_visit_list id l :
  Forall (fun c => forall id, NoDup (map fst (visit_children c id))) l ->
  forall k, NoDup (map fst (visit_list id l k)).
Proof.
  induction 1 as [|c l Hc _ IH]; intros k; [constructor|].
  cbn [visit_list]. rewrite map_app. cbn [map fst]. apply NoDup_app_intro.
  - constructor; [|apply Hc]. intros HI. apply in_map_fst in HI. destruct HI as (x & HI).
    apply visit_paths in HI. destruct HI as (i & q & E). rewrite <- app_assoc in E.
    apply app_inv_head in E. discriminate.
  - apply IH.
  - intros p H1 H2. apply in_map_fst in H2. destruct H2 as (x2 & H2). apply visit_list_paths in H2.
    destruct H2 as (j & q & ->). destruct H1 as [H1|H1].
    + apply app_inv_head in H1. injection H1 as H1 _. lia.
    + apply in_map_fst in H1. destruct H1 as (x1 & H1). apply visit_paths in H1. destruct H1 as (i & q' & E).
      rewrite <- app_assoc in E. apply app_inv_head in E. injection E as E _. lia.
Qed.

Lemma NoDup_visit_children : forall c id, NoDup (map fst (visit_children c id)).
Proof.
  induction c as [c IH] using card_ind_children. intros id. rewrite visit_children_unfold.
  apply NoDup_visit_list. exact IH.
Qed.

Lemma walk_fn_cards_fst fi cards : forall j,
  map fst (walk_fn_cards fi cards j) = map (mk_index fi) (map fst (visit_list [] cards j)).
Proof.
  induction cards as [|c cards IH]; intros j; [reflexivity|].
  cbn [walk_fn_cards visit_list]. rewrite !map_app. cbn [map fst app]. rewrite IH. f_equal. f_equal.
  rewrite !map_map. reflexivity.
Qed.

Lemma NoDup_walk_fns fns : forall fi, NoDup (map fst (walk_fns fns fi)).
Proof.
  induction fns as [|[name fn] fns IH]; intros fi; [constructor|].
  cbn [walk_fns]. rewrite map_app. apply NoDup_app_intro.
  - rewrite walk_fn_cards_fst. apply Injective_map_NoDup.
    + intros p q [= ->]. reflexivity.
    + apply NoDup_visit_list. apply Forall_forall. intros c _. apply NoDup_visit_children.
  - apply IH.
  - intros idx H1 H2. apply in_map_fst in H1. apply in_map_fst in H2.
    destruct H1 as (x1 & H1), H2 as (x2 & H2).
    apply In_walk_fn_cards in H1. destruct H1 as (k & card & q & _ & -> & _).
    apply In_walk_fns in H2. destruct H2 as (n & name' & fn' & k' & card' & q' & _ & _ & E & _).
    injection E as E _. lia.
Qed.

Theorem walk_unique m : NoDup (map fst (walk_cards m)).
Proof. apply NoDup_walk_fns. Qed.

(* ---- remove undoes insert at list positions ---- *)

Lemma node_remove_insert x i r r' :
  node_insert x i r = Some (r', tt) -> list_pos (rlabel r) i = true -> node_remove i r' = Some (r, x).
Proof.
  destruct r as [l kids]. cbn [node_insert rlabel]. intros H L. rewrite L in H.
  destruct (Nat.leb_spec i (length kids)) as [Hi|Hi]; [|discriminate]. injection H as <-.
  cbn [node_remove]. rewrite nth_error_insert_nth by exact Hi. rewrite L, remove_insert_nth by exact Hi. reflexivity.
Qed.

Lemma rmodify_remove_insert x i p : forall d r r' par,
  rmodify p d (node_insert x i) r = SOk (r', tt) -> rsub p r = Some par -> list_pos (rlabel par) i = true ->
  rmodify p d (node_remove i) r' = SOk (r, x).
Proof.
  induction p as [|j p IH]; intros d r r' par; cbn [rmodify rsub].
  - destruct (node_insert x i r) as [[r1 []]|] eqn:E; [|discriminate]. intros [= <-] [= <-] L.
    rewrite (node_remove_insert _ _ _ _ E L). reflexivity.
  - destruct r as [l kids]. cbn [rkids rlabel]. destruct (nth_error kids j) as [ch|] eqn:E; [|discriminate].
    destruct (rmodify p (S d) (node_insert x i) ch) as [[ch' []]|] eqn:E2; [|discriminate].
    intros [= <-] S L. cbn [rkids rlabel].
    rewrite nth_error_upd_same by (eapply nth_error_Some_lt; eauto).
    rewrite (IH _ _ _ _ E2 S L), upd_upd, (upd_nth_error _ _ _ E). reflexivity.
Qed.

(* the position an index addresses is a position of a list (a function body, the arguments of a
   call, the cards of a composite card / array / closure), not a fixed slot *)
Definition list_position (M : rmodule) (idx : card_index) : bool :=
  match nth_error (rm_fns M) (ci_function idx) with
  | Some body =>
      match rsub (removelast (ci_indices idx)) body with
      | Some par => list_pos (rlabel par) (last (ci_indices idx) 0)
      | None => false
      end
  | None => false
  end.

Theorem spec_remove_insert M idx x M1 :
  spec_insert M idx x = SpOk (M1, tt) -> list_position M idx = true -> spec_remove M1 idx = SpOk (M, x).
Proof.
  unfold spec_insert, spec_remove, spec_edit, list_position. destruct M as [subs fns imps]. cbn [rm_fns].
  destruct (nth_error fns (ci_function idx)) as [body|] eqn:E; [|discriminate].
  destruct (ci_indices idx) as [|b path] eqn:EI; [discriminate|].
  destruct (rmodify (removelast (b :: path)) 0 (node_insert x (last (b :: path) 0)) body) as [[body' []]|] eqn:E2; [|discriminate].
  intros [= <-]. destruct (rsub (removelast (b :: path)) body) as [par|] eqn:ES; [|discriminate]. intros L.
  unfold rset_fn. cbn [rm_fns rm_subs rm_imports].
  rewrite nth_error_upd_same by (eapply nth_error_Some_lt; eauto).
  rewrite (rmodify_remove_insert _ _ _ _ _ _ _ E2 ES L). unfold rset_fn. cbn [rm_fns rm_subs rm_imports].
  rewrite upd_upd, (upd_nth_error _ _ _ E). reflexivity.
Qed.

Theorem remove_insert m idx x m1 :
  insert_card m idx x = ROk (m1, tt) -> list_position (to_rmod m) idx = true ->
  remove_card m1 idx = ROk (m, x).
Proof.
  intros E L. pose proof (insert_card_refines m idx x) as H. rewrite E in H.
  apply spec_remove_insert in H; [|exact L]. pose proof (remove_card_refines m1 idx) as H2.
  destruct (remove_card m1 idx) as [[m2 y]|e|]; [|congruence|contradiction].
  rewrite H in H2.
  assert (Hm : to_rmod m = to_rmod m2) by congruence. assert (Hx : to_rose x = to_rose y) by congruence.
  apply to_rmod_inj in Hm. apply to_rose_inj in Hx. congruence.
Qed.

(* top-level cards of a function are list positions *)
Corollary remove_insert_top_level m f i x m1 :
  insert_card m (mk_index f [i]) x = ROk (m1, tt) -> remove_card m1 (mk_index f [i]) = ROk (m, x).
Proof.
  intros E. apply remove_insert; [exact E|]. unfold list_position. cbn [mk_index ci_function ci_indices removelast rsub].
  unfold insert_card in E. cbn [mk_index ci_function ci_indices] in E. cbn [to_rmod rm_fns]. rewrite nth_error_map.
  destruct (nth_error (m_functions m) f) as [[name fn]|]; [|discriminate]. reflexivity.
Qed.

(* ---- locality ---- *)

(* a replaced card: every card whose index is neither the index, an extension of it nor a prefix
   of it is where it was and what it was *)
Lemma get_card_mut_sub m idx c : get_card_mut m idx = ROk c <-> sub (to_rmod m) idx = Some (to_rose c).
Proof.
  pose proof (get_card_mut_refines m idx) as H. pose proof (spec_get_sub (to_rmod m) idx) as S. split; intros E.
  - rewrite E in H. rewrite H in S. exact S.
  - destruct (get_card_mut m idx) as [c'|e|]; [|rewrite H in S; congruence|contradiction].
    rewrite H in S. assert (X : to_rose c' = to_rose c) by congruence. apply to_rose_inj in X. congruence.
Qed.

Theorem replace_local m idx x m' old j c :
  replace_card m idx x = ROk (m', old) -> related idx j = false ->
  (get_card_mut m' j = ROk c <-> get_card_mut m j = ROk c).
Proof.
  intros E R. pose proof (replace_card_sp m idx x) as H. rewrite E in H. destruct H as [S M'].
  rewrite !get_card_mut_sub. rewrite M', (sub_put_other (to_rmod m) idx j (to_rose x)); [reflexivity|eapply sub_nonempty; eauto|exact R].
Qed.

(* swapped cards: everything not related to either index stays *)
Theorem swap_local m a b m' j c :
  swap_cards m a b = (m', SwOk) -> related a j = false -> related b j = false ->
  (get_card_mut m' j = ROk c <-> get_card_mut m j = ROk c).
Proof.
  intros E Ra Rb. pose proof (swap_cards_refines m a b) as H. rewrite E in H. cbn [fst snd] in H.
  rewrite spec_swap_char in H. destruct (sub (to_rmod m) a) as [ra|] eqn:Sa; [|discriminate].
  destruct (sub (to_rmod m) b) as [rb|] eqn:Sb; [|discriminate].
  rewrite !get_card_mut_sub. destruct (ci_eqb a b).
  { assert (X : to_rmod m' = to_rmod m) by congruence. rewrite X. reflexivity. }
  destruct (related a b); [discriminate|].
  assert (X : to_rmod m' = put (put (to_rmod m) a rb) b ra) by congruence. rewrite X.
  rewrite (sub_put_other (put (to_rmod m) a rb) b j ra), (sub_put_other (to_rmod m) a j rb);
    [reflexivity|eapply sub_nonempty; eauto|exact Ra|eapply sub_nonempty; eauto|exact Rb].
Qed.

(* ---- locality of insert / remove ---- *)

Definition k_local {A} (k : rose -> option (rose * A)) (i : nat) : Prop :=
  forall par par' a, k par = Some (par', a) ->
                     forall j, j < i -> nth_error (rkids par') j = nth_error (rkids par) j.

Lemma rmodify_local {A} (k : rose -> option (rose * A)) i P : k_local k i -> forall d r r' a Q,
  rmodify P d k r = SOk (r', a) -> is_prefix Q P = false ->
  (forall n, i <= n -> is_prefix (P ++ [n]) Q = false) -> rsub Q r' = rsub Q r.
Proof.
  intros KL. induction P as [|p P IH]; intros d r r' a Q; cbn [rmodify].
  - destruct (k r) as [[r1 a1]|] eqn:E; [|discriminate]. intros [= <- <-] HQ HN.
    destruct Q as [|j Q]; [discriminate|]. cbn [rsub].
    assert (Hj : j < i).
    { destruct (Nat.lt_ge_cases j i) as [|G]; [assumption|]. specialize (HN j G). cbn in HN.
      rewrite Nat.eqb_refl in HN. discriminate. }
    rewrite (KL _ _ _ E j Hj). reflexivity.
  - destruct r as [l kids]. cbn [rkids rlabel]. destruct (nth_error kids p) as [ch|] eqn:E; [|discriminate].
    destruct (rmodify P (S d) k ch) as [[ch' a1]|] eqn:E2; [|discriminate]. intros [= <- <-] HQ HN.
    destruct Q as [|j Q]; [discriminate|]. cbn [rsub rkids]. cbn [is_prefix] in HQ.
    destruct (Nat.eqb_spec j p) as [->|NE].
    + rewrite nth_error_upd_same by (eapply nth_error_Some_lt; eauto). rewrite E.
      cbn [andb] in HQ. eapply IH; eauto. intros n Hn. specialize (HN n Hn). cbn in HN.
      rewrite Nat.eqb_refl in HN. exact HN.
    + rewrite nth_error_upd_other by auto. reflexivity.
Qed.

Lemma nth_error_insert_nth_lt {A} (l : list A) i x : i <= length l ->
  forall j, j < i -> nth_error (insert_nth l i x) j = nth_error l j.
Proof.
  revert l; induction i as [|i IH]; intros l L j H; [lia|]. destruct l as [|a l]; cbn [insert_nth length] in *; [lia|].
  destruct j as [|j]; [reflexivity|]. cbn [nth_error]. apply IH; lia.
Qed.

Lemma nth_error_remove_nth_lt {A} (l : list A) i : forall j, j < i -> nth_error (remove_nth l i) j = nth_error l j.
Proof.
  revert i; induction l as [|a l IH]; intros i j H; [reflexivity|]. destruct i as [|i]; [lia|].
  cbn [remove_nth]. destruct j as [|j]; [reflexivity|]. cbn [nth_error]. apply IH. lia.
Qed.

Lemma node_insert_local x i : k_local (node_insert x i) i.
Proof.
  intros [l kids] par' a. cbn [node_insert]. intros H j Hj.
  destruct (list_pos l i).
  - destruct (Nat.leb_spec i (length kids)); [|discriminate]. injection H as <- _. cbn [rkids]. apply nth_error_insert_nth_lt; assumption.
  - destruct (i <? length kids); [|discriminate]. injection H as <- _. cbn [rkids]. apply nth_error_upd_other. lia.
Qed.

Lemma node_remove_local i : k_local (node_remove i) i.
Proof.
  intros [l kids] par' a. cbn [node_remove]. intros H j Hj.
  destruct (nth_error kids i); [|discriminate]. injection H as <- _.
  destruct (list_pos l i); cbn [rkids]; [apply nth_error_remove_nth_lt; exact Hj|apply nth_error_upd_other; lia].
Qed.

(* index [j] is outside the part of the tree an insert / remove at [idx] may touch: it is not the
   parent of the edited position nor an ancestor of it, and it does not go through the edited
   position or a later sibling of it *)
Definition unaffected (idx j : card_index) : Prop :=
  ci_function j <> ci_function idx \/
  (is_prefix (ci_indices j) (removelast (ci_indices idx)) = false /\
   forall n, last (ci_indices idx) 0 <= n ->
             is_prefix (removelast (ci_indices idx) ++ [n]) (ci_indices j) = false).

Lemma spec_edit_local {A} (k : rose -> option (rose * A)) M idx M' a j :
  spec_edit M idx (removelast (ci_indices idx)) k = SpOk (M', a) ->
  k_local k (last (ci_indices idx) 0) -> unaffected idx j -> sub M' j = sub M j.
Proof.
  unfold spec_edit. destruct (nth_error (rm_fns M) (ci_function idx)) as [body|] eqn:E; [|discriminate].
  destruct (ci_indices idx) as [|b path] eqn:EI; [discriminate|].
  destruct (rmodify (removelast (b :: path)) 0 k body) as [[body' a']|] eqn:E2; [|discriminate].
  intros [= <- <-] KL U. unfold sub, gp, root, rset_fn. cbn [rm_fns rsub rkids].
  destruct (ci_indices j) as [|bj pj] eqn:EJ; [reflexivity|].
  destruct (Nat.eq_dec (ci_function j) (ci_function idx)) as [EQ|NE].
  - rewrite EQ, nth_error_upd_same by (eapply nth_error_Some_lt; eauto). rewrite E.
    destruct U as [U|[U1 U2]]; [contradiction|]. rewrite EI, EJ in *.
    exact (rmodify_local k _ _ KL _ _ _ _ _ E2 U1 U2).
  - rewrite nth_error_upd_other by auto. reflexivity.
Qed.

Theorem insert_local m idx x m1 j c :
  insert_card m idx x = ROk (m1, tt) -> unaffected idx j ->
  (get_card_mut m1 j = ROk c <-> get_card_mut m j = ROk c).
Proof.
  intros E U. pose proof (insert_card_refines m idx x) as H. rewrite E in H.
  rewrite !get_card_mut_sub. unfold spec_insert in H.
  rewrite (spec_edit_local _ _ _ _ _ j H (node_insert_local _ _) U). reflexivity.
Qed.

Theorem remove_local m idx m1 y j c :
  remove_card m idx = ROk (m1, y) -> unaffected idx j ->
  (get_card_mut m1 j = ROk c <-> get_card_mut m j = ROk c).
Proof.
  intros E U. pose proof (remove_card_refines m idx) as H. rewrite E in H.
  rewrite !get_card_mut_sub. unfold spec_remove in H.
  rewrite (spec_edit_local _ _ _ _ _ j H (node_remove_local _) U). reflexivity.
Qed.

(* ---- the three repaired findings, as witnesses on the pre-repair definitions ---- *)

Definition wit_module : module :=
  Module [] [([102%N], {| f_args := []; f_cards := [CScalarInt 1; CCall [103%N] [CScalarInt 2]] |})] [].

(* A-25 (repaired by cc4ee9f): swap_cards(i, i) succeeded and replaced the card by ScalarNil *)
Lemma swap_same_legacy_refuted :
  exists m i c, get_card m i = ROk c /\ snd (swap_cards_legacy m i i) = SwOk /\
                fst (swap_cards_legacy m i i) <> m /\ swap_cards m i i = (m, SwOk).
Proof.
  exists wit_module, (mk_index 0 [0]), (CScalarInt 1).
  split; [vm_compute; reflexivity|]. split; [vm_compute; reflexivity|].
  split; [vm_compute; discriminate|vm_compute; reflexivity].
Qed.

(* A-26 (repaired by bf83e3d): insert_child past the end of a call returned Ok and dropped the card *)
Lemma call_insert_legacy_refuted :
  exists c i x, insert_child_legacy c i x = IOk c /\ node_insert (to_rose x) i (to_rose c) = None /\
                insert_child c i x = IErr x.
Proof.
  exists (CCall [103%N] [CScalarInt 2]), 2, CAbort. repeat split; vm_compute; reflexivity.
Qed.

(* A-41 (repaired by 3cefd5a): get_card reported a nested miss one level too low *)
Lemma get_depth_legacy_refuted :
  exists m idx, get_card_legacy m idx = RErr (CardNotFound 0) /\ get_card_mut m idx = RErr (CardNotFound 1) /\
                get_card m idx = RErr (CardNotFound 1).
Proof.
  exists wit_module, (mk_index 0 [1; 5]). repeat split; vm_compute; reflexivity.
Qed.

(* remove after insert does not restore a fixed slot: insert overwrote the old child
   (documented behaviour of insert_child: "replace the child at the index if not [a list]") *)
Lemma remove_insert_fixed_refuted :
  exists m idx x m1 m2 y,
    insert_card m idx x = ROk (m1, tt) /\ remove_card m1 idx = ROk (m2, y) /\ y = x /\ m2 <> m.
Proof.
  exists (Module [] [([102%N], {| f_args := []; f_cards := [CUn UNot (CScalarInt 1)] |})] []),
    (mk_index 0 [0; 0]), CAbort.
  eexists. eexists. eexists. split; [vm_compute; reflexivity|]. split; [vm_compute; reflexivity|].
  split; [reflexivity|]. discriminate.
Qed.

