(* C01, simulation: fragment F8 = F7 plus DECLARATIONS IN SCOPES: a  SetVar x e  of a new name x is allowed in
   every declaring position - directly in main, directly as the body of a Repeat, and inside Composite
   cards standing in such a position (RefScope.well_scoped's rule 2 for this part of the language).  The
   body of a Repeat is a scope: the locals it declares live above the two hidden locals of the loop and the
   loop variable, and are popped - together with the loop variable - by scope_end at the end of every round.
   The branches of If* and the body of a While are not declaring positions (the compiler opens no scope
   there); a Repeat inside them is fine and its body is a declaring position again.
   [ok8 decl Ln c]: c is a statement of the fragment in the local context Ln (names, most recent first, the
   hidden locals being named ""), standing in a declaring position iff decl; [names8 Ln c]: the context
   behind c.  Definitions shared with F5 / F7 are those of C01SimDefs5 / C01SimDefs7. *)
From Coq Require Import List NArith ZArith Bool Lia.
From Cao Require Import ListUtil Bits CardAst Bytecode Compiler CompilerWf C01SimDefs C01SimDefs2 C01SimDefs4 C01SimDefs5 C01SimDefs7.
From Cao Require RefSem Vm.
Import ListNotations.
Local Open Scope N_scope.

(* ------------------------------------------------------------------ syntax *)
(* the local context behind a card *)
Fixpoint names8 (Ln : list str) (c : card) : list str :=
  match c with
  | CSetVar x _ => if lmem x Ln then Ln else x :: Ln
  | CComposite _ cs =>
      (fix go (Ln : list str) (l : list card) {struct l} : list str :=
         match l with
         | [] => Ln
         | x :: r => go (names8 Ln x) r
         end) Ln cs
  | _ => Ln
  end.
Fixpoint names_seq8 (Ln : list str) (cs : list card) : list str :=
  match cs with
  | [] => Ln
  | x :: r => names_seq8 (names8 Ln x) r
  end.
Lemma names8_composite Ln ty cs : names8 Ln (CComposite ty cs) = names_seq8 Ln cs.
Proof. revert Ln. induction cs as [|x r IH]; intros Ln; [reflexivity|]. cbn [names_seq8]. rewrite <- IH. reflexivity. Qed.

Fixpoint ok8 (decl : bool) (Ln : list str) (c : card) : bool :=
  match c with
  | CSetGlobalVar g e => negb (is_empty g) && expr_f1 e
  | CSetVar x e => var_ok x && (decl || lmem x Ln) && expr_f1 e
  | CComment _ => true
  | CBin BIfTrue e b | CBin BIfFalse e b | CBin BWhile e b => expr_f1 e && ok8 false Ln b
  | CTri TIfElse e a b => expr_f1 e && ok8 false Ln a && ok8 false Ln b
  | CComposite _ cs =>
      (fix go (Ln : list str) (l : list card) {struct l} : bool :=
         match l with
         | [] => true
         | x :: r => ok8 decl Ln x && go (names8 Ln x) r
         end) Ln cs
  | CRepeat i n b => expr_f1 n && lv_ok i && ok8 true (lvn i ++ [] :: [] :: Ln) b
  | _ => false
  end.
Fixpoint oks8 (decl : bool) (Ln : list str) (cs : list card) : bool :=
  match cs with
  | [] => true
  | x :: r => ok8 decl Ln x && oks8 decl (names8 Ln x) r
  end.
Lemma ok8_composite decl Ln ty cs : ok8 decl Ln (CComposite ty cs) = oks8 decl Ln cs.
Proof. revert Ln. induction cs as [|x r IH]; intros Ln; [reflexivity|]. cbn [oks8]. rewrite <- IH. reflexivity. Qed.

(* main is a sequence in a declaring position *)
Definition in_f8 (M : module) : bool :=
  match M with
  | Module [] [(name, f)] [] =>
      str_eqb name s_main && (match f_args f with [] => true | _ => false end) &&
      oks8 true [] (f_cards f)
  | _ => false
  end.

(* ------------------------------------------------------------------ code *)
Fixpoint code8 (T : list (N * N)) (Ln : list str) (base : N) (c : card) : list instr :=
  match c with
  | CSetGlobalVar g e => code_expr5 T Ln e ++ [ISetGlobalVar (idT T g)]
  | CSetVar x e => code_expr5 T Ln e ++ [ISetLocalVar (N.of_nat (set_slot Ln x))]
  | CBin BIfTrue e b =>
      let ce := code_expr5 T Ln e in
      let cb := code8 T Ln (base + bytes ce + 5) b in
      ce ++ IGotoIfFalse (u32_to_i32 (base + bytes ce + 5 + bytes cb)) :: cb
  | CBin BIfFalse e b =>
      let ce := code_expr5 T Ln e in
      let cb := code8 T Ln (base + bytes ce + 5) b in
      ce ++ IGotoIfTrue (u32_to_i32 (base + bytes ce + 5 + bytes cb)) :: cb
  | CBin BWhile e b =>
      let ce := code_expr5 T Ln e in
      let cb := code8 T Ln (base + bytes ce + 5) b in
      ce ++ IGotoIfFalse (u32_to_i32 (base + bytes ce + 5 + (bytes cb + 5))) :: cb ++ [IGoto (u32_to_i32 base)]
  | CTri TIfElse e a b =>
      let ce := code_expr5 T Ln e in
      let ca := code8 T Ln (base + bytes ce + 5) a in
      let else_at := base + bytes ce + 5 + bytes ca + 5 in
      let cb := code8 T Ln else_at b in
      ce ++ IGotoIfFalse (u32_to_i32 else_at) :: ca ++ IGoto (u32_to_i32 (else_at + bytes cb)) :: cb
  | CComposite _ cs =>
      (fix go (Ln : list str) (base : N) (l : list card) {struct l} : list instr :=
         match l with
         | [] => []
         | c :: r => let cc := code8 T Ln base c in cc ++ go (names8 Ln c) (base + bytes cc) r
         end) Ln base cs
  | CRepeat i n b =>
      let k := N.of_nat (length Ln) in
      let Lb := lvn i ++ [] :: [] :: Ln in
      let cn := code_expr5 T Ln n in
      let b0 := base + bytes cn + 19 in
      let bind := match i with Some _ => [IReadLocalVar (k + 1); ISetLocalVar (k + 2)] | None => [] end in
      (* scope_end of the round: the locals the body declared and the loop variable *)
      let unbind := repeat IPop (length (names8 Lb b) - S (S (length Ln))) in
      let cb := code8 T Lb (b0 + 16 + bytes bind) b in
      cn ++ [ISetLocalVar k; IScalarInt 0; ISetLocalVar (k + 1)] ++
      [IReadLocalVar (k + 1); IReadLocalVar k; ILess;
       IGotoIfFalse (u32_to_i32 (b0 + 16 + bytes bind + bytes cb + bytes unbind + 25))] ++
      bind ++ cb ++ unbind ++
      [IScalarInt 1; IReadLocalVar (k + 1); IAdd; ISetLocalVar (k + 1); IGoto (u32_to_i32 b0)] ++
      [IPop; IPop]
  | _ => []
  end.

(* a list of statements: the local context grows along it *)
Fixpoint code_seq8 (T : list (N * N)) (Ln : list str) (base : N) (cs : list card) : list instr :=
  match cs with
  | [] => []
  | c :: r => let cc := code8 T Ln base c in cc ++ code_seq8 T (names8 Ln c) (base + bytes cc) r
  end.
Lemma code8_composite T Ln base ty cs : code8 T Ln base (CComposite ty cs) = code_seq8 T Ln base cs.
Proof.
  revert Ln base. induction cs as [|c r IH]; intros Ln base; [reflexivity|].
  cbn [code_seq8]. rewrite <- IH. reflexivity.
Qed.

(* the whole of main: its cards, one Pop per local, Exit *)
Definition code_all8 (T : list (N * N)) (cards : list card) : list instr :=
  code_seq8 T [] 0 cards ++ repeat IPop (length (names_seq8 [] cards)) ++ [IExit].

(* the GLOBAL names a card mentions in the local context Ln *)
Fixpoint gnames8 (Ln : list str) (c : card) : list str :=
  match c with
  | CSetGlobalVar g e => expr_gnames Ln e ++ [g]
  | CSetVar _ e => expr_gnames Ln e
  | CBin _ e b => expr_gnames Ln e ++ gnames8 Ln b
  | CTri _ e a b => expr_gnames Ln e ++ gnames8 Ln a ++ gnames8 Ln b
  | CComposite _ cs =>
      (fix go (Ln : list str) (l : list card) {struct l} : list str :=
         match l with
         | [] => []
         | c :: r => gnames8 Ln c ++ go (names8 Ln c) r
         end) Ln cs
  | CRepeat i n b => expr_gnames Ln n ++ gnames8 (lvn i ++ [] :: [] :: Ln) b
  | _ => []
  end.
Fixpoint gnames_seq8 (Ln : list str) (cs : list card) : list str :=
  match cs with
  | [] => []
  | c :: r => gnames8 Ln c ++ gnames_seq8 (names8 Ln c) r
  end.
Lemma gnames8_composite Ln ty cs : gnames8 Ln (CComposite ty cs) = gnames_seq8 Ln cs.
Proof. revert Ln. induction cs as [|c r IH]; intros Ln; [reflexivity|]. cbn [gnames_seq8]. rewrite <- IH. reflexivity. Qed.

(* the number of locals a card can declare (an upper bound: every SetVar in a declaring position) *)
Fixpoint maxdecl8 (c : card) : nat :=
  match c with
  | CSetVar _ _ => 1
  | CComposite _ cs => fold_right (fun c m => (maxdecl8 c + m)%nat) 0%nat cs
  | _ => 0
  end.
(* the stack a card needs above the locals that exist in front of it: its own declarations + temporaries *)
Fixpoint stmt_depth8 (c : card) : nat :=
  match c with
  | CSetGlobalVar _ e => depth e
  | CSetVar _ e => S (depth e)
  | CBin _ e b => Nat.max (depth e) (stmt_depth8 b)
  | CTri _ e a b => Nat.max (depth e) (Nat.max (stmt_depth8 a) (stmt_depth8 b))
  | CComposite _ cs => (fold_right (fun c m => (maxdecl8 c + m)%nat) 0%nat cs +
                        fold_right (fun c m => Nat.max (stmt_depth8 c) m) 0%nat cs)%nat
  | CRepeat _ n b => Nat.max (depth n) (3 + Nat.max 2 (stmt_depth8 b))
  | _ => 0
  end.
Definition seq_decl8 (cs : list card) : nat := fold_right (fun c m => (maxdecl8 c + m)%nat) 0%nat cs.
Definition seq_depth8 (cs : list card) : nat :=
  (seq_decl8 cs + fold_right (fun c m => Nat.max (stmt_depth8 c) m) 0%nat cs)%nat.
Lemma stmt_depth8_composite ty cs : stmt_depth8 (CComposite ty cs) = seq_depth8 cs.
Proof. reflexivity. Qed.
Lemma maxdecl8_composite ty cs : maxdecl8 (CComposite ty cs) = seq_decl8 cs.
Proof. reflexivity. Qed.
Lemma seq_depth8_cons c r :
  (stmt_depth8 c <= seq_depth8 (c :: r) /\ maxdecl8 c + seq_depth8 r <= seq_depth8 (c :: r))%nat.
Proof. unfold seq_depth8, seq_decl8. cbn [fold_right]. lia. Qed.
(* the whole of main fits the value stack *)
Definition depth_ok8 (cards : list card) : bool := Nat.ltb (S (seq_depth8 cards)) Vm.stack_size.

(* a card declares at most maxdecl8 locals, on top of the context *)
Lemma names8_ext c : forall Ln, exists nn, names8 Ln c = nn ++ Ln /\ (length nn <= maxdecl8 c)%nat.
Proof.
  induction c using card_ind'; intros Ln; try (exists []; split; [reflexivity | cbn; lia]).
  - cbn [names8 maxdecl8]. destruct (lmem n Ln); [exists [] | exists [n]]; split; try reflexivity; cbn; lia.
  - rewrite names8_composite, maxdecl8_composite. revert Ln.
    match goal with HF : Forall _ _ |- _ => induction HF as [|x r Hx _ IH] end; intros Ln.
    + exists []. split; [reflexivity | cbn; lia].
    + cbn [names_seq8]. destruct (Hx Ln) as (n1 & E1 & L1). destruct (IH (names8 Ln x)) as (n2 & E2 & L2).
      exists (n2 ++ n1). rewrite E2, E1, app_assoc. split; [reflexivity|].
      rewrite app_length. unfold seq_decl8 in *. cbn [fold_right]. lia.
Qed.
Lemma names8_length Ln c : (length Ln <= length (names8 Ln c) <= length Ln + maxdecl8 c)%nat.
Proof. destruct (names8_ext c Ln) as (nn & -> & H). rewrite app_length. lia. Qed.
Lemma names_seq8_ext cs Ln : exists nn, names_seq8 Ln cs = nn ++ Ln /\ (length nn <= seq_decl8 cs)%nat.
Proof. rewrite <- (names8_composite Ln [] cs). apply (names8_ext (CComposite [] cs)). Qed.

(* outside a declaring position nothing is declared *)
Lemma ok8_false_names c : forall Ln, ok8 false Ln c = true -> names8 Ln c = Ln.
Proof.
  induction c using card_ind'; intros Ln Hc; try reflexivity.
  - cbn [ok8 orb] in Hc. apply andb_true_iff in Hc. destruct Hc as [Hc _]. apply andb_true_iff in Hc. destruct Hc as [_ Hm].
    cbn [names8]. rewrite Hm. reflexivity.
  - rewrite names8_composite. rewrite ok8_composite in Hc. revert Ln Hc.
    match goal with HF : Forall _ _ |- _ => induction HF as [|x r Hx _ IH] end; intros Ln Hc; [reflexivity|].
    cbn [oks8 names_seq8] in *. apply andb_true_iff in Hc. destruct Hc as [H1 H2].
    rewrite (Hx Ln H1) in *. apply IH, H2.
Qed.
(* a statement outside a declaring position is one inside as well *)
Lemma ok8_decl c : forall Ln, ok8 false Ln c = true -> ok8 true Ln c = true.
Proof.
  induction c using card_ind'; intros Ln Hc; try exact Hc.
  - cbn [ok8 orb] in *. apply andb_true_iff in Hc. destruct Hc as [Hc He]. apply andb_true_iff in Hc. destruct Hc as [Hx _].
    rewrite Hx, He. reflexivity.
  - rewrite ok8_composite in *. revert Ln Hc.
    match goal with HF : Forall _ _ |- _ => induction HF as [|x r Hx _ IH] end; intros Ln Hc; [reflexivity|].
    cbn [oks8] in *. apply andb_true_iff in Hc. destruct Hc as [H1 H2]. rewrite (Hx Ln H1). apply IH, H2.
Qed.

(* ------------------------------------------------------------------ meaning *)
(* the last n entries of a local store *)
Definition keep_last (n : nat) (R : lstore) : lstore := skipn (length R - n) R.
Lemma keep_last_app (A B : lstore) : keep_last (length B) (A ++ B) = B.
Proof.
  unfold keep_last. rewrite app_length. replace (length A + length B - length B)%nat with (length A) by lia.
  rewrite skipn_app, skipn_all, Nat.sub_diag. reflexivity.
Qed.

Fixpoint run8 (fuel : nat) (R : lstore) (g : gl) (c : card) : option (bool * lstore * gl) :=
  match fuel with
  | O => None
  | S f =>
      match c with
      | CSetGlobalVar n e =>
          match ev (R ++ g) e with
          | Some v => Some (true, R, RefSem.set_assoc n v g)
          | None => Some (false, R, g)
          end
      | CSetVar x e =>   (* declares x when no local x exists *)
          match ev (R ++ g) e with
          | Some v => Some (true, sets_local x v R, g)
          | None => Some (false, R, g)
          end
      | CBin BIfTrue e b =>
          match ev (R ++ g) e with
          | None => Some (false, R, g)
          | Some v => if RefSem.v_bool [] v then run8 f R g b else Some (true, R, g)
          end
      | CBin BIfFalse e b =>
          match ev (R ++ g) e with
          | None => Some (false, R, g)
          | Some v => if RefSem.v_bool [] v then Some (true, R, g) else run8 f R g b
          end
      | CBin BWhile e b =>
          match ev (R ++ g) e with
          | None => Some (false, R, g)
          | Some v =>
              if RefSem.v_bool [] v then
                match run8 f R g b with
                | Some (true, R1, g1) => run8 f R1 g1 c
                | other => other
                end
              else Some (true, R, g)
          end
      | CTri TIfElse e a b =>
          match ev (R ++ g) e with
          | None => Some (false, R, g)
          | Some v => if RefSem.v_bool [] v then run8 f R g a else run8 f R g b
          end
      | CComposite _ cs =>
          (fix go (R : lstore) (g : gl) (l : list card) {struct l} : option (bool * lstore * gl) :=
             match l with
             | [] => Some (true, R, g)
             | x :: r => match run8 f R g x with
                         | Some (true, R1, g1) => go R1 g1 r
                         | other => other
                         end
             end) R g cs
      | CRepeat i n b =>
          match ev (R ++ g) n with
          | None => Some (false, R, g)
          | Some nv => rep8 f i nv 0%Z R g b
          end
      | _ => Some (true, R, g)
      end
  end
(* the rounds of a Repeat from round k on; the two hidden locals (counter on top) are entries named "";
   at the end of a round everything above the locals that existed in front of the loop is dropped
   (a failed round leaves the store as it is: the run ends there) *)
with rep8 (fuel : nat) (i : option str) (nv : RefSem.value) (k : Z) (R : lstore) (g : gl) (b : card) : option (bool * lstore * gl) :=
  match fuel with
  | O => None
  | S f =>
      match RefSem.v_cmp [] (RefSem.VInt k) nv with
      | Some (Some Lt) =>
          match run8 f (lvb i k ++ ([], RefSem.VInt k) :: ([], nv) :: R) g b with
          | Some (true, R1, g1) => rep8 f i nv (RefSem.wrap64 (k + 1)) (keep_last (length R) R1) g1 b
          | Some (false, R1, g1) => Some (false, R1, g1)
          | None => None
          end
      | _ => Some (true, R, g)
      end
  end.

Fixpoint runs8 (f : nat) (R : lstore) (g : gl) (l : list card) : option (bool * lstore * gl) :=
  match l with
  | [] => Some (true, R, g)
  | x :: r => match run8 f R g x with
              | Some (true, R1, g1) => runs8 f R1 g1 r
              | other => other
              end
  end.

Lemma run8_composite f R g ty cs : run8 (S f) R g (CComposite ty cs) = runs8 f R g cs.
Proof.
  revert R g. induction cs as [|x r IH]; intros R g; [reflexivity|].
  cbn [runs8].
  change (run8 (S f) R g (CComposite ty (x :: r))) with
    (match run8 f R g x with Some (true, R1, g1) => run8 (S f) R1 g1 (CComposite ty r) | other => other end).
  destruct (run8 f R g x) as [[[[|] R1] g1]|]; [apply IH | reflexivity | reflexivity].
Qed.

(* ---- more fuel does not change a result of the direct evaluator ---- *)
Lemma runs8_mono_from n m (Hrun : forall R g c r, run8 n R g c = Some r -> run8 m R g c = Some r) :
  forall l R g r, runs8 n R g l = Some r -> runs8 m R g l = Some r.
Proof.
  induction l as [|x l IH]; intros R g r H; cbn [runs8] in *; [exact H|].
  destruct (run8 n R g x) as [[[[|] R1] g1]|] eqn:E; try discriminate.
  - rewrite (Hrun _ _ _ _ E). apply IH, H.
  - rewrite (Hrun _ _ _ _ E). exact H.
Qed.

Lemma run_rep8_mono n : forall m, (n <= m)%nat ->
  (forall R g c r, run8 n R g c = Some r -> run8 m R g c = Some r) /\
  (forall i nv k R g b r, rep8 n i nv k R g b = Some r -> rep8 m i nv k R g b = Some r).
Proof.
  induction n as [|n IH]; intros m Hle; [split; intros; discriminate|].
  destruct m as [|m]; [lia|]. assert (Hle' : (n <= m)%nat) by lia.
  destruct (IH m Hle') as [IH' IHr]. split.
  2:{ intros i nv k R g b r H. cbn [rep8] in *. destruct (RefSem.v_cmp [] (RefSem.VInt k) nv) as [[[| |]|]|]; try exact H.
      destruct (run8 n (lvb i k ++ ([], RefSem.VInt k) :: ([], nv) :: R) g b) as [[[[|] R1] g1]|] eqn:E; try discriminate;
        rewrite (IH' _ _ _ _ E); [apply IHr|]; exact H. }
  intros R g c r H.
  destruct c; try exact H.
  - (* CBin *)
    destruct op; try exact H; cbn [run8] in *; destruct (ev (R ++ g) c1) as [v|]; try exact H;
      destruct (RefSem.v_bool [] v); try exact H; try (apply IH'; exact H).
    destruct (run8 n R g c2) as [[[[|] R1] g1]|] eqn:E; try discriminate; rewrite (IH' _ _ _ _ E); [apply IH'|]; exact H.
  - (* CTri *)
    destruct op; try exact H. cbn [run8] in *. destruct (ev (R ++ g) c1) as [v|]; try exact H.
    destruct (RefSem.v_bool [] v); apply IH'; exact H.
  - (* Repeat *)
    cbn [run8] in *. destruct (ev (R ++ g) c1) as [nv|]; [|exact H]. apply IHr, H.
  - (* Composite *)
    rewrite run8_composite in *. eapply runs8_mono_from; eauto.
Qed.

Lemma run8_mono n m R g c r : run8 n R g c = Some r -> (n <= m)%nat -> run8 m R g c = Some r.
Proof. intros H Hle. apply (proj1 (run_rep8_mono n m Hle)), H. Qed.
Lemma rep8_mono n m i nv k R g b r : rep8 n i nv k R g b = Some r -> (n <= m)%nat -> rep8 m i nv k R g b = Some r.
Proof. intros H Hle. apply (proj2 (run_rep8_mono n m Hle)), H. Qed.
Lemma runs8_mono n m l R g r : runs8 n R g l = Some r -> (n <= m)%nat -> runs8 m R g l = Some r.
Proof. intros H Hle. eapply runs8_mono_from; [|exact H]. intros; eapply run8_mono; eauto. Qed.

(* ------------------------------------------------------------------ F7 is inside F8 *)
Lemma stmt7_ok8 c : forall Ln, stmt7 Ln c = true -> forall decl, ok8 decl Ln c = true /\ names8 Ln c = Ln.
Proof.
  induction c using card_ind'; intros Ln Hc decl; cbn [stmt7] in Hc; try discriminate Hc.
  - destruct op; try discriminate Hc; apply andb_true_iff in Hc; destruct Hc as [He Hb];
      (split; [|reflexivity]); cbn [ok8]; rewrite He, (proj1 (IHc2 Ln Hb false)); reflexivity.
  - destruct op; try discriminate Hc. apply andb_true_iff in Hc. destruct Hc as [Hc Hb].
    apply andb_true_iff in Hc. destruct Hc as [He Ha]. split; [|reflexivity].
    cbn [ok8]. rewrite He, (proj1 (IHc2 Ln Ha false)), (proj1 (IHc3 Ln Hb false)). reflexivity.
  - split; reflexivity.
  - split; [exact Hc | reflexivity].
  - apply andb_true_iff in Hc. destruct Hc as [Hc He]. apply andb_true_iff in Hc. destruct Hc as [Hx Hm].
    cbn [ok8 names8]. rewrite Hx, Hm, He, orb_true_r. split; reflexivity.
  - apply andb_true_iff in Hc. destruct Hc as [Hc Hb]. apply andb_true_iff in Hc. destruct Hc as [Hn Hi].
    split; [|reflexivity]. cbn [ok8]. rewrite Hn, Hi, (proj1 (IHc2 _ Hb true)). reflexivity.
  - rewrite ok8_composite, names8_composite. revert Hc.
    match goal with HF : Forall _ _ |- _ => induction HF as [|x r Hx _ IH] end; intros Hc; [split; reflexivity|].
    cbn [forallb] in Hc. apply andb_true_iff in Hc. destruct Hc as [H1 H2].
    destruct (Hx Ln H1 decl) as [A B]. cbn [oks8 names_seq8]. rewrite A, B. apply IH, H2.
Qed.
Lemma top7_ok8 Ln c : top7 Ln c = true -> ok8 true Ln c = true /\ names8 Ln c = names_next Ln c.
Proof.
  intros Hc.
  assert (Hs : stmt7 Ln c = true -> names_next Ln c = Ln -> ok8 true Ln c = true /\ names8 Ln c = names_next Ln c).
  { intros H Hn. rewrite Hn. apply stmt7_ok8, H. }
  destruct c; try (apply Hs; [exact Hc | reflexivity]).
  cbn [top7] in Hc. apply andb_true_iff in Hc. destruct Hc as [Hx He].
  cbn [ok8 names8 names_next orb]. rewrite Hx, He. split; reflexivity.
Qed.
Lemma cards7_oks8 cards : forall Ln, cards7 Ln cards = true -> oks8 true Ln cards = true.
Proof.
  induction cards as [|c r IH]; intros Ln Hc; [reflexivity|].
  cbn [cards7] in Hc. apply andb_true_iff in Hc. destruct Hc as [H1 H2].
  destruct (top7_ok8 Ln c H1) as [A B]. cbn [oks8]. rewrite A, B. apply IH, H2.
Qed.
Lemma in_f7_f8 M : in_f7 M = true -> in_f8 M = true.
Proof.
  destruct M as [subs funs imps]. cbn [in_f7 in_f8].
  destruct subs; [|discriminate]. destruct funs as [|[name f] [|]]; try discriminate.
  destruct imps; [|discriminate]. intros H. apply andb_true_iff in H. destruct H as [H Hc].
  rewrite H, (cards7_oks8 _ _ Hc). reflexivity.
Qed.
