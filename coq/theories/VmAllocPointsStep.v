(* C02, allocation points vs. the VM model: for the allocating opcodes, when the instruction of Vm.v completes
   (SNext) the heap has grown by exactly the number of AObject allocation points of VmAllocPoints.alloc_points - one
   object per init_xxx; ASecond / AGrow points allocate buffers, not objects.  This ties the transcription of the
   allocation points to Vm.step (which the correspondence checks tie to the code). *)
From Coq Require Import NArith ZArith List Lia Bool.
From Cao Require Import ListUtil Bits Stacks Vm VmGcRoots VmGcClosed VmAllocPoints.
Import ListNotations.

Lemma hl_spush s v s1 : spush s v = Some s1 -> hl s1 = hl s.
Proof. unfold spush. destruct (vs_push (st_stack s) v) as [k []]; try discriminate. intros H. injection H as <-. reflexivity. Qed.

Lemma push_next_hl ip s v ip' s' : push_next ip s v = SNext ip' s' -> hl s' = hl s.
Proof. unfold push_next. destruct (spush s v) eqn:E; [|discriminate]. intros H. injection H as _ <-. eapply hl_spush; eauto. Qed.

Lemma hl_salloc s o : hl (fst (salloc s o)) = S (hl s).
Proof. unfold salloc, halloc, hl. cbn. rewrite app_length. cbn. lia. Qed.

Lemma hl_spop s : hl (fst (spop s)) = hl s.
Proof. unfold spop. destruct (vs_pop VNil (st_stack s)). reflexivity. Qed.

Section Step.
  Variable F : fops.
  Variable P : program.

  Lemma i_8_count opc ip0 ip s ip' s' :
    i_8 P opc ip0 ip s = SNext ip' s' -> hl s' = hl s + n_objects (ap_8 P ip s).
  Proof.
    unfold i_8, ap_8. destruct (op_u32 P ip); [|discriminate]. destruct (read_str _ _); try discriminate.
    destruct (salloc s (OStr s0)) as [s1 a] eqn:E. intros H. apply push_next_hl in H. rewrite H.
    change s1 with (fst (s1, a)). rewrite <- E, hl_salloc. cbn. lia.
  Qed.

  Lemma i_31_count opc ip0 ip s ip' s' :
    i_31 opc ip0 ip s = SNext ip' s' -> hl s' = hl s + n_objects (ap_31 s).
  Proof.
    unfold i_31, ap_31. destruct (salloc s _) as [s1 a] eqn:E. intros H. apply push_next_hl in H. rewrite H.
    change s1 with (fst (s1, a)). rewrite <- E, hl_salloc. cbn. lia.
  Qed.

  Lemma i_37_42_count opc ip0 ip s ip' s' :
    i_37_42 P opc ip0 ip s = SNext ip' s' -> hl s' = hl s + n_objects (ap_37_42 P ip s).
  Proof.
    unfold i_37_42, ap_37_42. destruct (op_u32 P ip); [|discriminate]. destruct (op_u32 P (ip + 4)); [|discriminate].
    destruct (salloc s _) as [s1 a] eqn:E. intros H. apply push_next_hl in H. rewrite H.
    change s1 with (fst (s1, a)). rewrite <- E, hl_salloc. cbn. lia.
  Qed.

  Lemma i_38_count opc ip0 ip s ip' s' :
    i_38 P opc ip0 ip s = SNext ip' s' -> hl s' = hl s + n_objects (ap_38 P ip s).
  Proof.
    unfold i_38, ap_38. destruct (op_u32 P ip); [|discriminate]. destruct (read_str _ _); try discriminate.
    destruct (salloc s _) as [s1 a] eqn:E. intros H. apply push_next_hl in H. rewrite H.
    change s1 with (fst (s1, a)). rewrite <- E, hl_salloc. cbn. lia.
  Qed.

  Lemma ap_33_objects s : n_objects (ap_33 F s) = 0.
  Proof. unfold ap_33. destruct (get_table _ _); try reflexivity. destruct (map_find _ _ _) as [[|]|]; reflexivity. Qed.

  Lemma i_33_count opc ip0 ip s ip' s' :
    i_33 F opc ip0 ip s = SNext ip' s' -> hl s' = hl s + n_objects (ap_33 F s).
  Proof.
    rewrite ap_33_objects. unfold i_33. destruct (get_table _ _); try discriminate.
    destruct (tinsert _ _ _ _); [|discriminate]. intros H. injection H as _ <-. rewrite hl_set_table, hl_spop_n. lia.
  Qed.

  Lemma ap_40_objects s : n_objects (ap_40 F s) = 0.
  Proof. unfold ap_40. destruct (get_table _ _); try reflexivity. destruct (tappend _ _ _); reflexivity. Qed.

  Lemma i_40_count opc ip0 ip s ip' s' :
    i_40 F opc ip0 ip s = SNext ip' s' -> hl s' = hl s + n_objects (ap_40 F s).
  Proof.
    rewrite ap_40_objects. unfold i_40. destruct (get_table _ _); try discriminate.
    destruct (tappend _ _ _); try discriminate. intros H. injection H as _ <-. rewrite hl_set_table, hl_spop_n. lia.
  Qed.

  Lemma i_39_count opc ip0 ip s ip' s' :
    i_39 F opc ip0 ip s = SNext ip' s' -> hl s' = hl s + n_objects (ap_39 F s).
  Proof.
    unfold i_39, ap_39. change (st_heap (spop_n s 2)) with (st_heap s).
    destruct (get_table (st_heap s) (speek s 1)); try discriminate.
    destruct (speek s 0); try discriminate. destruct (z <? 0)%Z; [discriminate|].
    match goal with |- context [match ?x with Some r => _ | None => SStop ACrash _ end] => destruct x end; [|discriminate].
    unfold salloc, halloc. cbn [fst snd st_heap set_heap].
    match goal with |- context [tinsert ?e ?t0 ?k ?v] => destruct (tinsert e t0 k v) end; [|discriminate].
    match goal with |- context [tinsert ?e ?t0 ?k ?v] => destruct (tinsert e t0 k v) end; [|discriminate].
    intros H. apply push_next_hl in H. rewrite H, hl_set_table. unfold hl. cbn [st_heap set_heap spop_n set_stack].
    rewrite !app_length. cbn. lia.
  Qed.

  Lemma i_45_count opc ip0 ip s ip' s' :
    i_45 P opc ip0 ip s = SNext ip' s' -> hl s' = hl s + n_objects (ap_45 P ip s).
  Proof.
    unfold i_45, ap_45. destruct (read_le (p_code P) ip 1) as [index|]; [|discriminate].
    destruct (read_le (p_code P) (ip + 1) 1) as [is_local|]; [|discriminate].
    pose proof (hl_spop s) as Hp. destruct (spop s) as [s1 cv]. cbn [fst] in Hp. rewrite <- Hp.
    destruct cv as [| | |ca]; try discriminate. destruct (hget (st_heap s1) ca) as [[]|]; try discriminate.
    destruct (negb (is_local =? 0)%N).
    - destruct (top_offset s1) as [off|]; [|discriminate].
      destruct (scount s1 <=? off + N.to_nat index); [discriminate|].
      destruct (walk_open _ _ _ _ _) as [prev cur|]; [|discriminate]. cbv zeta.
      match goal with |- (if ?b then _ else _) = _ -> _ => destruct b end.
      + destruct cur; [|discriminate]. intros H. injection H as _ <-. rewrite hl_hset. cbn. lia.
      + unfold salloc, halloc. cbn [fst snd st_heap set_heap]. intros H. injection H as _ <-. rewrite hl_hset.
        destruct prev as [pa|]; [destruct (hget _ pa) as [[]|]|]; unfold hl, hset; cbn [st_heap set_heap set_open];
          rewrite ?upd_length, app_length; cbn; lia.
    - destruct (st_calls s1) as [|fr ?]; [discriminate|]. destruct (fr_clo fr); [|discriminate].
      destruct (hget (st_heap s1) _) as [[]|]; try discriminate. destruct (nth_error _ _); [|discriminate].
      intros H. injection H as _ <-. rewrite hl_hset. cbn. lia.
  Qed.

  (* the allocating opcodes that are not calls of natives *)
  Theorem alloc_points_match_step bld reenter ip0 s ip' s' :
    In (nth (N.to_nat ip0) (p_code P) 255%N) [8; 31; 33; 37; 38; 39; 40; 42; 45]%N ->
    step F bld P reenter ip0 s = SNext ip' s' ->
    hl s' = hl s + n_objects (alloc_points F P ip0 s).
  Proof.
    unfold step, alloc_points. intros Hin.
    repeat (destruct Hin as [<-|Hin]; [eauto using i_8_count, i_31_count, i_33_count, i_37_42_count, i_38_count,
                                          i_39_count, i_40_count, i_45_count|]).
    contradiction.
  Qed.
End Step.
