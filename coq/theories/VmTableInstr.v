(* C07 at the level of the VM model, continued: NthRow, ForEach, reference sharing (Part 3b) and
   preservation of the table invariant by [step] (Part 4).  See VmTableProofs.v. *)
From Coq Require Import NArith ZArith List Lia Bool.
From Cao Require Import ListUtil Bits Stacks StacksProofs Vm VmProofs VmNativeProofs C04VmProofs VmTableProofs VmTableKeys.
Import ListNotations.

Arguments N.add : simpl never.
Arguments N.sub : simpl never.
Arguments N.mul : simpl never.
Arguments Z.add : simpl never.
Arguments Z.sub : simpl never.
Arguments Z.mul : simpl never.
Arguments Z.of_nat : simpl never.
Arguments N.of_nat : simpl never.
Arguments N.to_nat : simpl never.

Section Instr.
Variable F : fops.
Variable bld : build.
Variable P : program.
Variable reenter : N -> state -> rres.

Notation veq := (veq0 F).
Notation dom := (vkey F).
Notation STEP := (step F bld P reenter).

(* == on two live strings *)
Lemma veq0_strings h x y sx sy : hget h x = Some (OStr sx) -> hget h y = Some (OStr sy) ->
  veq h (VObj x) (VObj y) = Some (bytes_eqb sx sy).
Proof. intros Hx Hy. rewrite veq0_unfold. generalize 23. intros f. cbn [Vm.veq]. rewrite Hx, Hy. reflexivity. Qed.

(* the row object {"key": k, "value": v} that NthRow builds: three fresh cells *)
Definition row_cells (n : nat) (key val : value) : list obj :=
  [OTable (mkTable [(VObj (N.of_nat (n + 1)), key); (VObj (N.of_nat (n + 2)), val)]
                   [VObj (N.of_nat (n + 1)); VObj (N.of_nat (n + 2))]);
   OStr str_key; OStr str_value].

(* ---- NthRow (39): the stack holds instance, index (index on top); the row of index i is the i-th entry
   in order, (nil, nil) beyond the end ---- *)
Theorem step_nth_row : forall ip0 s l a i t,
  opcode_at P ip0 = 39%N -> stack_ok s -> stack_of s = l ++ [VObj a; VInt i] -> (0 <= i)%Z ->
  hget (st_heap s) a = Some (OTable t) -> twf (veq (st_heap s)) (dom (st_heap s)) t ->
  let e := nth (Z.to_nat i) (tabs t) (VNil, VNil) in
  exists k,
    STEP ip0 s = SNext (ip0 + 1)
                   (set_stack (set_heap s (st_heap s ++ row_cells (length (st_heap s)) (fst e) (snd e))) k) /\
    stack_is (cap s) k (l ++ [VObj (N.of_nat (length (st_heap s)))]).
Proof.
  intros ip0 s l a i t Hop Hok Hst Hi Ha W e. step_opc Hop. unfold i_39. cbv zeta.
  pose proof (stack_is_self _ Hok) as K0. rewrite Hst in K0.
  rewrite (speek_k _ _ _ _ 0 K0), (speek_k _ _ _ _ 1 K0) by (cbn [length]; lia).
  cbn [length Nat.sub nth]. change (st_heap (spop_n s 2)) with (st_heap s).
  cbn [get_table]. rewrite Ha.
  replace (i <? 0)%Z with false by (symmetry; apply Z.ltb_ge; lia).
  set (h := st_heap s) in *.
  assert (Hrow : (if (i <? Z.of_nat (length (tkeys t)))%Z
                  then tget (veq h) t (if (i <? Z.of_nat (length (tkeys t)))%Z then tnth_key t (Z.to_nat i) else VNil)
                  else Some None) = Some (if (i <? Z.of_nat (length (tkeys t)))%Z then Some (snd e) else None) /\
                 (if (i <? Z.of_nat (length (tkeys t)))%Z then tnth_key t (Z.to_nat i) else VNil) = fst e /\
                 (match (if (i <? Z.of_nat (length (tkeys t)))%Z then Some (snd e) else None) with
                  | Some v => v | None => VNil end) = snd e).
  { rewrite (tlen_spec W). destruct (i <? Z.of_nat (length (tabs t)))%Z eqn:E.
    - apply Z.ltb_lt in E. assert (L : Z.to_nat i < length (tabs t)) by lia.
      destruct (vm_row F _ _ _ W L) as (R1 & R2). fold e in R1, R2. rewrite R1, R2. auto.
    - apply Z.ltb_ge in E. assert (L : length (tabs t) <= Z.to_nat i) by lia.
      unfold e. rewrite (nth_overflow _ _ L). auto. }
  destruct Hrow as (R1 & R2 & R3). rewrite R1, R2, R3. clear R1 R2 R3.
  unfold salloc, halloc. cbn [st_heap set_heap set_stack spop_n].
  fold h. rewrite !app_length. cbn [length]. rewrite <- !app_assoc. cbn [app].
  unfold tinsert. cbn [tmap tkeys map_find app]. cbn [tmap tkeys map_find app keq].
  rewrite (@veq0_strings (h ++ [OTable (mkTable [] []); OStr str_key; OStr str_value])
             (N.of_nat (length h + 1)) (N.of_nat (length h + 1 + 1)) str_key str_value);
    [| rewrite (hget_app_at h _ 1); reflexivity
     | replace (length h + 1 + 1) with (length h + 2) by lia; rewrite (hget_app_at h _ 2); reflexivity].
  change (bytes_eqb str_key str_value) with false. cbv iota. cbn [app].
  unfold set_table. cbn [st_heap set_heap]. rewrite hset_alloc3.
  unfold push_next.
  assert (Hfit : S (length l) < cap s).
  { pose proof (stack_is_length _ _ _ K0) as L. rewrite app_length in L. cbn [length] in L. lia. }
  pose proof (@spop_n_k s _ l [VObj a; VInt i] K0) as K2.
  match goal with |- context [spush ?S0 ?V] =>
    destruct (@spush_k S0 _ _ _ V Logic.eq_refl K2 Hfit) as (k3 & E3 & K3) end.
  rewrite E3. exists k3. split; [|exact K3].
  unfold row_cells. replace (length h + 1 + 1) with (length h + 2) by lia. reflexivity.
Qed.

(* ---- ForEach (36): one round of the loop.  The loop variable i (a local) selects the i-th entry in order;
   the entry's value, key, the index and i+1 are written to the locals v_h, k_h, i_h, lv and `true` is pushed;
   at i >= len `false` is pushed.  So a loop over an unmodified table sees the entries of [tabs] once each,
   in order. ---- *)
Definition foreach_commit (ip : N) (s : state) (off : nat) (lv i_h k_h v_h : N) (i : Z) (key val : value) : sres :=
  match write_local s off v_h val with
  | None => SErr (EVarNotFound None) ip s
  | Some s1 =>
      match write_local s1 off k_h key with
      | None => SErr (EVarNotFound None) ip s1
      | Some s2 =>
          match write_local s2 off i_h (VInt i) with
          | None => SErr (EVarNotFound None) ip s2
          | Some s3 =>
              match i64_result (i + 1)%Z with
              | None => SStop APanic s3
              | Some i1 =>
                  match write_local s3 off lv (VInt i1) with
                  | None => SErr (EVarNotFound None) ip s3
                  | Some s4 => push_next ip s4 (vbool true)
                  end
              end
          end
      end
  end.

Theorem step_for_each : forall ip0 s lv t_h i_h k_h v_h off i a t,
  opcode_at P ip0 = 36%N ->
  op_u32 P (ip0 + 1) = Some lv -> op_u32 P (ip0 + 1 + 4) = Some t_h -> op_u32 P (ip0 + 1 + 8) = Some i_h ->
  op_u32 P (ip0 + 1 + 12) = Some k_h -> op_u32 P (ip0 + 1 + 16) = Some v_h ->
  top_offset s = Some off ->
  to_i64 F (st_heap s) (sget s (off + N.to_nat lv)) = Some i -> (0 <= i)%Z ->
  sget s (off + N.to_nat t_h) = VObj a ->
  hget (st_heap s) a = Some (OTable t) -> twf (veq (st_heap s)) (dom (st_heap s)) t ->
  let e := nth (Z.to_nat i) (tabs t) (VNil, VNil) in
  STEP ip0 s = if (i <? Z.of_nat (length (tabs t)))%Z
               then foreach_commit (ip0 + 1 + 20) s off lv i_h k_h v_h i (fst e) (snd e)
               else push_next (ip0 + 1 + 20) s (vbool false).
Proof.
  intros ip0 s lv t_h i_h k_h v_h off i a t Hop O1 O2 O3 O4 O5 Hoff Hi Hi0 Hov Ha W e.
  step_opc Hop. unfold i_36. rewrite O1, O2, O3, O4, O5, Hoff. cbv zeta. rewrite Hi, Hov.
  cbn [get_table]. rewrite Ha.
  replace (i <? 0)%Z with false by (symmetry; apply Z.ltb_ge; lia). cbn [andb].
  replace (0 <=? i)%Z with true by (symmetry; apply Z.leb_le; lia). cbn [andb].
  rewrite (tlen_spec W). destruct (i <? Z.of_nat (length (tabs t)))%Z eqn:E; [|reflexivity].
  apply Z.ltb_lt in E. assert (L : Z.to_nat i < length (tabs t)) by lia.
  destruct (vm_row F _ _ _ W L) as (R1 & R2). fold e in R1, R2. rewrite R1, R2. reflexivity.
Qed.

(* iteration as the natives and == see it *)
Theorem titer_in_order : forall h t, twf (veq h) (dom h) t -> titer (veq h) t = Some (tabs t).
Proof. exact (vm_titer F). Qed.

(* ---- reference sharing ---- *)

(* what GetProperty reads at address b after a SetProperty / AppendTable / PopTable wrote cell a *)
Lemma hget_set_table_same (s : state) a t t' :
  hget (st_heap s) a = Some (OTable t) -> hget (st_heap (set_table s a t')) a = Some (OTable t').
Proof. intros H. unfold set_table. cbn [st_heap set_heap]. eapply hget_hset_same; eauto. Qed.
Lemma hget_set_table_other (s : state) a b t' :
  a <> b -> hget (st_heap (set_table s a t')) b = hget (st_heap s) b.
Proof. intros H. unfold set_table. cbn [st_heap set_heap]. apply hget_hset_other, H. Qed.

Lemma hext_set_table (s : state) a t t' :
  hget (st_heap s) a = Some (OTable t) -> hext (st_heap s) (st_heap (set_table s a t')).
Proof. intros H. unfold set_table. cbn [st_heap set_heap]. eapply hext_hset; eauto. exact I. Qed.

(* Two values holding the same address see each other's updates, distinct addresses do not interfere:
   SetProperty through one copy of the reference [VObj a] (state s, key [key], value [v]) followed - after any
   instructions that leave the heap alone (copies of the reference moved through locals, globals, the stack:
   the state s2 has the heap SetProperty left) - by GetProperty through another copy of [VObj a] with a key
   that matches [key] returns v; GetProperty on a table at another address b returns what it returned before. *)
Theorem vm_reference_sharing : forall ip0 s l a key v t s1,
  opcode_at P ip0 = 33%N -> stack_ok s -> stack_of s = l ++ [v; VObj a; key] ->
  hget (st_heap s) a = Some (OTable t) ->
  twf (veq (st_heap s)) (dom (st_heap s)) t -> dom (st_heap s) key ->
  STEP ip0 s = SNext (ip0 + 1) s1 ->
  forall ip2 s2 l2, opcode_at P ip2 = 32%N -> stack_ok s2 -> st_heap s2 = st_heap s1 ->
    (* through the same address *)
    (stack_of s2 = l2 ++ [VObj a; key] ->
     exists k, STEP ip2 s2 = SNext (ip2 + 1) (set_stack s2 k) /\ stack_is (cap s2) k (l2 ++ [v])) /\
    (* through another address *)
    (forall b u key', b <> a -> hget (st_heap s) b = Some (OTable u) ->
       twf (veq (st_heap s)) (dom (st_heap s)) u -> dom (st_heap s) key' ->
       stack_of s2 = l2 ++ [VObj b; key'] ->
       exists k, STEP ip2 s2 = SNext (ip2 + 1) (set_stack s2 k) /\
                 stack_is (cap s2) k
                   (l2 ++ [match al_get (veq (st_heap s)) key' (tabs u) with Some x => x | None => VNil end])).
Proof.
  intros ip0 s l a key v t s1 Hop Hok Hst Ha W Dk Hstep ip2 s2 l2 Hop2 Hok2 Hheap.
  destruct (step_set_property F bld P reenter _ _ _ _ _ _ _ Hop Hok Hst Ha W Dk) as (t' & k & E & K & W' & Habs).
  rewrite E in Hstep. inversion Hstep; subst s1. clear Hstep.
  assert (Hh : st_heap s2 = st_heap (set_table s a t')) by (rewrite Hheap; reflexivity).
  pose proof (hext_set_table _ _ _ t' Ha) as X. rewrite <- Hh in X.
  split.
  - intros Hst2.
    assert (Ha2 : hget (st_heap s2) a = Some (OTable t')) by (rewrite Hh; eapply hget_set_table_same; eauto).
    destruct (step_get_property F bld P reenter _ _ _ _ _ _ Hop2 Hok2 Hst2 Ha2 (twf_ext F _ _ _ X W') (vkey_ext F _ _ _ X Dk)) as (k2 & E2 & K2).
    exists k2. split; [exact E2|].
    rewrite al_get_ext with (h := st_heap s) in K2; auto.
    + rewrite Habs, al_get_set_same in K2; [exact K2 | apply veq0_refl, Dk].
    + destruct W' as (A1 & A2 & _). unfold tabs. rewrite A1. exact A2.
  - intros b u key' Hne Hb Wu Dk' Hst2.
    assert (Hb2 : hget (st_heap s2) b = Some (OTable u)).
    { rewrite Hh, hget_set_table_other by congruence. exact Hb. }
    destruct (step_get_property F bld P reenter _ _ _ _ _ _ Hop2 Hok2 Hst2 Hb2 (twf_ext F _ _ _ X Wu) (vkey_ext F _ _ _ X Dk')) as (k2 & E2 & K2).
    exists k2. split; [exact E2|].
    rewrite al_get_ext with (h := st_heap s) in K2; auto.
    destruct Wu as (A1 & A2 & _). unfold tabs. rewrite A1. exact A2.
Qed.

End Instr.

(* ================================================================== *)
(* Part 4 : [step] preserves the invariant of every table of the heap  *)
(* ================================================================== *)

Definition sres_state (r : sres) : state :=
  match r with SNext _ s | SExit s | SErr _ _ s | SStop _ s => s end.
Definition rres_state (r : rres) : state :=
  match r with ROk s | RErr _ _ s | RStop _ s => s end.
Definition nres_state (r : nres) : state :=
  match r with NOk _ s | NErr _ s | NStop _ s => s end.

(* shapes of the stack helpers: only the value stack changes *)
Lemma spop_shape s : spop s = (set_stack s (fst (vs_pop VNil (st_stack s))), snd (vs_pop VNil (st_stack s))).
Proof. unfold spop. destruct (vs_pop VNil (st_stack s)); reflexivity. Qed.
Lemma spush_heap s v s' : spush s v = Some s' -> st_heap s' = st_heap s.
Proof. unfold spush. destruct (vs_push (st_stack s) v) as [k []]; intros H; inversion H; reflexivity. Qed.
Lemma sset_heap s i v s' : sset s i v = Some s' -> st_heap s' = st_heap s.
Proof. unfold sset. destruct (vs_step VNil (st_stack s) (VSet i v)) as [k []]; intros H; inversion H; reflexivity. Qed.
Lemma write_local_heap s off hd v s' : write_local s off hd v = Some s' -> st_heap s' = st_heap s.
Proof. apply sset_heap. Qed.
Lemma sclear_until_heap s h : st_heap (fst (sclear_until s h)) = st_heap s.
Proof. unfold sclear_until. destruct (vs_step VNil (st_stack s) (VClearUntil value h)) as [k []]; reflexivity. Qed.
Lemma spop_w_offset_heap s off : st_heap (fst (spop_w_offset s off)) = st_heap s.
Proof. unfold spop_w_offset. destruct (vs_step VNil (st_stack s) (VPopOff value off)) as [k []]; reflexivity. Qed.
Lemma push_frame_heap s f s' : push_frame s f = Some s' -> st_heap s' = st_heap s.
Proof. unfold push_frame. destruct (_ <=? _); intros H; inversion H; reflexivity. Qed.
Lemma push_next_heap ip s v : st_heap (sres_state (push_next ip s v)) = st_heap s.
Proof. unfold push_next. destruct (spush s v) eqn:E; cbn [sres_state]; [apply (spush_heap _ _ _ E) | reflexivity]. Qed.

Ltac hfact E :=
  match type of E with
  | spush _ _ = Some _ => apply spush_heap in E
  | sset _ _ _ = Some _ => apply sset_heap in E
  | write_local _ _ _ _ = Some _ => apply write_local_heap in E
  | push_frame _ _ = Some _ => apply push_frame_heap in E
  | _ => idtac
  end.
Ltac dm :=
  match goal with
  | |- context [match ?x with _ => _ end] => let E := fresh "E" in destruct x eqn:E; try hfact E
  end.
Ltac hred := cbn [sres_state st_heap st_calls st_open st_globals set_stack set_calls set_globals set_open set_log set_heap tick set_rem
                  sraw_set spop_n fst snd] in *.

Section Preserve.
Variable F : fops.
Variable bld : build.
Variable P : program.
Variable reenter : N -> state -> rres.

Notation veq := (veq0 F).
Notation dom := (vkey F).
Notation STEP := (step F bld P reenter).
Notation wf := (tables_wf F).
Notation good := (good_ext F).

Definition G (s : state) (r : sres) : Prop := good (st_heap s) (st_heap (sres_state r)).

Lemma G_same s r : st_heap (sres_state r) = st_heap s -> G s r.
Proof. unfold G. intros ->. apply good_refl. Qed.

Lemma G_heap s r h' : st_heap (sres_state r) = h' -> good (st_heap s) h' -> G s r.
Proof. unfold G. intros ->. auto. Qed.

Lemma binary_op_heap ip s op : st_heap (sres_state (binary_op ip s op)) = st_heap s.
Proof.
  unfold binary_op. rewrite !spop_shape. cbv beta iota. unfold of_vres.
  destruct (op _ _ _); cbn [sres_state]; rewrite ?push_next_heap; reflexivity.
Qed.

(* the opcodes that leave the heap alone *)
Notation SAME ip0 s := (st_heap (sres_state (STEP ip0 s)) = st_heap s).

Lemma hs_binop ip0 s k : In k [0; 1; 2; 3; 12; 13; 14; 15; 24; 25; 26]%N -> opcode_at P ip0 = k -> SAME ip0 s.
Proof.
  intros Hin Hop. cbn [In] in Hin.
  repeat (destruct Hin as [<-|Hin]; [step_opc Hop; apply binary_op_heap|]). contradiction.
Qed.
Lemma hs_5 ip0 s : opcode_at P ip0 = 5%N -> SAME ip0 s.
Proof. intros Hop. step_opc Hop. unfold i_5. repeat dm; hred; rewrite ?push_next_heap; reflexivity. Qed.
Lemma hs_6 ip0 s : opcode_at P ip0 = 6%N -> SAME ip0 s.
Proof. intros Hop. step_opc Hop. unfold i_6. repeat dm; hred; rewrite ?push_next_heap; reflexivity. Qed.
Lemma hs_7 ip0 s : opcode_at P ip0 = 7%N -> SAME ip0 s.
Proof. intros Hop. step_opc Hop. apply push_next_heap. Qed.
Lemma hs_9 ip0 s : opcode_at P ip0 = 9%N -> SAME ip0 s.
Proof. intros Hop. step_opc Hop. apply push_next_heap. Qed.
Lemma hs_10 ip0 s : opcode_at P ip0 = 10%N -> SAME ip0 s.
Proof. intros Hop. step_opc Hop. reflexivity. Qed.
Lemma hs_16 ip0 s : opcode_at P ip0 = 16%N -> SAME ip0 s.
Proof. intros Hop. step_opc Hop. rewrite spop_shape. reflexivity. Qed.
Lemma hs_17 ip0 s : opcode_at P ip0 = 17%N -> SAME ip0 s.
Proof. intros Hop. step_opc Hop. unfold i_17. rewrite spop_shape. cbv beta iota zeta. repeat dm; hred; reflexivity. Qed.
Lemma hs_18 ip0 s : opcode_at P ip0 = 18%N -> SAME ip0 s.
Proof. intros Hop. step_opc Hop. unfold i_18. repeat dm; hred; rewrite ?push_next_heap; reflexivity. Qed.
Lemma hs_19 ip0 s : opcode_at P ip0 = 19%N -> SAME ip0 s.
Proof.
  intros Hop. step_opc Hop. unfold i_19.
  destruct (op_u32 P (ip0 + 1)); [|reflexivity]. destruct (top_offset s) as [off|]; [|reflexivity].
  pose proof (spop_w_offset_heap s off) as X. destruct (spop_w_offset s off) as [s1 v]. cbn [fst] in X.
  destruct (write_local s1 off n v) eqn:E; hred; [|exact X]. apply write_local_heap in E. congruence.
Qed.
Lemma hs_20 ip0 s : opcode_at P ip0 = 20%N -> SAME ip0 s.
Proof. intros Hop. step_opc Hop. unfold i_20. repeat dm; hred; rewrite ?push_next_heap; reflexivity. Qed.
Lemma hs_21 ip0 s : opcode_at P ip0 = 21%N -> SAME ip0 s.
Proof. intros Hop. step_opc Hop. unfold i_21. destruct (top_offset s); hred; [apply sclear_until_heap | reflexivity]. Qed.
Lemma hs_23 ip0 s : opcode_at P ip0 = 23%N -> SAME ip0 s.
Proof.
  intros Hop. step_opc Hop. unfold i_23. rewrite !spop_shape. cbv beta iota.
  repeat dm; hred; try reflexivity; congruence.
Qed.
Lemma hs_27 ip0 s : opcode_at P ip0 = 27%N -> SAME ip0 s.
Proof.
  intros Hop. step_opc Hop. unfold i_27. rewrite spop_shape. cbv beta iota.
  repeat dm; hred; rewrite ?push_next_heap; reflexivity.
Qed.
Lemma hs_28 ip0 s : opcode_at P ip0 = 28%N -> SAME ip0 s.
Proof. intros Hop. step_opc Hop. unfold i_28. repeat dm; hred; reflexivity. Qed.
Lemma hs_29 ip0 s : opcode_at P ip0 = 29%N -> SAME ip0 s.
Proof. intros Hop. step_opc Hop. unfold i_29_30. rewrite spop_shape. cbv beta iota. repeat dm; hred; reflexivity. Qed.
Lemma hs_30 ip0 s : opcode_at P ip0 = 30%N -> SAME ip0 s.
Proof. intros Hop. step_opc Hop. unfold i_29_30. rewrite spop_shape. cbv beta iota. repeat dm; hred; reflexivity. Qed.
Lemma hs_32 ip0 s : opcode_at P ip0 = 32%N -> SAME ip0 s.
Proof.
  intros Hop. step_opc Hop. unfold i_32. rewrite !spop_shape. cbv beta iota.
  repeat dm; hred; rewrite ?push_next_heap; reflexivity.
Qed.
Lemma hs_34 ip0 s : opcode_at P ip0 = 34%N -> SAME ip0 s.
Proof.
  intros Hop. step_opc Hop. unfold i_34. rewrite spop_shape. cbv beta iota.
  repeat dm; hred; rewrite ?push_next_heap; reflexivity.
Qed.
Lemma hs_35 ip0 s : opcode_at P ip0 = 35%N -> SAME ip0 s.
Proof. intros Hop. step_opc Hop. unfold i_35. repeat dm; hred; try reflexivity; congruence. Qed.
Lemma hs_36 ip0 s : opcode_at P ip0 = 36%N -> SAME ip0 s.
Proof.
  intros Hop. step_opc Hop. unfold i_36. repeat dm; hred; rewrite ?push_next_heap; try reflexivity; congruence.
Qed.
Lemma hs_44 ip0 s : opcode_at P ip0 = 44%N -> SAME ip0 s.
Proof.
  intros Hop. step_opc Hop. unfold i_43_44. change (44 =? 43)%N with false. cbv iota.
  repeat dm; hred; rewrite ?push_next_heap; reflexivity.
Qed.


(* ---- the opcodes that allocate or rewrite a cell ---- *)
Lemma good_alloc_after h X o : good h X ->
  (forall t, o = OTable t -> twf (veq X) (dom X) t) -> good h (X ++ [o]).
Proof. intros H1 H2. eapply good_trans; [exact H1 | apply good_alloc, H2]. Qed.

Lemma good_hset_after h X a o o' : good h X -> hget X a = Some o -> same_kind o o' ->
  (forall t', o' = OTable t' -> wf X -> twf (veq X) (dom X) t') -> good h (hset X a o').
Proof. intros H1 H2 H3 H4. eapply good_trans; [exact H1 | eapply good_hset; eauto]. Qed.

Ltac allocs :=
  repeat first
    [ apply good_refl
    | apply good_alloc_after;
      [| let t := fresh "t" in let HH := fresh "HH" in
         intros t HH; first [discriminate HH | inversion HH; subst; apply twf_empty_vm] ] ].

Lemma get_table_ok h v a t : get_table h v = TblOk a t -> v = VObj a /\ hget h a = Some (OTable t).
Proof.
  destruct v; cbn [get_table]; try discriminate. destruct (hget h a0) as [[]|] eqn:E; try discriminate.
  intros H. inversion H; subst. auto.
Qed.

Lemma g_8 ip0 s : opcode_at P ip0 = 8%N -> G s (STEP ip0 s).
Proof.
  intros Hop. step_opc Hop. unfold i_8, salloc, halloc. cbv beta iota zeta.
  destruct (op_u32 P (ip0 + 1)); [|apply G_same; reflexivity].
  destruct (read_str n (p_data P)); try (apply G_same; reflexivity).
  eapply G_heap; [rewrite push_next_heap; hred; reflexivity | allocs].
Qed.

Lemma g_31 ip0 s : opcode_at P ip0 = 31%N -> G s (STEP ip0 s).
Proof.
  intros Hop. step_opc Hop. unfold i_31, salloc, halloc. cbv beta iota zeta.
  eapply G_heap; [rewrite push_next_heap; hred; reflexivity | allocs].
Qed.

Lemma g_37_42 ip0 s k : In k [37; 42]%N -> opcode_at P ip0 = k -> G s (STEP ip0 s).
Proof.
  intros Hin Hop. cbn [In] in Hin.
  destruct Hin as [<-|[<-|[]]]; step_opc Hop; unfold i_37_42, salloc, halloc; cbv beta iota zeta;
  (destruct (op_u32 P (ip0 + 1)); [|apply G_same; reflexivity]);
  (destruct (op_u32 P (ip0 + 1 + 4)); [|apply G_same; reflexivity]);
  (eapply G_heap; [rewrite push_next_heap; hred; reflexivity |]).
  - change (37 =? 37)%N with true. cbv iota. allocs.
  - change (42 =? 37)%N with false. cbv iota. allocs.
Qed.

Lemma g_38 ip0 s : opcode_at P ip0 = 38%N -> G s (STEP ip0 s).
Proof.
  intros Hop. step_opc Hop. unfold i_38, salloc, halloc. cbv beta iota zeta.
  destruct (op_u32 P (ip0 + 1)); [|apply G_same; reflexivity].
  destruct (read_str n (p_data P)); try (apply G_same; reflexivity).
  eapply G_heap; [rewrite push_next_heap; hred; reflexivity | allocs].
Qed.

(* SetProperty: the key must lie in the key domain (a NaN key, a table used as key or a dangling address
   would break the alignment of the two parts / the distinctness of the keys) *)
Lemma g_33 ip0 s : opcode_at P ip0 = 33%N -> dom (st_heap s) (speek s 0) -> G s (STEP ip0 s).
Proof.
  intros Hop Dk. step_opc Hop. unfold i_33. cbv zeta. change (st_heap (spop_n s 3)) with (st_heap s).
  destruct (get_table (st_heap s) (speek s 1)) as [a t| |] eqn:Eg; try (apply G_same; reflexivity).
  apply get_table_ok in Eg. destruct Eg as (_ & Ha).
  destruct (tinsert (veq (st_heap s)) t (speek s 0) (speek s 2)) as [t'|] eqn:E; [|apply G_same; reflexivity].
  unfold G, set_table. hred. eapply good_hset; [exact Ha | exact I |].
  intros t2 Ht2 W. inversion Ht2; subst t2.
  destruct (vm_tinsert F _ _ _ (speek s 2) (W _ _ Ha) Dk) as (t3 & E3 & W3 & _).
  rewrite E in E3; inversion E3; subst; exact W3.
Qed.

Lemma g_40 ip0 s : opcode_at P ip0 = 40%N -> G s (STEP ip0 s).
Proof.
  intros Hop. step_opc Hop. unfold i_40. cbv zeta. change (st_heap (spop_n s 2)) with (st_heap s).
  destruct (get_table (st_heap s) (speek s 0)) as [a t| |] eqn:Eg; try (apply G_same; reflexivity).
  apply get_table_ok in Eg. destruct Eg as (_ & Ha).
  destruct (tappend (veq (st_heap s)) t (speek s 1)) as [t'| |] eqn:E; try (apply G_same; reflexivity).
  unfold G, set_table. hred. eapply good_hset; [exact Ha | exact I |].
  intros t2 Ht2 W. inversion Ht2; subst t2.
  destruct (vm_tappend F _ _ (speek s 1) (W _ _ Ha)) as (t3 & j & E3 & W3 & _).
  rewrite E in E3; inversion E3; subst; exact W3.
Qed.

Lemma g_41 ip0 s : opcode_at P ip0 = 41%N -> G s (STEP ip0 s).
Proof.
  intros Hop. step_opc Hop. unfold i_41. rewrite spop_shape. cbv beta iota. hred.
  destruct (get_table (st_heap s) _) as [a t| |] eqn:Eg; try (apply G_same; reflexivity).
  apply get_table_ok in Eg. destruct Eg as (_ & Ha).
  destruct (tpop (veq (st_heap s)) t) as [[t' v]|] eqn:E; [|apply G_same; reflexivity].
  eapply G_heap; [rewrite push_next_heap; unfold set_table; hred; reflexivity|].
  eapply good_hset; [exact Ha | exact I |].
  intros t2 Ht2 W. inversion Ht2; subst t2.
  destruct (vm_tpop F _ _ (W _ _ Ha)) as (t3 & E3 & W3 & _).
  rewrite E in E3; inversion E3; subst; exact W3.
Qed.

Lemma dom_string h a b : hget h a = Some (OStr b) -> dom h (VObj a).
Proof. intros H. cbn [vkey]. rewrite H. exact I. Qed.

(* NthRow *)
Lemma g_39 ip0 s : opcode_at P ip0 = 39%N -> G s (STEP ip0 s).
Proof.
  intros Hop. step_opc Hop. unfold i_39. cbv zeta. change (st_heap (spop_n s 2)) with (st_heap s).
  destruct (get_table (st_heap s) (speek s 1)) as [a t| |] eqn:Eg; try (apply G_same; reflexivity).
  destruct (speek s 0) as [|i|r|x]; try (apply G_same; reflexivity).
  destruct (i <? 0)%Z; [apply G_same; reflexivity|].
  match goal with |- context [match ?x with Some r => _ | None => _ end] => destruct x as [r|] end;
    [|apply G_same; reflexivity].
  unfold salloc, halloc. cbv beta iota zeta. hred.
  set (h := st_heap s).
  set (h5 := ((h ++ [OTable (mkTable [] [])]) ++ [OStr str_key]) ++ [OStr str_value]).
  assert (G5 : good h h5) by (unfold h5; allocs).
  set (ka := N.of_nat (length (h ++ [OTable (mkTable [] [])]))).
  set (va := N.of_nat (length ((h ++ [OTable (mkTable [] [])]) ++ [OStr str_key]))).
  assert (Hka : hget h5 ka = Some (OStr str_key)).
  { unfold h5. apply hget_app_old. apply hget_app_new. }
  assert (Hva : hget h5 va = Some (OStr str_value)) by (unfold h5; apply hget_app_new).
  destruct (tinsert (veq h5) (mkTable [] []) (VObj ka) _) as [t1|] eqn:E1; [|exact G5].
  destruct (tinsert (veq h5) t1 (VObj va) _) as [t2|] eqn:E2; [|exact G5].
  eapply G_heap; [rewrite push_next_heap; unfold set_table; hred; reflexivity|].
  eapply good_hset_after with (o := OTable (mkTable [] [])); [exact G5 | | exact I |].
  - unfold h5. apply hget_app_old. apply hget_app_old. apply hget_app_new.
  - intros t' Ht' _. inversion Ht'; subst t'.
    match type of E1 with tinsert _ _ _ ?x = _ =>
      destruct (vm_tinsert F h5 _ (VObj ka) x (twf_empty_vm F h5) (dom_string _ _ _ Hka)) as (t1' & E1' & W1 & _) end.
    rewrite E1 in E1'. inversion E1'; subst t1'.
    match type of E2 with tinsert _ _ _ ?x = _ =>
      destruct (vm_tinsert F h5 _ (VObj va) x W1 (dom_string _ _ _ Hva)) as (t2' & E2' & W2 & _) end.
    rewrite E2 in E2'. inversion E2'; subst t2'. exact W2.
Qed.

(* ---- upvalues: only OUp / OClo cells are rewritten ---- *)
Definition closeres_state (r : closeres) : state :=
  match r with ClOk s | ClErr _ s | ClStop _ s => s end.

Lemma close_good fuel top : forall s,
  good (st_heap s) (st_heap (closeres_state (close_upvalues_go fuel top s))).
Proof.
  induction fuel as [|f IH]; intros s; cbn [close_upvalues_go]; [apply good_refl|].
  destruct (st_open s) as [a|]; [|apply good_refl].
  destruct (hget (st_heap s) a) as [[t|b|h ar|h|h ar ups|u]|] eqn:E; try apply good_refl.
  destruct (u_loc u) as [l|]; [|apply good_refl].
  destruct (l <? top); [apply good_refl|].
  eapply good_trans; [|apply IH]. hred.
  eapply good_hset; [exact E | exact I | intros; discriminate].
Qed.

Lemma good_hset_clo h X ca ch car cups ch' car' cups' :
  good h X -> hget h ca = Some (OClo ch car cups) -> good h (hset X ca (OClo ch' car' cups')).
Proof.
  intros HG Hca. assert (HG' := HG). destruct HG' as (Xe & _).
  destruct (Xe ca _ Hca) as (o3 & H3 & K). destruct o3; cbn in K; try contradiction.
  eapply good_hset_after; [exact HG | exact H3 | exact I | intros; discriminate].
Qed.

Lemma g_46 ip0 s : opcode_at P ip0 = 46%N -> G s (STEP ip0 s).
Proof.
  intros Hop. step_opc Hop. unfold i_46.
  destruct (op_u32 P (ip0 + 1)); [|apply G_same; reflexivity].
  destruct (top_offset s) as [off|]; [|apply G_same; reflexivity]. cbv zeta.
  unfold close_upvalues_from.
  pose proof (close_good (S (length (st_heap s))) (off + N.to_nat n) s) as X.
  destruct (close_upvalues_go _ _ s); exact X.
Qed.

Lemma g_22 ip0 s : opcode_at P ip0 = 22%N -> G s (STEP ip0 s).
Proof.
  intros Hop. step_opc Hop. unfold i_22.
  destruct (st_calls s) as [|fr rest]; [apply G_same; reflexivity|]. cbv zeta.
  unfold close_upvalues_from.
  pose proof (close_good (S (length (st_heap (set_calls s rest)))) (N.to_nat (fr_off fr)) (set_calls s rest)) as X.
  destruct (close_upvalues_go _ _ (set_calls s rest)) as [s2|e s2|ab s2]; hred; try exact X.
  pose proof (sclear_until_heap s2 (N.to_nat (fr_off fr))) as Y.
  destruct (sclear_until s2 (N.to_nat (fr_off fr))) as [s3 v]. cbn [fst] in Y.
  destruct rest as [|prev rest']; unfold G; [hred | rewrite push_next_heap]; rewrite Y; exact X.
Qed.

Lemma g_43 ip0 s : opcode_at P ip0 = 43%N -> G s (STEP ip0 s).
Proof.
  intros Hop. step_opc Hop. unfold i_43_44. change (43 =? 43)%N with true. cbv iota.
  destruct (op_u32 P (ip0 + 1)); [|apply G_same; reflexivity]. cbv zeta.
  rewrite spop_shape. cbv beta iota. hred.
  destruct (st_calls s) as [|fr rest]; [apply G_same; reflexivity|].
  destruct (fr_clo fr) as [ca|]; [|apply G_same; reflexivity].
  destruct (hget (st_heap s) ca) as [[t|b|h ar|h|h ar ups|u]|]; try (apply G_same; reflexivity).
  destruct (nth_error ups (N.to_nat n)) as [ua|]; [|apply G_same; reflexivity].
  destruct (hget (st_heap s) ua) as [[t|b|h' ar'|h'|h' ar' ups'|u]|] eqn:E; try (apply G_same; reflexivity).
  destruct (u_loc u); [apply G_same; reflexivity|].
  unfold G. hred. eapply good_hset; [exact E | exact I | intros; discriminate].
Qed.

Lemma g_45 ip0 s : opcode_at P ip0 = 45%N -> G s (STEP ip0 s).
Proof.
  intros Hop. step_opc Hop. unfold i_45.
  destruct (read_le (p_code P) (ip0 + 1) 1) as [index|]; [|apply G_same; reflexivity].
  destruct (read_le (p_code P) (ip0 + 1 + 1) 1) as [is_local|]; [|apply G_same; reflexivity].
  cbv zeta. rewrite spop_shape. cbv beta iota.
  set (s1 := set_stack s (fst (vs_pop VNil (st_stack s)))).
  assert (H1 : st_heap s1 = st_heap s) by reflexivity.
  destruct (snd (vs_pop VNil (st_stack s))) as [|z|r|ca]; try (apply G_same; reflexivity).
  destruct (hget (st_heap s1) ca) as [[t|b|h ar|h|ch car cups|u]|] eqn:Eca; try (apply G_same; reflexivity).
  rewrite H1 in Eca.
  destruct (negb (is_local =? 0)%N).
  - destruct (top_offset s1) as [off|]; [|apply G_same; reflexivity].
    destruct (scount s1 <=? off + N.to_nat index); [apply G_same; reflexivity|].
    destruct (walk_open _ _ _ _ _) as [prev cur|ab]; [|apply G_same; reflexivity].
    match goal with |- context [if ?c then _ else _] => destruct c end.
    + destruct cur as [a|]; [|apply G_same; reflexivity].
      unfold G. hred. eapply good_hset_clo; [apply good_refl | exact Eca].
    + unfold salloc, halloc. cbv beta iota zeta. clear H1. subst s1. hred.
      set (h2 := st_heap s ++ [OUp (mkUp (Some (off + N.to_nat index)) VNil cur)]).
      assert (G2 : good (st_heap s) h2) by (unfold h2; allocs).
      destruct prev as [pa|].
      * destruct (hget h2 pa) as [[t|b|h' ar'|h'|h' ar' ups'|pu]|] eqn:Epa; unfold G; hred;
          try (eapply good_hset_clo; [exact G2 | exact Eca]).
        eapply good_hset_clo; [|exact Eca].
        eapply good_hset_after; [exact G2 | exact Epa | exact I | intros; discriminate].
      * unfold G; hred. eapply good_hset_clo; [exact G2 | exact Eca].
  - destruct (st_calls s1) as [|fr rest]; [apply G_same; reflexivity|].
    destruct (fr_clo fr) as [fa|]; [|apply G_same; reflexivity].
    destruct (hget (st_heap s1) fa) as [[t|b|h' ar'|h'|h' ar' fups|u]|]; try (apply G_same; reflexivity).
    destruct (nth_error fups (N.to_nat index)) as [ua|]; [|apply G_same; reflexivity].
    unfold G. hred. eapply good_hset_clo; [apply good_refl | exact Eca].
Qed.

(* CallFunction (11) on a script function or closure: frames only *)
Definition callee_not_native (s : state) : Prop :=
  forall a h, snd (spop s) = VObj a -> hget (st_heap s) a <> Some (ONative h).

Lemma g_11_script ip0 s : opcode_at P ip0 = 11%N -> callee_not_native s -> G s (STEP ip0 s).
Proof.
  intros Hop Hn. step_opc Hop. unfold i_11. unfold callee_not_native in Hn. rewrite spop_shape in *.
  cbv beta iota. cbn [snd] in Hn. hred.
  destruct (snd (vs_pop VNil (st_stack s))) as [|z|r|a]; try (apply G_same; reflexivity).
  destruct (hget (st_heap s) a) as [[t|b|h ar|h|h ar ups|u]|] eqn:E; try (apply G_same; reflexivity).
  - cbv zeta. hred. destruct (st_calls s) as [|top rest]; [apply G_same; reflexivity|].
    repeat dm; apply G_same; hred; try reflexivity; assumption.
  - exfalso. eapply Hn; eauto.
  - cbv zeta. hred. destruct (st_calls s) as [|top rest]; [apply G_same; reflexivity|].
    repeat dm; apply G_same; hred; try reflexivity; assumption.
Qed.

Lemma opcode_cases (k : N) : (k <= 46)%N ->
  In k [0; 1; 2; 3; 4; 5; 6; 7; 8; 9; 10; 11; 12; 13; 14; 15; 16; 17; 18; 19; 20; 21; 22; 23; 24; 25; 26; 27; 28;
        29; 30; 31; 32; 33; 34; 35; 36; 37; 38; 39; 40; 41; 42; 43; 44; 45; 46]%N.
Proof.
  intros H. destruct k as [|p]; [left; reflexivity|].
  do 6 (try destruct p as [p|p|]); try lia; cbn [In]; tauto.
Qed.

(* the key-domain side condition: the key of a SetProperty lies in the key domain *)
Definition set_key_ok (ip0 : N) (s : state) : Prop :=
  opcode_at P ip0 = 33%N -> dom (st_heap s) (speek s 0).

(* every instruction except a call of a native function keeps the invariant of every table of the heap
   (and live cells stay live and keep their kind) *)
Theorem step_tables_wf_no_native : forall ip0 s,
  set_key_ok ip0 s ->
  opcode_at P ip0 <> 4%N -> (opcode_at P ip0 = 11%N -> callee_not_native s) ->
  G s (STEP ip0 s).
Proof.
  intros ip0 s Hkey H4 H11.
  destruct (N.le_gt_cases (opcode_at P ip0) 46) as [Hle|Hgt];
    [| rewrite (invalid_opcode_is_ub F bld P reenter ip0 s Hgt); apply G_same; reflexivity].
  apply opcode_cases in Hle. cbn [In] in Hle.
  repeat (destruct Hle as [Hop|Hle]; [symmetry in Hop|]); try contradiction; try congruence.
  all: first
    [ apply G_same; first
        [ eapply hs_binop; [|exact Hop]; cbn [In]; tauto
        | apply hs_5; assumption | apply hs_6; assumption | apply hs_7; assumption | apply hs_9; assumption
        | apply hs_10; assumption | apply hs_16; assumption | apply hs_17; assumption | apply hs_18; assumption
        | apply hs_19; assumption | apply hs_20; assumption | apply hs_21; assumption | apply hs_23; assumption
        | apply hs_27; assumption | apply hs_28; assumption | apply hs_29; assumption | apply hs_30; assumption
        | apply hs_32; assumption | apply hs_34; assumption | apply hs_35; assumption | apply hs_36; assumption
        | apply hs_44; assumption ]
    | apply g_8; assumption | solve [apply g_11_script; auto] | apply g_22; assumption | apply g_31; assumption
    | solve [apply g_33; auto] | eapply g_37_42; [|exact Hop]; cbn [In]; tauto | apply g_38; assumption
    | apply g_39; assumption | apply g_40; assumption | apply g_41; assumption | apply g_43; assumption
    | apply g_45; assumption | apply g_46; assumption ].
Qed.

End Preserve.
