(* Reference semantics of the card language (property C01, with the closure part C06 and the
   library part C09): a fuelled big-step evaluator of CardAst programs over NAMES and CELLS.

   There is no value stack, no local index, no bytecode and no address in the observable result.
   The semantics is written from the point of view of the language:

   * a card evaluates to a list of values (most cards: none or one); an OPERAND slot needs exactly
     one value; values produced at statement level are discarded;
   * variables are cells; a function activation has a list of scopes (innermost first) mapping
     names to cells; a closure keeps the scopes that were visible where it was created (capture BY
     REFERENCE: the cells are shared, they simply live as long as somebody can reach them);
   * tables live in a heap and are passed by reference; a table is the insertion-ordered
     association list [Table.otable] (the specification side of C07);
   * globals are a map from names to values; the host sees the globals by name, and the log of
     the native calls.

   Everything is executable ([vm_compute]); definitions only, proofs in RefSemProofs.v.

   Resources.  [eval fuel] bounds the DEPTH of the evaluation by the structural argument [fuel] and
   the NUMBER of evaluation steps by [step_limit fuel]; when either runs out the result is [RFuel]
   (never a normal-looking value).  [RUnspec n] marks a program that left the domain on which the
   language is defined (reason code n, see [unspec codes] below); the class of programs for which
   the semantics is meant to agree with the implementation is [well_scoped]. *)
From Coq Require Import List NArith ZArith Bool Arith Lia.
From Coq Require Import Floats.SpecFloat.
From Cao Require Import CheckUtil Bits CardAst Table Value StdlibGen.
Import ListNotations.

Set Implicit Arguments.

(* ------------------------------------------------------------------------------------------ *)
(* strings                                                                                    *)
(* ------------------------------------------------------------------------------------------ *)
Definition str_eqb : str -> str -> bool := bytes_eqb.
Definition c_dot : N := 46%N.
Definition s_main : str := [109; 97; 105; 110]%N.
Definition s_std : str := [115; 116; 100]%N.
Definition s_super_dot : str := [115; 117; 112; 101; 114; 46]%N.
Definition s_key : str := [107; 101; 121]%N.
Definition s_value : str := [118; 97; 108; 117; 101]%N.

(* str::split_once(c) *)
Fixpoint split_once_c (c : N) (s : str) : option (str * str) :=
  match s with
  | [] => None
  | x :: r => if N.eqb x c then Some ([], r)
              else match split_once_c c r with
                   | Some (a, b) => Some (x :: a, b)
                   | None => None
                   end
  end.
(* str::rsplit_once(c) *)
Definition rsplit_once_c (c : N) (s : str) : option (str * str) :=
  match split_once_c c (rev s) with
  | Some (a, b) => Some (rev b, rev a)
  | None => None
  end.
(* str::split(c), all pieces *)
Fixpoint split_c (c : N) (s : str) : list str :=
  match s with
  | [] => [[]]
  | x :: r => if N.eqb x c then [] :: split_c c r
              else match split_c c r with
                   | p :: ps => (x :: p) :: ps
                   | [] => [[x]]
                   end
  end.
Fixpoint strip_prefix (p s : str) : option str :=
  match p, s with
  | [], _ => Some s
  | a :: p', b :: s' => if N.eqb a b then strip_prefix p' s' else None
  | _ :: _, [] => None
  end.
(* str::split_once(pattern), first occurrence *)
Fixpoint split_once_str (p s : str) : option (str * str) :=
  match strip_prefix p s with
  | Some r => Some ([], r)
  | None => match s with
            | [] => None
            | x :: r => match split_once_str p r with
                        | Some (a, b) => Some (x :: a, b)
                        | None => None
                        end
            end
  end.
(* number of "super." in an import and the text after the last one *)
Fixpoint super_depth_go (fuel : nat) (s : str) (cnt : nat) (suffix : option str) : nat * option str :=
  match fuel with
  | O => (cnt, suffix)
  | S f => match split_once_str s_super_dot s with
           | Some (_, post) => super_depth_go f post (S cnt) (Some post)
           | None => (cnt, suffix)
           end
  end.
Definition super_depth (s : str) := super_depth_go (S (length s)) s O None.

Definition ns_prefix (ns : list str) : str := flat_map (fun x => x ++ [c_dot]) ns.

Fixpoint assoc {V} (k : str) (m : list (str * V)) : option V :=
  match m with
  | [] => None
  | (k', v) :: r => if str_eqb k k' then Some v else assoc k r
  end.

(* ------------------------------------------------------------------------------------------ *)
(* values                                                                                     *)
(* ------------------------------------------------------------------------------------------ *)
Inductive value :=
| VNil
| VInt (z : Z)                 (* i64 *)
| VReal (x : spec_float)       (* f64, as Coq's specification float (binary64: prec 53, emax 1024) *)
| VStr (s : str)               (* by content *)
| VTable (a : nat)             (* by reference: index into the table heap *)
| VFn (i : nat)                (* a function of the program: index into the function table *)
| VNative (name : str)         (* a host function, by name *)
| VClosure (c : nat).          (* a closure object: index into the closure store (has identity) *)

(* what the host sees of a value: trees, no references.  [TrCut]: a table nested deeper than the
   conversion depth (the harness applies the same cut, so cyclic tables still compare) *)
Inductive tree :=
| TrNil | TrInt (z : Z) | TrReal (bits : N) | TrStr (s : str)
| TrTable (l : list (tree * tree)) | TrFn | TrCut.

Definition scope := list (str * nat).          (* name -> cell, most recent declaration first *)
Record env := { e_scopes : list scope;          (* scopes of the running function, innermost first *)
                e_up : list scope }.            (* captured: scopes of the enclosing functions *)
Record closure_rec := { cl_params : list str; cl_body : list card; cl_up : list scope;
                        cl_fi : nat }.          (* the function whose text contains the closure *)
Record state := {
  st_cells : list value;
  st_heap : list (otable value);
  st_clos : list closure_rec;
  st_globals : list (str * value);
  st_log : list (str * list tree);               (* native calls, most recent first *)
  st_steps : N;
  st_notes : list N }.                           (* remarks for the checker, see [note codes] *)

Inductive errkind :=
| EInvalidArgument | EVarNotFound | EProcedureNotFound | ETaskFailure | EOther (n : N).

Inductive outcome :=
| ONorm (vs : list value)      (* the values the card yields *)
| ORet (v : value)             (* a Return travelling to the enclosing call *)
| OAbort                       (* the Abort card: the program stops, successfully *)
| OErr (k : errkind).

(* unspec codes: 1 operand slot without exactly one value; 2 name of a function that does not
   resolve; 3 fewer arguments than parameters; 4 key outside nil/int/non-zero real/string;
   5 dangling reference (internal); 6 Return at the top level of main; 7 Abort inside a re-entrant
   native call; 8 comparison deeper than [eq_depth]; 9 empty variable name; 10 malformed program
   (no main, bad import); 11 native outside the menu called with a wrong number of arguments;
   (12, no longer produced: "the key function of std.min/max/sorted(_by_key) changed the key set of
   the table" - since 662697a the library works on the entries the table had when it was called, and
   so does this semantics) *)
Inductive res :=
| RFuel
| RUnspec (why : N)
| ROk (o : outcome) (e : env) (s : state).

(* ---- stores ---- *)
Fixpoint upd {A} (l : list A) (i : nat) (x : A) : list A :=
  match l, i with
  | [], _ => []
  | _ :: r, O => x :: r
  | y :: r, S i' => y :: upd r i' x
  end.

Definition set_cells c (s : state) := {| st_cells := c; st_heap := st_heap s; st_clos := st_clos s;
  st_globals := st_globals s; st_log := st_log s; st_steps := st_steps s; st_notes := st_notes s |}.
Definition set_heap h (s : state) := {| st_cells := st_cells s; st_heap := h; st_clos := st_clos s;
  st_globals := st_globals s; st_log := st_log s; st_steps := st_steps s; st_notes := st_notes s |}.
Definition set_clos c (s : state) := {| st_cells := st_cells s; st_heap := st_heap s; st_clos := c;
  st_globals := st_globals s; st_log := st_log s; st_steps := st_steps s; st_notes := st_notes s |}.
Definition set_globals g (s : state) := {| st_cells := st_cells s; st_heap := st_heap s; st_clos := st_clos s;
  st_globals := g; st_log := st_log s; st_steps := st_steps s; st_notes := st_notes s |}.
Definition set_log l (s : state) := {| st_cells := st_cells s; st_heap := st_heap s; st_clos := st_clos s;
  st_globals := st_globals s; st_log := l; st_steps := st_steps s; st_notes := st_notes s |}.
Definition bump (s : state) := {| st_cells := st_cells s; st_heap := st_heap s; st_clos := st_clos s;
  st_globals := st_globals s; st_log := st_log s; st_steps := N.succ (st_steps s); st_notes := st_notes s |}.

(* note codes: none in use.  (12 "a Get past the end of a table that has an entry under the key nil"
   and 14 "a global that was never assigned was read" marked the runs of the findings R-3 and R-5
   for the checker until they were repaired in 6d4c9a8 / a526e90; the mechanism stays for the next
   class that needs a run-time mark.) *)
Definition add_note (n : N) (s : state) := {| st_cells := st_cells s; st_heap := st_heap s; st_clos := st_clos s;
  st_globals := st_globals s; st_log := st_log s; st_steps := st_steps s; st_notes := n :: st_notes s |}.

Definition alloc_cell (v : value) (s : state) : nat * state :=
  (length (st_cells s), set_cells (st_cells s ++ [v]) s).
Definition alloc_table (t : otable value) (s : state) : nat * state :=
  (length (st_heap s), set_heap (st_heap s ++ [t]) s).

Fixpoint set_assoc {V} (k : str) (v : V) (m : list (str * V)) : list (str * V) :=
  match m with
  | [] => [(k, v)]
  | (k', v') :: r => if str_eqb k k' then (k', v) :: r else (k', v') :: set_assoc k v r
  end.

(* ------------------------------------------------------------------------------------------ *)
(* numbers                                                                                    *)
(* ------------------------------------------------------------------------------------------ *)
Definition wrap64 (z : Z) : Z := u64_to_i64 (i64_to_u64 z).

Definition two52 : N := 4503599627370496%N.
(* f64::from_bits *)
Definition sf_of_bits (b : N) : spec_float :=
  let s := N.testbit b 63 in
  let e := N.land (N.shiftr b 52) 2047 in
  let m := N.land b (two52 - 1) in
  if N.eqb e 0 then
    match m with
    | N0 => S754_zero s
    | Npos p => S754_finite s p (-1074)
    end
  else if N.eqb e 2047 then
    (if N.eqb m 0 then S754_infinity s else S754_nan)
  else match (m + two52)%N with
       | Npos p => S754_finite s p (Z.of_N e - 1075)
       | N0 => S754_zero s
       end.
(* f64::to_bits; every NaN is printed as the one canonical quiet NaN *)
Definition nan_bits : N := 9221120237041090560%N.   (* 0x7ff8000000000000 *)
Definition bits_of_sf (x : spec_float) : N :=
  let sb (s : bool) : N := if s then N.shiftl 1 63 else 0%N in
  match x with
  | S754_zero s => sb s
  | S754_infinity s => (sb s + N.shiftl 2047 52)%N
  | S754_nan => nan_bits
  | S754_finite s m e =>
      if (N.pos m <? two52)%N then (sb s + N.pos m)%N
      else (sb s + N.shiftl (Z.to_N (e + 1075)) 52 + (N.pos m - two52))%N
  end.

Definition fadd := SFadd 53 1024.
Definition fsub := SFsub 53 1024.
Definition fmul := SFmul 53 1024.
Definition fdiv := SFdiv 53 1024.

Definition v_is_real (a : value) := match a with VReal _ => true | _ => false end.
Definition v_is_int (a : value) := match a with VInt _ => true | _ => false end.
Definition v_is_obj (a : value) := match a with VNil | VInt _ | VReal _ => false | _ => true end.

Section WithHeap.
  Variable h : list (otable value).

  (* the Len card on objects: entries of a table, bytes of a string, 0 for callables *)
  Definition obj_len (a : value) : nat :=
    match a with
    | VStr s => length s
    | VTable p => match nth_error h p with Some t => length t | None => 0 end
    | _ => 0
    end.
  Definition v_len (a : value) : Z :=
    match a with
    | VNil => 0
    | VInt _ | VReal _ => 1
    | _ => Z.of_nat (obj_len a)
    end.
  (* a value counted as an integer / as a real: nil is 0, strings and tables their length *)
  Definition v_to_i64 (a : value) : Z :=
    match a with
    | VNil => 0
    | VInt i => i
    | VReal x => sf_to_i64 x
    | _ => Z.of_nat (obj_len a)
    end.
  Definition v_to_sf (a : value) : spec_float :=
    match a with
    | VNil => sf_zero
    | VInt i => sf_of_Z i
    | VReal x => x
    | _ => sf_of_Z (Z.of_nat (obj_len a))
    end.
  (* truthiness *)
  Definition v_bool (a : value) : bool :=
    match a with
    | VNil => false
    | VInt i => negb (Z.eqb i 0)
    | VReal x => negb (SFeqb x sf_zero)
    | VStr _ | VTable _ => negb (Nat.eqb (obj_len a) 0)
    | VFn _ | VNative _ | VClosure _ => true
    end.

  (* + - *: a real involved -> reals; else an integer involved -> wrapping integers; else nil *)
  Definition arith (fi : Z -> Z -> Z) (ff : spec_float -> spec_float -> spec_float) (a b : value) : value :=
    if v_is_real a || v_is_real b then VReal (ff (v_to_sf a) (v_to_sf b))
    else if v_is_int a || v_is_int b then VInt (wrap64 (fi (v_to_i64 a) (v_to_i64 b)))
    else VNil.
  (* /: always a real *)
  Definition v_div (a b : value) : value :=
    if v_is_real a || v_is_real b then VReal (fdiv (v_to_sf a) (v_to_sf b))
    else if v_is_int a || v_is_int b then VReal (fdiv (sf_of_Z (v_to_i64 a)) (sf_of_Z (v_to_i64 b)))
    else VNil.

  (* equality: by content for strings and tables (same length, same keys in the same order with
     equal values), by identity for closures, never between an integer and a real *)
  Fixpoint v_eq (d : nat) (a b : value) : option bool :=
    match d with
    | O => None
    | S d' =>
        match a, b with
        | VNil, VNil => Some true
        | VInt x, VInt y => Some (Z.eqb x y)
        | VReal x, VReal y => Some (SFeqb x y)
        | VStr x, VStr y => Some (bytes_eqb x y)
        | VTable p, VTable q =>
            match nth_error h p, nth_error h q with
            | Some t1, Some t2 =>
                if Nat.eqb (length t1) (length t2) then
                  (fix go (l1 l2 : otable value) : option bool :=
                     match l1, l2 with
                     | (k1, x1) :: r1, (k2, x2) :: r2 =>
                         if tkey_eqb k1 k2 then
                           match v_eq d' x1 x2 with
                           | Some true => go r1 r2
                           | o => o
                           end
                         else Some false
                     | _, _ => Some true
                     end) t1 t2
                else Some false
            | _, _ => None
            end
        | VFn i, VFn j => Some (Nat.eqb i j)
        | VNative n, VNative m => Some (bytes_eqb n m)
        | VClosure i, VClosure j => Some (Nat.eqb i j)
        | _, _ => Some false
        end
    end.

  Definition eq_depth : nat := 24.

  (* ordering: reals by IEEE comparison; an integer (nil as 0, string/table as length) against a
     real EXACTLY; integers; two objects: equal -> Eq, else by length when the lengths differ.
     [None] outside: unordered *)
  Definition v_cmp (a b : value) : option (option comparison) :=
    match a, b with
    | VReal x, VReal y => Some (SFcompare x y)
    | VReal x, _ => Some (option_map CompOpp (Z_cmp_sf (v_to_i64 b) x))
    | _, VReal y => Some (Z_cmp_sf (v_to_i64 a) y)
    | _, _ =>
        if v_is_int a || v_is_int b then Some (Some (Z.compare (v_to_i64 a) (v_to_i64 b)))
        else if v_is_obj a && v_is_obj b then
          match v_eq eq_depth a b with
          | None => None
          | Some true => Some (Some Eq)
          | Some false => Some (match Nat.compare (obj_len a) (obj_len b) with
                                | Eq => None
                                | c => Some c
                                end)
          end
        else Some None
    end.
End WithHeap.

Definition v_of_bool (b : bool) : value := VInt (if b then 1 else 0).

(* table keys: nil, integers, non-zero non-NaN reals, strings *)
Definition to_key (v : value) : option tkey :=
  match v with
  | VNil => Some KNil
  | VInt z => Some (KInt z)
  | VReal x => match x with
               | S754_finite _ _ _ | S754_infinity _ => Some (KReal (bits_of_sf x))
               | _ => None
               end
  | VStr s => Some (KStr s)
  | _ => None
  end.
Definition of_key (k : tkey) : value :=
  match k with
  | KNil => VNil
  | KInt z => VInt z
  | KReal b => VReal (sf_of_bits b)
  | KStr s => VStr s
  end.

Definition tree_depth : nat := 6.
Definition tree_of_key (k : tkey) : tree :=
  match k with
  | KNil => TrNil | KInt z => TrInt z | KReal b => TrReal b | KStr s => TrStr s
  end.
Fixpoint to_tree (d : nat) (h : list (otable value)) (v : value) : tree :=
  match v with
  | VNil => TrNil
  | VInt z => TrInt z
  | VReal x => TrReal (bits_of_sf x)
  | VStr s => TrStr s
  | VFn _ | VNative _ | VClosure _ => TrFn
  | VTable p =>
      match d with
      | O => TrCut
      | S d' => match nth_error h p with
                | Some t => TrTable (map (fun kv => (tree_of_key (fst kv), to_tree d' h (snd kv))) t)
                | None => TrCut
                end
      end
  end.

(* ------------------------------------------------------------------------------------------ *)
(* programs: the flat function table with what name resolution needs                          *)
(* ------------------------------------------------------------------------------------------ *)
Record fentry := { fe_name : str;                    (* full dotted name *)
                   fe_ns : list str;                 (* the modules it sits in *)
                   fe_imports : list (str * str);    (* last segment -> the import as written *)
                   fe_fn : function }.

Fixpoint mk_imports (imps : list str) : option (list (str * str)) :=
  match imps with
  | [] => Some []
  | i :: r => match rsplit_once_c c_dot i, mk_imports r with
              | Some (_, name), Some m => Some (m ++ [(name, i)])
              | _, _ => None
              end
  end.

Fixpoint flatten (d : nat) (m : module) (ns : list str) : option (list fentry) :=
  match d with
  | O => None
  | S d' =>
      match m with
      | Module subs funs imps =>
          match mk_imports imps with
          | None => None
          | Some im =>
              let own := map (fun nf => {| fe_name := ns_prefix ns ++ fst nf; fe_ns := ns;
                                            fe_imports := im; fe_fn := snd nf |}) funs in
              option_map (fun rest => own ++ rest)
                ((fix go (l : list (str * module)) : option (list fentry) :=
                    match l with
                    | [] => Some []
                    | (n, sm) :: r =>
                        match flatten d' sm (ns ++ [n]), go r with
                        | Some a, Some b => Some (a ++ b)
                        | _, _ => None
                        end
                    end) subs)
          end
      end
  end.

Definition add_std (m : module) : module :=
  match m with Module subs funs imps => Module (subs ++ [(s_std, std_module)]) funs imps end.

Fixpoint find_index {A} (p : A -> bool) (l : list A) (i : nat) : option nat :=
  match l with
  | [] => None
  | x :: r => if p x then Some i else find_index p r (S i)
  end.

Section Resolve.
  Variable P : list fentry.
  Definition find_fn (full : str) : option nat := find_index (fun fe => str_eqb (fe_name fe) full) P 0.
  Definition orelse {A} (a b : option A) := match a with Some _ => a | None => b end.
  (* the name of a Call / Function card, seen from the function [fi]: the full name; the name
     in the own module; an imported function; a function of an imported module *)
  Definition resolve (fi : nat) (name : str) : option nat :=
    match nth_error P fi with
    | None => None
    | Some fe =>
        let ns := fe_ns fe in
        let via_import (key : str) (mk : str -> option str -> str) : option nat :=
          match assoc key (fe_imports fe) with
          | None => None
          | Some alias =>
              let '(d, suffix) := super_depth alias in
              if Nat.leb d (length ns)
              then find_fn (ns_prefix (firstn (length ns - d) ns) ++ mk alias suffix)
              else None
          end in
        orelse (find_fn name)
       (orelse (find_fn (ns_prefix ns ++ name))
       (orelse (via_import name (fun alias suffix => match suffix with Some s => s | None => alias end))
               (match split_once_c c_dot name with
                | Some (prefix, rest) =>
                    via_import prefix (fun alias suffix =>
                      alias ++ [c_dot] ++ match suffix with Some s => s | None => rest end)
                | None => None
                end)))
    end.
End Resolve.

(* ------------------------------------------------------------------------------------------ *)
(* the evaluator                                                                              *)
(* ------------------------------------------------------------------------------------------ *)
Inductive task :=
| TkCard (fi : nat) (e : env) (c : card)
| TkSeq (fi : nat) (e : env) (cs : list card)                       (* cards in sequence *)
| TkArgs (lenient : bool) (fi : nat) (e : env) (cs : list card)     (* operand slots, left to right *)
| TkWhile (fi : nat) (e : env) (cond body : card)
| TkRepeat (fi : nat) (e : env) (i : option str) (n : value) (k : Z) (body : card)
| TkForEach (fi : nat) (e : env) (iv kv vv : option str) (tbl : nat) (k : nat) (body : card)
| TkCallFn (idx : nat) (args : list value)
| TkCallVal (f : value) (args : list value)
| TkNative (name : str) (args : list value)
(* the natives behind std.min / max / sorted: keys of the entries from index k on *)
| TkKeys (keyfn : value) (entries : list (tkey * value)) (acc : list value).

Definition empty_env : env := {| e_scopes := []; e_up := [] |}.
Definition ok (vs : list value) (e : env) (s : state) : res := ROk (ONorm vs) e s.
Definition err (k : errkind) (e : env) (s : state) : res := ROk (OErr k) e s.

(* continue with the values of a normally finished evaluation; everything else travels on *)
Definition bnd (r : res) (k : list value -> env -> state -> res) : res :=
  match r with
  | ROk (ONorm vs) e s => k vs e s
  | other => other
  end.
Definition one (vs : list value) (k : value -> res) : res :=
  match vs with [v] => k v | _ => RUnspec 1 end.
Definition two (vs : list value) (k : value -> value -> res) : res :=
  match vs with [a; b] => k a b | _ => RUnspec 1 end.

Fixpoint lookup_scopes (name : str) (scs : list scope) : option nat :=
  match scs with
  | [] => None
  | sc :: r => match assoc name sc with Some c => Some c | None => lookup_scopes name r end
  end.
(* the cell a name designates: the innermost visible local, else the captured variable *)
Definition lookup_var (e : env) (name : str) : option nat :=
  orelse (lookup_scopes name (e_scopes e)) (lookup_scopes name (e_up e)).

Definition declare (name : str) (v : value) (e : env) (s : state) : env * state :=
  let '(c, s') := alloc_cell v s in
  ({| e_scopes := match e_scopes e with
                  | sc :: r => ((name, c) :: sc) :: r
                  | [] => [[(name, c)]]
                  end;
      e_up := e_up e |}, s').
Definition declare_opt (name : option str) (v : value) (e : env) (s : state) : env * state :=
  match name with Some n => declare n v e s | None => (e, s) end.
Definition push_scope (e : env) : env := {| e_scopes := [] :: e_scopes e; e_up := e_up e |}.

Definition is_empty (s : str) := match s with [] => true | _ => false end.

(* table primitives on the heap; the table operand must be a table *)
Definition with_table (s : state) (e : env) (t : value) (k : nat -> otable value -> res) : res :=
  match t with
  | VTable p => match nth_error (st_heap s) p with
                | Some tb => k p tb
                | None => RUnspec 5
                end
  | _ => err EInvalidArgument e s
  end.
Definition get_prop (s : state) (e : env) (t key : value) (k : value -> res) : res :=
  with_table s e t (fun _ tb =>
    match to_key key with
    | None => RUnspec 4
    | Some kk => k (match m_get tb kk with Some v => v | None => VNil end)
    end).
Definition set_prop (s : state) (e : env) (v t key : value) : res :=
  with_table s e t (fun p tb =>
    match to_key key with
    | None => RUnspec 4
    | Some kk => ok [] e (set_heap (upd (st_heap s) p (s_insert tb kk v)) s)
    end).

Fixpoint get_props (s : state) (e : env) (v : value) (props : list str) (k : value -> res) : res :=
  match props with
  | [] => k v
  | p :: r => if is_empty p then get_props s e v r k
              else get_prop s e v (VStr p) (fun x => get_props s e x r k)
  end.

(* ReadVar "a.b.c": the variable a (local, captured, else the global of that name), then the
   properties b and c *)
Definition read_var (e : env) (s : state) (name : str) (k : value -> res) : res :=
  let '(v, props) := match split_once_c c_dot name with
                     | Some (v, p) => (v, split_c c_dot p)
                     | None => (name, [])
                     end in
  if is_empty v then RUnspec 9 else
  match lookup_var e v with
  | Some c => match nth_error (st_cells s) c with
              | Some x => get_props s e x props k
              | None => RUnspec 5
              end
  | None => match assoc v (st_globals s) with
            | Some x => get_props s e x props k
            | None => err EVarNotFound e s
            end
  end.

Definition log_call (name : str) (args : list value) (s : state) : state :=
  set_log ((name, map (to_tree tree_depth (st_heap s)) args) :: st_log s) s.

Definition n_log1 : str := [108; 111; 103; 49]%N.
Definition n_add2 : str := [97; 100; 100; 50]%N.
Definition n_fail0 : str := [102; 97; 105; 108; 48]%N.
Definition n_call1 : str := [99; 97; 108; 108; 49]%N.
Definition n_min : str := [95; 95; 109; 105; 110]%N.
Definition n_max : str := [95; 95; 109; 97; 120]%N.
Definition n_sort : str := [95; 95; 115; 111; 114; 116]%N.
Definition n_to_array : str := [95; 95; 116; 111; 95; 97; 114; 114; 97; 121]%N.

(* the last n of the arguments (a callee with n parameters ignores the leading surplus) *)
Definition last_n {A} (n : nat) (l : list A) : list A := skipn (length l - n) l.

Definition row_table (k v : value) : otable value := [(KStr s_key, k); (KStr s_value, v)].

(* ---- the library natives, specified directly on association lists ---- *)
(* keys as numbers: nil as 0, strings and tables as their length; NaN last *)
Definition sort_num (h : list (otable value)) (v : value) : value :=
  match v with VInt _ | VReal _ => v | _ => VInt (v_to_i64 h v) end.
Definition is_nan (v : value) := match v with VReal S754_nan => true | _ => false end.
Definition sort_lt (h : list (otable value)) (a b : value) : bool :=   (* a strictly before b *)
  match is_nan a, is_nan b with
  | false, false => match v_cmp h (sort_num h a) (sort_num h b) with
                    | Some (Some Lt) => true
                    | _ => false
                    end
  | false, true => true
  | _, _ => false
  end.
(* stable insertion sort of (key, entry) pairs: an element goes after all that are not greater *)
Fixpoint ins_sorted {A} (lt : value -> value -> bool) (x : value * A) (l : list (value * A)) :=
  match l with
  | [] => [x]
  | y :: r => if lt (fst x) (fst y) then x :: l else y :: ins_sorted lt x r
  end.
Definition stable_sort {A} (lt : value -> value -> bool) (l : list (value * A)) : list (value * A) :=
  fold_left (fun acc x => ins_sorted lt x acc) l [].
(* index of the first strictly smallest (largest) key under the ordering of the language *)
Fixpoint best_index (better : value -> value -> bool) (keys : list value) (i : nat) (best : value)
         (bi : nat) : nat :=
  match keys with
  | [] => bi
  | k :: r => if better k best then best_index better r (S i) k i else best_index better r (S i) best bi
  end.
Definition cmp_is (h : list (otable value)) (want : comparison) (a b : value) : bool :=
  match v_cmp h a b with
  | Some (Some c) => match c, want with Lt, Lt | Gt, Gt => true | _, _ => false end
  | _ => false
  end.

Section Eval.
  Variable P : list fentry.          (* the program *)
  Variable host : list str.          (* the natives the host registered (names from the menu) *)
  Variable limit : N.                (* bound on the number of steps *)
  Variable rec : task -> state -> res.

  Definition registered (name : str) : bool := existsb (str_eqb name) host.

  Definition bind_params (params : list str) (args : list value) (s : state) : scope * state :=
    fold_left (fun acc pa => let '(sc, st) := acc in
                             let '(c, st') := alloc_cell (snd pa) st in
                             (sc ++ [(fst pa, c)], st'))
              (combine params (rev args)) ([], s).

  (* a finished body: the value of a Return, else nil *)
  Definition finish_call (r : res) : res :=
    match r with
    | ROk (ONorm _) _ s => ok [VNil] empty_env s
    | ROk (ORet v) _ s => ok [v] empty_env s
    | ROk o _ s => ROk o empty_env s
    | other => other
    end.

  Definition binop_value (op : binop) (s : state) (e : env) (a b : value) : res :=
    let h := st_heap s in
    let cmp (f : option comparison -> bool) :=
      match v_cmp h a b with
      | Some c => ok [v_of_bool (f c)] e s
      | None => RUnspec 8
      end in
    let eq (neg : bool) :=
      match v_eq h eq_depth a b with
      | Some r => ok [v_of_bool (xorb neg r)] e s
      | None => RUnspec 8
      end in
    match op with
    | BAdd => ok [arith h Z.add fadd a b] e s
    | BSub => ok [arith h Z.sub fsub a b] e s
    | BMul => ok [arith h Z.mul fmul a b] e s
    | BDiv => ok [v_div h a b] e s
    | BLess => cmp (fun c => match c with Some Lt => true | _ => false end)
    | BLessOrEq => cmp (fun c => match c with Some Lt | Some Eq => true | _ => false end)
    | BEquals => eq false
    | BNotEquals => eq true
    | BAnd => ok [v_of_bool (v_bool h a && v_bool h b)] e s
    | BOr => ok [v_of_bool (v_bool h a || v_bool h b)] e s
    | BXor => ok [v_of_bool (xorb (v_bool h a) (v_bool h b))] e s
    | BGetProperty => get_prop s e a b (fun v => ok [v] e s)
    | BGet =>   (* the row {key, value} of the i-th entry; past the end: nil, nil *)
        with_table s e a (fun _ tb =>
          match b with
          | VInt i =>
              if (i <? 0)%Z then err EInvalidArgument e s
              else let '(k, v) := match nth_error tb (Z.to_nat i) with
                                  | Some (k, v) => (of_key k, v)
                                  | None => (VNil, VNil)
                                  end in
                   let '(p, s') := alloc_table (row_table k v) s in
                   ok [VTable p] e s'
          | _ => err EInvalidArgument e s
          end)
    | BAppendTable =>   (* [value, table] *)
        with_table s e b (fun p tb =>
          match s_append_key tb with
          | Some i => ok [] e (set_heap (upd (st_heap s) p (s_insert tb (KInt i) a)) s)
          | None => RUnspec 5
          end)
    | BIfTrue | BIfFalse | BWhile => RUnspec 5
    end.

  Definition eval_card (fi : nat) (e : env) (c : card) (s : state) : res :=
    let args cs k := bnd (rec (TkArgs false fi e cs) s) k in
    match c with
    | CScalarNil => ok [VNil] e s
    | CScalarInt i => ok [VInt i] e s
    | CScalarFloat b => ok [VReal (sf_of_bits b)] e s
    | CStringLiteral x => ok [VStr x] e s
    | CComment _ => ok [] e s
    | CAbort => ROk OAbort e s
    | CCreateTable => let '(p, s') := alloc_table [] s in ok [VTable p] e s'
    | CFunction name => match resolve P fi name with
                        | Some i => ok [VFn i] e s
                        | None => RUnspec 2
                        end
    | CNativeFunction name => ok [VNative name] e s
    | CReadVar name => read_var e s name (fun v => ok [v] e s)
    | CBin BIfTrue c1 body =>
        args [c1] (fun vs e1 s1 => one vs (fun v =>
          if v_bool (st_heap s1) v then rec (TkCard fi e1 body) s1 else ok [] e1 s1))
    | CBin BIfFalse c1 body =>
        args [c1] (fun vs e1 s1 => one vs (fun v =>
          if v_bool (st_heap s1) v then ok [] e1 s1 else rec (TkCard fi e1 body) s1))
    | CBin BWhile c1 body => rec (TkWhile fi e c1 body) s
    | CBin op a b => args [a; b] (fun vs e1 s1 => two vs (fun x y => binop_value op s1 e1 x y))
    | CUn UReturn a => args [a] (fun vs e1 s1 => one vs (fun v => ROk (ORet v) e1 s1))
    | CUn UNot a => args [a] (fun vs e1 s1 => one vs (fun v =>
                      ok [v_of_bool (negb (v_bool (st_heap s1) v))] e1 s1))
    | CUn ULen a => args [a] (fun vs e1 s1 => one vs (fun v => ok [VInt (v_len (st_heap s1) v)] e1 s1))
    | CUn UPopTable a =>
        args [a] (fun vs e1 s1 => one vs (fun t =>
          with_table s1 e1 t (fun p tb =>
            match rev tb with
            | [] => ok [VNil] e1 s1
            | (_, v) :: _ => ok [v] e1 (set_heap (upd (st_heap s1) p (removelast tb)) s1)
            end)))
    | CTri TIfElse c1 a b =>
        args [c1] (fun vs e1 s1 => one vs (fun v =>
          if v_bool (st_heap s1) v then rec (TkCard fi e1 a) s1 else rec (TkCard fi e1 b) s1))
    | CTri TSetProperty v t k =>
        args [v; t; k] (fun vs e1 s1 =>
          match vs with
          | [x; tb; key] => set_prop s1 e1 x tb key
          | _ => RUnspec 1
          end)
    | CCallNative name cs =>
        args cs (fun vs e1 s1 => bnd (rec (TkNative name vs) s1) (fun r _ s2 => ok r e1 s2))
    | CCall name cs =>
        args cs (fun vs e1 s1 =>
          match resolve P fi name with
          | Some i => bnd (rec (TkCallFn i vs) s1) (fun r _ s2 => ok r e1 s2)
          | None => RUnspec 2
          end)
    | CDynamicCall f cs =>   (* the arguments first, then the callee expression *)
        args cs (fun vs e1 s1 =>
          bnd (rec (TkArgs false fi e1 [f]) s1) (fun fv e2 s2 => one fv (fun fv =>
            bnd (rec (TkCallVal fv vs) s2) (fun r _ s3 => ok r e2 s3))))
    | CSetGlobalVar name v =>
        args [v] (fun vs e1 s1 => one vs (fun x =>
          if is_empty name then RUnspec 9
          else ok [] e1 (set_globals (set_assoc name x (st_globals s1)) s1)))
    | CSetVar name v =>
        args [v] (fun vs e1 s1 => one vs (fun x =>
          match rsplit_once_c c_dot name with
          | Some (path, prop) =>
              read_var e1 s1 path (fun tb => set_prop s1 e1 x tb (VStr prop))
          | None =>
              if is_empty name then RUnspec 9 else
              match lookup_var e1 name with
              | Some c => ok [] e1 (set_cells (upd (st_cells s1) c x) s1)
              | None => let '(e2, s2) := declare name x e1 s1 in ok [] e2 s2
              end
          end))
    | CRepeat i n body =>
        args [n] (fun vs e1 s1 => one vs (fun nv => rec (TkRepeat fi e1 i nv 0%Z body) s1))
    | CForEach iv kv vv it body =>
        args [it] (fun vs e1 s1 => one vs (fun t =>
          with_table s1 e1 t (fun p _ => rec (TkForEach fi e1 iv kv vv p 0 body) s1)))
    | CComposite _ cs => rec (TkSeq fi e cs) s
    | CArray cs =>   (* a card that yields nothing contributes nil *)
        bnd (rec (TkArgs true fi e cs) s) (fun vs e1 s1 =>
          let tb := combine (map (fun i => KInt (Z.of_nat i)) (seq 0 (length vs))) vs in
          let '(p, s2) := alloc_table tb s1 in ok [VTable p] e1 s2)
    | CClosure params body =>
        let id := length (st_clos s) in
        ok [VClosure id] e
           (set_clos (st_clos s ++ [{| cl_params := params; cl_body := body;
                                       cl_up := e_scopes e ++ e_up e; cl_fi := fi |}]) s)
    end.

  Definition call_body (fi : nat) (params : list str) (body : list card) (up : list scope)
             (args : list value) (s : state) : res :=
    if Nat.ltb (length args) (length params) then RUnspec 3
    else let '(sc, s1) := bind_params params args s in
         finish_call (rec (TkSeq fi {| e_scopes := [sc]; e_up := up |} body) s1).

  Definition eval_native (name : str) (args : list value) (s : state) : res :=
    let e := empty_env in
    let need n k := if Nat.ltb (length args) n then RUnspec 11 else k (last_n n args) in
    let std := orb (str_eqb name n_min) (orb (str_eqb name n_max)
               (orb (str_eqb name n_sort) (str_eqb name n_to_array))) in
    if negb (std || registered name) then err EProcedureNotFound e s
    else if str_eqb name n_log1 then
      need 1 (fun a => ok [VNil] e (log_call name a s))
    else if str_eqb name n_add2 then
      need 2 (fun a =>
        let ints := map (fun v => VInt (v_to_i64 (st_heap s) v)) a in
        match ints with
        | [VInt x; VInt y] => ok [VInt (wrap64 (x + y))] e (log_call name ints s)
        | _ => RUnspec 5
        end)
    else if str_eqb name n_fail0 then err ETaskFailure e (log_call name [] s)
    else if str_eqb name n_call1 then
      need 2 (fun a =>
        match a with
        | [f; x] =>
            match rec (TkCallVal f [x]) (log_call name a s) with
            | ROk (ONorm vs) _ s1 => one vs (fun v => ok [v] e s1)
            | ROk (OErr _) _ s1 => err ETaskFailure e s1
            | ROk (ORet _) _ _ => RUnspec 5
            | ROk OAbort _ _ => RUnspec 7
            | other => other
            end
        | _ => RUnspec 5
        end)
    else if str_eqb name n_to_array then
      need 1 (fun a =>
        match a with
        | [VTable p] =>
            match nth_error (st_heap s) p with
            | Some tb =>
                let vs := map snd tb in
                let '(q, s1) := alloc_table (combine (map (fun i => KInt (Z.of_nat i)) (seq 0 (length vs))) vs) s in
                ok [VTable q] e s1
            | None => RUnspec 5
            end
        | [v] => ok [v] e s
        | _ => RUnspec 5
        end)
    else if orb (str_eqb name n_min) (orb (str_eqb name n_max) (str_eqb name n_sort)) then
      need 2 (fun a =>
        match a with
        | [VTable p; keyfn] =>
            match nth_error (st_heap s) p with
            | None => RUnspec 5
            | Some [] => if str_eqb name n_sort
                         then let '(q, s1) := alloc_table [] s in ok [VTable q] e s1
                         else ok [VNil] e s
            | Some tb =>
                (* min / max / sorted work on the entries [tb] the table has when they are called
                   (keys and values), whatever the key function does to the table meanwhile; the
                   key function sees every one of those entries in order, first to last *)
                match rec (TkKeys keyfn tb []) s with
                | ROk (ONorm keys) _ s1 =>
                    let h := st_heap s1 in
                    if str_eqb name n_sort then
                      let sorted := stable_sort (sort_lt h) (combine keys tb) in
                      let out := fold_left (fun acc kv => s_insert acc (fst (snd kv)) (snd (snd kv)))
                                           sorted [] in
                      let '(q, s2) := alloc_table out s1 in ok [VTable q] e s2
                    else
                      match keys with
                      | [] => RUnspec 5
                      | k0 :: kr =>
                          let i := best_index (cmp_is h (if str_eqb name n_min then Lt else Gt))
                                              kr 1 k0 0 in
                          (* the row of the best entry, as it was when the library was called *)
                          let '(k, v) := match nth_error tb i with
                                         | Some (k, v) => (of_key k, v)
                                         | None => (VNil, VNil)
                                         end in
                          let '(q, s2) := alloc_table (row_table k v) s1 in ok [VTable q] e s2
                      end
                | ROk (OErr _) _ s1 => err ETaskFailure e s1
                | ROk (ORet _) _ _ => RUnspec 5
                | ROk OAbort _ _ => RUnspec 7
                | other => other
                end
            end
        | [v; _] => ok [v] e s
        | _ => RUnspec 5
        end)
    else RUnspec 11.

  Definition F (t : task) (s0 : state) : res :=
    if (limit <? st_steps s0)%N then RFuel else
    let s := bump s0 in
    match t with
    | TkCard fi e c => eval_card fi e c s
    | TkSeq fi e cs =>
        match cs with
        | [] => ok [] e s
        | c :: r => bnd (rec (TkCard fi e c) s) (fun v1 e1 s1 =>
                    bnd (rec (TkSeq fi e1 r) s1) (fun v2 e2 s2 => ok (v1 ++ v2) e2 s2))
        end
    | TkArgs lenient fi e cs =>
        match cs with
        | [] => ok [] e s
        | c :: r => bnd (rec (TkCard fi e c) s) (fun v1 e1 s1 =>
                      match v1, lenient with
                      | [v], _ => bnd (rec (TkArgs lenient fi e1 r) s1) (fun v2 e2 s2 => ok (v :: v2) e2 s2)
                      | [], true => bnd (rec (TkArgs lenient fi e1 r) s1) (fun v2 e2 s2 => ok (VNil :: v2) e2 s2)
                      | _, _ => RUnspec 1
                      end)
        end
    | TkWhile fi e cond body =>
        bnd (rec (TkArgs false fi e [cond]) s) (fun vs e1 s1 => one vs (fun v =>
          if v_bool (st_heap s1) v
          then bnd (rec (TkCard fi e1 body) s1) (fun _ e2 s2 => rec (TkWhile fi e2 cond body) s2)
          else ok [] e1 s1))
    | TkRepeat fi e i n k body =>
        match v_cmp (st_heap s) (VInt k) n with
        | Some (Some Lt) =>
            let '(e1, s1) := declare_opt i (VInt k) (push_scope e) s in
            bnd (rec (TkCard fi e1 body) s1) (fun _ _ s2 =>
              rec (TkRepeat fi e i n (wrap64 (k + 1)) body) s2)
        | Some _ => ok [] e s
        | None => RUnspec 8
        end
    | TkForEach fi e iv kv vv p k body =>
        match nth_error (st_heap s) p with
        | None => RUnspec 5
        | Some tb =>
            match nth_error tb k with
            | None => ok [] e s
            | Some (key, val) =>
                let '(e1, s1) := declare_opt vv val (push_scope e) s in
                let '(e2, s2) := declare_opt kv (of_key key) e1 s1 in
                let '(e3, s3) := declare_opt iv (VInt (Z.of_nat k)) e2 s2 in
                bnd (rec (TkCard fi e3 body) s3) (fun _ _ s4 =>
                  rec (TkForEach fi e iv kv vv p (S k) body) s4)
            end
        end
    | TkCallFn idx args =>
        match nth_error P idx with
        | Some fe => call_body idx (f_args (fe_fn fe)) (f_cards (fe_fn fe)) [] args s
        | None => RUnspec 5
        end
    | TkCallVal f args =>
        match f with
        | VFn idx => rec (TkCallFn idx args) s
        | VClosure c =>
            match nth_error (st_clos s) c with
            | Some cl => call_body (cl_fi cl) (cl_params cl) (cl_body cl) (cl_up cl) args s
            | None => RUnspec 5
            end
        | VNative name => rec (TkNative name args) s
        | _ => err EInvalidArgument empty_env s
        end
    | TkNative name args => eval_native name args s
    | TkKeys keyfn entries acc =>
        match entries with
        | [] => ok (rev acc) empty_env s
        | (k, v) :: r =>
            (* the host pushes the value, then the key: a key function (key, value) *)
            bnd (rec (TkCallVal keyfn [v; of_key k]) s) (fun vs _ s1 => one vs (fun x =>
              rec (TkKeys keyfn r (x :: acc)) s1))
        end
    end.
End Eval.

Fixpoint eval (P : list fentry) (host : list str) (limit : N) (fuel : nat) (t : task) (s : state) : res :=
  match fuel with
  | O => RFuel
  | S f => F P host limit (eval P host limit f) t s
  end.

(* ------------------------------------------------------------------------------------------ *)
(* programs and observations                                                                  *)
(* ------------------------------------------------------------------------------------------ *)
Inductive okind := KOk | KErr (k : errkind).
Record obs := { ob_kind : okind;
                ob_globals : list (str * tree);              (* in order of first assignment *)
                ob_log : list (str * list tree);             (* in call order *)
                ob_notes : list N }.                         (* not an observable: see [note codes] *)
Inductive presult := PFuel | PUnspec (why : N) | PObs (o : obs).

Definition init_state : state :=
  {| st_cells := []; st_heap := []; st_clos := []; st_globals := []; st_log := []; st_steps := 0; st_notes := [] |}.

Definition step_limit (fuel : nat) : N := (N.of_nat fuel * 64)%N.

Definition observe (k : okind) (s : state) : presult :=
  PObs {| ob_kind := k;
          ob_globals := map (fun nv => (fst nv, to_tree tree_depth (st_heap s) (snd nv))) (st_globals s);
          ob_log := rev (st_log s);
          ob_notes := st_notes s |}.

Definition program_of (m : module) : option (list fentry * nat) :=
  match flatten 64 (add_std m) [] with
  | None => None
  | Some P => match find_index (fun fe => str_eqb (fe_name fe) s_main) P 0 with
              | Some i => Some (P, i)
              | None => None
              end
  end.

Definition eval_program (fuel : nat) (m : module) (host : list str) : presult :=
  match program_of m with
  | None => PUnspec 10
  | Some (P, main) =>
      match nth_error P main with
      | None => PUnspec 10
      | Some fe =>
          match eval P host (step_limit fuel) fuel
                     (TkSeq main {| e_scopes := [[]]; e_up := [] |} (f_cards (fe_fn fe))) init_state with
          | RFuel => PFuel
          | RUnspec w => PUnspec w
          | ROk (ONorm _) _ s | ROk OAbort _ s => observe KOk s
          | ROk (OErr k) _ s => observe (KErr k) s
          | ROk (ORet _) _ _ => PUnspec 6
          end
      end
  end.
