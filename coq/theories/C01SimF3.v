(* C01, simulation, fragment F3w: compile_correct for F2a plus While loops at the top level of main.
   The number of dispatches of a run is no longer bounded by the program text: the theorem has the
   form of the original statement, "there is a budget from which on ...". *)
From Coq Require Import List NArith ZArith Bool Lia.
From Cao Require Import ListUtil CheckUtil Bits CardAst Bytecode Compiler CompilerProofs CompilerWf CompilerResolve.
From Cao Require Import Stacks Vm VmProofs C04VmProofs C15Link.
From Cao Require RefSem.
From Cao Require Import C01SimKeep C01SimVm C01SimDefs C01SimComp C01SimRef C01SimF1 C01SimDefs2 C01SimComp2 C01SimRef2 C01SimF2.
From Cao Require Import C01SimDefs3 C01SimComp3 C01SimRef3.
Import ListNotations.
Local Open Scope N_scope.

Section Run3.
Variable F : fops.
Variable bld : build.
Variable P : program.
Variable T : list (N * N).
Variable names : list str.

Hypothesis T_lt : forall h id, nm_find h T = Some id -> id < two32.
Hypothesis T_inj : forall h1 h2 id, nm_find h1 T = Some id -> nm_find h2 T = Some id -> h1 = h2.
Hypothesis names_inj : handles_inj names = true.
Hypothesis P_small : code_len P < 2147483648.

Notation steps' := (steps F bld P cap calls0 (@nil obj) None (@nil (list tval))).
Notation exec_err' := (exec_err F bld P cap calls0 (@nil obj) None (@nil (list tval))).
Notation seg' := (seg P).
Notation grel' := (grel T names).

(* the outcome of a piece of code that starts at [pre] and is [code] long *)
Definition sim_res (pre code : list instr) (okf : bool) (gr' : list (str * RefSem.value)) (gv : list (option value)) : Prop :=
  gsimple gr' /\
  if okf then
    exists k gv', steps' k (bytes pre, [], gv) (bytes (pre ++ code), [], gv') /\ grel' gr' gv'
  else
    exists k c1 nm, steps' k (bytes pre, [], gv) c1 /\ exec_err' c1 (EVarNotFound nm) /\ grel' gr' (snd c1).

Lemma stmt_sim_any c pre gr gv :
  stmt_f2 c = true ->
  seg' pre (code_stmt2 T (bytes pre) c) ->
  (forall n, In n (stmt_names2 c) -> In n names /\ nm_find (handle_of_bytes n) T <> None) ->
  (S (stmt_depth2 c) < cap)%nat -> grel' gr gv -> gsimple gr ->
  sim_res pre (code_stmt2 T (bytes pre) c) (fst (run_stmt2 gr c)) (snd (run_stmt2 gr c)) gv.
Proof.
  intros Hc Hseg Hn Hd Hrel Hsimp.
  pose proof (stmt_f2_sim F bld P T names T_lt T_inj names_inj P_small c Hc pre gr gv Hseg Hn Hd Hrel Hsimp) as H.
  unfold stmt_sim_res in H. destruct (run_stmt2 gr c) as [okf gr']. cbn [fst snd]. destruct H as [Hs H].
  split; [exact Hs|]. destruct okf.
  - destruct H as (k & gv' & _ & Hst & Hr). eauto.
  - destruct H as (k & c1 & nm & _ & Hst & Herr & Hr). eauto 6.
Qed.

Lemma while_sim e b : expr_f1 e = true -> stmt_f2 b = true ->
  forall n gr okf gr', run_while n gr e b = Some (okf, gr') ->
  forall pre gv,
    seg' pre (code_while T (bytes pre) e b (u32_to_i32 (bytes pre))) ->
    (forall x, In x (expr_names e ++ stmt_names2 b) -> In x names /\ nm_find (handle_of_bytes x) T <> None) ->
    (S (Nat.max (depth e) (stmt_depth2 b)) < cap)%nat -> grel' gr gv -> gsimple gr ->
    sim_res pre (code_while T (bytes pre) e b (u32_to_i32 (bytes pre))) okf gr' gv.
Proof.
  intros He Hb. induction n as [|n IH]; intros gr okf gr' Hrun pre gv Hseg Hnames Hdepth Hrel Hsimp; [discriminate|].
  cbn [run_while] in Hrun. unfold code_while in *. cbv zeta in *.
  set (ce := code_expr T e) in *.
  set (cb := code_stmt2 T (bytes pre + bytes ce + 5) b) in *.
  set (tgt := bytes pre + bytes ce + 5 + (bytes cb + 5)) in *.
  set (jf := IGotoIfFalse (u32_to_i32 tgt)) in *.
  set (jg := IGoto (u32_to_i32 (bytes pre))) in *.
  assert (Hend : bytes (pre ++ ce ++ jf :: cb ++ [jg]) = tgt).
  { rewrite !bytes_app. cbn [bytes]. rewrite bytes_app. cbn [bytes].
    change (spanN jf) with 5. change (spanN jg) with 5. unfold tgt. lia. }
  assert (Hsmall : tgt < 2147483648).
  { pose proof (seg_bound P P_small _ _ Hseg) as Hb'. rewrite Hend in Hb'. lia. }
  assert (Hpre_small : bytes pre < 2147483648) by (unfold tgt in Hsmall; lia).
  assert (Hne : forall x, In x (expr_names e) -> In x names /\ nm_find (handle_of_bytes x) T <> None)
    by (intros x Hx; apply Hnames, in_or_app; auto).
  assert (Hnb : forall x, In x (stmt_names2 b) -> In x names /\ nm_find (handle_of_bytes x) T <> None)
    by (intros x Hx; apply Hnames, in_or_app; auto).
  pose proof (cond_sim F bld P T names T_lt names_inj P_small e pre false tgt (cb ++ [jg]) gr gv He Hseg Hsmall Hne
                       ltac:(lia) Hrel Hsimp) as Hcond.
  destruct (ev gr e) as [v|] eqn:Ev.
  - destruct (RefSem.v_bool [] v) eqn:Ebv; cbn [Bool.eqb] in Hcond.
    + (* one round *)
      destruct (seg_mid P _ _ _ _ Hseg) as (_ & _ & Srest).
      assert (Hpre1 : bytes (pre ++ ce ++ [jf]) = bytes pre + bytes ce + 5).
      { rewrite !bytes_app. cbn [bytes]. change (spanN jf) with 5. lia. }
      pose proof (stmt_sim_any b (pre ++ ce ++ [jf]) gr gv Hb
                    ltac:(rewrite Hpre1; eapply seg_app_l; exact Srest) Hnb ltac:(lia) Hrel Hsimp) as Hbody.
      unfold sim_res in Hbody. rewrite Hpre1 in Hbody. fold cb in Hbody.
      destruct (run_stmt2 gr b) as [okb g1]. cbn [fst snd] in Hbody. destruct Hbody as [Hs1 Hbody].
      destruct okb.
      * destruct Hbody as (kb & gv1 & Hstb & Hr1).
        assert (Hcg : code_at P (bytes ((pre ++ ce ++ [jf]) ++ cb)) jg).
        { eapply seg_instr. eapply seg_app_r. exact Srest. }
        pose proof (@ex_goto F bld P cap calls0 [] None [] _ (bytes pre) [] gv1 Hcg Hpre_small) as Hgo.
        pose proof (IH g1 okf gr' Hrun pre gv1 Hseg Hnames Hdepth Hr1 Hs1) as Hrest.
        destruct Hrest as [Hs' Hrest]. split; [exact Hs'|].
        assert (Hround : steps' (length ce + 1 + kb + 1) (bytes pre, [], gv) (bytes pre, [], gv1)).
        { eapply steps_trans; [eapply steps_trans; [exact Hcond | exact Hstb]|]. apply steps_1. exact Hgo. }
        destruct okf.
        -- destruct Hrest as (k & gv' & Hst & Hr'). exists (length ce + 1 + kb + 1 + k)%nat, gv'.
           split; [eapply steps_trans; eauto | exact Hr'].
        -- destruct Hrest as (k & c1 & nm & Hst & Herr & Hr'). exists (length ce + 1 + kb + 1 + k)%nat, c1, nm.
           split; [eapply steps_trans; eauto | auto].
      * injection Hrun as <- <-. split; [exact Hs1|].
        destruct Hbody as (kb & c1 & nm & Hstb & Herr & Hr1). exists (length ce + 1 + kb)%nat, c1, nm.
        split; [eapply steps_trans; eauto | auto].
    + (* the condition is false: behind the loop *)
      injection Hrun as <- <-. split; [exact Hsimp|]. exists (length ce + 1)%nat, gv.
      split; [rewrite Hend; exact Hcond | exact Hrel].
  - injection Hrun as <- <-. split; [exact Hsimp|]. destruct Hcond as (k & c1 & nm & _ & Hst & Herr & Hg).
    exists k, c1, nm. split; [exact Hst|]. split; [exact Herr|]. rewrite Hg; exact Hrel.
Qed.

Lemma top_sim c : top_f3 c = true ->
  forall n gr okf gr', run_top3 n gr c = Some (okf, gr') ->
  forall pre gv,
    seg' pre (code_top3 T (bytes pre) c) ->
    (forall x, In x (stmt_names2 c) -> In x names /\ nm_find (handle_of_bytes x) T <> None) ->
    (S (stmt_depth2 c) < cap)%nat -> grel' gr gv -> gsimple gr ->
    sim_res pre (code_top3 T (bytes pre) c) okf gr' gv.
Proof.
  intros Hc n gr okf gr' Hrun pre gv Hseg Hn Hd Hrel Hsimp.
  assert (Hstmt : stmt_f2 c = true -> code_top3 T (bytes pre) c = code_stmt2 T (bytes pre) c ->
                  run_top3 n gr c = Some (run_stmt2 gr c) ->
                  sim_res pre (code_top3 T (bytes pre) c) okf gr' gv).
  { intros H2 Ec Er. rewrite Er in Hrun. injection Hrun as Hrun. rewrite Ec in *.
    pose proof (stmt_sim_any c pre gr gv H2 Hseg Hn Hd Hrel Hsimp) as H. rewrite Hrun in H. exact H. }
  destruct c; try (apply Hstmt; [exact Hc | reflexivity | reflexivity]).
  destruct op; try (apply Hstmt; [exact Hc | reflexivity | reflexivity]).
  cbn [top_f3] in Hc. apply andb_true_iff in Hc. destruct Hc as [He Hb].
  cbn [run_top3 code_top3 stmt_names2 stmt_depth2] in *.
  apply (while_sim c1 c2 He Hb n gr okf gr' Hrun pre gv Hseg Hn Hd Hrel Hsimp).
Qed.

Lemma cards_sim3 cards gr okf gr' : runs3 gr cards okf gr' ->
  forallb top_f3 cards = true -> depth_ok3 cards = true ->
  forall pre gv,
    seg' pre (code_main3 T (bytes pre) cards) ->
    (forall x, In x (main_names3 cards) -> In x names /\ nm_find (handle_of_bytes x) T <> None) ->
    grel' gr gv -> gsimple gr ->
    sim_res pre (code_main3 T (bytes pre) cards) okf gr' gv.
Proof.
  induction 1 as [g | g c r n g1 okf g2 Hrun Hrest IH | g c r n g1 Hrun];
    intros Hc Hd pre gv Hseg Hnames Hrel Hsimp.
  - cbn [code_main3]. split; [exact Hsimp|]. exists 0%nat, gv. rewrite app_nil_r. split; [constructor | exact Hrel].
  - cbn [forallb depth_ok3] in Hc, Hd. apply andb_true_iff in Hc, Hd. destruct Hc as [Hc Hcr], Hd as [Hd Hdr].
    apply Nat.ltb_lt in Hd. cbn [code_main3 main_names3 flat_map] in *. cbv zeta in *.
    set (cc := code_top3 T (bytes pre) c) in *.
    assert (Hnc : forall x, In x (stmt_names2 c) -> In x names /\ nm_find (handle_of_bytes x) T <> None)
      by (intros x Hx; apply Hnames, in_or_app; auto).
    assert (Hnr : forall x, In x (main_names3 r) -> In x names /\ nm_find (handle_of_bytes x) T <> None)
      by (intros x Hx; apply Hnames, in_or_app; auto).
    pose proof (top_sim c Hc n g true g1 Hrun pre gv (seg_app_l _ _ _ _ Hseg) Hnc Hd Hrel Hsimp) as [Hs1 H1].
    fold cc in H1. destruct H1 as (k1 & gv1 & Hst1 & Hr1).
    assert (Eb : bytes (pre ++ cc) = bytes pre + bytes cc) by apply bytes_app.
    pose proof (IH Hcr Hdr (pre ++ cc) gv1 ltac:(rewrite Eb; apply seg_app_r; exact Hseg) Hnr Hr1 Hs1) as [Hs2 H2].
    rewrite Eb in H2. split; [exact Hs2|]. destruct okf.
    + destruct H2 as (k2 & gv2 & Hst2 & Hr2). exists (k1 + k2)%nat, gv2. split; [|exact Hr2].
      eapply steps_trans; [exact Hst1|]. rewrite Eb, app_assoc. exact Hst2.
    + destruct H2 as (k2 & c1 & nm & Hst2 & Herr & Hr2). exists (k1 + k2)%nat, c1, nm. split; [|auto].
      eapply steps_trans; [exact Hst1|]. rewrite Eb. exact Hst2.
  - cbn [forallb depth_ok3] in Hc, Hd. apply andb_true_iff in Hc, Hd. destruct Hc as [Hc Hcr], Hd as [Hd Hdr].
    apply Nat.ltb_lt in Hd. cbn [code_main3 main_names3 flat_map] in *. cbv zeta in *.
    assert (Hnc : forall x, In x (stmt_names2 c) -> In x names /\ nm_find (handle_of_bytes x) T <> None)
      by (intros x Hx; apply Hnames, in_or_app; auto).
    pose proof (top_sim c Hc n g false g1 Hrun pre gv (seg_app_l _ _ _ _ Hseg) Hnc Hd Hrel Hsimp) as [Hs1 H1].
    split; [exact Hs1|]. exact H1.
Qed.

End Run3.

(* ------------------------------------------------------------------ the theorem *)
Theorem compile_correct_f3 F bld M B fuel host o :
  in_f3 M = true ->
  depth_ok3 (main_cards M) = true ->
  compile M default_options = COk B ->
  N.of_nat (length (Compiler.p_ids B)) < two32 ->
  N.of_nat (length (Compiler.p_bytecode B)) < 2147483648 ->
  RefSem.eval_program fuel M host = RefSem.PObs o ->
  exists N0 : nat, forall budget : nat, (N0 <= budget)%nat ->
    let r := Vm.run F bld budget (C15Link.to_vm B) fresh_state in
    vm_kind (fst r) = Some (RefSem.ob_kind o) /\
    forall n, no_collision (main_names3 (main_cards M)) n ->
      option_map vm_tree (read_var_by_name (C15Link.to_vm B) (snd r) n) = RefSem.assoc n (RefSem.ob_globals o).
Proof.
  intros HM Hdepth HB Hlen Hsmall Href.
  destruct (compile_f3_shape M B HM HB Hlen) as (rest & Hbc & Hnames & Tinj & Tlt & Hinj).
  destruct (eval_program_f3 fuel M host o HM Href) as (g & Hrun & Hkind & Hgs & Hglob).
  pose proof (in_f3_cards M HM) as Hcards.
  set (T := Compiler.p_ids B) in *. set (cards := main_cards M) in *. set (names := main_names3 cards) in *.
  set (P := C15Link.to_vm B).
  assert (Hcode : p_code P = encode (code_main3 T 0 cards ++ IExit :: rest)) by exact Hbc.
  assert (Psmall : code_len P < 2147483648) by exact Hsmall.
  assert (Hseg : seg P [] (code_main3 T (bytes []) cards)) by (exists (IExit :: rest); exact Hcode).
  assert (Hnm : forall x, In x (main_names3 cards) -> In x names /\ nm_find (handle_of_bytes x) T <> None)
    by (intros x Hx; split; [exact Hx | apply Hnames, Hx]).
  assert (Hrel0 : grel T names [] []).
  { intros x _. unfold gread. cbn [RefSem.assoc option_map].
    destruct (nm_find (handle_of_bytes x) T) as [id|]; [|reflexivity]. destruct (N.to_nat id); reflexivity. }
  assert (Hread : forall s' gv', st_globals s' = gv' -> grel T names g gv' ->
            forall x, no_collision names x ->
            option_map vm_tree (read_var_by_name P (set_calls s' []) x) = RefSem.assoc x (RefSem.ob_globals o)).
  { intros s' gv' Hg' Hrel x Hx. rewrite Hglob, assoc_map_tree, (Hrel x Hx). f_equal.
    unfold read_var_by_name, gread. cbn [st_globals set_calls]. rewrite Hg', assoc_nm_find. reflexivity. }
  pose proof (cards_sim3 F bld P T names Tlt Tinj Hinj Psmall cards [] _ g Hrun Hcards Hdepth [] []
                         Hseg Hnm Hrel0 (Forall_nil _)) as [_ Hsim].
  change (bytes []) with 0 in Hsim.
  destruct (RefSem.ob_kind o) as [|kk] eqn:Ek.
  - destruct Hsim as (k & gv' & Hsteps & Hrel).
    exists (k + 2)%nat. intros budget Hbud r.
    set (re := run_at F bld P false (N.of_nat budget) 129).
    set (s2 := set_rem (set_calls fresh_state calls0) (N.of_nat budget)).
    assert (Hr : r = finish P (loop F bld P re budget 0 s2)).
    { subst r. unfold run, run_gen.
      change (push_frame fresh_state (mkFrame 0 0 0 None)) with (Some (set_calls fresh_state calls0)).
      change max_depth with (S 129). cbv beta iota zeta. rewrite run_at_S. cbn [st_rem set_rem]. rewrite Nat2N.id. reflexivity. }
    clearbody r. subst r.
    pose proof (St_entry (N.of_nat budget)) as HS2. fold s2 in HS2.
    destruct (loop_steps re Hsteps (budget - k) HS2) as (s' & HS' & El); [cbn [fst snd]; lia|].
    cbn [fst snd] in HS', El. replace (k + (budget - k))%nat with budget in El by lia.
    assert (Hex : code_at P (bytes (code_main3 T 0 cards)) IExit) by (eapply code_at_encode; exact Hcode).
    replace (budget - k)%nat with (S (budget - k - 1)) in El by lia.
    destruct (loop_exit F bld re (budget - k - 1) HS' Hex) as (s'' & Eex & _ & Hg''); [lia|].
    cbn [app] in El. rewrite Eex in El.
    rewrite El. cbn [finish outcome_of fst snd vm_kind]. split; [reflexivity|].
    eapply Hread; eauto.
  - destruct Hkind as [Hk|Hk]; [discriminate|]. injection Hk as ->.
    destruct Hsim as (k & c1 & nm & Hsteps & Herr & Hrel).
    exists (k + 2)%nat. intros budget Hbud r.
    set (re := run_at F bld P false (N.of_nat budget) 129).
    set (s2 := set_rem (set_calls fresh_state calls0) (N.of_nat budget)).
    assert (Hr : r = finish P (loop F bld P re budget 0 s2)).
    { subst r. unfold run, run_gen.
      change (push_frame fresh_state (mkFrame 0 0 0 None)) with (Some (set_calls fresh_state calls0)).
      change max_depth with (S 129). cbv beta iota zeta. rewrite run_at_S. cbn [st_rem set_rem]. rewrite Nat2N.id. reflexivity. }
    clearbody r. subst r.
    pose proof (St_entry (N.of_nat budget)) as HS2. fold s2 in HS2.
    destruct (loop_steps re Hsteps (budget - k) HS2) as (s' & HS' & El); [cbn [fst snd]; lia|].
    cbn [fst snd] in El. replace (k + (budget - k))%nat with budget in El by lia.
    replace (budget - k)%nat with (S (budget - k - 1)) in El by lia.
    destruct (@loop_err F bld P _ _ _ _ _ re (budget - k - 1) c1 _ s' _ Herr HS') as (s'' & Eerr & Hg''); [lia|].
    rewrite Eerr in El.
    rewrite El. cbn [finish outcome_of fst snd vm_kind kind_of_err]. split; [reflexivity|].
    eapply Hread; eauto.
Qed.
