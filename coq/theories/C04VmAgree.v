(* C04 - "running is total", Part G.2: a run of the VM on which the checked VM reports no failed check IS the checked
   run.  The natives and the dispatch loop are parametric in the nested run; a stop with AUnmodelled is handed
   upwards unchanged by every native and every loop, so a checked run that does not end in it never saw it. *)
From Coq Require Import NArith ZArith List Lia Bool.
From Cao Require Import ListUtil Bits Stacks Vm VmProofs C04VmProofs C04VmChecked.
Import ListNotations.

Definition rU (r : rres) : Prop := match r with RStop a _ => a <> AUnmodelled | _ => True end.
Definition nU (r : nres) : Prop := match r with NStop a _ => a <> AUnmodelled | _ => True end.
Definition sU (r : sres) : Prop := match r with SStop a _ => a <> AUnmodelled | _ => True end.

Section Agree.
Variable F : fops.
Variable bld : build.
Variable P : program.

Section Natives.
(* [re'] the nested run of the checked VM, [re] that of the VM *)
Variable re re' : N -> state -> rres.
Hypothesis Hre : forall ip s, rU (re' ip s) -> re ip s = re' ip s.

Section RF.
Variable cn cn' : N -> state -> nres.
Hypothesis Hcn : forall h s, nU (cn' h s) -> cn h s = cn' h s.

Lemma run_function_agree fv s : nU (run_function P re' cn' fv s) ->
  run_function P re cn fv s = run_function P re' cn' fv s.
Proof.
  unfold run_function. destruct fv as [| | |a]; try reflexivity.
  destruct (hget (st_heap s) a) as [o|]; [|reflexivity].
  assert (Hgo : forall arity label clo,
    nU (if (code_len P =? 0)%N then NStop APanic s
      else match assoc label (p_labels P) with
           | None => NErr (EProcedureNotFound label) s
           | Some src =>
               let len := N.of_nat (scount s) in
               if (len <? arity)%N then NErr EMissingArgument s
               else let f := mkFrame src (last_pos P) (len - arity) clo in
                    match push_frame s f with
                    | None => NErr ECallStackOverflow s
                    | Some s1 =>
                        match push_frame s1 f with
                        | None => NErr ECallStackOverflow s
                        | Some s2 =>
                            let depth := length (st_calls s) in
                            let unwind (x : state) := set_calls x (skipn (length (st_calls x) - depth) (st_calls x)) in
                            match re' src s2 with
                            | ROk s3 => let '(s5, v) := spop (unwind s3) in NOk v s5
                            | RErr e _ s3 => NErr e (unwind s3)
                            | RStop ab s3 => NStop ab s3
                            end
                        end
                    end
           end) ->
    (if (code_len P =? 0)%N then NStop APanic s
      else match assoc label (p_labels P) with
           | None => NErr (EProcedureNotFound label) s
           | Some src =>
               let len := N.of_nat (scount s) in
               if (len <? arity)%N then NErr EMissingArgument s
               else let f := mkFrame src (last_pos P) (len - arity) clo in
                    match push_frame s f with
                    | None => NErr ECallStackOverflow s
                    | Some s1 =>
                        match push_frame s1 f with
                        | None => NErr ECallStackOverflow s
                        | Some s2 =>
                            let depth := length (st_calls s) in
                            let unwind (x : state) := set_calls x (skipn (length (st_calls x) - depth) (st_calls x)) in
                            match re src s2 with
                            | ROk s3 => let '(s5, v) := spop (unwind s3) in NOk v s5
                            | RErr e _ s3 => NErr e (unwind s3)
                            | RStop ab s3 => NStop ab s3
                            end
                        end
                    end
           end) =
    (if (code_len P =? 0)%N then NStop APanic s
      else match assoc label (p_labels P) with
           | None => NErr (EProcedureNotFound label) s
           | Some src =>
               let len := N.of_nat (scount s) in
               if (len <? arity)%N then NErr EMissingArgument s
               else let f := mkFrame src (last_pos P) (len - arity) clo in
                    match push_frame s f with
                    | None => NErr ECallStackOverflow s
                    | Some s1 =>
                        match push_frame s1 f with
                        | None => NErr ECallStackOverflow s
                        | Some s2 =>
                            let depth := length (st_calls s) in
                            let unwind (x : state) := set_calls x (skipn (length (st_calls x) - depth) (st_calls x)) in
                            match re' src s2 with
                            | ROk s3 => let '(s5, v) := spop (unwind s3) in NOk v s5
                            | RErr e _ s3 => NErr e (unwind s3)
                            | RStop ab s3 => NStop ab s3
                            end
                        end
                    end
           end)).
  { intros arity label clo. destruct (code_len P =? 0)%N; [reflexivity|].
    destruct (assoc label (p_labels P)) as [src|]; [|reflexivity]. cbv zeta.
    destruct (_ <? arity)%N; [reflexivity|]. destruct (push_frame s _) as [s1|]; [|reflexivity].
    destruct (push_frame s1 _) as [s2|]; [|reflexivity].
    intros HU. rewrite (Hre src s2); [reflexivity|].
    destruct (re' src s2); cbn [rU]; try exact I. exact HU. }
  destruct o; try reflexivity; try apply Hgo.
  intros HU. rewrite (Hcn h s); [reflexivity|].
  destruct (cn' h s) as [v s1| |]; cbn [nU]; try exact I. exact HU.
Qed.
End RF.

Section Self.
Variable self self' : N -> state -> nres.
Hypothesis Hself : forall h s, nU (self' h s) -> self h s = self' h s.

Local Notation rf := (run_function P re self).
Local Notation rf' := (run_function P re' self').
Lemma rf_agree fv s : nU (rf' fv s) -> rf fv s = rf' fv s.
Proof. apply run_function_agree. exact Hself. Qed.

Definition mmU (r : mmres) : Prop := match r with MMFail r => nU r | MMOk _ _ => True end.

Lemma minmax_go_agree less key_fn : forall l j i best s,
  mmU (minmax_go F P re' self' less key_fn l j i best s) ->
  minmax_go F P re self less key_fn l j i best s = minmax_go F P re' self' less key_fn l j i best s.
Proof.
  induction l as [|[k v] rest IH]; intros j i best s HU; cbn [minmax_go] in *; [reflexivity|].
  destruct (spush s v) as [s1|]; [|reflexivity]. destruct (spush s1 k) as [s2|]; [|reflexivity].
  destruct (rf' key_fn s2) as [key s3|e s3|a s3] eqn:E.
  - rewrite (rf_agree key_fn s2) by (rewrite E; exact I). rewrite E.
    destruct (vcmp F (st_heap s3) key best) as [c| |]; [| |reflexivity].
    + destruct (match c with Lt => less | Gt => negb less | Eq => false end); apply IH; exact HU.
    + apply IH; exact HU.
  - rewrite (rf_agree key_fn s2) by (rewrite E; exact I). rewrite E. reflexivity.
  - rewrite (rf_agree key_fn s2) by (rewrite E; exact HU). rewrite E. reflexivity.
Qed.

Lemma native_minmax_agree less it kf s : nU (native_minmax F P re' self' less it kf s) ->
  native_minmax F P re self less it kf s = native_minmax F P re' self' less it kf s.
Proof.
  unfold native_minmax. destruct it as [| | |a]; try reflexivity.
  destruct (hget (st_heap s) a) as [[t| | | | |]|]; try reflexivity.
  destruct (snapshot F s t) as [[s0 entries]|]; [|reflexivity].
  destruct (titer _ entries) as [[|[k0 v0] rest]|]; try reflexivity.
  destruct (spush s0 v0) as [s1|]; [|reflexivity]. destruct (spush s1 k0) as [s2|]; [|reflexivity].
  intros HU. destruct (rf' kf s2) as [key0 s3|e s3|a' s3] eqn:E.
  - rewrite (rf_agree kf s2) by (rewrite E; exact I). rewrite E.
    rewrite minmax_go_agree; [reflexivity|].
    destruct (minmax_go F P re' self' less kf rest 1 0 key0 s3); [exact I | exact HU].
  - rewrite (rf_agree kf s2) by (rewrite E; exact I). rewrite E. reflexivity.
  - rewrite (rf_agree kf s2) by (rewrite E; exact HU). rewrite E. reflexivity.
Qed.

Definition skU (r : skres) : Prop := match r with SKFail r => nU r | SKOk _ _ => True end.

Lemma sort_keys_agree key_fn : forall l s,
  skU (sort_keys P re' self' key_fn l s) -> sort_keys P re self key_fn l s = sort_keys P re' self' key_fn l s.
Proof.
  induction l as [|[k v] rest IH]; intros s HU; cbn [sort_keys] in *; [reflexivity|].
  destruct (spush s v) as [s1|]; [|reflexivity]. destruct (spush s1 k) as [s2|]; [|reflexivity].
  destruct (rf' key_fn s2) as [key s3|e s3|a s3] eqn:E.
  - rewrite (rf_agree key_fn s2) by (rewrite E; exact I). rewrite E.
    rewrite IH; [reflexivity|]. destruct (sort_keys P re' self' key_fn rest s3); [exact I | exact HU].
  - rewrite (rf_agree key_fn s2) by (rewrite E; exact I). rewrite E. reflexivity.
  - rewrite (rf_agree key_fn s2) by (rewrite E; exact HU). rewrite E. reflexivity.
Qed.

Lemma native_sorted_agree it kf s : nU (native_sorted F P re' self' it kf s) ->
  native_sorted F P re self it kf s = native_sorted F P re' self' it kf s.
Proof.
  unfold native_sorted. destruct it as [| | |a]; try reflexivity.
  destruct (hget (st_heap s) a) as [[t| | | | |]|]; try reflexivity.
  destruct (snapshot F s t) as [[s0 entries]|]; [|reflexivity].
  destruct (titer _ entries) as [l|]; [|reflexivity].
  intros HU. rewrite sort_keys_agree; [reflexivity|].
  destruct (sort_keys P re' self' kf l s0); [exact I | exact HU].
Qed.

Lemma native_body_agree n s : nU (native_body F P re' self' n s) ->
  native_body F P re self n s = native_body F P re' self' n s.
Proof.
  destruct n; cbn [native_body]; cbv zeta; try reflexivity.
  - (* call1 *) destruct (spush s (speek s 0)) as [s1|]; [|reflexivity]. apply rf_agree.
  - (* try1 *) destruct (spush s (speek s 0)) as [s1|]; [|reflexivity]. intros HU.
    rewrite rf_agree; [reflexivity|]. destruct (rf' (speek s 1) s1); [exact I | exact I | exact HU].
  - (* call0 *) apply rf_agree.
  - (* rb1 *) destruct (spush s (speek s 0)) as [s1|]; [|reflexivity]. intros HU.
    rewrite rf_agree; [reflexivity|]. destruct (rf' (speek s 1) s1); [exact I | exact I | exact HU].
  - apply native_minmax_agree.
  - apply native_minmax_agree.
  - apply native_sorted_agree.
Qed.
End Self.

Lemma call_native_fuel_agree : forall fuel h s, nU (call_native_fuel F P re' fuel h s) ->
  call_native_fuel F P re fuel h s = call_native_fuel F P re' fuel h s.
Proof.
  induction fuel as [|f IH]; intros h s HU; cbn [call_native_fuel] in *; [reflexivity|].
  destruct (find_native h all_natives) as [n|]; [|reflexivity].
  rewrite (native_body_agree _ _ IH n s); [reflexivity|].
  destruct (native_body F P re' (call_native_fuel F P re' f) n s) as [v s1|e s1|a s1]; [exact I | exact I | exact HU].
Qed.

Lemma native_step_agree h ip s : sU (native_step F P re' h ip s) ->
  native_step F P re h ip s = native_step F P re' h ip s.
Proof.
  unfold native_step, call_native. intros HU. rewrite call_native_fuel_agree; [reflexivity|].
  destruct (call_native_fuel F P re' 8 h s); [exact I | exact I | exact HU].
Qed.

Ltac srefl := match goal with |- _ -> ?x = ?x => reflexivity | |- ?x = ?x => reflexivity end.

Lemma step_agree ip0 s : sU (step F bld P re' ip0 s) -> step F bld P re ip0 s = step F bld P re' ip0 s.
Proof.
  unfold step. cbv zeta. destruct (nth (N.to_nat ip0) (p_code P) 255%N) as [|p]; [reflexivity|].
  do 6 (try destruct p as [p|p|]); try srefl.
  - (* CallFunction *)
    unfold i_11. destruct (spop s) as [s1 fv]. destruct fv as [| | |a]; try srefl.
    destruct (hget (st_heap s1) a) as [[| | |h| |]|]; try srefl. apply native_step_agree.
  - (* CallNative *)
    unfold i_4. destruct (op_u32 P (ip0 + 1)); [|srefl]. apply native_step_agree.
Qed.

Lemma step_c_agree ip0 s : sU (step_c F bld P re' ip0 s) -> step F bld P re ip0 s = step_c F bld P re' ip0 s.
Proof.
  unfold step_c. destruct (checks F bld P ip0 s); [apply step_agree|]. cbn [sU]. intros H. congruence.
Qed.

Lemma loop_agree : forall fuel ip s, rU (loop_c F bld P re' fuel ip s) ->
  loop F bld P re fuel ip s = loop_c F bld P re' fuel ip s.
Proof.
  induction fuel as [|f IH]; intros ip s HU; cbn [loop loop_c] in *; [reflexivity|].
  destruct (code_len P <=? ip)%N; [reflexivity|].
  cbn [st_rem set_rem] in *. destruct (N.pred (st_rem s) =? 0)%N; [reflexivity|].
  destruct (step_c F bld P re' ip _) as [ip' s'|s'|e ip' s'|a s'] eqn:E.
  - rewrite step_c_agree by (rewrite E; exact I). rewrite E. apply IH. exact HU.
  - rewrite step_c_agree by (rewrite E; exact I). rewrite E. reflexivity.
  - rewrite step_c_agree by (rewrite E; exact I). rewrite E. reflexivity.
  - rewrite step_c_agree by (rewrite E; exact HU). rewrite E. reflexivity.
Qed.

End Natives.

Theorem run_at_agree mi : forall d ip s, rU (run_at_c F bld P d ip s) ->
  run_at F bld P false mi d ip s = run_at_c F bld P d ip s.
Proof.
  induction d as [|d IH]; intros ip s HU; cbn [run_at run_at_c] in *; [exfalso; apply HU; reflexivity|].
  unfold run_loop. apply loop_agree; [exact IH | exact HU].
Qed.

(* a run on which no check fails is the checked run *)
Theorem run_agrees : forall budget s,
  fst (run_c F bld P budget s) <> OAbort AUnmodelled ->
  run F bld budget P s = run_c F bld P budget s.
Proof.
  intros budget s HU. unfold run, run_gen, run_c in *.
  destruct (push_frame s (mkFrame 0 0 0 None)) as [s1|]; [|reflexivity].
  rewrite run_at_agree; [reflexivity|].
  destruct (run_at_c F bld P max_depth 0 _) as [s'|e ip' s'|a s']; cbn [rU]; try exact I.
  intros ->. apply HU. reflexivity.
Qed.

End Agree.
