(* C01, simulation, fragment F1: compile_correct for programs of expressions and global assignments.
   Glue of the three halves: C01SimComp (what the compiler emits), C01SimVm (what the VM does on it),
   C01SimRef (what the reference semantics says). *)
From Coq Require Import List NArith ZArith Bool Lia.
From Cao Require Import ListUtil CheckUtil Bits CardAst Bytecode Compiler CompilerProofs CompilerWf CompilerResolve.
From Cao Require Import Stacks Vm VmProofs C04VmProofs C15Link.
From Cao Require RefSem.
From Cao Require Import C01SimKeep C01SimVm C01SimDefs C01SimComp C01SimRef.
Import ListNotations.
Local Open Scope N_scope.

(* ------------------------------------------------------------------ operators: VM = reference *)
Lemma i64_result_wrap z : i64_result z = Some (RefSem.wrap64 z).
Proof.
  unfold i64_result, RefSem.wrap64, wrap_i64. destruct (in_i64 z) eqn:E; [|reflexivity].
  unfold in_i64, i64_min, i64_max in E. apply andb_true_iff in E. destruct E as [E1 E2].
  apply Z.leb_le in E1, E2. rewrite i64_roundtrip by lia. reflexivity.
Qed.

Lemma to_vm_bool b : to_vm (RefSem.v_of_bool b) = vbool b.
Proof. reflexivity. Qed.

Lemma vm_binop F h op x y :
  op_f1 op = true -> simple x -> simple y ->
  exists f, binop_sem F (simple_binop op) = Some f /\ f h (to_vm x) (to_vm y) = VOk (to_vm (binval op x y)).
Proof.
  intros Hop Hx Hy.
  destruct op; try discriminate Hop; (eexists; split; [reflexivity|]);
    destruct x; try contradiction; destruct y; try contradiction;
    cbn [to_vm binval simple_binop];
    unfold arith_op, eq_op, less_op, bool_op, veq0, eq_fuel, vcmp, vcmp_cast, cast_match, RefSem.arith;
    cbn [is_real is_int orb to_i64 veq as_bool RefSem.v_is_real RefSem.v_is_int RefSem.v_to_i64
         RefSem.v_cmp RefSem.v_eq RefSem.eq_depth RefSem.v_bool RefSem.v_is_obj andb];
    rewrite ?i64_result_wrap; try reflexivity;
    try (destruct (_ ?= _)%Z; reflexivity);
    try (destruct (_ =? _)%Z; reflexivity).
Qed.

Lemma vm_not F h x : simple x -> as_bool F h (to_vm x) = Some (RefSem.v_bool [] x).
Proof. destruct x; intros []; reflexivity. Qed.

Lemma assoc_nm_find {V} k (l : list (N * V)) : Vm.assoc k l = nm_find k l.
Proof. induction l as [|[k' v] r IH]; cbn; [reflexivity|]. rewrite IH. reflexivity. Qed.

(* ------------------------------------------------------------------ segments of the program *)
Section Run.
Variable F : fops.
Variable bld : build.
Variable P : program.
Variable T : list (N * N).
Variable names : list str.

Hypothesis T_lt : forall h id, nm_find h T = Some id -> id < two32.
Hypothesis T_inj : forall h1 h2 id, nm_find h1 T = Some id -> nm_find h2 T = Some id -> h1 = h2.
Hypothesis names_inj : handles_inj names = true.

Definition seg (pre l : list instr) : Prop := exists post, p_code P = encode (pre ++ l ++ post).

Lemma seg_app_l pre l1 l2 : seg pre (l1 ++ l2) -> seg pre l1.
Proof. intros [post E]. exists (l2 ++ post). rewrite E, <- app_assoc. reflexivity. Qed.
Lemma seg_app_r pre l1 l2 : seg pre (l1 ++ l2) -> seg (pre ++ l1) l2.
Proof. intros [post E]. exists post. rewrite E, <- !app_assoc. reflexivity. Qed.
Lemma seg_instr pre i l : seg pre (i :: l) -> code_at P (bytes pre) i.
Proof. intros [post E]. eapply code_at_encode. rewrite E. cbn [app]. reflexivity. Qed.

Lemma bytes_snoc pre i : bytes (pre ++ [i]) = bytes pre + spanN i.
Proof. rewrite bytes_app. cbn [bytes]. lia. Qed.

Definition cap : nat := stack_size.
Definition calls0 : list frame := [mkFrame 0 0 0 None].
Notation steps' := (steps F bld P cap calls0 (@nil obj) None (@nil (list tval))).
Notation exec_err' := (exec_err F bld P cap calls0 (@nil obj) None (@nil (list tval))).

(* the reference globals (by name) and the VM's (by id, through T) *)
Definition gread (gv : list (option value)) (n : str) : option value :=
  match nm_find (handle_of_bytes n) T with
  | Some id => match nth_error gv (N.to_nat id) with Some o => o | None => None end
  | None => None
  end.
Definition grel (gr : list (str * RefSem.value)) (gv : list (option value)) : Prop :=
  forall n, no_collision names n -> option_map to_vm (RefSem.assoc n gr) = gread gv n.

Definition gsimple (gr : list (str * RefSem.value)) : Prop := Forall (fun nv => simple (snd nv)) gr.

Lemma handles_inj_spec a b :
  In a names -> In b names -> handle_of_bytes a = handle_of_bytes b -> a = b.
Proof.
  intros Ha Hb E. unfold handles_inj in names_inj. rewrite forallb_forall in names_inj.
  specialize (names_inj a Ha). rewrite forallb_forall in names_inj. specialize (names_inj b Hb).
  rewrite E, N.eqb_refl in names_inj. cbn [implb] in names_inj.
  apply (proj1 (list_eqb_spec N.eqb N.eqb_eq a b)) in names_inj. exact names_inj.
Qed.

Lemma no_collision_name n : In n names -> no_collision names n.
Proof. intros Hn g Hg E. apply handles_inj_spec; auto. Qed.

(* ---- expressions ---- *)
Lemma code_expr_length T1 T2 e : length (code_expr T1 e) = length (code_expr T2 e).
Proof.
  induction e; cbn [code_expr]; try reflexivity.
  - rewrite !app_length, IHe1, IHe2. reflexivity.
  - destruct op; try reflexivity. rewrite !app_length, IHe. reflexivity.
Qed.

Definition expr_sim (e : card) : Prop :=
  forall pre stk gr gv,
    seg pre (code_expr T e) ->
    (forall n, In n (expr_names e) -> In n names /\ nm_find (handle_of_bytes n) T <> None) ->
    grel gr gv -> gsimple gr -> (S (length stk + depth e) < cap)%nat ->
    match ev gr e with
    | Some v => steps' (length (code_expr T e)) (bytes pre, stk, gv)
                       (bytes (pre ++ code_expr T e), stk ++ [to_vm v], gv)
    | None => exists k c1 nm, (k < length (code_expr T e))%nat /\ steps' k (bytes pre, stk, gv) c1 /\
                              exec_err' c1 (EVarNotFound nm) /\ snd c1 = gv
    end.

Lemma two32_eq : two32 = 4294967296. Proof. reflexivity. Qed.

Lemma expr_f1_sim e : expr_f1 e = true -> expr_sim e.
Proof.
  induction e; intros He; cbn [expr_f1] in He; try discriminate He;
    intros pre stk gr gv Hseg Hnames Hrel Hsimp Hroom; cbn [code_expr ev depth] in *.
  - (* CBin *)
    apply andb_true_iff in He. destruct He as [He He2]. apply andb_true_iff in He. destruct He as [Hop He1].
    pose proof (seg_app_l _ _ _ Hseg) as Sa.
    pose proof (seg_app_r _ _ _ Hseg) as Sbi.
    pose proof (seg_app_l _ _ _ Sbi) as Sb.
    pose proof (seg_app_r _ _ _ Sbi) as Si.
    assert (Hna : forall n, In n (expr_names e1) -> In n names /\ nm_find (handle_of_bytes n) T <> None)
      by (intros n Hn; apply Hnames, in_or_app; auto).
    assert (Hnb : forall n, In n (expr_names e2) -> In n names /\ nm_find (handle_of_bytes n) T <> None)
      by (intros n Hn; apply Hnames, in_or_app; auto).
    pose proof (IHe1 He1 pre stk gr gv Sa Hna Hrel Hsimp ltac:(lia)) as Ha.
    destruct (ev gr e1) as [x|] eqn:Ex.
    + pose proof (IHe2 He2 (pre ++ code_expr T e1) (stk ++ [to_vm x]) gr gv Sb Hnb Hrel Hsimp
                      ltac:(rewrite app_length; cbn [length]; lia)) as Hb.
      destruct (ev gr e2) as [y|] eqn:Ey.
      * destruct (vm_binop F [] op x y Hop (ev_simple _ _ _ Hsimp Ex) (ev_simple _ _ _ Hsimp Ey)) as (f & Hf & Hv).
        rewrite <- !app_assoc in Si. pose proof (seg_instr _ _ _ Si) as Hc.
        assert (X : exec1 F bld P cap calls0 [] None []
                          (bytes (pre ++ code_expr T e1 ++ code_expr T e2), stk ++ [to_vm x; to_vm y], gv)
                          (bytes (pre ++ code_expr T e1 ++ code_expr T e2) + 1, stk ++ [to_vm (binval op x y)], gv)).
        { eapply ex_binop; eauto. lia. }
        rewrite !app_length. cbn [length].
        eapply steps_trans; [exact Ha|]. rewrite <- !app_assoc in Hb. cbn [app] in Hb.
        eapply steps_trans; [exact Hb|].
        replace (pre ++ code_expr T e1 ++ code_expr T e2 ++ [simple_binop op])
          with ((pre ++ code_expr T e1 ++ code_expr T e2) ++ [simple_binop op])
          by (rewrite <- !app_assoc; reflexivity).
        rewrite bytes_snoc.
        replace (spanN (simple_binop op)) with 1 by (destruct op; try discriminate Hop; reflexivity).
        apply steps_1. exact X.
      * destruct Hb as (k & c1 & nm & Hk & Hst & Herr & Hg).
        exists (length (code_expr T e1) + k)%nat, c1, nm. split; [rewrite !app_length; lia|].
        split; [eapply steps_trans; eauto | auto].
    + destruct Ha as (k & c1 & nm & Hk & Hst & Herr & Hg).
      exists k, c1, nm. split; [rewrite !app_length; lia | auto].
  - (* CUn UNot *)
    destruct op; try discriminate He. cbn [code_expr ev] in *.
    pose proof (seg_app_l _ _ _ Hseg) as Sa. pose proof (seg_app_r _ _ _ Hseg) as Si.
    pose proof (IHe He pre stk gr gv Sa Hnames Hrel Hsimp Hroom) as Ha.
    destruct (ev gr e) as [x|] eqn:Ex.
    + pose proof (seg_instr _ _ _ Si) as Hc.
      rewrite app_length. cbn [length]. eapply steps_trans; [exact Ha|].
      rewrite app_assoc, bytes_snoc. change (spanN INot) with 1.
      apply steps_1. rewrite to_vm_bool.
      eapply ex_not; eauto; [apply vm_not; eapply ev_simple; eauto | lia].
    + destruct Ha as (k & c1 & nm & Hk & Hst & Herr & Hg).
      exists k, c1, nm. split; [rewrite !app_length; lia | auto].
  - (* CScalarNil *)
    pose proof (seg_instr _ _ _ Hseg) as Hc. rewrite bytes_snoc. change (spanN IScalarNil) with 1.
    apply steps_1. eapply ex_scalar_nil; eauto. lia.
  - (* CScalarInt *)
    pose proof (seg_instr _ _ _ Hseg) as Hc. rewrite bytes_snoc. change (spanN (IScalarInt i)) with 9.
    apply steps_1. unfold lit_ok in He. apply andb_true_iff in He. destruct He as [H1 H2].
    apply Z.leb_le in H1. apply Z.ltb_lt in H2.
    eapply ex_scalar_int; eauto; lia.
  - (* CReadVar *)
    pose proof (seg_instr _ _ _ Hseg) as Hc.
    destruct (Hnames name (or_introl eq_refl)) as [Hin Hfound].
    pose proof (Hrel name (no_collision_name _ Hin)) as Hr. unfold gread in Hr.
    unfold idT in *. destruct (nm_find (handle_of_bytes name) T) as [id|] eqn:Eid; [|congruence].
    assert (Hid : id < 4294967296) by (rewrite <- two32_eq; eapply T_lt; eauto).
    destruct (RefSem.assoc name gr) as [v|] eqn:Ea; cbn [option_map] in Hr.
    + rewrite bytes_snoc. change (spanN (IReadGlobalVar id)) with 5.
      apply steps_1. eapply ex_read_global; eauto; [|lia].
      destruct (nth_error gv (N.to_nat id)) as [[w|]|]; congruence.
    + destruct (@ex_read_global_err F bld P cap calls0 [] None [] (bytes pre) id stk gv Hc Hid) as [nm Herr].
      { intros w Hw. rewrite Hw in Hr. discriminate. }
      exists 0%nat, (bytes pre, stk, gv), (Some nm). split; [cbn; lia|]. split; [constructor | auto].
Qed.

(* ---- statements ---- *)
Lemma nth_error_gset_same g id v : nth_error (gset g id v) (N.to_nat id) = Some (Some v).
Proof.
  unfold gset. set (i := N.to_nat id).
  set (g' := if (length g <=? i)%nat then g ++ repeat None (S i - length g) else g).
  assert (Hl : (i < length g')%nat).
  { subst g'. destruct (Nat.leb_spec (length g) i); [rewrite app_length, repeat_length|]; lia. }
  destruct (nth_error g' i) as [x|] eqn:E; [|apply nth_error_None in E; lia].
  eapply nth_error_upd_same; eauto.
Qed.


Lemma gset_other g id v j :
  j <> N.to_nat id ->
  match nth_error (gset g id v) j with Some o => o | None => None end =
  match nth_error g j with Some o => o | None => None end.
Proof.
  intros Hj. unfold gset. rewrite nth_error_upd_other by lia.
  destruct (length g <=? N.to_nat id)%nat; [|reflexivity].
  destruct (Nat.lt_ge_cases j (length g)) as [H|H].
  - rewrite nth_error_app1 by exact H. reflexivity.
  - rewrite nth_error_app2 by exact H. rewrite (proj2 (nth_error_None g j)) by exact H.
    destruct (nth_error (repeat None _) (j - length g)) as [o|] eqn:E; [|reflexivity].
    apply nth_error_In, repeat_spec in E. exact E.
Qed.

Lemma assoc_set_assoc_same n (v : RefSem.value) g : RefSem.assoc n (RefSem.set_assoc n v g) = Some v.
Proof.
  induction g as [|[k x] r IH]; cbn [RefSem.set_assoc RefSem.assoc].
  - unfold RefSem.str_eqb. destruct (TableProofs.bytes_eqb_spec n n); [reflexivity | congruence].
  - destruct (RefSem.str_eqb n k) eqn:E; cbn [RefSem.assoc]; rewrite E; [reflexivity | exact IH].
Qed.
Lemma assoc_set_assoc_other n m (v : RefSem.value) g : n <> m -> RefSem.assoc n (RefSem.set_assoc m v g) = RefSem.assoc n g.
Proof.
  intros Hne. induction g as [|[k x] r IH]; cbn [RefSem.set_assoc RefSem.assoc].
  - unfold RefSem.str_eqb. destruct (TableProofs.bytes_eqb_spec n m); [congruence | reflexivity].
  - destruct (RefSem.str_eqb m k) eqn:E; cbn [RefSem.assoc].
    + unfold RefSem.str_eqb in *. destruct (TableProofs.bytes_eqb_spec m k); [|discriminate]. subst k.
      destruct (TableProofs.bytes_eqb_spec n m); [congruence | reflexivity].
    + rewrite IH. reflexivity.
Qed.

Lemma grel_set gr gv g id v :
  In g names -> nm_find (handle_of_bytes g) T = Some id -> grel gr gv ->
  grel (RefSem.set_assoc g v gr) (gset gv id (to_vm v)).
Proof.
  intros Hg Hid Hrel n Hn. unfold gread.
  destruct (list_eq_dec N.eq_dec n g) as [->|Hne].
  - rewrite assoc_set_assoc_same, Hid, nth_error_gset_same. reflexivity.
  - rewrite assoc_set_assoc_other by exact Hne. rewrite (Hrel n Hn). unfold gread.
    destruct (nm_find (handle_of_bytes n) T) as [idn|] eqn:En; [|reflexivity].
    symmetry. apply gset_other. intros E. apply N2Nat.inj in E. subst idn.
    apply Hne, Hn; [exact Hg|]. eapply T_inj; eauto.
Qed.

Definition cards_sim_res (pre : list instr) (cards : list card) (gr : list (str * RefSem.value)) (gv : list (option value)) : Prop :=
  let '(okf, gr') := run_cards gr cards in
  gsimple gr' /\
  if okf then
    exists gv', steps' (length (code_main T cards)) (bytes pre, [], gv) (bytes (pre ++ code_main T cards), [], gv') /\
                grel gr' gv'
  else
    exists k c1 nm, (k < length (code_main T cards))%nat /\ steps' k (bytes pre, [], gv) c1 /\
                    exec_err' c1 (EVarNotFound nm) /\ grel gr' (snd c1).

Lemma cards_sim cards : forallb stmt_f1 cards = true -> depth_ok cards = true ->
  forall pre gr gv,
    seg pre (code_main T cards) ->
    (forall n, In n (main_names cards) -> In n names /\ nm_find (handle_of_bytes n) T <> None) ->
    grel gr gv -> gsimple gr -> cards_sim_res pre cards gr gv.
Proof.
  induction cards as [|c r IH]; intros Hc Hd pre gr gv Hseg Hnames Hrel Hsimp; unfold cards_sim_res.
  - cbn [run_cards code_main flat_map length]. split; [exact Hsimp|]. exists gv. rewrite app_nil_r. split; [constructor | exact Hrel].
  - cbn [forallb depth_ok] in Hc, Hd. apply andb_true_iff in Hc, Hd. destruct Hc as [Hc Hcr], Hd as [Hd Hdr].
    apply Nat.ltb_lt in Hd.
    cbn [code_main flat_map main_names] in *. fold (code_main T r) in *. fold (main_names r) in *.
    assert (Hnr : forall n, In n (main_names r) -> In n names /\ nm_find (handle_of_bytes n) T <> None)
      by (intros n Hn; apply Hnames, in_or_app; auto).
    destruct c; try discriminate Hc; cbn [stmt_f1 code_stmt stmt_names stmt_depth run_cards] in *.
    + (* Comment *)
      cbn [app] in *. apply (IH Hcr Hdr pre gr gv Hseg Hnr Hrel Hsimp).
    + (* SetGlobalVar *)
      apply andb_true_iff in Hc. destruct Hc as [Hne He].
      pose proof (seg_app_l _ _ _ Hseg) as Ss. pose proof (seg_app_r _ _ _ Hseg) as Sr.
      pose proof (seg_app_l _ _ _ Ss) as Se. pose proof (seg_app_r _ _ _ Ss) as Si.
      assert (Hne' : forall n, In n (expr_names c) -> In n names /\ nm_find (handle_of_bytes n) T <> None).
      { intros n Hn. apply Hnames. apply in_or_app. left. apply in_or_app. auto. }
      destruct (Hnames name) as [Hgin Hgfound]; [apply in_or_app; left; apply in_or_app; right; left; reflexivity|].
      pose proof (expr_f1_sim c He pre [] gr gv Se Hne' Hrel Hsimp ltac:(cbn [length]; unfold cap; lia)) as Hex.
      destruct (ev gr c) as [v|] eqn:Ev.
      * assert (Hv : simple v) by (eapply ev_simple; eauto).
        unfold idT in *. destruct (nm_find (handle_of_bytes name) T) as [id|] eqn:Eid; [|congruence].
        assert (Hid : id < 4294967296) by (rewrite <- two32_eq; eapply T_lt; eauto).
        pose proof (seg_instr _ _ _ Si) as Hci.
        pose proof (@ex_set_global F bld P cap calls0 [] None [] _ id [] (to_vm v) gv Hci Hid) as Hset.
        assert (Hrel' : grel (RefSem.set_assoc name v gr) (gset gv id (to_vm v))) by (apply grel_set; auto).
        assert (Hsimp' : gsimple (RefSem.set_assoc name v gr)) by (apply set_assoc_simple; auto).
        pose proof (IH Hcr Hdr ((pre ++ code_expr T c ++ [ISetGlobalVar id])) _ _ Sr Hnr Hrel' Hsimp') as Hrest.
        unfold cards_sim_res in Hrest.
        destruct (run_cards (RefSem.set_assoc name v gr) r) as [okf gr'].
        destruct Hrest as [Hs' Hrest]. split; [exact Hs'|].
        assert (Hhead : steps' (length (code_expr T c) + 1) (bytes pre, [], gv)
                               (bytes (pre ++ code_expr T c ++ [ISetGlobalVar id]), [], gset gv id (to_vm v))).
        { eapply steps_trans; [exact Hex|]. apply steps_1.
          rewrite app_assoc, bytes_snoc. change (spanN (ISetGlobalVar id)) with 5. exact Hset. }
        destruct okf.
        -- destruct Hrest as (gv' & Hst & Hr'). exists gv'. split; [|exact Hr'].
           rewrite !app_length. cbn [length]. rewrite <- app_assoc in Hst.
           replace (length (code_expr T c) + 1 + length (code_main T r))%nat
             with ((length (code_expr T c) + 1) + length (code_main T r))%nat by lia.
           eapply steps_trans; [exact Hhead|]. rewrite <- !app_assoc. rewrite <- !app_assoc in Hst. exact Hst.
        -- destruct Hrest as (k & c1 & nm & Hk & Hst & Herr & Hr').
           exists ((length (code_expr T c) + 1) + k)%nat, c1, nm.
           split; [rewrite !app_length; cbn [length]; lia|]. split; [eapply steps_trans; eauto | auto].
      * split; [exact Hsimp|]. destruct Hex as (k & c1 & nm & Hk & Hst & Herr & Hg).
        exists k, c1, nm. split; [rewrite !app_length; lia|]. split; [exact Hst|]. split; [exact Herr|].
        rewrite Hg. exact Hrel.
Qed.

End Run.

(* ------------------------------------------------------------------ the theorem *)
Lemma code_main_length T1 T2 cards : length (code_main T1 cards) = length (code_main T2 cards).
Proof.
  induction cards as [|c r IH]; cbn [code_main flat_map]; [reflexivity|].
  fold (code_main T1 r). fold (code_main T2 r). rewrite !app_length, IH. f_equal.
  destruct c; cbn [code_stmt]; try reflexivity. rewrite !app_length, (code_expr_length T1 T2). reflexivity.
Qed.

Lemma assoc_map_tree n g :
  RefSem.assoc n (map (fun nv : str * RefSem.value => (fst nv, vm_tree (to_vm (snd nv)))) g) =
  option_map vm_tree (option_map to_vm (RefSem.assoc n g)).
Proof.
  induction g as [|[k v] r IH]; cbn [map RefSem.assoc fst snd]; [reflexivity|].
  destruct (RefSem.str_eqb n k); [reflexivity | exact IH].
Qed.

Lemma run_at_S F bld P mi d ip s :
  run_at F bld P false mi (S d) ip s = loop F bld P (run_at F bld P false mi d) (N.to_nat (st_rem s)) ip s.
Proof. reflexivity. Qed.

Lemma St_entry budget :
  St cap calls0 [] None [] (set_rem (set_calls fresh_state calls0) budget) [] [] budget.
Proof.
  unfold St, stack_ok, stack_of, vs_inv, vs_abs, fresh_state, cap. cbn.
  repeat split; auto. unfold stack_size. lia.
Qed.

Theorem compile_correct_f1 F bld M B fuel host o budget :
  in_f1 M = true ->
  depth_ok (main_cards M) = true ->
  compile M default_options = COk B ->
  N.of_nat (length (Compiler.p_ids B)) < two32 ->
  RefSem.eval_program fuel M host = RefSem.PObs o ->
  (needed_f1 M <= budget)%nat ->
  let r := Vm.run F bld budget (C15Link.to_vm B) fresh_state in
  vm_kind (fst r) = Some (RefSem.ob_kind o) /\
  forall n, no_collision (main_names (main_cards M)) n ->
    option_map vm_tree (read_var_by_name (C15Link.to_vm B) (snd r) n) = RefSem.assoc n (RefSem.ob_globals o).
Proof.
  intros HM Hdepth HB Hlen Href Hbud.
  destruct (compile_f1_shape M B HM HB Hlen) as (rest & Hbc & Hnames & Tinj & Tlt & Hinj).
  destruct (eval_program_f1 fuel M host o HM Href) as (g & Hrun & Hkind & Hgs & Hglob).
  pose proof (in_f1_cards M HM) as Hcards.
  set (T := Compiler.p_ids B) in *. set (cards := main_cards M) in *. set (names := main_names cards) in *.
  set (P := C15Link.to_vm B).
  assert (Hcode : p_code P = encode (code_main T cards ++ IExit :: rest)) by exact Hbc.
  set (n := length (code_main T cards)).
  assert (Hn : (n + 2 <= budget)%nat).
  { unfold needed_f1 in Hbud. fold cards in Hbud. rewrite (code_main_length [] T) in Hbud. fold n in Hbud. lia. }
  (* entry of the run *)
  intros r.
  set (re := run_at F bld P false (N.of_nat budget) 129).
  set (s2 := set_rem (set_calls fresh_state calls0) (N.of_nat budget)).
  assert (Hr : r = finish P (loop F bld P re budget 0 s2)).
  { subst r. unfold run, run_gen.
    change (push_frame fresh_state (mkFrame 0 0 0 None)) with (Some (set_calls fresh_state calls0)).
    change max_depth with (S 129). cbv beta iota zeta. rewrite run_at_S. cbn [st_rem set_rem]. rewrite Nat2N.id. reflexivity. }
  clearbody r. subst r.
  pose proof (St_entry (N.of_nat budget)) as HS2. fold s2 in HS2.
  (* the simulation of main *)
  assert (Hseg : seg P [] (code_main T cards)) by (exists (IExit :: rest); exact Hcode).
  assert (Hnm : forall x, In x (main_names cards) -> In x names /\ nm_find (handle_of_bytes x) T <> None)
    by (intros x Hx; split; [exact Hx | apply Hnames, Hx]).
  assert (Hrel0 : grel T names [] []).
  { intros x _. unfold gread. cbn [RefSem.assoc option_map].
    destruct (nm_find (handle_of_bytes x) T) as [id|]; [|reflexivity]. destruct (N.to_nat id); reflexivity. }
  pose proof (cards_sim F bld P T names Tlt Tinj Hinj cards Hcards Hdepth [] [] [] Hseg Hnm Hrel0 (Forall_nil _)) as Hsim.
  unfold cards_sim_res in Hsim. rewrite Hrun in Hsim. destruct Hsim as [_ Hsim].
  assert (Hread : forall s' gv', st_globals s' = gv' -> grel T names g gv' ->
            forall x, no_collision names x ->
            option_map vm_tree (read_var_by_name P (set_calls s' []) x) = RefSem.assoc x (RefSem.ob_globals o)).
  { intros s' gv' Hg' Hrel x Hx. rewrite Hglob, assoc_map_tree, (Hrel x Hx). f_equal.
    unfold read_var_by_name, gread. cbn [st_globals set_calls]. rewrite Hg', assoc_nm_find. reflexivity. }
  change (bytes []) with 0 in Hsim.
  destruct (RefSem.ob_kind o) as [|k] eqn:Ek.
  - (* all cards ran *)
    destruct Hsim as (gv' & Hsteps & Hrel). fold n in Hsteps.
    destruct (loop_steps re Hsteps (budget - n) HS2) as (s' & HS' & El); [cbn [fst snd]; lia|].
    cbn [fst snd] in HS', El. replace (n + (budget - n))%nat with budget in El by lia.
    assert (Hex : code_at P (bytes (code_main T cards)) IExit) by (eapply code_at_encode; exact Hcode).
    replace (budget - n)%nat with (S (budget - n - 1)) in El by lia.
    destruct (loop_exit F bld re (budget - n - 1) HS' Hex) as (s'' & Eex & _ & Hg''); [lia|].
    cbn [app] in El. rewrite Eex in El.
    rewrite El. cbn [finish outcome_of fst snd vm_kind]. split; [reflexivity|].
    eapply Hread; eauto.
  - (* a global that was never assigned was read *)
    destruct Hkind as [Hk|Hk]; [discriminate|]. injection Hk as ->.
    destruct Hsim as (k & c1 & nm & Hk & Hsteps & Herr & Hrel).
    destruct (loop_steps re Hsteps (budget - k) HS2) as (s' & HS' & El); [cbn [fst snd]; fold n in Hk; lia|].
    cbn [fst snd] in El. replace (k + (budget - k))%nat with budget in El by (fold n in Hk; lia).
    replace (budget - k)%nat with (S (budget - k - 1)) in El by (fold n in Hk; lia).
    destruct (@loop_err F bld P _ _ _ _ _ re (budget - k - 1) c1 _ s' _ Herr HS') as (s'' & Eerr & Hg''); [fold n in Hk; lia|].
    rewrite Eerr in El.
    rewrite El. cbn [finish outcome_of fst snd vm_kind kind_of_err]. split; [reflexivity|].
    eapply Hread; eauto.
Qed.
