(* Specification of the module editing API (C16): a plain rose-tree edit model.
   A card is a node with a label (kind + payload) and a list of children; a function body is a
   node too (label [LBody], shape Vec), so a CardIndex (f, indices) is simply the path [indices]
   below the f-th body.  Each label has a shape:
     Fixed     the children are fixed slots: insert = overwrite, remove = leave a placeholder
     Vec       the children are a list: insert/remove shift the later siblings
     FnArgs    slot 0 (the callee of a dynamic call) is fixed, positions >= 1 are a list
   Nothing here looks at the kind-by-kind functions of CardEdit.v: the only kind-by-kind definition
   is the abstraction [to_rose] (which children a card has, in which order).
   Executable definitions only; the laws are in CardEditProofs.v. *)
From Cao Require Import ListUtil CheckUtil CardAst CardEdit.
From Coq Require Import NArith ZArith.

Inductive label :=
| LBin (o : binop) | LUn (o : unop) | LTri (o : triop)
| LNil | LCreateTable | LAbort
| LInt (i : Z) | LFloat (bits : N) | LStr (s : str) | LComment (s : str)
| LFunction (s : str) | LNativeFunction (s : str) | LReadVar (s : str)
| LCallNative (s : str) | LCall (s : str) | LDynamicCall
| LSetGlobalVar (s : str) | LSetVar (s : str)
| LRepeat (i : option str) | LForEach (i k v : option str)
| LComposite (ty : str) | LArray | LClosure (args : list str)
| LBody (name : str) (args : list str).

Inductive rose := RNode (l : label) (kids : list rose).

Definition rlabel (r : rose) : label := match r with RNode l _ => l end.
Definition rkids (r : rose) : list rose := match r with RNode _ k => k end.

Inductive shape := ShFixed | ShVec | ShFnArgs.

Definition shape_of (l : label) : shape :=
  match l with
  | LCallNative _ | LCall _ | LComposite _ | LArray | LClosure _ | LBody _ _ => ShVec
  | LDynamicCall => ShFnArgs
  | _ => ShFixed
  end.

(* is child position [i] of a node labelled [l] a position of a list? *)
Definition list_pos (l : label) (i : nat) : bool :=
  match shape_of l with
  | ShVec => true
  | ShFixed => false
  | ShFnArgs => 1 <=? i
  end.

(* what `remove` leaves in a fixed slot *)
Definition placeholder (l : label) (i : nat) : rose :=
  match l, i with
  | LRepeat _, 0 => RNode (LInt 0) []
  | _, _ => RNode LNil []
  end.

(* ---- abstraction --------------------------------------------------------------------------- *)

Fixpoint to_rose (c : card) : rose :=
  let fix go (l : list card) : list rose :=
      match l with [] => [] | x :: t => to_rose x :: go t end in
  match c with
  | CBin o a b => RNode (LBin o) [to_rose a; to_rose b]
  | CUn o a => RNode (LUn o) [to_rose a]
  | CTri o a b c' => RNode (LTri o) [to_rose a; to_rose b; to_rose c']
  | CScalarNil => RNode LNil []
  | CCreateTable => RNode LCreateTable []
  | CAbort => RNode LAbort []
  | CScalarInt i => RNode (LInt i) []
  | CScalarFloat b => RNode (LFloat b) []
  | CStringLiteral s => RNode (LStr s) []
  | CComment s => RNode (LComment s) []
  | CFunction s => RNode (LFunction s) []
  | CNativeFunction s => RNode (LNativeFunction s) []
  | CReadVar s => RNode (LReadVar s) []
  | CCallNative s args => RNode (LCallNative s) (go args)
  | CCall s args => RNode (LCall s) (go args)
  | CDynamicCall f args => RNode LDynamicCall (to_rose f :: go args)
  | CSetGlobalVar s v => RNode (LSetGlobalVar s) [to_rose v]
  | CSetVar s v => RNode (LSetVar s) [to_rose v]
  | CRepeat i n body => RNode (LRepeat i) [to_rose n; to_rose body]
  | CForEach i k v it body => RNode (LForEach i k v) [to_rose it; to_rose body]
  | CComposite ty cards => RNode (LComposite ty) (go cards)
  | CArray cards => RNode LArray (go cards)
  | CClosure args cards => RNode (LClosure args) (go cards)
  end.

Record rmodule := { rm_subs : list (str * module); rm_fns : list rose; rm_imports : list str }.

Definition body_rose (nf : str * function) : rose :=
  RNode (LBody (fst nf) (f_args (snd nf))) (map to_rose (f_cards (snd nf))).

Definition to_rmod (m : module) : rmodule :=
  {| rm_subs := m_submodules m; rm_fns := map body_rose (m_functions m); rm_imports := m_imports m |}.

(* ---- paths --------------------------------------------------------------------------------- *)

(* [SMiss p]: the p-th element of the index (counted from 0) names a child that does not exist *)
Inductive sres (A : Type) := SOk (a : A) | SMiss (pos : nat).
Arguments SOk {A} a.
Arguments SMiss {A} pos.

Fixpoint rget (path : list nat) (pos : nat) (r : rose) : sres rose :=
  match path with
  | [] => SOk r
  | i :: p =>
      match nth_error (rkids r) i with
      | None => SMiss pos
      | Some ch => rget p (S pos) ch
      end
  end.

(* apply the local edit [k] to the node at [path]; all other nodes stay as they are *)
Fixpoint rmodify {A} (path : list nat) (pos : nat) (k : rose -> option (rose * A)) (r : rose)
  : sres (rose * A) :=
  match path with
  | [] => match k r with Some x => SOk x | None => SMiss pos end
  | i :: p =>
      match nth_error (rkids r) i with
      | None => SMiss pos
      | Some ch =>
          match rmodify p (S pos) k ch with
          | SOk (ch', a) => SOk (RNode (rlabel r) (upd (rkids r) i ch'), a)
          | SMiss q => SMiss q
          end
      end
  end.

Definition node_replace (x : rose) (r : rose) : option (rose * rose) := Some (x, r).

Definition node_insert (x : rose) (i : nat) (r : rose) : option (rose * unit) :=
  match r with
  | RNode l kids =>
      if list_pos l i
      then (if i <=? length kids then Some (RNode l (insert_nth kids i x), tt) else None)
      else (if i <? length kids then Some (RNode l (upd kids i x), tt) else None)
  end.

Definition node_remove (i : nat) (r : rose) : option (rose * rose) :=
  match r with
  | RNode l kids =>
      match nth_error kids i with
      | None => None
      | Some old =>
          Some (if list_pos l i then RNode l (remove_nth kids i)
                else RNode l (upd kids i (placeholder l i)), old)
      end
  end.

Definition node_replace_child (x : rose) (i : nat) (r : rose) : option (rose * option rose) :=
  match r with
  | RNode l kids =>
      match nth_error kids i with
      | None => Some (r, None)
      | Some old => Some (RNode l (upd kids i x), Some old)
      end
  end.

Inductive spec_out (A : Type) := SpOk (a : A) | SpErr (e : fetch_error).
Arguments SpOk {A} a.
Arguments SpErr {A} e.

Definition rset_fn (m : rmodule) (fi : nat) (body : rose) : rmodule :=
  {| rm_subs := rm_subs m; rm_fns := upd (rm_fns m) fi body; rm_imports := rm_imports m |}.

(* an edit below function [fi]: the function must exist, the index must not be empty *)
Definition spec_edit {A} (m : rmodule) (idx : card_index) (path : list nat)
           (k : rose -> option (rose * A)) : spec_out (rmodule * A) :=
  match nth_error (rm_fns m) (ci_function idx) with
  | None => SpErr FunctionNotFound
  | Some body =>
      match ci_indices idx with
      | [] => SpErr InvalidIndex
      | _ =>
          match rmodify path 0 k body with
          | SOk (body', a) => SpOk (rset_fn m (ci_function idx) body', a)
          | SMiss p => SpErr (CardNotFound p)
          end
      end
  end.

Definition spec_get (m : rmodule) (idx : card_index) : spec_out rose :=
  match spec_edit m idx (ci_indices idx) (fun r => Some (r, r)) with
  | SpOk (_, r) => SpOk r
  | SpErr e => SpErr e
  end.

Definition spec_replace (m : rmodule) (idx : card_index) (x : rose) : spec_out (rmodule * rose) :=
  spec_edit m idx (ci_indices idx) (node_replace x).

Definition spec_insert (m : rmodule) (idx : card_index) (x : rose) : spec_out (rmodule * unit) :=
  spec_edit m idx (removelast (ci_indices idx)) (node_insert x (last (ci_indices idx) 0)).

Definition spec_remove (m : rmodule) (idx : card_index) : spec_out (rmodule * rose) :=
  spec_edit m idx (removelast (ci_indices idx)) (node_remove (last (ci_indices idx) 0)).

Fixpoint is_prefix (a b : list nat) : bool :=
  match a, b with
  | [], _ => true
  | x :: a', y :: b' => Nat.eqb x y && is_prefix a' b'
  | _ :: _, [] => false
  end.

(* one index addresses the other card or one of its ancestors *)
Definition related (a b : card_index) : bool :=
  Nat.eqb (ci_function a) (ci_function b) &&
  (is_prefix (ci_indices a) (ci_indices b) || is_prefix (ci_indices b) (ci_indices a)).

(* swap: both cards must exist; equal indices: nothing to do; a card and its own ancestor: refused;
   otherwise the two subtrees change places.  [None] = refused, module unchanged. *)
Definition spec_swap (m : rmodule) (a b : card_index) : option rmodule :=
  match spec_get m a, spec_get m b with
  | SpOk ra, SpOk rb =>
      if ci_eqb a b then Some m
      else if related a b then None
      else match spec_replace m a rb with
           | SpOk (m1, _) =>
               match spec_replace m1 b ra with
               | SpOk (m2, _) => Some m2
               | SpErr _ => None
               end
           | SpErr _ => None
           end
  | _, _ => None
  end.

(* which error a refused swap may report *)
Definition swap_err_ok (m : rmodule) (a b : card_index) (e : swap_error) : bool :=
  match e with
  | InvalidSwap => true
  | SwapFetchError i fe =>
      let fetch_eqb x y :=
          match x, y with
          | FunctionNotFound, FunctionNotFound => true
          | InvalidIndex, InvalidIndex => true
          | CardNotFound p, CardNotFound q => Nat.eqb p q
          | NoSubFunction p, NoSubFunction q => Nat.eqb p q
          | _, _ => false
          end in
      let one j := ci_eqb i j && match spec_get m j with SpErr fe' => fetch_eqb fe fe' | SpOk _ => false end in
      one a || one b
  end.

(* pre-order listing of everything below a node, with its path *)
Fixpoint rwalk (r : rose) (prefix : list nat) : list (list nat * rose) :=
  match r with
  | RNode _ kids =>
      (fix go (l : list rose) (k : nat) : list (list nat * rose) :=
         match l with
         | [] => []
         | ch :: t => ((prefix ++ [k], ch) :: rwalk ch (prefix ++ [k])) ++ go t (S k)
         end) kids 0
  end.

Fixpoint spec_walk_fns (fns : list rose) (fi : nat) : list (nat * list nat * rose) :=
  match fns with
  | [] => []
  | body :: t => map (fun pr => (fi, fst pr, snd pr)) (rwalk body []) ++ spec_walk_fns t (S fi)
  end.

Definition spec_walk (m : rmodule) := spec_walk_fns (rm_fns m) 0.

(* ---- one API call ---------------------------------------------------------------------------- *)

Inductive robs :=
| RoUnit
| RoCard (r : rose)
| RoErr (e : fetch_error)
| RoSwapFail
| RoWalk (l : list (nat * list nat * rose))
| RoKids (n : nat) (it : list rose) (gets : list (option rose))
| RoChildErr (r : rose)
| RoPanic.

Definition abs_obs (o : obs) : robs :=
  match o with
  | ObUnit => RoUnit
  | ObCard c => RoCard (to_rose c)
  | ObErr e => RoErr e
  | ObSwapErr _ => RoSwapFail
  | ObWalk l => RoWalk (map (fun ic => (ci_function (fst ic), ci_indices (fst ic), to_rose (snd ic))) l)
  | ObKids n it gets => RoKids n (map to_rose it) (map (option_map to_rose) gets)
  | ObChildErr c => RoChildErr (to_rose c)
  | ObPanic => RoPanic
  end.

Definition spec_step (m : rmodule) (o : op) : rmodule * robs :=
  match o with
  | OpGet idx | OpGetMut idx =>
      (m, match spec_get m idx with SpOk r => RoCard r | SpErr e => RoErr e end)
  | OpInsert idx c =>
      match spec_insert m idx (to_rose c) with
      | SpOk (m', _) => (m', RoUnit)
      | SpErr e => (m, RoErr e)
      end
  | OpRemove idx =>
      match spec_remove m idx with
      | SpOk (m', r) => (m', RoCard r)
      | SpErr e => (m, RoErr e)
      end
  | OpReplace idx c =>
      match spec_replace m idx (to_rose c) with
      | SpOk (m', r) => (m', RoCard r)
      | SpErr e => (m, RoErr e)
      end
  | OpSwap a b =>
      match spec_swap m a b with
      | Some m' => (m', RoUnit)
      | None => (m, RoSwapFail)
      end
  | OpWalk => (m, RoWalk (spec_walk m))
  | OpKids idx upto =>
      (m, match spec_get m idx with
          | SpOk r => RoKids (length (rkids r)) (rkids r) (map (nth_error (rkids r)) (seq 0 upto))
          | SpErr e => RoErr e
          end)
  | OpReplaceChild idx i c =>
      match spec_edit m idx (ci_indices idx) (node_replace_child (to_rose c) i) with
      | SpOk (m', Some old) => (m', RoCard old)
      | SpOk (m', None) => (m', RoChildErr (to_rose c))
      | SpErr e => (m, RoErr e)
      end
  end.

(* ---- decidable equalities (for the checker) --------------------------------------------------- *)

Definition str_eqb : str -> str -> bool := list_eqb N.eqb.
Definition ostr_eqb : option str -> option str -> bool := opt_eqb str_eqb.

Definition binop_tag (o : binop) : nat :=
  match o with
  | BAdd => 0 | BSub => 1 | BMul => 2 | BDiv => 3 | BLess => 4 | BLessOrEq => 5 | BEquals => 6
  | BNotEquals => 7 | BAnd => 8 | BOr => 9 | BXor => 10 | BGetProperty => 11 | BIfTrue => 12
  | BIfFalse => 13 | BWhile => 14 | BGet => 15 | BAppendTable => 16
  end.
Definition unop_tag (o : unop) : nat :=
  match o with UNot => 0 | UReturn => 1 | ULen => 2 | UPopTable => 3 end.
Definition triop_tag (o : triop) : nat := match o with TIfElse => 0 | TSetProperty => 1 end.

Definition label_eqb (a b : label) : bool :=
  match a, b with
  | LBin o, LBin o' => Nat.eqb (binop_tag o) (binop_tag o')
  | LUn o, LUn o' => Nat.eqb (unop_tag o) (unop_tag o')
  | LTri o, LTri o' => Nat.eqb (triop_tag o) (triop_tag o')
  | LNil, LNil | LCreateTable, LCreateTable | LAbort, LAbort => true
  | LInt i, LInt j => Z.eqb i j
  | LFloat i, LFloat j => N.eqb i j
  | LStr s, LStr t | LComment s, LComment t | LFunction s, LFunction t
  | LNativeFunction s, LNativeFunction t | LReadVar s, LReadVar t
  | LCallNative s, LCallNative t | LCall s, LCall t
  | LSetGlobalVar s, LSetGlobalVar t | LSetVar s, LSetVar t | LComposite s, LComposite t => str_eqb s t
  | LDynamicCall, LDynamicCall | LArray, LArray => true
  | LRepeat i, LRepeat j => ostr_eqb i j
  | LForEach i k v, LForEach i' k' v' => ostr_eqb i i' && ostr_eqb k k' && ostr_eqb v v'
  | LClosure a, LClosure a' => list_eqb str_eqb a a'
  | LBody n a, LBody n' a' => str_eqb n n' && list_eqb str_eqb a a'
  | _, _ => false
  end.

Fixpoint rose_eqb (a b : rose) : bool :=
  match a, b with
  | RNode l kids, RNode l' kids' =>
      label_eqb l l' &&
      (fix go (x y : list rose) : bool :=
         match x, y with
         | [], [] => true
         | r :: x', s :: y' => rose_eqb r s && go x' y'
         | _, _ => false
         end) kids kids'
  end.

Definition card_eqb (a b : card) : bool := rose_eqb (to_rose a) (to_rose b).

Definition function_eqb (f g : function) : bool :=
  list_eqb str_eqb (f_args f) (f_args g) && list_eqb card_eqb (f_cards f) (f_cards g).

Fixpoint module_eqb (a b : module) : bool :=
  match a, b with
  | Module subs fns imps, Module subs' fns' imps' =>
      (fix go (x y : list (str * module)) : bool :=
         match x, y with
         | [], [] => true
         | (n, m) :: x', (n', m') :: y' => str_eqb n n' && module_eqb m m' && go x' y'
         | _, _ => false
         end) subs subs' &&
      list_eqb (pair_eqb str_eqb function_eqb) fns fns' &&
      list_eqb str_eqb imps imps'
  end.

Definition rmodule_eqb (a b : rmodule) : bool :=
  list_eqb (pair_eqb str_eqb module_eqb) (rm_subs a) (rm_subs b) &&
  list_eqb rose_eqb (rm_fns a) (rm_fns b) &&
  list_eqb str_eqb (rm_imports a) (rm_imports b).

Definition fetch_eqb (x y : fetch_error) : bool :=
  match x, y with
  | FunctionNotFound, FunctionNotFound => true
  | InvalidIndex, InvalidIndex => true
  | CardNotFound p, CardNotFound q => Nat.eqb p q
  | NoSubFunction p, NoSubFunction q => Nat.eqb p q
  | _, _ => false
  end.

Definition robs_eqb (a b : robs) : bool :=
  match a, b with
  | RoUnit, RoUnit => true
  | RoCard r, RoCard s => rose_eqb r s
  | RoErr e, RoErr f => fetch_eqb e f
  | RoSwapFail, RoSwapFail => true
  | RoWalk l, RoWalk l' =>
      list_eqb (pair_eqb (pair_eqb Nat.eqb (list_eqb Nat.eqb)) rose_eqb) l l'
  | RoKids n it g, RoKids n' it' g' =>
      Nat.eqb n n' && list_eqb rose_eqb it it' && list_eqb (opt_eqb rose_eqb) g g'
  | RoChildErr r, RoChildErr s => rose_eqb r s
  | RoPanic, RoPanic => true
  | _, _ => false
  end.
