(* C08: witnesses for the hypotheses of C08_call_pair_in_program / C08_call_card_executes_designated_body /
   C08_function_body_starts_without_locals / C08_param_binding_compiled on a module with three functions and a
   nested call:   f(a, b) = [ga := a; gb := b; return a - b];  g() = [return 5];
                  main = [x := 7; r := f(g(), 2); gx := x]. *)
From Coq Require Import NArith ZArith List.
From Cao Require Import ListUtil Bits CardAst Bytecode Compiler StdlibGen ResolveSpec CompilerProofs CompilerResolve
  CompilerLabels CompilerCalls C08Examples C15Link CompilerCallPair CompilerCallPairProg CompilerLocalsEmpty CompilerLocalsEmptyProg.
From Cao Require Vm VmProofs.
From Cao Require Import VmCallLink VmCallPairLink.
Import ListNotations.
Local Open Scope N_scope.

Definition nested_call : card := CCall x_f [CCall x_g []; CScalarInt 2].
Definition nested_main : function :=
  fn0 [CSetVar x_x (CScalarInt 7); CSetGlobalVar x_r nested_call; CSetGlobalVar x_gx (CReadVar x_x)].
Definition ex_nested_module : module :=
  Module [] [(s_main, nested_main); (x_f, fn_ab f_body); (x_g, fn0 [CUn UReturn (CScalarInt 5)])] [].
Definition nested_site : fsite := {| fs_path := []; fs_name := s_main; fs_fn := nested_main; fs_imports := [] |}.

(* the hypotheses of compile_call_pair_in_program and of its per-card clause, for the outer call f(..) and for the
   call g() nested in its argument list; what the specification designates; and where the two pairs lie in the
   returned program (bytes 14/23 and 33/42) *)
Lemma ex_nested_call_pairs :
  let root := with_std std_module ex_nested_module in
  module_names_dotfree root = true /\
  label_keys_distinct_module ex_nested_module 64 = true /\
  In nested_site (tree_functions root []) /\
  In (CSetGlobalVar x_r nested_call) (f_cards (fs_fn nested_site)) /\
  subcard nested_call (CSetGlobalVar x_r nested_call) /\
  subcard (CCall x_g []) (CSetGlobalVar x_r nested_call) /\
  site_target root nested_site x_f = Some (1%nat, 2%nat) /\
  site_target root nested_site x_g = Some (2%nat, 0%nat) /\
  exists B, compile ex_nested_module default_options = COk B /\
    match decode (p_bytecode B) with
    | Some l => In (14%nat, IFunctionPointer (handle_from_u64 2) 0) l /\ In (23%nat, ICallFunction) l /\
                In (33%nat, IFunctionPointer (handle_from_u64 1) 2) l /\ In (42%nat, ICallFunction) l
    | None => False
    end.
Proof.
  intros root.
  split; [vm_compute; reflexivity|]. split; [vm_compute; reflexivity|].
  split; [apply (nth_error_In _ 0%nat); vm_compute; reflexivity|].
  split; [right; left; reflexivity|].
  split; [eapply sc_child; [left; reflexivity | apply sc_refl]|].
  split; [eapply sc_child; [left; reflexivity | eapply sc_child; [left; reflexivity | apply sc_refl]]|].
  split; [vm_compute; reflexivity|]. split; [vm_compute; reflexivity|].
  destruct (compile ex_nested_module default_options) as [B| | |] eqn:Ec; try (vm_compute in Ec; discriminate).
  exists B. split; [reflexivity|]. vm_compute in Ec. injection Ec as <-.
  vm_compute. repeat split; tauto.
Qed.

(* the hypotheses of function_body_starts_without_locals / param_binding_compiled for f (second in compile
   order, two parameters) *)
Lemma ex_nested_param_hyps :
  exists B fs pre g post,
    compile ex_nested_module default_options = COk B /\
    into_ir_stream ex_nested_module (o_recursion_limit default_options) = inr fs /\
    fs = pre ++ g :: post /\ length pre = 1%nat /\
    fi_name g = x_f /\ fi_args g = [x_pa; x_pb] /\ NoDup (fi_args g) /\ (1 < length (fi_args g))%nat.
Proof.
  destruct (compile ex_nested_module default_options) as [B| | |] eqn:Ec; try (vm_compute in Ec; discriminate).
  destruct (into_ir_stream ex_nested_module (o_recursion_limit default_options)) as [e|fs] eqn:Ei;
    [vm_compute in Ei; discriminate|].
  vm_compute in Ei. injection Ei as <-.
  eexists B, _, [_], _, _. split; [reflexivity|]. split; [reflexivity|].
  split; [cbn [app]; reflexivity|]. split; [reflexivity|]. split; [reflexivity|]. split; [reflexivity|].
  split; [|cbn; auto].
  cbn [fi_args]. constructor; [intros [H|[]]; discriminate H|]. constructor; [intros []|constructor].
Qed.

(* and at run time: a = 2 (the last argument), b = g() = 5, r = 2 - 5, the caller's local is intact *)
Lemma ex_nested_run : forall F bld,
  run_example F bld ex_nested_module =
    Some (Vm.OOk, [Some (Vm.VInt 2); Some (Vm.VInt 5); Some (Vm.VInt (-3)); Some (Vm.VInt 7)], []).
Proof. intros F bld. destruct bld; vm_compute; reflexivity. Qed.

(* the hypotheses of card_keeps_scopes: a Repeat card with a loop variable and an assignment to a new variable,
   compiled in the state of a function body (one level, depth 1, no locals): the loop's scopes are closed again and
   everything declared inside them (counters, loop variable, the new variable of the body) is popped *)
Lemma ex_card_keeps_scopes :
  let s := set_scopes [[]] [[]] [1%Z] (init_state true) in
  let c := CRepeat (Some x_x) (CScalarInt 3) (CSetVar x_r (CReadVar x_x)) in
  scopes_ok s /\ cs_depth s = [1%Z] /\
  exists s', process_card c s = ROk tt s' /\ cs_depth s' = [1%Z] /\ cs_locals s' = [[]].
Proof.
  intros s c. split; [|split; [reflexivity|]].
  - constructor; [|constructor]. split; [discriminate|]. split; [constructor | discriminate].
  - destruct (process_card c s) as [[] s'| | |] eqn:E; try (vm_compute in E; discriminate).
    exists s'. split; [reflexivity|]. vm_compute in E. injection E as <-. split; reflexivity.
Qed.
