(* C04 - "running is total", second part: the instructions that look keys up in tables, the upvalue
   instructions and the natives.  Continues C04VmProofs.v (whose header lists every abort site of Vm.v);
   the final table of abort sites and their status is at the end of this file.

   Part C  the heap invariants: [heap_closed] (no dangling address inside an object), [heap_acyclic]
           (a rank function on table addresses, strictly decreasing along table contents and below
           eq_fuel - 1: the tables are acyclic AND nested less deep than the fuel the model gives to
           ==; the crate recurses natively, so a cycle is a native stack overflow, finding A-37),
           [open_ok] (the open-upvalue list is a duplicate-free chain of open upvalue objects).
           ==, key lookup, insert, append, pop are total on such heaps.
   Part D  step_pre2 and no-abort of one instruction, for every opcode.
   Part E  preservation of the structural invariant, the dispatch loop.
   Part F  necessity: a cyclic table aborts. *)
From Coq Require Import NArith ZArith List Lia Bool.
From Cao Require Import ListUtil Bits Stacks Vm VmProofs C04VmProofs.
Import ListNotations.

(* ================================================================== *)
(* Part C.1 : list helpers                                             *)
(* ================================================================== *)

Lemma in_upd {A} (l : list A) i v x : In x (upd l i v) -> x = v \/ In x l.
Proof.
  revert i; induction l as [|h t IH]; intros [|i] H; cbn in *; auto.
  - destruct H as [H|H]; auto.
  - destruct H as [H|H]; auto. destruct (IH _ H); auto.
Qed.

Lemma in_remove_nth {A} (l : list A) i x : In x (remove_nth i l) -> In x l.
Proof.
  revert i; induction l as [|h t IH]; intros [|i] H; cbn in *; auto.
  destruct H as [H|H]; auto. right. eapply IH; eauto.
Qed.

Lemma in_removelast {A} (l : list A) x : In x (removelast l) -> In x l.
Proof.
  induction l as [|h t IH]; cbn; auto. destruct t; [contradiction|].
  intros [H|H]; auto.
Qed.

Lemma nth_error_in_fst {A B} (m : list (A * B)) i k v : nth_error m i = Some (k, v) -> In k (map fst m).
Proof. intros H. apply nth_error_In in H. apply (in_map fst) in H. exact H. Qed.
Lemma nth_error_in_snd {A B} (m : list (A * B)) i k v : nth_error m i = Some (k, v) -> In v (map snd m).
Proof. intros H. apply nth_error_In in H. apply (in_map snd) in H. exact H. Qed.

(* ================================================================== *)
(* Part C.2 : the table operations are total when == is                *)
(* ================================================================== *)

(* the values a table mentions *)
Definition tmentions (t : table) (v : value) : Prop :=
  In v (map fst (tmap t)) \/ In v (map snd (tmap t)) \/ In v (tkeys t).

Lemma map_find_some eq k m : forall i v, map_find eq k m = Some (Some (i, v)) ->
  exists k', nth_error m i = Some (k', v) /\ keq eq k' k = Some true.
Proof.
  induction m as [|[k' v'] m IH]; intros i v H; cbn [map_find] in H; [discriminate|].
  destruct (keq eq k' k) as [[]|] eqn:E; try discriminate.
  - inversion H; subst. exists k'. split; [reflexivity | exact E].
  - destruct (map_find eq k m) as [[[j w]|]|]; try discriminate. inversion H; subst.
    destruct (IH j v eq_refl) as (k2 & H1 & H2). exists k2. split; [exact H1 | exact H2].
Qed.

Section TableTotal.
Variable eq : eqfun.
Variable D : value -> Prop.
Hypothesis eq_tot : forall a b, D a -> D b -> exists r, eq a b = Some r.

Definition keys_in (m : list (value * value)) : Prop := forall k, In k (map fst m) -> D k.

Lemma keq_tot a b : D a -> D b -> exists r, keq eq a b = Some r.
Proof.
  intros Ha Hb. unfold keq. destruct a, b; try (apply eq_tot; assumption).
  destruct (N.eqb _ _); [apply eq_tot; assumption | eexists; reflexivity].
Qed.

Lemma map_find_tot k m : D k -> keys_in m -> exists r, map_find eq k m = Some r.
Proof.
  intros Hk. induction m as [|[k' v] m IH]; intros Hm; cbn [map_find]; [eexists; reflexivity|].
  destruct (keq_tot k' k) as [[] ->]; [apply Hm; left; reflexivity | exact Hk | eexists; reflexivity |].
  destruct IH as [[[i v']|] ->]; [intros x Hx; apply Hm; right; exact Hx | |]; eexists; reflexivity.
Qed.

Lemma tget_tot t k : D k -> keys_in (tmap t) -> exists r, tget eq t k = Some r.
Proof.
  intros Hk Hm. unfold tget. destruct (map_find_tot k (tmap t) Hk Hm) as [[[i v]|] ->]; eexists; reflexivity.
Qed.

Lemma tinsert_tot t k v : D k -> keys_in (tmap t) -> exists t', tinsert eq t k v = Some t'.
Proof.
  intros Hk Hm. unfold tinsert. destruct (map_find_tot k (tmap t) Hk Hm) as [[[i w]|] ->]; eexists; reflexivity.
Qed.

Lemma titer_go_tot m ks : keys_in m -> (forall k, In k ks -> D k) ->
  exists l, titer_go eq m ks = Some l.
Proof.
  intros Hm. induction ks as [|k r IH]; intros Hks; cbn [titer_go]; [eexists; reflexivity|].
  destruct (map_find_tot k m) as [[[i v]|] ->]; [apply Hks; left; reflexivity | exact Hm | |];
    (destruct IH as [l ->]; [intros x Hx; apply Hks; right; exact Hx | eexists; reflexivity]).
Qed.

Lemma pairs_eq_tot l1 : forall l2,
  (forall kv, In kv l1 -> D (fst kv) /\ D (snd kv)) -> (forall kv, In kv l2 -> D (fst kv) /\ D (snd kv)) ->
  exists r, pairs_eq eq l1 l2 = Some r.
Proof.
  induction l1 as [|[k1 v1] r1 IH]; intros l2 H1 H2; cbn [pairs_eq]; [eexists; reflexivity|].
  destruct l2 as [|[k2 v2] r2]; [eexists; reflexivity|].
  destruct (H1 (k1, v1) (or_introl eq_refl)) as [Hk1 Hv1].
  destruct (H2 (k2, v2) (or_introl eq_refl)) as [Hk2 Hv2]. cbn [fst snd] in *.
  destruct (eq_tot k1 k2 Hk1 Hk2) as [[] ->]; [|eexists; reflexivity].
  destruct (eq_tot v1 v2 Hv1 Hv2) as [[] ->]; [|eexists; reflexivity].
  apply IH; intros kv Hkv; [apply H1 | apply H2]; right; exact Hkv.
Qed.

Lemma tpop_tot t : keys_in (tmap t) -> (forall k, In k (tkeys t) -> D k) -> exists r, tpop eq t = Some r.
Proof.
  intros Hm Hk. unfold tpop. destruct (rev (tkeys t)) as [|key r] eqn:E; [eexists; reflexivity|].
  assert (Hin : In key (tkeys t)) by (apply in_rev; rewrite E; left; reflexivity).
  destruct (map_find_tot key (tmap t) (Hk _ Hin) Hm) as [[[i v]|] ->]; eexists; reflexivity.
Qed.

Lemma tappend_idx_tot fuel m : forall i, keys_in m -> D (VInt i) -> (forall j, D (VInt j)) ->
  exists r, tappend_idx eq fuel m i = Some r.
Proof.
  induction fuel as [|f IH]; intros i Hm Hi Hall; cbn [tappend_idx]; [eexists; reflexivity|].
  destruct (map_find_tot (VInt i) m Hi Hm) as [[p|] ->]; [|eexists; reflexivity].
  apply IH; auto.
Qed.

(* insertion keeps the keys in the domain *)
Lemma tinsert_keys t k v t' : tinsert eq t k v = Some t' -> D k -> keys_in (tmap t) -> keys_in (tmap t').
Proof.
  unfold tinsert. intros H Hk Hm. destruct (map_find eq k (tmap t)) as [[[i w]|]|] eqn:E; inversion H; subst; clear H;
    cbn [tmap]; intros x Hx.
  - apply in_map_iff in Hx. destruct Hx as ([x1 x2] & <- & Hx). apply in_upd in Hx. destruct Hx as [Hx|Hx].
    + inversion Hx; subst. cbn [fst].
      destruct (map_find_some _ _ _ _ _ E) as (k' & Hn & _).
      rewrite (nth_error_nth _ _ _ Hn). cbn [fst]. apply Hm. eapply nth_error_in_fst; eauto.
    + apply Hm. apply (in_map fst) in Hx. exact Hx.
  - rewrite map_app in Hx. apply in_app_or in Hx. destruct Hx as [Hx|[<-|[]]]; auto.
Qed.

Lemma to_array_go_tot l : forall t i, keys_in (tmap t) -> (forall j, D (VInt j)) ->
  exists t', to_array_go eq t i l = Some t'.
Proof.
  induction l as [|[k v] r IH]; intros t i Hm Hall; cbn [to_array_go]; [eexists; reflexivity|].
  destruct (tinsert_tot t (VInt i) v (Hall i) Hm) as [t' E]. rewrite E.
  apply IH; [eapply tinsert_keys; eauto | exact Hall].
Qed.

Lemma insert_pairs_tot l : forall t, keys_in (tmap t) -> (forall kv, In kv l -> D (fst kv)) ->
  exists t', insert_pairs eq t l = Some t' /\ keys_in (tmap t').
Proof.
  induction l as [|[k v] r IH]; intros t Hm Hl; cbn [insert_pairs]; [eexists; split; [reflexivity | exact Hm]|].
  pose proof (Hl (k, v) (or_introl eq_refl)) as Hk. cbn [fst] in Hk.
  destruct (tinsert_tot t k v Hk Hm) as [t' E]. rewrite E.
  apply IH; [eapply tinsert_keys; eauto | intros kv Hkv; apply Hl; right; exact Hkv].
Qed.

Lemma insert_all_tot l : forall t, keys_in (tmap t) -> (forall x, In x l -> D (fst (snd x))) ->
  exists t', insert_all eq t l = Some t' /\ keys_in (tmap t').
Proof.
  induction l as [|[key [k v]] r IH]; intros t Hm Hl; cbn [insert_all]; [eexists; split; [reflexivity | exact Hm]|].
  pose proof (Hl (key, (k, v)) (or_introl eq_refl)) as Hk. cbn [fst snd] in Hk.
  destruct (tinsert_tot t k v Hk Hm) as [t' E]. rewrite E.
  apply IH; [eapply tinsert_keys; eauto | intros x Hx; apply Hl; right; exact Hx].
Qed.

End TableTotal.

(* what the results mention (no totality needed) *)
Lemma tget_mentions eq t k v : tget eq t k = Some (Some v) -> tmentions t v.
Proof.
  unfold tget. destruct (map_find eq k (tmap t)) as [[[i w]|]|] eqn:E; intros H; inversion H; subst.
  destruct (map_find_some _ _ _ _ _ E) as (k' & Hn & _). right; left. eapply nth_error_in_snd; eauto.
Qed.

Lemma tinsert_mentions eq t k v t' : tinsert eq t k v = Some t' ->
  forall x, tmentions t' x -> tmentions t x \/ x = k \/ x = v.
Proof.
  unfold tinsert. intros H x Hx. destruct (map_find eq k (tmap t)) as [[[i w]|]|] eqn:E; inversion H; subst; clear H;
    unfold tmentions in *; cbn [tmap tkeys] in *.
  - destruct (map_find_some _ _ _ _ _ E) as (k' & Hn & _).
    destruct Hx as [Hx|[Hx|Hx]]; [| |tauto]; apply in_map_iff in Hx; destruct Hx as ([x1 x2] & <- & Hx);
      apply in_upd in Hx; destruct Hx as [Hx|Hx]; cbn [fst snd].
    + inversion Hx; subst. rewrite (nth_error_nth _ _ _ Hn). cbn [fst]. left; left. eapply nth_error_in_fst; eauto.
    + left; left. apply (in_map fst) in Hx. exact Hx.
    + inversion Hx; subst. tauto.
    + left; right; left. apply (in_map snd) in Hx. exact Hx.
  - rewrite !map_app in Hx. cbn [map fst snd] in Hx.
    destruct Hx as [Hx|[Hx|Hx]]; apply in_app_or in Hx; destruct Hx as [Hx|[<-|[]]]; tauto.
Qed.

Lemma tpop_mentions eq t t' v : tpop eq t = Some (t', v) ->
  (forall x, tmentions t' x -> tmentions t x) /\ (v = VNil \/ tmentions t v).
Proof.
  unfold tpop. destruct (rev (tkeys t)) as [|key r]; [intros H; inversion H; subst; split; auto|].
  destruct (map_find eq key (tmap t)) as [[[i w]|]|] eqn:E; intros H; inversion H; subst; clear H;
    unfold tmentions; cbn [tmap tkeys].
  - destruct (map_find_some _ _ _ _ _ E) as (k' & Hn & _). split.
    + intros x [Hx|[Hx|Hx]].
      * left. apply in_map_iff in Hx. destruct Hx as (p & <- & Hx). apply in_remove_nth in Hx. apply in_map; exact Hx.
      * right; left. apply in_map_iff in Hx. destruct Hx as (p & <- & Hx). apply in_remove_nth in Hx. apply in_map; exact Hx.
      * right; right. apply in_removelast; exact Hx.
    + right. right; left. eapply nth_error_in_snd; eauto.
  - split; [|left; reflexivity]. intros x [Hx|[Hx|Hx]]; auto. right; right. apply in_removelast; exact Hx.
Qed.

Lemma titer_go_mentions eq m : forall ks l, titer_go eq m ks = Some l ->
  forall kv, In kv l -> In (fst kv) ks /\ In (snd kv) (map snd m).
Proof.
  induction ks as [|k r IH]; intros l H kv Hkv; cbn [titer_go] in H.
  - inversion H; subst. contradiction.
  - destruct (map_find eq k m) as [[[i v]|]|] eqn:E; try discriminate;
      destruct (titer_go eq m r) as [l'|] eqn:E2; try discriminate; inversion H; subst; clear H.
    + destruct Hkv as [<-|Hkv].
      * cbn [fst snd]. split; [left; reflexivity|].
        destruct (map_find_some _ _ _ _ _ E) as (k' & Hn & _). eapply nth_error_in_snd; eauto.
      * destruct (IH _ eq_refl kv Hkv). split; [right|]; assumption.
    + destruct (IH _ eq_refl kv Hkv). split; [right|]; assumption.
Qed.

Lemma titer_mentions eq t l : titer eq t = Some l ->
  forall kv, In kv l -> tmentions t (fst kv) /\ tmentions t (snd kv).
Proof.
  intros H kv Hkv. destruct (titer_go_mentions _ _ _ _ H kv Hkv) as [H1 H2]. unfold tmentions. tauto.
Qed.

(* ================================================================== *)
(* Part C.3 : heap invariants                                          *)
(* ================================================================== *)

(* no dangling address inside an object *)
Definition obj_closed (h : heap) (o : obj) : Prop :=
  match o with
  | OTable t => forall v, tmentions t v -> val_ok h v
  | OClo _ _ ups => forall ua, In ua ups -> hget h ua <> None
  | OUp u => val_ok h (u_val u)
  | _ => True
  end.
Definition heap_closed (h : heap) : Prop := forall a o, hget h a = Some o -> obj_closed h o.

(* nesting depth of a value: 1 + rank for a table, 0 for everything else *)
Definition vdepth (h : heap) (rk : N -> nat) (v : value) : nat :=
  match v with
  | VObj b => match hget h b with Some (OTable _) => S (rk b) | _ => 0 end
  | _ => 0
  end.

(* [rk] ranks the tables: whatever a table mentions lies strictly below it, and every rank is below
   eq_fuel - 1.  (A table that contains itself, directly or not, has no rank: A-37.) *)
Definition ranked (h : heap) (rk : N -> nat) : Prop :=
  forall a t, hget h a = Some (OTable t) ->
    S (rk a) < eq_fuel /\ forall v, tmentions t v -> vdepth h rk v <= rk a.
Definition heap_acyclic (h : heap) : Prop := exists rk, ranked h rk.

Lemma vdepth_bound h rk v : ranked h rk -> vdepth h rk v < eq_fuel.
Proof.
  intros Hr. destruct v as [| | |b]; cbn [vdepth]; try (unfold eq_fuel; lia).
  destruct (hget h b) as [[t| | | | |]|] eqn:E; try (unfold eq_fuel; lia).
  apply (Hr b t E).
Qed.

Section VeqTotal.
Variable F : fops.

Lemma veq_tot h rk : ranked h rk -> heap_closed h ->
  forall f a b, val_ok h a -> val_ok h b -> vdepth h rk a < f -> vdepth h rk b < f ->
  exists r, veq F f h a b = Some r.
Proof.
  intros Hr Hc. induction f as [|f IH]; intros a b Ha Hb Da Db; [lia|].
  cbn [veq]. destruct a as [|x|x|x], b as [|y|y|y]; try (eexists; reflexivity).
  cbn [val_ok] in Ha, Hb. cbn [vdepth] in Da, Db.
  destruct (hget h x) as [ox|] eqn:Ex; [|congruence]. destruct (hget h y) as [oy|] eqn:Ey; [|congruence].
  destruct ox as [t1| | | | |], oy as [t2| | | | |]; try (eexists; reflexivity).
  destruct (length (tkeys t1) =? length (tkeys t2)); [|eexists; reflexivity].
  destruct (Hr x t1 Ex) as [_ R1]. destruct (Hr y t2 Ey) as [_ R2].
  pose proof (Hc x _ Ex) as C1. pose proof (Hc y _ Ey) as C2. cbn [obj_closed] in C1, C2.
  set (D := fun v => val_ok h v /\ vdepth h rk v < f).
  assert (Heq : forall a b, D a -> D b -> exists r, veq F f h a b = Some r).
  { intros a b [A1 A2] [B1 B2]. apply IH; assumption. }
  assert (D1 : forall v, tmentions t1 v -> D v).
  { intros v Hv. split; [apply C1; exact Hv | specialize (R1 v Hv); lia]. }
  assert (D2 : forall v, tmentions t2 v -> D v).
  { intros v Hv. split; [apply C2; exact Hv | specialize (R2 v Hv); lia]. }
  destruct (titer_go_tot (veq F f h) D Heq (tmap t1) (tkeys t1)) as [l1 E1].
  { intros k Hk. apply D1. left; exact Hk. } { intros k Hk. apply D1. right; right; exact Hk. }
  destruct (titer_go_tot (veq F f h) D Heq (tmap t2) (tkeys t2)) as [l2 E2].
  { intros k Hk. apply D2. left; exact Hk. } { intros k Hk. apply D2. right; right; exact Hk. }
  unfold titer. rewrite E1, E2.
  apply (pairs_eq_tot (veq F f h) D Heq).
  - intros kv Hkv. destruct (titer_mentions _ t1 l1 E1 kv Hkv). split; apply D1; assumption.
  - intros kv Hkv. destruct (titer_mentions _ t2 l2 E2 kv Hkv). split; apply D2; assumption.
Qed.

(* == as the instructions use it is total on the live values of a closed acyclic heap *)
Lemma veq0_tot h : heap_acyclic h -> heap_closed h ->
  forall a b, val_ok h a -> val_ok h b -> exists r, veq0 F h a b = Some r.
Proof.
  intros [rk Hr] Hc a b Ha Hb. unfold veq0. apply (veq_tot h rk Hr Hc); auto; apply vdepth_bound; exact Hr.
Qed.

(* an integer key only matches itself *)
Lemma keq_int_true h k' j : keq (veq0 F h) k' (VInt j) = Some true -> k' = VInt j.
Proof.
  unfold keq, veq0. assert (Hf : exists f, eq_fuel = S f) by (exists 23; reflexivity). destruct Hf as [f ->].
  destruct k' as [|x|x|x]; cbn [veq]; intros H; try discriminate.
  inversion H as [H1]. apply Z.eqb_eq in H1. subst. reflexivity.
Qed.

(* AppendTable's probe: when the fuel runs out, every probed integer is a key of the map *)
Lemma tappend_idx_fuel h fuel m : forall i, tappend_idx (veq0 F h) fuel m i = Some None ->
  forall k, k < fuel -> In (VInt (i + Z.of_nat k)) (map fst m).
Proof.
  induction fuel as [|f IH]; intros i H k Hk; [lia|]. cbn [tappend_idx] in H.
  destruct (map_find (veq0 F h) (VInt i) m) as [[[p w]|]|] eqn:E; try discriminate.
  destruct k as [|k].
  - destruct (map_find_some _ _ _ _ _ E) as (k' & Hn & Hq). apply keq_int_true in Hq. subst k'.
    replace (i + Z.of_nat 0)%Z with i by lia. eapply nth_error_in_fst; eauto.
  - replace (i + Z.of_nat (S k))%Z with ((i + 1) + Z.of_nat k)%Z by lia. apply IH; [exact H | lia].
Qed.

(* pigeonhole: length + 1 rounds always find a free integer *)
Lemma tappend_idx_not_fuel h m i : tappend_idx (veq0 F h) (S (length m)) m i <> Some None.
Proof.
  intros H. pose proof (tappend_idx_fuel h _ m i H) as Hin.
  set (l := map (fun k => VInt (i + Z.of_nat k)) (seq 0 (S (length m)))).
  assert (Hnd : NoDup l).
  { apply FinFun.Injective_map_NoDup; [|apply seq_NoDup]. intros x y Hxy. inversion Hxy. lia. }
  assert (Hincl : incl l (map fst m)).
  { intros x Hx. apply in_map_iff in Hx. destruct Hx as (k & <- & Hk). apply in_seq in Hk. apply Hin. lia. }
  pose proof (NoDup_incl_length Hnd Hincl) as Hlen. unfold l in Hlen.
  rewrite !map_length, seq_length in Hlen. lia.
Qed.

End VeqTotal.

(* ================================================================== *)
(* Part C.4 : heap access, allocation, the open-upvalue chain          *)
(* ================================================================== *)

Lemma nth_error_upd_same {A} (l : list A) i v : i < length l -> nth_error (upd l i v) i = Some v.
Proof. revert i; induction l as [|h t IH]; intros [|i] Hi; cbn in *; try lia; auto. apply IH; lia. Qed.
Lemma nth_error_upd_other {A} (l : list A) i j v : i <> j -> nth_error (upd l i v) j = nth_error l j.
Proof. revert i j; induction l as [|h t IH]; intros [|i] [|j] Hij; cbn; auto; try lia. Qed.

Lemma hget_lt h a : hget h a <> None <-> N.to_nat a < length h.
Proof. unfold hget. apply nth_error_Some. Qed.

Lemma hget_hset_same h a o : hget h a <> None -> hget (hset h a o) a = Some o.
Proof. intros H. apply hget_lt in H. unfold hget, hset. apply nth_error_upd_same; exact H. Qed.
Lemma hget_hset_other h a b o : a <> b -> hget (hset h a o) b = hget h b.
Proof. intros H. unfold hget, hset. apply nth_error_upd_other. intros E. apply H. apply N2Nat.inj; exact E. Qed.
Lemma hset_length h a o : length (hset h a o) = length h.
Proof. apply upd_length. Qed.

Lemma hget_app_old h l a : hget h a <> None -> hget (h ++ l) a = hget h a.
Proof. intros H. apply hget_lt in H. unfold hget. apply nth_error_app1; exact H. Qed.
Lemma hget_app_new h o : hget (h ++ [o]) (N.of_nat (length h)) = Some o.
Proof. unfold hget. rewrite Nat2N.id, nth_error_app2, Nat.sub_diag by lia. reflexivity. Qed.
Lemma hget_app_inv h o a x : hget (h ++ [o]) a = Some x ->
  (hget h a = Some x) \/ (a = N.of_nat (length h) /\ x = o).
Proof.
  unfold hget. intros H. destruct (Nat.lt_ge_cases (N.to_nat a) (length h)) as [Hl|Hl].
  - rewrite nth_error_app1 in H by exact Hl. left; exact H.
  - rewrite nth_error_app2 in H by exact Hl. right.
    destruct (N.to_nat a - length h) as [|k] eqn:E; cbn in H; [|destruct k; discriminate].
    inversion H; subst. split; [|reflexivity]. apply N2Nat.inj. rewrite Nat2N.id. lia.
Qed.

Lemma val_ok_app h l v : val_ok h v -> val_ok (h ++ l) v.
Proof. destruct v; cbn [val_ok]; auto. intros H. rewrite hget_app_old; exact H. Qed.

(* liveness only depends on the length of the heap *)
Lemma val_ok_len h h' v : length h <= length h' -> val_ok h v -> val_ok h' v.
Proof. destruct v; cbn [val_ok]; auto. rewrite !hget_lt. lia. Qed.

Lemma obj_closed_len h h' o : length h <= length h' -> obj_closed h o -> obj_closed h' o.
Proof.
  intros Hl. destruct o; cbn [obj_closed]; auto.
  - intros H v Hv. eapply val_ok_len; eauto.
  - intros H ua Hu. specialize (H ua Hu). rewrite hget_lt in *. lia.
  - apply val_ok_len; exact Hl.
Qed.

Lemma heap_closed_alloc h o : heap_closed h -> obj_closed h o -> heap_closed (h ++ [o]).
Proof.
  intros Hc Ho a x Hx. apply (obj_closed_len h); [rewrite app_length; lia|].
  destruct (hget_app_inv _ _ _ _ Hx) as [H|[_ ->]]; [eapply Hc; eauto | exact Ho].
Qed.

(* writing a closed object over a live one *)
Lemma heap_closed_hset h a o : heap_closed h -> obj_closed h o -> heap_closed (hset h a o).
Proof.
  intros Hc Ho b x Hx. apply (obj_closed_len h); [rewrite hset_length; lia|].
  destruct (N.eq_dec a b) as [<-|Hne].
  - destruct (hget h a) eqn:E.
    + rewrite hget_hset_same in Hx by congruence. inversion Hx; subst. exact Ho.
    + exfalso. assert (hget (hset h a o) a <> None) by congruence.
      rewrite hget_lt, hset_length, <- hget_lt in H. congruence.
  - rewrite hget_hset_other in Hx by exact Hne. eapply Hc; eauto.
Qed.

(* the rank of a fresh address *)
Definition rk_set (rk : N -> nat) (a : N) (n : nat) : N -> nat := fun b => if N.eqb b a then n else rk b.

Lemma vdepth_alloc h rk o n v : val_ok h v ->
  vdepth (h ++ [o]) (rk_set rk (N.of_nat (length h)) n) v = vdepth h rk v.
Proof.
  destruct v as [| | |b]; cbn [val_ok vdepth]; auto. intros H. rewrite hget_app_old by exact H.
  unfold rk_set. destruct (N.eqb_spec b (N.of_nat (length h))) as [->|]; [|reflexivity].
  apply hget_lt in H. rewrite Nat2N.id in H. lia.
Qed.

(* allocation of an object that mentions nothing (or is not a table) keeps the ranks *)
Lemma ranked_alloc h rk o n : ranked h rk -> heap_closed h -> S n < eq_fuel ->
  (forall t, o = OTable t -> forall v, ~ tmentions t v) ->
  ranked (h ++ [o]) (rk_set rk (N.of_nat (length h)) n).
Proof.
  intros Hr Hc Hn Ho a t Ht. destruct (hget_app_inv _ _ _ _ Ht) as [H|[-> Eo]].
  - destruct (Hr a t H) as [R1 R2]. assert (Ha : N.to_nat a < length h) by (apply hget_lt; congruence).
    unfold rk_set at 1 3. destruct (N.eqb_spec a (N.of_nat (length h))) as [->|]; [rewrite Nat2N.id in Ha; lia|].
    split; [exact R1|]. intros v Hv. rewrite vdepth_alloc; [apply R2; exact Hv | apply (Hc a _ H); exact Hv].
  - unfold rk_set at 1 3. rewrite N.eqb_refl. split; [exact Hn|]. intros v Hv. exfalso. symmetry in Eo. eapply Ho; eauto.
Qed.

Lemma heap_acyclic_alloc h o : heap_acyclic h -> heap_closed h ->
  (forall t, o = OTable t -> forall v, ~ tmentions t v) -> heap_acyclic (h ++ [o]).
Proof.
  intros [rk Hr] Hc Ho. exists (rk_set rk (N.of_nat (length h)) 0).
  apply ranked_alloc; auto. unfold eq_fuel; lia.
Qed.

Lemma empty_mentions v : ~ tmentions (mkTable [] []) v.
Proof. unfold tmentions. cbn. tauto. Qed.

(* ---- the open-upvalue list: a chain of open upvalue objects without repetition ---- *)
Inductive open_chain (h : heap) : option N -> list N -> Prop :=
| oc_nil : open_chain h None []
| oc_cons a u l loc : hget h a = Some (OUp u) -> u_loc u = Some loc -> open_chain h (u_next u) l ->
                      open_chain h (Some a) (a :: l).

Definition open_ok (s : state) : Prop := exists l, open_chain (st_heap s) (st_open s) l /\ NoDup l.

Lemma open_chain_live h o l : open_chain h o l -> forall a, In a l -> hget h a <> None.
Proof. induction 1; intros b Hb; [contradiction|]. destruct Hb as [<-|Hb]; [congruence | auto]. Qed.

(* pigeonhole: a duplicate-free list of live addresses is not longer than the heap *)
Lemma live_nodup_length h l : NoDup l -> (forall a, In a l -> hget h a <> None) -> length l <= length h.
Proof.
  intros Hnd Hl.
  assert (H1 : NoDup (map N.to_nat l)).
  { apply FinFun.Injective_map_NoDup; [|exact Hnd]. intros x y. apply N2Nat.inj. }
  assert (H2 : incl (map N.to_nat l) (seq 0 (length h))).
  { intros x Hx. apply in_map_iff in Hx. destruct Hx as (a & <- & Ha). apply in_seq. apply Hl, hget_lt in Ha. lia. }
  pose proof (NoDup_incl_length H1 H2) as H. rewrite map_length, seq_length in H. exact H.
Qed.

Lemma open_chain_hset h o l a x : open_chain h o l -> ~ In a l -> open_chain (hset h a x) o l.
Proof.
  induction 1 as [|b u l loc Hb Hloc Hch IH]; intros Hn; [constructor|].
  econstructor; [| exact Hloc |].
  - rewrite hget_hset_other; [exact Hb|]. intros ->. apply Hn. left; reflexivity.
  - apply IH. intros Hin. apply Hn. right; exact Hin.
Qed.

Lemma open_chain_app h o l x : open_chain h o l -> open_chain (h ++ x) o l.
Proof.
  induction 1 as [|b u l loc Hb Hloc Hch IH]; [constructor|].
  econstructor; [| exact Hloc | exact IH]. rewrite hget_app_old; [exact Hb | congruence].
Qed.

Definition cl_no_stop (r : closeres) : Prop := match r with ClStop _ _ => False | _ => True end.

Lemma close_upvalues_go_no_stop : forall fuel top s l,
  open_chain (st_heap s) (st_open s) l -> NoDup l -> length l < fuel ->
  cl_no_stop (close_upvalues_go fuel top s).
Proof.
  induction fuel as [|f IH]; intros top s l Hch Hnd Hlen; [lia|].
  cbn [close_upvalues_go]. inversion Hch as [Ho|a u l' loc Ha Hloc Hch' Ho Hl]; subst; [exact I|].
  rewrite Ha, Hloc. destruct (loc <? top); [exact I|].
  inversion Hnd as [|x y Hnotin Hnd']; subst.
  apply (IH top _ l').
  - cbn [st_heap st_open set_open set_heap]. apply open_chain_hset; assumption.
  - exact Hnd'.
  - cbn [length] in Hlen. lia.
Qed.

Lemma close_upvalues_from_no_stop top s : open_ok s -> cl_no_stop (close_upvalues_from top s).
Proof.
  intros (l & Hch & Hnd). unfold close_upvalues_from. apply (close_upvalues_go_no_stop _ top s l Hch Hnd).
  pose proof (live_nodup_length (st_heap s) l Hnd (open_chain_live _ _ _ Hch)). lia.
Qed.

Definition w_no_stop (r : walkres) : Prop := match r with WStop _ => False | _ => True end.

Lemma walk_open_no_stop h loc : forall fuel prev cur l,
  open_chain h cur l -> length l < fuel -> w_no_stop (walk_open fuel h loc prev cur).
Proof.
  induction fuel as [|f IH]; intros prev cur l Hch Hlen; [lia|].
  cbn [walk_open]. inversion Hch as [Ho|a u l' lc Ha Hloc Hch' Ho Hl]; subst; [exact I|].
  rewrite Ha, Hloc. destruct (lc <=? loc); [exact I|]. apply (IH _ _ l' Hch'). cbn [length] in Hlen. lia.
Qed.
