From Coq Require Import Arith Lia List ZArith Bool.
Import ListNotations.

(* cyclic distance from a to b in Z_n *)
Definition dist (n a b : nat) : nat := (b + n - a) mod n.

Section Cyc.
Variable n : nat.
Hypothesis Hn : 0 < n.

Lemma dist_lt a b : dist n a b < n.
Proof. unfold dist. apply Nat.mod_upper_bound. lia. Qed.

Lemma dist_le_case a b : a < n -> b < n ->
  (a <= b /\ dist n a b = b - a) \/ (b < a /\ dist n a b = b + n - a).
Proof.
  intros Ha Hb. unfold dist.
  destruct (le_lt_dec a b) as [H|H].
  - left. split; [assumption|].
    replace (b + n - a) with ((b - a) + 1 * n) by lia.
    rewrite Nat.mod_add by lia. apply Nat.mod_small. lia.
  - right. split; [assumption|]. apply Nat.mod_small. lia.
Qed.

Lemma dist_self a : a < n -> dist n a a = 0.
Proof. intros Ha. destruct (dist_le_case a a Ha Ha) as [[_ H]|[H _]]; lia. Qed.

Lemma dist_zero a b : a < n -> b < n -> dist n a b = 0 -> a = b.
Proof. intros Ha Hb H. destruct (dist_le_case a b Ha Hb) as [[? ?]|[? ?]]; lia. Qed.

Lemma add_mod_case a k : a < n -> k < n ->
  (a + k < n /\ (a + k) mod n = a + k) \/ (n <= a + k /\ (a + k) mod n = a + k - n).
Proof.
  intros Ha Hk. destruct (lt_dec (a + k) n) as [H|H].
  - left. split; [assumption|]. apply Nat.mod_small. assumption.
  - right. split; [lia|].
    replace (a + k) with ((a + k - n) + 1 * n) at 1 by lia.
    rewrite Nat.mod_add by lia. apply Nat.mod_small. lia.
Qed.

Lemma dist_add a k : a < n -> k < n -> dist n a ((a + k) mod n) = k.
Proof.
  intros Ha Hk.
  assert (Hlt : (a + k) mod n < n) by (apply Nat.mod_upper_bound; lia).
  destruct (add_mod_case a k Ha Hk) as [[H1 H2]|[H1 H2]];
  destruct (dist_le_case a ((a+k) mod n) Ha Hlt) as [[H3 H4]|[H3 H4]]; lia.
Qed.

Lemma add_dist a b : a < n -> b < n -> (a + dist n a b) mod n = b.
Proof.
  intros Ha Hb.
  destruct (dist_le_case a b Ha Hb) as [[H1 H2]|[H1 H2]]; rewrite H2.
  - replace (a + (b - a)) with b by lia. apply Nat.mod_small. assumption.
  - replace (a + (b + n - a)) with (b + 1 * n) by lia.
    rewrite Nat.mod_add by lia. apply Nat.mod_small. assumption.
Qed.

(* triangle: if b lies within [a, c] going forward from a *)
Lemma dist_split a b c : a < n -> b < n -> c < n ->
  dist n a b <= dist n a c -> dist n a b + dist n b c = dist n a c.
Proof.
  intros Ha Hb Hc H.
  destruct (dist_le_case a b Ha Hb) as [[? ?]|[? ?]];
  destruct (dist_le_case a c Ha Hc) as [[? ?]|[? ?]];
  destruct (dist_le_case b c Hb Hc) as [[? ?]|[? ?]]; lia.
Qed.

Lemma dist_succ a b : a < n -> b < n -> a <> b ->
  dist n (S a mod n) b + 1 = dist n a b.
Proof.
  intros Ha Hb Hab.
  assert (Hlt : S a mod n < n) by (apply Nat.mod_upper_bound; lia).
  destruct (Nat.eq_dec n 1) as [->|Hn1]; [lia|].
  assert (H1 : 1 < n) by lia.
  replace (S a) with (a + 1) in * by lia.
  destruct (add_mod_case a 1 Ha H1) as [[? ?]|[? ?]];
  destruct (dist_le_case a b Ha Hb) as [[? ?]|[? ?]];
  destruct (dist_le_case ((a+1) mod n) b Hlt Hb) as [[? ?]|[? ?]]; lia.
Qed.

Lemma dist_succ_r a b : a < n -> b < n -> S b mod n <> a ->
  dist n a (S b mod n) = dist n a b + 1.
Proof.
  intros Ha Hb Hab.
  assert (Hlt : S b mod n < n) by (apply Nat.mod_upper_bound; lia).
  destruct (Nat.eq_dec n 1) as [->|Hn1].
  { assert (a = 0) by lia. subst. rewrite Nat.mod_1_r in Hab. lia. }
  assert (H1 : 1 < n) by lia.
  replace (S b) with (b + 1) in * by lia.
  destruct (add_mod_case b 1 Hb H1) as [[? ?]|[? ?]];
  destruct (dist_le_case a b Ha Hb) as [[? ?]|[? ?]];
  destruct (dist_le_case a ((b+1) mod n) Ha Hlt) as [[? ?]|[? ?]]; lia.
Qed.

Lemma dist_inj a b c : a < n -> b < n -> c < n -> dist n a b = dist n a c -> b = c.
Proof.
  intros Ha Hb Hc H.
  destruct (dist_le_case a b Ha Hb) as [[? ?]|[? ?]];
  destruct (dist_le_case a c Ha Hc) as [[? ?]|[? ?]]; lia.
Qed.

Lemma succ_eq_dist a b : a < n -> b < n -> S b mod n = a -> dist n a b = n - 1.
Proof.
  intros Ha Hb H.
  destruct (Nat.eq_dec n 1) as [->|Hn1]; [unfold dist; rewrite Nat.mod_1_r; reflexivity|].
  assert (H1 : 1 < n) by lia.
  replace (S b) with (b + 1) in H by lia.
  destruct (add_mod_case b 1 Hb H1) as [[? ?]|[? ?]];
  destruct (dist_le_case a b Ha Hb) as [[? ?]|[? ?]]; lia.
Qed.

Lemma dist_one a : a < n -> 2 <= n -> dist n a (S a mod n) = 1.
Proof.
  intros Ha H2.
  assert (Hlt : S a mod n < n) by (apply Nat.mod_upper_bound; lia).
  assert (H1 : 1 < n) by lia.
  replace (S a) with (a + 1) in * by lia.
  destruct (add_mod_case a 1 Ha H1) as [[? ?]|[? ?]];
  destruct (dist_le_case a ((a+1) mod n) Ha Hlt) as [[? ?]|[? ?]]; lia.
Qed.

Lemma dist_rev i j r : i < n -> j < n -> r < n ->
  dist n i j < dist n i r -> dist n r i + dist n i j = dist n r j.
Proof.
  intros Hi Hj Hr H.
  destruct (dist_le_case i j Hi Hj) as [[? ?]|[? ?]];
  destruct (dist_le_case i r Hi Hr) as [[? ?]|[? ?]];
  destruct (dist_le_case r i Hr Hi) as [[? ?]|[? ?]];
  destruct (dist_le_case r j Hr Hj) as [[? ?]|[? ?]]; lia.
Qed.

Lemma add_mod_shift h s k i : (h + s) mod n = i -> (h + (s + k)) mod n = (i + k) mod n.
Proof.
  intros H. rewrite <- H. rewrite Nat.add_mod_idemp_l by lia. f_equal. lia.
Qed.

Definition in_cyc (i j r : nat) : bool :=
  if i <=? j then (i <? r) && (r <=? j) else (i <? r) || (r <=? j).

Lemma in_cyc_spec i j r : i < n -> j < n -> r < n -> i <> j ->
  in_cyc i j r = true <-> (0 < dist n i r /\ dist n i r <= dist n i j).
Proof.
  intros Hi Hj Hr Hij. unfold in_cyc.
  destruct (dist_le_case i j Hi Hj) as [[? ?]|[? ?]];
  destruct (dist_le_case i r Hi Hr) as [[? ?]|[? ?]];
  destruct (Nat.leb_spec i j); try lia;
  destruct (Nat.ltb_spec i r); destruct (Nat.leb_spec r j); simpl; split; intros; try lia; try discriminate; auto.
Qed.

End Cyc.
