(* C04 - "running is total", Part E.7: [natives_simple] (no native function VALUE names a native that calls back)
   is kept by every instruction except NativeFunctionPointer (38), the only one that creates native function
   values; for 38 it is a condition on the string operand (program text). *)
From Coq Require Import NArith ZArith List Lia Bool.
From Cao Require Import ListUtil Bits Stacks Vm VmProofs C04VmProofs C04VmProofs2 C04VmProofs3 C04VmProofs4 C04VmProofs5
  C04VmProofs6 C04VmProofs8 C04VmProofs9.
Import ListNotations.

Definition no_new_natives (h h' : heap) : Prop :=
  forall a hd, hget h' a = Some (ONative hd) -> hget h a = Some (ONative hd).

Lemma nnn_refl h : no_new_natives h h.
Proof. intros a hd H; exact H. Qed.
Lemma nnn_trans h1 h2 h3 : no_new_natives h1 h2 -> no_new_natives h2 h3 -> no_new_natives h1 h3.
Proof. intros A B a hd H. apply A, B, H. Qed.
Lemma nnn_eq h h' : h' = h -> no_new_natives h h'.
Proof. intros ->. apply nnn_refl. Qed.
Lemma nnn_alloc h o : (forall hd, o <> ONative hd) -> no_new_natives h (h ++ [o]).
Proof. intros Ho a hd H. destruct (hget_app_inv _ _ _ _ H) as [H1|[_ E]]; [exact H1 | exfalso; eapply Ho; eauto]. Qed.
Lemma nnn_hset h a o' : (forall hd, o' <> ONative hd) -> no_new_natives h (hset h a o').
Proof.
  intros Ho b hd H. destruct (N.eq_dec a b) as [<-|Hne].
  - destruct (hget h a) eqn:E.
    + rewrite hget_hset_same in H by congruence. inversion H. exfalso. eapply Ho; eauto.
    + exfalso. assert (H1 : hget (hset h a o') a <> None) by congruence.
      rewrite hget_lt, hset_length, <- hget_lt in H1. congruence.
  - rewrite hget_hset_other in H by exact Hne. exact H.
Qed.

Lemma natives_simple_nnn h h' : no_new_natives h h' -> natives_simple h -> natives_simple h'.
Proof. intros Hn Hs a hd n Ha. apply (Hs a hd n). apply Hn. exact Ha. Qed.

Lemma close_upvalues_go_nnn : forall fuel top s,
  match close_upvalues_go fuel top s with
  | ClOk s' | ClErr _ s' => no_new_natives (st_heap s) (st_heap s')
  | ClStop _ _ => True
  end.
Proof.
  induction fuel as [|f IH]; intros top s; cbn [close_upvalues_go]; [exact I|].
  destruct (st_open s) as [a|]; [|apply nnn_refl].
  destruct (hget (st_heap s) a) as [[| | | | |u]|] eqn:Ea; try exact I; try apply nnn_refl.
  destruct (u_loc u) as [l|]; [|exact I].
  destruct (l <? top); [apply nnn_refl|].
  match goal with |- match close_upvalues_go f top ?x with _ => _ end => specialize (IH top x) end.
  destruct (close_upvalues_go f top _); try exact I; cbn [set_open set_heap st_heap] in IH;
    (eapply nnn_trans; [|exact IH]; apply nnn_hset; intros; discriminate).
Qed.

(* peel heap writes of objects that are not native function values *)
Ltac nnn_peel :=
  repeat match goal with
         | |- no_new_natives ?h ?h => apply nnn_refl
         | |- no_new_natives ?h (hset ?h1 ?a ?o) => apply (nnn_trans h h1); [|apply nnn_hset; intros; discriminate]
         | |- no_new_natives ?h (?h1 ++ [?o]) => apply (nnn_trans h h1); [|apply nnn_alloc; intros; discriminate]
         end.

Ltac nnn_done H :=
  crack H; cbn [res_st] in H; try (inversion H; subst; clear H); note_heap;
  unfold set_table in *; cbn [st_heap set_calls set_globals set_stack set_open set_log set_heap spop_n sraw_set] in *;
  repeat match goal with E : st_heap ?a = _ |- _ => rewrite E in *; clear E end;
  nnn_peel.

Section NNN.
Variable F : fops.
Variable bld : build.
Variable P : program.
Variable reenter : N -> state -> rres.

Lemma i_8_nnn opc ip0 ip s s' : res_st (i_8 P opc ip0 ip s) = Some s' -> no_new_natives (st_heap s) (st_heap s').
Proof. unfold i_8, salloc, halloc. intros H. nnn_done H. Qed.
Lemma i_31_nnn opc ip0 ip s s' : res_st (i_31 opc ip0 ip s) = Some s' -> no_new_natives (st_heap s) (st_heap s').
Proof. unfold i_31, salloc, halloc. intros H. nnn_done H. Qed.
Lemma i_37_42_nnn opc ip0 ip s s' : res_st (i_37_42 P opc ip0 ip s) = Some s' -> no_new_natives (st_heap s) (st_heap s').
Proof. unfold i_37_42, salloc, halloc. intros H. destruct (opc =? 37)%N; nnn_done H. Qed.
Lemma i_33_nnn opc ip0 ip s s' : res_st (i_33 F opc ip0 ip s) = Some s' -> no_new_natives (st_heap s) (st_heap s').
Proof. unfold i_33. intros H. nnn_done H. Qed.
Lemma i_40_nnn opc ip0 ip s s' : res_st (i_40 F opc ip0 ip s) = Some s' -> no_new_natives (st_heap s) (st_heap s').
Proof. unfold i_40. intros H. nnn_done H. Qed.
Lemma i_41_nnn opc ip0 ip s s' : res_st (i_41 F opc ip0 ip s) = Some s' -> no_new_natives (st_heap s) (st_heap s').
Proof. unfold i_41. intros H. nnn_done H. Qed.
Lemma i_39_nnn opc ip0 ip s s' : res_st (i_39 F opc ip0 ip s) = Some s' -> no_new_natives (st_heap s) (st_heap s').
Proof.
  intros H. destruct (nth_row_heap F _ _ _ _ _ H) as [->|(a & t & key & val & t1 & t2 & _ & _ & _ & _ & _ & ->)];
    [apply nnn_refl|].
  unfold row_heap. nnn_peel.
Qed.
Lemma i_22_nnn opc ip0 ip s s' : res_st (i_22 opc ip0 ip s) = Some s' -> no_new_natives (st_heap s) (st_heap s').
Proof.
  unfold i_22. intros H. destruct (st_calls s) as [|fr rest]; [cbn [res_st] in H; inversion H; apply nnn_refl|]. cbv zeta in H.
  pose proof (close_upvalues_go_nnn (S (length (st_heap (set_calls s rest)))) (N.to_nat (fr_off fr)) (set_calls s rest)) as Ec.
  unfold close_upvalues_from in H. destruct (close_upvalues_go _ _ _) as [s2|e s2|]; [| |discriminate H].
  - cbn [set_calls st_heap] in Ec. destruct (sclear_until s2 _) as [s3 v] eqn:E3. apply sclear_until_heap in E3.
    destruct rest; [cbn [res_st] in H; inversion H; subst; rewrite E3; exact Ec|].
    apply push_next_heap in H. rewrite H, E3. exact Ec.
  - cbn [res_st] in H. inversion H; subst. exact Ec.
Qed.
Lemma i_46_nnn opc ip0 ip s s' : res_st (i_46 P opc ip0 ip s) = Some s' -> no_new_natives (st_heap s) (st_heap s').
Proof.
  unfold i_46. intros H. destruct (op_u32 P ip) as [idx|]; [|discriminate]. destruct (top_offset s) as [off|]; [|discriminate].
  pose proof (close_upvalues_go_nnn (S (length (st_heap s))) (off + N.to_nat idx) s) as Ec.
  unfold close_upvalues_from in H. destruct (close_upvalues_go _ _ _) as [s2|e s2|]; [| |discriminate H];
    cbn [res_st] in H; inversion H; subst; exact Ec.
Qed.
Lemma i_43_44_nnn opc ip0 ip s s' : res_st (i_43_44 P opc ip0 ip s) = Some s' -> no_new_natives (st_heap s) (st_heap s').
Proof. unfold i_43_44. intros H. destruct (opc =? 43)%N; nnn_done H. Qed.
Lemma i_45_nnn opc ip0 ip s s' : res_st (i_45 P opc ip0 ip s) = Some s' -> no_new_natives (st_heap s) (st_heap s').
Proof. unfold i_45, salloc, halloc. intros H. nnn_done H. Qed.

(* NativeFunctionPointer: the new native function value is named by the string operand *)
Lemma i_38_simple opc ip0 ip s s' : res_st (i_38 P opc ip0 ip s) = Some s' ->
  (forall hd b n, op_u32 P ip = Some hd -> read_str hd (p_data P) = StrOk b ->
     find_native (handle_of_bytes b) all_natives = Some n -> simple n = true) ->
  natives_simple (st_heap s) -> natives_simple (st_heap s').
Proof.
  unfold i_38, salloc, halloc. intros H Hname Hs.
  destruct (op_u32 P ip) as [hd|] eqn:Eh; [|discriminate]. destruct (read_str hd (p_data P)) as [b| |] eqn:Eb;
    [| cbn [res_st] in H; inversion H; subst; exact Hs | discriminate].
  apply push_next_heap in H. rewrite H. cbn [set_heap st_heap].
  intros a hd' n Ha En. destruct (hget_app_inv _ _ _ _ Ha) as [H1|[_ E]]; [eapply Hs; eauto|].
  inversion E; subst hd'. eapply Hname; eauto.
Qed.

End NNN.

(* the static condition: every NativeFunctionPointer of the program names a native that does not call back
   (or no native at all) *)
Definition native_pointers_simple (P : program) : Prop :=
  forall ip hd b n, opcode_at P ip = 38%N -> op_u32 P (ip + 1) = Some hd -> read_str hd (p_data P) = StrOk b ->
    find_native (handle_of_bytes b) all_natives = Some n -> simple n = true.

Theorem step_keeps_natives_simple : forall F bld P reenter ip0 s s',
  res_st (step F bld P reenter ip0 s) = Some s' ->
  native_pointers_simple P -> natives_simple (st_heap s) ->
  opcode_at P ip0 <> 4%N ->
  (opcode_at P ip0 = 11%N -> forall a h, top1 s = VObj a -> hget (st_heap s) a <> Some (ONative h)) ->
  natives_simple (st_heap s').
Proof.
  intros F bld P reenter ip0 s s' H Hnp Hs H4 H11. unfold step in H. cbv zeta in H.
  fold (opcode_at P ip0) in H. remember (opcode_at P ip0) as k eqn:Ek.
  assert (Heq : forall h', h' = st_heap s -> natives_simple h') by (intros h' ->; exact Hs).
  assert (Hn : forall h', no_new_natives (st_heap s) h' -> natives_simple h').
  { intros h' Hh. eapply natives_simple_nnn; eauto. }
  destruct k as [|p]; [|do 6 (try destruct p as [p|p|])]; try discriminate H;
    try (exfalso; apply H4; reflexivity).
  all: try (match type of H with res_st (SExit _) = _ => cbn [res_st] in H; inversion H; subst; exact Hs end).
  all: try (apply Heq;
    match type of H with
    | context [binary_op] => eapply binary_op_heap; exact H
    | context [i_5] => eapply i_5_heap; exact H
    | context [i_6] => eapply i_6_heap; exact H
    | context [i_17] => eapply i_17_heap; exact H
    | context [i_18] => eapply i_18_heap; exact H
    | context [i_19] => eapply i_19_heap; exact H
    | context [i_20] => eapply i_20_heap; exact H
    | context [i_21] => eapply i_21_heap; exact H
    | context [i_23] => eapply i_23_heap; exact H
    | context [i_27] => eapply i_27_heap; exact H
    | context [i_28] => eapply i_28_heap; exact H
    | context [i_29_30] => eapply i_29_30_heap; exact H
    | context [i_32] => eapply i_32_heap; exact H
    | context [i_34] => eapply i_34_heap; exact H
    | context [i_35] => eapply i_35_heap; exact H
    | context [i_36] => eapply i_36_heap; exact H
    | context [i_11] => eapply i_11_heap; [apply H11; reflexivity | exact H]
    | context [push_next] => eapply push_next_heap; exact H
    end).
  all: try (apply Hn;
    match type of H with
    | context [i_8] => eapply i_8_nnn; exact H
    | context [i_31] => eapply i_31_nnn; exact H
    | context [i_37_42] => eapply i_37_42_nnn; exact H
    | context [i_33] => eapply i_33_nnn; exact H
    | context [i_39] => eapply i_39_nnn; exact H
    | context [i_40] => eapply i_40_nnn; exact H
    | context [i_41] => eapply i_41_nnn; exact H
    | context [i_22] => eapply i_22_nnn; exact H
    | context [i_46] => eapply i_46_nnn; exact H
    | context [i_43_44] => eapply i_43_44_nnn; exact H
    | context [i_45] => eapply i_45_nnn; exact H
    end).
  all: try (match type of H with
    | context [i_38] => eapply i_38_simple; [exact H | | exact Hs];
        intros hd b n E1 E2 E3; eapply (Hnp ip0); eauto
    end).
  (* Pop *)
  cbn [res_st] in H. inversion H; subst. apply Heq. destruct (spop s) as [s1 v] eqn:E. cbn [fst]. eapply spop_heap; eauto.
Qed.
