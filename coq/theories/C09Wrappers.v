(* C09, part D: the remaining seven functions of the std module are thin CARD wrappers around the
   natives: to_array, min_by_key / max_by_key / sorted_by_key (Return (CallNative ...)), min / max /
   sorted (Return (Call "x_by_key" [Function "row_to_value"; iterable])) and row_to_value.
   Evaluated by RefSem.eval they return what the natives return (C09Natives.v), i.e. what the
   specification functions of StdSpec.v say; heap apart from the result, globals and log unchanged. *)
From Coq Require Import List NArith ZArith Bool Arith Lia Permutation.
From Cao Require Import CheckUtil Bits CardAst Table TableProofs Value StdlibGen RefSem RefSemProofs
     StdSpec StdRun StdRunProofs C09Proofs SortOrderProofs C09Cards C09Natives.
Import ListNotations.

(* ------------------------------------------------------------------------------------------ *)
(* names and program texts                                                                    *)
(* ------------------------------------------------------------------------------------------ *)
Definition s_to_array : str := [116; 111; 95; 97; 114; 114; 97; 121]%N.
Definition s_min : str := [109; 105; 110]%N.
Definition s_max : str := [109; 97; 120]%N.
Definition s_sorted : str := [115; 111; 114; 116; 101; 100]%N.
Definition s_min_by_key : str := [109; 105; 110; 95; 98; 121; 95; 107; 101; 121]%N.
Definition s_max_by_key : str := [109; 97; 120; 95; 98; 121; 95; 107; 101; 121]%N.
Definition s_sorted_by_key : str := [115; 111; 114; 116; 101; 100; 95; 98; 121; 95; 107; 101; 121]%N.
Definition s_row_to_value : str := [114; 111; 119; 95; 116; 111; 95; 118; 97; 108; 117; 101]%N.
Definition s_key_function : str := [107; 101; 121; 95; 102; 117; 110; 99; 116; 105; 111; 110]%N.
Definition s_ukey : str := [95; 107; 101; 121]%N.     (* "_key" *)
Definition s_val : str := [118; 97; 108]%N.

Definition to_array_fun : function :=
  Build_function [s_iterable] [CUn UReturn (CCallNative n_to_array [CReadVar s_iterable])].
Definition by_key_fun (native : str) : function :=
  Build_function [s_iterable; s_key_function]
    [CUn UReturn (CCallNative native [CReadVar s_iterable; CReadVar s_key_function])].
Definition plain_fun (by_key : str) : function :=
  Build_function [s_iterable]
    [CUn UReturn (CCall by_key [CFunction s_row_to_value; CReadVar s_iterable])].
Definition row_to_value_fun : function :=
  Build_function [s_ukey; s_val] [CUn UReturn (CReadVar s_val)].

Lemma std_fn_to_array : std_fn s_to_array = Some to_array_fun.
Proof. vm_compute. reflexivity. Qed.
Lemma std_fn_min_by_key : std_fn s_min_by_key = Some (by_key_fun n_min).
Proof. vm_compute. reflexivity. Qed.
Lemma std_fn_max_by_key : std_fn s_max_by_key = Some (by_key_fun n_max).
Proof. vm_compute. reflexivity. Qed.
Lemma std_fn_sorted_by_key : std_fn s_sorted_by_key = Some (by_key_fun n_sort).
Proof. vm_compute. reflexivity. Qed.
Lemma std_fn_min : std_fn s_min = Some (plain_fun s_min_by_key).
Proof. vm_compute. reflexivity. Qed.
Lemma std_fn_max : std_fn s_max = Some (plain_fun s_max_by_key).
Proof. vm_compute. reflexivity. Qed.
Lemma std_fn_sorted : std_fn s_sorted = Some (plain_fun s_sorted_by_key).
Proof. vm_compute. reflexivity. Qed.
Lemma std_fn_row_to_value : std_fn s_row_to_value = Some row_to_value_fun.
Proof. vm_compute. reflexivity. Qed.

Definition envA (c0 : nat) : env := {| e_scopes := [[(s_iterable, c0)]]; e_up := [] |}.
Definition envK (c0 : nat) : env :=
  {| e_scopes := [[(s_iterable, c0); (s_key_function, S c0)]]; e_up := [] |}.
Definition envR (c0 : nat) : env :=
  {| e_scopes := [[(s_ukey, c0); (s_val, S c0)]]; e_up := [] |}.

Lemma extends_alloc s x : extends s (set_cells (st_cells s ++ x) s).
Proof.
  split; cbn; try reflexivity; [exists x; reflexivity | exists []; rewrite app_nil_r; reflexivity].
Qed.

Lemma extends_bump_l s s' : extends (bump s) s' -> extends s s'.
Proof. intros H. eapply extends_trans; [apply extends_bump | exact H]. Qed.

Lemma nth_error_2 {A} (l : list A) a b :
  nth_error (l ++ [a; b]) (length l) = Some a /\ nth_error (l ++ [a; b]) (S (length l)) = Some b.
Proof. induction l as [|x l IH]; cbn [app length nth_error]; [split; reflexivity | exact IH]. Qed.

(* ------------------------------------------------------------------------------------------ *)
(* more rules                                                                                 *)
(* ------------------------------------------------------------------------------------------ *)
Section Rules2.
  Variable P : list fentry.
  Variable host : list str.
  Notation runs := (runs P host).

  Lemma r_call_native fi e name cs s vs e1 s1 r e' s2 :
    runs (TkArgs false fi e cs) (bump s) (ok vs e1 s1) -> runs (TkNative name vs) s1 (ok r e' s2) ->
    runs (TkCard fi e (CCallNative name cs)) s (ok r e1 s2).
  Proof.
    intros H1 H2. destruct (join2 P host (st_steps s) _ _ _ _ _ _ H1 H2) as (f & l & Hl & E1 & E2).
    exists (S f), l. split; [|discriminate]. rewrite eval_S, F_unfold by exact Hl. cbv zeta.
    cbn [eval_card]. rewrite E1. cbn [bnd ok]. rewrite E2. reflexivity.
  Qed.

  Lemma r_call fi e name cs s vs e1 s1 i r e' s2 :
    runs (TkArgs false fi e cs) (bump s) (ok vs e1 s1) -> resolve P fi name = Some i ->
    runs (TkCallFn i vs) s1 (ok r e' s2) ->
    runs (TkCard fi e (CCall name cs)) s (ok r e1 s2).
  Proof.
    intros H1 Hr H2. destruct (join2 P host (st_steps s) _ _ _ _ _ _ H1 H2) as (f & l & Hl & E1 & E2).
    exists (S f), l. split; [|discriminate]. rewrite eval_S, F_unfold by exact Hl. cbv zeta.
    cbn [eval_card]. rewrite E1. cbn [bnd ok]. rewrite Hr, E2. reflexivity.
  Qed.

  Lemma r_function fi e name s i :
    resolve P fi name = Some i -> runs (TkCard fi e (CFunction name)) s (ok [VFn i] e (bump s)).
  Proof.
    intros Hr. exists 1, (st_steps s). split; [|discriminate].
    rewrite eval_S, F_unfold by lia. cbv zeta. cbn [eval_card]. rewrite Hr. reflexivity.
  Qed.

  Lemma r_callval_fn idx args s r : runs (TkCallFn idx args) (bump s) r -> runs (TkCallVal (VFn idx) args) s r.
  Proof.
    intros H1. pose proof (runs_not_fuel _ _ _ _ _ H1) as N.
    destruct (join1 P host (st_steps s) _ _ _ H1) as (f & l & Hl & E1).
    exists (S f), l. split; [|exact N]. rewrite eval_S, F_unfold by exact Hl. exact E1.
  Qed.

  Lemma bind_params1 a x s :
    bind_params [a] [x] s = ([(a, length (st_cells s))], set_cells (st_cells s ++ [x]) s).
  Proof. reflexivity. Qed.

  Lemma r_call1 idx fe a body x s r :
    nth_error P idx = Some fe -> fe_fn fe = Build_function [a] body ->
    runs (TkSeq idx {| e_scopes := [[(a, length (st_cells s))]]; e_up := [] |} body)
         (set_cells (st_cells s ++ [x]) (bump s)) r ->
    runs (TkCallFn idx [x]) s (finish_call r).
  Proof.
    intros Hfe Hfn H1. pose proof (runs_not_fuel _ _ _ _ _ H1) as N.
    destruct (join1 P host (st_steps s) _ _ _ H1) as (f & l & Hl & E1).
    exists (S f), l. split; [|apply finish_call_not_fuel; exact N].
    rewrite eval_S, F_unfold by exact Hl. cbv zeta. rewrite Hfe, Hfn. cbn [f_args f_cards].
    unfold call_body. cbn [length Nat.ltb Nat.leb]. rewrite bind_params1.
    f_equal. exact E1.
  Qed.

  (* a body that is one Return card *)
  Lemma run_ret_body fi e c s v e1 s1 :
    runs (TkCard fi e c) (bump (bump (bump s))) (ok [v] e1 s1) ->
    runs (TkSeq fi e [CUn UReturn c]) s (ROk (ORet v) e1 (bump s1)).
  Proof.
    intros H. apply r_seq_stop; [|exact I]. apply r_return.
    eapply r_args_cons; [exact H | apply r_args_nil].
  Qed.

  (* ---- the wrappers: the call reaches the native (the inner call) in a state s2 that differs
     from s only by cells and steps, and hands its one result back ---- *)
  Lemma wrap_to_array idx fe x s :
    nth_error P idx = Some fe -> fe_fn fe = to_array_fun ->
    exists s2, extends s s2 /\
      forall r s3, runs (TkNative n_to_array [x]) s2 (ok [r] empty_env s3) ->
                   runs (TkCallFn idx [x]) s (ok [r] empty_env (bump s3)).
  Proof.
    intros Hfe Hff.
    set (c0 := length (st_cells s)). set (s1 := set_cells (st_cells s ++ [x]) (bump s)).
    assert (X1 : extends s s1).
    { eapply extends_trans; [apply extends_bump | apply (extends_alloc (bump s))]. }
    destruct (run_args_vars P host idx (envA c0) [s_iterable] [x] (bump (bump (bump (bump s1)))))
      as (s2 & R2 & X2).
    { constructor; [|constructor]. split; [reflexivity|]. split; [reflexivity|]. exists c0.
      split; [reflexivity|]. unfold s1, c0. cbn [st_cells set_cells bump]. apply nth_error_last. }
    exists s2. split.
    - eapply extends_trans; [exact X1|]. do 4 apply extends_bump_l. exact X2.
    - intros r s3 Hn.
      change (ok [r] empty_env (bump s3)) with (finish_call (ROk (ORet r) (envA c0) (bump s3))).
      eapply r_call1; [exact Hfe | exact Hff |]. fold c0. fold s1.
      change {| e_scopes := [[(s_iterable, c0)]]; e_up := [] |} with (envA c0).
      apply run_ret_body. eapply r_call_native; [exact R2 | exact Hn].
  Qed.

  Lemma wrap_by_key idx fe native x keyfn s :
    nth_error P idx = Some fe -> fe_fn fe = by_key_fun native ->
    exists s2, extends s s2 /\
      forall r s3, runs (TkNative native [x; keyfn]) s2 (ok [r] empty_env s3) ->
                   runs (TkCallFn idx [keyfn; x]) s (ok [r] empty_env (bump s3)).
  Proof.
    intros Hfe Hff.
    set (c0 := length (st_cells s)). set (s1 := set_cells (st_cells s ++ [x; keyfn]) (bump s)).
    assert (X1 : extends s s1).
    { eapply extends_trans; [apply extends_bump | apply (extends_alloc (bump s))]. }
    destruct (run_args_vars P host idx (envK c0) [s_iterable; s_key_function] [x; keyfn]
                (bump (bump (bump (bump s1))))) as (s2 & R2 & X2).
    { pose proof (nth_error_2 (st_cells s) x keyfn) as [A B].
      constructor; [|constructor; [|constructor]].
      - split; [reflexivity|]. split; [reflexivity|]. exists c0. split; [reflexivity | exact A].
      - split; [reflexivity|]. split; [reflexivity|]. exists (S c0). split; [reflexivity | exact B]. }
    exists s2. split.
    - eapply extends_trans; [exact X1|]. do 4 apply extends_bump_l. exact X2.
    - intros r s3 Hn.
      change (ok [r] empty_env (bump s3)) with (finish_call (ROk (ORet r) (envK c0) (bump s3))).
      eapply r_call2; [exact Hfe | exact Hff |]. fold c0. fold s1.
      change {| e_scopes := [[(s_iterable, c0); (s_key_function, S c0)]]; e_up := [] |} with (envK c0).
      apply run_ret_body. eapply r_call_native; [exact R2 | exact Hn].
  Qed.

  Lemma wrap_plain idx fe by_key idx2 idx3 x s :
    nth_error P idx = Some fe -> fe_fn fe = plain_fun by_key ->
    resolve P idx by_key = Some idx2 -> resolve P idx s_row_to_value = Some idx3 ->
    exists s2, extends s s2 /\
      forall r s3, runs (TkCallFn idx2 [VFn idx3; x]) s2 (ok [r] empty_env s3) ->
                   runs (TkCallFn idx [x]) s (ok [r] empty_env (bump s3)).
  Proof.
    intros Hfe Hff Hr2 Hr3.
    set (c0 := length (st_cells s)). set (s1 := set_cells (st_cells s ++ [x]) (bump s)).
    assert (X1 : extends s s1).
    { eapply extends_trans; [apply extends_bump | apply (extends_alloc (bump s))]. }
    set (sa := bump (bump (bump (bump s1)))).
    destruct (run_args_vars P host idx (envA c0) [s_iterable] [x] (bump (bump sa))) as (s2 & R2 & X2).
    { constructor; [|constructor]. split; [reflexivity|]. split; [reflexivity|]. exists c0.
      split; [reflexivity|]. unfold sa, s1, c0. cbn [st_cells set_cells bump]. apply nth_error_last. }
    exists s2. split.
    - eapply extends_trans; [exact X1|]. unfold sa. do 6 apply extends_bump_l. exact X2.
    - intros r s3 Hn.
      change (ok [r] empty_env (bump s3)) with (finish_call (ROk (ORet r) (envA c0) (bump s3))).
      eapply r_call1; [exact Hfe | exact Hff |]. fold c0. fold s1.
      change {| e_scopes := [[(s_iterable, c0)]]; e_up := [] |} with (envA c0).
      apply run_ret_body. fold sa. eapply r_call; [|exact Hr2 | exact Hn].
      eapply r_args_cons; [apply r_function; exact Hr3 | exact R2].
  Qed.

  (* ---- row_to_value(_key, val): called with two arguments it returns the first (the value) ---- *)
  Lemma row_to_value_pure idx :
    has_std P idx s_row_to_value -> pure_cb_on P host two_args (VFn idx) (fun args => nth 0 args VNil).
  Proof.
    intros (fe & f & Hfe & Hf & Hff). rewrite std_fn_row_to_value in Hf. injection Hf as <-.
    intros args s Ha. destruct args as [|a [|b [|]]]; try discriminate Ha. cbn [nth].
    set (s0 := bump s). set (c0 := length (st_cells s0)).
    set (s1 := set_cells (st_cells s0 ++ [b; a]) (bump s0)).
    destruct (run_args_vars P host idx (envR c0) [s_val] [a] (bump (bump s1))) as (s2 & R2 & X2).
    { pose proof (nth_error_2 (st_cells s0) b a) as [_ B].
      constructor; [|constructor]. split; [reflexivity|]. split; [reflexivity|]. exists (S c0).
      split; [reflexivity | exact B]. }
    exists s2. split.
    - apply r_callval_fn. fold s0.
      change (ok [a] empty_env s2) with (finish_call (ROk (ORet a) (envR c0) s2)).
      eapply r_call2; [exact Hfe | exact Hff |]. fold c0. fold s1.
      change {| e_scopes := [[(s_ukey, c0); (s_val, S c0)]]; e_up := [] |} with (envR c0).
      apply r_seq_stop; [|exact I]. apply r_return. exact R2.
    - eapply extends_trans; [apply extends_bump|]. fold s0.
      eapply extends_trans; [apply extends_bump|].
      eapply extends_trans; [apply (extends_alloc (bump s0))|]. fold s1.
      do 2 apply extends_bump_l. exact X2.
  Qed.

  Lemma key_by_row_to_value :
    key_by_cb of_key (fun args : list value => nth 0 args VNil) = @key_by_value tkey value.
  Proof. reflexivity. Qed.

  (* ---- __sort with the validity of the keys demanded only for the entries of the table
     (native_sort_correct_on of C09Natives.v asks it for every argument list; the proof is the
     same) ---- *)
  Ltac lift E N := rewrite (eval_lift _ _ _ _ _ _ _ _ _ E N) by lia.

  Theorem native_sort_correct_in keyfn cb s p tb :
    nth_error (st_heap s) p = Some tb -> wf_table tb ->
    pure_cb_on P host two_args keyfn cb ->
    (forall e, In e tb -> key_valid (key_by_cb of_key cb e) = true) ->
    exists s',
      runs (TkNative n_sort [VTable p; keyfn]) s (ok [VTable (length (st_heap s))] empty_env s') /\
      st_heap s' = st_heap s ++ [spec_sorted (sort_lt (st_heap s)) (key_by_cb of_key cb) tb] /\
      same_world s s'.
  Proof. exact (native_sort_correct_on P host keyfn cb s p tb). Qed.
End Rules2.

(* ------------------------------------------------------------------------------------------ *)
(* 1. to_array                                                                                *)
(* ------------------------------------------------------------------------------------------ *)
Theorem std_to_array_correct : forall P host idx s p tb,
  has_std P idx s_to_array -> nth_error (st_heap s) p = Some tb ->
  exists s',
    runs P host (TkCallFn idx [VTable p]) s (ok [VTable (length (st_heap s))] empty_env s') /\
    st_heap s' = st_heap s ++ [spec_to_array k_idx tb] /\
    st_globals s' = st_globals s /\ st_log s' = st_log s.
Proof.
  intros P host idx s p tb (fe & f & Hfe & Hf & Hff) Hp.
  rewrite std_fn_to_array in Hf. injection Hf as <-.
  destruct (wrap_to_array P host idx fe (VTable p) s Hfe Hff) as (s2 & X2 & Hw).
  destruct (native_to_array_correct P host s2 p tb) as (s3 & R3 & H3 & G3 & L3).
  { rewrite (ext_heap _ _ X2). exact Hp. }
  rewrite (ext_heap _ _ X2) in R3, H3.
  exists (bump s3). split; [apply Hw; exact R3|]. split; [exact H3|]. split.
  - cbn [st_globals bump]. rewrite G3. apply (ext_globals _ _ X2).
  - cbn [st_log bump]. rewrite L3. apply (ext_log _ _ X2).
Qed.

(* ------------------------------------------------------------------------------------------ *)
(* 2. sorted_by_key                                                                           *)
(* ------------------------------------------------------------------------------------------ *)
(* the keys of the entries of the table are valid numbers (nothing asked of other calls) *)
Theorem std_sorted_by_key_correct_in : forall P host idx keyfn cb s p tb,
  has_std P idx s_sorted_by_key ->
  nth_error (st_heap s) p = Some tb -> wf_table tb ->
  pure_cb_on P host two_args keyfn cb ->
  (forall e, In e tb -> key_valid (key_by_cb of_key cb e) = true) ->
  exists s',
    runs P host (TkCallFn idx [keyfn; VTable p]) s (ok [VTable (length (st_heap s))] empty_env s') /\
    st_heap s' = st_heap s ++ [spec_sorted (sort_lt (st_heap s)) (key_by_cb of_key cb) tb] /\
    st_globals s' = st_globals s /\ st_log s' = st_log s.
Proof.
  intros P host idx keyfn cb s p tb (fe & f & Hfe & Hf & Hff) Hp Hwf Hcb Hval.
  rewrite std_fn_sorted_by_key in Hf. injection Hf as <-.
  destruct (wrap_by_key P host idx fe n_sort (VTable p) keyfn s Hfe Hff) as (s2 & X2 & Hw).
  destruct (native_sort_correct_in P host keyfn cb s2 p tb) as (s3 & R3 & H3 & G3 & L3); try assumption.
  { rewrite (ext_heap _ _ X2). exact Hp. }
  rewrite (ext_heap _ _ X2) in R3, H3.
  exists (bump s3). split; [apply Hw; exact R3|]. split; [exact H3|]. split.
  - cbn [st_globals bump]. rewrite G3. apply (ext_globals _ _ X2).
  - cbn [st_log bump]. rewrite L3. apply (ext_log _ _ X2).
Qed.

Theorem std_sorted_by_key_correct : forall P host idx keyfn cb s p tb,
  has_std P idx s_sorted_by_key ->
  nth_error (st_heap s) p = Some tb -> wf_table tb ->
  pure_cb_on P host two_args keyfn cb ->
  (forall args, key_valid (cb args) = true) ->
  exists s',
    runs P host (TkCallFn idx [keyfn; VTable p]) s (ok [VTable (length (st_heap s))] empty_env s') /\
    st_heap s' = st_heap s ++ [spec_sorted (sort_lt (st_heap s)) (key_by_cb of_key cb) tb] /\
    st_globals s' = st_globals s /\ st_log s' = st_log s.
Proof.
  intros P host idx keyfn cb s p tb H Hp Hwf Hcb Hval.
  apply std_sorted_by_key_correct_in; try assumption. intros e _. apply Hval.
Qed.

(* ------------------------------------------------------------------------------------------ *)
(* 3. min_by_key / max_by_key                                                                 *)
(* ------------------------------------------------------------------------------------------ *)
Theorem std_min_max_by_key_correct : forall P host idx fname nname keyfn cb s p tb,
  (fname = s_min_by_key /\ nname = n_min) \/ (fname = s_max_by_key /\ nname = n_max) ->
  has_std P idx fname ->
  nth_error (st_heap s) p = Some tb ->
  pure_cb_on P host two_args keyfn cb ->
  exists s',
    match spec_best (cmp_is (st_heap s) (want_of nname)) (key_by_cb of_key cb) tb with
    | None =>
        runs P host (TkCallFn idx [keyfn; VTable p]) s (ok [VNil] empty_env s') /\
        st_heap s' = st_heap s
    | Some e =>
        runs P host (TkCallFn idx [keyfn; VTable p]) s (ok [VTable (length (st_heap s))] empty_env s') /\
        st_heap s' = st_heap s ++ [row_value_table e]
    end /\ st_globals s' = st_globals s /\ st_log s' = st_log s.
Proof.
  intros P host idx fname nname keyfn cb s p tb Hname (fe & f & Hfe & Hf & Hff) Hp Hcb.
  assert (Hf' : f = by_key_fun nname).
  { destruct Hname as [[-> ->] | [-> ->]].
    - rewrite std_fn_min_by_key in Hf. injection Hf as <-. reflexivity.
    - rewrite std_fn_max_by_key in Hf. injection Hf as <-. reflexivity. }
  rewrite Hf' in Hff. clear Hf Hf'.
  assert (Hn : nname = n_min \/ nname = n_max) by (destruct Hname as [[_ ->] | [_ ->]]; auto).
  destruct (wrap_by_key P host idx fe nname (VTable p) keyfn s Hfe Hff) as (s2 & X2 & Hw).
  destruct (native_minmax_correct_on P host nname keyfn cb s2 p tb Hn) as (s3 & H3 & G3 & L3).
  { rewrite (ext_heap _ _ X2). exact Hp. }
  { exact Hcb. }
  rewrite (ext_heap _ _ X2) in H3.
  exists (bump s3). split; [|split].
  - destruct (spec_best _ _ tb) as [e|]; destruct H3 as [R3 Hh3]; (split; [apply Hw; exact R3 | exact Hh3]).
  - cbn [st_globals bump]. rewrite G3. apply (ext_globals _ _ X2).
  - cbn [st_log bump]. rewrite L3. apply (ext_log _ _ X2).
Qed.

(* ------------------------------------------------------------------------------------------ *)
(* 5. sorted / min / max: the _by_key function with row_to_value as the key function          *)
(* ------------------------------------------------------------------------------------------ *)
Theorem std_sorted_correct : forall P host idx idx2 idx3 s p tb,
  has_std P idx s_sorted ->
  resolve P idx s_sorted_by_key = Some idx2 -> has_std P idx2 s_sorted_by_key ->
  resolve P idx s_row_to_value = Some idx3 -> has_std P idx3 s_row_to_value ->
  nth_error (st_heap s) p = Some tb -> wf_table tb ->
  (forall e, In e tb -> key_valid (snd e) = true) ->
  exists s',
    runs P host (TkCallFn idx [VTable p]) s (ok [VTable (length (st_heap s))] empty_env s') /\
    st_heap s' = st_heap s ++ [spec_sorted (sort_lt (st_heap s)) (@key_by_value tkey value) tb] /\
    st_globals s' = st_globals s /\ st_log s' = st_log s.
Proof.
  intros P host idx idx2 idx3 s p tb (fe & f & Hfe & Hf & Hff) Hr2 H2 Hr3 H3 Hp Hwf Hval.
  rewrite std_fn_sorted in Hf. injection Hf as <-.
  destruct (wrap_plain P host idx fe s_sorted_by_key idx2 idx3 (VTable p) s Hfe Hff Hr2 Hr3) as (s2 & X2 & Hw).
  destruct (std_sorted_by_key_correct_in P host idx2 (VFn idx3) (fun args => nth 0 args VNil) s2 p tb H2)
    as (s3 & R3 & Hh3 & G3 & L3).
  { rewrite (ext_heap _ _ X2). exact Hp. }
  { exact Hwf. }
  { apply row_to_value_pure. exact H3. }
  { exact Hval. }
  rewrite (ext_heap _ _ X2) in R3, Hh3.
  exists (bump s3). split; [apply Hw; exact R3|]. split; [exact Hh3|]. split.
  - cbn [st_globals bump]. rewrite G3. apply (ext_globals _ _ X2).
  - cbn [st_log bump]. rewrite L3. apply (ext_log _ _ X2).
Qed.

Theorem std_min_max_correct : forall P host idx idx2 idx3 fname bname nname s p tb,
  (fname = s_min /\ bname = s_min_by_key /\ nname = n_min) \/
  (fname = s_max /\ bname = s_max_by_key /\ nname = n_max) ->
  has_std P idx fname ->
  resolve P idx bname = Some idx2 -> has_std P idx2 bname ->
  resolve P idx s_row_to_value = Some idx3 -> has_std P idx3 s_row_to_value ->
  nth_error (st_heap s) p = Some tb ->
  exists s',
    match spec_best (cmp_is (st_heap s) (want_of nname)) (@key_by_value tkey value) tb with
    | None =>
        runs P host (TkCallFn idx [VTable p]) s (ok [VNil] empty_env s') /\
        st_heap s' = st_heap s
    | Some e =>
        runs P host (TkCallFn idx [VTable p]) s (ok [VTable (length (st_heap s))] empty_env s') /\
        st_heap s' = st_heap s ++ [row_value_table e]
    end /\ st_globals s' = st_globals s /\ st_log s' = st_log s.
Proof.
  intros P host idx idx2 idx3 fname bname nname s p tb Hname (fe & f & Hfe & Hf & Hff) Hr2 H2 Hr3 H3 Hp.
  assert (Hf' : f = plain_fun bname).
  { destruct Hname as [(-> & -> & ->) | (-> & -> & ->)].
    - rewrite std_fn_min in Hf. injection Hf as <-. reflexivity.
    - rewrite std_fn_max in Hf. injection Hf as <-. reflexivity. }
  rewrite Hf' in Hff. clear Hf Hf'.
  assert (Hn : (bname = s_min_by_key /\ nname = n_min) \/ (bname = s_max_by_key /\ nname = n_max)).
  { destruct Hname as [(_ & -> & ->) | (_ & -> & ->)]; [left | right]; split; reflexivity. }
  destruct (wrap_plain P host idx fe bname idx2 idx3 (VTable p) s Hfe Hff Hr2 Hr3) as (s2 & X2 & Hw).
  destruct (std_min_max_by_key_correct P host idx2 bname nname (VFn idx3) (fun args => nth 0 args VNil)
              s2 p tb Hn H2) as (s3 & Hm & G3 & L3).
  { rewrite (ext_heap _ _ X2). exact Hp. }
  { apply row_to_value_pure. exact H3. }
  rewrite (ext_heap _ _ X2) in Hm. rewrite key_by_row_to_value in Hm.
  exists (bump s3). split; [|split].
  - destruct (spec_best _ _ tb) as [e|]; destruct Hm as [R3 Hh3]; (split; [apply Hw; exact R3 | exact Hh3]).
  - cbn [st_globals bump]. rewrite G3. apply (ext_globals _ _ X2).
  - cbn [st_log bump]. rewrite L3. apply (ext_log _ _ X2).
Qed.

(* ------------------------------------------------------------------------------------------ *)
(* 6. inputs that are not tables come back unchanged                                          *)
(* ------------------------------------------------------------------------------------------ *)
Theorem std_to_array_passthrough : forall P host idx s v,
  has_std P idx s_to_array -> (forall q, v <> VTable q) ->
  exists s', runs P host (TkCallFn idx [v]) s (ok [v] empty_env s') /\
             st_heap s' = st_heap s /\ st_globals s' = st_globals s /\ st_log s' = st_log s.
Proof.
  intros P host idx s v (fe & f & Hfe & Hf & Hff) Hv.
  rewrite std_fn_to_array in Hf. injection Hf as <-.
  destruct (wrap_to_array P host idx fe v s Hfe Hff) as (s2 & X2 & Hw).
  exists (bump (bump s2)). split; [apply Hw; apply native_to_array_passthrough; exact Hv|].
  cbn [st_heap st_globals st_log bump].
  split; [apply (ext_heap _ _ X2)|]. split; [apply (ext_globals _ _ X2) | apply (ext_log _ _ X2)].
Qed.

Theorem std_by_key_passthrough : forall P host idx fname keyfn s v,
  fname = s_min_by_key \/ fname = s_max_by_key \/ fname = s_sorted_by_key ->
  has_std P idx fname -> (forall q, v <> VTable q) ->
  exists s', runs P host (TkCallFn idx [keyfn; v]) s (ok [v] empty_env s') /\
             st_heap s' = st_heap s /\ st_globals s' = st_globals s /\ st_log s' = st_log s.
Proof.
  intros P host idx fname keyfn s v Hname (fe & f & Hfe & Hf & Hff) Hv.
  assert (Hf' : exists native, is_keyed_native native /\ f = by_key_fun native).
  { destruct Hname as [-> | [-> | ->]].
    - rewrite std_fn_min_by_key in Hf. injection Hf as <-. exists n_min. split; [left|]; reflexivity.
    - rewrite std_fn_max_by_key in Hf. injection Hf as <-. exists n_max. split; [right; left|]; reflexivity.
    - rewrite std_fn_sorted_by_key in Hf. injection Hf as <-. exists n_sort. split; [right; right|]; reflexivity. }
  destruct Hf' as (native & Hn & ->).
  destruct (wrap_by_key P host idx fe native v keyfn s Hfe Hff) as (s2 & X2 & Hw).
  exists (bump (bump s2)). split; [apply Hw; apply native_keyed_passthrough; assumption|].
  cbn [st_heap st_globals st_log bump].
  split; [apply (ext_heap _ _ X2)|]. split; [apply (ext_globals _ _ X2) | apply (ext_log _ _ X2)].
Qed.

Print Assumptions std_to_array_correct.
Print Assumptions std_sorted_by_key_correct.
Print Assumptions std_min_max_by_key_correct.
Print Assumptions row_to_value_pure.
Print Assumptions std_sorted_correct.
Print Assumptions std_min_max_correct.
Print Assumptions std_to_array_passthrough.
Print Assumptions std_by_key_passthrough.
