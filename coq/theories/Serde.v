(* Model of the hand-written map (de)serializers: collections/hash_map/serde_impl.rs and
   collections/handle_table/serde_impl.rs.  serialize = the entries in slot order;
   deserialize = with_capacity(power of two from the size hint, 128 without one), then insert each.
   The derive-generated serde code and the format crates are not modelled. *)
From Coq Require Import Arith List Bool NArith.
Import ListNotations.
From Cao Require Import ProbeDefs HashMap HandleTable.

Set Implicit Arguments.

(* cap.is_power_of_two() ? cap : cap.next_power_of_two() *)
Definition serde_cap (hint : option nat) : nat :=
  let c := match hint with Some n => n | None => 128 end in
  if c <=? 1 then 1 else 2 ^ (S (Nat.log2 (c - 1))).

Section HM.
  Variables (K V : Type).
  Variable keqb : K -> K -> bool.
  Variable hashfn : K -> N.
  Variable home : nat -> N -> nat.
  Variable needs_grow : nat -> nat -> bool.
  Variable new_cap : nat -> nat.

  Definition hm_ser (m : hmap K V) : list (K * V) := iter_op m.

  Fixpoint hm_fill (l : list (K * V)) (m : hmap K V) : res (hmap K V) :=
    match l with
    | [] => Ok m
    | (k, v) :: r =>
        match fst (insert_h keqb home needs_grow new_cap m (hashfn k) k v true) with
        | Ok m' => hm_fill r m'
        | AllocErr => Panic   (* .expect("oom") *)
        | Diverge => Diverge
        | Panic => Panic
        end
    end.
  Definition hm_de (hint : option nat) (l : list (K * V)) : res (hmap K V) :=
    hm_fill l (hm_new K V (serde_cap hint)).
End HM.

Section HT.
  Variable V : Type.
  Variable home : nat -> N -> nat.
  Variable needs_grow : nat -> nat -> bool.
  Variable grow_cap : nat -> nat.
  Variable min_cap : nat.

  Definition ht_ser (m : hmap unit V) : list (N * V) := ht_iter m.

  Fixpoint ht_fill (l : list (N * V)) (m : hmap unit V) : res (hmap unit V) :=
    match l with
    | [] => Ok m
    | (h, v) :: r =>
        match ht_insert home needs_grow grow_cap min_cap m h v true with
        | (Ok m', None, _) => ht_fill r m'
        | (Ok _, Some _, _) => Panic      (* .expect("oom") on Err *)
        | (AllocErr, _, _) => Panic
        | (Diverge, _, _) => Diverge
        | (Panic, _, _) => Panic
        end
    end.
  Definition ht_de (hint : option nat) (l : list (N * V)) : res (hmap unit V) :=
    ht_fill l (ht_new V min_cap (serde_cap hint)).
End HT.
