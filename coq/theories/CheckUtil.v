(* Boolean equality helpers and the result format shared by the correspondence checkers.
   A checker returns, per case id, a code: 1 = model and implementation differ,
   2 = the specification oracle rejects the implementation's observation,
   3 = the generated case violates the checker's own precondition (harness bug). *)
From Cao Require Export ListUtil.
From Coq Require Export NArith.

Fixpoint list_eqb {A} (eqb : A -> A -> bool) (a b : list A) : bool :=
  match a, b with
  | [], [] => true
  | x :: a', y :: b' => eqb x y && list_eqb eqb a' b'
  | _, _ => false
  end.

Definition opt_eqb {A} (eqb : A -> A -> bool) (a b : option A) : bool :=
  match a, b with
  | None, None => true
  | Some x, Some y => eqb x y
  | _, _ => false
  end.

Definition pair_eqb {A B} (ea : A -> A -> bool) (eb : B -> B -> bool) (a b : A * B) : bool :=
  ea (fst a) (fst b) && eb (snd a) (snd b).

Lemma list_eqb_spec {A} (eqb : A -> A -> bool) :
  (forall x y, eqb x y = true <-> x = y) -> forall a b, list_eqb eqb a b = true <-> a = b.
Proof.
  intros H. induction a as [|x a IH]; destruct b as [|y b]; cbn; split; intros E; try discriminate; auto.
  - apply andb_true_iff in E. destruct E as [E1 E2]. f_equal; [apply H; auto | apply IH; auto].
  - inversion E; subst. apply andb_true_iff; split; [apply H; auto | apply IH; auto].
Qed.

Section CheckAll.
  Context {C : Type}.
  Variable check1 : C -> list N.   (* codes raised by one case; [] = pass *)
  Fixpoint check_all (cs : list (N * C)) : list (N * N) :=
    match cs with
    | [] => []
    | (i, c) :: r => map (fun k => (i, k)) (check1 c) ++ check_all r
    end.
End CheckAll.
