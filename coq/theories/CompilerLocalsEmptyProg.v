(* C08 (b), program level: in a run of compile_ir, the state in which the body of each function starts
   (after stage 1, the functions compiled before it, and the function's own prologue) has cs_locals = [[]];
   and in every state, the body of a closure starts with an empty innermost locals list. *)
From Coq Require Import List NArith ZArith Bool Lia.
From Cao Require Import ListUtil CheckUtil Bits CardAst Bytecode Compiler CompilerGen
  CompilerProofs CompilerWf CompilerResolve CompilerCalls CompilerLocalsEmpty.
Import ListNotations.
Local Open Scope N_scope.

Lemma bind_ok_inv {A B} (m : M A) (f : A -> M B) s b s' :
  bind m f s = ROk b s' -> exists a s1, m s = ROk a s1 /\ f a s1 = ROk b s'.
Proof. unfold bind. destruct (m s) as [a s1| | |]; try discriminate. eauto. Qed.
Lemma bind_assoc {A B C} (m : M A) (f : A -> M B) (g : B -> M C) s :
  bind (bind m f) g s = bind m (fun x => bind (f x) g) s.
Proof. unfold bind. destruct (m s); reflexivity. Qed.

(* ------------------------------------------------------------------ functions *)
Lemma T_process_cards cards : forall ic d ds, (1 <= d)%Z -> T (d :: ds) (d :: ds) (process_cards cards ic).
Proof.
  induction cards as [|c r IH]; intros ic d ds Hd; cbn [process_cards]; [apply T_ret|].
  eapply T_bind; [apply T_keep, keepS_pop_sub | intros _].
  eapply T_bind; [apply T_keep, keepS_push_sub | intros _].
  eapply T_bind; [apply process_card_T, Hd | intros _; apply IH, Hd].
Qed.
Lemma T_process_function f d ds : (1 <= d)%Z -> T (d :: ds) (d :: ds) (process_function f).
Proof.
  intros Hd. unfold process_function.
  eapply T_bind; [apply T_keep, keepS_set_fctx | intros _].
  eapply T_bind; [apply T_add_locals, Hd | intros _; apply T_process_cards, Hd].
Qed.
Lemma T_compile_main f d ds : (0 <= d)%Z -> T (d :: ds) (d :: ds) (compile_main f).
Proof.
  intros Hd. unfold compile_main.
  eapply T_bind; [apply T_keep, keepS_set_index_m | intros _].
  eapply T_bind; [apply T_keep, keepS_set_fh_m | intros _].
  eapply T_bind; [apply T_scope_begin | intros _].
  eapply T_bind; [apply T_process_function; lia | intros _].
  eapply T_bind; [apply T_keep, keepS_set_index_m | intros _].
  eapply T_bind; [apply T_scope_end, Hd | intros _].
  apply T_keep, keepS_process_leaf.
Qed.
Lemma T_compile_other f d ds : (0 <= d)%Z -> T (d :: ds) (d :: ds) (compile_other f).
Proof.
  intros Hd. unfold compile_other.
  eapply T_bind; [apply T_keep, keepS_set_index_m | intros _].
  eapply T_bind; [apply T_keep, keepS_set_fh_m | intros _].
  eapply T_bind; [apply T_keep, keepS_label_insert | intros _].
  eapply T_bind; [apply T_scope_begin | intros _].
  eapply T_bind; [apply T_process_function; lia | intros _].
  eapply T_bind; [apply T_scope_end, Hd | intros _].
  eapply T_bind; [apply T_keep, keepS_push_instr | intros _].
  apply T_keep, keepS_push_instr.
Qed.
Lemma T_compile_others fs d ds : (0 <= d)%Z -> T (d :: ds) (d :: ds) (compile_others fs).
Proof.
  intros Hd. induction fs as [|f r IH]; cbn [compile_others]; [apply T_ret|].
  eapply T_bind; [apply T_compile_other, Hd | intros _; exact IH].
Qed.

(* process_card keeps the scope discipline (CompilerLocalsEmpty.process_card_T, spelled out) *)
Theorem card_keeps_scopes c d ds s s' :
  (1 <= d)%Z -> scopes_ok s -> cs_depth s = d :: ds -> process_card c s = ROk tt s' ->
  scopes_ok s' /\ cs_depth s' = d :: ds.
Proof. intros Hd Hs E H. pose proof (process_card_T c d ds Hd s Hs E) as HT. rewrite H in HT. exact HT. Qed.

(* the state between two functions *)
Definition fn_clean (s : cstate) : Prop := cs_locals s = [[]] /\ cs_depth s = [0%Z].
Lemma fn_clean_ok s : fn_clean s -> scopes_ok s.
Proof.
  intros [Hl Hd]. unfold scopes_ok. rewrite Hl, Hd. constructor; [|constructor].
  split; [lia|]. split; [constructor | reflexivity].
Qed.
Lemma T_clean {A} (m : M A) s a s' : T [0%Z] [0%Z] m -> fn_clean s -> m s = ROk a s' -> fn_clean s'.
Proof.
  intros HT Hc E. specialize (HT s (fn_clean_ok _ Hc) (proj2 Hc)). rewrite E in HT. destruct HT as [Hok Hd].
  split; [|exact Hd]. unfold scopes_ok in Hok. rewrite Hd in Hok.
  inversion Hok as [|? L ? Ls (_ & _ & H0) Hr]; subst. inversion Hr; subst. rewrite (H0 eq_refl). reflexivity.
Qed.
Lemma keep_clean {A} (m : M A) s a s' : keepS m -> fn_clean s -> m s = ROk a s' -> fn_clean s'.
Proof. intros Hk [Hl Hd] E. specialize (Hk s). rewrite E in Hk. destruct Hk as [E1 E2]. unfold fn_clean. rewrite E1, E2. split; assumption. Qed.

Lemma keepS_add_function f : keepS (add_function f).
Proof.
  intros s. unfold add_function, bind, get. destruct (sm_find _ _); cbn; auto.
Qed.
Lemma keepS_stage_1 fs : keepS (stage_1 fs).
Proof.
  induction fs as [|f r IH]; cbn [stage_1]; [apply keepS_ret|].
  apply keepS_bind; [apply keepS_add_function | intros _; exact IH].
Qed.

(* ---- prologue / body / epilogue of a function ---- *)
Definition set_fctx_m (ns : list str) (imps : list (str * str)) : M unit := fun s => ROk tt (set_fctx ns imps s).
(* everything compile_other does before the parameters are declared *)
Definition other_prologue (f : function_ir) : M unit :=
  set_index_m (fi_index f) [] ;; set_fh_m (fi_handle f) ;; label_insert_here (fi_handle f) ;; scope_begin ;;
  set_fctx_m (fi_ns f) (fi_imports f).
Definition main_prologue (f : function_ir) : M unit :=
  set_index_m (fi_index f) [0] ;; set_fh_m (fi_handle f) ;; scope_begin ;; set_fctx_m (fi_ns f) (fi_imports f).
Definition other_epilogue : M unit := scope_end ;; push_instr IScalarNil ;; push_instr IReturn.
Definition main_epilogue (f : function_ir) : M unit :=
  set_index_m (fi_index f) [N.of_nat (length (fi_cards f)) mod two32] ;; scope_end ;; process_leaf IExit.

Lemma bind_ok {A B} (m : M A) (f : A -> M B) s a s1 r : m s = ROk a s1 -> f a s1 = r -> bind m f s = r.
Proof. intros E1 E2. unfold bind. rewrite E1. exact E2. Qed.

Lemma compile_other_inv f s s2 :
  compile_other f s = ROk tt s2 ->
  exists c0 c1 c2, other_prologue f s = ROk tt c0 /\ add_locals (rev (fi_args f)) c0 = ROk tt c1 /\
                   process_cards (fi_cards f) 0 c1 = ROk tt c2 /\ other_epilogue c2 = ROk tt s2.
Proof.
  unfold compile_other. intros H.
  apply bind_ok_inv in H. destruct H as ([] & sa & Ha & H).
  apply bind_ok_inv in H. destruct H as ([] & sb & Hb & H).
  apply bind_ok_inv in H. destruct H as ([] & sc & Hc & H).
  apply bind_ok_inv in H. destruct H as ([] & sd & Hd & H).
  apply bind_ok_inv in H. destruct H as ([] & se & He & H).
  unfold process_function in He.
  apply bind_ok_inv in He. destruct He as ([] & c0 & H0 & He).
  apply bind_ok_inv in He. destruct He as ([] & c1 & H1 & H2).
  exists c0, c1, se. split; [|split; [exact H1 | split; [exact H2 | exact H]]].
  unfold other_prologue.
  eapply bind_ok; [exact Ha|]. eapply bind_ok; [exact Hb|]. eapply bind_ok; [exact Hc|].
  eapply bind_ok; [exact Hd|]. exact H0.
Qed.
Lemma compile_main_inv f s s2 :
  compile_main f s = ROk tt s2 ->
  exists c0 c1 c2, main_prologue f s = ROk tt c0 /\ add_locals (rev (fi_args f)) c0 = ROk tt c1 /\
                   process_cards (fi_cards f) 0 c1 = ROk tt c2 /\ main_epilogue f c2 = ROk tt s2.
Proof.
  unfold compile_main. intros H.
  apply bind_ok_inv in H. destruct H as ([] & sa & Ha & H).
  apply bind_ok_inv in H. destruct H as ([] & sb & Hb & H).
  apply bind_ok_inv in H. destruct H as ([] & sd & Hd & H).
  apply bind_ok_inv in H. destruct H as ([] & se & He & H).
  unfold process_function in He.
  apply bind_ok_inv in He. destruct He as ([] & c0 & H0 & He).
  apply bind_ok_inv in He. destruct He as ([] & c1 & H1 & H2).
  exists c0, c1, se. split; [|split; [exact H1 | split; [exact H2 | exact H]]].
  unfold main_prologue.
  eapply bind_ok; [exact Ha|]. eapply bind_ok; [exact Hb|]. eapply bind_ok; [exact Hd|]. exact H0.
Qed.

(* the prologues open one scope and leave the locals alone *)
Lemma T_other_prologue f d ds : T (d :: ds) ((d + 1)%Z :: ds) (other_prologue f).
Proof.
  unfold other_prologue.
  eapply T_bind; [apply T_keep, keepS_set_index_m | intros _].
  eapply T_bind; [apply T_keep, keepS_set_fh_m | intros _].
  eapply T_bind; [apply T_keep, keepS_label_insert | intros _].
  eapply T_bind; [apply T_scope_begin | intros _]. apply T_keep, keepS_set_fctx.
Qed.
Lemma T_main_prologue f d ds : T (d :: ds) ((d + 1)%Z :: ds) (main_prologue f).
Proof.
  unfold main_prologue.
  eapply T_bind; [apply T_keep, keepS_set_index_m | intros _].
  eapply T_bind; [apply T_keep, keepS_set_fh_m | intros _].
  eapply T_bind; [apply T_scope_begin | intros _]. apply T_keep, keepS_set_fctx.
Qed.
Definition keepL {A} (m : M A) : Prop :=
  forall s, match m s with ROk _ s' => cs_locals s' = cs_locals s | _ => True end.
Lemma keepL_keepS {A} (m : M A) : keepS m -> keepL m.
Proof. intros H s. specialize (H s). destruct (m s); auto. apply H. Qed.
Lemma keepL_bind {A B} (m : M A) (f : A -> M B) : keepL m -> (forall a, keepL (f a)) -> keepL (bind m f).
Proof.
  intros Hm Hf s. unfold bind. specialize (Hm s). destruct (m s) as [a s1| | |]; auto.
  specialize (Hf a s1). destruct (f a s1) as [b s2| | |]; auto. congruence.
Qed.
Lemma keepL_scope_begin : keepL scope_begin. Proof. intros s. reflexivity. Qed.
Lemma keepL_other_prologue f : keepL (other_prologue f).
Proof.
  unfold other_prologue.
  repeat (apply keepL_bind; [first [apply keepL_scope_begin | apply keepL_keepS; keep_tac] | intros _]).
  apply keepL_keepS, keepS_set_fctx.
Qed.
Lemma keepL_main_prologue f : keepL (main_prologue f).
Proof.
  unfold main_prologue.
  repeat (apply keepL_bind; [first [apply keepL_scope_begin | apply keepL_keepS; keep_tac] | intros _]).
  apply keepL_keepS, keepS_set_fctx.
Qed.
Lemma prologue_ctx f s c0 :
  (other_prologue f s = ROk tt c0 \/ main_prologue f s = ROk tt c0) ->
  cs_ns c0 = fi_ns f /\ cs_imports c0 = fi_imports f /\ cs_jump c0 = cs_jump s.
Proof.
  intros [H|H].
  - unfold other_prologue in H.
    apply bind_ok_inv in H. destruct H as ([] & sa & Ha & H).
    apply bind_ok_inv in H. destruct H as ([] & sb & Hb & H).
    apply bind_ok_inv in H. destruct H as ([] & sc & Hc & H).
    apply bind_ok_inv in H. destruct H as ([] & sd & Hd & H).
    injection H as <-. injection Ha as <-. injection Hb as <-. injection Hd as <-.
    unfold label_insert_here in Hc. destruct (_ || _); [discriminate|]. injection Hc as <-. auto.
  - unfold main_prologue in H.
    apply bind_ok_inv in H. destruct H as ([] & sa & Ha & H).
    apply bind_ok_inv in H. destruct H as ([] & sb & Hb & H).
    apply bind_ok_inv in H. destruct H as ([] & sd & Hd & H).
    injection H as <-. injection Ha as <-. injection Hb as <-. injection Hd as <-. auto.
Qed.

Lemma compile_others_app_inv pre : forall g post s s',
  compile_others (pre ++ g :: post) s = ROk tt s' ->
  exists sa sb, compile_others pre s = ROk tt sa /\ compile_other g sa = ROk tt sb /\ compile_others post sb = ROk tt s'.
Proof.
  induction pre as [|f r IH]; intros g post s s' H; cbn [app compile_others] in H.
  - apply bind_ok_inv in H. destruct H as ([] & sb & Hb & H). exists s, sb. auto.
  - apply bind_ok_inv in H. destruct H as ([] & s1 & H1 & H).
    destruct (IH _ _ _ _ H) as (sa & sb & Ha & Hb & Hc). exists sa, sb.
    split; [|auto]. cbn [compile_others]. eapply bind_ok; [exact H1 | exact Ha].
Qed.

(* ------------------------------------------------------------------ the theorem *)
(* the computation that precedes the declaration of g's parameters in compile_ir (pre ++ g :: post) *)
Definition before_body (fs pre : list function_ir) (g : function_ir) : M unit :=
  stage_1 fs ;;
  match pre with
  | [] => main_prologue g
  | f0 :: pre' => compile_main f0 ;; compile_others pre' ;; other_prologue g
  end.

Theorem function_body_starts_without_locals fs d s_end pre g post :
  compile_ir fs (init_state d) = ROk tt s_end -> fs = pre ++ g :: post ->
  exists c0 c1 c2,
    before_body fs pre g (init_state d) = ROk tt c0 /\
    add_locals (rev (fi_args g)) c0 = ROk tt c1 /\
    process_cards (fi_cards g) 0 c1 = ROk tt c2 /\
    cs_locals c0 = [[]] /\ cs_depth c0 = [1%Z] /\ cs_ns c0 = fi_ns g /\ cs_imports c0 = fi_imports g.
Proof.
  intros H Hfs. destruct fs as [|f r] eqn:Efs; [destruct pre; discriminate|]. rewrite <- Efs in *.
  assert (H' : (stage_1 fs ;; stage_2 fs ;; (fun s => ROk tt (set_fctx (cs_ns s) [] s)) ;; push_instr IExit)
                 (init_state d) = ROk tt s_end).
  { rewrite Efs in *. exact H. }
  clear H. apply bind_ok_inv in H'. destruct H' as ([] & s1 & H1 & H).
  apply bind_ok_inv in H. destruct H as ([] & s2 & H2 & _).
  assert (Hc1 : fn_clean s1).
  { eapply keep_clean; [apply keepS_stage_1 | | exact H1]. split; reflexivity. }
  assert (Hfin : forall c0 (m : M unit), T [0%Z] [(0 + 1)%Z] m -> keepL m -> forall s, fn_clean s -> m s = ROk tt c0 ->
                   cs_locals c0 = [[]] /\ cs_depth c0 = [1%Z]).
  { intros c0 m HT HL s Hs E. specialize (HT s (fn_clean_ok _ Hs) (proj2 Hs)). specialize (HL s).
    rewrite E in HT, HL. destruct HT as [_ Hd]. rewrite HL. split; [apply Hs | exact Hd]. }
  destruct pre as [|f0 pre'].
  - (* g is the first function: compile_main *)
    cbn [app] in Hfs. rewrite Hfs in H2. cbn [stage_2] in H2.
    apply bind_ok_inv in H2. destruct H2 as ([] & sa & Ha & _).
    destruct (compile_main_inv _ _ _ Ha) as (c0 & c1 & c2 & P0 & P1 & P2 & _).
    exists c0, c1, c2. split; [unfold before_body; eapply bind_ok; [exact H1 | exact P0]|].
    split; [exact P1|]. split; [exact P2|].
    destruct (Hfin c0 _ (T_main_prologue g 0%Z []) (keepL_main_prologue g) s1 Hc1 P0) as [E1 E2].
    destruct (prologue_ctx g s1 c0 (or_intror P0)) as (E3 & E4 & _). auto.
  - cbn [app] in Hfs. rewrite Hfs in H2. cbn [stage_2] in H2.
    apply bind_ok_inv in H2. destruct H2 as ([] & sa & Ha & H2).
    destruct (compile_others_app_inv _ _ _ _ _ H2) as (sb & sc & Hb & Hc & _).
    assert (Hca : fn_clean sa) by (eapply T_clean; [apply T_compile_main; lia | exact Hc1 | exact Ha]).
    assert (Hcb : fn_clean sb) by (eapply T_clean; [apply T_compile_others; lia | exact Hca | exact Hb]).
    destruct (compile_other_inv _ _ _ Hc) as (c0 & c1 & c2 & P0 & P1 & P2 & _).
    exists c0, c1, c2.
    split; [unfold before_body; eapply bind_ok; [exact H1|]; eapply bind_ok; [exact Ha|]; eapply bind_ok; [exact Hb | exact P0]|].
    split; [exact P1|]. split; [exact P2|].
    destruct (Hfin c0 _ (T_other_prologue g 0%Z []) (keepL_other_prologue g) sb Hcb P0) as [E1 E2].
    destruct (prologue_ctx g sb c0 (or_introl P0)) as (E3 & E4 & _). auto.
Qed.

(* ------------------------------------------------------------------ closures *)
(* everything process_card does for a Closure card before the parameters are declared *)
Definition closure_prologue : M unit :=
  card_label ;;
  (do _ <- get_pc ;;
   push_instr (IGoto placeholder) ;;
   compile_begin ;;
   (do h <- index_handle ;; label_insert_here (handle_add h (handle_from_u64 closure_mask))) ;;
   scope_begin).

Theorem closure_body_starts_without_locals args cards s s' :
  process_card (CClosure args cards) s = ROk tt s' ->
  exists c0 c1, closure_prologue s = ROk tt c0 /\ add_locals (rev args) c0 = ROk tt c1 /\
                cs_locals c0 = [] :: cs_locals s /\ cs_ns c0 = cs_ns s /\ cs_imports c0 = cs_imports s.
Proof.
  cbn [process_card]. intros H.
  apply bind_ok_inv in H. destruct H as ([] & sa & Ha & H).
  apply bind_ok_inv in H. destruct H as (pg & sb & Hb & H).
  apply bind_ok_inv in H. destruct H as ([] & sc & Hc & H).
  apply bind_ok_inv in H. destruct H as ([] & sd & Hd & H).
  apply bind_ok_inv in H. destruct H as (h & se & He & H).
  apply bind_ok_inv in H. destruct H as ([] & sf & Hf & H).
  apply bind_ok_inv in H. destruct H as ([] & sg & Hg & H).
  apply bind_ok_inv in H. destruct H as ([] & c1 & H1 & _).
  exists sg, c1. split; [|split; [exact H1|]].
  - unfold closure_prologue. eapply bind_ok; [exact Ha|]. eapply bind_ok; [exact Hb|].
    eapply bind_ok; [exact Hc|]. eapply bind_ok; [exact Hd|].
    eapply bind_ok; [eapply bind_ok; [exact He | exact Hf] | exact Hg].
  - pose proof (frame4_card_label s) as Fa. rewrite Ha in Fa. destruct Fa as [_ Fa].
    pose proof (keepS_card_label s) as Ka. rewrite Ha in Ka. destruct Ka as [Ka _].
    injection Hb as _ <-. rewrite push_instr_eq in Hc. injection Hc as <-. injection Hd as <-.
    match type of He with index_handle ?x = _ =>
      pose proof (frame4_index_handle x) as Fe; pose proof (keepS_index_handle x) as Ke end.
    rewrite He in Fe, Ke. destruct Fe as [_ Fe]. destruct Ke as [Ke _].
    pose proof (frame4_label_insert (handle_add h (handle_from_u64 closure_mask)) se) as Ff. rewrite Hf in Ff. destruct Ff as [_ Ff].
    pose proof (keepS_label_insert (handle_add h (handle_from_u64 closure_mask)) se) as Kf. rewrite Hf in Kf. destruct Kf as [Kf _].
    injection Hg as <-. cbn [cs_locals cs_ns cs_imports set_scopes].
    unfold cctx in Fa, Fe, Ff. injection Fa as _ Fa1 Fa2. injection Fe as _ Fe1 Fe2. injection Ff as _ Ff1 Ff2.
    rewrite Kf, Ke, Ff1, Ff2, Fe1, Fe2. cbn [cs_locals cs_ns cs_imports set_scopes pushed set_code set_trace].
    rewrite Ka, Fa1, Fa2. auto.
Qed.
