(* C08: facts about name resolution in the compiler model (Compiler.resolve_function, stage_1,
   into_ir_stream) and its relation to the tree-level specification ResolveSpec.spec_resolve. *)
From Coq Require Import List NArith ZArith Bool Lia.
From Cao Require Import ListUtil CheckUtil Bits CardAst Bytecode Compiler CompilerGen StdlibGen ResolveSpec.
Import ListNotations.
Local Open Scope N_scope.

(* ------------------------------------------------------------------ strings *)
Lemma str_eqb_eq a b : str_eqb a b = true <-> a = b.
Proof. unfold str_eqb. apply list_eqb_spec. intros x y. apply N.eqb_eq. Qed.
Lemma str_eqb_refl a : str_eqb a a = true.
Proof. apply str_eqb_eq. reflexivity. Qed.
Lemma str_eqb_neq a b : str_eqb a b = false <-> a <> b.
Proof.
  split; intros H.
  - intros ->. rewrite str_eqb_refl in H. discriminate.
  - destruct (str_eqb a b) eqn:E; auto. apply str_eqb_eq in E. contradiction.
Qed.

Lemma split_once_str_length p : forall s a b,
  split_once_str p s = Some (a, b) -> length s = (length a + length p + length b)%nat.
Proof.
  assert (Hsp : forall p s r, strip_prefix p s = Some r -> length s = (length p + length r)%nat).
  { induction p0 as [|x p0 IH]; intros s r H; cbn in H.
    - injection H as <-. reflexivity.
    - destruct s as [|y s]; [discriminate|]. destruct (x =? y); [|discriminate].
      apply IH in H. cbn. lia. }
  induction s as [|x s IH]; intros a b H; cbn [split_once_str] in H.
  - destruct (strip_prefix p []) as [r|] eqn:E; [|discriminate]. injection H as <- <-.
    apply Hsp in E. cbn in *. lia.
  - destruct (strip_prefix p (x :: s)) as [r|] eqn:E.
    + injection H as <- <-. apply Hsp in E. cbn in *. lia.
    + destruct (split_once_str p s) as [[a' b']|] eqn:E2; [|discriminate]. injection H as <- <-.
      specialize (IH _ _ eq_refl). cbn. lia.
Qed.

Lemma strip_prefix_length p : forall s r, strip_prefix p s = Some r -> length s = (length p + length r)%nat.
Proof.
  induction p as [|x p IH]; intros s r H; cbn in H.
  - injection H as <-. reflexivity.
  - destruct s as [|y s]; [discriminate|]. destruct (x =? y); [|discriminate].
    apply IH in H. cbn. lia.
Qed.

(* super_depth always terminates within its fuel *)
Lemma super_depth_go_total : forall fuel s cnt,
  (length s < fuel)%nat -> super_depth_go fuel s cnt <> None.
Proof.
  induction fuel as [|fuel IH]; intros s cnt Hl; [lia|].
  cbn [super_depth_go]. destruct (strip_prefix s_super_dot s) as [post|] eqn:E; [|discriminate].
  apply IH. apply strip_prefix_length in E. cbn in E. lia.
Qed.
Lemma super_depth_total s : super_depth s <> None.
Proof. unfold super_depth. apply super_depth_go_total. lia. Qed.

(* ------------------------------------------------------------------ resolve_function: outcomes *)
(* the result is an entry of the jump table, or one of two errors; never a panic, never divergence *)
Theorem resolve_outcomes n s :
  (exists m key, resolve_function n s = ROk m s /\ sm_find key (cs_jump s) = Some m) \/
  resolve_function n s = RErr (EInvalidJump n) (Some (cur_loc s)) \/
  resolve_function n s = RErr ESuperLimitReached (Some (cur_loc s)).
Proof.
  unfold resolve_function, bind, get.
  destruct (sm_find n (cs_jump s)) as [m1|] eqn:E1.
  { left. exists m1, n. cbn. auto. }
  destruct (sm_find (ns_prefix (cs_ns s) ++ n) (cs_jump s)) as [m2|] eqn:E2.
  { left. exists m2, (ns_prefix (cs_ns s) ++ n). cbn. auto. }
  (* stage 3 *)
  destruct (sm_find n (cs_imports s)) as [alias|] eqn:Ei.
  - pose proof (super_depth_total alias) as Ht.
    destruct (super_depth alias) as [[cnt sx]|]; [|contradiction].
    unfold take_ns. destruct (Nat.ltb (length (cs_ns s)) cnt).
    + right. right. reflexivity.
    + cbn [ret].
      destruct (sm_find (ns_prefix (firstn (length (cs_ns s) - cnt) (cs_ns s)) ++ match sx with Some x => x | None => alias end)
                        (cs_jump s)) as [m3|] eqn:E3.
      * left. eexists m3, _. split; [reflexivity | exact E3].
      * (* stage 4 *)
        destruct (split_once_c c_dot n) as [[pre suf]|]; [|right; left; reflexivity].
        destruct (sm_find pre (cs_imports s)) as [alias2|]; [|right; left; reflexivity].
        pose proof (super_depth_total alias2) as Ht2.
        destruct (super_depth alias2) as [[cnt2 sx2]|]; [|contradiction].
        destruct (Nat.ltb (length (cs_ns s)) cnt2); [right; right; reflexivity|].
        cbn [ret].
        match goal with |- context [sm_find ?k (cs_jump s)] =>
          destruct (sm_find k (cs_jump s)) as [m4|] eqn:E4; [left; exists m4, k; auto | right; left; reflexivity] end.
  - cbn [ret].
    destruct (split_once_c c_dot n) as [[pre suf]|]; [|right; left; reflexivity].
    destruct (sm_find pre (cs_imports s)) as [alias2|]; [|right; left; reflexivity].
    pose proof (super_depth_total alias2) as Ht2.
    destruct (super_depth alias2) as [[cnt2 sx2]|]; [|contradiction].
    unfold take_ns. destruct (Nat.ltb (length (cs_ns s)) cnt2); [right; right; reflexivity|].
    cbn [ret].
    match goal with |- context [sm_find ?k (cs_jump s)] =>
      destruct (sm_find k (cs_jump s)) as [m4|] eqn:E4; [left; exists m4, k; auto | right; left; reflexivity] end.
Qed.

(* ------------------------------------------------------------------ stage 1: the jump table *)
Definition meta_of (f : function_ir) : fmeta :=
  {| fm_handle := fi_handle f; fm_arity := N.of_nat (length (fi_args f)) mod two32 |}.

Lemma sm_find_insert_same {V} k (v : V) m : sm_find k (sm_insert k v m) = Some v.
Proof.
  induction m as [|[k' v'] r IH]; cbn [sm_insert sm_find].
  - rewrite str_eqb_refl. reflexivity.
  - destruct (str_eqb k k') eqn:E; cbn [sm_find]; rewrite ?str_eqb_refl, ?E; auto.
Qed.
Lemma sm_find_insert_other {V} k k0 (v : V) m : k0 <> k -> sm_find k0 (sm_insert k v m) = sm_find k0 m.
Proof.
  intros Hne. induction m as [|[k' v'] r IH]; cbn [sm_insert sm_find].
  - apply str_eqb_neq in Hne. rewrite Hne. reflexivity.
  - destruct (str_eqb k k') eqn:E; cbn [sm_find].
    + apply str_eqb_eq in E. subst k'. apply str_eqb_neq in Hne. rewrite Hne. reflexivity.
    + destruct (str_eqb k0 k'); auto.
Qed.

Lemma NoDup_snoc {A} (l : list A) x : NoDup l -> ~ In x l -> NoDup (l ++ [x]).
Proof.
  induction 1 as [|y l Hy Hn IH]; intros Hx; cbn; [constructor; auto; constructor|].
  constructor.
  - intros Hin. apply in_app_or in Hin. destruct Hin as [Hin|[<-|[]]]; [contradiction|]. apply Hx. left; reflexivity.
  - apply IH. intros Hin. apply Hx. right; exact Hin.
Qed.

(* the jump table represents exactly the functions [done] *)
Definition table_of (done : list function_ir) (jt : list (str * fmeta)) : Prop :=
  NoDup (map fi_full_name done) /\
  (forall f, In f done -> sm_find (fi_full_name f) jt = Some (meta_of f)) /\
  (forall k m, sm_find k jt = Some m -> exists f, In f done /\ k = fi_full_name f /\ m = meta_of f).

Lemma stage_1_table : forall fs done s s',
  table_of done (cs_jump s) -> stage_1 fs s = ROk tt s' -> table_of (done ++ fs) (cs_jump s').
Proof.
  induction fs as [|f r IH]; intros done s s' Ht H; cbn [stage_1] in H.
  - injection H as <-. rewrite app_nil_r. exact Ht.
  - cbv [bind add_function get] in H.
    destruct (sm_find (fi_full_name f) (cs_jump s)) eqn:E; [cbn in H; discriminate|].
    cbn in H.
    replace (done ++ f :: r) with ((done ++ [f]) ++ r) by (rewrite <- app_assoc; reflexivity).
    eapply IH; [|exact H]. cbn [cs_jump set_jump].
    destruct Ht as (Hnd & Hin & Hout). split; [|split].
    + rewrite map_app. cbn [map]. apply NoDup_snoc; auto.
      intros Hin'. apply in_map_iff in Hin'. destruct Hin' as (g & Eg & Hg).
      rewrite <- Eg, (Hin g Hg) in E. discriminate.
    + intros g Hg. apply in_app_or in Hg. destruct Hg as [Hg|[<-|[]]].
      * rewrite sm_find_insert_other; auto. intros Eq. rewrite <- Eq, (Hin g Hg) in E. discriminate.
      * apply sm_find_insert_same.
    + intros k m Hk. destruct (str_eqb k (fi_full_name f)) eqn:Ek.
      * apply str_eqb_eq in Ek. subst k. rewrite sm_find_insert_same in Hk. injection Hk as <-.
        exists f. split; [apply in_or_app; right; left; reflexivity | auto].
      * apply str_eqb_neq in Ek. rewrite sm_find_insert_other in Hk by exact Ek.
        destruct (Hout k m Hk) as (g & Hg & -> & ->). exists g. split; [apply in_or_app; auto | auto].
Qed.

Lemma table_of_nil : table_of [] [].
Proof. split; [constructor|]. split; [intros f []|]. intros k m H. discriminate. Qed.

Theorem stage_1_ok_table fs d s' :
  stage_1 fs (init_state d) = ROk tt s' -> table_of fs (cs_jump s').
Proof. intros H. apply (stage_1_table fs [] (init_state d) s' table_of_nil H). Qed.

(* the only way stage 1 fails: a full name declared twice *)
Theorem stage_1_errors fs : forall s e l,
  stage_1 fs s = RErr e l -> exists n, e = EDuplicateName n.
Proof.
  induction fs as [|f r IH]; intros s e l H; cbn [stage_1] in H; [discriminate|].
  cbv [bind add_function get] in H.
  destruct (sm_find (fi_full_name f) (cs_jump s)); cbn in H.
  - injection H as <- _. eauto.
  - eapply IH; eauto.
Qed.

(* a FunctionPointer / Call target is the metadata of a declared function *)
Theorem call_target_meta fs n s m s' :
  table_of fs (cs_jump s) -> resolve_function n s = ROk m s' ->
  s' = s /\ exists f, In f fs /\ fm_handle m = fi_handle f /\
                      fm_arity m = N.of_nat (length (fi_args f)) mod two32.
Proof.
  intros (_ & _ & Hout) H. destruct (resolve_outcomes n s) as [(m0 & key & E & Hk)|[E|E]];
    rewrite E in H; try discriminate.
  injection H as <- <-. split; [reflexivity|].
  destruct (Hout key m0 Hk) as (f & Hf & _ & ->). exists f. cbn. auto.
Qed.

(* ------------------------------------------------------------------ labels of functions *)
Lemma nm_find_insert_same {V} k (v : V) m : nm_find k (nm_insert k v m) = Some v.
Proof.
  induction m as [|[k' v'] r IH]; cbn [nm_insert nm_find].
  - rewrite N.eqb_refl. reflexivity.
  - destruct (k <? k') eqn:L; cbn [nm_find]; [rewrite N.eqb_refl; reflexivity|].
    destruct (k =? k') eqn:E; cbn [nm_find]; [rewrite N.eqb_refl; reflexivity|]. rewrite E. exact IH.
Qed.
Lemma nm_find_insert_other {V} k k0 (v : V) m : k0 <> k -> nm_find k0 (nm_insert k v m) = nm_find k0 m.
Proof.
  intros Hne. apply N.eqb_neq in Hne.
  induction m as [|[k' v'] r IH]; cbn [nm_insert nm_find].
  - rewrite Hne. reflexivity.
  - destruct (k <? k'); cbn [nm_find]; [rewrite Hne; reflexivity|].
    destruct (k =? k') eqn:E; cbn [nm_find].
    + apply N.eqb_eq in E. subst k'. rewrite Hne. reflexivity.
    + destruct (k0 =? k'); auto.
Qed.

(* compile_other puts the label of the function at the first byte of its code ... *)
Theorem function_label_at_start h s s' :
  label_insert_here h s = ROk tt s' -> nm_find h (cs_labels s') = Some (cs_pc s) /\ cs_pc s' = cs_pc s.
Proof.
  unfold label_insert_here. destruct ((two32 <=? cs_pc s) || (h =? 0)); [discriminate|].
  intros H. injection H as <-. cbn. split; [apply nm_find_insert_same | reflexivity].
Qed.
(* ... and it stays there unless a later label uses the same 32-bit handle: closure labels
   (label_insert_here) overwrite, card labels (label_entry_here) never do.  Distinctness of the handles
   is the obligation [label_distinct] that the compiler does not check. *)
Theorem label_entry_preserves h k s s' :
  label_entry_here k s = ROk tt s' -> forall p, nm_find h (cs_labels s) = Some p -> nm_find h (cs_labels s') = Some p.
Proof.
  unfold label_entry_here. destruct (two32 <=? cs_pc s); [discriminate|].
  destruct (k =? 0); [intros H; injection H as <-; auto|].
  destruct (nm_find k (cs_labels s)) eqn:E; intros H; injection H as <-; auto.
  intros p Hp. cbn. destruct (N.eq_dec h k) as [->|Hne]; [congruence|].
  rewrite nm_find_insert_other; auto.
Qed.
Theorem label_insert_preserves h k s s' :
  h <> k -> label_insert_here k s = ROk tt s' ->
  forall p, nm_find h (cs_labels s) = Some p -> nm_find h (cs_labels s') = Some p.
Proof.
  intros Hne. unfold label_insert_here. destruct ((two32 <=? cs_pc s) || (k =? 0)); [discriminate|].
  intros H p Hp. injection H as <-. cbn. rewrite nm_find_insert_other; auto.
Qed.

(* ------------------------------------------------------------------ bad names are rejected *)
Lemma stage_1_ok_or_err fs : forall s, (exists s', stage_1 fs s = ROk tt s') \/ (exists e l, stage_1 fs s = RErr e l).
Proof.
  induction fs as [|f r IH]; intros s; cbn [stage_1]; [left; eexists; reflexivity|].
  cbv [bind add_function get]. destruct (sm_find (fi_full_name f) (cs_jump s)); cbn; [right; eauto|]. apply IH.
Qed.

(* duplicates by full name, at any depth *)
Theorem duplicate_name_rejected fs d :
  ~ NoDup (map fi_full_name fs) -> exists n l, stage_1 fs (init_state d) = RErr (EDuplicateName n) l.
Proof.
  intros Hd. destruct (stage_1_ok_or_err fs (init_state d)) as [[s' E]|[e [l E]]].
  - exfalso. apply Hd. apply (stage_1_ok_table _ _ _ E).
  - destruct (stage_1_errors _ _ _ _ E) as [n ->]. eauto.
Qed.

(* errors of the flattening front end become the result of compile, located at the default index *)
Theorem front_end_error M o e :
  into_ir_stream M (o_recursion_limit o) = inl e -> compile M o = CErr e (Some loc_default).
Proof. intros H. unfold compile. rewrite H. reflexivity. Qed.

Lemma first_dup_seen l : forall seen x, In x l -> existsb (str_eqb x) seen = true -> exists d, first_dup seen l = Some d.
Proof.
  induction l as [|y l IH]; intros seen x Hin Hs; [destruct Hin|]. cbn [first_dup].
  destruct (existsb (str_eqb y) seen) eqn:E; [eauto|].
  destruct Hin as [<-|Hin]; [congruence|].
  apply (IH (y :: seen) x Hin). cbn. rewrite Hs. apply orb_true_r.
Qed.
Lemma first_dup_last l : forall seen x, In x l -> exists d, first_dup seen (l ++ [x]) = Some d.
Proof.
  induction l as [|y l IH]; intros seen x Hin; [destruct Hin|]. cbn [app first_dup].
  destruct (existsb (str_eqb y) seen) eqn:E; [eauto|].
  destruct Hin as [->|Hin].
  - apply (first_dup_seen (l ++ [x]) (x :: seen) x); [apply in_or_app; right; left; reflexivity|].
    cbn. rewrite str_eqb_refl. reflexivity.
  - apply IH, Hin.
Qed.

(* a user module named like the injected standard library *)
Theorem std_module_rejected subs funs imps o :
  In s_std (map fst subs) ->
  exists d, compile (Module subs funs imps) o = CErr (EDuplicateModule d) (Some loc_default).
Proof.
  intros Hin. destruct (first_dup_last (map fst subs) [] s_std Hin) as [d Hd].
  exists d. apply front_end_error. unfold into_ir_stream. cbn [ensure_invariants].
  rewrite map_app. cbn [map fst]. rewrite Hd. reflexivity.
Qed.

Lemma find_index_none {A} (p : A -> bool) l : forall i, (forall x, In x l -> p x = false) -> find_index p l i = None.
Proof.
  induction l as [|x l IH]; intros i H; cbn; auto. rewrite (H x (or_introl eq_refl)). apply IH. intros y Hy. apply H. right; auto.
Qed.

(* no function called main in the root module *)
Theorem no_main_rejected subs funs imps o :
  (forall nf, In nf funs -> str_eqb (fst nf) s_main = false) ->
  (exists d, compile (Module subs funs imps) o = CErr (EDuplicateModule d) (Some loc_default)) \/
  compile (Module subs funs imps) o = CErr ENoMain (Some loc_default).
Proof.
  intros H. unfold compile, into_ir_stream.
  destruct (ensure_invariants (Module (subs ++ [(s_std, std_module)]) funs imps)) as [d|]; [left; eauto|].
  right. rewrite (find_index_none _ funs 0 H). reflexivity.
Qed.

(* malformed and ambiguous imports *)
Theorem execute_imports_errors imps : forall acc e,
  execute_imports imps acc = inl e ->
  exists imp, In imp imps /\
    ((e = EBadImport imp /\ rsplit_once_c c_dot imp = None) \/
     (e = EAmbigousImport imp /\ exists pre key, rsplit_once_c c_dot imp = Some (pre, key))).
Proof.
  induction imps as [|imp r IH]; intros acc e H; cbn [execute_imports] in H; [discriminate|].
  destruct (rsplit_once_c c_dot imp) as [[pre key]|] eqn:E.
  - destruct (sm_find key acc).
    + injection H as <-. exists imp. split; [left; reflexivity|]. right. eauto.
    + destruct (IH _ _ H) as (i & Hi & Hc). exists i. split; [right; exact Hi | exact Hc].
  - injection H as <-. exists imp. split; [left; reflexivity|]. left. auto.
Qed.
Theorem bad_import_rejected imps imp :
  In imp imps -> rsplit_once_c c_dot imp = None -> exists e, execute_imports imps [] = inl e.
Proof.
  intros Hin Hn. generalize (@nil (str * str)). induction imps as [|x r IH]; intros acc; [destruct Hin|].
  cbn [execute_imports]. destruct Hin as [->|Hin].
  - rewrite Hn. eauto.
  - destruct (rsplit_once_c c_dot x) as [[pre key]|]; [|eauto].
    destruct (sm_find key acc); [eauto|]. apply IH, Hin.
Qed.

(* invalid function names *)
Theorem flatten_functions_errors fs : forall fid ns imports out n e,
  flatten_functions fs fid ns imports out n = inl e ->
  exists name, e = EBadFunctionName name /\ In name (map fst fs) /\ is_name_valid name = false.
Proof.
  induction fs as [|[name f] r IH]; intros fid ns imports out n e H; cbn [flatten_functions] in H; [discriminate|].
  destruct (is_name_valid name) eqn:E; cbn [negb] in H.
  - destruct (IH _ _ _ _ _ _ H) as (nm & -> & Hin & Hv). exists nm. cbn. auto.
  - injection H as <-. exists name. cbn. auto.
Qed.
Theorem bad_function_name_rejected fs name : forall fid ns imports out n,
  In name (map fst fs) -> is_name_valid name = false ->
  exists bad, flatten_functions fs fid ns imports out n = inl (EBadFunctionName bad).
Proof.
  induction fs as [|[nm f] r IH]; intros fid ns imports out n Hin Hv; [destruct Hin|].
  cbn [flatten_functions]. destruct (is_name_valid nm) eqn:E; cbn [negb]; [|eauto].
  destruct Hin as [Heq|Hin]; [cbn in Heq; congruence|]. apply IH; auto.
Qed.

(* ------------------------------------------------------------------ model vs. specification *)
Lemma segments_nonempty s : segments s <> [].
Proof.
  induction s as [|x r IH]; cbn [segments]; [discriminate|].
  destruct (x =? dot); [discriminate|]. destruct (segments r); discriminate.
Qed.

Lemma ns_prefix_app a b : ns_prefix (a ++ b) = ns_prefix a ++ ns_prefix b.
Proof. unfold ns_prefix. apply flat_map_app. Qed.

(* joining the segments of a dotted name gives the name back *)
Lemma join_segments s : ns_prefix (removelast (segments s)) ++ last (segments s) [] = s.
Proof.
  induction s as [|x r IH]; [reflexivity|]. cbn [segments].
  pose proof (segments_nonempty r) as Hne.
  destruct (N.eqb_spec x dot) as [->|Hx].
  - destruct (segments r) as [|h t] eqn:E; [contradiction|].
    cbn [removelast last]. cbn [ns_prefix flat_map app]. change (flat_map (fun x => x ++ [c_dot])) with ns_prefix.
    f_equal. exact IH.
  - destruct (segments r) as [|h t] eqn:E; [contradiction|].
    destruct t as [|h2 t].
    + cbn in IH |- *. rewrite IH. reflexivity.
    + cbn [removelast last] in IH |- *. cbn [ns_prefix flat_map] in IH |- *.
      rewrite <- app_assoc in IH |- *. cbn [app]. f_equal. rewrite <- IH. rewrite <- app_assoc. reflexivity.
Qed.

Lemma lookup_id root path f x : lookup root path f = Some x -> x = (path, f).
Proof. unfold lookup. destruct (find_module root path); [|discriminate]. destruct (has_function m f); congruence. Qed.

(* resolve_sound / resolve_complete (all four rules) and the lift to compiled modules: ResolveProofs.v *)

(* ------------------------------------------------------------------ findings N-C08-1 / N-C08-2 (repaired in /repo 4a89bbc) *)
Definition b_ (l : list N) : str := l.
Definition w_xsuper : str := [120; 115; 117; 112; 101; 114].
Definition w_bar : str := [98; 97; 114].
Definition w_util : str := [117; 116; 105; 108].
Definition w_f : str := [102].
Definition w_m1 : str := [109; 49].
Definition fn0 (cards : list card) : function := {| f_args := []; f_cards := cards |}.

(* N-C08-1: the former super_depth counted the substring "super." inside `xsuper.bar` *)
Lemma super_depth_legacy_refuted :
  super_depth_legacy (w_xsuper ++ [c_dot] ++ w_bar) = Some (1%nat, Some w_bar) /\
  super_depth (w_xsuper ++ [c_dot] ++ w_bar) = Some (0%nat, None).
Proof. split; reflexivity. Qed.

(* root { imports = ["xsuper.bar"]; xsuper { bar }; main = [Call bar] } now compiles, and the call
   carries the handle of xsuper.bar (function number 1 in the compiler's order) *)
Definition n_c08_1_module : module :=
  Module [(w_xsuper, Module [] [(w_bar, fn0 [CScalarNil])] [])]
         [(s_main, fn0 [CCall w_bar []])]
         [w_xsuper ++ [c_dot] ++ w_bar].
Lemma n_c08_1_repaired :
  spec_resolve (Module [(w_xsuper, Module [] [(w_bar, fn0 [CScalarNil])] [])] [(s_main, fn0 [CCall w_bar []])] [])
               [] [w_xsuper ++ [c_dot] ++ w_bar] w_bar = SFound ([w_xsuper], w_bar) /\
  exists B, compile n_c08_1_module {| o_recursion_limit := 64; o_debug := true |} = COk B /\
            In (IFunctionPointer (handle_from_u64 1) 0)
               (match decode (p_bytecode B) with Some l => map snd l | None => [] end).
Proof.
  split; [reflexivity|].
  destruct (compile n_c08_1_module _) as [B| | |] eqn:E; try (vm_compute in E; discriminate).
  exists B. split; [reflexivity|]. vm_compute in E. injection E as <-. vm_compute.
  repeat (first [left; reflexivity | right]).
Qed.

(* N-C08-2: xsuper { util { f }; m1 { imports = ["super.util"]; g = [Call util.f] } } now compiles and
   the call carries the handle of xsuper.util.f *)
Definition n_c08_2_module : module :=
  Module [(w_xsuper, Module [(w_util, Module [] [(w_f, fn0 [CScalarNil])] []);
                             (w_m1, Module [] [([103], fn0 [CCall (w_util ++ [c_dot] ++ w_f) []])]
                                           [s_super ++ [c_dot] ++ w_util])] [] [])]
         [(s_main, fn0 [])] [].
Lemma n_c08_2_repaired :
  exists B, compile n_c08_2_module {| o_recursion_limit := 64; o_debug := true |} = COk B /\
            In (IFunctionPointer (handle_from_u64 1) 0)
               (match decode (p_bytecode B) with Some l => map snd l | None => [] end).
Proof.
  destruct (compile n_c08_2_module _) as [B| | |] eqn:E; try (vm_compute in E; discriminate).
  exists B. split; [reflexivity|]. vm_compute in E. injection E as <-. vm_compute.
  repeat (first [left; reflexivity | right]).
Qed.
