(* C01, simulation, compiler half (2): the instruction list Compiler.compile emits for `main` of a
   program of fragment F1, and where it ends up in the compiled program.

   [emits m names code]: run in the compile context of main (no locals, no upvalues), [m] appends
   exactly [code T] to the instruction buffer, for every variable table T that extends the one it
   leaves behind; the names it mentions have ids afterwards; ids are only ever added. *)
From Coq Require Import List NArith ZArith Bool Lia.
From Cao Require Import ListUtil CheckUtil Bits CardAst Bytecode Compiler CompilerGen CompilerProofs CompilerWf
     CompilerResolve StdlibGen C01SimKeep C01SimDefs.
Import ListNotations.
Local Open Scope N_scope.

Definition sub (T1 T2 : list (N * N)) : Prop := forall h id, nm_find h T1 = Some id -> nm_find h T2 = Some id.
Lemma sub_refl T : sub T T. Proof. intros h id H; exact H. Qed.
Lemma sub_trans a b c : sub a b -> sub b c -> sub a c. Proof. intros H1 H2 h id H. auto. Qed.

(* the name table only grows; [named s n]: n has an id, and (with the name check of ce07816) the name
   stored for that id is n itself *)
Definition subn (N1 N2 : list (N * str)) : Prop := forall k nm, nm_find k N1 = Some nm -> nm_find k N2 = Some nm.
Definition sub2 (s s' : cstate) : Prop := sub (cs_ids s) (cs_ids s') /\ subn (cs_names s) (cs_names s').
Definition named (s : cstate) (n : str) : Prop :=
  exists id, nm_find (handle_of_bytes n) (cs_ids s) = Some id /\
             (global_name_checked = true -> nm_find (handle_from_u32 id) (cs_names s) = Some n).
Lemma sub2_refl s : sub2 s s. Proof. split; intros ? ? H; exact H. Qed.
Lemma sub2_trans a b c : sub2 a b -> sub2 b c -> sub2 a c.
Proof. intros [A1 A2] [B1 B2]. split; intros ? ? H; auto. Qed.
Lemma named_sub2 s s' n : named s n -> sub2 s s' -> named s' n.
Proof. intros (id & A & B) [S1 S2]. exists id. split; [apply S1, A | intros Hf; apply S2, B, Hf]. Qed.
Lemma named_found s n : named s n -> nm_find (handle_of_bytes n) (cs_ids s) <> None.
Proof. intros (id & A & _). rewrite A. discriminate. Qed.

Definition ctx (s : cstate) : Prop := cs_locals s = [[]] /\ cs_upvalues s = [[]] /\ cs_pc s = bytes (cs_code s).

(* code, variable table, locals and upvalues are as before *)
Definition keep4 (s s' : cstate) : Prop :=
  cs_code s' = cs_code s /\ cs_ids s' = cs_ids s /\ cs_locals s' = cs_locals s /\ cs_upvalues s' = cs_upvalues s /\
  cs_pc s' = cs_pc s /\ cs_names s' = cs_names s.

Definition emits (m : M unit) (names : list str) (code : list (N * N) -> list instr) : Prop :=
  forall s s', ctx s -> m s = ROk tt s' ->
    ctx s' /\ sub2 s s' /\
    (forall n, In n names -> named s' n) /\
    (forall T, sub (cs_ids s') T -> cs_code s' = rev (code T) ++ cs_code s).

Lemma bind_ok {A B} (m : M A) (f : A -> M B) s b s' :
  bind m f s = ROk b s' -> exists a s1, m s = ROk a s1 /\ f a s1 = ROk b s'.
Proof. unfold bind. destruct (m s) as [a s1| | |]; try discriminate. eauto. Qed.

Lemma emits_seq m1 m2 n1 n2 c1 c2 :
  emits m1 n1 c1 -> emits m2 n2 c2 -> emits (m1 ;; m2) (n1 ++ n2) (fun T => c1 T ++ c2 T).
Proof.
  intros H1 H2 s s' Hc H. apply bind_ok in H. destruct H as ([] & s1 & E1 & E2).
  destruct (H1 _ _ Hc E1) as (Hc1 & Hs1 & Hn1 & Hk1).
  destruct (H2 _ _ Hc1 E2) as (Hc2 & Hs2 & Hn2 & Hk2).
  split; [exact Hc2|]. split; [eapply sub2_trans; eauto|]. split.
  - intros n Hin. apply in_app_or in Hin. destruct Hin as [Hin|Hin]; [|auto].
    eapply named_sub2; [apply Hn1, Hin | exact Hs2].
  - intros T HT. rewrite (Hk2 T HT), (Hk1 T (sub_trans _ _ _ (proj1 Hs2) HT)), rev_app_distr, app_assoc. reflexivity.
Qed.

Lemma emits_nop m : (forall s s', m s = ROk tt s' -> keep4 s s') -> emits m [] (fun _ => []).
Proof.
  intros H s s' (Hl & Hu & Hp) E. destruct (H _ _ E) as (a & b & c & d & e & f).
  split; [repeat split; congruence|]. split; [unfold sub2; rewrite b, f; apply sub2_refl|]. split; [intros n []|].
  intros T _. rewrite a. reflexivity.
Qed.

Lemma emits_ext m n n' c c' :
  emits m n c -> (forall x, In x n' -> In x n) -> (forall T, c' T = c T) -> emits m n' c'.
Proof.
  intros H Hn Hcc s s' Hc E. destruct (H _ _ Hc E) as (A & B & C & D).
  split; [exact A|]. split; [exact B|]. split; [intros x Hx; apply C, Hn, Hx|].
  intros T HT. rewrite Hcc. apply D, HT.
Qed.

Lemma emits_push i : emits (push_instr i) [] (fun _ => [i]).
Proof.
  intros s s' (Hl & Hu & Hp) E. rewrite push_instr_eq in E. injection E as <-.
  split; [repeat split; [exact Hl | exact Hu | cbn [pushed cs_pc cs_code set_code set_trace bytes]; unfold spanN; rewrite Hp; lia]|].
  split; [split; intros ? ? H; exact H|]. split; [intros n []|].
  intros T _. reflexivity.
Qed.

Lemma keep4_push_sub i s s' : push_sub i s = ROk tt s' -> keep4 s s'.
Proof. intros E. injection E as <-. repeat split. Qed.
Lemma keep4_pop_sub s s' : pop_sub s = ROk tt s' -> keep4 s s'.
Proof. intros E. injection E as <-. repeat split. Qed.

Lemma emits_with_sub i m n c : emits m n c -> emits (with_sub i m) n c.
Proof.
  intros H. unfold with_sub.
  eapply emits_ext.
  - apply emits_seq; [apply emits_nop, keep4_push_sub|].
    apply emits_seq; [exact H | apply emits_nop, keep4_pop_sub].
  - intros x Hx. cbn [app]. rewrite app_nil_r. exact Hx.
  - intros T. cbn [app]. rewrite app_nil_r. reflexivity.
Qed.

Lemma keep4_card_label s s' : card_label s = ROk tt s' -> keep4 s s'.
Proof.
  unfold card_label, index_handle, bind, get, handle_from_bytes_m, ret, label_entry_here.
  destruct (two32 <=? cs_pc s); [discriminate|].
  destruct (_ =? 0); [intros E; injection E as <-; repeat split|].
  destruct (nm_find _ (cs_labels s)); intros E; injection E as <-; repeat split.
Qed.

(* the id of a global *)
Lemma str_eqb_true a b : str_eqb a b = true -> a = b.
Proof. intros H. apply (proj1 (list_eqb_spec N.eqb N.eqb_eq a b)) in H. exact H. Qed.

Lemma global_id_spec n s id s' :
  global_id n s = ROk id s' ->
  cs_code s' = cs_code s /\ cs_locals s' = cs_locals s /\ cs_upvalues s' = cs_upvalues s /\
  nm_find (handle_of_bytes n) (cs_ids s') = Some id /\ sub (cs_ids s) (cs_ids s') /\ cs_pc s' = cs_pc s /\
  subn (cs_names s) (cs_names s') /\
  (global_name_checked = true -> nm_find (handle_from_u32 id) (cs_names s') = Some n).
Proof.
  unfold global_id, bind, handle_from_bytes_m.
  assert (Hins : forall k (nm0 : str) (m : list (N * str)), nm_find k m = None -> subn m (nm_insert k nm0 m)).
  { intros k nm0 m Hk k' x Hx. rewrite nm_find_insert. destruct (N.eqb_spec k' k) as [->|]; [congruence | exact Hx]. }
  assert (Hchk : forall nm (s0 : cstate) i s1, name_checked nm n i s0 = ROk id s1 ->
            i = id /\ s1 = s0 /\ (global_name_checked = true -> nm = n)).
  { intros nm s0 i s1. unfold name_checked. destruct (global_name_checked && negb (str_eqb nm n)) eqn:Eg; [discriminate|].
    intros E; injection E as <- <-. repeat split. intros Hf. rewrite Hf in Eg. cbn [andb] in Eg.
    apply negb_false_iff in Eg. apply str_eqb_true, Eg. }
  assert (Hrefl : forall m : list (N * str), subn m m) by (intros m ? ? H; exact H).
  destruct (nm_find (handle_of_bytes n) (cs_ids s)) as [id0|] eqn:Ef.
  - destruct (nm_find (handle_from_u32 id0) (cs_names s)) as [nm|] eqn:En.
    + intros E. destruct (Hchk _ _ _ _ E) as (<- & -> & Hnm). cbn.
      split; [reflexivity|]. split; [reflexivity|]. split; [reflexivity|]. split; [exact Ef|].
      split; [apply sub_refl|]. split; [reflexivity|]. split; [apply Hrefl|].
      intros Hf. rewrite <- (Hnm Hf). exact En.
    + destruct (ht_entry_hangs (cs_names s)); [discriminate|].
      intros E; injection E as <- <-; cbn.
      split; [reflexivity|]. split; [reflexivity|]. split; [reflexivity|]. split; [exact Ef|].
      split; [apply sub_refl|]. split; [reflexivity|]. split; [apply Hins, En|].
      intros _. apply nm_find_insert_same.
  - destruct (ht_entry_hangs (cs_ids s)); [discriminate|].
    assert (Hsub : sub (cs_ids s) (nm_insert (handle_of_bytes n) (cs_next_var s) (cs_ids s))).
    { intros h x Hx. rewrite nm_find_insert. destruct (N.eqb_spec h (handle_of_bytes n)) as [->|]; [congruence | exact Hx]. }
    destruct (nm_find (handle_from_u32 (cs_next_var s)) (cs_names s)) as [nm|] eqn:En.
    + intros E. destruct (Hchk _ _ _ _ E) as (<- & -> & Hnm). cbn.
      split; [reflexivity|]. split; [reflexivity|]. split; [reflexivity|]. split; [apply nm_find_insert_same|].
      split; [exact Hsub|]. split; [reflexivity|]. split; [apply Hrefl|].
      intros Hf. rewrite <- (Hnm Hf). exact En.
    + destruct (ht_entry_hangs (cs_names s)); [discriminate|].
      intros E; injection E as <- <-; cbn.
      split; [reflexivity|]. split; [reflexivity|]. split; [reflexivity|]. split; [apply nm_find_insert_same|].
      split; [exact Hsub|]. split; [reflexivity|]. split; [apply Hins, En|].
      intros _. apply nm_find_insert_same.
Qed.

Lemma emits_global n (k : N -> instr) :
  emits (do id <- global_id n ;; push_instr (k id)) [n] (fun T => [k (idT T n)]).
Proof.
  intros s s' (Hl & Hu & Hp) E. apply bind_ok in E. destruct E as (id & s1 & E1 & E2).
  destruct (global_id_spec _ _ _ _ E1) as (A & B & C & D & S1 & Pc1 & Sn & Nm).
  rewrite push_instr_eq in E2. injection E2 as <-.
  split; [split; [cbn; congruence | split; [cbn; congruence|]]|].
  { cbn [pushed cs_pc cs_code set_code set_trace bytes]. unfold spanN. rewrite Pc1, Hp, A. lia. }
  split; [split; [exact S1 | exact Sn]|]. split.
  - intros x [<-|[]]. exists id. split; [exact D | exact Nm].
  - intros T HT. cbn. unfold idT. rewrite (HT _ _ D), A. reflexivity.
Qed.

Lemma resolve_var_global n s :
  ctx s -> is_empty n = false ->
  resolve_var n s = ROk VGlobal (set_scopes (cs_locals s) (cs_upvalues s) (cs_depth s) s).
Proof.
  intros (Hl & Hu & _) Hn. unfold resolve_var, bind, validate_var_name. rewrite Hn. cbn [ret].
  rewrite Hl, Hu. reflexivity.
Qed.

Lemma split_no_dot n : existsb (N.eqb c_dot) n = false -> split_once_c c_dot n = None.
Proof.
  induction n as [|x r IH]; cbn [existsb split_once_c]; [reflexivity|].
  intros H. apply orb_false_iff in H. destruct H as [H1 H2].
  rewrite N.eqb_sym in H1. rewrite H1, (IH H2). reflexivity.
Qed.

Lemma emits_read_var n : var_ok n = true -> emits (read_var_card n) [n] (fun T => [IReadGlobalVar (idT T n)]).
Proof.
  intros Hn. unfold var_ok in Hn. apply andb_true_iff in Hn. destruct Hn as [Hne Hdot].
  apply negb_true_iff in Hne, Hdot.
  unfold read_var_card. rewrite (split_no_dot _ Hdot).
  intros s s' Hc E. apply bind_ok in E. destruct E as (sc & s1 & E1 & E2).
  rewrite (resolve_var_global _ _ Hc Hne) in E1. injection E1 as <- <-.
  assert (Hc1 : ctx (set_scopes (cs_locals s) (cs_upvalues s) (cs_depth s) s)) by exact Hc.
  assert (Em : emits ((do id <- global_id n ;; push_instr (IReadGlobalVar id)) ;; read_props (split_c c_dot []))
                     ([n] ++ []) (fun T => [IReadGlobalVar (idT T n)] ++ [])).
  { apply emits_seq; [apply emits_global|]. apply emits_nop. cbn. intros s0 s0' E0. injection E0 as <-. repeat split. }
  destruct (Em _ _ Hc1 E2) as (A & B & C & D). split; [exact A|]. split; [exact B|].
  split; [exact C|]. exact D.
Qed.

Lemma process_card_binop op a b :
  op_f1 op = true ->
  process_card (CBin op a b) =
  (card_label ;; with_sub 0 (process_card a) ;; with_sub 1 (process_card b) ;; push_instr (simple_binop op)).
Proof. destruct op; intros H; try discriminate H; reflexivity. Qed.

Lemma emits_expr e : expr_f1 e = true -> emits (process_card e) (expr_names e) (fun T => code_expr T e).
Proof.
  induction e; intros He; cbn [expr_f1] in He; try discriminate He.
  - (* CBin *)
    apply andb_true_iff in He. destruct He as [He He2]. apply andb_true_iff in He. destruct He as [Hop He1].
    rewrite process_card_binop by exact Hop.
    eapply emits_ext.
    + apply emits_seq; [apply emits_nop, keep4_card_label|].
      apply emits_seq; [apply emits_with_sub, IHe1, He1|].
      apply emits_seq; [apply emits_with_sub, IHe2, He2 | apply emits_push].
    + intros x Hx. cbn [expr_names app] in *. rewrite app_nil_r. exact Hx.
    + intros T. cbn [code_expr app]. reflexivity.
  - (* CUn *)
    destruct op; try discriminate He. cbn [process_card unop_instr].
    eapply emits_ext.
    + apply emits_seq; [apply emits_nop, keep4_card_label|].
      apply emits_seq; [apply emits_with_sub, IHe, He | apply emits_push].
    + intros x Hx. cbn [expr_names app] in *. rewrite app_nil_r. exact Hx.
    + intros T. cbn [code_expr app]. reflexivity.
  - (* CScalarNil *)
    cbn [process_card]. eapply emits_ext.
    + apply emits_seq; [apply emits_nop, keep4_card_label | apply emits_push].
    + intros x [].
    + reflexivity.
  - (* CScalarInt *)
    cbn [process_card]. eapply emits_ext.
    + apply emits_seq; [apply emits_nop, keep4_card_label | apply emits_push].
    + intros x [].
    + reflexivity.
  - (* CReadVar *)
    cbn [process_card]. eapply emits_ext.
    + apply emits_seq; [apply emits_nop, keep4_card_label | apply emits_read_var, He].
    + intros x Hx. exact Hx.
    + reflexivity.
Qed.

Lemma emits_stmt c : stmt_f1 c = true -> emits (process_card c) (stmt_names c) (fun T => code_stmt T c).
Proof.
  destruct c; intros Hc; try discriminate Hc; cbn [stmt_f1] in Hc.
  - (* Comment *)
    cbn [process_card]. eapply emits_ext.
    + apply emits_seq; [apply emits_nop, keep4_card_label|]. apply emits_nop.
      intros s0 s0' E. injection E as <-. repeat split.
    + intros x [].
    + reflexivity.
  - (* SetGlobalVar *)
    apply andb_true_iff in Hc. destruct Hc as [Hne He]. apply negb_true_iff in Hne.
    cbn [process_card]. rewrite Hne. eapply emits_ext.
    + apply emits_seq; [apply emits_nop, keep4_card_label|].
      apply emits_seq; [apply emits_with_sub, emits_expr, He | apply (emits_global name ISetGlobalVar)].
    + intros x Hx. exact Hx.
    + reflexivity.
Qed.

Lemma emits_cards cards : forallb stmt_f1 cards = true -> forall ic,
  emits (process_cards cards ic) (main_names cards) (fun T => code_main T cards).
Proof.
  induction cards as [|c r IH]; intros Hc ic; cbn [process_cards].
  - apply emits_nop. intros s s' E. injection E as <-. repeat split.
  - cbn [forallb] in Hc. apply andb_true_iff in Hc. destruct Hc as [Hc Hr].
    eapply emits_ext.
    + apply emits_seq; [apply emits_nop, keep4_pop_sub|].
      apply emits_seq; [apply emits_nop, keep4_push_sub|].
      apply emits_seq; [apply emits_stmt, Hc | apply IH, Hr].
    + intros x Hx. exact Hx.
    + reflexivity.
Qed.

(* ------------------------------------------------------------------ main *)
Definition main_ir (name : str) (f : function) : function_ir :=
  {| fi_index := 0; fi_name := name; fi_args := f_args f; fi_cards := f_cards f; fi_ns := [];
     fi_imports := []; fi_handle := handle_from_u64 0 |}.

Lemma keep4_scope_end s s' : ctx s -> scope_end s = ROk tt s' -> keep4 s s'.
Proof.
  intros (Hl & Hu & _). unfold scope_end. rewrite Hl. cbn [hd rev pop_locals snd fst push_raws ret map_hd].
  intros E. injection E as <-. repeat split; cbn; auto.
Qed.

Lemma emits_scope_end : emits scope_end [] (fun _ => []).
Proof.
  intros s s' Hcx E. destruct (keep4_scope_end _ _ Hcx E) as (a & b & c & d & e & f). destruct Hcx as (Hl & Hu & Hp).
  split; [repeat split; congruence|]. split; [unfold sub2; rewrite b, f; apply sub2_refl|]. split; [intros n []|].
  intros T _. rewrite a. reflexivity.
Qed.

Lemma emits_main name f :
  f_args f = [] -> forallb stmt_f1 (f_cards f) = true ->
  emits (compile_main (main_ir name f)) (main_names (f_cards f)) (fun T => code_main T (f_cards f) ++ [IExit]).
Proof.
  intros Ha Hc. unfold compile_main, process_function, process_leaf. cbn [main_ir fi_index fi_handle fi_args fi_cards fi_ns fi_imports].
  rewrite Ha. cbn [rev add_locals].
  assert (N1 : forall (m : M unit), (forall s s', m s = ROk tt s' -> keep4 s s') -> emits m [] (fun _ => [])) by apply emits_nop.
  eapply emits_ext.
  - apply emits_seq; [apply N1; intros s s' E; injection E as <-; repeat split|].
    apply emits_seq; [apply N1; intros s s' E; injection E as <-; repeat split|].
    apply emits_seq; [apply N1; intros s s' E; injection E as <-; repeat split|].
    apply emits_seq.
    { apply emits_seq; [apply N1; intros s s' E; injection E as <-; repeat split|].
      apply emits_seq; [apply N1; intros s s' E; injection E as <-; repeat split|].
      apply emits_cards, Hc. }
    apply emits_seq; [apply N1; intros s s' E; injection E as <-; repeat split|].
    apply emits_seq; [apply emits_scope_end|].
    apply emits_seq; [apply emits_nop, keep4_card_label | apply emits_push].
  - intros x Hx. cbn [app] in *. rewrite !app_nil_r. exact Hx.
  - intros T. cbn [app]. reflexivity.
Qed.

(* ------------------------------------------------------------------ the IR stream of a program of F1 *)
Definition std_flat : list function_ir * N :=
  match flatten_module std_module 64 [s_std] [] 1 with inr x => x | inl _ => ([], 0) end.

Lemma flatten_std out :
  flatten_module std_module 64 [s_std] out 1 = inr (fst std_flat ++ out, snd std_flat).
Proof. vm_compute. reflexivity. Qed.

Lemma ensure_std : ensure_invariants std_module = None.
Proof. vm_compute. reflexivity. Qed.

Lemma str_eqb_main name : str_eqb name s_main = true -> name = s_main.
Proof. intros H. apply (proj1 (list_eqb_spec N.eqb N.eqb_eq name s_main)) in H. exact H. Qed.

Definition std_firs : list function_ir := rev (fst std_flat).

Lemma ir_stream_f1 f :
  into_ir_stream (Module [] [(s_main, f)] []) 64 = inr (main_ir s_main f :: std_firs).
Proof.
  unfold into_ir_stream. cbn [app].
  assert (E1 : ensure_invariants (Module [(s_std, std_module)] [(s_main, f)] []) = None).
  { cbn [ensure_invariants map fst first_dup existsb]. rewrite ensure_std. reflexivity. }
  rewrite E1. cbn [find_index fst]. change (str_eqb s_main s_main) with true. cbv iota.
  cbn [flatten_module length execute_imports flatten_functions].
  change (64 <=? N.of_nat 0) with false. cbv iota.
  change (negb (is_name_valid s_main)) with false. cbv iota.
  change ([] ++ [s_std]) with [s_std]. change (0 + 1) with 1.
  rewrite flatten_std. unfold swap0.
  rewrite rev_app_distr. cbn [rev app nth_error upd]. reflexivity.
Qed.
Global Opaque std_firs.

(* with the name check, names that got ids have pairwise distinct handles *)
Lemma named_inj s names :
  global_name_checked = true -> (forall n, In n names -> named s n) -> handles_inj names = true.
Proof.
  intros Hf H. unfold handles_inj. apply forallb_forall. intros a Ha. apply forallb_forall. intros b Hb.
  destruct (N.eqb_spec (handle_of_bytes a) (handle_of_bytes b)) as [E|]; [|reflexivity]. cbn [implb].
  destruct (H a Ha) as (ia & A1 & A2). destruct (H b Hb) as (ib & B1 & B2).
  rewrite E in A1. rewrite A1 in B1. injection B1 as <-.
  specialize (A2 Hf). specialize (B2 Hf). rewrite A2 in B2. injection B2 as <-.
  apply (proj2 (list_eqb_spec N.eqb N.eqb_eq a a)). reflexivity.
Qed.

(* ------------------------------------------------------------------ the compiled program *)
Lemma stage_1_ctx fs : forall s0 s1, stage_1 fs s0 = ROk tt s1 ->
  cs_locals s1 = cs_locals s0 /\ cs_upvalues s1 = cs_upvalues s0.
Proof.
  induction fs as [|x r IH]; intros s0 s1 H; cbn [stage_1] in H; [injection H as <-; auto|].
  apply bind_ok in H. destruct H as ([] & sx & Hx & Hr). destruct (IH _ _ Hr) as [A B].
  unfold add_function, bind, get in Hx. destruct (sm_find _ _); [discriminate|]. injection Hx as <-. auto.
Qed.

Theorem compile_f1_shape M B :
  in_f1 M = true -> compile M default_options = COk B ->
  N.of_nat (length (p_ids B)) < two32 ->
  exists rest,
    p_bytecode B = encode (code_main (p_ids B) (main_cards M) ++ IExit :: rest) /\
    (forall n, In n (main_names (main_cards M)) -> nm_find (handle_of_bytes n) (p_ids B) <> None) /\
    (forall h1 h2 id, nm_find h1 (p_ids B) = Some id -> nm_find h2 (p_ids B) = Some id -> h1 = h2) /\
    (forall h id, nm_find h (p_ids B) = Some id -> id < two32) /\
    handles_inj (main_names (main_cards M)) = true.
Proof.
  intros HM HB Hlen. destruct M as [subs funs imps]. cbn [in_f1] in HM.
  destruct subs; [|discriminate]. destruct funs as [|[name f] [|]]; try discriminate.
  destruct imps; [|discriminate].
  apply andb_true_iff in HM. destruct HM as [HM Hcards]. apply andb_true_iff in HM. destruct HM as [Hname Hargs].
  apply str_eqb_main in Hname. subst name.
  assert (Ha : f_args f = []) by (destruct (f_args f); [reflexivity | discriminate]).
  cbn [main_cards].
  destruct (compile_ok_inv _ _ _ HB) as (fs & s & Hfs & E & ->).
  change (o_recursion_limit default_options) with 64 in Hfs. rewrite ir_stream_f1 in Hfs. injection Hfs as <-.
  set (fm := main_ir s_main f) in *. revert E. generalize std_firs as std. intros std E.
  cbn [finish p_ids p_bytecode] in *.
  set (s0 := init_state (o_debug default_options)) in *.
  (* split the compilation at the end of main *)
  unfold compile_ir in E.
  apply bind_ok in E. destruct E as ([] & s1 & E1 & E).
  apply bind_ok in E. destruct E as ([] & s3 & E23 & E4).
  cbn [stage_2] in E23. apply bind_ok in E23. destruct E23 as ([] & s2 & E2 & E3).
  assert (Eafter : after_main std s2 = ROk tt s).
  { unfold after_main, bind. rewrite E3. exact E4. }
  (* stage 1 leaves everything but the jump table *)
  pose proof (frame3_stage_1 (fm :: std) s0) as F1. rewrite E1 in F1.
  destruct F1 as (c1 & p1 & i1 & n1).
  assert (Hctx1 : ctx s1).
  { destruct (stage_1_ctx _ _ _ E1) as [A B]. split; [rewrite A; reflexivity|]. split; [rewrite B; reflexivity|].
    rewrite p1, c1. reflexivity. }
  (* main *)
  destruct (emits_main s_main f Ha Hcards _ _ Hctx1 E2) as (Hctx2 & Hsub12 & Hnames2 & Hcode2).
  (* the invariants of C01SimKeep from the start to the end of main *)
  assert (G2 : G [] [] s2).
  { assert (S : sp3 [] [] (stage_1 (fm :: std) ;; compile_main fm) (fun _ => True)).
    { eapply sp3_bind; [apply sp3_frame, frame3_stage_1 | intros _ _; apply sp3_compile_main]. }
    specialize (S s0 (G_init _)). unfold bind in S. rewrite E1, E2 in S. apply S. }
  (* ... and from the end of main to the end of the compilation *)
  assert (Gs : G (cs_code s2) (cs_ids s2) s).
  { assert (G2' : G (cs_code s2) (cs_ids s2) s2).
    { apply G_here; [apply (g_pc _ _ _ G2)|]. intros Hl. destruct (g_ids _ _ _ G2 Hl) as [I1 I2 I3 _]. auto. }
    pose proof (sp3_after_main (cs_code s2) (cs_ids s2) std s2 G2') as S. rewrite Eafter in S. apply S. }
  destruct (g_ids _ _ _ Gs Hlen) as [Inv Ilt Iinj Iext].
  destruct (g_code _ _ _ Gs) as [l El].
  assert (Hsub : sub (cs_ids s2) (cs_ids s)) by exact Iext.
  exists (rev l). split; [|split; [|split; [|split]]].
  - f_equal. rewrite El, (Hcode2 _ Hsub), c1. cbn [s0 init_state cs_code]. rewrite app_nil_r, rev_app_distr, rev_involutive.
    rewrite <- app_assoc. reflexivity.
  - intros n Hin. pose proof (named_found _ _ (Hnames2 n Hin)) as Hnf.
    destruct (nm_find (handle_of_bytes n) (cs_ids s2)) as [id|] eqn:En; [|congruence].
    rewrite (Hsub _ _ En). discriminate.
  - exact Iinj.
  - intros h id Hf. specialize (Ilt _ _ Hf). rewrite Inv in Ilt. lia.
  - apply (named_inj s2 _ eq_refl Hnames2).
Qed.

Lemma in_f1_cards M : in_f1 M = true -> forallb stmt_f1 (main_cards M) = true.
Proof.
  destruct M as [subs funs imps]. cbn [in_f1].
  destruct subs; [|discriminate]. destruct funs as [|[name f] [|]]; try discriminate.
  destruct imps; [|discriminate]. intros H. apply andb_true_iff in H. apply H.
Qed.
