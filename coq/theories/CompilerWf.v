(* The emission invariant of the compiler model: at every point of a compilation that returns Ok,
   the byte length equals the sum of the spans of the emitted instructions, and every jump operand
   (except the pending 0xEEF placeholders, tracked by position), every label position and every
   trace key is an instruction boundary of the buffer.  Consequence (compile_wellformed_partial):
   in the returned program they all land on instruction starts, and the program ends with Exit. *)
From Coq Require Import List NArith ZArith Bool Lia.
From Cao Require Import ListUtil CheckUtil Bits CardAst Bytecode Compiler CompilerGen Wellformed CompilerProofs.
Import ListNotations.
Local Open Scope N_scope.

(* ------------------------------------------------------------------ boundaries *)
Definition spanN (i : instr) : N := N.of_nat (instr_span i).
Fixpoint bytes (l : list instr) : N :=
  match l with [] => 0 | i :: r => spanN i + bytes r end.
(* [code] is newest first; the boundaries are the byte lengths of its suffixes (older parts) *)
Definition is_bound (code : list instr) (b : N) : Prop := exists k, b = bytes (skipn k code).

Lemma spanN_pos i : 1 <= spanN i.
Proof. unfold spanN, instr_span, op_span. lia. Qed.

Lemma bytes_app a b : bytes (a ++ b) = bytes a + bytes b.
Proof. induction a as [|x a IH]; cbn [app bytes]; [reflexivity | rewrite IH; lia]. Qed.

Lemma bytes_skipn_le k code : bytes (skipn k code) <= bytes code.
Proof.
  revert k; induction code as [|x c IH]; intros [|k]; cbn [skipn bytes]; try lia.
  specialize (IH k). lia.
Qed.

Lemma is_bound_le code b : is_bound code b -> b <= bytes code.
Proof. intros [k ->]. apply bytes_skipn_le. Qed.

Lemma is_bound_end code : is_bound code (bytes code).
Proof. exists 0%nat. reflexivity. Qed.

Lemma is_bound_zero code : is_bound code 0.
Proof. exists (length code). rewrite skipn_all. reflexivity. Qed.

Lemma is_bound_cons x code b : is_bound code b -> is_bound (x :: code) b.
Proof. intros [k ->]. exists (S k). reflexivity. Qed.

(* boundaries depend on the spans only *)
Lemma bytes_skipn_spans k c c' :
  map instr_span c = map instr_span c' -> bytes (skipn k c) = bytes (skipn k c').
Proof.
  revert k c'; induction c as [|x c IH]; intros k [|y c'] H; try discriminate.
  - reflexivity.
  - cbn [map] in H.
    pose proof (f_equal (@hd nat 0%nat) H) as Hxy; cbn [hd] in Hxy.
    pose proof (f_equal (@tl nat) H) as Hr; cbn [tl] in Hr.
    destruct k as [|k]; cbn [skipn bytes].
    + unfold spanN. rewrite Hxy. f_equal. apply (IH 0%nat c' Hr).
    + apply IH; auto.
Qed.
Lemma is_bound_spans c c' b :
  map instr_span c = map instr_span c' -> is_bound c b -> is_bound c' b.
Proof. intros H [k ->]. exists k. apply bytes_skipn_spans; auto. Qed.

(* positions are injective in the index *)
Lemma bytes_skipn_S_lt k code i :
  nth_error code k = Some i -> bytes (skipn (S k) code) < bytes (skipn k code).
Proof.
  revert k; induction code as [|x c IH]; intros [|k] H; cbn in H; try discriminate.
  - injection H as ->. cbn [skipn bytes]. pose proof (spanN_pos i). lia.
  - cbn [skipn]. apply (IH k H).
Qed.
Lemma bytes_skipn_mono k j code : (k <= j)%nat -> bytes (skipn j code) <= bytes (skipn k code).
Proof.
  revert k j; induction code as [|x c IH]; intros k j H.
  - destruct k, j; cbn; lia.
  - destruct k as [|k], j as [|j]; cbn [skipn]; try lia.
    + apply (bytes_skipn_le (S j) (x :: c)).
    + apply IH. lia.
Qed.
Lemma position_inj code k j i i' :
  nth_error code k = Some i -> nth_error code j = Some i' ->
  bytes (skipn (S k) code) = bytes (skipn (S j) code) -> k = j.
Proof.
  intros Hk Hj E.
  destruct (Nat.lt_trichotomy k j) as [L|[L|L]]; auto; exfalso.
  - pose proof (bytes_skipn_S_lt j code i' Hj).
    pose proof (bytes_skipn_mono (S k) j code ltac:(lia)). lia.
  - pose proof (bytes_skipn_S_lt k code i Hk).
    pose proof (bytes_skipn_mono (S j) k code ltac:(lia)). lia.
Qed.

(* ------------------------------------------------------------------ the invariant *)
Definition target_ok (code : list instr) (z : Z) : Prop :=
  exists b, z = u32_to_i32 b /\ is_bound code b.

Record Inv (pend : list N) (s : cstate) : Prop := {
  inv_pc : cs_pc s = bytes (cs_code s);
  inv_jumps : forall k i z, nth_error (cs_code s) k = Some i -> jump_target i = Some z ->
                            target_ok (cs_code s) z \/ In (bytes (skipn (S k) (cs_code s))) pend;
  inv_labels : forall h pos, In (h, pos) (cs_labels s) -> is_bound (cs_code s) pos;
  inv_trace : forall a l, In (a, l) (cs_trace s) -> exists b, is_bound (cs_code s) b /\ a = b mod two32;
  (* every instruction has a trace entry *)
  inv_traced : forall k i, nth_error (cs_code s) k = Some i ->
                           exists l, In (bytes (skipn (S k) (cs_code s)) mod two32, l) (cs_trace s)
}.

Definition mono (s s' : cstate) : Prop :=
  forall b, is_bound (cs_code s) b -> is_bound (cs_code s') b.

Definition bounds_in (bs : list N) (s : cstate) : Prop :=
  forall b, In b bs -> is_bound (cs_code s) b.

Definition spec {A} (bs : list N) (p p' : list N) (m : M A) : Prop :=
  forall s, Inv p s -> bounds_in bs s ->
            match m s with
            | ROk _ s' => Inv p' s' /\ mono s s'
            | _ => True
            end.

Lemma mono_refl s : mono s s.
Proof. intros b H; exact H. Qed.
Lemma mono_trans a b c : mono a b -> mono b c -> mono a c.
Proof. intros H1 H2 x Hx. auto. Qed.

Lemma spec_ret {A} bs p (a : A) : spec bs p p (ret a).
Proof. intros s HI _. cbn. split; [exact HI | apply mono_refl]. Qed.

Lemma spec_bind {A B} bs p p' p'' (m : M A) (f : A -> M B) :
  spec bs p p' m -> (forall a, spec bs p' p'' (f a)) -> spec bs p p'' (bind m f).
Proof.
  intros Hm Hf s HI Hb. unfold bind. specialize (Hm s HI Hb).
  destruct (m s) as [a s1| | |]; auto. destruct Hm as [HI1 Hm1].
  assert (Hb1 : bounds_in bs s1) by (intros b Hin; apply Hm1, Hb, Hin).
  specialize (Hf a s1 HI1 Hb1). destruct (f a s1) as [b s2| | |]; auto.
  destruct Hf as [HI2 Hm2]. split; auto. eapply mono_trans; eauto.
Qed.

Lemma spec_weaken_bs {A} bs bs' p p' (m : M A) :
  (forall b, In b bs -> In b bs') -> spec bs p p' m -> spec bs' p p' m.
Proof. intros Hsub H s HI Hb. apply H; auto. intros b Hin. apply Hb, Hsub, Hin. Qed.

(* ---- operations that do not touch code, labels or trace ---- *)
Definition same (s s' : cstate) : Prop :=
  cs_code s' = cs_code s /\ cs_pc s' = cs_pc s /\ cs_labels s' = cs_labels s /\ cs_trace s' = cs_trace s.
Definition frame {A} (m : M A) : Prop :=
  forall s, match m s with ROk _ s' => same s s' | _ => True end.

Lemma same_refl s : same s s.
Proof. repeat split. Qed.

Lemma Inv_same p s s' : same s s' -> Inv p s -> Inv p s'.
Proof.
  intros (Hc & Hp & Hl & Ht) [H1 H2 H3 H4 H5]. constructor; rewrite ?Hc, ?Hp, ?Hl, ?Ht; auto.
Qed.

Lemma spec_frame {A} bs p (m : M A) : frame m -> spec bs p p m.
Proof.
  intros Hf s HI _. specialize (Hf s). destruct (m s) as [a s'| | |]; auto.
  split; [eapply Inv_same; eauto|]. destruct Hf as (Hc & _). intros b Hb. rewrite Hc. exact Hb.
Qed.

Lemma frame_ret {A} (a : A) : frame (ret a).
Proof. intros s. cbn. apply same_refl. Qed.
Lemma frame_bind {A B} (m : M A) (f : A -> M B) :
  frame m -> (forall a, frame (f a)) -> frame (bind m f).
Proof.
  intros Hm Hf s. unfold bind. specialize (Hm s). destruct (m s) as [a s1| | |]; auto.
  specialize (Hf a s1). destruct (f a s1) as [b s2| | |]; auto.
  destruct Hm as (a1 & a2 & a3 & a4), Hf as (b1 & b2 & b3 & b4).
  repeat split; congruence.
Qed.

Ltac same_tac := first [apply same_refl | unfold same; cbn; repeat split; reflexivity].

Lemma frame_get : frame get. Proof. intros s. cbn. same_tac. Qed.
Lemma frame_get_pc : frame get_pc. Proof. intros s. cbn. same_tac. Qed.
Lemma frame_get_pc_i32 : frame get_pc_i32. Proof. intros s. cbn. same_tac. Qed.
Lemma frame_panic {A} : frame (@panic A). Proof. intros s. exact I. Qed.
Lemma frame_diverge {A} : frame (@diverge A). Proof. intros s. exact I. Qed.
Lemma frame_error {A} e : frame (@error A e). Proof. intros s. exact I. Qed.
Lemma frame_push_sub i : frame (push_sub i). Proof. intros s. cbn. same_tac. Qed.
Lemma frame_pop_sub : frame pop_sub. Proof. intros s. cbn. same_tac. Qed.
Lemma frame_set_index_m f i : frame (set_index_m f i). Proof. intros s. cbn. same_tac. Qed.
Lemma frame_set_fh_m h : frame (set_fh_m h). Proof. intros s. cbn. same_tac. Qed.
Lemma frame_scope_begin : frame scope_begin. Proof. intros s. cbn. same_tac. Qed.
Lemma frame_compile_begin : frame compile_begin. Proof. intros s. cbn. same_tac. Qed.
Lemma frame_compile_end : frame compile_end. Proof. intros s. cbn. same_tac. Qed.
Lemma frame_validate n : frame (validate_var_name n).
Proof. unfold validate_var_name. destruct (is_empty n); [apply frame_error | apply frame_ret]. Qed.
Lemma frame_add_local_unchecked n : frame (add_local_unchecked n).
Proof.
  intros s. unfold add_local_unchecked.
  destruct (Nat.leb locals_cap (length (hd [] (cs_locals s)))); cbn; [exact I | same_tac].
Qed.
Lemma frame_add_local n : frame (add_local n).
Proof. apply frame_bind; [apply frame_validate | intros; apply frame_add_local_unchecked]. Qed.
Lemma frame_add_locals l : frame (add_locals l).
Proof.
  induction l as [|n r IH]; cbn [add_locals]; [apply frame_ret|].
  apply frame_bind; [apply frame_add_local | intros; exact IH].
Qed.
Lemma frame_handle_from_bytes bs : frame (handle_from_bytes_m bs).
Proof.
  intros s. unfold handle_from_bytes_m. same_tac.
Qed.
Lemma frame_index_handle : frame index_handle.
Proof.
  unfold index_handle. apply frame_bind; [apply frame_get|]. intros s.
  apply frame_bind; [apply frame_handle_from_bytes | intros; apply frame_ret].
Qed.
Lemma frame_resolve_var n : frame (resolve_var n).
Proof.
  unfold resolve_var. apply frame_bind; [apply frame_validate|]. intros _ s.
  destruct (rfind_index _ _ _ _); cbn; [same_tac|].
  destruct (resolve_upvalue _ _ _) as [[[v ls] us]|]; cbn; [same_tac | exact I].
Qed.
Lemma frame_global_id n : frame (global_id n).
Proof.
  unfold global_id. apply frame_bind; [apply frame_handle_from_bytes|]. intros h s.
  destruct (nm_find h (cs_ids s)); [|destruct (ht_entry_hangs (cs_ids s)); [exact I|]];
    (destruct (nm_find _ (cs_names s));
       [unfold name_checked; destruct (global_name_checked && _); cbn; [exact I | same_tac]|];
     destruct (ht_entry_hangs (cs_names s)); cbn; [exact I | same_tac]).
Qed.
Lemma frame_resolve_function n : frame (resolve_function n).
Proof.
  unfold resolve_function. apply frame_bind; [apply frame_get|]. intros s.
  apply frame_bind.
  { destruct (match sm_find n (cs_jump s) with Some m => Some m | None => _ end); [apply frame_ret|].
    destruct (sm_find n (cs_imports s)); [|apply frame_ret].
    destruct (super_depth _) as [[cnt sx]|]; [|apply frame_diverge].
    destruct (take_ns _ _ _); [apply frame_ret | apply frame_error]. }
  intros st3. apply frame_bind.
  { destruct st3; [apply frame_ret|].
    destruct (split_once_c c_dot n) as [[pre suf]|]; [|apply frame_ret].
    destruct (sm_find pre (cs_imports s)); [|apply frame_ret].
    destruct (super_depth _) as [[cnt sx]|]; [|apply frame_diverge].
    destruct (take_ns _ _ _); [apply frame_ret | apply frame_error]. }
  intros st4. destruct st4; [apply frame_ret | apply frame_error].
Qed.

(* ---- operations on the code ---- *)
(* the state after push_instr *)
Definition pushed (s : cstate) (i : instr) : cstate :=
  set_code (i :: cs_code (set_trace ((cs_pc s mod two32, cur_loc s) :: cs_trace s) s))
           (cs_pc (set_trace ((cs_pc s mod two32, cur_loc s) :: cs_trace s) s) + N.of_nat (instr_span i))
           (set_trace ((cs_pc s mod two32, cur_loc s) :: cs_trace s) s).

Lemma push_instr_eq i s : push_instr i s = ROk tt (pushed s i).
Proof. reflexivity. Qed.

Lemma Inv_pushed p p' s i :
  Inv p s -> (forall x, In x p -> In x p') ->
  (forall z, jump_target i = Some z -> target_ok (cs_code s) z \/ In (cs_pc s) p') ->
  Inv p' (pushed s i).
Proof.
  intros [H1 H2 H3 H4 H5] Hsub Hj. unfold pushed.
  constructor; cbn [cs_code cs_pc cs_labels cs_trace set_code set_trace].
  - cbn [bytes]. rewrite H1. unfold spanN. lia.
  - intros [|k] i' z Hn Hz; cbn in Hn.
    + injection Hn as <-. cbn [skipn]. destruct (Hj z Hz) as [[b [E Hb]]|Hin].
      * left. exists b. split; auto. apply is_bound_cons; auto.
      * right. rewrite <- H1. exact Hin.
    + cbn [skipn]. destruct (H2 k i' z Hn Hz) as [[b [E Hb]]|Hin].
      * left. exists b. split; auto. apply is_bound_cons; auto.
      * right. apply Hsub. destruct k; exact Hin.
  - intros h pos Hin. apply is_bound_cons. eauto.
  - intros a l [E|Hin].
    + injection E as <- _. exists (cs_pc s). split; auto. apply is_bound_cons. rewrite H1. apply is_bound_end.
    + destruct (H4 a l Hin) as [b [Hb E]]. exists b. split; auto. apply is_bound_cons; auto.
  - intros [|k] i' Hn; cbn in Hn.
    + cbn [skipn]. exists (cur_loc s). left. rewrite H1. reflexivity.
    + cbn [skipn]. destruct (H5 k i' Hn) as [l Hl]. exists l. right. destruct k; exact Hl.
Qed.

Lemma mono_pushed s i : mono s (pushed s i).
Proof. intros b Hb. cbn. apply is_bound_cons; auto. Qed.

Lemma spec_push_instr_gen bs p p' i :
  (forall s, Inv p s -> bounds_in bs s ->
             forall z, jump_target i = Some z -> target_ok (cs_code s) z \/ In (cs_pc s) p') ->
  (forall x, In x p -> In x p') ->
  spec bs p p' (push_instr i).
Proof.
  intros Hj Hsub s HI Hb. rewrite push_instr_eq. split; [|apply mono_pushed].
  apply (Inv_pushed p p' s i HI Hsub). apply (Hj s HI Hb).
Qed.

Lemma spec_push_instr bs p i : jump_target i = None -> spec bs p p (push_instr i).
Proof. intros Hn. apply spec_push_instr_gen; auto. intros; congruence. Qed.

(* a jump whose operand is the placeholder 0 of encode_if_then: 0 is a boundary *)
Lemma spec_push_jump0 bs p i : jump_target i = Some 0%Z -> spec bs p p (push_instr i).
Proof.
  intros Hj. apply spec_push_instr_gen; auto. intros s _ _ z Hz. left.
  rewrite Hj in Hz. injection Hz as <-. exists 0. split; [reflexivity | apply is_bound_zero].
Qed.

(* a jump back to a remembered boundary *)
Lemma spec_push_goto_back bs p b : In b bs -> spec bs p p (push_instr (IGoto (u32_to_i32 b))).
Proof.
  intros Hin. apply spec_push_instr_gen; auto. intros s _ Hb z Hz. left.
  cbn in Hz. injection Hz as <-. exists b. split; auto.
Qed.

Lemma spec_get_pc_i32 {A} bs p p' (k : Z -> M A) :
  (forall b, spec (b :: bs) p p' (k (u32_to_i32 b))) -> spec bs p p' (bind get_pc_i32 k).
Proof.
  intros H s HI Hb. unfold bind, get_pc_i32. apply (H (cs_pc s) s HI).
  intros b [<-|Hin]; [|auto]. rewrite (inv_pc _ _ HI). apply is_bound_end.
Qed.

(* the pending 0xEEF placeholder: its position is remembered in the pending list *)
Lemma spec_pending_goto {A} bs p p' z (k : N -> M A) :
  (forall q, spec bs (q :: p) p' (k q)) ->
  spec bs p p' (bind get_pc (fun q => bind (push_instr (IGoto z)) (fun _ => k q))).
Proof.
  intros H s HI Hb. unfold bind at 1. unfold get_pc.
  unfold bind. rewrite push_instr_eq.
  assert (HI1 : Inv (cs_pc s :: p) (pushed s (IGoto z))).
  { apply (Inv_pushed p (cs_pc s :: p) s (IGoto z) HI).
    - intros x Hx. right. exact Hx.
    - intros z0 _. right. left. reflexivity. }
  assert (Hm1 : mono s (pushed s (IGoto z))) by apply mono_pushed.
  assert (Hb1 : bounds_in bs (pushed s (IGoto z))) by (intros b Hin; apply Hm1, Hb, Hin).
  specialize (H (cs_pc s) (pushed s (IGoto z)) HI1 Hb1).
  destruct (k (cs_pc s) (pushed s (IGoto z))) as [a s2| | |]; auto. destruct H as [HI2 Hm2].
  split; auto. eapply mono_trans; eauto.
Qed.

(* ---- back-patching ---- *)
Lemma set_jump_target_span i z i' : set_jump_target i z = Some i' -> instr_span i' = instr_span i.
Proof. destruct i; cbn; intros H; try discriminate; injection H as <-; reflexivity. Qed.
Lemma set_jump_target_target i z i' : set_jump_target i z = Some i' -> jump_target i' = Some z.
Proof. destruct i; cbn; intros H; try discriminate; injection H as <-; reflexivity. Qed.

Lemma patch_code_spec code : forall cur at_pc z code',
  patch_code code cur at_pc z = Some code' -> cur = bytes code ->
  exists k j j', nth_error code k = Some j /\ set_jump_target j z = Some j' /\
                 code' = upd code k j' /\ bytes (skipn (S k) code) = at_pc.
Proof.
  induction code as [|i r IH]; intros cur at_pc z code' H Hcur; cbn [patch_code] in H; [discriminate|].
  cbn [bytes] in Hcur. fold (spanN i) in H.
  assert (E : cur - spanN i = bytes r) by lia. rewrite E in H.
  destruct (N.eqb_spec (bytes r) at_pc) as [Heq|Hne].
  - destruct (set_jump_target i z) as [i'|] eqn:Ej; [|discriminate]. injection H as <-.
    exists 0%nat, i, i'. cbn. repeat split; auto.
  - destruct (bytes r <? at_pc); [discriminate|].
    destruct (patch_code r (bytes r) at_pc z) as [r'|] eqn:Er; [|discriminate]. injection H as <-.
    destruct (IH _ _ _ _ Er eq_refl) as (k & j & j' & Hn & Hj & Hc & Hp).
    exists (S k), j, j'. cbn. repeat split; auto. rewrite Hc. reflexivity.
Qed.

Lemma map_span_upd code k j j' :
  nth_error code k = Some j -> instr_span j' = instr_span j ->
  map instr_span (upd code k j') = map instr_span code.
Proof.
  revert k; induction code as [|x c IH]; intros [|k] Hn Hs; cbn in *; try discriminate.
  - injection Hn as ->. rewrite Hs. reflexivity.
  - f_equal. apply IH; auto.
Qed.

Lemma nth_error_upd_same {A} (l : list A) k v x : nth_error l k = Some x -> nth_error (upd l k v) k = Some v.
Proof. revert k; induction l as [|y l IH]; intros [|k] H; cbn in *; try discriminate; auto. Qed.
Lemma nth_error_upd_other {A} (l : list A) k j v : k <> j -> nth_error (upd l k v) j = nth_error l j.
Proof. revert k j; induction l as [|y l IH]; intros [|k] [|j] H; cbn; auto; try lia. Qed.

(* patching the jump at position q: whatever was pending at q is resolved, nothing else changes *)
Lemma spec_patch bs p q : spec bs (q :: p) p (patch_jump_here q).
Proof.
  intros s HI _. unfold patch_jump_here.
  destruct (patch_code (cs_code s) (cs_pc s) q (u32_to_i32 (cs_pc s))) as [code'|] eqn:E; [|exact I].
  destruct HI as [H1 H2 H3 H4 H5].
  destruct (patch_code_spec _ _ _ _ _ E H1) as (k & j & j' & Hn & Hj & Hc & Hp).
  pose proof (set_jump_target_span _ _ _ Hj) as Hspan.
  pose proof (map_span_upd _ _ _ _ Hn Hspan) as Hspans. rewrite <- Hc in Hspans.
  assert (Hb : forall b, is_bound (cs_code s) b -> is_bound code' b).
  { intros b. apply is_bound_spans. symmetry. exact Hspans. }
  assert (Hbytes : forall n, bytes (skipn n code') = bytes (skipn n (cs_code s))).
  { intros n. apply bytes_skipn_spans. exact Hspans. }
  split; [|intros b; cbn; apply Hb].
  constructor; cbn [cs_code cs_pc cs_labels cs_trace set_code].
  - rewrite H1. symmetry. apply (Hbytes 0%nat).
  - intros k0 i0 z0 Hn0 Hz0. rewrite Hbytes.
    destruct (Nat.eq_dec k k0) as [<-|Hne].
    + rewrite Hc, (nth_error_upd_same _ _ _ _ Hn) in Hn0. injection Hn0 as <-.
      rewrite (set_jump_target_target _ _ _ Hj) in Hz0. injection Hz0 as <-.
      left. exists (cs_pc s). split; auto. apply Hb. rewrite H1. apply is_bound_end.
    + rewrite Hc, nth_error_upd_other in Hn0 by exact Hne.
      destruct (H2 k0 i0 z0 Hn0 Hz0) as [[b [Eb Hbb]]|[Eq|Hin]].
      * left. exists b. split; auto.
      * exfalso. apply Hne. apply (position_inj (cs_code s) k k0 j i0 Hn Hn0). congruence.
      * right. exact Hin.
  - intros h pos Hin. apply Hb. eauto.
  - intros a l Hin. destruct (H4 a l Hin) as [b [Hbb Ea]]. exists b. split; auto.
  - intros k0 i0 Hn0. rewrite Hbytes.
    destruct (Nat.eq_dec k k0) as [<-|Hne].
    + apply (H5 k j Hn).
    + rewrite Hc, nth_error_upd_other in Hn0 by exact Hne. apply (H5 k0 i0 Hn0).
Qed.

Lemma Inv_weaken_pend p q s : Inv p s -> Inv (q :: p) s.
Proof.
  intros [H1 H2 H3 H4 H5]. constructor; auto.
  intros k i z Hn Hz. destruct (H2 k i z Hn Hz); auto. right. right. auto.
Qed.

Lemma spec_patch_any bs p q : spec bs p p (patch_jump_here q).
Proof. intros s HI Hb. apply (spec_patch bs p q s (Inv_weaken_pend p q s HI) Hb). Qed.

(* ---- labels, strings ---- *)
Lemma in_nm_insert {V} k (v : V) m x y : In (x, y) (nm_insert k v m) -> (x = k /\ y = v) \/ In (x, y) m.
Proof.
  induction m as [|[k' v'] r IH]; cbn [nm_insert]; intros H.
  - destruct H as [H|[]]. injection H as <- <-. auto.
  - destruct (k <? k').
    + destruct H as [H|H]; [injection H as <- <-; auto | auto].
    + destruct (k =? k').
      * destruct H as [H|H]; [injection H as <- <-; auto | right; right; auto].
      * destruct H as [H|H]; [right; left; auto|]. destruct (IH H); auto. right. right. auto.
Qed.

Lemma spec_label_insert bs p h : spec bs p p (label_insert_here h).
Proof.
  intros s HI _. unfold label_insert_here.
  destruct ((two32 <=? cs_pc s) || (h =? 0)); [exact I|].
  split; [|intros b Hb; exact Hb]. destruct HI as [H1 H2 H3 H4 H5]. constructor; auto.
  cbn [cs_labels set_labels cs_code]. intros x y Hin. apply in_nm_insert in Hin.
  destruct Hin as [[-> ->]|Hin]; [rewrite H1; apply is_bound_end | eauto].
Qed.

Lemma spec_label_entry bs p h : spec bs p p (label_entry_here h).
Proof.
  intros s HI _. unfold label_entry_here.
  destruct (two32 <=? cs_pc s); [exact I|].
  destruct (h =? 0); [split; [exact HI | apply mono_refl]|].
  destruct (nm_find h (cs_labels s)); [split; [exact HI | apply mono_refl]|].
  split; [|intros b Hb; exact Hb]. destruct HI as [H1 H2 H3 H4 H5]. constructor; auto.
  cbn [cs_labels set_labels cs_code]. intros x y Hin. apply in_nm_insert in Hin.
  destruct Hin as [[-> ->]|Hin]; [rewrite H1; apply is_bound_end | eauto].
Qed.

Lemma spec_card_label bs p : spec bs p p card_label.
Proof.
  unfold card_label. eapply spec_bind; [apply spec_frame, frame_index_handle|].
  intros h. apply spec_label_entry.
Qed.

Lemma spec_push_string bs p mk st :
  (forall x, jump_target (mk x) = None) -> spec bs p p (push_string mk st).
Proof.
  intros Hmk. unfold push_string. eapply spec_bind; [apply spec_frame, frame_get|]. intros s0.
  eapply spec_bind; [apply spec_push_instr, Hmk|]. intros _.
  apply spec_frame. intros s. destruct (two32 <=? N.of_nat (length st)); cbn; [exact I | same_tac].
Qed.

(* ------------------------------------------------------------------ composite constructs *)
Ltac frame_tac :=
  repeat first
    [ apply frame_ret | apply frame_get | apply frame_get_pc | apply frame_get_pc_i32 | apply frame_panic
    | apply frame_diverge | apply frame_error | apply frame_push_sub | apply frame_pop_sub
    | apply frame_set_index_m | apply frame_scope_begin | apply frame_compile_begin
    | apply frame_compile_end | apply frame_validate | apply frame_add_local_unchecked
    | apply frame_add_local | apply frame_add_locals | apply frame_handle_from_bytes
    | apply frame_index_handle | apply frame_resolve_var | apply frame_global_id
    | apply frame_resolve_function
    | apply frame_bind; [|intros ?] ].

Lemma pop_locals_nonjump rls d : Forall (fun i => jump_target i = None) (snd (pop_locals rls d)).
Proof.
  induction rls as [|l r IH]; cbn [pop_locals]; [constructor|].
  destruct (d <? l_depth l)%Z; [|constructor].
  destruct (pop_locals r d) as [r' is]. cbn [snd] in *. constructor; auto.
  destruct (l_captured l); reflexivity.
Qed.

Lemma spec_push_raws bs p is :
  Forall (fun i => jump_target i = None) is -> spec bs p p (push_raws is).
Proof.
  induction 1 as [|i r Hi _ IH]; cbn [push_raws]; [apply spec_ret|].
  eapply spec_bind; [apply spec_push_instr, Hi | intros _; exact IH].
Qed.

Lemma spec_scope_end bs p : spec bs p p scope_end.
Proof.
  intros s HI Hb. unfold scope_end.
  set (ds := map_hd _ (cs_depth s)). set (rlis := pop_locals _ _).
  set (s1 := set_scopes _ _ _ s).
  assert (Hs : same s s1) by (unfold same; cbn; repeat split; reflexivity).
  pose proof (spec_push_raws bs p (snd rlis) (pop_locals_nonjump _ _) s1 (Inv_same _ _ _ Hs HI)) as H.
  assert (Hb1 : bounds_in bs s1) by (intros b Hin; apply Hb, Hin).
  specialize (H Hb1). destruct (push_raws (snd rlis) s1); auto.
Qed.

Lemma spec_with_sub bs p i m : spec bs p p m -> spec bs p p (with_sub i m).
Proof.
  intros H. unfold with_sub.
  eapply spec_bind; [apply spec_frame, frame_push_sub | intros _].
  eapply spec_bind; [exact H | intros _]. apply spec_frame, frame_pop_sub.
Qed.

Lemma spec_encode_if_then bs p skip body :
  skip = IGotoIfFalse \/ skip = IGotoIfTrue ->
  spec bs p p body -> spec bs p p (encode_if_then skip body).
Proof.
  intros Hs Hbody. unfold encode_if_then.
  eapply spec_bind; [apply spec_frame, frame_get_pc | intros q].
  eapply spec_bind; [apply spec_push_jump0; destruct Hs; subst; reflexivity | intros _].
  eapply spec_bind; [exact Hbody | intros _]. apply spec_patch_any.
Qed.

Ltac nonjump := first [reflexivity | intros; reflexivity].

Lemma spec_read_props bs p props : spec bs p p (read_props props).
Proof.
  induction props as [|x r IH]; cbn [read_props]; [apply spec_ret|].
  eapply spec_bind; [|intros _; exact IH].
  destruct (is_empty x); [apply spec_ret|].
  eapply spec_bind; [apply spec_push_string; nonjump | intros _; apply spec_push_instr; nonjump].
Qed.

Lemma spec_read_var_card bs p v : spec bs p p (read_var_card v).
Proof.
  unfold read_var_card.
  destruct (match split_once_c c_dot v with Some (v0, p0) => (v0, p0) | None => (v, []) end) as [v0 props].
  eapply spec_bind; [apply spec_frame, frame_resolve_var | intros scope].
  eapply spec_bind; [|intros _; apply spec_read_props].
  destruct scope.
  - eapply spec_bind; [apply spec_frame, frame_global_id | intros id; apply spec_push_instr; nonjump].
  - apply spec_push_instr; nonjump.
  - apply spec_push_instr; nonjump.
Qed.

Lemma spec_bind_loop_var bs p o src : spec bs p p (bind_loop_var o src).
Proof.
  destruct o; cbn [bind_loop_var]; [|apply spec_ret].
  eapply spec_bind; [apply spec_frame, frame_add_local | intros x].
  eapply spec_bind; [apply spec_push_instr; nonjump | intros _; apply spec_push_instr; nonjump].
Qed.

Lemma spec_emit_upvalues bs p ups : spec bs p p (emit_upvalues ups).
Proof.
  induction ups as [|u r IH]; cbn [emit_upvalues]; [apply spec_ret|].
  eapply spec_bind; [apply spec_push_instr; nonjump | intros _].
  eapply spec_bind; [apply spec_push_instr; nonjump | intros _; exact IH].
Qed.

Lemma spec_process_leaf bs p i : jump_target i = None -> spec bs p p (process_leaf i).
Proof.
  intros H. unfold process_leaf.
  eapply spec_bind; [apply spec_card_label | intros _; apply spec_push_instr, H].
Qed.

(* ------------------------------------------------------------------ induction over cards *)
Section CardInd.
  Variable P : card -> Prop.
  Hypothesis Hbin : forall op a b, P a -> P b -> P (CBin op a b).
  Hypothesis Hun : forall op a, P a -> P (CUn op a).
  Hypothesis Htri : forall op a b c, P a -> P b -> P c -> P (CTri op a b c).
  Hypothesis Hnil : P CScalarNil.
  Hypothesis Htable : P CCreateTable.
  Hypothesis Habort : P CAbort.
  Hypothesis Hint : forall i, P (CScalarInt i).
  Hypothesis Hfloat : forall b, P (CScalarFloat b).
  Hypothesis Hstr : forall s, P (CStringLiteral s).
  Hypothesis Hcomment : forall s, P (CComment s).
  Hypothesis Hfunction : forall s, P (CFunction s).
  Hypothesis Hnative : forall s, P (CNativeFunction s).
  Hypothesis Hread : forall s, P (CReadVar s).
  Hypothesis Hcallnative : forall n args, Forall P args -> P (CCallNative n args).
  Hypothesis Hcall : forall n args, Forall P args -> P (CCall n args).
  Hypothesis Hdyn : forall f args, P f -> Forall P args -> P (CDynamicCall f args).
  Hypothesis Hsetglobal : forall n v, P v -> P (CSetGlobalVar n v).
  Hypothesis Hsetvar : forall n v, P v -> P (CSetVar n v).
  Hypothesis Hrepeat : forall i n body, P n -> P body -> P (CRepeat i n body).
  Hypothesis Hforeach : forall i k v it body, P it -> P body -> P (CForEach i k v it body).
  Hypothesis Hcomposite : forall ty cards, Forall P cards -> P (CComposite ty cards).
  Hypothesis Harray : forall cards, Forall P cards -> P (CArray cards).
  Hypothesis Hclosure : forall args cards, Forall P cards -> P (CClosure args cards).

  Fixpoint card_ind' (c : card) : P c :=
    let fix all (l : list card) : Forall P l :=
        match l with
        | [] => Forall_nil P
        | x :: r => Forall_cons x (card_ind' x) (all r)
        end in
    match c with
    | CBin op a b => Hbin op a b (card_ind' a) (card_ind' b)
    | CUn op a => Hun op a (card_ind' a)
    | CTri op a b c => Htri op a b c (card_ind' a) (card_ind' b) (card_ind' c)
    | CScalarNil => Hnil
    | CCreateTable => Htable
    | CAbort => Habort
    | CScalarInt i => Hint i
    | CScalarFloat b => Hfloat b
    | CStringLiteral s => Hstr s
    | CComment s => Hcomment s
    | CFunction s => Hfunction s
    | CNativeFunction s => Hnative s
    | CReadVar s => Hread s
    | CCallNative n args => Hcallnative n args (all args)
    | CCall n args => Hcall n args (all args)
    | CDynamicCall f args => Hdyn f args (card_ind' f) (all args)
    | CSetGlobalVar n v => Hsetglobal n v (card_ind' v)
    | CSetVar n v => Hsetvar n v (card_ind' v)
    | CRepeat i n body => Hrepeat i n body (card_ind' n) (card_ind' body)
    | CForEach i k v it body => Hforeach i k v it body (card_ind' it) (card_ind' body)
    | CComposite ty cards => Hcomposite ty cards (all cards)
    | CArray cards => Harray cards (all cards)
    | CClosure args cards => Hclosure args cards (all cards)
    end.
End CardInd.

Definition card_ok (c : card) : Prop := forall bs p, spec bs p p (process_card c).

(* the local list loops of process_card *)
Lemma spec_subexpr bs p l : Forall card_ok l -> forall i,
  spec bs p p
    ((fix subexpr (l : list card) (i : N) {struct l} : M unit :=
        match l with
        | [] => ret tt
        | x :: r => with_sub i (process_card x) ;; subexpr r (i + 1)
        end) l i).
Proof.
  induction 1 as [|x r Hx _ IH]; intros i; [apply spec_ret|].
  eapply spec_bind; [apply spec_with_sub, Hx | intros _; apply IH].
Qed.

Lemma spec_array_items bs p tv l : Forall card_ok l -> forall i,
  spec bs p p
    ((fix items (l : list card) (i : N) {struct l} : M unit :=
         match l with
         | [] => ret tt
         | x :: r =>
             push_instr IScalarNil ;;
             with_sub i (process_card x) ;;
             read_local tv ;;
             push_instr IAppendTable ;;
             items r (i + 1)
         end) l i).
Proof.
  induction 1 as [|x r Hx _ IH]; intros i; [apply spec_ret|].
  eapply spec_bind; [apply spec_push_instr; nonjump | intros _].
  eapply spec_bind; [apply spec_with_sub, Hx | intros _].
  eapply spec_bind; [apply spec_push_instr; nonjump | intros _].
  eapply spec_bind; [apply spec_push_instr; nonjump | intros _; apply IH].
Qed.

Ltac step :=
  first
    [ apply spec_ret
    | apply spec_card_label
    | apply spec_scope_end
    | apply spec_read_var_card
    | apply spec_bind_loop_var
    | apply spec_emit_upvalues
    | apply spec_patch_any
    | apply spec_push_instr; nonjump
    | apply spec_push_string; nonjump
    | apply spec_process_leaf; nonjump
    | apply spec_push_goto_back; cbn; tauto
    | match goal with H : card_ok ?c |- spec _ _ _ (process_card ?c) => apply H end
    | apply spec_with_sub
    | apply spec_subexpr; assumption
    | apply spec_array_items; assumption
    | apply spec_encode_if_then; [first [left; reflexivity | right; reflexivity]|]
    | apply spec_get_pc_i32; intros ?b
    | apply spec_frame; solve [frame_tac]
    | eapply spec_bind; [|intros ?] ].

Lemma process_card_ok c : card_ok c.
Proof.
  induction c using card_ind'; intros bs p; cbn [process_card].
  - (* CBin *) destruct op; repeat step.
  - destruct op; repeat step.
  - (* CTri *)
    destruct op.
    + (* IfElse *)
      eapply spec_bind; [step | intros _].
      eapply spec_bind; [repeat step | intros _].
      eapply spec_bind; [repeat step | intros _].
      eapply spec_bind; [apply spec_frame, frame_get_pc | intros p_if].
      eapply spec_bind; [apply spec_push_jump0; reflexivity | intros _].
      eapply spec_bind; [step | intros _].
      apply spec_pending_goto. intros q.
      eapply spec_bind; [apply spec_patch_any | intros _].
      eapply spec_bind; [repeat step | intros _].
      eapply spec_bind; [repeat step | intros _].
      apply spec_patch.
    + repeat step.
  - repeat step.
  - repeat step.
  - repeat step.
  - repeat step.
  - repeat step.
  - repeat step.
  - repeat step.
  - (* CFunction *) repeat step.
  - repeat step.
  - repeat step.
  - (* CCallNative *) repeat step.
  - (* CCall *) repeat step.
  - (* CDynamicCall *) repeat step.
  - (* CSetGlobalVar *)
    eapply spec_bind; [step | intros _].
    eapply spec_bind; [repeat step | intros _].
    destruct (is_empty n); repeat step.
  - (* CSetVar *)
    eapply spec_bind; [step | intros _].
    eapply spec_bind; [repeat step | intros _].
    destruct (rsplit_once_c c_dot n) as [[rp sp]|]; [repeat step|].
    eapply spec_bind; [repeat step | intros var]. destruct var; repeat step.
  - (* CRepeat *) repeat step.
  - (* CForEach *) repeat step.
  - (* CComposite *) repeat step.
  - (* CArray *) repeat step.
  - (* CClosure *)
    eapply spec_bind; [step | intros _].
    apply spec_pending_goto. intros q.
    eapply spec_bind; [repeat step | intros _].
    eapply spec_bind; [repeat step | intros h].
    eapply spec_bind; [apply spec_label_insert | intros _].
    eapply spec_bind; [repeat step | intros _].
    eapply spec_bind; [repeat step | intros _].
    eapply spec_bind; [repeat step | intros _].
    eapply spec_bind; [repeat step | intros _].
    eapply spec_bind; [repeat step | intros _].
    eapply spec_bind; [repeat step | intros _].
    eapply spec_bind; [apply spec_patch | intros _].
    repeat step.
Qed.

(* ------------------------------------------------------------------ functions and stages *)
Lemma spec_process_cards bs p cards : forall ic, spec bs p p (process_cards cards ic).
Proof.
  induction cards as [|c r IH]; intros ic; cbn [process_cards]; [apply spec_ret|].
  eapply spec_bind; [apply spec_frame, frame_pop_sub | intros _].
  eapply spec_bind; [apply spec_frame, frame_push_sub | intros _].
  eapply spec_bind; [apply process_card_ok | intros _; apply IH].
Qed.

Lemma spec_process_function bs p f : spec bs p p (process_function f).
Proof.
  unfold process_function.
  eapply spec_bind; [apply spec_frame; intros s; cbn; same_tac | intros _].
  eapply spec_bind; [apply spec_frame, frame_add_locals | intros _]. apply spec_process_cards.
Qed.

Lemma spec_compile_main bs p f : spec bs p p (compile_main f).
Proof.
  unfold compile_main.
  eapply spec_bind; [apply spec_frame, frame_set_index_m | intros _].
  eapply spec_bind; [apply spec_frame, frame_set_fh_m | intros _].
  eapply spec_bind; [apply spec_frame, frame_scope_begin | intros _].
  eapply spec_bind; [apply spec_process_function | intros _].
  eapply spec_bind; [apply spec_frame, frame_set_index_m | intros _].
  eapply spec_bind; [apply spec_scope_end | intros _].
  apply spec_process_leaf. reflexivity.
Qed.

Lemma spec_compile_other bs p f : spec bs p p (compile_other f).
Proof.
  unfold compile_other.
  eapply spec_bind; [apply spec_frame, frame_set_index_m | intros _].
  eapply spec_bind; [apply spec_frame, frame_set_fh_m | intros _].
  eapply spec_bind; [apply spec_label_insert | intros _].
  eapply spec_bind; [apply spec_frame, frame_scope_begin | intros _].
  eapply spec_bind; [apply spec_process_function | intros _].
  eapply spec_bind; [apply spec_scope_end | intros _].
  eapply spec_bind; [apply spec_push_instr; reflexivity | intros _].
  apply spec_push_instr; reflexivity.
Qed.

Lemma spec_compile_others bs p fs : spec bs p p (compile_others fs).
Proof.
  induction fs as [|f r IH]; cbn [compile_others]; [apply spec_ret|].
  eapply spec_bind; [apply spec_compile_other | intros _; exact IH].
Qed.

Lemma frame_add_function f : frame (add_function f).
Proof.
  intros s. unfold add_function, bind, get. destruct (sm_find (fi_full_name f) (cs_jump s)); cbn; [exact I|].
  same_tac.
Qed.
Lemma frame_stage_1 fs : frame (stage_1 fs).
Proof.
  induction fs as [|f r IH]; cbn [stage_1]; [apply frame_ret|].
  apply frame_bind; [apply frame_add_function | intros _; exact IH].
Qed.

Lemma spec_stage_2 bs p fs : spec bs p p (stage_2 fs).
Proof.
  destruct fs as [|f r]; cbn [stage_2]; [apply spec_ret|].
  eapply spec_bind; [apply spec_compile_main | intros _; apply spec_compile_others].
Qed.

Lemma Inv_init d : Inv [] (init_state d).
Proof.
  constructor; cbn; auto.
  - intros [|k] i z H; discriminate.
  - intros h pos [].
  - intros a l [].
  - intros [|k] i H; discriminate.
Qed.

(* the state just before the final Exit satisfies the invariant with nothing pending *)
Lemma compile_ir_before_exit fs d s :
  compile_ir fs (init_state d) = ROk tt s ->
  exists s0, Inv [] s0 /\
             cs_code s = IExit :: cs_code s0 /\ cs_labels s = cs_labels s0 /\
             cs_data s = cs_data s0 /\ cs_ids s = cs_ids s0 /\ cs_names s = cs_names s0 /\
             exists l, cs_trace s = (cs_pc s0 mod two32, l) :: cs_trace s0.
Proof.
  intros H. destruct fs as [|f r]; [discriminate|].
  unfold compile_ir in H.
  assert (S12 : spec [] [] [] (stage_1 (f :: r) ;; stage_2 (f :: r))).
  { eapply spec_bind; [apply spec_frame, frame_stage_1 | intros _; apply spec_stage_2]. }
  pose proof (S12 (init_state d) (Inv_init d) (fun b (Hb : In b []) => match Hb with end)) as S.
  clear S12. unfold bind in H, S.
  destruct (stage_1 (f :: r) (init_state d)) as [[] s1| | |]; cbv beta iota in H, S; try discriminate.
  destruct (stage_2 (f :: r) s1) as [[] s2| | |]; cbv beta iota in H, S; try discriminate.
  destruct S as [HI2 _].
  unfold push_instr, push_raw in H. cbn in H. injection H as <-.
  exists s2. split; [exact HI2|]. cbn. repeat split; eauto.
Qed.

(* ------------------------------------------------------------------ from boundaries to starts *)
Fixpoint nbytes (l : list instr) : nat :=
  match l with [] => 0%nat | i :: r => (instr_span i + nbytes r)%nat end.

Lemma bytes_nbytes l : bytes l = N.of_nat (nbytes l).
Proof. induction l as [|i r IH]; cbn [bytes nbytes]; [reflexivity|]. unfold spanN. rewrite IH. lia. Qed.
Lemma nbytes_app a b : nbytes (a ++ b) = (nbytes a + nbytes b)%nat.
Proof. induction a as [|x a IH]; cbn [app nbytes]; [reflexivity | rewrite IH; lia]. Qed.
Lemma nbytes_rev l : nbytes (rev l) = nbytes l.
Proof. induction l as [|x l IH]; cbn [rev nbytes]; [reflexivity|]. rewrite nbytes_app, IH. cbn. lia. Qed.

Lemma encode_instr_length i : length (encode_instr i) = instr_span i.
Proof.
  destruct i; unfold encode_instr; cbn [instr_op instr_args op_widths encode_args length];
    rewrite ?app_length, ?le_bytes_length; reflexivity.
Qed.
Lemma encode_length is : length (encode is) = nbytes is.
Proof.
  induction is as [|i r IH]; cbn [encode flat_map nbytes]; [reflexivity|].
  rewrite app_length, encode_instr_length. unfold encode in IH. rewrite IH. reflexivity.
Qed.

Lemma starts_snoc l x : forall p,
  map fst (positions_from p (l ++ [x])) = map fst (positions_from p l) ++ [(p + nbytes l)%nat].
Proof.
  induction l as [|i r IH]; intros p; cbn [app positions_from map fst nbytes].
  - f_equal. lia.
  - f_equal. rewrite IH. f_equal. f_equal. lia.
Qed.

Lemma bound_is_start code : forall x k,
  In (nbytes (skipn k code)) (map fst (positions (rev (x :: code)))).
Proof.
  induction code as [|y c IH]; intros x k.
  - destruct k; cbn; auto.
  - unfold positions. cbn [rev]. rewrite starts_snoc. apply in_or_app.
    destruct k as [|k].
    + right. left. cbn [skipn]. rewrite <- (nbytes_rev (y :: c)). cbn [rev]. reflexivity.
    + left. cbn [skipn]. apply (IH y k).
Qed.

Lemma u32_to_i32_small b : (b < 2147483648)%N -> u32_to_i32 b = Z.of_N b.
Proof.
  intros H. unfold u32_to_i32, two32. rewrite N.mod_small by lia.
  destruct (Z.ltb_spec (Z.of_N b) 2147483648); lia.
Qed.

(* ------------------------------------------------------------------ the theorem *)
Definition wf_partial (B : compiled) (is : list instr) : Prop :=
  p_bytecode B = encode is /\
  (Forall instr_ok is -> decode (p_bytecode B) = Some (positions is)) /\
  (exists is', is = is' ++ [IExit]) /\
  (forall i z, In i is -> jump_target i = Some z ->
               (0 <= z)%Z /\ In (Z.to_nat z) (map fst (positions is))) /\
  (forall h pos, In (h, pos) (p_labels B) -> In (N.to_nat pos) (map fst (positions is))) /\
  (forall a l, In (a, l) (p_trace B) -> In (N.to_nat a) (map fst (positions is))) /\
  (* every instruction has a trace entry *)
  (forall p i, In (p, i) (positions is) -> exists l, In (N.of_nat p, l) (p_trace B)).

Lemma positions_snoc l x : forall p,
  positions_from p (l ++ [x]) = positions_from p l ++ [((p + nbytes l)%nat, x)].
Proof.
  induction l as [|i r IH]; intros p; cbn [app positions_from nbytes].
  - f_equal. f_equal. lia.
  - f_equal. rewrite IH. f_equal. f_equal. f_equal. lia.
Qed.

Lemma positions_rev_index code : forall p i,
  In (p, i) (positions (rev code)) ->
  exists k, nth_error code k = Some i /\ p = nbytes (skipn (S k) code).
Proof.
  induction code as [|x c IH]; intros p i H; [destruct H|].
  unfold positions in H. cbn [rev] in H. rewrite positions_snoc in H. apply in_app_or in H.
  destruct H as [H|[H|[]]].
  - destruct (IH p i H) as (k & Hk & Hp). exists (S k). split; auto.
  - injection H as <- <-. exists 0%nat. split; [reflexivity|]. cbn [skipn]. rewrite nbytes_rev. reflexivity.
Qed.

Lemma wf_partial_core fs d s :
  compile_ir fs (init_state d) = ROk tt s ->
  (N.of_nat (length (p_bytecode (finish s))) < 2147483648)%N ->
  wf_partial (finish s) (rev (cs_code s)).
Proof.
  intros E Hlen. unfold wf_partial.
  destruct (compile_ir_before_exit _ _ _ E) as (s0 & HI & Hcode & Hlab & _ & _ & _ & l0 & Htr).
  unfold finish in *. cbn [p_bytecode p_labels p_trace] in *.
  set (code0 := cs_code s0) in *.
  rewrite Hcode.
  assert (Hpc0 : cs_pc s0 = bytes code0) by apply (inv_pc _ _ HI).
  assert (Hsmall : (bytes code0 < 2147483648)%N).
  { rewrite Hcode, encode_length, nbytes_rev in Hlen. cbn [nbytes] in Hlen.
    rewrite bytes_nbytes. lia. }
  assert (Hstart : forall b, is_bound code0 b ->
                             In (N.to_nat b) (map fst (positions (rev (IExit :: code0))))).
  { intros b [k ->]. rewrite bytes_nbytes, Nat2N.id. apply bound_is_start. }
  split; [reflexivity|].
  split; [intros Hok; apply decode_encode; exact Hok|].
  split; [exists (rev code0); reflexivity|].
  split.
  { intros i z Hin Hj. apply in_rev in Hin. destruct Hin as [Hin|Hin]; [subst i; discriminate|].
    apply In_nth_error in Hin. destruct Hin as [k Hk].
    destruct (inv_jumps _ _ HI k i z Hk Hj) as [[b [-> Hb]]|[]].
    pose proof (is_bound_le _ _ Hb) as Hle.
    rewrite u32_to_i32_small by (fold code0 in Hle; lia).
    split; [lia|]. rewrite <- Z_N_nat, N2Z.id. apply Hstart, Hb. }
  split.
  { intros h pos Hin. rewrite Hlab in Hin. apply Hstart. apply (inv_labels _ _ HI h pos Hin). }
  split.
  { intros a l Hin. apply in_rev in Hin. rewrite Htr in Hin.
    destruct Hin as [Ha|Hin].
    - injection Ha as <- _. rewrite Hpc0. unfold two32. rewrite N.mod_small by lia.
      apply Hstart, is_bound_end.
    - destruct (inv_trace _ _ HI a l Hin) as [b [Hb ->]].
      pose proof (is_bound_le _ _ Hb) as Hle. fold code0 in Hle.
      unfold two32. rewrite N.mod_small by lia. apply Hstart, Hb. }
  intros p i Hin. apply positions_rev_index in Hin. destruct Hin as (k & Hk & ->).
  destruct k as [|k]; cbn in Hk.
  - injection Hk as <-. cbn [skipn]. exists l0. apply in_rev. rewrite rev_involutive, Htr. left.
    rewrite Hpc0, bytes_nbytes. unfold two32. rewrite N.mod_small; [reflexivity|].
    rewrite <- bytes_nbytes. lia.
  - cbn [skipn]. destruct (inv_traced _ _ HI k i Hk) as [l Hl]. exists l.
    apply in_rev. rewrite rev_involutive, Htr. right.
    fold code0 in Hl. rewrite <- bytes_nbytes.
    pose proof (bytes_skipn_le (S k) code0) as Hle.
    unfold two32 in Hl. rewrite N.mod_small in Hl by lia. exact Hl.
Qed.

Lemma compile_ok_inv M o B :
  compile M o = COk B ->
  exists fs s, into_ir_stream M (o_recursion_limit o) = inr fs /\
               compile_ir fs (init_state (o_debug o)) = ROk tt s /\ B = finish s.
Proof.
  unfold compile. intros H.
  destruct (into_ir_stream M (o_recursion_limit o)) as [e|fs]; [discriminate|].
  destruct (compile_ir fs (init_state (o_debug o))) as [[] s| | |] eqn:E; try discriminate.
  injection H as <-. eauto.
Qed.

Theorem compile_wellformed_partial M o B :
  compile M o = COk B ->
  (N.of_nat (length (p_bytecode B)) < 2147483648)%N ->
  exists is : list instr, wf_partial B is.
Proof.
  intros H Hlen. destruct (compile_ok_inv _ _ _ H) as (fs & s & _ & E & ->).
  exists (rev (cs_code s)). apply (wf_partial_core fs _ s E Hlen).
Qed.
