(* The side conditions of HashMapProofs.v hold for the concrete parameters of the crate
   (regenerated from /repo into Consts.v): fibonacci bucket < capacity, MAX_LOAD < 1 leaves a
   free slot, the growth rule strictly grows. *)
From Coq Require Import Arith NArith Lia List Bool.
From Cao Require Import Consts Bits F32Load F32LoadProofs HashMap HashMapProofs HashMapConsts.

Lemma fib_home64_lt : forall n h, 0 < n -> fib_home64 n h < n.
Proof.
  intros n h Hn. unfold fib_home64.
  assert (H : (((h * fib_mult) mod two64) mod N.of_nat n < N.of_nat n)%N).
  { apply N.mod_lt. lia. }
  lia.
Qed.

Lemma load_num_pos : (0 < hm_load_num)%N.
Proof. reflexivity. Qed.
Lemma load_below_one : (hm_load_num * (2 ^ 23 + 1) < 2 ^ hm_load_shift * 2 ^ 23)%N.
Proof. reflexivity. Qed.

Lemma cneeds_grow_lt : forall c cap, cneeds_grow (S c) cap = false -> S c < cap.
Proof.
  intros c cap H. destruct cap as [|cap'].
  - exfalso. unfold cneeds_grow, needs_grow_nat, needs_grow_N in H.
    replace (N.of_nat 0 * hm_load_num)%N with 0%N in H by reflexivity.
    replace (rne_shift 0 (N.size 0 - 24)) with 0%N in H by reflexivity.
    apply N.ltb_ge in H.
    assert (0 < N.of_nat (S c) * 2 ^ hm_load_shift)%N.
    { apply N.mul_pos_pos; [lia|]. apply N.neq_0_lt_0, N.pow_nonzero. lia. }
    lia.
  - apply (needs_grow_nat_false_lt hm_load_num hm_load_shift); auto using load_num_pos, load_below_one.
    lia.
Qed.

Lemma cnew_cap_gt : forall c, c < cnew_cap c.
Proof.
  intros c. unfold cnew_cap.
  change (N.to_nat hm_grow_min) with 2. change (N.to_nat hm_grow_mul) with 3.
  change (N.to_nat hm_grow_div) with 2.
  assert (H : 2 * c < Nat.max c 2 * 3) by lia.
  apply Nat.div_le_lower_bound; lia.
Qed.
