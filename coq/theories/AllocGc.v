(* Link between the allocator ledger (Alloc.v) and the collector (Gc.v): every outstanding
   allocation is owned by an object of the heap graph (header, string characters, table storage,
   ... of that object); a collection nested in an allocation releases exactly the allocations whose
   owner the collection frees.  With that mask, "what survives the collection" in the ledger
   theorems is "the allocations of the objects reachable from the roots and the guarded objects". *)
From stdpp Require Import gmap list.
From Cao Require Import Alloc AllocProofs Gc GcProofs.
Local Open Scope N_scope.

(* what the collection nested in an allocation keeps: the allocations whose owner survives
   (if the marking loop ran out of fuel - it cannot, gc_spec - everything is kept) *)
Definition gc_mask (h : heap) (roots owners : list N) : list bool :=
  match gc h roots with
  | Some h' => map (fun a => bool_decide (is_Some (h' !! a))) owners
  | None => map (fun _ => true) owners
  end.

Definition live (h : heap) (roots : list N) (a : N) : Prop :=
  is_Some (h !! a) /\ reach h (protected_of h ++ roots) a.

(* entry i of the mask says whether the owner of allocation i is reachable *)
Lemma gc_mask_spec h roots owners : closed h -> no_gray h ->
  length (gc_mask h roots owners) = length owners /\
  forall i a b, owners !! i = Some a -> gc_mask h roots owners !! i = Some b ->
                (b = true <-> live h roots a).
Proof.
  intros Hcl Hng. destruct (gc_spec h roots Hcl Hng) as (h' & Hgc & Hkeep & _).
  unfold gc_mask. rewrite Hgc. split; [apply map_length|].
  intros i a b Ha Hb. rewrite list_lookup_fmap, Ha in Hb. cbn in Hb. injection Hb as <-.
  rewrite bool_decide_eq_true. unfold live. apply Hkeep.
Qed.

(* bytes of the allocations whose owner satisfies P *)
Fixpoint bytes_where (keep : list bool) (out : list N) : N :=
  match keep, out with
  | b :: m, x :: r => (if b then x else 0) + bytes_where m r
  | _, _ => 0
  end.

Lemma sum_keep_by_bytes : forall keep out, length keep = length out ->
  Alloc.sum (keep_by keep out) = bytes_where keep out.
Proof.
  induction keep as [|b m IH]; intros [|x r] Hl; cbn in *; try discriminate; try reflexivity.
  injection Hl as Hl. destruct b; cbn; rewrite IH by exact Hl; lia.
Qed.

Section Link.
  Variables (s : lstate) (h : heap) (roots owners : list N).
  Hypothesis HI : LInv s.
  Hypothesis Hcl : closed h.
  Hypothesis Hng : no_gray h.
  (* one owner per outstanding allocation *)
  Hypothesis Hown : length owners = length (l_out s).

  Let mask := gc_mask h roots owners.
  Let live_bytes := bytes_where mask (l_out s).

  Lemma mask_len : length mask = length (l_out s).
  Proof. unfold mask. rewrite (proj1 (gc_mask_spec h roots owners Hcl Hng)). exact Hown. Qed.

  (* OutOfMemory only when the allocations of the reachable (and guarded) objects plus the
     request exceed the limit *)
  Theorem oom_only_when_reachable_full size align forced :
    snd (l_step s (LAlloc size align forced mask)) = Some false ->
    a_limit (l_st s) < live_bytes + (size + align).
  Proof.
    intros H. pose proof (oom_only_when_full s size align forced mask HI H) as Hlt.
    rewrite (sum_keep_by_bytes mask (l_out s) mask_len) in Hlt. exact Hlt.
  Qed.

  (* and a request that fits next to them always succeeds, whatever garbage is outstanding *)
  Theorem reachable_fits_never_oom size align forced :
    live_bytes + (size + align) <= a_limit (l_st s) ->
    snd (l_step s (LAlloc size align forced mask)) = Some true.
  Proof.
    intros H. apply bounded_live_never_oom; [exact HI|].
    rewrite (sum_keep_by_bytes mask (l_out s) mask_len). exact H.
  Qed.

  (* which allocations are counted in live_bytes *)
  Theorem live_bytes_counts i a b :
    owners !! i = Some a -> mask !! i = Some b -> (b = true <-> live h roots a).
  Proof. apply (proj2 (gc_mask_spec h roots owners Hcl Hng)). Qed.
End Link.
