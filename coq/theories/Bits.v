(* Machine-integer helpers: wraps written explicitly; FNV-1a-32 as in CaoHasher / Handle. *)
From Coq Require Import NArith ZArith List Lia.
Import ListNotations.
Local Open Scope N_scope.

Definition two32 : N := 4294967296.
Definition two64 : N := 18446744073709551616.
Definition mask32 : N := 4294967295.

Definition fnv_offset : N := 2166136261.
Definition fnv_prime : N := 16777619.
Definition fib_mult : N := 2654435769.

(* CaoHasher::write / hash_bytes: hash ^= byte; hash &= MASK; hash *= prime; finally & MASK *)
Definition fnv_step (h : N) (b : N) : N := (N.land (N.lxor h b) mask32) * fnv_prime.
Definition fnv_bytes (h : N) (bs : list N) : N := N.land (fold_left fnv_step bs h) mask32.
(* writes are chained with the masked state, as Hasher::write stores hash & MASK *)
Definition fnv_write (state : N) (bs : list N) : N := fnv_bytes state bs.

(* little-endian bytes of a u64 *)
Fixpoint le_bytes (n : nat) (x : N) : list N :=
  match n with
  | O => []
  | S n' => (x mod 256) :: le_bytes n' (x / 256)
  end.

Definition i64_to_u64 (z : Z) : N := Z.to_N (z mod 18446744073709551616)%Z.
Definition u64_to_i64 (n : N) : Z :=
  let z := Z.of_N (n mod two64) in
  if (z <? 9223372036854775808)%Z then z else (z - 18446744073709551616)%Z.

(* hash::<i64>: Hash for i64 writes the 8 native-endian bytes; 0 is remapped to 1 *)
Definition nonzero_hash (h : N) : N := if h =? 0 then 1 else h.
Definition hash_i64 (z : Z) : N :=
  nonzero_hash (fnv_write fnv_offset (le_bytes 8 (i64_to_u64 z))).

(* optimal_ind: (hash.wrapping_mul(2654435769) as usize) % capacity, 64-bit usize *)
Definition fib_home64 (cap : nat) (h : N) : nat :=
  N.to_nat (((h * fib_mult) mod two64) mod (N.of_nat cap)).

(* HandleTable: (handle.wrapping_mul(2654435769) [u32] as usize) & (capacity - 1) *)
Definition fib_home32_mask (cap : nat) (h : N) : nat :=
  N.to_nat (N.land ((h * fib_mult) mod two32) (N.of_nat cap - 1)).

(* little-endian decoding of a byte list *)
Fixpoint le_to_N (bs : list N) : N :=
  match bs with
  | [] => 0
  | b :: r => b + 256 * le_to_N r
  end.

Definition u32_to_i32 (n : N) : Z :=
  let z := Z.of_N (n mod two32) in
  if (z <? 2147483648)%Z then z else (z - 4294967296)%Z.
Definition i32_to_u32 (z : Z) : N := Z.to_N (z mod 4294967296)%Z.

(* handle_table.rs non_zero (3f22e7c "handles are never 0"): 0 marks an empty slot of a HandleTable, a hash
   of 0 becomes 1.  Applied by Handle::from_bytes / from_slice / from_bytes_iter, hash_u64 and Handle + Handle.
   (Before: no remap, a debug_assert in from_bytes; findings N-C04-1..3.) *)
Definition non_zero : N -> N := nonzero_hash.   (* same remap as CaoHasher's, above *)
(* Handle::from_bytes / FromStr for Handle: FNV-1a-32 over the bytes *)
Definition handle_of_bytes (bs : list N) : N := non_zero (fnv_bytes fnv_offset bs).
(* impl Add for Handle: xor *)
Definition handle_add (a b : N) : N := non_zero (N.lxor a b).

(* hash_u64(key, mask) of handle_table.rs, with Wrapping<u64> arithmetic *)
Definition hash_u64 (key mask : N) : N :=
  let key := (key + (if key =? 0 then mask else 0)) mod two64 in
  let step k := N.land ((N.lxor (N.shiftr k 16) k * 73207611) mod two64) mask in
  let k1 := step key in
  let k2 := step k1 in
  let k3 := N.land (N.lxor (N.shiftr k2 16) k2) mask in
  non_zero ((N.lxor (N.shiftr k3 32) k3) mod two32).
Definition handle_from_u32 (k : N) : N := hash_u64 k mask32.
Definition handle_from_u64 (k : N) : N := hash_u64 k (two64 - 1).
