(* C04 - "running is total", Part G: the CHECKED VM and the induction over the nesting depth.

   The checked VM is the VM model with four runtime checks; when one fails it stops with the distinguished
   outcome AUnmodelled (which the VM itself never produces in [run]):
     chk_store    SetProperty / AppendTable do not store a table as key or value ("flat tables": the sufficient
                  condition under which every reachable heap stays acyclic, cf. A-37)
     chk_foreach  ForEach in a Debug build finds a counter >= 0
     chk_reg      RegisterUpvalue of an upvalue of the enclosing function finds it (a compiler guarantee)
     chk_native   CallNative does not name __min / __max / __sort (they are not shown to keep the heap acyclic)
   and nested runs deeper than 130 levels stop in the same way (run_at_c 0; in the crate the call stack of 256
   frames bounds the nesting by 128, which is not proved here).

   checked_run_no_abort: the checked VM never aborts in any other way - no hypothesis about intermediate states
   or nested runs is left: the contract of the nested run is proved by induction over the depth
   (run_at_c_contract).  run_agrees: a run of the VM on which no check fails IS the checked run. *)
From Coq Require Import NArith ZArith List Lia Bool.
From Cao Require Import ListUtil Bits Stacks Vm VmProofs C04VmProofs C04VmProofs2 C04VmProofs3 C04VmProofs4 C04VmProofs5
  C04VmProofs6 C04VmProofs6b C04VmProofs7 C04VmProofs8 C04VmProofs9 C04VmProofs10 C04VmProofs11.
Import ListNotations.

Definition is_tbl (h : heap) (v : value) : bool :=
  match v with
  | VObj b => match hget h b with Some (OTable _) => true | _ => false end
  | _ => false
  end.
Lemma is_tbl_false h v : is_tbl h v = false -> not_table h v.
Proof.
  destruct v as [| | |b]; cbn [is_tbl not_table]; auto. intros H t E. rewrite E in H. discriminate.
Qed.

Section Checked.
Variable F : fops.
Variable bld : build.
Variable P : program.

Definition chk_store (ip0 : N) (s : state) : bool :=
  if (opcode_at P ip0 =? 33)%N then negb (is_tbl (st_heap s) (speek s 0)) && negb (is_tbl (st_heap s) (speek s 2))
  else if (opcode_at P ip0 =? 40)%N then negb (is_tbl (st_heap s) (speek s 1))
  else true.

Definition chk_foreach (ip0 : N) (s : state) : bool :=
  if (opcode_at P ip0 =? 36)%N then
    match bld with
    | Release => true
    | Debug =>
        match op_u32 P (ip0 + 1), top_offset s with
        | Some lv, Some off =>
            match to_i64 F (st_heap s) (sget s (off + N.to_nat lv)) with
            | Some i => (0 <=? i)%Z
            | None => true
            end
        | _, _ => true
        end
    end
  else true.

Definition reg_upvalue_okb (s : state) (index is_local : N) : bool :=
  if (is_local =? 0)%N then
    match st_calls s with
    | fr :: _ =>
        match fr_clo fr with
        | Some fa =>
            match hget (st_heap s) fa with
            | Some (OClo _ _ fups) => N.to_nat index <? length fups
            | _ => true
            end
        | None => false
        end
    | [] => true
    end
  else true.

Definition chk_reg (ip0 : N) (s : state) : bool :=
  if (opcode_at P ip0 =? 45)%N then
    match read_le (p_code P) (ip0 + 1) 1, read_le (p_code P) (ip0 + 1 + 1) 1 with
    | Some index, Some is_local => reg_upvalue_okb s index is_local
    | _, _ => true
    end
  else true.

Definition chk_native (ip0 : N) (s : state) : bool :=
  if (opcode_at P ip0 =? 4)%N then
    match op_u32 P (ip0 + 1) with
    | Some h => match find_native h all_natives with Some n => covered_native n | None => true end
    | None => true
    end
  else true.

(* Return with a single frame is the error BadReturn in the VM; the checked VM stops there, because the state of
   that error has an empty call stack, which the contract of a nested run excludes (in a nested run it cannot
   happen: the two frames of run_function lie below; that argument is not formalised) *)
Definition chk_return (ip0 : N) (s : state) : bool :=
  if (opcode_at P ip0 =? 22)%N then 2 <=? length (st_calls s) else true.

Definition checks (ip0 : N) (s : state) : bool :=
  chk_store ip0 s && chk_foreach ip0 s && chk_reg ip0 s && chk_native ip0 s && chk_return ip0 s.

Definition step_c (reenter : N -> state -> rres) (ip0 : N) (s : state) : sres :=
  if checks ip0 s then step F bld P reenter ip0 s else SStop AUnmodelled s.

(* `_run` with the checked step *)
Fixpoint loop_c (reenter : N -> state -> rres) (fuel : nat) (ip : N) (s : state) : rres :=
  if (code_len P <=? ip)%N then RErr EUnexpectedEndOfInput ip s
  else
    let s := set_rem s (N.pred (st_rem s)) in
    if (st_rem s =? 0)%N then RErr ETimeout ip s
    else
      match fuel with
      | O => RStop ADiverge s
      | S f =>
          match step_c reenter ip (tick s) with
          | SNext ip' s' => loop_c reenter f ip' s'
          | SExit s' => ROk s'
          | SErr e _ s' => RErr e ip s'
          | SStop a s' => RStop a s'
          end
      end.

Fixpoint run_at_c (depth : nat) (ip : N) (s : state) : rres :=
  match depth with
  | O => RStop AUnmodelled s
  | S d => loop_c (run_at_c d) (N.to_nat (st_rem s)) ip s
  end.

Definition run_c (budget : nat) (s : state) : outcome * state :=
  match push_frame s (mkFrame 0 0 0 None) with
  | None => (OErr ECallStackOverflow [], s)
  | Some s1 => finish P (run_at_c max_depth 0 (set_rem s1 (N.of_nat budget)))
  end.

(* ------------------------------------------------------------------ *)
Variable start : N -> Prop.
Hypothesis Hcode : code_ok P start.
Hypothesis Hnp : native_pointers_simple P.

Definition okU : abort -> Prop := fun a => a = AUnmodelled.

Notation ninv := (ninv P start).
Notation nst_ok := (nst_ok P start).

Lemma reg_upvalue_okb_ok s index is_local : reg_upvalue_okb s index is_local = true -> reg_upvalue_ok s index is_local.
Proof.
  unfold reg_upvalue_okb, reg_upvalue_ok. destruct (is_local =? 0)%N; [|intros; exact I].
  destruct (st_calls s) as [|fr r]; [intros; exact I|]. destruct (fr_clo fr); [|discriminate].
  destruct (hget (st_heap s) n) as [[| | | |hd ar fups|]|]; try (intros; exact I).
  intros H. apply Nat.ltb_lt in H. exact H.
Qed.

Lemma checks_side ip0 s : checks ip0 s = true -> heap_acyclic (st_heap s) -> natives_simple (st_heap s) ->
  side F bld P ip0 s.
Proof.
  unfold checks. intros H Hac Hs. apply andb_true_iff in H. destruct H as [H _]. apply andb_true_iff in H. destruct H as [H H4].
  apply andb_true_iff in H. destruct H as [H H3]. apply andb_true_iff in H. destruct H as [H1 H2].
  constructor; [exact Hac | exact Hs | |].
  - intros Hop Hb lv off i Elv Eoff Ei. unfold chk_foreach in H2. rewrite Hop, Hb, Elv, Eoff, Ei in H2.
    cbn in H2. apply Z.leb_le in H2. exact H2.
  - intros Hop index is_local E1 E2. unfold chk_reg in H3. rewrite Hop, E1, E2 in H3. cbn in H3.
    apply reg_upvalue_okb_ok. exact H3.
Qed.

Section OneLevel.
Variable reenter : N -> state -> rres.
Hypothesis Hre : reenter_ok P reenter start okU.
Hypothesis re_paid : forall ip s, rres_R paid (cr s) (reenter ip s).

(* a covered native leaves ninv *)
Lemma native_step_post h ip s s' : ninv s -> (0 < code_len P)%N ->
  (forall n, find_native h all_natives = Some n -> covered_native n = true) ->
  res_st (native_step F P reenter h ip s) = Some s' -> ninv s'.
Proof.
  intros Hn Hl Hcov H. unfold native_step in H.
  pose proof (call_native_ok F P reenter start okU Hcode Hre Hl h s Hn Hcov) as Hr.
  destruct (call_native F P reenter h s) as [v s1|e s1|]; cbn [res_st] in H; inversion H; subst; apply Hr.
Qed.

Lemma simple_covered n : simple n = true -> covered_native n = true.
Proof. destruct n; cbn; congruence. Qed.

Section Step.
Variable ip0 : N.
Variable s : state.
Hypothesis Hn : ninv s.
Hypothesis Hs : start ip0.
Hypothesis Hl : (ip0 < code_len P)%N.
Hypothesis Hchk : checks ip0 s = true.

Lemma chk_pre3 : step_pre3 F bld P start ip0 s.
Proof.
  split; [apply Hn|]. split; [exact Hs|]. split; [exact Hl|]. apply checks_side; [exact Hchk | apply Hn | apply Hn].
Qed.

Lemma code_pos : (0 < code_len P)%N.
Proof. lia. Qed.

(* the heap conditions after the instruction (any result that is not an abort) *)
Lemma step_post s' : res_st (step F bld P reenter ip0 s) = Some s' ->
  heap_acyclic (st_heap s') /\ natives_simple (st_heap s').
Proof.
  intros H. pose proof Hn as ([Hi Hc] & Hac & Hsimple). pose proof (vi_heap P start s Hi) as Hhc.
  assert (Hc4 : chk_native ip0 s = true).
  { unfold checks in Hchk. apply andb_true_iff in Hchk. destruct Hchk as [A _]. apply andb_true_iff in A. apply A. }
  assert (Hc1 : chk_store ip0 s = true).
  { unfold checks in Hchk. apply andb_true_iff in Hchk. destruct Hchk as [A _]. apply andb_true_iff in A. destruct A as [A _].
    apply andb_true_iff in A. destruct A as [A _]. apply andb_true_iff in A. apply A. }
  destruct (N.eq_dec (opcode_at P ip0) 4) as [E4|N4].
  { (* CallNative *)
    pose proof E4 as Hop. unfold step in H. cbv zeta in H. unfold opcode_at in Hop. rewrite Hop in H. cbv iota in H.
    unfold i_4 in H. destruct (op_u32 P (ip0 + 1)) as [h|] eqn:Eh; [|discriminate H].
    assert (Hcov : forall n, find_native h all_natives = Some n -> covered_native n = true).
    { intros n En. unfold chk_native in Hc4. rewrite E4, Eh, En in Hc4. exact Hc4. }
    pose proof (native_step_post h _ s s' Hn code_pos Hcov H) as Hn'. split; apply Hn'. }
  assert (Hdec : (exists a h, top1 s = VObj a /\ hget (st_heap s) a = Some (ONative h)) \/
                 (forall a h, top1 s = VObj a -> hget (st_heap s) a <> Some (ONative h))).
  { destruct (top1 s) as [| | |a]; try (right; intros x y E; discriminate E).
    destruct (hget (st_heap s) a) as [[| | |h| |]|] eqn:Ea; try (right; intros x y E; inversion E; subst; rewrite Ea; discriminate).
    left. eexists _, _. split; [reflexivity | exact Ea]. }
  destruct (N.eq_dec (opcode_at P ip0) 11) as [E11|N11].
  - destruct Hdec as [(a & h & Et & Ea)|Hnot].
    + (* CallFunction of a native function value *)
      pose proof E11 as Hop. unfold step in H. cbv zeta in H. unfold opcode_at in Hop. rewrite Hop in H. cbv iota in H.
      unfold i_11 in H. unfold top1 in Et. destruct (spop s) as [s1 fv] eqn:E1. cbn [snd] in Et. subst fv.
      destruct (inv_spop P start _ _ _ E1 Hi) as (I1 & _ & Hh & Hca & _). rewrite Hh, Ea in H.
      assert (Hn1 : ninv s1) by (apply (ninv_same_heap P start s s1 Hn I1); [rewrite Hca; exact Hc | exact Hh]).
      assert (Hcov : forall n, find_native h all_natives = Some n -> covered_native n = true).
      { intros n En. apply simple_covered. apply (Hsimple a h n Ea En). }
      pose proof (native_step_post h _ s1 s' Hn1 code_pos Hcov H) as Hn'. split; apply Hn'.
    + split; [|apply (step_keeps_natives_simple F bld P reenter ip0 s s' H Hnp Hsimple N4 (fun _ => Hnot))].
      apply (step_keeps_acyclic F bld P reenter ip0 s s' H Hac Hhc); [|exact (fun _ => Hnot)].
      cbn [In]. intros [E|[E|[E|[]]]]; congruence.
  - assert (H11 : opcode_at P ip0 = 11%N -> forall a0 h0, top1 s = VObj a0 -> hget (st_heap s) a0 <> Some (ONative h0))
      by (intros E; congruence).
    split; [|apply (step_keeps_natives_simple F bld P reenter ip0 s s' H Hnp Hsimple N4 H11)].
    destruct (N.eq_dec (opcode_at P ip0) 33) as [E33|N33].
    + pose proof E33 as Hop. unfold step in H. cbv zeta in H. unfold opcode_at in Hop. rewrite Hop in H. cbv iota in H.
      unfold chk_store in Hc1. rewrite E33 in Hc1. cbn in Hc1. apply andb_true_iff in Hc1. destruct Hc1 as [A B].
      apply negb_true_iff in A, B.
      apply (set_property_acyclic_scalars F _ _ _ _ _ H Hac (is_tbl_false _ _ A) (is_tbl_false _ _ B)).
    + destruct (N.eq_dec (opcode_at P ip0) 40) as [E40|N40].
      * pose proof E40 as Hop. unfold step in H. cbv zeta in H. unfold opcode_at in Hop. rewrite Hop in H. cbv iota in H.
        unfold chk_store in Hc1. rewrite E40 in Hc1. cbn in Hc1. apply negb_true_iff in Hc1.
        apply (append_table_acyclic_scalar F _ _ _ _ _ H Hac (is_tbl_false _ _ Hc1)).
      * apply (step_keeps_acyclic F bld P reenter ip0 s s' H Hac Hhc); [|exact H11].
        cbn [In]. intros [E|[E|[E|[]]]]; congruence.
Qed.


(* the call stack after the instruction *)
Lemma step_post_calls s' : res_st (step F bld P reenter ip0 s) = Some s' -> st_calls s' <> [].
Proof.
  intros H. pose proof Hn as ([Hi Hc] & Hac & Hsimple).
  assert (Hc4 : chk_native ip0 s = true).
  { unfold checks in Hchk. apply andb_true_iff in Hchk. destruct Hchk as [A _]. apply andb_true_iff in A. apply A. }
  assert (Hc5 : chk_return ip0 s = true).
  { unfold checks in Hchk. apply andb_true_iff in Hchk. apply Hchk. }
  destruct (N.eq_dec (opcode_at P ip0) 4) as [E4|N4].
  { pose proof E4 as Hop. unfold step in H. cbv zeta in H. unfold opcode_at in Hop. rewrite Hop in H. cbv iota in H.
    unfold i_4 in H. destruct (op_u32 P (ip0 + 1)) as [h|] eqn:Eh; [|discriminate H].
    assert (Hcov : forall n, find_native h all_natives = Some n -> covered_native n = true).
    { intros n En. unfold chk_native in Hc4. rewrite E4, Eh, En in Hc4. exact Hc4. }
    apply (native_step_post h _ s s' Hn code_pos Hcov H). }
  assert (Hdec : (exists a h, top1 s = VObj a /\ hget (st_heap s) a = Some (ONative h)) \/
                 (forall a h, top1 s = VObj a -> hget (st_heap s) a <> Some (ONative h))).
  { destruct (top1 s) as [| | |a]; try (right; intros x y E; discriminate E).
    destruct (hget (st_heap s) a) as [[| | |h| |]|] eqn:Ea; try (right; intros x y E; inversion E; subst; rewrite Ea; discriminate).
    left. eexists _, _. split; [reflexivity | exact Ea]. }
  assert (H22 : opcode_at P ip0 = 22%N -> 2 <= length (st_calls s)).
  { intros E. unfold chk_return in Hc5. rewrite E in Hc5. change ((22 =? 22)%N) with true in Hc5. cbv iota in Hc5.
    apply Nat.leb_le in Hc5. exact Hc5. }
  destruct (N.eq_dec (opcode_at P ip0) 11) as [E11|N11].
  - destruct Hdec as [(a & h & Et & Ea)|Hnot].
    + pose proof E11 as Hop. unfold step in H. cbv zeta in H. unfold opcode_at in Hop. rewrite Hop in H. cbv iota in H.
      unfold i_11 in H. unfold top1 in Et. destruct (spop s) as [s1 fv] eqn:E1. cbn [snd] in Et. subst fv.
      destruct (inv_spop P start _ _ _ E1 Hi) as (I1 & _ & Hh & Hca & _). rewrite Hh, Ea in H.
      assert (Hn1 : ninv s1) by (apply (ninv_same_heap P start s s1 Hn I1); [rewrite Hca; exact Hc | exact Hh]).
      assert (Hcov : forall n, find_native h all_natives = Some n -> covered_native n = true).
      { intros n En. apply simple_covered. apply (Hsimple a h n Ea En). }
      apply (native_step_post h _ s1 s' Hn1 code_pos Hcov H).
    + apply (step_calls_nonempty F bld P reenter ip0 s s' H Hc H22 N4 (fun _ => Hnot)).
  - apply (step_calls_nonempty F bld P reenter ip0 s s' H Hc H22 N4). intros E; congruence.
Qed.

End Step.

(* one checked instruction *)
Lemma step_c_ok ip0 s : ninv s -> start ip0 -> (ip0 < code_len P)%N ->
  (forall a s', step_c reenter ip0 s = SStop a s' -> a = AUnmodelled) /\
  res_ok P start s (step_c reenter ip0 s) /\
  (forall s', res_st (step_c reenter ip0 s) = Some s' -> ninv s').
Proof.
  intros Hn Hs Hl. unfold step_c. destruct (checks ip0 s) eqn:E.
  - pose proof (chk_pre3 ip0 s Hn Hs Hl E) as Hpre.
    pose proof (step_preserves F bld P reenter start okU Hcode Hre ip0 s Hpre) as Hpv.
    split; [intros a s' Ha; apply (step_no_abort_all F bld P reenter start okU Hcode Hre ip0 s Hpre a s' Ha)|].
    split; [exact Hpv|].
    intros s' H. assert (AB : heap_acyclic (st_heap s') /\ natives_simple (st_heap s')) by (eapply step_post; eassumption).
    destruct AB as [A B].
    assert (C : st_calls s' <> []) by (eapply step_post_calls; eassumption).
    split; [split; [|exact C] | split; assumption].
    destruct (step F bld P reenter ip0 s); cbn [res_st] in H; inversion H; subst; apply Hpv.
  - split; [intros a s' Ha; inversion Ha; reflexivity|]. split; [exact I | intros s' H; discriminate H].
Qed.

Lemma step_c_paid ip s : sres_R paid (cr s) (step_c reenter ip s).
Proof.
  unfold step_c. destruct (checks ip s); [|apply paid_refl].
  apply (@step_count_rel paid paid_refl paid_trans F bld P reenter re_paid ip s).
Qed.

Lemma loop_c_ok : forall fuel ip s, ninv s -> ipok P start ip -> (st_rem s <= N.of_nat fuel)%N ->
  match loop_c reenter fuel ip s with
  | RStop a _ => a = AUnmodelled
  | ROk s' | RErr _ _ s' => nst_ok s s'
  end.
Proof.
  induction fuel as [|f IH]; intros ip s Hn Hip Hfuel.
  - cbn [loop_c]. destruct (code_len P <=? ip)%N; [apply nst_ok_refl; exact Hn|].
    cbn [st_rem set_rem]. destruct (N.eqb_spec (N.pred (st_rem s)) 0); [|lia].
    split; [|apply Nat.le_refl]. apply (ninv_same_heap P start s); [exact Hn | apply inv_set_rem; apply Hn | apply Hn | reflexivity].
  - cbn [loop_c]. destruct (N.leb_spec (code_len P) ip) as [Hge|Hlt]; [apply nst_ok_refl; exact Hn|].
    cbn [st_rem set_rem]. destruct (N.eqb_spec (N.pred (st_rem s)) 0) as [E0|E0].
    { split; [|apply Nat.le_refl]. apply (ninv_same_heap P start s); [exact Hn | apply inv_set_rem; apply Hn | apply Hn | reflexivity]. }
    set (s0 := tick (set_rem s (N.pred (st_rem s)))).
    assert (Hn0 : ninv s0).
    { apply (ninv_same_heap P start s); [exact Hn | apply inv_tick, inv_set_rem; apply Hn | apply Hn | reflexivity]. }
    destruct (step_c_ok ip s0 Hn0 (Hip Hlt) Hlt) as (Hstop & Hpv & Hpost).
    pose proof (step_c_paid ip s0) as Hcnt. unfold s0 in Hcnt at 1. rewrite tick_cr in Hcnt. cbn [st_count st_rem set_rem] in Hcnt.
    destruct (step_c reenter ip s0) as [ip' s'|s'|e ip' s'|a s'] eqn:Es.
    + destruct Hpv as ([I' Hl'] & Hc' & Hip'). cbn [sres_R] in Hcnt. unfold paid, cr in Hcnt. cbn [fst snd] in Hcnt.
      pose proof (Hpost s' eq_refl) as Hn'.
      specialize (IH ip' s' Hn' Hip' ltac:(lia)).
      destruct (loop_c reenter f ip' s'); try exact IH; (split; [apply IH|]; destruct IH as [_ IH]; cbn in Hl'; lia).
    + destruct Hpv as [I' Hl']. split; [apply Hpost; reflexivity | exact Hl'].
    + destruct Hpv as [I' Hl']. split; [apply Hpost; reflexivity | exact Hl'].
    + eapply Hstop; reflexivity.
Qed.

Lemma loop_c_paid : forall fuel ip s, rres_R paid (cr s) (loop_c reenter fuel ip s).
Proof.
  induction fuel as [|f IH]; intros ip s; cbn [loop_c].
  - destruct (code_len P <=? ip)%N; [cbn; unfold paid; cbn; lia|].
    cbn [st_rem set_rem]. destruct (N.pred (st_rem s) =? 0)%N; cbn; unfold paid; cbn; lia.
  - destruct (code_len P <=? ip)%N; [cbn; unfold paid; cbn; lia|].
    cbn [st_rem set_rem]. destruct (N.pred (st_rem s) =? 0)%N eqn:E0; [cbn; unfold paid; cbn; lia|].
    apply N.eqb_neq in E0.
    pose proof (step_c_paid ip (tick (set_rem s (N.pred (st_rem s))))) as Hs.
    rewrite tick_cr in Hs. cbn [st_count st_rem set_rem] in Hs.
    destruct (step_c reenter ip _) as [ip' s'|s'|e ip' s'|a s']; cbn [sres_R rres_R] in *;
      try (unfold paid, cr in *; cbn [fst snd] in *; lia).
    specialize (IH ip' s').
    destruct (loop_c reenter f ip' s'); cbn [rres_R] in *; unfold paid, cr in *; cbn [fst snd] in *; lia.
Qed.

End OneLevel.

(* ---- induction over the nesting depth: the contract of the nested run ---- *)
Lemma run_at_c_paid : forall d ip s, rres_R paid (cr s) (run_at_c d ip s).
Proof.
  induction d as [|d IH]; intros ip s; cbn [run_at_c]; [cbn; unfold paid; cbn; lia|].
  apply loop_c_paid. exact IH.
Qed.

Theorem run_at_c_contract : forall d, reenter_ok P (run_at_c d) start okU.
Proof.
  induction d as [|d IH]; intros ip s Hn Hip; cbn [run_at_c]; [reflexivity|].
  apply (loop_c_ok (run_at_c d) IH (run_at_c_paid d)); [exact Hn | exact Hip|].
  rewrite N2Nat.id. apply N.le_refl.
Qed.

(* the checked run from a state that satisfies the invariant (a new Vm: fresh_state) *)
Theorem checked_run_no_abort : forall budget s,
  vm_inv0 P start s -> heap_acyclic (st_heap s) -> natives_simple (st_heap s) ->
  forall a, fst (run_c budget s) = OAbort a -> a = AUnmodelled.
Proof.
  intros budget s Hi Hac Hsim a. unfold run_c.
  destruct (push_frame s (mkFrame 0 0 0 None)) as [s1|] eqn:E1; [|discriminate].
  assert (Hf : frame_ok P start s (mkFrame 0 0 0 None)).
  { split; [cbn [fr_off]; destruct (vi_stack P start s Hi); change (N.to_nat 0) with 0; lia|].
    split; [apply (co_zero P start Hcode) | intros ca Eca; discriminate]. }
  destruct (inv_push_frame P start _ _ _ E1 Hi Hf) as (I1 & Hh1 & Hc1 & _).
  assert (Hn : ninv (set_rem s1 (N.of_nat budget))).
  { split; [split; [apply inv_set_rem; exact I1 | cbn [set_rem st_calls]; rewrite Hc1; discriminate]|].
    cbn [set_rem st_heap]. rewrite Hh1. split; assumption. }
  pose proof (run_at_c_contract max_depth 0%N (set_rem s1 (N.of_nat budget)) Hn (co_zero P start Hcode)) as H.
  destruct (run_at_c max_depth 0%N _) as [s'|e ip' s'|ab s']; cbn; intros E; inversion E; subst. exact H.
Qed.

End Checked.
