(* C07 at the level of the VM model, Parts 2 and 3: the VM's key equality on the key domain, heap growth,
   the table instructions.  See VmTableProofs.v. *)
From Coq Require Import NArith ZArith List Lia Bool.
From Cao Require Import ListUtil Bits Stacks StacksProofs Vm VmProofs VmNativeProofs C04VmProofs VmTableProofs.
Import ListNotations.

Arguments N.add : simpl never.
Arguments N.sub : simpl never.
Arguments N.mul : simpl never.
Arguments Z.add : simpl never.
Arguments Z.sub : simpl never.
Arguments Z.mul : simpl never.
Arguments Z.of_nat : simpl never.
Arguments N.of_nat : simpl never.
Arguments N.to_nat : simpl never.

(* ================================================================== *)
(* Part 2 : the VM's key equality on the key domain                    *)
(* ================================================================== *)

Lemma bytes_eqb_refl l : bytes_eqb l l = true.
Proof. induction l as [|x l IH]; cbn [bytes_eqb]; [reflexivity|]. rewrite N.eqb_refl, IH. reflexivity. Qed.

Lemma hget_app_old (h : heap) o a x : hget h a = Some x -> hget (h ++ [o]) a = Some x.
Proof.
  unfold hget. intros H. rewrite nth_error_app1; [exact H|]. apply nth_error_Some. congruence.
Qed.

Lemma hget_app_cases (h : heap) o a x : hget (h ++ [o]) a = Some x ->
  hget h a = Some x \/ (a = N.of_nat (length h) /\ x = o).
Proof.
  unfold hget. intros H. destruct (Nat.lt_ge_cases (N.to_nat a) (length h)) as [L|G].
  - rewrite nth_error_app1 in H by exact L. left. exact H.
  - rewrite nth_error_app2 in H by exact G. right.
    destruct (N.to_nat a - length h) as [|n] eqn:E; cbn [nth_error] in H.
    + inversion H; subst. split; [lia | reflexivity].
    + destruct n; discriminate.
Qed.

Lemma hget_app_new (h : heap) o : hget (h ++ [o]) (N.of_nat (length h)) = Some o.
Proof.
  unfold hget. rewrite Nat2N.id, nth_error_app2, Nat.sub_diag by lia. reflexivity.
Qed.

Lemma nth_error_upd_same {A} (l : list A) i v : i < length l -> nth_error (upd l i v) i = Some v.
Proof.
  revert i. induction l as [|x l IH]; intros [|i] H; cbn in *; try lia; [reflexivity|]. apply IH. lia.
Qed.
Lemma nth_error_upd_other {A} (l : list A) i j v : i <> j -> nth_error (upd l i v) j = nth_error l j.
Proof.
  revert i j. induction l as [|x l IH]; intros [|i] [|j] H; cbn; try reflexivity; try lia. apply IH. lia.
Qed.

Lemma hget_hset_same h a o x : hget h a = Some x -> hget (hset h a o) a = Some o.
Proof.
  unfold hget, hset. intros H. apply nth_error_upd_same. apply nth_error_Some. congruence.
Qed.
Lemma hget_hset_other h a b o : a <> b -> hget (hset h a o) b = hget h b.
Proof. unfold hget, hset. intros H. apply nth_error_upd_other. lia. Qed.

Lemma hget_hset_cases h a o b x : hget (hset h a o) b = Some x ->
  (b = a /\ x = o) \/ (b <> a /\ hget h b = Some x).
Proof.
  intros H. destruct (N.eq_dec b a) as [->|Hne].
  - left. split; [reflexivity|]. unfold hget, hset in H.
    destruct (Nat.lt_ge_cases (N.to_nat a) (length h)) as [L|G].
    + rewrite nth_error_upd_same in H by exact L. congruence.
    + assert (nth_error (upd h (N.to_nat a) o) (N.to_nat a) = None)
        by (apply nth_error_None; rewrite upd_length; exact G). congruence.
  - right. split; [exact Hne|]. rewrite hget_hset_other in H by congruence. exact H.
Qed.

(* two objects that == cannot tell apart: strings by content, functions by handle and arity, closures and
   upvalues by address (their cells are rewritten, never replaced by another kind), tables are not keys here *)
Definition same_kind (o o' : obj) : Prop :=
  match o, o' with
  | OTable _, OTable _ => True
  | OStr s, OStr s' => s = s'
  | OFun h a, OFun h' a' => h = h' /\ a = a'
  | ONative h, ONative h' => h = h'
  | OClo _ _ _, OClo _ _ _ => True
  | OUp _, OUp _ => True
  | _, _ => False
  end.

(* heap growth: live cells stay live and keep their kind *)
Definition hext (h h' : heap) : Prop :=
  forall a o, hget h a = Some o -> exists o', hget h' a = Some o' /\ same_kind o o'.

Lemma same_kind_refl o : same_kind o o.
Proof. destruct o; cbn; auto. Qed.
Lemma same_kind_trans o1 o2 o3 : same_kind o1 o2 -> same_kind o2 o3 -> same_kind o1 o3.
Proof. destruct o1, o2, o3; cbn; try tauto; try congruence. intros (-> & ->) (-> & ->). auto. Qed.

Lemma hext_refl h : hext h h.
Proof. intros a o H. exists o. split; [exact H | apply same_kind_refl]. Qed.
Lemma hext_trans h1 h2 h3 : hext h1 h2 -> hext h2 h3 -> hext h1 h3.
Proof.
  intros H12 H23 a o H. destruct (H12 a o H) as (o2 & H2 & K2). destruct (H23 a o2 H2) as (o3 & H3 & K3).
  exists o3. split; [exact H3 | eapply same_kind_trans; eauto].
Qed.
Lemma hext_alloc h o : hext h (h ++ [o]).
Proof. intros a x H. exists x. split; [apply hget_app_old, H | apply same_kind_refl]. Qed.
Lemma hext_hset h a o o' : hget h a = Some o -> same_kind o o' -> hext h (hset h a o').
Proof.
  intros Ha K b x Hb. destruct (N.eq_dec a b) as [<-|Hne].
  - exists o'. split; [eapply hget_hset_same; eauto|]. congruence.
  - exists x. split; [rewrite hget_hset_other by exact Hne; exact Hb | apply same_kind_refl].
Qed.

Section VmKeys.
Variable F : fops.

(* the key domain: nil, integers, reals that are == to themselves (not NaN), live objects that are not tables *)
Definition vkey (h : heap) (k : value) : Prop :=
  match k with
  | VNil | VInt _ => True
  | VReal r => f_cmp F r r = Some Eq
  | VObj a => match hget h a with Some (OTable _) | None => False | Some _ => True end
  end.

Lemma veq0_unfold h a b : veq0 F h a b = veq F (S 23) h a b.
Proof. reflexivity. Qed.

Lemma veq0_total h a b : vkey h a -> vkey h b -> veq0 F h a b <> None.
Proof.
  intros Ha Hb. rewrite veq0_unfold. generalize 23. intros f. destruct a, b; cbn [veq]; try discriminate.
  cbn [vkey] in Ha, Hb.
  destruct (hget h a) as [[]|]; try contradiction; destruct (hget h a0) as [[]|]; try contradiction; discriminate.
Qed.

Lemma veq0_refl h a : vkey h a -> kb (veq0 F h) a a = true.
Proof.
  intros Ha. unfold kb. destruct a; cbn [keq]; rewrite ?N.eqb_refl, veq0_unfold; generalize 23; intros f; cbn [veq].
  - reflexivity.
  - rewrite Z.eqb_refl. reflexivity.
  - cbn [vkey] in Ha. rewrite Ha. reflexivity.
  - cbn [vkey] in Ha. destruct (hget h a) as [[]|]; try contradiction;
      rewrite ?bytes_eqb_refl, ?N.eqb_refl; reflexivity.
Qed.

Lemma vkey_int h i : vkey h (VInt i).
Proof. exact I. Qed.

Lemma veq0_int h a i : vkey h a -> kb (veq0 F h) a (VInt i) = true -> a = VInt i.
Proof.
  intros _. unfold kb. destruct a; cbn [keq]; rewrite veq0_unfold; generalize 23; intros f; cbn [veq]; try discriminate.
  destruct (z =? i)%Z eqn:E; [|discriminate]. apply Z.eqb_eq in E. congruence.
Qed.

Lemma vkey_ext h h' k : hext h h' -> vkey h k -> vkey h' k.
Proof.
  intros X. destruct k; cbn [vkey]; auto.
  destruct (hget h a) as [o|] eqn:E; [|contradiction].
  destruct (X a o E) as (o' & -> & K). destruct o, o'; cbn in K; tauto.
Qed.

Lemma veq0_ext h h' a b : hext h h' -> vkey h a -> vkey h b -> veq0 F h' a b = veq0 F h a b.
Proof.
  intros X Ha Hb. rewrite !veq0_unfold. generalize 23. intros f. destruct a, b; cbn [veq]; try reflexivity.
  cbn [vkey] in Ha, Hb.
  destruct (hget h a) as [o1|] eqn:E1; [|contradiction].
  destruct (hget h a0) as [o2|] eqn:E2; [|contradiction].
  destruct (X a o1 E1) as (o1' & -> & K1). destruct (X a0 o2 E2) as (o2' & -> & K2).
  destruct o1; try contradiction; destruct o1'; cbn in K1; try contradiction;
  destruct o2; try contradiction; destruct o2'; cbn in K2; try contradiction;
  try reflexivity; try (destruct K1; subst); try (destruct K2; subst); subst; reflexivity.
Qed.

Lemma kb_ext h h' a b : hext h h' -> vkey h a -> vkey h b -> kb (veq0 F h') a b = kb (veq0 F h) a b.
Proof.
  intros X Ha Hb. unfold kb. destruct a as [|x|x|x], b as [|y|y|y]; cbn [keq]; rewrite ?(veq0_ext _ _ _ _ X Ha Hb); try reflexivity.
  all: destruct (N.eqb x y); [rewrite (veq0_ext _ _ _ _ X Ha Hb)|]; reflexivity.
Qed.

Lemma kdistinct_ext h h' l : hext h h' -> Forall (vkey h) l ->
  kdistinct (veq0 F h) l -> kdistinct (veq0 F h') l.
Proof.
  intros X. induction l as [|k l IH]; cbn [kdistinct]; [auto|]. intros HD (H1 & H2).
  inversion HD as [|? ? Dk Dl]; subst. split; [|apply IH; assumption].
  rewrite Forall_forall in *. intros x Hx. rewrite (kb_ext _ _ _ _ X Dk (Dl x Hx)). apply H1, Hx.
Qed.

Lemma twf_ext h h' t : hext h h' -> twf (veq0 F h) (vkey h) t -> twf (veq0 F h') (vkey h') t.
Proof.
  intros X (Ha & Hd & Hn). repeat split; [exact Ha | | eapply kdistinct_ext; eauto].
  rewrite Forall_forall in *. intros k Hk. eapply vkey_ext; eauto.
Qed.

(* the reading of an association list through the keys of the domain does not change when the heap grows *)
Lemma al_get_ext h h' k m : hext h h' -> vkey h k -> Forall (vkey h) (map fst m) ->
  al_get (veq0 F h') k m = al_get (veq0 F h) k m.
Proof.
  intros X Hk. induction m as [|[k' v] m IH]; cbn [al_get map fst]; [reflexivity|]. intros HD.
  inversion HD as [|? ? Dk Dm]; subst. rewrite (kb_ext _ _ _ _ X Dk Hk), (IH Dm). reflexivity.
Qed.

(* every table of the heap satisfies the invariant (with the heap's own equality) *)
Definition tables_wf (h : heap) : Prop :=
  forall a t, hget h a = Some (OTable t) -> twf (veq0 F h) (vkey h) t.

(* a heap transition that keeps cell kinds and the invariant *)
Definition good_ext (h h' : heap) : Prop := hext h h' /\ (tables_wf h -> tables_wf h').

Lemma good_refl h : good_ext h h.
Proof. split; [apply hext_refl | auto]. Qed.
Lemma good_trans h1 h2 h3 : good_ext h1 h2 -> good_ext h2 h3 -> good_ext h1 h3.
Proof. intros (X1 & W1) (X2 & W2). split; [eapply hext_trans; eauto | auto]. Qed.

Lemma tables_wf_step h h' : hext h h' -> tables_wf h ->
  (forall a t', hget h' a = Some (OTable t') ->
                hget h a = Some (OTable t') \/ twf (veq0 F h) (vkey h) t') ->
  tables_wf h'.
Proof.
  intros X W H a t' Ha. destruct (H a t' Ha) as [Hold|Hnew]; eapply twf_ext; eauto.
Qed.

Lemma good_alloc h o :
  (forall t, o = OTable t -> twf (veq0 F h) (vkey h) t) -> good_ext h (h ++ [o]).
Proof.
  intros Ho. split; [apply hext_alloc|]. intros W. apply (tables_wf_step _ _ (hext_alloc h o) W).
  intros a t' Ha. apply hget_app_cases in Ha. destruct Ha as [Ha|(_ & <-)]; [left; exact Ha|].
  right. apply Ho. reflexivity.
Qed.

Lemma good_hset h a o o' : hget h a = Some o -> same_kind o o' ->
  (forall t', o' = OTable t' -> tables_wf h -> twf (veq0 F h) (vkey h) t') ->
  good_ext h (hset h a o').
Proof.
  intros Ha K Ho. split; [eapply hext_hset; eauto|]. intros W.
  apply (tables_wf_step _ _ (hext_hset _ _ _ _ Ha K) W).
  intros b t' Hb. apply hget_hset_cases in Hb. destruct Hb as [(-> & <-)|(_ & Hb)]; [|left; exact Hb].
  right. apply Ho; auto.
Qed.

Lemma twf_empty_vm h : twf (veq0 F h) (vkey h) (mkTable [] []).
Proof. apply twf_empty. Qed.

End VmKeys.

(* ================================================================== *)
(* Part 3 : the table instructions                                     *)
(* ================================================================== *)

(* [k] is a value stack of capacity [c] whose live part is [l] *)
Definition stack_is (c : nat) (k : vstack value) (l : list value) : Prop :=
  vs_inv k /\ vs_abs k = l /\ length (vdata k) = c.
Definition cap (s : state) : nat := length (vdata (st_stack s)).

Lemma stack_is_self s : stack_ok s -> stack_is (cap s) (st_stack s) (stack_of s).
Proof. intros H. repeat split. exact H. Qed.

Lemma set_stack_twice s k k' : set_stack (set_stack s k) k' = set_stack s k'.
Proof. reflexivity. Qed.

Lemma spop_k s c k l v : st_stack s = k -> stack_is c k (l ++ [v]) ->
  exists k', spop s = (set_stack s k', v) /\ stack_is c k' l.
Proof.
  intros <- (Hi & Ha & Hc). unfold spop.
  pose proof (@pop_refines value VNil (st_stack s) Hi) as R.
  destruct (vs_pop VNil (st_stack s)) as [k' v']. destruct R as (Hv & Hab & Hi' & Hl).
  rewrite Ha, last_last in Hv. rewrite Ha, removelast_last in Hab. subst v'.
  exists k'. split; [reflexivity|]. repeat split; auto. congruence.
Qed.

Lemma spush_k s c k l v : st_stack s = k -> stack_is c k l -> S (length l) < c ->
  exists k', spush s v = Some (set_stack s k') /\ stack_is c k' (l ++ [v]).
Proof.
  intros <- (Hi & Ha & Hc) Hfit. unfold spush.
  pose proof (@push_refines value c (st_stack s) v Hi (Logic.eq_sym Hc)) as R.
  destruct (vs_push (st_stack s) v) as [k' o]. unfold sp_push in R. rewrite Ha in R.
  replace (S (length l) <? c) with true in R by (symmetry; apply Nat.ltb_lt; exact Hfit).
  destruct R as (-> & Hab & Hi' & Hl). exists k'. split; [reflexivity|]. repeat split; auto.
Qed.

Lemma spop_n_k s c l r : stack_is c (st_stack s) (l ++ r) ->
  stack_is c (st_stack (spop_n s (length r))) l.
Proof.
  intros (Hi & Ha & Hc). destruct (@spop_n_app s l r Hi Ha) as (H1 & H2 & H3).
  repeat split; auto; congruence.
Qed.

Lemma speek_k s c l r n : stack_is c (st_stack s) (l ++ r) -> n < length r ->
  speek s n = nth (length r - n - 1) r VNil.
Proof. intros (Hi & Ha & Hc) Hn. eapply speek_app; eauto. Qed.

Lemma stack_is_length c k l : stack_is c k l -> length l < c.
Proof.
  intros (Hi & Ha & Hc). rewrite <- Ha, <- Hc. rewrite (abs_length Hi). exact Hi.
Qed.

Lemma hset_alloc3 (h : heap) x y z v :
  hset (h ++ [x; y; z]) (N.of_nat (length h)) v = h ++ [v; y; z].
Proof. unfold hset. rewrite Nat2N.id. apply upd_app_mid. Qed.

Lemma hget_app_at (h : heap) r i : hget (h ++ r) (N.of_nat (length h + i)) = nth_error r i.
Proof. unfold hget. rewrite Nat2N.id, nth_error_app2 by lia. f_equal. lia. Qed.

Section Instr.
Variable F : fops.
Variable bld : build.
Variable P : program.
Variable reenter : N -> state -> rres.

Notation veq := (veq0 F).
Notation dom := (vkey F).
Notation STEP := (step F bld P reenter).

(* Part 1 at the VM's equality *)
Lemma vm_tget h t k : twf (veq h) (dom h) t -> dom h k -> tget (veq h) t k = Some (al_get (veq h) k (tabs t)).
Proof. apply tget_spec. apply veq0_total. Qed.

Lemma vm_tinsert h t k v : twf (veq h) (dom h) t -> dom h k ->
  exists t', tinsert (veq h) t k v = Some t' /\ twf (veq h) (dom h) t' /\ tabs t' = al_set (veq h) k v (tabs t).
Proof. apply tinsert_spec. apply veq0_total. Qed.

Lemma vm_tremove h t k : twf (veq h) (dom h) t -> dom h k ->
  exists t', tremove (veq h) t k = Some t' /\ twf (veq h) (dom h) t' /\ tabs t' = al_remove (veq h) k (tabs t).
Proof. apply tremove_spec. apply veq0_total. apply veq0_refl. Qed.

Lemma vm_tpop h t : twf (veq h) (dom h) t ->
  exists t', tpop (veq h) t = Some (t', snd (al_pop (tabs t))) /\ twf (veq h) (dom h) t' /\
             tabs t' = fst (al_pop (tabs t)).
Proof. apply tpop_spec. apply veq0_total. apply veq0_refl. Qed.

Lemma vm_tappend h t v : twf (veq h) (dom h) t ->
  exists t' j, tappend (veq h) t v = TOk t' /\ twf (veq h) (dom h) t' /\
               al_append_key (veq h) (tabs t) j /\ tabs t' = tabs t ++ [(VInt j, v)].
Proof. apply tappend_spec. apply veq0_total. apply vkey_int. apply veq0_int. Qed.

Lemma vm_titer h t : twf (veq h) (dom h) t -> titer (veq h) t = Some (tabs t).
Proof. apply titer_spec. apply veq0_total. apply veq0_refl. Qed.

(* the row that NthRow / ForEach read at index i: the i-th entry, (nil, nil) beyond the end *)
Lemma vm_row h t i : twf (veq h) (dom h) t -> i < length (tabs t) ->
  tget (veq h) t (tnth_key t i) = Some (Some (snd (nth i (tabs t) (VNil, VNil)))) /\
  tnth_key t i = fst (nth i (tabs t) (VNil, VNil)).
Proof.
  intros W Hi. assert (W' := W). destruct W' as (Ha & Hd & Hn).
  rewrite (tnth_key_spec i W). unfold tabs in *.
  assert (Hk : nth i (map fst (tmap t)) VNil = fst (nth i (tmap t) (VNil, VNil))).
  { change VNil with (fst (VNil, VNil)) at 1. apply map_nth. }
  rewrite Hk. split; [|reflexivity].
  destruct (nth_split (tmap t) (VNil, VNil) Hi) as (pre & post & Hm & Hl).
  set (e := nth i (tmap t) (VNil, VNil)) in *. destruct e as [k v] eqn:Ee. cbn [fst snd].
  assert (Dk : dom h k).
  { rewrite Forall_forall in Hd. apply Hd. rewrite <- Ha, Hm, map_app. apply in_or_app. right. left. reflexivity. }
  rewrite (vm_tget _ _ _ W Dk). unfold tabs. rewrite (al_find_get (veq h) k (tmap t)), Hm.
  rewrite al_find_app_hit; [reflexivity | | apply veq0_refl, Dk].
  rewrite <- Ha, Hm, map_app in Hn. apply kdistinct_app in Hn. destruct Hn as (_ & _ & Hn).
  apply Hn. left. reflexivity.
Qed.

(* ---- InitTable (31) ---- *)
Theorem step_init_table : forall ip0 s,
  opcode_at P ip0 = 31%N -> stack_ok s -> S (length (stack_of s)) < cap s ->
  exists k,
    STEP ip0 s = SNext (ip0 + 1)
                   (set_stack (set_heap s (st_heap s ++ [OTable (mkTable [] [])])) k) /\
    stack_is (cap s) k (stack_of s ++ [VObj (N.of_nat (length (st_heap s)))]).
Proof.
  intros ip0 s Hop Hok Hfit. step_opc Hop. unfold i_31, salloc, halloc, push_next.
  destruct (@spush_k (set_heap s (st_heap s ++ [OTable (mkTable [] [])])) (cap s) (st_stack s) (stack_of s)
              (VObj (N.of_nat (length (st_heap s)))) Logic.eq_refl (stack_is_self _ Hok) Hfit) as (k & E & Hk).
  rewrite E. exists k. split; [reflexivity | exact Hk].
Qed.

(* ---- GetProperty (32): instance and key are popped, the value of the first matching entry (nil when
   there is none) is pushed; nothing else changes ---- *)
Theorem step_get_property : forall ip0 s l a key t,
  opcode_at P ip0 = 32%N -> stack_ok s -> stack_of s = l ++ [VObj a; key] ->
  hget (st_heap s) a = Some (OTable t) ->
  twf (veq (st_heap s)) (dom (st_heap s)) t -> dom (st_heap s) key ->
  exists k,
    STEP ip0 s = SNext (ip0 + 1) (set_stack s k) /\
    stack_is (cap s) k (l ++ [match al_get (veq (st_heap s)) key (tabs t) with Some v => v | None => VNil end]).
Proof.
  intros ip0 s l a key t Hop Hok Hst Ha W Dk. step_opc Hop. unfold i_32.
  pose proof (stack_is_self _ Hok) as K0. rewrite Hst in K0.
  change (l ++ [VObj a; key]) with (l ++ [VObj a] ++ [key]) in K0. rewrite app_assoc in K0.
  destruct (@spop_k s _ _ _ _ Logic.eq_refl K0) as (k1 & E1 & K1). rewrite E1.
  destruct (@spop_k (set_stack s k1) _ _ _ _ Logic.eq_refl K1) as (k2 & E2 & K2). rewrite E2.
  rewrite set_stack_twice. cbn [st_heap set_stack get_table]. rewrite Ha, (vm_tget _ _ _ W Dk).
  unfold push_next.
  assert (Hfit : S (length l) < cap s).
  { pose proof (stack_is_length _ _ _ K1) as L. rewrite app_length in L. cbn [length] in L. lia. }
  destruct (@spush_k (set_stack s k2) _ _ _
              (match al_get (veq (st_heap s)) key (tabs t) with Some v => v | None => VNil end)
              Logic.eq_refl K2 Hfit) as (k3 & E3 & K3).
  rewrite E3. exists k3. split; [reflexivity | exact K3].
Qed.

(* ---- SetProperty (33): the stack holds value, instance, key (key on top) ---- *)
Theorem step_set_property : forall ip0 s l a key v t,
  opcode_at P ip0 = 33%N -> stack_ok s -> stack_of s = l ++ [v; VObj a; key] ->
  hget (st_heap s) a = Some (OTable t) ->
  twf (veq (st_heap s)) (dom (st_heap s)) t -> dom (st_heap s) key ->
  exists t' k,
    STEP ip0 s = SNext (ip0 + 1) (set_stack (set_table s a t') k) /\
    stack_is (cap s) k l /\
    twf (veq (st_heap s)) (dom (st_heap s)) t' /\ tabs t' = al_set (veq (st_heap s)) key v (tabs t).
Proof.
  intros ip0 s l a key v t Hop Hok Hst Ha W Dk. step_opc Hop. unfold i_33. cbv zeta.
  pose proof (stack_is_self _ Hok) as K0. rewrite Hst in K0.
  rewrite (speek_k _ _ _ _ 0 K0), (speek_k _ _ _ _ 1 K0), (speek_k _ _ _ _ 2 K0) by (cbn [length]; lia).
  cbn [length Nat.sub nth]. change (st_heap (spop_n s 3)) with (st_heap s).
  cbn [get_table]. rewrite Ha.
  destruct (vm_tinsert _ _ _ v W Dk) as (t' & E & W' & Habs). rewrite E.
  exists t', (st_stack (spop_n s 3)). split; [reflexivity|]. split; [|split; assumption].
  exact (@spop_n_k s _ l [v; VObj a; key] K0).
Qed.

(* ---- Len (34) ---- *)
Theorem step_len : forall ip0 s l a t,
  opcode_at P ip0 = 34%N -> stack_ok s -> stack_of s = l ++ [VObj a] ->
  hget (st_heap s) a = Some (OTable t) -> twf (veq (st_heap s)) (dom (st_heap s)) t ->
  exists k,
    STEP ip0 s = SNext (ip0 + 1) (set_stack s k) /\
    stack_is (cap s) k (l ++ [VInt (Z.of_nat (length (tabs t)))]).
Proof.
  intros ip0 s l a t Hop Hok Hst Ha W. step_opc Hop. unfold i_34.
  pose proof (stack_is_self _ Hok) as K0. rewrite Hst in K0.
  destruct (@spop_k s _ _ _ _ Logic.eq_refl K0) as (k1 & E1 & K1). rewrite E1.
  unfold vobj_len. cbn [st_heap set_stack]. rewrite Ha. cbn [obj_len]. rewrite (tlen_spec W).
  unfold push_next.
  assert (Hfit : S (length l) < cap s).
  { pose proof (stack_is_length _ _ _ K0) as L. rewrite app_length in L. cbn [length] in L. lia. }
  destruct (@spush_k (set_stack s k1) _ _ _ (VInt (Z.of_nat (length (tabs t)))) Logic.eq_refl K1 Hfit)
    as (k3 & E3 & K3).
  rewrite E3. exists k3. split; [reflexivity | exact K3].
Qed.

(* ---- AppendTable (40): the stack holds value, instance (instance on top) ---- *)
Theorem step_append_table : forall ip0 s l a v t,
  opcode_at P ip0 = 40%N -> stack_ok s -> stack_of s = l ++ [v; VObj a] ->
  hget (st_heap s) a = Some (OTable t) -> twf (veq (st_heap s)) (dom (st_heap s)) t ->
  exists t' j k,
    STEP ip0 s = SNext (ip0 + 1) (set_stack (set_table s a t') k) /\
    stack_is (cap s) k l /\
    twf (veq (st_heap s)) (dom (st_heap s)) t' /\
    al_append_key (veq (st_heap s)) (tabs t) j /\ tabs t' = tabs t ++ [(VInt j, v)].
Proof.
  intros ip0 s l a v t Hop Hok Hst Ha W. step_opc Hop. unfold i_40. cbv zeta.
  pose proof (stack_is_self _ Hok) as K0. rewrite Hst in K0.
  rewrite (speek_k _ _ _ _ 0 K0), (speek_k _ _ _ _ 1 K0) by (cbn [length]; lia).
  cbn [length Nat.sub nth]. change (st_heap (spop_n s 2)) with (st_heap s).
  cbn [get_table]. rewrite Ha.
  destruct (vm_tappend _ _ v W) as (t' & j & E & W' & Hj & Habs). rewrite E.
  exists t', j, (st_stack (spop_n s 2)). split; [reflexivity|]. split; [|split; [exact W'|split; [exact Hj|exact Habs]]].
  exact (@spop_n_k s _ l [v; VObj a] K0).
Qed.

(* ---- PopTable (41) ---- *)
Theorem step_pop_table : forall ip0 s l a t,
  opcode_at P ip0 = 41%N -> stack_ok s -> stack_of s = l ++ [VObj a] ->
  hget (st_heap s) a = Some (OTable t) -> twf (veq (st_heap s)) (dom (st_heap s)) t ->
  exists t' k,
    STEP ip0 s = SNext (ip0 + 1) (set_stack (set_table s a t') k) /\
    stack_is (cap s) k (l ++ [snd (al_pop (tabs t))]) /\
    twf (veq (st_heap s)) (dom (st_heap s)) t' /\ tabs t' = fst (al_pop (tabs t)).
Proof.
  intros ip0 s l a t Hop Hok Hst Ha W. step_opc Hop. unfold i_41.
  pose proof (stack_is_self _ Hok) as K0. rewrite Hst in K0.
  destruct (@spop_k s _ _ _ _ Logic.eq_refl K0) as (k1 & E1 & K1). rewrite E1.
  cbn [st_heap set_stack get_table]. rewrite Ha.
  destruct (vm_tpop _ _ W) as (t' & E & W' & Habs). rewrite E. unfold push_next.
  assert (Hfit : S (length l) < cap s).
  { pose proof (stack_is_length _ _ _ K0) as L. rewrite app_length in L. cbn [length] in L. lia. }
  destruct (@spush_k (set_table (set_stack s k1) a t') _ _ _ (snd (al_pop (tabs t))) Logic.eq_refl K1 Hfit)
    as (k3 & E3 & K3).
  rewrite E3. exists t', k3. split; [reflexivity|]. split; [exact K3 | split; assumption].
Qed.

End Instr.
