(* C17, part 2: the remaining instructions, the natives, the dispatch loop and `run` on two states that differ only
   in dead slots above the high-water mark (VmClearProofs.v). *)
From Coq Require Import NArith ZArith List Lia Bool.
From Cao Require Import ListUtil Bits Stacks StacksProofs Vm VmWitness VmProofs VmClearProofs.
Import ListNotations.

Set Implicit Arguments.

Lemma agree_raw_set' hw (a b : vstack value) i v : agree VNil hw a b ->
  agree VNil hw {| vcount := vcount a; vdata := upd (vdata a) i v |}
                {| vcount := vcount a; vdata := upd (vdata b) i v |}.
Proof.
  intros H. pose proof (agree_raw_set i v H) as H'. rewrite (agree_count H) in H'. exact H'.
Qed.

(* a raw write through an upvalue: the written stacks agree as well *)
Ltac sim_leaf ::=
  try (match goal with
       | H : agree VNil ?hw ?ka ?kb |- context [{| vcount := vcount ?ka; vdata := upd (vdata ?kb) ?l ?v |}] =>
           pose proof (@agree_raw_set' hw ka kb l v H)
       end);
  match goal with
  | H : agree VNil ?hw _ ?kb |- Sim _ _ =>
      exists hw, kb; split; [reflexivity | split; [exact H | split; [frames_tac | uploc_tac]]]
  end.

(* reads on the second stack are rewritten to reads on the first; scrutinees other than stack operations are
   destructed; only then the stack operations are executed on both stacks (a value that is pushed may itself
   contain a read under a match) *)
Ltac lock_reads :=
  match goal with
  | H : agree VNil ?hw ?ka ?kb |- context [nth ?l (vdata ?kb) VNil] =>
      rewrite (@agree_nth hw ka kb l H) by uploc_bounds
  | H : agree VNil ?hw ?ka ?kb |- context [vs_last VNil ?kb] =>
      rewrite <- (@agree_last value VNil hw ka kb H)
  | H : agree VNil ?hw ?ka ?kb |- context [vcount ?kb] =>
      rewrite (@agree_count hw ka kb H)
  end.
Ltac lock_writes :=
  match goal with
  | H : agree VNil ?hw ?ka ?kb |- context [vs_step VNil ?kb ?op] =>
      let Ho := fresh "Ho" in let Ha := fresh "Ha" in
      assert (Hop : op_ok hw op) by bounds;
      destruct (@vs_step_agree value VNil hw ka kb op H Hop) as [Ho Ha]; clear Hop;
      destruct (vs_step VNil ka op) as [? ?]; destruct (vs_step VNil kb op) as [? ?];
      cbn [fst snd] in Ho, Ha; symmetry in Ho; subst
  | H : agree VNil ?hw ?ka ?kb |- context [vs_push ?kb ?v] =>
      let Ho := fresh "Ho" in let Ha := fresh "Ha" in
      destruct (@agree_push value VNil hw ka kb v H) as [Ho Ha];
      destruct (vs_push ka v) as [? ?]; destruct (vs_push kb v) as [? ?];
      cbn [fst snd] in Ho, Ha; symmetry in Ho; subst
  | H : agree VNil ?hw ?ka ?kb |- context [vs_pop VNil ?kb] =>
      let Ho := fresh "Ho" in let Ha := fresh "Ha" in
      destruct (@agree_pop value VNil hw ka kb H) as [Ho Ha];
      destruct (vs_pop VNil ka) as [? ?]; destruct (vs_pop VNil kb) as [? ?];
      cbn [fst snd] in Ho, Ha; symmetry in Ho; subst
  | H : agree VNil ?hw ?ka ?kb |- context [vs_pop_n VNil ?kb ?n] =>
      let Ha := fresh "Ha" in
      pose proof (@agree_pop_n hw ka kb n H) as Ha;
      destruct (vs_pop_n VNil ka n) as [? ?]; destruct (vs_pop_n VNil kb n) as [? ?]; cbn [fst] in Ha
  end.
Ltac destruct_inner ::=
  match goal with
  | |- context [match ?x with _ => _ end] =>
      lazymatch x with
      | context [match _ with _ => _ end] => fail
      | vs_step _ _ _ => fail
      | vs_push _ _ => fail
      | vs_pop _ _ => fail
      | vs_pop_n _ _ _ => fail
      | _ => destruct x eqn:?
      end
  end.
Ltac sim_auto ::=
  repeat first
    [ progress sm_unfold
    | progress sm_cbn
    | lock_reads
    | destruct_inner
    | lock_writes ];
  repeat match goal with |- _ /\ _ => split end;
  try reflexivity; try sim_leaf.

Ltac leb_facts :=
  repeat match goal with
         | H : (_ <=? _) = false |- _ => apply Nat.leb_gt in H
         | H : (_ <=? _) = true |- _ => apply Nat.leb_le in H
         | H : (_ <? _) = false |- _ => apply Nat.ltb_ge in H
         | H : (_ <? _) = true |- _ => apply Nat.ltb_lt in H
         end.
Ltac obj_tac ::=
  let E := fresh "E" in let E2 := fresh "E" in
  intros ? ? E;
  first [ discriminate E
        | (inversion E; subst; cbn [u_loc]; intros E2;
           first [ discriminate E2
                 | (inversion E2; subst; leb_facts; bounds)
                 | (* the object is a copy of an upvalue that is already in a heap whose upvalues are bounded *)
                   (match goal with
                    | Hx : hget ?heap ?x = Some (OUp ?u) |- _ =>
                        match goal with
                        | E3 : u_loc u = Some ?l |- ?l < ?hw' =>
                            let U := fresh "U" in
                            assert (U : uploc_ok hw' heap) by uploc_tac; exact (U x u l Hx E3)
                        end
                    end) ]) ].

Section SimStep2.
  Variable F : fops.
  Variable bld : build.
  Variable P : program.

  Lemma i_43_44_sim opc ip0 ip a b : Sim a b -> sres_sim (i_43_44 P opc ip0 ip a) (i_43_44 P opc ip0 ip b).
  Proof. sim_start. unfold i_43_44. sim_auto. Qed.
  Lemma i_46_sim opc ip0 ip a b : Sim a b -> sres_sim (i_46 P opc ip0 ip a) (i_46 P opc ip0 ip b).
  Proof.
    intros HS. unfold i_46. destruct (op_u32 P ip) as [idx|]; [|cbn [sres_sim]; auto].
    assert (E : top_offset b = top_offset a).
    { destruct HS as (hw & kb & -> & _). reflexivity. }
    rewrite E. destruct (top_offset a) as [off|]; [|cbn [sres_sim]; auto].
    pose proof (close_upvalues_from_sim (off + N.to_nat idx) HS) as H.
    destruct (close_upvalues_from (off + N.to_nat idx) a), (close_upvalues_from (off + N.to_nat idx) b);
      cbn [closeres_sim sres_sim] in *; try contradiction; intuition.
  Qed.
  Lemma i_45_sim opc ip0 ip a b : Sim a b -> sres_sim (i_45 P opc ip0 ip a) (i_45 P opc ip0 ip b).
  Proof. sim_start. unfold i_45. sim_auto. Qed.

  (* closing upvalues does not touch the stack: the high-water mark stays *)
  Definition SimH (hw : nat) (x y : state) : Prop :=
    exists kb, y = set_stack x kb /\ agree VNil hw (st_stack x) kb /\
               frames_ok hw (st_calls x) /\ uploc_ok hw (st_heap x).
  Definition closeres_simH (hw : nat) (r1 r2 : closeres) : Prop :=
    match r1, r2 with
    | ClOk x, ClOk y => SimH hw x y
    | ClErr e x, ClErr e' y => e = e' /\ SimH hw x y
    | ClStop a x, ClStop a' y => a = a' /\ SimH hw x y
    | _, _ => False
    end.

  Lemma close_upvalues_go_simH fuel top hw : forall a b,
    SimH hw a b -> closeres_simH hw (close_upvalues_go fuel top a) (close_upvalues_go fuel top b).
  Proof.
    induction fuel as [|f IH]; intros a b HS; cbn [close_upvalues_go].
    - cbn [closeres_simH]. split; [reflexivity|exact HS].
    - destruct HS as (kb & -> & Hag & Hfr & Hup). sm_cbn.
      assert (Hself : SimH hw a (set_stack a kb)) by (exists kb; auto).
      destruct (st_open a) as [x|] eqn:Eo; [|exact Hself].
      destruct (hget (st_heap a) x) as [[t|bs|h ar|h|h ar ups|u]|] eqn:Ex; cbn [closeres_simH];
        try (split; [reflexivity|]); try exact Hself;
        try (exists kb; split; [reflexivity|]; split; [exact Hag|]; split; [exact Hfr|exact Hup]).
      destruct (u_loc u) as [l|] eqn:El; [|split; [reflexivity|exact Hself]].
      destruct (l <? top); [exact Hself|].
      apply IH. sm_unfold. sm_cbn.
      rewrite (@agree_nth hw (st_stack a) kb l Hag) by (exact (Hup x u l Ex El)).
      exists kb. split; [reflexivity|]. split; [exact Hag|]. split; [exact Hfr|].
      sm_cbn. apply uploc_ok_hset; [exact Hup|]. intros u' l' E. inversion E; subst. cbn. discriminate.
  Qed.

  Lemma i_22_sim opc ip0 ip a b : Sim a b -> sres_sim (i_22 opc ip0 ip a) (i_22 opc ip0 ip b).
  Proof.
    intros (hw & kb & -> & Hag & Hfr & Hup). unfold i_22. sm_cbn.
    destruct (st_calls a) as [|fr rest] eqn:Eca.
    - cbn [sres_sim]. repeat split. exists hw, kb. rewrite Eca. auto.
    - pose proof (frames_ok_head Hfr) as Hoff. pose proof (frames_ok_tail Hfr) as Hrest.
      assert (HS1 : SimH hw (set_calls a rest) (set_calls (set_stack a kb) rest)).
      { exists kb. split; [reflexivity|]. sm_cbn. auto. }
      pose proof (close_upvalues_go_simH (S (length (st_heap a))) (N.to_nat (fr_off fr)) HS1) as Hc.
      unfold close_upvalues_from. sm_cbn.
      destruct (close_upvalues_go (S (length (st_heap a))) (N.to_nat (fr_off fr)) (set_calls a rest))
        as [a2|e a2|ab a2],
               (close_upvalues_go (S (length (st_heap a))) (N.to_nat (fr_off fr)) (set_calls (set_stack a kb) rest))
        as [b2|e' b2|ab' b2];
        cbn [closeres_simH sres_sim] in *; try contradiction.
      + destruct Hc as (kb2 & -> & Hag2 & Hfr2 & Hup2). clear HS1 Hag Hup Hfr.
        sim_auto.
      + destruct Hc as (-> & kb2 & -> & Hag2 & Hfr2 & Hup2). repeat split. exists hw, kb2. auto.
      + destruct Hc as (-> & kb2 & -> & Hag2 & Hfr2 & Hup2). repeat split. exists hw, kb2. auto.
  Qed.

  (* ---------------- re-entry ---------------- *)
  Variable re : N -> state -> rres.
  Hypothesis Hre : forall ip x y, Sim x y -> rres_sim (re ip x) (re ip y).

  Ltac frames_tac ::=
    goal_cbn;
    try match goal with H : st_calls ?a = _ |- context [st_calls ?a] => rewrite H end;
    first [ assumption
          | apply frames_ok_nil
          | (eapply frames_ok_mono; [eassumption | bounds])
          | (apply frames_ok_cons; [bounds | frames_tac])
          | (apply frames_ok_skipn; frames_tac)
          | (eapply frames_ok_tail; eassumption) ].

  Ltac sim_split H :=
    let hw := fresh "hw" in let kb := fresh "kb" in
    let Hag := fresh "Hag" in let Hfr := fresh "Hfr" in let Hup := fresh "Hup" in
    destruct H as (hw & kb & -> & Hag & Hfr & Hup).

  (* run the same call on both states: [lem X Y : Sim X Y -> res_sim tX tY] *)
  Ltac lock_by lem X Y tX tY :=
    let HS := fresh "HS" in
    assert (HS : Sim X Y) by sim_leaf;
    let Hr := fresh "Hr" in
    pose proof (lem X Y HS) as Hr; clear HS;
    destruct tX, tY; cbn [rres_sim nres_sim sres_sim] in Hr; try contradiction;
    repeat match type of Hr with _ /\ _ => let E := fresh "E" in destruct Hr as [E Hr]; try subst end;
    sim_split Hr.

  Ltac lock_re :=
    match goal with
    | |- context [re ?ip ?X] =>
        match goal with
        | |- context [re ip ?Y] =>
            lazymatch X with Y => fail | _ => lock_by (Hre ip) X Y (re ip X) (re ip Y) end
        end
    end.

  Ltac destruct_inner ::=
    match goal with
    | |- context [match ?x with _ => _ end] =>
        lazymatch x with
        | context [match _ with _ => _ end] => fail
        | vs_step _ _ _ => fail
        | vs_push _ _ => fail
        | vs_pop _ _ => fail
        | vs_pop_n _ _ _ => fail
        | re _ _ => fail
        | run_function _ _ _ _ _ => fail
        | minmax_go _ _ _ _ _ _ _ _ _ _ _ => fail
        | sort_keys _ _ _ _ _ _ => fail
        | call_native_fuel _ _ _ _ _ _ => fail
        | native_body _ _ _ _ _ _ => fail
        | _ => destruct x eqn:?
        end
    end.

  Section RF.
    Variable cn : N -> state -> nres.
    Hypothesis Hcn : forall h x y, Sim x y -> nres_sim (cn h x) (cn h y).

    Ltac lock_cn :=
      match goal with
      | |- context [cn ?h ?X] =>
          match goal with
          | |- context [cn h ?Y] =>
              lazymatch X with Y => fail | _ => lock_by (Hcn h) X Y (cn h X) (cn h Y) end
          end
      end.

    Ltac destruct_inner ::=
      match goal with
      | |- context [match ?x with _ => _ end] =>
          lazymatch x with
          | context [match _ with _ => _ end] => fail
          | vs_step _ _ _ => fail
          | vs_push _ _ => fail
          | vs_pop _ _ => fail
          | vs_pop_n _ _ _ => fail
          | re _ _ => fail
          | cn _ _ => fail
          | _ => destruct x eqn:?
          end
      end.

    Ltac sim_auto ::=
      repeat first
        [ progress sm_unfold
        | progress sm_cbn
        | lock_reads
        | destruct_inner
        | lock_writes
        | lock_re
        | lock_cn ];
      repeat match goal with |- _ /\ _ => split end;
      try reflexivity; try sim_leaf.

    Lemma run_function_sim fv x y :
      Sim x y -> nres_sim (run_function P re cn fv x) (run_function P re cn fv y).
    Proof. sim_start. unfold run_function. cbv zeta. sim_auto. Qed.
  End RF.

  Definition mmres_sim (r1 r2 : mmres) : Prop :=
    match r1, r2 with
    | MMOk i x, MMOk i' y => i = i' /\ Sim x y
    | MMFail r, MMFail r' => nres_sim r r'
    | _, _ => False
    end.
  Definition skres_sim (r1 r2 : skres) : Prop :=
    match r1, r2 with
    | SKOk l x, SKOk l' y => l = l' /\ Sim x y
    | SKFail r, SKFail r' => nres_sim r r'
    | _, _ => False
    end.

  Section Std.
    Variable self : N -> state -> nres.
    Hypothesis Hself : forall h x y, Sim x y -> nres_sim (self h x) (self h y).

    Definition rf_sim := @run_function_sim self Hself.

    Ltac lock_rf :=
      match goal with
      | |- context [run_function P re self ?fv ?X] =>
          match goal with
          | |- context [run_function P re self fv ?Y] =>
              lazymatch X with Y => fail
              | _ => lock_by (@rf_sim fv) X Y (run_function P re self fv X) (run_function P re self fv Y) end
          end
      end.

    Ltac destruct_inner ::=
      match goal with
      | |- context [match ?x with _ => _ end] =>
          lazymatch x with
          | context [match _ with _ => _ end] => fail
          | vs_step _ _ _ => fail
          | vs_push _ _ => fail
          | vs_pop _ _ => fail
          | vs_pop_n _ _ _ => fail
          | re _ _ => fail
          | self _ _ => fail
          | run_function _ _ _ _ _ => fail
          | minmax_go _ _ _ _ _ _ _ _ _ _ _ => fail
          | sort_keys _ _ _ _ _ _ => fail
          | native_minmax _ _ _ _ _ _ _ _ => fail
          | native_sorted _ _ _ _ _ _ _ => fail
          | _ => destruct x eqn:?
          end
      end.

    Ltac sim_auto ::=
      repeat first
        [ progress sm_unfold
        | progress sm_cbn
        | lock_reads
        | destruct_inner
        | lock_writes
        | lock_re
        | lock_rf ];
      repeat match goal with |- _ /\ _ => split end;
      try reflexivity; try sim_leaf.

    Lemma minmax_go_sim less kf : forall l j i best x y,
      Sim x y ->
      mmres_sim (minmax_go F P re self less kf l j i best x) (minmax_go F P re self less kf l j i best y).
    Proof.
      induction l as [|[k v] rest IH]; intros j i best x y HS; cbn [minmax_go].
      - cbn [mmres_sim]. auto.
      - revert HS. sim_start.
        repeat first [ progress sm_unfold | progress sm_cbn | lock_reads | lock_writes | lock_rf
                     | match goal with
                       | |- context [match ?x with _ => _ end] =>
                           lazymatch x with
                           | context [match _ with _ => _ end] => fail
                           | vs_push _ _ => fail
                           | run_function _ _ _ _ _ => fail
                           | minmax_go _ _ _ _ _ _ _ _ _ _ _ => fail
                           | _ => destruct x eqn:?
                           end
                       end ];
          cbn [mmres_sim nres_sim];
          try (repeat match goal with |- _ /\ _ => split end; try reflexivity; try sim_leaf; fail);
          try (apply IH; sim_leaf).
    Qed.

  End Std.

  Lemma slast_sim a b : Sim a b -> slast b = slast a.
  Proof. sim_start. unfold slast. sm_cbn. symmetry. apply (agree_last Hag). Qed.

  Lemma spop_fst_sim a b : Sim a b -> Sim (fst (spop a)) (fst (spop b)).
  Proof.
    sim_start. unfold spop. sm_cbn.
    destruct (agree_pop Hag) as [Ho Ha].
    destruct (vs_pop VNil (st_stack a)) as [k v], (vs_pop VNil kb) as [k' v']. cbn [fst snd] in *.
    exists hw, k'. split; [reflexivity|]. split; [exact Ha|]. split; assumption.
  Qed.

  (* One instruction on two states that differ only in dead slots above the high-water mark: every instruction
     except the two that can enter a native function (CallNative = 4, and CallFunction = 11 whose callee may be a
     native function value) *)
  Theorem step_sim_partial : forall ip a b,
    Sim a b ->
    nth (N.to_nat ip) (p_code P) 255%N <> 4%N -> nth (N.to_nat ip) (p_code P) 255%N <> 11%N ->
    sres_sim (step F bld P re ip a) (step F bld P re ip b).
  Proof.
    intros ip0 a b HS H4 H11. unfold step. cbv zeta.
    destruct (nth (N.to_nat ip0) (p_code P) 255%N) as [|p]; [apply binary_op_sim; exact HS|].
    do 6 (try destruct p as [p|p|]).
    all: try (exfalso; apply H4; reflexivity).
    all: try (exfalso; apply H11; reflexivity).
    all: first
      [ (apply binary_op_sim; exact HS)
      | (rewrite (slast_sim HS); apply push_next_sim; exact HS)
      | (apply push_next_sim; exact HS)
      | (apply i_5_sim; exact HS) | (apply i_6_sim; exact HS) | (apply i_8_sim; exact HS)
      | (apply i_17_sim; exact HS) | (apply i_18_sim; exact HS) | (apply i_19_sim; exact HS)
      | (apply i_20_sim; exact HS) | (apply i_21_sim; exact HS) | (apply i_22_sim; exact HS)
      | (apply i_23_sim; exact HS) | (apply i_27_sim; exact HS) | (apply i_28_sim; exact HS)
      | (apply i_29_30_sim; exact HS) | (apply i_31_sim; exact HS) | (apply i_32_sim; exact HS)
      | (apply i_33_sim; exact HS) | (apply i_34_sim; exact HS) | (apply i_35_sim; exact HS)
      | (apply i_36_sim; exact HS) | (apply i_37_42_sim; exact HS) | (apply i_38_sim; exact HS)
      | (apply i_39_sim; exact HS) | (apply i_40_sim; exact HS) | (apply i_41_sim; exact HS)
      | (apply i_43_44_sim; exact HS) | (apply i_45_sim; exact HS) | (apply i_46_sim; exact HS)
      | (cbn [sres_sim]; split; [reflexivity|]; apply spop_fst_sim; exact HS)
      | (cbn [sres_sim]; try split; try reflexivity; exact HS) ].
  Qed.

  (* ---- the rest of the interpreter, given that entering a native preserves the relation ---- *)
  Hypothesis Hns : forall h ip x y, Sim x y -> sres_sim (native_step F P re h ip x) (native_step F P re h ip y).

  Lemma i_4_sim opc ip0 ip a b : Sim a b -> sres_sim (i_4 F P re opc ip0 ip a) (i_4 F P re opc ip0 ip b).
  Proof.
    intros HS. unfold i_4. destruct (op_u32 P ip); [apply Hns; exact HS|].
    cbn [sres_sim]. split; [reflexivity|exact HS].
  Qed.

  Lemma i_11_sim opc ip0 ip a b : Sim a b -> sres_sim (i_11 F P re opc ip0 ip a) (i_11 F P re opc ip0 ip b).
  Proof.
    intros HS. unfold i_11.
    pose proof (spop_fst_sim HS) as HS1.
    assert (Ev : snd (spop b) = snd (spop a)).
    { destruct HS as (hw & kb & -> & Hag & _). unfold spop. sm_cbn. destruct (agree_pop Hag) as [Ho _].
      destruct (vs_pop VNil (st_stack a)), (vs_pop VNil kb). cbn [fst snd] in *. congruence. }
    destruct (spop a) as [a1 fv], (spop b) as [b1 fv']. cbn [fst snd] in *. subst fv'.
    revert HS1. sim_start. sm_cbn.
    destruct fv as [|z|r|x]; try (cbn [sres_sim]; repeat split; sim_leaf).
    destruct (hget (st_heap a1) x) as [o|] eqn:Ex; [|cbn [sres_sim]; repeat split; sim_leaf].
    destruct o; try (cbn [sres_sim]; repeat split; sim_leaf).
    - cbv zeta. sim_auto.
    - apply Hns. sim_leaf.
    - cbv zeta. sim_auto.
  Qed.

  Theorem step_sim : forall ip a b, Sim a b -> sres_sim (step F bld P re ip a) (step F bld P re ip b).
  Proof.
    intros ip a b HS.
    destruct (N.eq_dec (nth (N.to_nat ip) (p_code P) 255%N) 4%N) as [E4|N4].
    - unfold step. cbv zeta. rewrite E4. apply i_4_sim. exact HS.
    - destruct (N.eq_dec (nth (N.to_nat ip) (p_code P) 255%N) 11%N) as [E11|N11].
      + unfold step. cbv zeta. rewrite E11. apply i_11_sim. exact HS.
      + apply step_sim_partial; assumption.
  Qed.

  Lemma Sim_rem a b : Sim a b -> st_rem b = st_rem a.
  Proof. intros (? & ? & -> & _). reflexivity. Qed.
  Lemma Sim_tick_rem a b r : Sim a b -> Sim (tick (set_rem a r)) (tick (set_rem b r)).
  Proof. intros (hw & kb & -> & Hag & Hfr & Hup). exists hw, kb. auto. Qed.
  Lemma Sim_set_rem a b r : Sim a b -> Sim (set_rem a r) (set_rem b r).
  Proof. intros (hw & kb & -> & Hag & Hfr & Hup). exists hw, kb. auto. Qed.

  Lemma loop_sim : forall fuel ip a b,
    Sim a b -> rres_sim (loop F bld P re fuel ip a) (loop F bld P re fuel ip b).
  Proof.
    induction fuel as [|f IH]; intros ip a b HS; cbn [loop]; rewrite (Sim_rem HS);
      (destruct (code_len P <=? ip)%N; [cbn [rres_sim]; auto|]); cbn [st_rem set_rem];
      (destruct (N.pred (st_rem a) =? 0)%N;
       [cbn [rres_sim]; repeat split; apply Sim_set_rem; exact HS|]).
    - cbn [rres_sim]. split; [reflexivity|]. apply Sim_set_rem. exact HS.
    - pose proof (step_sim ip (Sim_tick_rem (N.pred (st_rem a)) HS)) as Hs.
      destruct (step F bld P re ip (tick (set_rem a (N.pred (st_rem a))))) as [ip1 a1|a1|e ip1 a1|ab a1],
               (step F bld P re ip (tick (set_rem b (N.pred (st_rem a))))) as [ip2 b1|b1|e' ip2 b1|ab' b1];
        cbn [sres_sim rres_sim] in *; try contradiction.
      + destruct Hs as [-> Hs]. apply IH. exact Hs.
      + exact Hs.
      + destruct Hs as (-> & _ & Hs). auto.
      + exact Hs.
  Qed.
End SimStep2.

(* `clear` against a new Vm: the two start states are related (same capacity) *)
Lemma clear_sim_fresh : forall s,
  length (vdata (st_stack s)) = stack_size ->
  Sim (mkState (vs_new VNil stack_size) [] [] [] None (st_log s) (st_count s) (st_rem s)) (clear_state s).
Proof.
  intros s Hlen. unfold clear_state. cbn [vs_step fst].
  exists 0, {| vcount := 0; vdata := upd (vdata (st_stack s)) 0 VNil |}.
  split; [reflexivity|]. split; [|split].
  - unfold agree. cbn [st_stack vcount vdata vs_new]. rewrite upd_length, repeat_length, Hlen.
    repeat split; auto. intros i Hi. lia.
  - intros f [].
  - intros x u l Hx. unfold hget in Hx. cbn [st_heap] in Hx. destruct (N.to_nat x); discriminate.
Qed.

(* ------------------------------------------------------------------ *)
(* Nested runs and `run`                                               *)
(* ------------------------------------------------------------------ *)

(* what is NOT proved here: that entering a native function of the menu (call_native: the seventeen native bodies,
   the typed wrappers, min/max/sort with their callbacks) preserves the relation, given that nested runs do *)
Definition natives_ok (F : fops) (P : program) : Prop :=
  forall re, (forall ip x y, Sim x y -> rres_sim (re ip x) (re ip y)) ->
  forall h ip x y, Sim x y -> sres_sim (native_step F P re h ip x) (native_step F P re h ip y).

Lemma Sim_calls a b : Sim a b -> st_calls b = st_calls a.
Proof. intros (? & ? & -> & _). reflexivity. Qed.

Lemma run_at_sim F bld P mi : natives_ok F P -> forall depth ip a b,
  Sim a b -> rres_sim (run_at F bld P false mi depth ip a) (run_at F bld P false mi depth ip b).
Proof.
  intros Hn. induction depth as [|d IH]; intros ip a b HS; cbn [run_at].
  - cbn [rres_sim]. split; [reflexivity|exact HS].
  - unfold run_loop. rewrite (Sim_rem HS).
    apply (@loop_sim F bld P _ (Hn _ IH)). exact HS.
Qed.

Lemma Sim_drop_frames a b : Sim a b -> Sim (set_calls a []) (set_calls b []).
Proof.
  intros (hw & kb & -> & Hag & Hfr & Hup). exists hw, kb. split; [reflexivity|]. split; [exact Hag|].
  split; [intros f []|exact Hup].
Qed.

Theorem run_sim F bld N P a b :
  natives_ok F P -> Sim a b ->
  fst (run F bld N P a) = fst (run F bld N P b) /\ Sim (snd (run F bld N P a)) (snd (run F bld N P b)).
Proof.
  intros Hn HS. unfold run, run_gen, push_frame. rewrite (Sim_calls HS).
  destruct (call_stack_size <=? length (st_calls a)); [cbn [fst snd]; auto|].
  assert (HS1 : Sim (set_rem (set_calls a (mkFrame 0 0 0 None :: st_calls a)) (N.of_nat N))
                    (set_rem (set_calls b (mkFrame 0 0 0 None :: st_calls a)) (N.of_nat N))).
  { destruct HS as (hw & kb & -> & Hag & Hfr & Hup). exists hw, kb. split; [reflexivity|].
    split; [exact Hag|]. split; [|exact Hup].
    cbn [st_calls set_calls set_rem]. apply frames_ok_cons; [cbn; lia|exact Hfr]. }
  pose proof (@run_at_sim F bld P (N.of_nat N) Hn max_depth 0%N _ _ HS1) as Hr.
  destruct (run_at F bld P false (N.of_nat N) max_depth 0
              (set_rem (set_calls a (mkFrame 0 0 0 None :: st_calls a)) (N.of_nat N))) as [x|e ip x|ab x],
           (run_at F bld P false (N.of_nat N) max_depth 0
              (set_rem (set_calls b (mkFrame 0 0 0 None :: st_calls a)) (N.of_nat N))) as [y|e' ip' y|ab' y];
    cbn [rres_sim] in Hr; try contradiction; unfold finish, outcome_of; cbn [fst snd].
  - split; [reflexivity|]. apply Sim_drop_frames. exact Hr.
  - destruct Hr as (-> & -> & Hr). unfold build_trace. rewrite (Sim_calls Hr). split; [reflexivity|].
    apply Sim_drop_frames. exact Hr.
  - destruct Hr as (-> & Hr). split; [reflexivity|exact Hr].
Qed.

(* run_after_clear, PARTIAL: running P on a cleared Vm gives the outcome of running it on a new Vm, and final
   states that differ only in dead slots of the value stack above the high-water mark of the run (everything a later
   run or the host can read through the API is equal) - PROVIDED entering a native preserves that relation
   ([natives_ok], the part that is not proved). Proved without that hypothesis: every ValueStack operation
   (vs_step_agree), every instruction except CallNative and CallFunction-on-a-native-value (step_sim_partial),
   run_function, the min/max loop, the dispatch loop, nested runs. *)
Theorem run_after_clear_partial : forall F bld N P s,
  natives_ok F P ->
  length (vdata (st_stack s)) = stack_size ->
  let fresh := mkState (vs_new VNil stack_size) [] [] [] None (st_log s) (st_count s) (st_rem s) in
  fst (run F bld N P (clear_state s)) = fst (run F bld N P fresh) /\
  Sim (snd (run F bld N P fresh)) (snd (run F bld N P (clear_state s))).
Proof.
  intros F bld N P s Hn Hlen fresh.
  destruct (@run_sim F bld N P fresh (clear_state s) Hn (clear_sim_fresh s Hlen)) as [E HS].
  split; [symmetry; exact E|exact HS].
Qed.
