(* binary64 instance of Vm.fops: Flocq's IEEE-754 binary64 on bit patterns, round to nearest even.
   Used only by the correspondence checker (VmCheck.v); the theorems of VmProofs.v are generic in [fops]. *)
From Coq Require Import NArith ZArith.
From Flocq Require Import Core BinarySingleNaN Binary Bits.
From Cao Require Import Vm.

Local Open Scope Z_scope.

Lemma prec_gt_0_53 : FLX.Prec_gt_0 53. Proof. reflexivity. Qed.
Lemma prec_lt_emax_53 : BinarySingleNaN.Prec_lt_emax 53 1024. Proof. reflexivity. Qed.

Definition b64_of_N (n : N) : binary64 := b64_of_bits (Z.of_N n mod 18446744073709551616).
Definition N_of_b64 (x : binary64) : N := Z.to_N (bits_of_b64 x).

Definition fl_add (a b : N) : N := N_of_b64 (b64_plus mode_NE (b64_of_N a) (b64_of_N b)).
Definition fl_sub (a b : N) : N := N_of_b64 (b64_minus mode_NE (b64_of_N a) (b64_of_N b)).
Definition fl_mul (a b : N) : N := N_of_b64 (b64_mult mode_NE (b64_of_N a) (b64_of_N b)).
Definition fl_div (a b : N) : N := N_of_b64 (b64_div mode_NE (b64_of_N a) (b64_of_N b)).
Definition fl_cmp (a b : N) : option comparison := b64_compare (b64_of_N a) (b64_of_N b).

(* `z as f64` *)
Definition fl_of_Z (z : Z) : N :=
  N_of_b64 (Binary.binary_normalize 53 1024 prec_gt_0_53 prec_lt_emax_53 mode_NE z 0 false).

(* `x as i64`: NaN -> 0, saturating, truncation toward zero *)
Definition fl_to_i64 (a : N) : Z :=
  let x := b64_of_N a in
  match x with
  | B754_nan _ _ _ _ _ => 0
  | B754_infinity _ _ sg => if sg then -9223372036854775808 else 9223372036854775807
  | _ =>
      let t := Binary.Btrunc 53 1024 x in
      if t <? -9223372036854775808 then -9223372036854775808
      else if 9223372036854775807 <? t then 9223372036854775807 else t
  end.

Definition flocq_ops : fops :=
  mkFops fl_add fl_sub fl_mul fl_div fl_cmp fl_of_Z fl_to_i64.
