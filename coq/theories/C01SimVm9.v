(* C01, simulation, VM half for fragment F9 (static calls): the vocabulary of C01SimVm extended by the two
   components a call changes - the call frames and the heap (FunctionPointer allocates the function object).

   - [cfg9] = (ip, value stack, globals, call frames, heap); [exec9 c c']: one dispatch takes every state described by c
     (C01SimVm.St with the frames and the heap of c, no open upvalue, empty log) to one described by c';
     [steps9 n c c'], and [loop_steps9]: the dispatch loop follows them when budget and fuel suffice;
   - every step of C01SimVm (frames and heap fixed) is such a step ([steps_steps9]);
   - ReadLocalVar / SetLocalVar in a frame with offset off: slot i of the frame is position off + i of the stack;
   - the call protocol: FunctionPointer h ar; CallFunction with the k = ar arguments on top of the stack continues at
     labels[h] in a new frame whose offset is the position of the first argument ([ex9_call]); Return with the value v on
     top of the callee's part of the stack continues behind the CallFunction in the caller's frame, the callee's part of
     the stack (arguments included) replaced by v ([ex9_return]); together: [call_return9]. *)
From Coq Require Import NArith ZArith List Lia Bool.
From Cao Require Import ListUtil Bits Stacks StacksProofs Bytecode CompilerProofs CompilerWf CompilerOk.
From Cao Require Import Vm VmProofs VmNativeProofs VmUpvalueProofs C04VmProofs C01SimVm VmCallProofs.
Import ListNotations.

Local Open Scope N_scope.

Arguments N.add : simpl never.
Arguments N.sub : simpl never.
Arguments N.mul : simpl never.
Arguments N.of_nat : simpl never.
Arguments N.to_nat : simpl never.

Section Sim9.
Variable F : fops.
Variable bld : build.
Variable P : program.
Variable cap : nat.

Notation St9 := (fun calls heap => St cap calls heap (@None N) (@nil (list tval))).

Definition cfg9 : Type := (N * list value * list (option value) * list frame * heap)%type.
Definition ip9 (c : cfg9) : N := let '(ip, _, _, _, _) := c in ip.
Definition stk9 (c : cfg9) : list value := let '(_, stk, _, _, _) := c in stk.
Definition gl9 (c : cfg9) : list (option value) := let '(_, _, g, _, _) := c in g.
Definition calls9 (c : cfg9) : list frame := let '(_, _, _, cs, _) := c in cs.
Definition heap9 (c : cfg9) : heap := let '(_, _, _, _, h) := c in h.

Definition exec9 (c c' : cfg9) : Prop :=
  ip9 c < code_len P /\
  forall (reenter : N -> state -> rres) s rem, St9 (calls9 c) (heap9 c) s (stk9 c) (gl9 c) rem ->
    exists s', step F bld P reenter (ip9 c) s = SNext (ip9 c') s' /\ St9 (calls9 c') (heap9 c') s' (stk9 c') (gl9 c') rem.

Inductive steps9 : nat -> cfg9 -> cfg9 -> Prop :=
| steps9_O c : steps9 0 c c
| steps9_S n c c1 c2 : exec9 c c1 -> steps9 n c1 c2 -> steps9 (S n) c c2.

Lemma steps9_trans n m a b c : steps9 n a b -> steps9 m b c -> steps9 (n + m) a c.
Proof. induction 1; intros H2; cbn [Nat.add]; [exact H2 | econstructor; eauto]. Qed.
Lemma steps9_1 a b : exec9 a b -> steps9 1 a b.
Proof. intros H. econstructor; [exact H | constructor]. Qed.

(* the steps of C01SimVm, frames and heap fixed *)
Lemma exec1_exec9 calls hp ip stk g ip' stk' g' :
  exec1 F bld P cap calls hp None [] (ip, stk, g) (ip', stk', g') ->
  exec9 (ip, stk, g, calls, hp) (ip', stk', g', calls, hp).
Proof. intros H. exact H. Qed.
Lemma steps_steps9 calls hp n : forall c c',
  steps F bld P cap calls hp None [] n c c' ->
  steps9 n (fst (fst c), snd (fst c), snd c, calls, hp) (fst (fst c'), snd (fst c'), snd c', calls, hp).
Proof.
  induction 1 as [c | n c c1 c2 H1 _ IH]; [constructor|].
  econstructor; [|exact IH]. destruct c as [[ip stk] g], c1 as [[ip1 stk1] g1]. exact H1.
Qed.

(* the dispatch loop follows the steps when the budget allows *)
Lemma loop_steps9 (reenter : N -> state -> rres) n : forall c c', steps9 n c c' ->
  forall fuel s rem, St9 (calls9 c) (heap9 c) s (stk9 c) (gl9 c) rem -> N.of_nat n < rem ->
    exists s', St9 (calls9 c') (heap9 c') s' (stk9 c') (gl9 c') (rem - N.of_nat n) /\
               loop F bld P reenter (n + fuel) (ip9 c) s = loop F bld P reenter fuel (ip9 c') s'.
Proof.
  induction 1 as [c | n c c1 c2 H1 Hs IH]; intros fuel s rem HS Hrem.
  - exists s. rewrite N.sub_0_r. split; [exact HS | reflexivity].
  - destruct H1 as [Hlt H1].
    pose proof (St_tick (N.pred rem) HS) as HS1.
    destruct (H1 reenter _ _ HS1) as (s1 & E1 & HS1').
    destruct (IH fuel s1 _ HS1') as (s' & HS' & E'); [lia|].
    exists s'. split; [replace (rem - N.of_nat (S n)) with (N.pred rem - N.of_nat n) by lia; exact HS'|].
    cbn [Nat.add loop].
    assert (Hcl : (code_len P <=? ip9 c) = false) by (apply N.leb_gt; exact Hlt). rewrite Hcl.
    assert (Hr : st_rem s = rem) by (destruct HS as (_ & _ & _ & _ & _ & _ & _ & _ & Hr); exact Hr).
    rewrite Hr. cbn [st_rem set_rem].
    assert (Hz : (N.pred rem =? 0) = false) by (apply N.eqb_neq; lia). rewrite Hz.
    rewrite E1. exact E'.
Qed.

(* ------------------------------------------------------------------ locals of a frame with offset *)
Lemma St_top_offset calls hp s stk g rem top rest :
  St9 calls hp s stk g rem -> calls = top :: rest -> top_offset s = Some (N.to_nat (fr_off top)).
Proof. intros (_ & _ & _ & Hc & _) ->. unfold top_offset. rewrite Hc. reflexivity. Qed.

(* ReadLocalVar i in a frame with offset off: a copy of position off + i is pushed *)
Lemma ex9_read_local ip i stk g top rest hp :
  code_at P ip (IReadLocalVar i) -> i < 4294967296 -> (S (length stk) < cap)%nat ->
  exec9 (ip, stk, g, top :: rest, hp)
        (ip + 5, stk ++ [nth (N.to_nat (fr_off top) + N.to_nat i) stk VNil], g, top :: rest, hp).
Proof.
  intros Hc Hi Hroom. split; [eapply code_at_lt; eauto|]. cbn [ip9 stk9 gl9 calls9 heap9]. intros reenter s rem HS.
  pose proof HS as (Hok & Hst & Hcap & _).
  assert (Eh : op_u32 P (ip + 1) = Some i) by (apply (code_at_operand1 (w := 4) Hc eq_refl eq_refl), fits4_lt, Hi).
  destruct (vm_read_local F bld P reenter ip s i (N.to_nat (fr_off top)) (code_at_opcode Hc) Eh
              (St_top_offset _ _ _ _ _ _ _ _ HS eq_refl) Hok) as (E & _).
  { unfold VmUpvalueProofs.cap. rewrite Hst, Hcap. exact Hroom. }
  rewrite Hst in E.
  destruct (St_push (nth (N.to_nat (fr_off top) + N.to_nat i) stk VNil) HS Hroom) as (s' & Ep & HS').
  destruct (spush_exact s (nth (N.to_nat (fr_off top) + N.to_nat i) stk VNil) Hok) as (Ep' & _).
  { unfold VmUpvalueProofs.cap. rewrite Hst, Hcap. exact Hroom. }
  rewrite Ep' in Ep. injection Ep as <-.
  eexists. split; [|exact HS']. rewrite E. f_equal. lia.
Qed.

(* SetLocalVar i assigning an existing slot of the frame *)
Lemma ex9_set_local ip i stk v g top rest hp :
  code_at P ip (ISetLocalVar i) -> i < 4294967296 ->
  (N.to_nat (fr_off top) + N.to_nat i < length stk)%nat ->
  exec9 (ip, stk ++ [v], g, top :: rest, hp)
        (ip + 5, upd stk (N.to_nat (fr_off top) + N.to_nat i) v, g, top :: rest, hp).
Proof.
  intros Hc Hi Hlt. split; [eapply code_at_lt; eauto|]. cbn [ip9 stk9 gl9 calls9 heap9]. intros reenter s rem HS.
  pose proof HS as (Hok & Hst & Hcap & Hcs & Hhp & Hop & Hlog & Hg & Hrem).
  assert (Eh : op_u32 P (ip + 1) = Some i) by (apply (code_at_operand1 (w := 4) Hc eq_refl eq_refl), fits4_lt, Hi).
  destruct (vm_set_local F bld P reenter ip s stk v i (N.to_nat (fr_off top)) (code_at_opcode Hc) Eh
              (St_top_offset _ _ _ _ _ _ _ _ HS eq_refl) Hok Hst Hlt)
    as (x' & E & Hok' & Hst' & C1 & C2 & C3 & C4 & C5).
  exists x'. split; [rewrite E; f_equal; lia|].
  assert (Hlr : st_log x' = st_log s /\ st_rem x' = st_rem s).
  { revert E. pose proof (code_at_opcode Hc) as Hopc. cbn [instr_op op_code] in Hopc. step_opc Hopc. unfold i_19. rewrite Eh. cbv zeta.
    rewrite (St_top_offset _ _ _ _ _ _ _ _ HS eq_refl).
    rewrite (spop_w_offset_abs s (N.to_nat (fr_off top)) stk v Hok Hst) by lia.
    unfold Vm.write_local, sset. destruct (vs_step _ _ _) as [k o]. destruct o; intros E; try discriminate E.
    all: injection E as <-; split; reflexivity. }
  destruct Hlr as [Hl Hr].
  unfold St. unfold VmUpvalueProofs.cap in C5. rewrite C1, C2, C3, C4, C5, Hl, Hr. auto 10.
Qed.

(* ------------------------------------------------------------------ the call protocol *)
(* FunctionPointer h ar; CallFunction at ip with the arguments [args] on top of [stk]: two dispatches lead to the label
   of h in a new frame whose offset is the position of the first argument; the caller's frame is told to continue
   behind the CallFunction; the heap has one more object *)
Lemma ex9_call ip h ar stk args g top rest hp pos :
  code_at P ip (IFunctionPointer h ar) -> code_at P (ip + 9) ICallFunction ->
  h < 4294967296 -> ar = N.of_nat (length args) -> ar < 4294967296 ->
  (S (length (stk ++ args)) < cap)%nat -> (S (length rest) < call_stack_size)%nat ->
  assoc h (p_labels P) = Some pos ->
  steps9 2 (ip, stk ++ args, g, top :: rest, hp)
           (pos, stk ++ args, g,
            mkFrame (ip + 9) (ip + 10) (N.of_nat (length stk)) None :: mkFrame (fr_src top) (ip + 10) (fr_off top) (fr_clo top) :: rest,
            hp ++ [OFun h ar]).
Proof.
  intros Hc1 Hc2 Hh Har Har' Hroom Hdepth Hlab.
  set (fa := N.of_nat (length hp)).
  apply steps9_S with (c1 := (ip + 9, (stk ++ args) ++ [VObj fa], g, top :: rest, hp ++ [OFun h ar])).
  - split; [eapply code_at_lt; eauto|]. cbn [ip9 stk9 gl9 calls9 heap9]. intros reenter s rem HS.
    pose proof HS as (Hok & Hst & Hcap & Hcs & Hhp & Hop & Hlog & Hg & Hrem).
    destruct (vm_function_pointer F bld P reenter ip s h ar Hc1 Hh Har' Hok) as (E & Hok1 & Hst1 & _ & Hcs1).
    { unfold VmUpvalueProofs.cap. rewrite Hst, Hcap. exact Hroom. }
    eexists. split; [exact E|].
    split; [exact Hok1|]. split; [rewrite Hst1, Hst, Hhp; reflexivity|].
    split; [unfold pushed; cbn; rewrite upd_length; exact Hcap|].
    split; [rewrite Hcs1; exact Hcs|]. split; [unfold pushed; cbn; rewrite Hhp; reflexivity|].
    split; [exact Hop|]. split; [exact Hlog|]. split; [exact Hg | exact Hrem].
  - apply steps9_1. split; [eapply code_at_lt; eauto|]. cbn [ip9 stk9 gl9 calls9 heap9]. intros reenter s rem HS.
    pose proof HS as (Hok & Hst & Hcap & Hcs & Hhp & Hop & Hlog & Hg & Hrem).
    assert (Hfa : hget (st_heap s) fa = Some (callee_obj false h ar [])).
    { rewrite Hhp. unfold hget, fa. rewrite Nat2N.id, nth_error_app2 by lia. rewrite Nat.sub_diag. reflexivity. }
    pose proof (vm_call_function_ok F bld P reenter (ip + 9) s (stk ++ args) fa false h ar [] top rest pos
                  (code_at_opcode Hc2) Hok Hst Hfa Hcs
                  ltac:(rewrite Har, app_length; lia) Hdepth Hlab) as E.
    destruct (spop_exact s (stk ++ args) (VObj fa) Hok Hst) as (_ & Hok1 & Hst1).
    destruct (popped_components s (length (stk ++ args))) as (C1 & C2 & C3 & C4 & C5 & _ & C7 & C8).
    eexists. split; [exact E|].
    unfold St, stack_ok, stack_of in *. cbn [st_stack set_calls st_calls st_heap st_open st_log st_globals st_rem].
    unfold VmUpvalueProofs.cap in C8.
    split; [exact Hok1|]. split; [exact Hst1|]. split; [rewrite C8; exact Hcap|].
    split.
    { unfold callee_frame, caller_frame. f_equal; [|f_equal].
      - f_equal; [lia|]. rewrite Har, app_length. lia.
      - f_equal. lia. }
    split; [rewrite C3; exact Hhp|]. split; [rewrite C4; exact Hop|]. split; [rewrite C5; exact Hlog|].
    split; [rewrite C2; exact Hg | rewrite C7; exact Hrem].
Qed.

(* Return in a frame fr above prev, the value v on top: the frame is popped, the stack is cut at the frame's offset,
   v is pushed, execution continues where prev says *)
Lemma ex9_return ip stk mid v g fr prev rest hp :
  code_at P ip IReturn -> N.to_nat (fr_off fr) = length stk -> (S (length stk) < cap)%nat ->
  exec9 (ip, stk ++ mid ++ [v], g, fr :: prev :: rest, hp)
        (fr_dst prev, stk ++ [v], g, prev :: rest, hp).
Proof.
  intros Hc Hoff Hroom. split; [eapply code_at_lt; eauto|]. cbn [ip9 stk9 gl9 calls9 heap9]. intros reenter s rem HS.
  pose proof HS as (Hok & Hst & Hcap & Hcs & Hhp & Hop & Hlog & Hg & Hrem).
  pose proof (code_at_opcode Hc) as Hopc. cbn [instr_op op_code] in Hopc. step_opc Hopc. unfold i_22. rewrite Hcs.
  set (s1 := set_calls s (prev :: rest)).
  assert (Ecl : close_upvalues_from (N.to_nat (fr_off fr)) s1 = ClOk s1).
  { unfold close_upvalues_from. cbn [close_upvalues_go]. change (st_open s1) with (st_open s). rewrite Hop. reflexivity. }
  rewrite Ecl. rewrite sclear_until_exact.
  assert (Hok1 : stack_ok s1) by exact Hok.
  assert (Hst1 : stack_of s1 = stk ++ mid ++ [v]) by exact Hst.
  destruct (truncated_abs s1 (N.to_nat (fr_off fr)) Hok1) as (Hok2 & Hst2 & Hlast).
  { rewrite Hst1, Hoff, !app_length. lia. }
  rewrite Hlast, Hst1, app_assoc, last_last.
  assert (Hst2' : stack_of (truncated s1 (N.to_nat (fr_off fr))) = stk).
  { rewrite Hst2, Hst1, Hoff, firstn_app, Nat.sub_diag, firstn_all. cbn [firstn]. apply app_nil_r. }
  destruct (spush_exact (truncated s1 (N.to_nat (fr_off fr))) v Hok2) as (Ep & Hok3 & Hst3).
  { rewrite Hst2'. unfold VmUpvalueProofs.cap, truncated. cbn [st_stack set_stack vdata]. change (st_stack s1) with (st_stack s).
    rewrite Hcap. exact Hroom. }
  unfold push_next. rewrite Ep. eexists. split; [reflexivity|].
  split; [exact Hok3|]. split; [rewrite Hst3, Hst2'; reflexivity|].
  split; [unfold pushed, truncated; cbn; rewrite upd_length; exact Hcap|].
  split; [reflexivity|]. split; [exact Hhp|]. split; [exact Hop|]. split; [exact Hlog|]. split; [exact Hg | exact Hrem].
Qed.

End Sim9.
