(* C18 correspondence checker. Cases are VM cases printed by `harness gen C18` (native-heavy programs: typed natives
   of arity 0-4 over i64 / f64 / bool / &str / Value / Nilable<i64> / &CaoLangTable, called through CallNative and
   through native function values, re-entrant natives call1 / try1 / call0 / rb1).
   The harness registers every menu native behind a plain wrapper that records, BEFORE the typed wrapper of
   traits.rs runs, the k topmost stack values (the values the script supplied, parameter 1 deepest), and
   afterwards how the call ended; every native body records the parameters it received. These records are the
   host-log entries that start with TDeep (harness/src/vmrun.rs, TRACE_CALLS); they are removed before the
   model comparison and are judged by the specification oracle alone.
   Codes: 1 = the model Vm.v predicts something else (outcome incl. TaskFailure name and the number of the
              parameter whose conversion failed, globals, the host log = the converted arguments every native
              received, stack shape),
          2 = oracle on the observations alone (independent of Vm.v):
              - argument conversion: for every recorded invocation of a native with declared parameter types
                T_1 .. T_k and supplied values v_1 .. v_k: if [conv_spec T_i v_i] succeeds for every i, the native
                body ran and received exactly [conv_spec T_1 v_1; ..; conv_spec T_k v_k], in declaration order;
                otherwise the call ended with InvalidArgument "Failed to convert function input #n" where n is the
                first parameter in conversion order (traits.rs converts last to first) whose conversion fails, and
                the body did not run. [conv_spec] is written from the documented conversions of value.rs
                (TryFrom<Value> for i64 / f64 / &str / &CaoLangTable / Nilable<T>, From<Value> for bool).
              - every rb1 log entry [ "rb1"; h0; d0; h1; d1; ok; arity of the callee ]: the call stack is as deep after
                run_function as before (d1 = d0), also when the callee failed; when the callee takes exactly the one
                argument rb1 pushed and returns normally, the value stack is as high as before (h1 = h0). (A callee
                of another arity takes what it finds: run_function cannot know how many values the host pushed.)
              - error wrapping: when the last thing a run logged is the failing return of a native called from
                the top-level run, the run's error is the task failure carrying that native's name, then the name
                of its last nested native call if that one failed too, and so on (wrapping_ok),
              - names starting with "__" are rejected by register_native_function, other names are accepted; after a
                fixed history of registrations (repeated names, reserved names, a menu name) CallNative(name) runs
                the function of the last accepted registration of that name (reg_spec); the same answers compared
                with the registry model VmRegistry.v are code 1 (reg_expected),
              - self-stated expectations of the re-entry corpus: after a successful run every global want_<x> equals
                got_<x> (the caller's captured / local variables after a re-entrant native returned),
              - no run ends in a Rust panic (VmCheck.panic_code),
          3 / 4 / 5 as in VmCheck; 3 also for a malformed record. *)
From Coq Require Import String Ascii.
From Cao Require Export VmCheck.
From Cao Require Import VmRegistry.
Local Open Scope N_scope.

Definition rb1_entry_ok (e : list tval) : bool :=
  match e with
  | [TStr n; TInt h0; TInt d0; TInt h1; TInt d1; TInt ok; TInt arity] =>
      if list_eqb N.eqb n name_rb1 then
        Z.eqb d1 d0 && (if Z.eqb ok 1 && Z.eqb arity 1 then Z.eqb h1 h0 else true)
      else true
  | _ => true
  end.

(* ------------------------------------------------------------------ *)
(* The conversion specification (value.rs), on observed values          *)
(* ------------------------------------------------------------------ *)

Inductive param_type := PInt | PFloat | PBool | PStr | PValue | PTable | PNilable (t : param_type).

Inductive conv := COk (v : tval) | CFail | CUnknown.

(* CaoLangObject::len: entries of a table, bytes of a string, 0 for function-like objects *)
Definition obj_len_spec (v : tval) : option Z :=
  match v with
  | TStr s => Some (Z.of_nat (length s))
  | TTable l => Some (Z.of_nat (length l))
  | TFun => Some 0%Z
  | _ => None
  end.

Definition tbool (x : bool) : tval := TInt (if x then 1 else 0)%Z.
Definition nan_bits_spec : N := 9221120237041090560.
Definition canon (r : N) : N := match fl_cmp r r with None => nan_bits_spec | Some _ => r end.

(* what a parameter of type [t] receives for the supplied value [v], as the harness prints it
   (i64: TInt, f64: TReal with NaN canonical, bool: TInt 0/1, &str: TStr, Value and &CaoLangTable: the tree,
   Nilable: TNil for None) *)
Fixpoint conv_spec (t : param_type) (v : tval) : conv :=
  match t with
  | PInt =>                                  (* TryFrom<Value> for i64: never fails *)
      match v with
      | TInt i => COk (TInt i)
      | TReal r => COk (TInt (fl_to_i64 r))  (* `as i64`: truncate, saturate, NaN -> 0 *)
      | TNil => COk (TInt 0)
      | TDeep => CUnknown
      | o => match obj_len_spec o with Some l => COk (TInt l) | None => CUnknown end
      end
  | PFloat =>                                (* TryFrom<Value> for f64: never fails *)
      match v with
      | TReal r => COk (TReal (canon r))
      | TInt i => COk (TReal (fl_of_Z i))
      | TNil => COk (TReal 0)
      | TDeep => CUnknown
      | o => match obj_len_spec o with Some l => COk (TReal (fl_of_Z l)) | None => CUnknown end
      end
  | PBool =>                                 (* Value::as_bool *)
      match v with
      | TNil => COk (tbool false)
      | TInt i => COk (tbool (negb (i =? 0)%Z))
      | TReal r => COk (tbool (match fl_cmp r 0 with Some Eq => false | _ => true end))
      | TStr s => COk (tbool (negb (Nat.eqb (length s) 0)))
      | TTable l => COk (tbool (negb (Nat.eqb (length l) 0)))
      | TFun => COk (tbool true)
      | TDeep => CUnknown
      end
  | PStr => match v with TStr s => COk (TStr s) | TDeep => CUnknown | _ => CFail end
  | PTable => match v with TTable l => COk (TTable l) | TDeep => CUnknown | _ => CFail end
  | PValue => COk v
  | PNilable t' => match v with TNil => COk TNil | _ => conv_spec t' v end
  end.

Fixpoint bytes_of (s : string) : list N :=
  match s with EmptyString => [] | String a r => N_of_ascii a :: bytes_of r end.

(* declared parameter types of the natives registered by the harness (harness/src/vmrun.rs) *)
Definition signatures : list (list N * list param_type) :=
  [ (bytes_of "log1", [PValue]); (bytes_of "sub2", [PInt; PInt]); (bytes_of "fail0", []);
    (bytes_of "str1", [PStr]); (bytes_of "mix3", [PFloat; PInt; PValue]);
    (bytes_of "call1", [PValue; PValue]); (bytes_of "try1", [PValue; PValue]); (bytes_of "call0", [PValue]);
    (bytes_of "t4", [PInt; PFloat; PBool; PStr]); (bytes_of "nil1", [PNilable PInt]);
    (bytes_of "tab1", [PTable]); (bytes_of "cat2", [PStr; PStr]); (bytes_of "rb1", [PValue; PValue]) ].

Fixpoint signature (name : list N) (l : list (list N * list param_type)) : option (list param_type) :=
  match l with
  | [] => None
  | (n, sg) :: r => if list_eqb N.eqb n name then Some sg else signature name r
  end.

Fixpoint conv_all (sg : list param_type) (vs : list tval) : option (list conv) :=
  match sg, vs with
  | [], [] => Some []
  | t :: sg', v :: vs' => match conv_all sg' vs' with Some r => Some (conv_spec t v :: r) | None => None end
  | _, _ => None
  end.

(* 1-based number of the last parameter that fails = the first one in conversion order *)
Fixpoint last_fail (i : Z) (l : list conv) : option Z :=
  match l with
  | [] => None
  | c :: r =>
      match last_fail (i + 1) r with
      | Some n => Some n
      | None => match c with CFail => Some i | _ => None end
      end
  end.
Definition has_unknown (l : list conv) : bool := existsb (fun c => match c with CUnknown => true | _ => false end) l.
Definition conv_values (l : list conv) : list tval := flat_map (fun c => match c with COk v => [v] | _ => [] end) l.

(* records: kind 0 = call with the supplied values, 2 = the parameters the body received, 1 = return *)
Definition record_of (e : list tval) : option (list N * Z * list tval) :=
  match e with
  | TDeep :: TStr name :: TInt kind :: items => Some (name, kind, items)
  | _ => None
  end.
Definition is_record (e : list tval) : bool := match e with TDeep :: _ => true | _ => false end.

(* [prev] = the call record directly before the current entry, if any *)
Fixpoint check_records (panicked : bool) (prev : option (list N * list tval)) (l : list (list tval)) : list N :=
  match l with
  | [] =>
      match prev with
      | Some _ => if panicked then [] else [2]      (* a call that neither ran nor returned *)
      | None => []
      end
  | e :: rest =>
      if is_record e then
        match record_of e with
        | None => [3]
        | Some (name, kind, items) =>
            if (kind =? 0)%Z then
              (match prev with Some _ => [2] | None => [] end) ++ check_records panicked (Some (name, items)) rest
            else
              (match prev with
               | None =>
                   (* a record that does not directly follow a call: only a return without conversion failure *)
                   if (kind =? 1)%Z then match items with [TInt r] => if (r <=? 0)%Z then [] else [2] | _ => [3] end
                   else [2]
               | Some (cname, raws) =>
                   if negb (list_eqb N.eqb cname name) then [2]
                   else
                     match signature cname signatures with
                     | None => [3]
                     | Some sg =>
                         match conv_all sg raws with
                         | None => [3]
                         | Some cs =>
                             if has_unknown cs then [3]
                             else
                               match last_fail 1 cs with
                               | None =>
                                   (* every conversion succeeds: the body ran with exactly these parameters *)
                                   if (kind =? 2)%Z && list_eqb tval_eqb items (conv_values cs) then [] else [2]
                               | Some n =>
                                   (* InvalidArgument naming parameter n, the body did not run *)
                                   if (kind =? 1)%Z then
                                     match items with [TInt r] => if (r =? n)%Z then [] else [2] | _ => [3] end
                                   else [2]
                               end
                         end
                     end
               end) ++ check_records panicked None rest
        end
      else
        (match prev with Some _ => [2] | None => [] end) ++ check_records panicked None rest
  end.

(* ---- error wrapping, from the records alone ----
   The call / return records nest.  A native whose call ended with an error (return code <> 0) contributes its
   name, followed by the chain of its LAST nested native call when that one failed too (the re-entrant natives of
   the menu hand the callee's error on; try1 swallows it and returns 0).  When the last thing a run logged is the
   failing return of a native called from the top-level run, the run ended right there, and its error must be the
   task failure carrying exactly that chain of names (names of natives that are not behind the recording wrapper -
   the library's __min / __max / __sort - are ignored). *)
Fixpoint tf_names (e : err) : list (list N) :=
  match e with ETaskFailure n inner => n :: tf_names inner | _ => [] end.
Definition recorded_name (n : list N) : bool :=
  match signature n signatures with Some _ => true | None => false end.

(* stack: (name, chain of the last nested call); result: chain of the last top-level call if it is the last event *)
Fixpoint wrap_chain (stack : list (list N * list (list N))) (top_last : list (list N)) (l : list (list tval))
  : option (list (list N)) :=
  match l with
  | [] => match stack with [] => Some top_last | _ => None end
  | e :: rest =>
      match record_of e with
      | Some (name, kind, items) =>
          if (kind =? 0)%Z then wrap_chain ((name, []) :: stack) [] rest
          else if (kind =? 1)%Z then
            match stack, items with
            | (n, lastc) :: st, [TInt r] =>
                let chain := if (r =? 0)%Z then [] else n :: lastc in
                match st with
                | [] => wrap_chain [] chain rest
                | (pn, _) :: st' => wrap_chain ((pn, chain) :: st') [] rest
                end
            | [], [TInt r] =>
                (* a return without a recorded call (conversion failure before the wrapper saw the call cannot
                   happen; be permissive) *)
                wrap_chain [] [] rest
            | _, _ => None
            end
          else wrap_chain stack top_last rest          (* parameters as received *)
      | None =>
          match stack with
          | [] => wrap_chain [] [] rest                (* something else happened after the last top-level call *)
          | _ => wrap_chain stack top_last rest
          end
      end
  end.

Definition wrapping_ok (o : obs) : bool :=
  match ob_out o with
  | ObPanic => true
  | out =>
      match wrap_chain [] [] (ob_log o) with
      | None => true                                   (* malformed nesting is reported by check_records *)
      | Some [] => true
      | Some chain =>
          match out with
          | ObErr e _ => list_eqb (list_eqb N.eqb) (filter recorded_name (tf_names e)) chain
          | _ => false                                 (* a native failed at the top level and the run did not *)
          end
      end
  end.

(* ---- registration history (harness/src/vmrun.rs REG_OPS / REG_PROBES: the same constants) ----
   VmReserved answers = 4 fixed answers (rejected "__mine", accepted "_x", rejected "__min", accepted "a__b"), then
   for the history REG_OPS run on a new VM after the menu: accepted? per registration; then for every probe name,
   for every id 1..15 whether the function registered with that id ran when the program CallNative(probe) was run,
   and whether the run ended with ProcedureNotFound; finally 3 observations of a program that uses std.min / max /
   sorted / to_array run after the history (Ok, same globals as on a VM without the history, no registered
   function ran). *)
Definition reg_names : list (string * N) :=
  [("__mine", 1); ("_x", 2); ("__min", 3); ("a__b", 4); ("f", 5); ("f", 6); ("_x", 7); ("__to_array", 8);
   ("log1", 9); ("_", 10); ("__", 11);
   (* ordinary names with the handles of __min / __max / __sort / __to_array (N-C18-1, repaired by d80a79a) *)
   ("tuewgsg", 12); ("zjyliqo", 13); ("catpprn", 14); ("hcsvhfo", 15)]%string.
Definition reg_probe_names : list string := ["f"; "_x"; "a__b"; "log1"; "__mine"; "g"; "_"; "__"]%string.
Definition reg_ids : list N := [1; 2; 3; 4; 5; 6; 7; 8; 9; 10; 11; 12; 13; 14; 15].

Definition reg_ops : list (list N * hostfn) := map (fun x => (bytes_of (fst x), UserFn (snd x))) reg_names.

(* the library's natives are still the registered ones: then a program using std.min / max / sorted / to_array
   runs as on a VM without the history (3 observations: the run is Ok, its globals are those of the fresh VM, no
   registered function ran) *)
Definition std_intact (r : registry) : bool :=
  forallb (fun n => match reg_get r (handle_of_bytes (native_name n)) with
                    | Some (mkProc nm (StdFn m)) =>
                        list_eqb N.eqb nm (native_name n) && list_eqb N.eqb (native_name m) (native_name n)
                    | _ => false
                    end) std_natives.

(* model: VmRegistry.run_public on the registry of a new VM with the menu *)
Definition reg_expected : list bool :=
  let '(r, answers) := run_public menu_registry reg_ops in
  map is_ok answers ++
  flat_map (fun p =>
              let got := reg_get r (handle_of_bytes (bytes_of p)) in
              map (fun k => match got with Some (mkProc _ (UserFn id)) => N.eqb id k | _ => false end) reg_ids ++
              [match got with None => true | Some _ => false end]) reg_probe_names ++
  [std_intact r; std_intact r; std_intact r].

(* specification, by NAME (independent of the registry model and of the hash function): a library native is never
   replaced, and an accepted registration is callable under its name - so a name starting with "__" is rejected,
   and so are the four names known to share a handle with a library native; every other name is accepted;
   CallNative(name) runs the function of the last accepted registration of that name, a menu native if the name was
   never acceptably registered and is in the menu, otherwise ProcedureNotFound; the library still works *)
Definition reserved_string (s : string) : bool :=
  match s with String "_" (String "_" _) => true | _ => false end.
Definition shares_library_handle (s : string) : bool :=
  existsb (String.eqb s) ["tuewgsg"; "zjyliqo"; "catpprn"; "hcsvhfo"]%string.
Definition spec_accepts (s : string) : bool := negb (reserved_string s) && negb (shares_library_handle s).
Definition reg_spec : list bool :=
  map (fun x => spec_accepts (fst x)) reg_names ++
  flat_map (fun p =>
              let winner := find (fun x => String.eqb (fst x) p && spec_accepts (fst x)) (rev reg_names) in
              map (fun k => match winner with Some (_, id) => N.eqb id k | None => false end) reg_ids ++
              [match winner with
               | Some _ => false
               | None => negb (existsb (fun n => list_eqb N.eqb (native_name n) (bytes_of p)) all_natives)
               end]) reg_probe_names ++
  [true; true; true].

Definition strip_obs (o : obs) : obs :=
  mkObs (ob_out o) (ob_globals o) (filter (fun e => negb (is_record e)) (ob_log o)) (ob_shape o).
Definition strip_case (c : vmcase) : vmcase :=
  match c with
  | VmProg d m P runs => VmProg d m P (map (fun r => (fst r, strip_obs (snd r))) runs)
  | c => c
  end.

(* expectations a program states itself: the corpus programs about re-entry store what the property demands of the
   caller's variables after a host function re-entered the interpreter ("exactly as before the call") into globals
   want_<x>, and what they read into got_<x>; after a successful run the two must be equal (independent of Vm.v) *)
Definition pre_want : list N := [119; 97; 110; 116; 95].
Definition pre_got : list N := [103; 111; 116; 95].
Fixpoint strip_prefix (p l : list N) : option (list N) :=
  match p, l with
  | [], _ => Some l
  | a :: p', b :: l' => if N.eqb a b then strip_prefix p' l' else None
  | _ :: _, [] => None
  end.
Fixpoint glookup (n : list N) (g : list (list N * option tval)) : option (option tval) :=
  match g with
  | [] => None
  | (m, v) :: r => if list_eqb N.eqb n m then Some v else glookup n r
  end.
Definition wants_ok (o : obs) : bool :=
  match ob_out o with
  | ObOk =>
      forallb (fun e => match strip_prefix pre_want (fst e) with
                        | Some x => match glookup (pre_got ++ x) (ob_globals o) with
                                    | Some v => opt_eqb tval_eqb v (snd e)
                                    | None => false
                                    end
                        | None => true
                        end) (ob_globals o)
  | _ => true
  end.

Definition oracle (c : vmcase) : list N :=
  match c with
  | VmProg _ mode _ runs =>
      flat_map (fun r => if wants_ok (snd r) then [] else [2]) runs ++
      flat_map (fun r => if forallb rb1_entry_ok (ob_log (snd r)) then [] else [2]) runs ++
      flat_map (fun r => check_records (match ob_out (snd r) with ObPanic => true | _ => false end) None
                                       (ob_log (snd r))) runs ++
      (* only for runs on fresh VMs: in the history modes the host log accumulates over the runs *)
      match mode with
      | MFresh => flat_map (fun r => if wrapping_ok (snd r) then [] else [2]) runs
      | _ => []
      end
  | VmReserved answers =>
      (if forallb (fun b => b) (firstn 4 answers) then [] else [2]) ++
      (if list_eqb Bool.eqb (skipn 4 answers) reg_spec then [] else [2])
  | VmOpTable _ => []
  end.

(* code 1: the registry model (VmRegistry.v) on the fixed registration history *)
Definition check_registry (c : vmcase) : list N :=
  match c with
  | VmReserved answers => if list_eqb Bool.eqb (skipn 4 answers) reg_expected then [] else [1]
  | _ => []
  end.

Definition check1 (c : vmcase) : list N := VmCheck.check1 (strip_case c) ++ check_registry c ++ oracle c.
Definition check_all := CheckUtil.check_all check1.
