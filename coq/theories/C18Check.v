(* C18 correspondence checker. Cases are VM cases printed by `harness gen C18` (native-heavy programs: typed natives
   of arity 0-4 over i64 / f64 / bool / &str / Value / Nilable<i64> / &CaoLangTable, called through CallNative and
   through native function values, re-entrant natives call1 / try1 / call0 / rb1).
   Codes: 1 = the model Vm.v predicts something else (outcome incl. TaskFailure name and the number of the
              parameter whose conversion failed, globals, the host log = the converted arguments every native
              received, stack shape),
          2 = oracle on the observations alone:
              - every rb1 log entry [ "rb1"; h0; d0; h1; d1; ok; arity of the callee ]: the call stack is as deep after
                run_function as before (d1 = d0), also when the callee failed; when the callee takes exactly the one
                argument rb1 pushed and returns normally, the value stack is as high as before (h1 = h0). (A callee
                of another arity takes what it finds: run_function cannot know how many values the host pushed.)
              - names starting with "__" are rejected by register_native_function, other names are accepted,
          3 / 4 / 5 as in VmCheck. *)
From Cao Require Export VmCheck.
Local Open Scope N_scope.

Definition rb1_entry_ok (e : list tval) : bool :=
  match e with
  | [TStr n; TInt h0; TInt d0; TInt h1; TInt d1; TInt ok; TInt arity] =>
      if list_eqb N.eqb n name_rb1 then
        Z.eqb d1 d0 && (if Z.eqb ok 1 && Z.eqb arity 1 then Z.eqb h1 h0 else true)
      else true
  | _ => true
  end.

Definition oracle (c : vmcase) : list N :=
  match c with
  | VmProg _ _ _ runs =>
      flat_map (fun r => if forallb rb1_entry_ok (ob_log (snd r)) then [] else [2]) runs
  | VmReserved answers => if forallb (fun b => b) answers then [] else [2]
  | VmOpTable _ => []
  end.

Definition check1 (c : vmcase) : list N := VmCheck.check1 c ++ oracle c.
Definition check_all := CheckUtil.check_all check1.
