(* Executable correspondence checker for C08 (name resolution and calls).
   A case: a module tree with one call site (function `zzsite` of the module at [ns], which calls or
   references [name] with [nargs] arguments 100, 101, ..), the full result of the crate's compile, and
   what running the program on the real Vm showed: which body ran (every function stores its position
   in the compiler's function order into the global `ran`), the values its parameters had (`p0`..),
   the value the call returned (`ret`) and the caller's local after the call (`keep`).
     code 1: the compiler model's compile differs from the crate's (any component);
     code 2: the specification (ResolveSpec.spec_resolve / static_faults, independent of the compiler
             model) disagrees with the error or with what ran, or the calling convention is violated;
     code 10 (known finding N-C08-3): the call site's name designates the entry function `main` of the
             root, the program compiles, and the run fails with ProcedureNotFound of main's handle (the
             first function gets no label).  Any other observation in that class is an ordinary code 2,
             and a case on which model and crate differ never carries code 10. *)
From Cao Require Export CheckUtil CardAst Bytecode Compiler Wellformed C10Check ResolveSpec.
From Cao Require Import Bits StdlibGen.
Local Open Scope N_scope.

Inductive runobs :=
| RNotRun
| RRunErr
| RNoProc (h : N)                     (* the run failed with ProcedureNotFound(Handle(h)) *)
| RRan (ran : option Z) (params : list (option Z)) (ret keep : option Z).

Inductive c08case :=
| C08Case (m : module) (recursion_limit : N) (debug : bool) (cobs : cresult)
          (ns : list str) (name : str) (nargs : nat) (robs : runobs).
Definition mk08 := C08Case.

Definition oz_eqb : option Z -> option Z -> bool := opt_eqb Z.eqb.

Definition inject_std (m : module) : module :=
  match m with Module subs funs imps => Module (subs ++ [(w_std, std_module)]) funs imps end.

Definition fault_of (e : cerr) : option fault :=
  match e with
  | EDuplicateModule _ => Some FDupModule
  | ENoMain => Some FNoMain
  | ERecursionLimitReached _ => Some FRecLimit
  | EBadImport _ => Some FBadImport
  | EAmbigousImport _ => Some FAmbiguousImport
  | EBadFunctionName _ => Some FBadFnName
  | EDuplicateName _ => Some FDupName
  | _ => None
  end.
Definition fault_eqb (a b : fault) : bool :=
  match a, b with
  | FDupModule, FDupModule | FNoMain, FNoMain | FRecLimit, FRecLimit | FBadImport, FBadImport
  | FAmbiguousImport, FAmbiguousImport | FBadFnName, FBadFnName | FDupName, FDupName => true
  | _, _ => false
  end.

(* arguments 100, 101, ..; observed convention: the LAST argument is bound to the FIRST declared
   parameter (process_function declares the parameters in reverse, so parameter j of k is local
   k-1-j, i.e. the (k-1-j)-th pushed value) *)
Fixpoint arg_values (k : nat) (v : Z) : list (option Z) :=
  match k with O => [] | S k' => Some v :: arg_values k' (v + 1)%Z end.
Definition expected_params (k : nat) : list (option Z) := rev (arg_values k 100%Z).

(* every generated body returns 9000 + position when its position is even, nothing otherwise *)
Definition expected_ret (pos : nat) : option Z :=
  if Nat.even pos then Some (9000 + Z.of_nat pos)%Z else None.

(* the designated function is the entry function: `main` of the root module *)
Definition is_root_main (f : fid) : bool :=
  match fst f with [] => seq_eqb (snd f) w_main | _ => false end.

(* decidable class predicate of N-C08-3 on a case: no static fault, and the specification designates the
   root's `main` for the call site *)
Definition class_call_main (c : c08case) : bool :=
  match c with
  | C08Case m limit _ _ ns name _ _ =>
      let root := inject_std m in
      match static_faults root limit, find_module root ns with
      | [], Some cm =>
          match spec_resolve root ns (m_imports cm) name with
          | SFound f => is_root_main f
          | _ => false
          end
      | _, _ => false
      end
  end.

Definition spec_codes08 (c : c08case) : list N :=
  match c with
  | C08Case m limit _ cobs ns name nargs robs =>
      let root := inject_std m in
      match static_faults root limit with
      | f :: fs =>
          match cobs with
          | CErr e _ =>
              match fault_of e with
              | Some x => if existsb (fault_eqb x) (f :: fs) then [] else [2]
              | None => [2]
              end
          | _ => [2]
          end
      | [] =>
          match find_module root ns with
          | None => [3]
          | Some cm =>
              match spec_resolve root ns (m_imports cm) name with
              | SNotFound =>
                  match cobs with CErr (EInvalidJump n) _ => if str_eqb n name then [] else [2] | _ => [2] end
              | SSuperLimit =>
                  match cobs with CErr ESuperLimitReached _ => [] | _ => [2] end
              | SFound f =>
                  if is_root_main f then
                    (* class N-C08-3 *)
                    match fn_position root [] w_main 0, cobs, robs with
                    | Some pos, COk _, RNoProc h => if h =? handle_from_u64 (N.of_nat pos) then [10] else [2]
                    | None, _, _ => [3]
                    | _, _, _ => [2]
                    end
                  else
                  match fn_position root (fst f) (snd f) 0, function_at root f, cobs, robs with
                  | Some pos, Some fn, COk _, RRan ran params ret keep =>
                      if oz_eqb ran (Some (Z.of_nat pos))
                         && (negb (Nat.eqb (length (f_args fn)) nargs)
                             || list_eqb oz_eqb params (expected_params nargs))
                         && oz_eqb ret (expected_ret pos)
                         && oz_eqb keep (Some 77%Z)
                      then [] else [2]
                  | None, _, _, _ | _, None, _, _ => [3]
                  | _, _, _, _ => [2]
                  end
              end
          end
      end
  end.

(* ---- former finding classes (repaired in /repo; kept as decidable descriptions of the inputs, no
   longer used by check1: a disagreement on such a case is an ordinary code 2) ----
   10: the call goes through a module-prefix import whose path starts with `super`: resolve_function
       builds "<ns'>.<alias>.<post-super part of alias>" instead of "<ns'>.<module path>.<rest of name>"
       and never finds the function;
   11: an import of the caller's module has a segment that ends in "super" without being `super`
       (e.g. a module called xsuper): super_depth searches the substring "super." and counts it *)
Fixpoint ends_with (s suf : str) : bool :=
  seq_eqb s suf || match s with [] => false | _ :: r => ends_with r suf end.
Definition class_super_substring (imports : list str) : bool :=
  existsb (fun imp => existsb (fun seg => negb (seq_eqb seg w_super) && ends_with seg w_super)
                              (removelast (segments imp))) imports.
Definition class_module_import_super (imports : list str) (name : str) : bool :=
  match removelast (segments name) with
  | q :: _ =>
      match import_for imports q with
      | Some isegs => match fst (strip_supers isegs) with O => false | S _ => true end
      | None => false
      end
  | [] => false
  end.
Definition known_codes08 (c : c08case) : list N :=
  match c with
  | C08Case m limit _ cobs ns name nargs robs =>
      match find_module (inject_std m) ns with
      | Some cm =>
          (if class_module_import_super (m_imports cm) name then [10] else []) ++
          (if class_super_substring (m_imports cm) then [11] else [])
      | None => []
      end
  end.

Definition check1 (c : c08case) : list N :=
  match c with
  | C08Case m limit debug cobs ns name nargs robs =>
      if negb (module_in_domain m) then [3]
      else
        let sp := spec_codes08 c in
        match cresult_diff (compile m {| o_recursion_limit := limit; o_debug := debug |}) cobs with
        | [] => sp
        | _ => 1 :: (if existsb (N.eqb 2) sp then [2] else [])
        end
  end.

Definition check_all := CheckUtil.check_all check1.
