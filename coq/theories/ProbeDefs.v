(* Generic open-addressing (linear probing) table over [list (option E)]: executable
   definitions shared by the CaoHashMap and HandleTable models.  Proofs: ProbeProofs.v *)
From Coq Require Import Arith Lia List Bool.
Import ListNotations.
From Cao Require Import Cyc.

Set Implicit Arguments.

Section ListArr.
Variable A : Type.
Definition get (t : list (option A)) (i : nat) : option A := nth i t None.
Fixpoint set (t : list (option A)) (i : nat) (v : option A) : list (option A) :=
  match t, i with
  | [], _ => []
  | _ :: r, 0 => v :: r
  | x :: r, S i' => x :: set r i' v
  end.
End ListArr.

Section Probe.
Variables (K E : Type) (keqb : K -> K -> bool) (ek : E -> K) (home : nat -> K -> nat).
Notation tbl := (list (option E)).
Variable n : nat.

(* the probe loop of find_ind: fuel = capacity; None = the loop did not stop *)
Fixpoint probe (t : tbl) (k : K) (i fuel : nat) : option nat :=
  match fuel with
  | 0 => None
  | S f => match get t i with
           | None => Some i
           | Some e => if keqb k (ek e) then Some i else probe t k (S i mod n) f
           end
  end.

Definition find (t : tbl) (k : K) : option nat := probe t k (home n k) n.

(* backward-shift deletion (Knuth 6.4 Algorithm R): hole at i, scanning j.
   None = fuel exhausted (the real loop would not have stopped) *)
Fixpoint backshift (t : tbl) (i j fuel : nat) : option tbl :=
  match fuel with
  | 0 => None
  | S f =>
    match get t j with
    | None => Some t
    | Some e =>
      if in_cyc i j (home n (ek e)) then backshift t i (S j mod n) f
      else backshift (set (set t i (Some e)) j None) j (S j mod n) f
    end
  end.

(* entries in slot order *)
Definition contents (t : tbl) : list E :=
  flat_map (fun s => match s with Some e => [e] | None => [] end) t.
Definition occ (t : tbl) : nat := length (contents t).
End Probe.
